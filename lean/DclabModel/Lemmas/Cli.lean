import DclabModel.Model.Cli
import Std.Data.String.ToNat
/-! Helper lemmas for properties C09 and C10 (command-line tasks). Core Lean only. -/
namespace DclabModel.Cli

/-! ## C09: split windows, pruning, key order, column folds -/

/-- consecutive windows of width `s` tile the prefix of length `k*s` -/
theorem chunks_flatten {α : Type} (L : List α) (s : Nat) :
    ∀ k, ((List.range k).map (fun i => (L.drop (i * s)).take s)).flatten = L.take (k * s) := by
  intro k
  induction k with
  | zero => simp
  | succ k ih =>
    rw [List.range_succ, List.map_append, List.flatten_append, ih]
    simp only [List.map_cons, List.map_nil, List.flatten_cons, List.flatten_nil, List.append_nil]
    rw [Nat.succ_mul, List.take_add]

theorem numFiles_cover (N s : Nat) (hs : 0 < s) : N ≤ numFiles N s * s := by
  unfold numFiles
  have h1 := Nat.div_add_mod N s
  have h2 := Nat.mod_lt N hs
  by_cases h : N % s = 0
  · simp only [h, if_true, Nat.add_zero]
    rw [Nat.mul_comm]; omega
  · simp only [h, if_false]
    rw [Nat.add_mul, Nat.one_mul, Nat.mul_comm]; omega

theorem numFiles_eq_ceil (N s : Nat) (hs : 0 < s) : numFiles N s = (N + s - 1) / s := by
  unfold numFiles
  have h1 := Nat.div_add_mod N s
  have h2 := Nat.mod_lt N hs
  symm
  by_cases h : N % s = 0
  · simp only [h, if_true, Nat.add_zero]
    apply Nat.div_eq_of_lt_le
    · rw [Nat.mul_comm]; omega
    · rw [Nat.add_mul, Nat.one_mul, Nat.mul_comm]; omega
  · simp only [h, if_false]
    apply Nat.div_eq_of_lt_le
    · rw [Nat.add_mul, Nat.one_mul, Nat.mul_comm]; omega
    · rw [Nat.add_mul, Nat.add_mul, Nat.one_mul, Nat.mul_comm]; omega

theorem split_flatten (N s : Nat) (hs : 0 < s) : (split N s).flatten = List.range N := by
  unfold split window
  rw [chunks_flatten]
  apply List.take_of_length_le
  simp only [List.length_range]
  exact numFiles_cover N s hs

theorem window_length_le (N s i : Nat) : (window N s i).length ≤ s := by
  unfold window; simp only [List.length_take]; omega

theorem map_getD_range (L : List Rat) : (List.range L.length).map (fun j => L.getD j 0) = L := by
  apply List.ext_getElem
  · simp
  · intro i h1 h2
    simp at h1 ⊢
    simp [h2]

theorem sel_window (col : List Rat) (N s i : Nat) (h : col.length = N) :
    sel col (window N s i) = (col.drop (i * s)).take s := by
  unfold sel window
  rw [List.map_take, List.map_drop, ← h, map_getD_range]

theorem splitSkip_flatten_of (N s : Nat) (z0 zN : Bool) (h : (split N s).flatten = List.range N) :
    (splitSkip N s z0 zN).flatten = (List.range N).filter (keepEvent N z0 zN) := by
  unfold splitSkip
  rw [← h, List.filter_flatten]

theorem foldl_prune (rest : List Meas) : ∀ (fs : List Feat),
    rest.foldl (fun fs m => pruneStep fs m.avail) fs =
      fs.filter (fun f => rest.all (fun m => decide (f ∈ m.avail))) := by
  induction rest with
  | nil => intro fs; simp only [List.foldl_nil, List.all_nil]; exact (List.filter_eq_self.mpr (fun _ _ => rfl)).symm
  | cons m r ih =>
    intro fs
    rw [List.foldl_cons, ih, pruneStep, List.filter_filter]
    congr 1
    funext f
    simp only [List.all_cons]
    exact Bool.and_comm _ _

/-! key order -/
theorem keyLe_iff (a b : Meas) :
    keyLe a b = true ↔ a.ts < b.ts ∨ (a.ts = b.ts ∧ a.run ≤ b.run) := by
  simp [keyLe]

theorem keyLe_total (a b : Meas) : (keyLe a b || keyLe b a) = true := by
  simp only [Bool.or_eq_true, keyLe_iff]
  grind

theorem keyLe_trans (a b c : Meas) (h1 : keyLe a b = true) (h2 : keyLe b c = true) :
    keyLe a c = true := by
  rw [keyLe_iff] at *
  grind

theorem foldl_appendMeas_out (feats : List Feat) (t0 : Rat) (f : Feat) (hf : f ∉ feats) :
    ∀ (rest : List Meas) (out : Feat → List Rat),
      (rest.foldl (appendMeas feats t0) out) f = out f := by
  intro rest
  induction rest with
  | nil => intro out; rfl
  | cons m r ih => intro out; rw [List.foldl_cons, ih]; simp [appendMeas, hf]

/-- columns whose appended block does not depend on what was written before -/
theorem foldl_appendMeas_indep (feats : List Feat) (t0 : Rat) (f : Feat) (hf : f ∈ feats)
    (g : Meas → List Rat) (hg : ∀ acc m, shiftCol acc m (m.ts - t0) f = g m) :
    ∀ (rest : List Meas) (out : Feat → List Rat),
      (rest.foldl (appendMeas feats t0) out) f = out f ++ (rest.map g).flatten := by
  intro rest
  induction rest with
  | nil => intro out; simp
  | cons m r ih =>
    intro out
    rw [List.foldl_cons, ih]
    simp only [appendMeas, hf, if_true, hg, List.map_cons, List.flatten_cons, List.append_assoc]

theorem enumFrom_length (b c : Nat) : (enumFrom b c).length = c := by simp [enumFrom]

theorem enumFrom_append (n c : Nat) : enumFrom 0 n ++ enumFrom n c = enumFrom 0 (n + c) := by
  simp only [enumFrom, ← List.map_append]
  congr 1
  show List.range' 1 n ++ List.range' (n + 1) c = List.range' 1 (n + c)
  rw [Nat.add_comm n 1, List.range'_append_1]

theorem foldl_appendMeas_index (feats : List Feat) (t0 : Rat) (hf : Feat.index ∈ feats) :
    ∀ (rest : List Meas) (out : Feat → List Rat) (n : Nat), out .index = enumFrom 0 n →
      (rest.foldl (appendMeas feats t0) out) .index = enumFrom 0 (n + totalEvents rest) := by
  intro rest
  induction rest with
  | nil => intro out n h; simpa [totalEvents] using h
  | cons m r ih =>
    intro out n h
    rw [List.foldl_cons, ih _ (n + (m.col .index).length)]
    · simp [totalEvents, Nat.add_assoc]
    · simp only [appendMeas, hf, if_true, shiftCol, h, enumFrom_length, enumFrom_append]

theorem roundHalfEven_zero : roundHalfEven 0 = 0 := by
  have h : (0 : Rat).floor = 0 := by simpa using Rat.floor_intCast 0
  unfold roundHalfEven
  simp only [h]
  have : ((0 : Int) : Rat) = 0 := rfl
  rw [this, if_pos (by grind)]

/-! ## C09 (session 4): prefixed logs / tables, `index_online` re-basing, empty parts -/

theorem joinLogsFrom_mem (m : Meas) (nl : String × List String) (hl : nl ∈ m.logs) :
    ∀ (l : List Meas) (b i : Nat), l[i]? = some m →
      (srcPrefix (b + i) ++ nl.1, nl.2) ∈ joinLogsFrom b l := by
  intro l
  induction l with
  | nil => intro b i h; simp at h
  | cons x r ih =>
    intro b i h
    cases i with
    | zero =>
      simp at h; subst h
      simp only [joinLogsFrom, List.mem_append]
      left
      simp only [prefixedLogs, List.mem_map]
      exact ⟨nl, hl, rfl⟩
    | succ i =>
      simp only [joinLogsFrom, List.mem_append]
      right
      have := ih (b + 1) i (by simpa using h)
      rwa [show b + 1 + i = b + (i + 1) by omega] at this

theorem foldl_appendMeas_indexOnline (feats : List Feat) (t0 : Rat)
    (hf : Feat.indexOnline ∈ feats) :
    ∀ (rest : List Meas) (out : Feat → List Rat),
      (rest.foldl (appendMeas feats t0) out) .indexOnline =
        rebaseAll (out .indexOnline) (rest.map (fun m => m.col .indexOnline)) := by
  intro rest
  induction rest with
  | nil => intro out; rfl
  | cons m r ih =>
    intro out
    rw [List.foldl_cons, ih]
    simp only [List.map_cons, rebaseAll, List.foldl_cons]
    congr 1
    simp only [appendMeas, hf, if_true, shiftCol, rebaseStep, rebaseBase]

theorem rebaseAll_prefix (blocks : List (List Rat)) :
    ∀ first : List Rat, ∃ t, rebaseAll first blocks = first ++ t ∧
      t.length = (blocks.map List.length).sum := by
  induction blocks with
  | nil => intro first; exact ⟨[], by simp [rebaseAll], rfl⟩
  | cons b r ih =>
    intro first
    obtain ⟨t, ht, hl⟩ := ih (rebaseStep first b)
    refine ⟨b.map (· + rebaseBase first) ++ t, ?_, ?_⟩
    · simp only [rebaseAll, List.foldl_cons] at ht ⊢
      rw [ht]; simp [rebaseStep, List.append_assoc]
    · simp [hl]

theorem sorted_le_getLast (l : List Rat) (h : l.Pairwise (· ≤ ·)) (x : Rat)
    (hx : l.getLast? = some x) : ∀ a ∈ l, a ≤ x := by
  obtain ⟨ys, rfl⟩ := List.getLast?_eq_some_iff.mp hx
  intro a ha
  rw [List.pairwise_append] at h
  rcases List.mem_append.mp ha with h1 | h1
  · exact h.2.2 a h1 x (by simp)
  · simp at h1; subst h1; exact Rat.le_refl

theorem rebaseStep_sorted (acc c : List Rat) (ha : acc.Pairwise (· ≤ ·))
    (hc : c.Pairwise (· ≤ ·)) (hn : ∀ v ∈ c, 0 ≤ v) : (rebaseStep acc c).Pairwise (· ≤ ·) := by
  unfold rebaseStep
  rw [List.pairwise_append]
  refine ⟨ha, ?_, ?_⟩
  · rw [List.pairwise_map]
    exact hc.imp (by intro a b hab; grind)
  · intro a ha' b hb
    simp only [List.mem_map] at hb
    obtain ⟨v, hv, rfl⟩ := hb
    have hv0 := hn v hv
    unfold rebaseBase
    cases hl : acc.getLast? with
    | none =>
      rw [List.getLast?_eq_none_iff] at hl
      subst hl
      simp at ha'
    | some l =>
      have := sorted_le_getLast acc ha l hl a ha'
      simp only
      grind

theorem rebaseAll_sorted (blocks : List (List Rat)) :
    ∀ first : List Rat, first.Pairwise (· ≤ ·) →
      (∀ b ∈ blocks, b.Pairwise (· ≤ ·) ∧ ∀ v ∈ b, 0 ≤ v) →
      (rebaseAll first blocks).Pairwise (· ≤ ·) := by
  induction blocks with
  | nil => intro first h _; simpa [rebaseAll] using h
  | cons b r ih =>
    intro first h hb
    have hb0 := hb b (List.mem_cons_self ..)
    simp only [rebaseAll, List.foldl_cons]
    exact ih _ (rebaseStep_sorted first b h hb0.1 hb0.2)
      (fun b' hb' => hb b' (List.mem_cons_of_mem _ hb'))

theorem lt_numFiles_mul (N s i : Nat) (hs : 0 < s) (hi : i < numFiles N s) : i * s < N := by
  unfold numFiles at hi
  have h1 := Nat.div_add_mod N s
  have h2 := Nat.mod_lt N hs
  by_cases h0 : N % s = 0
  · simp only [h0, if_true, Nat.add_zero] at hi
    have h3 : (i + 1) * s ≤ (N / s) * s := Nat.mul_le_mul_right s hi
    rw [Nat.mul_comm (N / s) s, Nat.add_mul] at h3
    omega
  · simp only [h0, if_false] at hi
    have h3 : i * s ≤ (N / s) * s := Nat.mul_le_mul_right s (by omega)
    rw [Nat.mul_comm (N / s) s] at h3
    omega

theorem window_ne_nil (N s i : Nat) (hs : 0 < s) (hi : i < numFiles N s) : window N s i ≠ [] := by
  have h := lt_numFiles_mul N s i hs hi
  intro hw
  have hl := congrArg List.length hw
  simp only [window, List.length_take, List.length_drop, List.length_range, List.length_nil] at hl
  omega

theorem two_le_numFiles (N s : Nat) (hs : 0 < s) (hsN : s < N) : 2 ≤ numFiles N s := by
  have hcover := numFiles_cover N s hs
  rcases Nat.lt_or_ge (numFiles N s) 2 with h | h
  · exfalso
    have : numFiles N s * s ≤ 1 * s := Nat.mul_le_mul_right s (by omega)
    omega
  · exact h

theorem firstEmpty_none_iff (l : List (List Nat)) :
    firstEmpty l = none ↔ ∀ p ∈ l, p ≠ [] := by
  induction l with
  | nil => simp [firstEmpty]
  | cons p r ih =>
    cases p with
    | nil => simp [firstEmpty]
    | cons a t => simp [firstEmpty, ih]

theorem firstEmpty_some (l : List (List Nat)) : ∀ k, firstEmpty l = some k →
    l[k]? = some [] ∧ ∀ i, i < k → ∃ p, l[i]? = some p ∧ p ≠ [] := by
  induction l with
  | nil => intro k h; simp [firstEmpty] at h
  | cons p r ih =>
    intro k h
    cases p with
    | nil =>
      simp [firstEmpty] at h
      subst h
      exact ⟨rfl, fun i hi => absurd hi (Nat.not_lt_zero i)⟩
    | cons a t =>
      simp only [firstEmpty, List.isEmpty_cons, Bool.false_eq_true, if_false,
        Option.map_eq_some_iff] at h
      obtain ⟨k', hk', rfl⟩ := h
      obtain ⟨h1, h2⟩ := ih k' hk'
      refine ⟨by simpa using h1, ?_⟩
      intro i hi
      cases i with
      | zero => exact ⟨a :: t, rfl, by simp⟩
      | succ i => simpa using h2 i (by omega)

/-! ## C10: the protocol automaton -/

theorem get_filter_ne (fs : FS) (p q : Path) :
    get (fs.filter (fun e => !decide (e.1 = p))) q = if q = p then none else get fs q := by
  induction fs with
  | nil => simp [get]
  | cons e r ih =>
    obtain ⟨a, f⟩ := e
    by_cases hap : a = p
    · subst hap
      by_cases hq : q = a
      · subst hq; simp [ih]
      · have : ¬ a = q := fun h => hq h.symm
        simp [get, ih, hq, this]
    · by_cases hq : q = p
      · subst hq; simp [hap, get, ih]
      · by_cases haq : a = q
        · subst haq; simp [hap, get]
        · simp [hap, get, ih, hq, haq]

/-- `upd` is a point update of the lookup function -/
theorem get_upd (fs : FS) (p : Path) (v : Option File) (q : Path) :
    get (upd fs p v) q = if q = p then v else get fs q := by
  unfold upd
  cases v with
  | none => simp only [get_filter_ne]
  | some f =>
    by_cases hq : q = p
    · subst hq; simp [get]
    · have : ¬ p = q := fun h => hq h.symm
      simp [get, get_filter_ne, hq, this]

theorem get_closeAll (fs : FS) (p : Path) :
    get (closeAll fs) p = (get fs p).map (fun f => ({ f with openW := false } : File)) := by
  unfold closeAll
  induction fs with
  | nil => simp [get]
  | cons e r ih =>
    obtain ⟨a, f⟩ := e
    by_cases h : a = p
    · simp [get, h]
    · simp [get, h, ih]

theorem quiet_close_eq {f : File} (h : f.openW = false) : ({ f with openW := false } : File) = f := by
  cases f; simp_all

/-- an operation leaves every path it does not mutate unchanged (a `close` of a path without
writing handle changes nothing either) -/
theorem step_other (fs : FS) (op : Op) (p : Path) (hm : p ∉ mutated op)
    (hq : quiet (get fs p) = true) : get (step fs op) p = get fs p := by
  cases op with
  | unlink q => simp [mutated] at hm; simp [step, get_upd, hm]
  | create q => simp [mutated] at hm; simp [step, get_upd, hm]
  | write q id =>
    simp [mutated] at hm
    simp only [step]; cases hfq : get fs q <;> simp [get_upd, hm]
  | close q =>
    simp only [step]
    cases hfq : get fs q with
    | none => rfl
    | some f =>
      by_cases hpq : p = q
      · subst hpq
        simp only [get_upd, if_true]
        rw [hfq] at hq
        simp [quiet] at hq
        rw [quiet_close_eq hq, hfq]
      · simp [get_upd, hpq]
  | rename a b =>
    simp [mutated] at hm
    simp only [step]; cases hfa : get fs a <;> simp [get_upd, hm]
  | openRead q => rfl
  | openAppend q =>
    simp [mutated] at hm
    simp only [step]; cases hfq : get fs q <;> simp [get_upd, hm]

theorem run_cons (fs : FS) (op : Op) (tr : List Op) : run fs (op :: tr) = run (step fs op) tr := rfl

/-- a path that is an input, or was already source/target of a rename, never changes again -/
theorem frozen (r : Roles) (p : Path) :
    ∀ (tr : List Op) (fs : FS) (dead : List Path), conformsFrom r fs dead tr = true →
      (r.ins.contains p = true ∨ dead.contains p = true) → quiet (get fs p) = true →
      ∀ k, get (run fs (tr.take k)) p = get fs p := by
  intro tr
  induction tr with
  | nil => intro fs dead _ _ _ k; simp [run]
  | cons op rest ih =>
    intro fs dead hc hp hq k
    cases k with
    | zero => simp [run]
    | succ k =>
      simp only [conformsFrom, Bool.and_eq_true] at hc
      obtain ⟨hok, hrest⟩ := hc
      have hnm : p ∉ mutated op := by
        intro hmem
        simp only [okOp, Bool.and_eq_true, List.all_eq_true] at hok
        have := hok.1 p hmem
        simp only [Bool.not_eq_true'] at this
        rcases hp with hp | hp <;> simp_all
      have hs := step_other fs op p hnm hq
      simp only [List.take_succ_cons, run_cons]
      rw [ih (step fs op) (deadAfter dead op) hrest ?_ (by rw [hs]; exact hq) k, hs]
      rcases hp with hp | hp
      · exact Or.inl hp
      · right
        cases op <;> simp_all [deadAfter]

/-- the three states a path outside the temporaries can be observed in -/
def Safe (fs0 : FS) (tr : List Op) (init v : Option File) (p : Path) : Prop :=
  v = init ∨ v = none ∨ Complete fs0 tr v p

theorem run_take_all (fs : FS) (tr : List Op) : run fs (tr.take tr.length) = run fs tr := by
  rw [List.take_length]

/-- **Invariant of the protocol.** A path that is not a temporary and has no writing handle is,
after every prefix of a conforming trace, unchanged, absent, or in its final closed state. -/
theorem not_temp_safe (r : Roles) (p : Path) (hpt : r.temps.contains p = false) :
    ∀ (tr : List Op) (fs : FS) (dead : List Path), conformsFrom r fs dead tr = true →
      dead.contains p = false → quiet (get fs p) = true →
      ∀ k, Safe fs tr (get fs p) (get (run fs (tr.take k)) p) p := by
  have hpt' : p ∉ r.temps := by simpa using hpt
  intro tr
  induction tr with
  | nil => intro fs dead _ _ _ k; left; simp [run]
  | cons op rest ih =>
    intro fs dead hc hd hq k
    cases k with
    | zero => left; simp [run]
    | succ k =>
      simp only [conformsFrom, Bool.and_eq_true] at hc
      obtain ⟨hok, hrest⟩ := hc
      simp only [List.take_succ_cons, run_cons]
      by_cases hm : p ∈ mutated op
      · -- the operation acts on `p`
        cases op with
        | unlink q =>
          simp [mutated] at hm; subst hm
          have hn : get (step fs (.unlink p)) p = none := by simp [step, get_upd]
          have := ih (step fs (.unlink p)) (deadAfter dead (.unlink p)) hrest
            (by simpa [deadAfter] using hd) (by rw [hn]; rfl) k
          rcases this with h | h | h
          · right; left; rw [h, hn]
          · right; left; exact h
          · right; right; exact h
        | create q => simp [mutated] at hm; subst hm; simp [okOp, hpt'] at hok
        | write q id => simp [mutated] at hm; subst hm; simp [okOp, hpt'] at hok
        | openAppend q => simp [mutated] at hm; subst hm; simp [okOp, hpt'] at hok
        | close q => simp [mutated] at hm
        | openRead q => simp [mutated] at hm
        | rename a b =>
          simp [mutated] at hm
          simp only [okOp, Bool.and_eq_true] at hok
          obtain ⟨_, ⟨hta, _⟩, hfa⟩ := hok
          have hpa : p ≠ a := by intro h; subst h; simp [hpt'] at hta
          have hpb : p = b := by rcases hm with h | h; exact absurd h hpa; exact h
          subst hpb
          cases hfa' : get fs a with
          | none => simp [hfa'] at hfa
          | some f =>
            simp [hfa'] at hfa
            have hs : get (step fs (.rename a p)) p = some f := by simp [step, hfa', get_upd]
            have hfz := frozen r p rest (step fs (.rename a p)) (deadAfter dead (.rename a p)) hrest
              (Or.inr (by simp [deadAfter])) (by rw [hs]; simp [quiet, hfa])
            right; right
            refine ⟨?_, f, ?_, hfa⟩
            · rw [hfz k, run_cons, ← run_take_all _ rest, hfz rest.length]
            · rw [hfz k, hs]
      · have hs := step_other fs op p hm hq
        have hd' : (deadAfter dead op).contains p = false := by
          cases op <;> simp_all [deadAfter, mutated]
        have := ih (step fs op) (deadAfter dead op) hrest hd' (by rw [hs]; exact hq) k
        rw [hs] at this
        rcases this with h | h | h
        · left; exact h
        · right; left; exact h
        · right; right; exact h

theorem run_append (fs : FS) (a b : List Op) : run fs (a ++ b) = run (run fs a) b := by
  simp [run, List.foldl_append]

theorem conformsFrom_append (r : Roles) :
    ∀ (pre : List Op) (fs : FS) (dead : List Path) (l : List Op),
      conformsFrom r fs dead (pre ++ l) = true →
      ∃ dead', conformsFrom r (run fs pre) dead' l = true := by
  intro pre
  induction pre with
  | nil => intro fs dead l h; exact ⟨dead, h⟩
  | cons op pre ih =>
    intro fs dead l h
    simp only [List.cons_append, conformsFrom, Bool.and_eq_true] at h
    exact ih _ _ l h.2

/-- the output receives exactly the file that was built under the temporary name -/
theorem renamed_is_temp (r : Roles) (fs : FS) (pre post : List Op) (t o : Path)
    (h : conformsFrom r fs [] (pre ++ .rename t o :: post) = true) :
    get (run fs (pre ++ .rename t o :: post)) o = get (run fs pre) t ∧
    ∃ f, get (run fs pre) t = some f ∧ f.openW = false := by
  obtain ⟨dead', h'⟩ := conformsFrom_append r pre fs [] _ h
  simp only [conformsFrom, Bool.and_eq_true] at h'
  obtain ⟨hok, hpost⟩ := h'
  simp only [okOp, Bool.and_eq_true] at hok
  obtain ⟨_, _, hft⟩ := hok
  cases hf : get (run fs pre) t with
  | none => simp [hf] at hft
  | some f =>
    simp [hf] at hft
    have hs : get (step (run fs pre) (.rename t o)) o = some f := by simp [step, hf, get_upd]
    have hfz := frozen r o post _ _ hpost (Or.inr (by simp [deadAfter])) (by rw [hs]; simp [quiet, hft])
      post.length
    rw [List.take_length] at hfz
    rw [run_append, run_cons, hfz, hs]
    exact ⟨rfl, f, rfl, hft⟩

/-! ### leftovers of an earlier run -/

/-- two file systems agree on every path that is not a temporary or is already `known` -/
def Agree (temps known : List Path) (a b : FS) : Prop :=
  ∀ p, (temps.contains p = false ∨ known.contains p = true) → get a p = get b p

theorem step_agree (temps known : List Path) (a b : FS) (op : Op) (h : Agree temps known a b)
    (hr : (reads op).all (fun p => !temps.contains p || known.contains p) = true) :
    Agree temps (known ++ resets op) (step a op) (step b op) := by
  have hk : ∀ p, (temps.contains p = false ∨ (known ++ resets op).contains p = true) →
      p ∉ resets op → get a p = get b p := by
    intro p hp hn
    apply h p
    rcases hp with hp | hp
    · exact Or.inl hp
    · right
      simp only [List.contains_eq_mem, List.mem_append, decide_eq_true_eq] at hp ⊢
      rcases hp with hp | hp
      · exact hp
      · exact absurd hp hn
  have hread : ∀ q, q ∈ reads op → get a q = get b q := by
    intro q hq
    rw [List.all_eq_true] at hr
    have := hr q hq
    apply h q
    simp only [Bool.or_eq_true, Bool.not_eq_true'] at this
    exact this
  intro p hp
  cases op with
  | unlink q =>
    simp only [step, get_upd]
    by_cases hpq : p = q
    · simp [hpq]
    · simp only [hpq, if_false]; exact hk p hp (by simp [resets, hpq])
  | create q =>
    simp only [step, get_upd]
    by_cases hpq : p = q
    · simp [hpq]
    · simp only [hpq, if_false]; exact hk p hp (by simp [resets, hpq])
  | write q id =>
    have hq := hread q (by simp [reads])
    have hp' := hk p hp (by simp [resets])
    simp only [step, ← hq]
    cases get a q <;> simp [get_upd, hp'] <;> (split <;> simp_all)
  | close q =>
    have hq := hread q (by simp [reads])
    have hp' := hk p hp (by simp [resets])
    simp only [step, ← hq]
    cases get a q <;> simp [get_upd, hp'] <;> (split <;> simp_all)
  | openAppend q =>
    have hq := hread q (by simp [reads])
    have hp' := hk p hp (by simp [resets])
    simp only [step, ← hq]
    cases get a q <;> simp [get_upd, hp'] <;> (split <;> simp_all)
  | openRead q => exact hk p hp (by simp [resets])
  | rename x y =>
    have hq := hread x (by simp [reads])
    have hp' := hk p hp (by simp [resets])
    simp only [step, ← hq]
    cases get a x <;> simp [get_upd, hp'] <;> (split <;> simp_all)
theorem run_agree (temps : List Path) :
    ∀ (tr : List Op) (known : List Path) (a b : FS), freshFrom temps known tr = true →
      Agree temps known a b → Agree temps known (run a tr) (run b tr) := by
  intro tr
  induction tr with
  | nil => intro known a b _ h; exact h
  | cons op rest ih =>
    intro known a b hf h
    simp only [freshFrom, Bool.and_eq_true] at hf
    have h1 := step_agree temps known a b op h hf.1
    have h2 := ih (known ++ resets op) (step a op) (step b op) hf.2 h1
    intro p hp
    apply h2 p
    rcases hp with hp | hp
    · exact Or.inl hp
    · right
      simp only [List.contains_eq_mem, List.mem_append, decide_eq_true_eq] at hp ⊢
      exact Or.inl hp

theorem get_eraseTemps (r : Roles) (fs : FS) (p : Path) :
    get (eraseTemps r fs) p = if r.temps.contains p then none else get fs p := by
  unfold eraseTemps
  induction fs with
  | nil => simp [get]
  | cons e rest ih =>
    obtain ⟨a, f⟩ := e
    by_cases ha : r.temps.contains a = true
    · simp only [List.filter_cons, ha, Bool.not_true, Bool.false_eq_true, if_false, ih, get]
      have ha' : a ∈ r.temps := by simpa using ha
      by_cases hap : a = p
      · subst hap; simp [ha']
      · simp [hap]
    · simp only [Bool.not_eq_true] at ha
      simp only [List.filter_cons, ha, Bool.not_false, if_true, get, ih]
      have ha' : a ∉ r.temps := by simpa using ha
      by_cases hap : a = p
      · subst hap; simp [ha']
      · simp [hap]

theorem agree_eraseTemps (r : Roles) (fs : FS) :
    Agree r.temps (absentTemps r fs) fs (eraseTemps r fs) := by
  intro p hp
  rw [get_eraseTemps]
  rcases hp with hp | hp
  · have hp' : p ∉ r.temps := by simpa using hp
    simp [hp']
  · simp only [absentTemps, List.contains_eq_mem, List.mem_filter, decide_eq_true_eq] at hp
    have : get fs p = none := by
      cases h : get fs p with
      | none => rfl
      | some f => simp [h] at hp
    rw [this]; split <;> rfl


/-! ## C09: the concrete log-name prefixes `src-#<i>_` are prefix-free -/

/-- two lists that agree after splitting at the first separator have the same part before it -/
theorem split_at_sep {α} (s : α) : ∀ (l1 l2 r1 r2 : List α), s ∉ l1 → s ∉ l2 →
    l1 ++ s :: r1 = l2 ++ s :: r2 → l1 = l2
  | [], [], _, _, _, _, _ => rfl
  | [], y :: l2, r1, r2, _, h2, h => by
      simp at h; exact absurd h.1 (by intro e; exact h2 (by simp [e]))
  | x :: l1, [], r1, r2, h1, _, h => by
      simp at h; exact absurd h.1 (by intro e; exact h1 (by simp [e]))
  | x :: l1, y :: l2, r1, r2, h1, h2, h => by
      simp at h
      have := split_at_sep s l1 l2 r1 r2 (fun m => h1 (List.mem_cons_of_mem _ m))
        (fun m => h2 (List.mem_cons_of_mem _ m)) h.2
      rw [h.1, this]

/-- `"src-#" ++ toString i ++ "_"`: the decimal rendering of `i` contains no `_`, so the position of
the first `_` after `src-#` determines `i`; names with different source positions never collide. -/
theorem srcPrefix_prefix_free (i j : Nat) (a c : String) (h : i ≠ j) :
    srcPrefix i ++ a ≠ srcPrefix j ++ c := by
  intro heq
  have hl := congrArg String.toList heq
  simp only [srcPrefix, String.toList_append] at hl
  have e1 : (toString i : String) = Nat.repr i := rfl
  have e2 : (toString j : String) = Nat.repr j := rfl
  rw [e1, e2, Nat.toList_repr, Nat.toList_repr] at hl
  simp only [List.append_assoc, List.append_cancel_left_eq] at hl
  have : ("_" : String).toList = ['_'] := rfl
  rw [this] at hl
  have hd := split_at_sep '_' _ _ _ _ (by simp) (by simp) hl
  apply h
  apply Nat.repr_injective
  apply String.toList_inj.mp
  rw [Nat.toList_repr, Nat.toList_repr, hd]

end DclabModel.Cli
