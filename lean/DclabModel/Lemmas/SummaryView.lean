import DclabModel.Model.SummaryView
import DclabModel.Lemmas.Summary
import DclabModel.Properties.C04
/-!
Helper lemmas that tie the summaries of hierarchy children (C20) to the view of C04:
`levelVals root alls = root[idsOf n alls]`.
-/
namespace DclabModel.SummaryView
open DclabModel.Summary DclabModel.Summary.Val

theorem sel_eq_hier : ∀ (m : List Bool) (xs : List Val), Summary.sel m xs = Hier.sel m xs
  | [], _ => by simp [Summary.sel, Hier.sel]
  | true :: m, x :: xs => by simp [Summary.sel, Hier.sel, sel_eq_hier m xs]
  | false :: m, x :: xs => by simp [Summary.sel, Hier.sel, sel_eq_hier m xs]
  | true :: m, [] => by simp [Summary.sel, Hier.sel]
  | false :: m, [] => by simp [Summary.sel, Hier.sel]

theorem gather_eq_map (o : List Val) (m : List Nat) : gather o m = m.map (fun i => o.getD i nan) := rfl

theorem levelVals_eq_gather (root : List Val) :
    ∀ alls, levelVals root alls = gather root (Hier.idsOf root.length alls)
  | [] => by
    simp only [levelVals, Hier.idsOf]
    apply List.ext_getElem
    · simp [gather]
    · intro i h1 h2
      simp [gather, h1]
  | pf :: rest => by
    simp only [levelVals, Hier.idsOf, levelVals_eq_gather root rest, gather]
    exact (Hier.sel_map _ pf _)

theorem sel_all_true : ∀ (pf : List Bool) (xs : List Val), pf.all id = true → pf.length = xs.length →
    Hier.sel pf xs = xs
  | [], [], _, _ => rfl
  | [], _ :: _, _, h => by simp at h
  | _ :: _, [], _, h => by simp at h
  | b :: pf, x :: xs, ha, hl => by
    simp only [List.all_cons, Bool.and_eq_true, id] at ha
    obtain ⟨hb, ha⟩ := ha
    subst hb
    simp only [Hier.sel]
    rw [sel_all_true pf xs ha (by simpa using hl)]

theorem pmin_of_no_nan (l : List Val) (h : hasNan l = false) :
    pmin l = nanmin l ∧ pmax l = nanmax l ∧ pmean l = nanmean l := by
  simp [pmin, pmax, pmean, h]

/-! ### the chain of cached feature objects -/

/-- every cached array is the nested view of the member's current ancestors -/
def Consistent (root : List Val) : List Member → Prop
  | [] => True
  | c :: anc => (c.arr = none ∨ c.arr = some (levelVals root (masksOf (c :: anc)))) ∧
      Consistent root anc

theorem chainArray_spec (root : List Val) : ∀ ms : List Member, Consistent root ms →
    (chainArray root ms).2 = levelVals root (masksOf ms) ∧
    masksOf (chainArray root ms).1 = masksOf ms ∧ Consistent root (chainArray root ms).1
  | [], _ => by simp [chainArray, masksOf, levelVals, Consistent]
  | c :: anc, h => by
    obtain ⟨hc, ha⟩ := h
    obtain ⟨ih1, ih2, ih3⟩ := chainArray_spec root anc ha
    cases harr : c.arr with
    | some a =>
      have e : chainArray root (c :: anc) = (c :: anc, a) := by simp only [chainArray, harr]
      rw [e]
      rcases hc with hc | hc
      · rw [harr] at hc; cases hc
      · rw [harr] at hc
        injection hc with hc
        exact ⟨hc, rfl, ⟨Or.inr (by rw [harr, hc]), ha⟩⟩
    | none =>
      have e : chainArray root (c :: anc) =
          ({ c with arr := some (Hier.sel c.mask (chainArray root anc).2) } :: (chainArray root anc).1,
            Hier.sel c.mask (chainArray root anc).2) := by simp only [chainArray, harr]
      rw [e]
      refine ⟨?_, ?_, ?_, ih3⟩
      · rw [ih1]; rfl
      · simp only [masksOf, List.map_cons] at ih2 ⊢
        rw [ih2]
      · right
        simp only [masksOf, List.map_cons, levelVals] at ih2 ⊢
        rw [ih1, ih2]
        rfl

theorem consistent_refresh (root : List Val) : ∀ masks, Consistent root (chainRefresh masks)
  | [] => trivial
  | _ :: ms => ⟨Or.inl rfl, consistent_refresh root ms⟩

theorem consistent_splice (root : List Val) : ∀ (pre suf suf' : List Member),
    Consistent root (pre ++ suf) → Consistent root suf' → masksOf suf' = masksOf suf →
    Consistent root (pre ++ suf')
  | [], _, _, _, h2, _ => h2
  | c :: pre, suf, suf', h1, h2, hm => by
    obtain ⟨hc, hrest⟩ := h1
    refine ⟨?_, consistent_splice root pre suf suf' hrest h2 hm⟩
    have hmm : masksOf (c :: (pre ++ suf')) = masksOf (c :: (pre ++ suf)) := by
      simp only [masksOf, List.map_cons, List.map_append] at hm ⊢
      rw [hm]
    show c.arr = none ∨ c.arr = some (levelVals root (masksOf (c :: (pre ++ suf'))))
    rw [hmm]
    exact hc

theorem consistent_drop (root : List Val) : ∀ (k : Nat) (ms : List Member),
    Consistent root ms → Consistent root (ms.drop k)
  | 0, _, h => h
  | _ + 1, [], _ => trivial
  | k + 1, _ :: ms, h => consistent_drop root k ms h.2

theorem queryAt_spec (root : List Val) (k : Nat) (ms : List Member) (h : Consistent root ms) :
    (queryAt root k ms).2 = levelVals root (masksOf (ms.drop k)) ∧
    masksOf (queryAt root k ms).1 = masksOf ms ∧ Consistent root (queryAt root k ms).1 := by
  obtain ⟨h1, h2, h3⟩ := chainArray_spec root (ms.drop k) (consistent_drop root k ms h)
  refine ⟨h1, ?_, ?_⟩
  · simp only [queryAt, masksOf, List.map_append] at h2 ⊢
    rw [h2, ← List.map_append, List.take_append_drop]
  · apply consistent_splice root (ms.take k) (ms.drop k) _ _ h3 h2
    rw [List.take_append_drop]
    exact h

theorem queries_spec (root : List Val) : ∀ (ks : List Nat) (ms : List Member), Consistent root ms →
    (queries root ms ks).2 = ks.map (fun k => levelVals root ((masksOf ms).drop k))
  | [], _, _ => rfl
  | k :: ks, ms, h => by
    obtain ⟨h1, h2, h3⟩ := queryAt_spec root k ms h
    simp only [queries, List.map_cons]
    rw [queries_spec root ks _ h3, h1, h2]
    simp [masksOf, List.map_drop]

end DclabModel.SummaryView
