import DclabModel.Model.Basin
/-! Helper lemmas for the basin models (C07, C14). Core Lean only. -/
namespace DclabModel.Basin

/-! ## gather / filt / where -/

theorem gather_cons_some {o : List α} {i : Nat} {is : List Nat} {a : List α}
    (h : gather o (i :: is) = some a) :
    ∃ x xs, o[i]? = some x ∧ gather o is = some xs ∧ a = x :: xs := by
  simp only [gather] at h
  cases hx : o[i]? with
  | none => simp [hx] at h
  | some x =>
    cases hxs : gather o is with
    | none => simp [hx, hxs] at h
    | some xs =>
      simp only [hx, hxs, Option.some.injEq] at h
      exact ⟨x, xs, rfl, rfl, h.symm⟩

theorem gather_cons_of {o : List α} {i : Nat} {is : List Nat} {x : α} {xs : List α}
    (hx : o[i]? = some x) (hxs : gather o is = some xs) : gather o (i :: is) = some (x :: xs) := by
  simp only [gather, hx, hxs]

theorem gather_length {o : List α} : ∀ {m : List Nat} {a : List α},
    gather o m = some a → a.length = m.length
  | [], a, h => by simp only [gather, Option.some.injEq] at h; subst h; rfl
  | i :: is, a, h => by
    obtain ⟨x, xs, _, hxs, rfl⟩ := gather_cons_some h
    simp only [List.length_cons, gather_length hxs]

/-- element `i` of `o[m]` is `o[m[i]]` -/
theorem gather_getElem? {o : List α} : ∀ {m : List Nat} {a : List α}, gather o m = some a →
    ∀ i : Nat, a[i]? = (m[i]?).bind fun j => o[j]?
  | [], a, h, i => by simp only [gather, Option.some.injEq] at h; subst h; simp
  | j :: js, a, h, i => by
    obtain ⟨x, xs, hx, hxs, rfl⟩ := gather_cons_some h
    cases i with
    | zero => simp [hx]
    | succ i => simpa using gather_getElem? hxs i

/-- fancy indexing composes: `o[m][idx] = o[m[idx]]` -/
theorem gather_gather {o : List α} {m : List Nat} {a : List α} (h : gather o m = some a) :
    ∀ idx, gather a idx = (gather m idx).bind fun js => gather o js
  | [] => by simp [gather]
  | i :: is => by
    have ih := gather_gather h is
    have hi := gather_getElem? h i
    simp only [gather]
    cases hm : m[i]? with
    | none =>
      simp only [hm, Option.bind_none] at hi
      simp [hi]
    | some j =>
      simp only [hm, Option.bind_some] at hi
      cases hg : gather m is with
      | none =>
        simp only [hg, Option.bind_none] at ih
        simp only [ih, Option.bind_none]
        cases a[i]? <;> rfl
      | some js =>
        simp only [hg, Option.bind_some] at ih
        simp only [ih, hi, Option.bind_some, gather]

theorem gather_whereFrom (pre : List α) : ∀ (mask : List Bool) (o : List α),
    mask.length ≤ o.length → gather (pre ++ o) (whereFrom pre.length mask) = some (filt mask o)
  | [], o, _ => by cases o <;> simp [whereFrom, gather, filt]
  | b :: bs, [], h => by simp at h
  | b :: bs, x :: xs, h => by
    have hlen : bs.length ≤ xs.length := by simpa using h
    have ih := gather_whereFrom (pre ++ [x]) bs xs hlen
    simp only [List.append_assoc, List.singleton_append, List.length_append, List.length_cons,
      List.length_nil, Nat.zero_add] at ih
    cases b with
    | false => simpa [whereFrom, filt] using ih
    | true =>
      have hx : (pre ++ x :: xs)[pre.length]? = some x := by simp
      simp only [whereFrom, filt]
      exact gather_cons_of hx ih

/-- `o[np.where(mask)[0]] = o[mask]` -/
theorem gather_whereIdx (mask : List Bool) (o : List α) (h : mask.length ≤ o.length) :
    gather o (whereIdx mask) = some (filt mask o) := by
  simpa [whereIdx] using gather_whereFrom [] mask o h

/-- `o[m[mask]] = o[m][mask]` -/
theorem gather_filt {o : List α} : ∀ (mask : List Bool) {m : List Nat} {a : List α},
    gather o m = some a → gather o (filt mask m) = some (filt mask a)
  | [], m, a, _ => by cases m <;> cases a <;> simp [filt, gather]
  | b :: bs, [], a, h => by
    simp only [gather, Option.some.injEq] at h; subst h
    cases b <;> simp [filt, gather]
  | b :: bs, j :: js, a, h => by
    obtain ⟨x, xs, hx, hxs, rfl⟩ := gather_cons_some h
    have ih := gather_filt bs hxs
    cases b with
    | false => simpa [filt] using ih
    | true => simpa [filt] using gather_cons_of hx ih

theorem gather_range_from (pre o : List α) :
    gather (pre ++ o) ((List.range' pre.length o.length)) = some o := by
  induction o generalizing pre with
  | nil => simp [gather]
  | cons x xs ih =>
    have h1 := ih (pre ++ [x])
    simp only [List.append_assoc, List.singleton_append, List.length_append, List.length_cons,
      List.length_nil, Nat.zero_add] at h1
    have hx : (pre ++ x :: xs)[pre.length]? = some x := by simp
    simp only [List.length_cons, List.range'_succ]
    exact gather_cons_of hx h1

/-- `o[np.arange(len(o))] = o` -/
theorem gather_range (o : List α) : gather o (List.range o.length) = some o := by
  have := gather_range_from [] o
  simpa [List.range_eq_range'] using this

theorem sel_eq_some {mask : List Bool} {o r : List α} (h : sel mask o = some r) :
    mask.length = o.length ∧ r = filt mask o := by
  unfold sel at h
  split at h
  · next hl => exact ⟨hl, by simpa using h.symm⟩
  · cases h

/-! ## firstSome / lk -/

theorem firstSome_all {g : α → Option β} {x : β} : ∀ {l : List α},
    (∀ a ∈ l, g a = some x ∨ g a = none) → (∃ a ∈ l, g a = some x) → firstSome g l = some x
  | [], _, ⟨a, ha, _⟩ => by cases ha
  | a :: t, hall, hex => by
    simp only [firstSome]
    rcases hall a (List.mem_cons_self ..) with h | h
    · simp [h]
    · simp only [h]
      apply firstSome_all (fun b hb => hall b (List.mem_cons_of_mem _ hb))
      obtain ⟨b, hb, hgb⟩ := hex
      rcases List.mem_cons.mp hb with rfl | hb'
      · rw [h] at hgb; cases hgb
      · exact ⟨b, hb', hgb⟩

theorem firstSome_none {g : α → Option β} : ∀ {l : List α},
    (∀ a ∈ l, g a = none) → firstSome g l = none
  | [], _ => rfl
  | a :: t, h => by
    simp only [firstSome, h a (List.mem_cons_self ..)]
    exact firstSome_none fun b hb => h b (List.mem_cons_of_mem _ hb)

theorem firstSome_congr {g g' : α → Option β} : ∀ {l : List α},
    (∀ a ∈ l, g a = g' a) → firstSome g l = firstSome g' l
  | [], _ => rfl
  | a :: t, h => by
    simp only [firstSome, h a (List.mem_cons_self ..)]
    rw [firstSome_congr fun b hb => h b (List.mem_cons_of_mem _ hb)]

theorem firstSome_mem {g : α → Option β} {x : β} : ∀ {l : List α},
    firstSome g l = some x → ∃ a ∈ l, g a = some x
  | [], h => by cases h
  | a :: t, h => by
    simp only [firstSome] at h
    cases hg : g a with
    | some y =>
      simp only [hg, Option.some.injEq] at h
      exact ⟨a, List.mem_cons_self .., by rw [hg, h]⟩
    | none =>
      simp only [hg] at h
      obtain ⟨b, hb, hgb⟩ := firstSome_mem h
      exact ⟨b, List.mem_cons_of_mem _ hb, hgb⟩

theorem lk_append_fresh [DecidableEq κ] {k j : κ} {v : β} : ∀ {l : List (κ × β)} {c : β},
    lk j l = some c → lk j (l ++ [(k, v)]) = some c
  | [], _, h => by cases h
  | (a, b) :: t, c, h => by
    simp only [lk, List.cons_append] at h ⊢
    split
    · next ha => simpa [ha] using h
    · next ha => simp only [ha, if_false] at h; exact lk_append_fresh h

theorem lk_append_new [DecidableEq κ] {k : κ} {v : β} : ∀ {l : List (κ × β)},
    lk k l = none → lk k (l ++ [(k, v)]) = some v
  | [], _ => by simp [lk]
  | (a, b) :: t, h => by
    simp only [lk, List.cons_append] at h ⊢
    split
    · next ha => simp [ha] at h
    · next ha => simp only [ha, if_false] at h; exact lk_append_new h

/-! ## export: one basin definition -/

/-- coherence of one basin with the rows the referrer shows for `f`: it delivers exactly these
rows, or it does not claim the feature, or its source has no such feature -/
def Coh (sub : Sub) (b : RBasin) (f : Feat) (rows : List Row) : Prop :=
  route sub b f = some rows ∨ offers b f = false ∨ srcData sub b f = none

theorem applyMap_idx {m : Option (List Nat)} {o rows r1 : List Row} {idx mi : List Nat}
    (h : applyMap m o = some rows) (hc : composeIdx m idx = some mi)
    (hr : gather rows idx = some r1) : applyMap (some mi) o = some r1 := by
  cases m with
  | none =>
    simp only [applyMap, Option.some.injEq] at h
    simp only [composeIdx, Option.some.injEq] at hc
    subst h; subst hc
    simpa [applyMap] using hr
  | some mm =>
    simp only [applyMap] at h
    simp only [composeIdx] at hc
    have := gather_gather h idx
    rw [hc, Option.bind_some, hr] at this
    simpa [applyMap] using this.symm

theorem applyMap_mask {m : Option (List Nat)} {o rows r2 : List Row} {mask : List Bool}
    {mk : List Nat} (h : applyMap m o = some rows) (hc : composeMask m mask = some mk)
    (hr : sel mask rows = some r2) : applyMap (some mk) o = some r2 := by
  obtain ⟨hl, rfl⟩ := sel_eq_some hr
  cases m with
  | none =>
    simp only [applyMap, Option.some.injEq] at h
    simp only [composeMask, Option.some.injEq] at hc
    subst h; subst hc
    simpa [applyMap] using gather_whereIdx mask o (Nat.le_of_eq hl)
  | some mm =>
    simp only [applyMap] at h
    simp only [composeMask] at hc
    obtain ⟨_, rfl⟩ := sel_eq_some hc
    simpa [applyMap] using gather_filt mask h

/-- the new map of a definition applied to the basin's rows gives the exported view of the rows
the old map gave -/
theorem applyMap_step {fixed isSelf : Bool} (hfix : (fixed || isSelf) = true) {v : View}
    {m m' : Option (List Nat)} {o rows rows' : List Row}
    (h : applyMap m o = some rows) (hs : stepMap fixed v isSelf m = some m')
    (hv : viewRows v rows = some rows') : applyMap m' o = some rows' := by
  unfold stepMap at hs
  unfold viewRows at hv
  cases hc : v.c2r with
  | none =>
    simp only [hc, Option.bind_some] at hs hv
    cases hm : v.mask with
    | none =>
      simp only [hm, Option.some.injEq] at hs hv
      subst hs; subst hv; exact h
    | some mask =>
      simp only [hm] at hs hv
      cases hcm : composeMask m mask with
      | none => simp [hcm] at hs
      | some mk =>
        simp only [hcm, Option.map_some, Option.some.injEq] at hs
        subst hs
        exact applyMap_mask h hcm hv
  | some idx =>
    simp only [hc, hfix, if_true] at hs hv
    cases hci : composeIdx m idx with
    | none => simp [hci] at hs
    | some mi =>
      cases hg : gather rows idx with
      | none => simp [hg] at hv
      | some r1 =>
        simp only [hci, hg, Option.map_some, Option.bind_some] at hs hv
        have h1 := applyMap_idx h hci hg
        cases hm : v.mask with
        | none =>
          simp only [hm, Option.some.injEq] at hs hv
          subst hs; subst hv; exact h1
        | some mask =>
          simp only [hm] at hs hv
          cases hcm : composeMask (some mi) mask with
          | none => simp [hcm] at hs
          | some mk =>
            simp only [hcm, Option.map_some, Option.some.injEq] at hs
            subst hs
            exact applyMap_mask h1 hcm hv

theorem Coh_step {sub : Sub} {b : RBasin} {f : Feat} {rows rows' : List Row} {v : View}
    {m' : Option (List Nat)} (hc : Coh sub b f rows)
    (hs : stepMap true v false b.map = some m') (hv : viewRows v rows = some rows') :
    Coh sub { b with map := m' } f rows' := by
  rcases hc with h | h | h
  · left
    unfold route at h ⊢
    have ho : offers { b with map := m' } f = offers b f := rfl
    have hsd : srcData sub { b with map := m' } f = srcData sub b f := rfl
    rw [ho, hsd]
    cases hof : offers b f with
    | false => simp [hof] at h
    | true =>
      simp only [hof, if_true] at h ⊢
      cases hd : srcData sub b f with
      | none => simp [hd] at h
      | some o =>
        simp only [hd, Option.bind_some] at h ⊢
        exact applyMap_step (by rfl) h hs hv
  · right; left; exact h
  · right; right; exact h

theorem mapBasins_mem {fixed : Bool} {v : View} : ∀ {l l' : List RBasin},
    mapBasins fixed v l = some l' → ∀ b' ∈ l', ∃ b ∈ l, ∃ m',
      stepMap fixed v false b.map = some m' ∧ b' = { b with map := m' }
  | [], l', h, b', hb' => by
    simp only [mapBasins, Option.some.injEq] at h; subst h; cases hb'
  | b :: t, l', h, b', hb' => by
    simp only [mapBasins] at h
    cases hs : stepMap fixed v false b.map with
    | none => simp [hs] at h
    | some m' =>
      cases ht : mapBasins fixed v t with
      | none => simp [hs, ht] at h
      | some t' =>
        simp only [hs, ht, Option.some.injEq] at h
        subst h
        rcases List.mem_cons.mp hb' with rfl | hmem
        · exact ⟨b, List.mem_cons_self .., m', hs, rfl⟩
        · obtain ⟨b0, hb0, m0, h0, e0⟩ := mapBasins_mem ht b' hmem
          exact ⟨b0, List.mem_cons_of_mem _ hb0, m0, h0, e0⟩

theorem lk_innateOf {sub : Sub} {ref : RFile} {v : View} {f : Feat} {r : List Row} :
    ∀ {feats : List Feat}, lk f (innateOf sub ref v feats) = some r →
      (resolve1 sub ref f).bind (viewRows v) = some r
  | [], h => by cases h
  | g :: t, h => by
    simp only [innateOf] at h
    cases hg : (resolve1 sub ref g).bind (viewRows v) with
    | none => simp only [hg] at h; exact lk_innateOf h
    | some r' =>
      simp only [hg, lk] at h
      by_cases hgf : g = f
      · subst hgf; simp only [if_true, Option.some.injEq] at h; subst h; exact hg
      · simp only [hgf, if_false] at h; exact lk_innateOf h

/-! ## fuel: ranked (acyclic) worlds -/

theorem resolve1_congr {sub sub' : Sub} {g : RFile} {f : Feat}
    (h : ∀ b ∈ g.basins, ∀ l, b.src = .file l → sub l f = sub' l f) :
    resolve1 sub g f = resolve1 sub' g f := by
  unfold resolve1
  cases lk f g.innate with
  | some r => rfl
  | none =>
    apply firstSome_congr
    intro b hb
    unfold route srcData
    cases hsrc : b.src with
    | file l => simp only [h b hb l hsrc]
    | internal d => rfl

theorem viaBasin_stable (w : Nat → Option RFile) (rank : Nat → Nat)
    (hr : ∀ loc g, w loc = some g → ∀ b ∈ g.basins, ∀ l, b.src = .file l → rank l < rank loc) :
    ∀ n loc, rank loc < n → ∀ f, viaBasin w (n + 1) loc f = viaBasin w n loc f := by
  intro n
  induction n with
  | zero => intro loc h; omega
  | succ n ih =>
    intro loc hlt f
    show (w loc).bind (fun g => resolve1 (viaBasin w (n + 1)) g f) =
      (w loc).bind (fun g => resolve1 (viaBasin w n) g f)
    cases hw : w loc with
    | none => rfl
    | some g =>
      simp only [Option.bind_some]
      apply resolve1_congr
      intro b hb l hl
      have := hr loc g hw b hb l hl
      exact ih l (by omega) f

/-! ## store_basin -/

theorem allocFrom_sound {maps : Maps} {m : List Nat} : ∀ {ks : List Nat} {k : Nat} {maps' : Maps},
    allocFrom maps m ks = some (k, maps') →
      lk k maps' = some m ∧ ∀ j c, lk j maps = some c → lk j maps' = some c
  | [], _, _, h => by cases h
  | k0 :: ks, k, maps', h => by
    simp only [allocFrom] at h
    cases hl : lk k0 maps with
    | none =>
      simp only [hl, Option.some.injEq, Prod.mk.injEq] at h
      obtain ⟨rfl, rfl⟩ := h
      exact ⟨lk_append_new hl, fun j c hj => lk_append_fresh hj⟩
    | some c =>
      simp only [hl] at h
      by_cases hc : c = m
      · simp only [hc, if_true, Option.some.injEq, Prod.mk.injEq] at h
        obtain ⟨rfl, rfl⟩ := h
        exact ⟨by rw [hl, hc], fun j c hj => hj⟩
      · simp only [hc, if_false] at h
        exact allocFrom_sound h

theorem allocNamed_sound {maps : Maps} {m : List Nat} {k0 k : Nat} {maps' : Maps}
    (h : allocNamed maps k0 m = some (k, maps')) :
    lk k maps' = some m ∧ ∀ j c, lk j maps = some c → lk j maps' = some c := by
  unfold allocNamed at h
  cases hl : lk k0 maps with
  | none =>
    simp only [hl, Option.some.injEq, Prod.mk.injEq] at h
    obtain ⟨rfl, rfl⟩ := h
    exact ⟨lk_append_new hl, fun j c hj => lk_append_fresh hj⟩
  | some c =>
    simp only [hl] at h
    by_cases hc : c = m
    · simp only [hc, if_true, Option.some.injEq, Prod.mk.injEq] at h
      obtain ⟨rfl, rfl⟩ := h
      exact ⟨by rw [hl, hc], fun j c hj => hj⟩
    · simp [hc] at h

/-- every stored definition reads back the map content it was stored with -/
def Sound (s : SFile) : Prop := ∀ d ∈ s.defs, s.mapOf d = some d.intended

theorem mapOf_mono {s : SFile} {maps' : Maps} {defs' : List SDef} {d : SDef}
    (hm : ∀ j c, lk j s.maps = some c → lk j maps' = some c)
    (h : s.mapOf d = some d.intended) :
    SFile.mapOf { maps := maps', defs := defs' } d = some d.intended := by
  unfold SFile.mapOf at h ⊢
  cases hd : d.mapping with
  | none => simpa [hd] using h
  | some k =>
    simp only [hd] at h ⊢
    cases hk : lk k s.maps with
    | none => simp [hk] at h
    | some c => rw [hm k c hk]; simpa [hk] using h

theorem storeBasin_sound {s s' : SFile} {tag : Nat} {req : MapReq} (hs : Sound s)
    (h : storeBasin s tag req = some s') :
    Sound s' ∧ (∀ j c, lk j s.maps = some c → lk j s'.maps = some c) ∧
    ∃ d, s'.defs = s.defs ++ [d] ∧ d.tag = tag ∧ d.intended = req.content := by
  cases req with
  | same =>
    simp only [storeBasin, Option.some.injEq] at h
    subst h
    refine ⟨?_, fun j c hj => hj, ⟨_, rfl, rfl, rfl⟩⟩
    intro d hd
    rcases List.mem_append.mp hd with hd | hd
    · exact mapOf_mono (fun j c hj => hj) (hs d hd)
    · simp only [List.mem_singleton] at hd; subst hd; rfl
  | auto m =>
    simp only [storeBasin] at h
    cases ha : allocMap s.maps m with
    | none => simp [ha] at h
    | some p =>
      obtain ⟨k, maps'⟩ := p
      simp only [ha, Option.map_some, Option.some.injEq] at h
      subst h
      obtain ⟨h1, h2⟩ := allocFrom_sound ha
      refine ⟨?_, h2, ⟨_, rfl, rfl, rfl⟩⟩
      intro d hd
      rcases List.mem_append.mp hd with hd | hd
      · exact mapOf_mono h2 (hs d hd)
      · simp only [List.mem_singleton] at hd; subst hd
        simp [SFile.mapOf, h1]
  | named k0 m =>
    simp only [storeBasin] at h
    cases ha : allocNamed s.maps k0 m with
    | none => simp [ha] at h
    | some p =>
      obtain ⟨k, maps'⟩ := p
      simp only [ha, Option.map_some, Option.some.injEq] at h
      subst h
      obtain ⟨h1, h2⟩ := allocNamed_sound ha
      refine ⟨?_, h2, ⟨_, rfl, rfl, rfl⟩⟩
      intro d hd
      rcases List.mem_append.mp hd with hd | hd
      · exact mapOf_mono h2 (hs d hd)
      · simp only [List.mem_singleton] at hd; subst hd
        simp [SFile.mapOf, h1]

/-! ## helpers for the C07 theorems -/

theorem gather_single (a : List Row) (k : Nat) : gather a [k] = (a[k]?).map ([·]) := by
  simp only [gather]
  cases a[k]? <;> rfl

theorem route_of_Coh {sub : Sub} {b : RBasin} {f : Feat} {rows : List Row} (h : Coh sub b f rows) :
    route sub b f = some rows ∨ route sub b f = none := by
  rcases h with h | h | h
  · exact Or.inl h
  · right; simp [route, h]
  · right; simp only [route, h, Option.bind_none]; split <;> rfl

theorem chainRows_append (rows : List Row) (vs : List View) (v : View) :
    chainRows rows (vs ++ [v]) = (chainRows rows vs).bind (viewRows v) := by
  induction vs generalizing rows with
  | nil => simp only [List.nil_append, chainRows, Option.bind_some]; cases viewRows v rows <;> rfl
  | cons a t ih =>
    simp only [List.cons_append, chainRows]
    cases viewRows a rows with
    | none => rfl
    | some r => simp only [Option.bind_some]; exact ih r

theorem stage2_rows {rows0 r1 : List Row} (mask : Option (List Bool)) (ra : List Row)
    (ma : List Nat) (hga : gather rows0 ma = some ra)
    (h : (match mask with | none => some ra | some mk => sel mk ra) = some r1) :
    ∃ m1, (match mask with | none => some ma | some mk => sel mk ma) = some m1 ∧
      gather rows0 m1 = some r1 := by
  cases mask with
  | none => simp only [Option.some.injEq] at h; subst h; exact ⟨ma, rfl, hga⟩
  | some mk =>
    simp only at h
    obtain ⟨hl, rfl⟩ := sel_eq_some h
    have hlen : mk.length = ma.length := by rw [hl, gather_length hga]
    exact ⟨filt mk ma, by simp [sel, hlen], gather_filt mk hga⟩

theorem viewMap_rows {rows0 r0 r1 : List Row} {m0 : List Nat} {v : View}
    (hg : gather rows0 m0 = some r0) (hv : viewRows v r0 = some r1) :
    ∃ m1, viewMap v m0 = some m1 ∧ gather rows0 m1 = some r1 := by
  obtain ⟨c2r, mask⟩ := v
  cases c2r with
  | none =>
    simp only [viewRows, viewMap, Option.bind_some] at hv ⊢
    exact stage2_rows mask r0 m0 hg hv
  | some idx =>
    simp only [viewRows, viewMap] at hv ⊢
    cases hgi : gather r0 idx with
    | none => simp [hgi] at hv
    | some ra =>
      simp only [hgi, Option.bind_some] at hv
      have := gather_gather hg idx
      rw [hgi] at this
      cases hmi : gather m0 idx with
      | none => simp [hmi] at this
      | some mi =>
        simp only [hmi, Option.bind_some] at this ⊢
        exact stage2_rows mask ra mi this.symm hv

theorem chain_map {rows0 : List Row} : ∀ (vs : List View) {m0 : List Nat} {r0 r : List Row},
    gather rows0 m0 = some r0 → chainRows r0 vs = some r →
      ∃ m, chainMap m0 vs = some m ∧ gather rows0 m = some r
  | [], m0, r0, r, hg, h => by
    simp only [chainRows, Option.some.injEq] at h; subst h; exact ⟨m0, rfl, hg⟩
  | v :: vs, m0, r0, r, hg, h => by
    simp only [chainRows] at h
    cases hv : viewRows v r0 with
    | none => simp [hv] at h
    | some r1 =>
      simp only [hv, Option.bind_some] at h
      obtain ⟨m1, hm1, hg1⟩ := viewMap_rows hg hv
      obtain ⟨m, hm, hgm⟩ := chain_map vs hg1 h
      exact ⟨m, by simp only [chainMap, hm1, Option.bind_some, hm], hgm⟩

/-- `Derived sub f rows0 loc file views`: `file`, stored at `loc`, is the result of exporting an
origin that shows `rows0` for `f` successively through `views` (each export is stored at a
location where `sub` resolves consistently) -/
inductive Derived (sub : Sub) (f : Feat) (rows0 : List Row) : Nat → RFile → List View → Prop
  | origin (loc : Nat) (file : RFile) :
      sub loc f = resolve1 sub file f → resolve1 sub file f = some rows0 →
      (∀ b ∈ file.basins, Coh sub b f rows0) → Derived sub f rows0 loc file []
  | step {loc : Nat} {ref : RFile} {vs : List View} (loc' : Nat) (out : RFile)
      (feats : List Feat) (v : View) :
      Derived sub f rows0 loc ref vs → exportFile true sub loc ref feats v = some out →
      sub loc' f = resolve1 sub out f → Derived sub f rows0 loc' out (vs ++ [v])

/-! # Part B: resolution -/

theorem mem_insertBy {le : α → α → Bool} {x a : α} : ∀ {l : List α},
    a ∈ insertBy le x l ↔ a = x ∨ a ∈ l
  | [] => by simp [insertBy]
  | y :: t => by
    simp only [insertBy]
    split
    · simp
    · simp only [List.mem_cons, mem_insertBy (l := t)]
      constructor
      · rintro (h | h | h)
        · exact Or.inr (Or.inl h)
        · exact Or.inl h
        · exact Or.inr (Or.inr h)
      · rintro (h | h | h)
        · exact Or.inr (Or.inl h)
        · exact Or.inl h
        · exact Or.inr (Or.inr h)

theorem mem_sortBy {le : α → α → Bool} {a : α} : ∀ {l : List α}, a ∈ sortBy le l ↔ a ∈ l
  | [] => by simp [sortBy]
  | x :: t => by simp only [sortBy, mem_insertBy, mem_sortBy (l := t), List.mem_cons]

theorem filter_length_mono {p q : α → Bool} (hpq : ∀ x, p x = true → q x = true) :
    ∀ l : List α, (l.filter p).length ≤ (l.filter q).length
  | [] => Nat.le_refl _
  | x :: t => by
    have ih := filter_length_mono hpq t
    simp only [List.filter_cons]
    cases hp : p x with
    | false =>
      simp only [Bool.false_eq_true, if_false]
      split
      · simp only [List.length_cons]; omega
      · exact ih
    | true => simp only [hpq x hp, if_true, List.length_cons]; omega

theorem filter_length_lt {p q : α → Bool} (hpq : ∀ x, p x = true → q x = true) :
    ∀ {l : List α}, (∃ x ∈ l, q x = true ∧ p x = false) →
      (l.filter p).length < (l.filter q).length
  | [], ⟨x, hx, _⟩ => by cases hx
  | y :: t, ⟨x, hx, hq, hp⟩ => by
    simp only [List.filter_cons]
    rcases List.mem_cons.mp hx with rfl | hxt
    · have := filter_length_mono hpq t
      simp only [hq, hp, if_true, Bool.false_eq_true, if_false, List.length_cons]; omega
    · have ih := filter_length_lt hpq ⟨x, hxt, hq, hp⟩
      cases hpy : p y with
      | true => simp only [hpq y hpy, if_true, List.length_cons]; omega
      | false =>
        simp only [Bool.false_eq_true, if_false]
        split
        · simp only [List.length_cons]; omega
        · exact ih

theorem nextIgnored_mem {node : Node} {ign : List Nat} {k : Nat} :
    k ∈ nextIgnored node ign ↔ (∃ b ∈ node.file.basins, b.key = k) ∨ k ∈ ign := by
  simp only [nextIgnored, List.mem_append, List.mem_map, mem_sortBy]

/-- following a definition of the world whose key is not ignored strictly decreases the number of
keys that can still be followed: the guard in `resolve` never cuts such a step -/
theorem guard_true (w : World) (node : Node) (ign : List Nat) (b : BDef)
    (hb : b ∈ node.file.basins) (hw : b.key ∈ allKeys w) (hi : ign.contains b.key = false) :
    budget w (nextIgnored node ign) < budget w ign := by
  unfold budget
  apply filter_length_lt
  · intro k hk
    simp only [Bool.not_eq_eq_eq_not, Bool.not_true, List.contains_eq_mem, decide_eq_false_iff_not] at hk ⊢
    intro hmem
    exact hk (nextIgnored_mem.mpr (Or.inr hmem))
  · refine ⟨b.key, List.mem_eraseDups.mpr hw, ?_, ?_⟩
    · simp only [hi, Bool.not_false]
    · simp only [Bool.not_eq_eq_eq_not, Bool.not_false, List.contains_eq_mem, decide_eq_true_eq]
      exact nextIgnored_mem.mpr (Or.inl ⟨b, hb, rfl⟩)

theorem budget_le (w : World) (ign : List Nat) : budget w ign ≤ (allKeys w).eraseDups.length :=
  List.length_filter_le _ _

theorem lk_mem [DecidableEq κ] {k : κ} {v : β} : ∀ {l : List (κ × β)}, lk k l = some v → (k, v) ∈ l
  | [], h => by cases h
  | (a, b) :: t, h => by
    simp only [lk] at h
    split at h
    · next ha => simp only [Option.some.injEq] at h; subst h; subst ha; exact List.mem_cons_self ..
    · exact List.mem_cons_of_mem _ (lk_mem h)

/-- the basin keys of every file of the world are keys of the world -/
theorem key_in_world_file {w : World} {d n : Nat} {f : CFile} {b : BDef}
    (h : lk (d, n) w.files = some f) (hb : b ∈ f.basins) : b.key ∈ allKeys w := by
  unfold allKeys
  apply List.mem_append_left
  exact List.mem_flatMap.mpr ⟨_, lk_mem h, List.mem_map.mpr ⟨b, hb, rfl⟩⟩

theorem key_in_world_url {w : World} {n : Nat} {f : CFile} {b : BDef}
    (h : lk n w.urls = some f) (hb : b ∈ f.basins) : b.key ∈ allKeys w := by
  unfold allKeys
  apply List.mem_append_right
  exact List.mem_flatMap.mpr ⟨_, lk_mem h, List.mem_map.mpr ⟨b, hb, rfl⟩⟩

/-- induction principle for `resolve`: a property that one resolution step preserves, given that
every nested result is either empty or a deeper resolution satisfying it, holds of `resolve` -/
theorem resolve_ind (w : World) (univ : List Feat) (tg : Bool)
    (P : Node → List Nat → Res → Prop)
    (hstep : ∀ node ign (rec : Node → Res),
      (∀ c, rec c = Res.empty ∨
        (budget w (nextIgnored node ign) < budget w ign ∧ P c (nextIgnored node ign) (rec c))) →
      P node ign (resolveStep w univ tg node ign rec)) :
    ∀ node ign, P node ign (resolve w univ tg node ign) := by
  intro node ign
  generalize hn : budget w ign = n
  induction n using Nat.strongRecOn generalizing node ign with
  | _ n ih =>
    rw [resolve]
    apply hstep
    intro c
    by_cases h : budget w (nextIgnored node ign) < budget w ign
    · right
      simp only [h, dite_true]
      exact ⟨trivial, ih _ (by omega) c _ rfl⟩
    · left
      simp only [h, dite_false]

/-! ### facts about instantiated basins -/

theorem openAt_remote {w : World} {ref : Node} {fmt : BFormat} {l : Loc} {c : Node}
    (hf : classType fmt = some .remote) (h : openAt w ref fmt l = some c) : c.isLocal = false := by
  have key : ∀ (n : Nat) (fm : BFormat),
      (if w.up.contains fm then (lk n w.urls).map (fun f => (⟨some (.url n), f⟩ : Node))
       else none) = some c → c.isLocal = false := by
    intro n fm h
    split at h
    · obtain ⟨a, _, rfl⟩ := Option.map_eq_some_iff.mp h; rfl
    · cases h
  cases fmt <;> simp [classType] at hf <;> cases l <;> simp only [openAt] at h <;>
    first
    | (cases h)
    | exact key _ _ h

theorem pickFile_none_tried {w : World} {ref : Node} {b : BDef} : ∀ {ls : List Loc},
    (∀ l ∈ ls, openAt w ref b.format l = none) → pickFile w ref b ls = (none, [])
  | [], _ => rfl
  | l :: ls, h => by
    simp only [pickFile, h l (List.mem_cons_self ..)]
    exact pickFile_none_tried fun l' hl' => h l' (List.mem_cons_of_mem _ hl')

theorem instantiate_sub {w : World} {tg : Bool} {ref : Node} {ign : List Nat} {rec : Node → Res}
    {b : BDef} {o : OB} (h : o ∈ instantiate w tg ref ign rec b) :
    o.sub = Res.empty ∨ ∃ c, o.node = some c ∧ o.sub = rec c := by
  unfold instantiate at h
  split at h
  · cases h
  · split at h
    · cases h
    · split at h
      · cases h
      · split at h
        · -- internal
          split at h
          · simp only [List.mem_singleton] at h; subst h; exact Or.inr ⟨_, rfl, rfl⟩
          · cases h
          · split at h
            · simp only [List.mem_singleton] at h; subst h
              cases hc : openAt w ref b.format _ with
              | none => left; simp [hc]
              | some c => right; exact ⟨c, by simp [hc], by simp [hc]⟩
            · cases h
        · -- file
          split at h
          · cases h
          · split at h
            · cases h
            · split at h
              · simp only [List.mem_singleton] at h; subst h; exact Or.inr ⟨_, rfl, rfl⟩
              · simp only [List.mem_singleton] at h; subst h; exact Or.inl rfl
        · -- remote
          split at h
          · cases h
          · obtain ⟨l, _, rfl⟩ := List.mem_map.mp h
            cases hc : openAt w ref b.format l with
            | none => left; simp [hc]
            | some c => right; exact ⟨c, by simp [hc], by simp [hc]⟩
        · cases h

theorem instantiate_nonlocal {w : World} {ref : Node} {ign : List Nat} {rec : Node → Res}
    {b : BDef} {o : OB} (href : ref.isLocal = false)
    (h : o ∈ instantiate w true ref ign rec b) :
    o.tried = [] ∧ ∀ c, o.node = some c → c.isLocal = false := by
  unfold instantiate at h
  cases hcls : classType b.format with
  | none => simp [hcls] at h
  | some cls =>
    by_cases hi : b.key ∈ ign
    · cases hty : b.type <;> cases cls <;> simp [hcls, hi, hty] at h
    · cases hty : b.type <;> cases cls <;> simp [hcls, hi, hty, href] at h
      · -- internal / internal
        split at h
        · simp only [List.mem_singleton] at h; subst h
          exact ⟨rfl, fun c hc => by cases hc; rfl⟩
        · cases h
        · next hne _ => exact absurd rfl hne
      · obtain ⟨l, _, rfl⟩ := h
        exact ⟨rfl, fun c hc => openAt_remote (by rw [hcls]) hc⟩

/-- the identifiers of a used basin pass `verify_basin` -/
def UseOK (u : Use) : Prop := idMatch u.refRid u.basRid u.mapped = true

theorem OBdata_used {ref : Node} {o : OB} {f : Feat} {r : List Row} {us : List Use}
    (h : OB.data ref o f = some (r, us)) : ∀ u ∈ us, UseOK u := by
  unfold OB.data at h
  split at h
  · split at h
    · cases h
    · next c _ =>
      split at h
      · next hid =>
        obtain ⟨a, _, ha⟩ := Option.map_eq_some_iff.mp h
        simp only [Prod.mk.injEq] at ha
        obtain ⟨_, rfl⟩ := ha
        intro u hu
        unfold OB.uses at hu
        unfold OB.idok at hid
        split at hu
        · cases hu
        · next hni =>
          simp only [List.mem_singleton] at hu; subst hu
          simp only [hni, Bool.false_or] at hid
          exact hid
      · cases h
  · cases h

theorem getData_used {ref : Node} {obs : List OB} {f : Feat} {r : List Row} {us : List Use}
    (h : getData ref obs f = some (r, us)) : ∀ u ∈ us, UseOK u := by
  unfold getData at h
  split at h
  · simp only [Option.some.injEq, Prod.mk.injEq] at h
    obtain ⟨_, rfl⟩ := h; intro u hu; cases hu
  · obtain ⟨o, _, ho⟩ := firstSome_mem h
    exact OBdata_used ho

theorem maxDepth_le {B : Nat} : ∀ {obs : List OB}, (∀ o ∈ obs, o.sub.depth ≤ B) → maxDepth obs ≤ B
  | [], _ => Nat.zero_le _
  | o :: t, h => by
    simp only [maxDepth]
    exact Nat.max_le.mpr ⟨h o (List.mem_cons_self ..),
      maxDepth_le fun o' ho' => h o' (List.mem_cons_of_mem _ ho')⟩


theorem at_nonlocal {c : Node} {l : Loc} (h : c.isLocal = false) (ha : c.at_ = some l) :
    isLocalLoc l = false := by
  cases l <;> simp_all [Node.isLocal, isLocalLoc]

theorem instantiate_unreachable {w : World} {tg : Bool} {ref : Node} {ign : List Nat}
    {rec : Node → Res} {b : BDef} {o : OB} (hty : b.type ≠ .internal)
    (hun : ∀ l ∈ b.locs, openAt w ref b.format l = none)
    (h : o ∈ instantiate w tg ref ign rec b) : o.node = none ∧ o.isInt = false := by
  unfold instantiate at h
  cases hcls : classType b.format with
  | none => simp [hcls] at h
  | some cls =>
    by_cases hi : b.key ∈ ign
    · cases hty' : b.type <;> cases cls <;> cases tg <;> simp [hcls, hi, hty'] at h
    · cases hty' : b.type <;> cases cls <;> cases tg <;>
        simp [hcls, hi, hty', pickFile_none_tried hun] at h <;>
        first
        | exact absurd hty' hty
        | (obtain ⟨_, rfl⟩ := h; exact ⟨rfl, by simp [OB.isInt, hty']⟩)
        | (obtain ⟨l, hl, rfl⟩ := h; exact ⟨hun l hl, by simp [OB.isInt, hty']⟩)
        | (subst h; exact ⟨rfl, by simp [OB.isInt, hty']⟩)

theorem idMatch_spec {r b : Option Ident} {m : Bool} (h : idMatch r b m = true) :
    r = none ∨ ∃ r' b', r = some r' ∧ b = some b' ∧ (if m then b' <+: r' else r' = b') := by
  unfold idMatch at h
  split at h
  · exact Or.inl rfl
  · cases h
  · next r' b' =>
    right
    refine ⟨r', b', rfl, rfl, ?_⟩
    cases m with
    | true => simpa [List.isPrefixOf_iff_prefix] using h
    | false => simpa using h

/-! ## path normalisation -/

def AllUp : List Seg → Prop
  | [] => True
  | .up :: t => AllUp t
  | _ :: _ => False

/-- a normalisation stack: names on top of `..`s, no `.` -/
def Stk : List Seg → Prop
  | [] => True
  | .nm _ :: t => Stk t
  | .up :: t => AllUp t
  | .cur :: _ => False

theorem Stk_of_AllUp : ∀ {l : List Seg}, AllUp l → Stk l
  | [], _ => trivial
  | .up :: t, h => h
  | .cur :: _, h => h.elim
  | .nm _ :: _, h => h.elim

theorem Stk_tail : ∀ {x : Seg} {l : List Seg}, Stk (x :: l) → Stk l
  | .nm _, _, h => h
  | .up, _, h => Stk_of_AllUp h
  | .cur, _, h => h.elim

/-- normalising from a stack yields the reverse of a stack -/
theorem normAcc_stk : ∀ (l acc : List Seg), Stk acc → ∃ acc', Stk acc' ∧ normAcc acc l = acc'.reverse
  | [], acc, h => ⟨acc, h, rfl⟩
  | .cur :: t, acc, h => by simpa [normAcc] using normAcc_stk t acc h
  | .nm n :: t, acc, h => by simpa [normAcc] using normAcc_stk t (.nm n :: acc) h
  | .up :: t, [], _ => by simpa [normAcc] using normAcc_stk t [.up] trivial
  | .up :: t, .nm _ :: acc, h => by simpa [normAcc] using normAcc_stk t acc h
  | .up :: t, .up :: acc, h => by
    simpa [normAcc] using normAcc_stk t (.up :: .up :: acc) (show AllUp (.up :: acc) from h)
  | .up :: t, .cur :: acc, h => h.elim

/-- pushing one element of a stack back from the input rebuilds the stack -/
theorem normAcc_push {x : Seg} {acc l : List Seg} (h : Stk (x :: acc)) :
    normAcc acc (x :: l) = normAcc (x :: acc) l := by
  cases x with
  | cur => exact h.elim
  | nm n => rfl
  | up =>
    cases acc with
    | nil => rfl
    | cons y acc' =>
      cases y with
      | up => rfl
      | cur => exact (show AllUp (.cur :: acc') from h).elim
      | nm n => exact (show AllUp (.nm n :: acc') from h).elim

theorem normAcc_replay : ∀ (a2 a1 l : List Seg), Stk (a2 ++ a1) →
    normAcc a1 (a2.reverse ++ l) = normAcc (a2 ++ a1) l
  | [], a1, l, _ => rfl
  | x :: a2, a1, l, h => by
    have h' : Stk (a2 ++ a1) := Stk_tail h
    rw [List.reverse_cons, List.append_assoc, List.singleton_append, normAcc_replay a2 a1 (x :: l) h']
    exact normAcc_push h

/-! ## verification cache -/

theorem runVerify_transparent [DecidableEq κ] (key : VQ → κ)
    (hkey : ∀ q q', key q = key q' → q.decide = q'.decide) :
    ∀ (hist : List VQ) (cache : List κ), (∀ q, cache.contains (key q) = true → q.decide = true) →
      runVerify key cache hist = hist.map VQ.decide
  | [], _, _ => rfl
  | q :: t, cache, hc => by
    simp only [runVerify, List.map_cons]
    by_cases hin : cache.contains (key q) = true
    · have h1 : cachedVerify key cache q = (true, cache) := by
        unfold cachedVerify; rw [if_pos hin]
      rw [h1, hc q hin]
      exact congrArg _ (runVerify_transparent key hkey t cache hc)
    · by_cases hd : q.decide = true
      · have h1 : cachedVerify key cache q = (true, key q :: cache) := by
          unfold cachedVerify; rw [if_neg hin, if_pos hd]
        rw [h1, hd]
        refine congrArg _ (runVerify_transparent key hkey t _ ?_)
        intro q' hq'
        simp only [List.contains_cons, Bool.or_eq_true, beq_iff_eq] at hq'
        rcases hq' with h | h
        · rw [hkey q' q h]; exact hd
        · exact hc q' h
      · have h1 : cachedVerify key cache q = (false, cache) := by
          unfold cachedVerify; rw [if_neg hin, if_neg hd]
        have hd' : q.decide = false := by simpa using hd
        rw [h1, hd']
        exact congrArg _ (runVerify_transparent key hkey t cache hc)

/-! ## `verify_basin` -/

theorem verifyBasin_fresh (r b : Option Ident) (m av run : Bool) :
    verifyBasin r b m av run false =
      (av && (!run || idMatch r b m), run && av && idMatch r b m) := by
  unfold verifyBasin idMatch
  cases run <;> cases av <;> cases r <;> cases b <;> simp

theorem verifyBasin_verified (r b : Option Ident) (m av run : Bool) :
    verifyBasin r b m av run true = (av, true) := by
  unfold verifyBasin
  cases run <;> cases av <;> simp

theorem runVerifyBasin_pure (r b : Option Ident) (m : Bool) :
    ∀ (hist : List (Bool × Bool)) (v : Bool), (v = true → idMatch r b m = true) →
      runVerifyBasin r b m v hist = hist.map fun c => c.1 && (!c.2 || idMatch r b m)
  | [], _, _ => rfl
  | c :: t, v, hv => by
    simp only [runVerifyBasin, List.map_cons]
    cases v with
    | true =>
      rw [verifyBasin_verified, runVerifyBasin_pure r b m t true hv]
      simp only [hv rfl, Bool.or_true, Bool.and_true]
    | false =>
      rw [verifyBasin_fresh]
      refine congrArg _ (runVerifyBasin_pure r b m t _ ?_)
      intro h
      simp only [Bool.and_eq_true] at h
      exact h.2

/-! ## priority order of `ds.basins` -/

theorem prioLe_total (a b : BDef) : prioLe a b = true ∨ prioLe b a = true := by
  simp only [prioLe, Bool.or_eq_true, Bool.and_eq_true, decide_eq_true_eq, beq_iff_eq]
  omega

theorem prioLe_trans {a b c : BDef} (h1 : prioLe a b = true) (h2 : prioLe b c = true) :
    prioLe a c = true := by
  simp only [prioLe, Bool.or_eq_true, Bool.and_eq_true, decide_eq_true_eq, beq_iff_eq] at *
  omega

theorem insertBy_pairwise {le : α → α → Bool} (htot : ∀ a b, le a b = true ∨ le b a = true)
    (htr : ∀ {a b c}, le a b = true → le b c = true → le a c = true) (x : α) :
    ∀ {l : List α}, l.Pairwise (fun a b => le a b = true) →
      (insertBy le x l).Pairwise (fun a b => le a b = true)
  | [], _ => by simp [insertBy]
  | y :: t, h => by
    simp only [insertBy]
    have hy := List.pairwise_cons.mp h
    split
    · next hxy =>
      refine List.pairwise_cons.mpr ⟨?_, h⟩
      intro z hz
      rcases List.mem_cons.mp hz with rfl | hzt
      · exact hxy
      · exact htr hxy (hy.1 z hzt)
    · next hxy =>
      have hyx : le y x = true := by
        rcases htot x y with h' | h'
        · exact absurd h' hxy
        · exact h'
      refine List.pairwise_cons.mpr ⟨?_, insertBy_pairwise htot htr x hy.2⟩
      intro z hz
      rcases mem_insertBy.mp hz with rfl | hzt
      · exact hyx
      · exact hy.1 z hzt

theorem sortBy_pairwise {le : α → α → Bool} (htot : ∀ a b, le a b = true ∨ le b a = true)
    (htr : ∀ {a b c}, le a b = true → le b c = true → le a c = true) :
    ∀ l : List α, (sortBy le l).Pairwise (fun a b => le a b = true)
  | [] => List.Pairwise.nil
  | x :: t => by
    simp only [sortBy]
    exact insertBy_pairwise htot htr x (sortBy_pairwise htot htr t)

theorem insertBy_perm {le : α → α → Bool} (x : α) : ∀ l : List α, (insertBy le x l).Perm (x :: l)
  | [] => List.Perm.refl _
  | y :: t => by
    simp only [insertBy]
    split
    · exact List.Perm.refl _
    · exact ((insertBy_perm x t).cons y).trans (List.Perm.swap x y t)

theorem sortBy_perm {le : α → α → Bool} : ∀ l : List α, (sortBy le l).Perm l
  | [] => List.Perm.refl _
  | x :: t => by
    simp only [sortBy]
    exact (insertBy_perm x _).trans ((sortBy_perm t).cons x)

/-- stability: an element that is strictly smaller than nothing in front of it keeps its place;
in particular `insertBy` puts `x` in front of every element it is `le` to -/
theorem insertBy_head {le : α → α → Bool} {x y : α} {t : List α} (h : le x y = true) :
    insertBy le x (y :: t) = x :: y :: t := by
  simp [insertBy, h]

/-- `firstSome` returns the answer of the first element that answers -/
theorem firstSome_first {g : α → Option β} {x : β} : ∀ {l : List α}, firstSome g l = some x →
    ∃ pre o post, l = pre ++ o :: post ∧ g o = some x ∧ ∀ p ∈ pre, g p = none
  | [], h => by cases h
  | a :: t, h => by
    simp only [firstSome] at h
    cases ha : g a with
    | some y =>
      rw [ha] at h
      simp only [Option.some.injEq] at h
      subst h
      exact ⟨[], a, t, rfl, ha, fun _ hp => by cases hp⟩
    | none =>
      rw [ha] at h
      obtain ⟨pre, o, post, hl, ho, hpre⟩ := firstSome_first h
      refine ⟨a :: pre, o, post, by rw [hl]; rfl, ho, ?_⟩
      intro p hp
      rcases List.mem_cons.mp hp with rfl | hp'
      · exact ha
      · exact hpre p hp'

end DclabModel.Basin
