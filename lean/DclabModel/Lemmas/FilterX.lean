import DclabModel.Model.FilterX
import DclabModel.Lemmas.Filter
/-!
# Helper lemmas for the error paths of `Filter.update` (C03).  Core Lean only.
-/
namespace DclabModel.Filter
open DclabModel.Down

/-- pruning the caches and refreshing `arr_invalid` keeps the cache-coherence invariant -/
theorem inv_pruned (pip : Nat → Val → Val → Bool) (d : Data) (cfg : Cfg) (reg : Nat → Poly)
    (st : FState) (hinv : Inv pip d st) : Inv pip d (pruned d cfg reg st) := by
  refine ⟨?_, ?_, ?_, hinv.old_ok⟩
  · intro e he
    exact hinv.box_ok e (List.mem_filter.1 he).1
  · intro f col hc hno
    apply hinv.box_miss f col hc
    intro e he hk
    refine hno e (List.mem_filter.2 ⟨he, ?_⟩) hk
    obtain ⟨col', hc', _⟩ := hinv.box_ok e he
    simp [Data.has, hc']
  · exact ⟨hinv.poly_ok.1.filter _, fun e he => hinv.poly_ok.2 e (List.mem_filter.1 he).1⟩

/-- what a raising `update` may touch: only the caches (pruned) and `arr_invalid` -/
structure Untouched (st st' : FState) : Prop where
  all : st'.aAll = st.aAll
  box : st'.aBox = st.aBox
  poly : st'.aPoly = st.aPoly
  old : st'.old = st.old
  manual : st'.manual = st.manual

theorem untouched_pruned (d : Data) (cfg : Cfg) (reg : Nat → Poly) (st : FState) :
    Untouched st (pruned d cfg reg st) := ⟨rfl, rfl, rfl, rfl, rfl⟩

/-- `update` (current code) at a half-set range returns exactly the pruned state -/
theorem update_err_eq (choice : List Nat → Nat → List Nat) (pip : Nat → Val → Val → Bool)
    (d : Data) (cfg : Cfg) (reg : Nat → Poly) (force : List Feat) (st : FState)
    (hinv : Inv pip d st) (hh : anyHalf cfg.ranges = true)
    (hv2 : polysOK d reg cfg.polys = true) :
    update .f25 choice pip d cfg reg force st = (pruned d cfg reg st, .errValue) := by
  have hne : (Ver.f25 != Ver.orig) = true := rfl
  have hany := stage_any_eq cfg.ranges st.old force hinv.old_ok
  unfold update pruned
  rw [if_pos hv2]
  simp only [boxStage, hne, if_true, hany, hh]

/-- **One `update` with all exits** (repaired code, or the code as found when the polygon
axes are present): it raises exactly when the stateless criterion `applyRaises` holds, with the
exception kind `applyOut`; a raising update keeps the invariant and leaves `all`, `box`,
`polygon`, the remembered settings and `manual` untouched; a successful one re-establishes the
invariant and produces the specification. -/
theorem updateX_spec (pk : Bool) (known : Feat → Bool) (choice : List Nat → Nat → List Nat)
    (pip : Nat → Val → Val → Bool) (d : Data) (hd : (d.cols.map (fun e => e.1)).Nodup)
    (cfg : Cfg) (reg : Nat → Poly) (force : List Feat) (st : FState) (hinv : Inv pip d st)
    (hg : pk = true ∨ polysOK d reg cfg.polys = true) :
    (updateX pk known choice pip d cfg reg force st).2 = applyOut known d cfg reg force ∧
    Inv pip d (updateX pk known choice pip d cfg reg force st).1 ∧
    (updateX pk known choice pip d cfg reg force st).1.manual = st.manual ∧
    (applyRaises known d cfg reg force = true →
      (updateX pk known choice pip d cfg reg force st).2 ≠ .ok ∧
      Untouched st (updateX pk known choice pip d cfg reg force st).1) ∧
    (applyRaises known d cfg reg force = false →
      (updateX pk known choice pip d cfg reg force st).2 = .ok ∧
      (updateX pk known choice pip d cfg reg force st).1.aAll = spec choice pip d cfg reg st.manual ∧
      (updateX pk known choice pip d cfg reg force st).1.aBox = toList d.n (specBox d cfg) ∧
      (updateX pk known choice pip d cfg reg force st).1.aPoly = toList d.n (specPoly pip d cfg reg) ∧
      (updateX pk known choice pip d cfg reg force st).1.aInv =
        toList d.n (invalidMask d cfg.removeInvalid)) := by
  cases hk : force.all known with
  | false =>
    have hu : updateX pk known choice pip d cfg reg force st = (pruned d cfg reg st, .errValue) := by
      unfold updateX; simp [hk]
    rw [hu]
    refine ⟨by simp [applyOut, hk], inv_pruned pip d cfg reg st hinv, rfl, ?_, ?_⟩
    · intro _; exact ⟨by simp, untouched_pruned d cfg reg st⟩
    · intro h; simp [applyRaises, hk] at h
  | true =>
    cases hp : polysOK d reg cfg.polys with
    | true =>
      have hu : updateX pk known choice pip d cfg reg force st
          = update .f25 choice pip d cfg reg force st := by
        unfold updateX; simp [hk, hp]
      rw [hu]
      cases hh : anyHalf cfg.ranges with
      | true =>
        rw [update_err_eq choice pip d cfg reg force st hinv hh hp]
        refine ⟨by simp [applyOut, hh], inv_pruned pip d cfg reg st hinv, rfl, ?_, ?_⟩
        · intro _; exact ⟨by simp, untouched_pruned d cfg reg st⟩
        · intro h; simp [applyRaises, hh] at h
      | false =>
        obtain ⟨h1, h2, h3, h4, h5, h6, h7⟩ :=
          update_ok choice pip d hd cfg reg force st hinv hh hp
        refine ⟨by simp [applyOut, hk, hh, hp, h1], h2, h3, ?_, ?_⟩
        · intro h; simp [applyRaises, hk, hh, hp] at h
        · intro _; exact ⟨h1, h4, h5, h6, h7⟩
    | false =>
      have hpk : pk = true := by
        rcases hg with h | h
        · exact h
        · rw [hp] at h; cases h
      have hany := stage_any_eq cfg.ranges st.old force hinv.old_ok
      have hu : updateX pk known choice pip d cfg reg force st
          = (pruned d cfg reg st, if anyHalf cfg.ranges then .errValue else .errKey) := by
        unfold updateX; simp [hk, hp, hpk, hany]
      rw [hu]
      refine ⟨?_, inv_pruned pip d cfg reg st hinv, rfl, ?_, ?_⟩
      · cases hh : anyHalf cfg.ranges <;> simp [applyOut, hk, hh, hp]
      · intro _
        refine ⟨?_, untouched_pruned d cfg reg st⟩
        cases hh : anyHalf cfg.ranges <;> simp
      · intro h; simp [applyRaises, hp] at h

end DclabModel.Filter
