import DclabModel.Model.Check
/-! Helper lemmas for C13 (core Lean only). -/
namespace DclabModel.Check
open DclabModel.Gen.CheckTable

theorem cfgGet_append_single (c : Cfg) (k k' : Key) (v : Val) :
    cfgGet (c ++ [(k, v)]) k' = match cfgGet c k' with
      | some x => some x
      | none => if k' = k then some v else none := by
  induction c with
  | nil => simp [cfgGet]
  | cons x xs ih =>
    obtain ⟨xk, xv⟩ := x
    simp only [List.cons_append, cfgGet]
    by_cases h : k' = xk
    · simp [h]
    · simp only [h, if_false, ih]

theorem cfgGet_filter_ne (c : Cfg) (k k' : Key) :
    cfgGet (c.filter fun kv => kv.1 != k) k' = if k' = k then none else cfgGet c k' := by
  induction c with
  | nil => simp [cfgGet]
  | cons x xs ih =>
    obtain ⟨xk, xv⟩ := x
    by_cases h1 : xk = k
    · subst h1
      simp only [List.filter_cons, bne_self_eq_false, Bool.false_eq_true, if_false, ih, cfgGet]
      by_cases h2 : k' = xk <;> simp [h2]
    · have hx : (xk != k) = true := by simpa using h1
      simp only [List.filter_cons, hx, if_true, cfgGet, ih]
      by_cases h2 : k' = k
      · subst h2
        have : ¬ k' = xk := fun h => h1 h.symm
        simp [this]
      · simp [h2]

theorem cfgGet_cfgSet (c : Cfg) (k k' : Key) (v : Val) :
    cfgGet (cfgSet c k v) k' = if k' = k then some v else cfgGet c k' := by
  simp only [cfgSet, cfgGet_append_single, cfgGet_filter_ne]
  by_cases h : k' = k
  · simp [h]
  · simp only [h, if_false]
    cases cfgGet c k' <;> rfl

theorem setIf_other (c : Cfg) (k k' : Key) (v : Option Nat) (h : k' ≠ k) :
    cfgGet (setIf c k v) k' = cfgGet c k' := by
  cases v <;> simp [setIf, cfgGet_cfgSet, h]

theorem setIf_same (c : Cfg) (k : Key) (n : Nat) :
    cfgGet (setIf c k (some n)) k = some (natVal n) := by
  simp [setIf, cfgGet_cfgSet]

theorem setIf_isSome (c : Cfg) (k k' : Key) (v : Option Nat) (h : (cfgGet c k').isSome) :
    (cfgGet (setIf c k v) k').isSome := by
  cases v with
  | none => exact h
  | some n =>
    simp only [setIf, cfgGet_cfgSet]
    split
    · rfl
    · exact h

theorem setDefault_other (c : Cfg) (k k' : Key) (v : Val) (h : k' ≠ k) :
    cfgGet (setDefault c k v) k' = cfgGet c k' := by
  unfold setDefault
  split
  · simp [cfgGet_cfgSet, h]
  · rfl

theorem setDefault_isSome (c : Cfg) (k k' : Key) (v : Val) (h : (cfgGet c k').isSome) :
    (cfgGet (setDefault c k v) k').isSome := by
  unfold setDefault
  split
  · simp only [cfgGet_cfgSet]
    split
    · rfl
    · exact h
  · exact h

theorem chanDefault_other (d : D) (c : Cfg) (k' : Key) (h : k' ≠ kChannels) :
    cfgGet (chanDefault d c) k' = cfgGet c k' := by
  unfold chanDefault
  split
  · exact setDefault_other c _ k' _ h
  · rfl

theorem chanDefault_isSome (d : D) (c : Cfg) (k' : Key) (h : (cfgGet c k').isSome) :
    (cfgGet (chanDefault d c) k').isSome := by
  unfold chanDefault
  split
  · exact setDefault_isSome c _ k' _ h
  · exact h

theorem isNat_natVal (n m : Nat) : isNat (natVal n) m = decide (n = m) := by
  simp only [isNat, natVal]
  by_cases h : n = m
  · subst h; simp
  · have : ¬ ((n : Int) = (m : Int)) := fun e => h (Int.ofNat.inj e)
    simp [h, this]

@[simp] theorem toNat_natVal (n : Nat) : toNat (natVal n) = n := by
  simp [toNat, natVal]

def autoKeys : List Key := [kEventCount, kSamples, kChannels, kRoiX, kRoiY]

/-- the writer hook only touches the five derived keys … -/
theorem rectify_get_other (d : D) (k : Key) (h : k ∉ autoKeys) :
    cfgGet (rectifyCfg d) k = cfgGet d.cfg k := by
  simp only [autoKeys, List.mem_cons, List.not_mem_nil, or_false, not_or] at h
  obtain ⟨h1, h2, h3, h4, h5⟩ := h
  unfold rectifyCfg
  rw [setIf_other _ _ _ _ h5, setIf_other _ _ _ _ h4, chanDefault_other _ _ _ h3,
    setIf_other _ _ _ _ h2, setIf_other _ _ _ _ h1]

/-- … and never removes a key -/
theorem rectify_get_isSome (d : D) (k : Key) (h : (cfgGet d.cfg k).isSome) :
    (cfgGet (rectifyCfg d) k).isSome := by
  unfold rectifyCfg
  exact setIf_isSome _ _ _ _ (setIf_isSome _ _ _ _ (chanDefault_isSome _ _ _
    (setIf_isSome _ _ _ _ (setIf_isSome _ _ _ _ h))))

/-! ## the key tables -/

/-- every important key is investigated, reported (listed in `config_keys`) and not optional -/
def tableOk (fl : Bool) : Bool :=
  (important fl).all fun p =>
    (secsInvestigated fl).contains p.1 && (keysOf (important fl) p.1 == p.2) &&
    p.2.all fun k => (keysOf configKeys p.1).contains k && !(keysOf optionalKeys p.1).contains k

/-- the mandatory keys at the time the property was written (a later dclab may add keys) -/
def pinnedKeys : List (String × String) :=
  [("experiment", "date"), ("experiment", "event count"), ("experiment", "run index"),
   ("experiment", "sample"), ("experiment", "time"),
   ("imaging", "flash device"), ("imaging", "flash duration"), ("imaging", "frame rate"),
   ("imaging", "pixel size"), ("imaging", "roi position x"), ("imaging", "roi position y"),
   ("imaging", "roi size x"), ("imaging", "roi size y"),
   ("setup", "channel width"), ("setup", "chip region"), ("setup", "flow rate"), ("setup", "medium")]

def pinnedKeysFl : List (String × String) :=
  [("fluorescence", "bit depth"), ("fluorescence", "channel count"),
   ("fluorescence", "channels installed"), ("fluorescence", "laser count"),
   ("fluorescence", "lasers installed"), ("fluorescence", "sample rate"),
   ("fluorescence", "samples per event"), ("fluorescence", "signal max"),
   ("fluorescence", "signal min"), ("fluorescence", "trace median")]

/-! ## membership in `violations` -/

theorem mem_violations {d : D} {c : Cue} :
    c ∈ violations d ↔
      c ∈ vBasin d ∨ c ∈ vExternal d ∨ c ∈ vIndex (cfgGet d.cfg) d ∨ c ∈ vSize (cfgGet d.cfg) d ∨
      c ∈ vUnknown d ∨ c ∈ vFl (cfgGet d.cfg) d ∨ c ∈ vRoi (cfgGet d.cfg) d ∨
      c ∈ vPositive (cfgGet d.cfg) ∨ c ∈ vPolygon d ∨ c ∈ vMissing (cfgGet d.cfg) d ∨ c ∈ vData d := by
  simp only [violations, violationsWith, List.mem_append, or_assoc]

/-! ## what makes a description clean -/

/-- facts about data and metadata that together exclude every violation-level cue -/
structure Guarantees (d : D) : Prop where
  lengths : ∀ fl, fl ∈ d.events → fl.2 = lends (cfgGet d.cfg) d
  traceLens : ∀ t, t ∈ d.traces → t.2.1 = lends (cfgGet d.cfg) d
  index : ∀ xs, d.index = some xs → xs = List.range' 1 (lends (cfgGet d.cfg) d)
  known : ∀ fk, fk ∈ d.h5events → fk.2 = true
  noExternal : d.external = false
  roi : ∀ vx vy, cfgGet d.cfg kRoiX = some vx → cfgGet d.cfg kRoiY = some vy →
    ∀ i, i ∈ d.images → isNat vy i.2.1 = true ∧ isNat vx i.2.2 = true
  channels : hasFl d = true → ∀ v, cfgGet d.cfg kChannels = some v →
    isNat v (channelsFound (cfgGet d.cfg) d) = true
  lasers : hasFl d = true → ∀ v, cfgGet d.cfg ("fluorescence", "laser count") = some v →
    isNat v (lasersFound (cfgGet d.cfg)) = true
  samples : hasFl d = true → ∀ v, cfgGet d.cfg kSamples = some v →
    ∀ t, t ∈ d.traces → isNat v t.2.2 = true
  positive : ∀ k, k ∈ positiveKeys → ∀ v, cfgGet d.cfg k = some v → leZero v = false
  polygons : ∀ p, p ∈ d.polygons → p.2.2 = 2 ∧ 3 ≤ p.2.1
  basins : ∀ b, b ∈ d.basins → b.commonPath = true →
    ∃ names, d.basinEvents = some names ∧ ∀ f, f ∈ b.feats → names.contains f = true
  complete : ∀ sec, sec ∈ secsInvestigated (hasFl d) →
    sectionPresent (cfgGet d.cfg) sec = true ∧
    ∀ key, key ∈ keysOf configKeys sec → (keysOf (important (hasFl d)) sec).contains key = true →
      (keysOf optionalKeys sec).contains key = false → (cfgGet d.cfg (sec, key)).isSome = true
  data : d.mlClassError = false ∧ d.tempZeroZmd = false

theorem clean_of_guarantees (d : D) (g : Guarantees d) : violations d = [] := by
  have hB : vBasin d = [] := by
    simp only [vBasin, List.flatMap_eq_nil_iff]
    intro b hb
    cases hc : b.commonPath with
    | false => simp
    | true =>
      obtain ⟨names, hn, hf⟩ := g.basins b hb hc
      simp only [hn, Bool.not_true, Bool.false_eq_true, if_false, List.map_eq_nil_iff,
        List.filter_eq_nil_iff]
      intro f hfm
      have := hf f hfm
      rw [List.contains_iff_mem] at this
      simp [this]
  have hE : vExternal d = [] := by simp [vExternal, g.noExternal]
  have hI : vIndex (cfgGet d.cfg) d = [] := by
    unfold vIndex
    cases hi : d.index with
    | none => rfl
    | some xs => simp [g.index xs hi]
  have hS : vSize (cfgGet d.cfg) d = [] := by
    simp only [vSize, List.append_eq_nil_iff, List.map_eq_nil_iff, List.filter_eq_nil_iff]
    exact ⟨fun fl h => by simp [g.lengths fl h], fun t h => by simp [g.traceLens t h]⟩
  have hU : vUnknown d = [] := by
    simp only [vUnknown, List.map_eq_nil_iff, List.filter_eq_nil_iff]
    intro fk h; simp [g.known fk h]
  have hF : vFl (cfgGet d.cfg) d = [] := by
    unfold vFl
    cases hfl : hasFl d with
    | false => simp
    | true =>
      simp only [Bool.not_true, Bool.false_eq_true, if_false, List.append_eq_nil_iff]
      refine ⟨⟨?_, ?_⟩, ?_⟩
      · cases hv : cfgGet d.cfg ("fluorescence", "channel count") with
        | none => rfl
        | some v => simp [g.channels hfl v hv]
      · cases hv : cfgGet d.cfg ("fluorescence", "laser count") with
        | none => rfl
        | some v => simp [g.lasers hfl v hv]
      · cases hv : cfgGet d.cfg ("fluorescence", "samples per event") with
        | none => rfl
        | some v =>
          simp only [List.map_eq_nil_iff, List.filter_eq_nil_iff]
          intro t ht; simp [g.samples hfl v hv t ht]
  have hR : vRoi (cfgGet d.cfg) d = [] := by
    unfold vRoi
    cases hx : cfgGet d.cfg ("imaging", "roi size x") with
    | none => rfl
    | some vx =>
      cases hy : cfgGet d.cfg ("imaging", "roi size y") with
      | none => rfl
      | some vy =>
        simp only [List.append_eq_nil_iff, List.map_eq_nil_iff, List.filter_eq_nil_iff]
        exact ⟨fun i hi => by simp [(g.roi vx vy hx hy i hi).1],
               fun i hi => by simp [(g.roi vx vy hx hy i hi).2]⟩
  have hP : vPositive (cfgGet d.cfg) = [] := by
    simp only [vPositive, List.map_eq_nil_iff, List.filter_eq_nil_iff]
    intro k hk
    cases hv : cfgGet d.cfg k with
    | none => simp
    | some v => simp [g.positive k hk v hv]
  have hG : vPolygon d = [] := by
    simp only [vPolygon, List.map_eq_nil_iff, List.filter_eq_nil_iff]
    intro p hp
    obtain ⟨h1, h2⟩ := g.polygons p hp
    simp [h1]; omega
  have hM : vMissing (cfgGet d.cfg) d = [] := by
    simp only [vMissing, List.flatMap_eq_nil_iff]
    intro sec hsec
    obtain ⟨h1, h2⟩ := g.complete sec hsec
    simp only [h1, Bool.not_true, Bool.false_eq_true, if_false, List.map_eq_nil_iff,
      List.filter_eq_nil_iff]
    intro key hkey
    cases ho : (keysOf optionalKeys sec).contains key with
    | true => simp
    | false =>
      cases hi : (keysOf (important (hasFl d)) sec).contains key with
      | false => simp
      | true =>
        have := h2 key hkey hi ho
        simp only [Option.isNone_iff_eq_none, Bool.not_false, Bool.and_true]
        intro hn; rw [hn] at this; cases this
  have hD : vData d = [] := by simp [vData, g.data.1, g.data.2]
  simp [violations, violationsWith, hB, hE, hI, hS, hU, hF, hR, hP, hG, hM, hD]

/-! ## the writer hook, key by key -/

theorem rectify_get_eventCount (d : D) (n : Nat) (h : d.firstLen = some n) :
    cfgGet (rectifyCfg d) kEventCount = some (natVal n) := by
  unfold rectifyCfg
  rw [setIf_other _ _ _ _ (by decide), setIf_other _ _ _ _ (by decide),
    chanDefault_other _ _ _ (by decide), setIf_other _ _ _ _ (by decide), h, setIf_same]

theorem rectify_get_roiY (d : D) (s : Nat × Nat) (h : d.roiSource = some s) :
    cfgGet (rectifyCfg d) kRoiY = some (natVal s.1) := by
  unfold rectifyCfg
  rw [h]; exact setIf_same _ _ _

theorem rectify_get_roiX (d : D) (s : Nat × Nat) (h : d.roiSource = some s) :
    cfgGet (rectifyCfg d) kRoiX = some (natVal s.2) := by
  unfold rectifyCfg
  rw [setIf_other _ _ _ _ (by decide), h]; exact setIf_same _ _ _

theorem rectify_get_samples (d : D) (w : Nat) (h : d.firstTraceWidth = some w) :
    cfgGet (rectifyCfg d) kSamples = some (natVal w) := by
  unfold rectifyCfg
  rw [setIf_other _ _ _ _ (by decide), setIf_other _ _ _ _ (by decide),
    chanDefault_other _ _ _ (by decide), h, setIf_same]

theorem rectify_get_channels (d : D) :
    cfgGet (rectifyCfg d) kChannels = match cfgGet d.cfg kChannels with
      | some v => some v
      | none => if nFl d != 0 then some (natVal (nFl d)) else none := by
  unfold rectifyCfg
  rw [setIf_other _ _ _ _ (by decide), setIf_other _ _ _ _ (by decide)]
  have h0 : cfgGet (setIf (setIf d.cfg kEventCount d.firstLen) kSamples d.firstTraceWidth) kChannels
      = cfgGet d.cfg kChannels := by
    rw [setIf_other _ _ _ _ (by decide), setIf_other _ _ _ _ (by decide)]
  unfold chanDefault setDefault
  cases hn : nFl d != 0 with
  | false =>
    simp only [Bool.false_eq_true, if_false, h0]
    cases cfgGet d.cfg kChannels <;> rfl
  | true =>
    simp only [if_true, h0]
    cases hc : cfgGet d.cfg kChannels with
    | none => simp [cfgGet_cfgSet]
    | some v => simp [h0, hc]

theorem lasersFound_congr (g1 g2 : Get)
    (h : ∀ k, k ∉ autoKeys → g1 k = g2 k) : lasersFound g1 = lasersFound g2 := by
  have e : ∀ s, s ∈ ["laser 1 lambda", "laser 1 power", "laser 2 lambda", "laser 2 power",
      "laser 3 lambda", "laser 3 power"] → g1 ("fluorescence", s) = g2 ("fluorescence", s) := by
    intro s hs
    apply h
    simp only [List.mem_cons, List.not_mem_nil, or_false] at hs
    rcases hs with rfl | rfl | rfl | rfl | rfl | rfl <;> decide
  simp only [lasersFound, laserKeys, List.filter_cons, List.filter_nil,
    e "laser 1 lambda" (by simp), e "laser 1 power" (by simp), e "laser 2 lambda" (by simp),
    e "laser 2 power" (by simp), e "laser 3 lambda" (by simp), e "laser 3 power" (by simp)]

/-- with a channel name for every stored `fl?_max` feature the checker counts exactly the
    stored fluorescence channels -/
theorem channelsFound_eq_nFl (get : Get) (d : D)
    (h : ∀ ce, ce ∈ chanKeys → hasEvent d ce.2 = true → (get ("fluorescence", ce.1)).isSome = true) :
    channelsFound get d = nFl d := by
  have h1 := h ("channel 1 name", "fl1_max") (by simp [chanKeys])
  have h2 := h ("channel 2 name", "fl2_max") (by simp [chanKeys])
  have h3 := h ("channel 3 name", "fl3_max") (by simp [chanKeys])
  simp only at h1 h2 h3
  simp only [channelsFound, nFl, chanKeys, List.filter_cons, List.filter_nil]
  cases e1 : hasEvent d "fl1_max" <;> cases e2 : hasEvent d "fl2_max" <;>
    cases e3 : hasEvent d "fl3_max" <;> simp_all

/-! ## the writer -/

/-- metadata handed to the writer are complete and consistent -/
structure CompleteMeta (w : Written) : Prop where
  keys : ∀ sec, sec ∈ secsInvestigated (hasFl (writtenRaw w)) →
    ∀ key, key ∈ keysOf configKeys sec →
      (keysOf (important (hasFl (writtenRaw w))) sec).contains key = true →
      (keysOf optionalKeys sec).contains key = false →
      (cfgGet w.userCfg (sec, key)).isSome = true
  positive : ∀ k, k ∈ positiveKeys → ∀ v, cfgGet w.userCfg k = some v → leZero v = false
  lasers : ∀ v, cfgGet w.userCfg ("fluorescence", "laser count") = some v →
    isNat v (lasersFound (cfgGet w.userCfg)) = true
  channelNames : ∀ ce, ce ∈ chanKeys → hasEvent (writtenRaw w) ce.2 = true →
    (cfgGet w.userCfg ("fluorescence", ce.1)).isSome = true
  channelCount : ∀ v, cfgGet w.userCfg kChannels = some v → isNat v (nFl (writtenRaw w)) = true

theorem lends_writerD (w : Written) : lends (cfgGet (writerD w).cfg) (writerD w) = w.n := by
  simp only [lends, writerD, rectifyD]
  have := rectify_get_eventCount (writtenRaw w) w.n rfl
  simp only [kEventCount] at this
  rw [this]; simp

theorem secs_subset (fl : Bool) (sec : String) (h : sec ∈ secsInvestigated fl) :
    sec ∈ ["fluorescence", "experiment", "imaging", "setup"] := by
  have : (secsInvestigated fl).all
      (fun s => ["fluorescence", "experiment", "imaging", "setup"].contains s) = true := by
    cases fl <;> decide
  rw [List.all_eq_true] at this
  have := this sec h
  rwa [List.contains_iff_mem] at this

theorem writer_guarantees (w : Written) (hm : CompleteMeta w) : Guarantees (writerD w) := by
  have hl := lends_writerD w
  have hget : ∀ k, k ∉ autoKeys → cfgGet (writerD w).cfg k = cfgGet w.userCfg k :=
    fun k hk => rectify_get_other (writtenRaw w) k hk
  have hsome : ∀ k, (cfgGet w.userCfg k).isSome = true → (cfgGet (writerD w).cfg k).isSome = true :=
    fun k hk => rectify_get_isSome (writtenRaw w) k hk
  refine
    { lengths := ?_, traceLens := ?_, index := ?_, known := ?_, noExternal := rfl, roi := ?_,
      channels := ?_, lasers := ?_, samples := ?_, positive := ?_, polygons := ?_, basins := ?_,
      complete := ?_, data := ⟨rfl, rfl⟩ }
  · intro fl hfl
    rw [hl]
    simp only [writerD, rectifyD, writtenRaw, writtenEvents, List.mem_append, List.mem_map] at hfl
    rcases hfl with (⟨f, _, rfl⟩ | hfl) | hfl
    · rfl
    · split at hfl
      · simp only [List.mem_singleton] at hfl; rw [hfl]
      · cases hfl
    · split at hfl
      · simp only [List.mem_singleton] at hfl; rw [hfl]
      · cases hfl
  · intro t ht
    rw [hl]
    simp only [writerD, rectifyD, writtenRaw, List.mem_map] at ht
    obtain ⟨_, _, rfl⟩ := ht
    rfl
  · intro xs hxs
    rw [hl]
    simp only [writerD, rectifyD, writtenRaw] at hxs
    split at hxs
    · cases hxs; rfl
    · cases hxs
  · intro fk hfk
    simp only [writerD, rectifyD, writtenRaw, List.mem_append, List.mem_map] at hfk
    rcases hfk with ⟨_, _, rfl⟩ | hfk
    · rfl
    · split at hfk
      · cases hfk
      · simp only [List.mem_singleton] at hfk; rw [hfk]
  · intro vx vy hx hy i hi
    simp only [writerD, rectifyD, writtenRaw] at hi
    cases him : w.image with
    | none => rw [him] at hi; cases hi
    | some s =>
      rw [him] at hi
      simp only [List.mem_singleton] at hi
      have hX := rectify_get_roiX (writtenRaw w) s (by simp [writtenRaw, him])
      have hY := rectify_get_roiY (writtenRaw w) s (by simp [writtenRaw, him])
      simp only [writerD, rectifyD] at hx hy
      rw [hX] at hx; rw [hY] at hy
      cases hx; cases hy
      subst hi
      simp [isNat_natVal]
  · intro hfl v hv
    have hcf : channelsFound (cfgGet (writerD w).cfg) (writerD w) = nFl (writtenRaw w) := by
      apply channelsFound_eq_nFl
      intro ce hce hev
      apply hsome
      exact hm.channelNames ce hce hev
    rw [hcf]
    have hc := rectify_get_channels (writtenRaw w)
    simp only [writerD, rectifyD] at hv
    rw [hc] at hv
    cases hu : cfgGet (writtenRaw w).cfg kChannels with
    | some v0 =>
      rw [hu] at hv; cases hv
      exact hm.channelCount v hu
    | none =>
      rw [hu] at hv
      simp only at hv
      split at hv
      · cases hv; simp [isNat_natVal]
      · cases hv
  · intro hfl v hv
    have h1 : cfgGet (writerD w).cfg ("fluorescence", "laser count")
        = cfgGet w.userCfg ("fluorescence", "laser count") := hget _ (by decide)
    rw [h1] at hv
    rw [lasersFound_congr (cfgGet (writerD w).cfg) (cfgGet w.userCfg) hget]
    exact hm.lasers v hv
  · intro hfl v hv t ht
    simp only [writerD, rectifyD, writtenRaw, List.mem_map] at ht
    obtain ⟨tn, htn, rfl⟩ := ht
    have hne : w.traces.isEmpty = false := by
      cases hw : w.traces with
      | nil => rw [hw] at htn; cases htn
      | cons _ _ => rfl
    have hS := rectify_get_samples (writtenRaw w) w.traceWidth (by simp [writtenRaw, hne])
    simp only [writerD, rectifyD] at hv
    rw [hS] at hv; cases hv
    simp [isNat_natVal]
  · intro k hk v hv
    have hk' : k ∉ autoKeys := by
      simp only [positiveKeys, List.mem_cons, List.not_mem_nil, or_false] at hk
      rcases hk with rfl | rfl | rfl | rfl <;> decide
    rw [hget k hk'] at hv
    exact hm.positive k hk v hv
  · intro p hp; cases hp
  · intro b hb; cases hb
  · intro sec hsec
    have hfl : hasFl (writerD w) = hasFl (writtenRaw w) := rfl
    rw [hfl] at hsec ⊢
    constructor
    · have h4 := secs_subset _ sec hsec
      simp only [List.mem_cons, List.not_mem_nil, or_false] at h4
      rcases h4 with rfl | rfl | rfl | rfl
      · rfl
      · rfl
      · have himp : (keysOf (important (hasFl (writtenRaw w))) "imaging").contains "frame rate"
            = true := by cases hasFl (writtenRaw w) <;> decide
        have := hsome _ (hm.keys "imaging" hsec "frame rate" (by decide) himp (by decide))
        simp only [sectionPresent, Bool.or_eq_true, List.any_eq_true]
        exact Or.inr ⟨"frame rate", by decide, this⟩
      · rfl
    · intro key hkey himp hopt
      exact hsome _ (hm.keys sec hsec key hkey himp hopt)

/-! ## writer histories -/

theorem stepHist_inv (st : Nat × List Nat) (op : WOp) (h : st.2 = List.range' 1 st.1) :
    (stepHist st op).2 = List.range' 1 (stepHist st op).1 := by
  cases op with
  | append k =>
    simp only [stepHist]
    rw [h, List.length_range', ← List.range'_append_1, Nat.add_comm 1 st.1]
  | replace k => rfl

theorem foldl_stepHist_inv : ∀ (ops : List WOp) (st : Nat × List Nat),
    st.2 = List.range' 1 st.1 →
    (ops.foldl stepHist st).2 = List.range' 1 (ops.foldl stepHist st).1 := by
  intro ops
  induction ops with
  | nil => intro st h; exact h
  | cons op rest ih => intro st h; exact ih _ (stepHist_inv st op h)

/-- after every history of appends and replace-mode rewrites the stored index enumerates the
    events -/
theorem runHist_index (h : List WOp) : (runHist h).2 = List.range' 1 (runHist h).1 :=
  foldl_stepHist_inv h (0, []) rfl

theorem histD_eq (w : Written) (h : List WOp) :
    histD w h = writerD { w with n := (runHist h).1, storeIndex := true } := by
  have : (writerD { w with n := (runHist h).1, storeIndex := true }).index
      = some (runHist h).2 := by
    rw [runHist_index]; rfl
  unfold histD
  rw [← this]

/-! ## feature subsets -/

theorem hasEvent_subsetD (d : D) (keep : String → Bool) (f : String) :
    hasEvent (subsetD d keep) f = (hasEvent d f && keep f) := by
  rw [Bool.eq_iff_iff]
  simp only [hasEvent, subsetD, List.contains_iff_mem, List.mem_map, List.mem_filter,
    Bool.and_eq_true]
  constructor
  · rintro ⟨e, ⟨he, hk⟩, rfl⟩
    exact ⟨⟨e, he, rfl⟩, hk⟩
  · rintro ⟨⟨e, he, rfl⟩, hk⟩
    exact ⟨e, ⟨he, hk⟩, rfl⟩

theorem hasFl_subsetD (d : D) (keep : String → Bool) (h : hasFl (subsetD d keep) = true) :
    hasFl d = true := by
  simp only [hasFl, hasEvent_subsetD, Bool.or_eq_true, Bool.and_eq_true] at h ⊢
  rcases h with (h | h) | h
  · exact Or.inl (Or.inl h.1)
  · exact Or.inl (Or.inr h.1)
  · exact Or.inr h.1

/-- what is mandatory without fluorescence is mandatory with fluorescence -/
def tableMono : Bool :=
  (secsInvestigated false).all fun s =>
    (secsInvestigated true).contains s &&
    (keysOf (important false) s).all fun k => (keysOf (important true) s).contains k

theorem lends_of_some (get : Get) (d : D) (v : Val) (h : get ("experiment", "event count") = some v) :
    lends get d = toNat v := by
  simp [lends, h]

theorem table_mono : tableMono = true := by decide

theorem eventCount_present (d : D) (g : Guarantees d) :
    ∃ v, cfgGet d.cfg ("experiment", "event count") = some v := by
  have hsec : "experiment" ∈ secsInvestigated (hasFl d) := by cases hasFl d <;> decide
  have himp : (keysOf (important (hasFl d)) "experiment").contains "event count" = true := by
    cases hasFl d <;> decide
  have := (g.complete "experiment" hsec).2 "event count" (by decide) himp (by decide)
  cases h : cfgGet d.cfg ("experiment", "event count") with
  | none => rw [h] at this; cases this
  | some v => exact ⟨v, rfl⟩

/-- a clean description stays clean when only a subset of the features is kept, provided the
    stored fluorescence channels are kept together or dropped together -/
theorem subset_guarantees (d : D) (keep : String → Bool) (g : Guarantees d)
    (hfl : hasFl (subsetD d keep) = true →
      ∀ ce, ce ∈ chanKeys → hasEvent d ce.2 = true → keep ce.2 = true) :
    Guarantees (subsetD d keep) := by
  obtain ⟨ev, hev⟩ := eventCount_present d g
  have hcfg : (subsetD d keep).cfg = d.cfg := rfl
  have hl : lends (cfgGet (subsetD d keep).cfg) (subsetD d keep) = lends (cfgGet d.cfg) d := by
    rw [hcfg, lends_of_some _ _ ev hev, lends_of_some _ _ ev hev]
  refine
    { lengths := ?_, traceLens := ?_, index := ?_, known := ?_, noExternal := g.noExternal,
      roi := ?_, channels := ?_, lasers := ?_, samples := ?_, positive := g.positive,
      polygons := g.polygons, basins := g.basins, complete := ?_, data := g.data }
  · intro fl hfl'
    rw [hl]
    exact g.lengths fl (List.mem_filter.mp hfl').1
  · intro t ht
    rw [hl]
    simp only [subsetD] at ht
    split at ht
    · exact g.traceLens t ht
    · cases ht
  · intro xs hxs
    rw [hl]
    simp only [subsetD] at hxs
    split at hxs
    · exact g.index xs hxs
    · cases hxs
  · intro fk hfk
    exact g.known fk (List.mem_filter.mp hfk).1
  · intro vx vy hx hy i hi
    exact g.roi vx vy hx hy i (List.mem_filter.mp hi).1
  · intro hs v hv
    have hd := hasFl_subsetD d keep hs
    have hcf : channelsFound (cfgGet (subsetD d keep).cfg) (subsetD d keep)
        = channelsFound (cfgGet d.cfg) d := by
      simp only [channelsFound, hcfg]
      congr 1
      apply List.filter_congr
      intro ce hce
      rw [hasEvent_subsetD]
      cases he : hasEvent d ce.2 with
      | false => simp
      | true => simp [hfl hs ce hce he]
    rw [hcf]
    exact g.channels hd v hv
  · intro hs v hv
    exact g.lasers (hasFl_subsetD d keep hs) v hv
  · intro hs v hv t ht
    simp only [subsetD] at ht
    split at ht
    · exact g.samples (hasFl_subsetD d keep hs) v hv t ht
    · cases ht
  · intro sec hsec
    cases hs : hasFl (subsetD d keep) with
    | true =>
      have hd := hasFl_subsetD d keep hs
      rw [hs] at hsec
      rw [← hd] at hsec
      have := g.complete sec hsec
      rw [hd] at this
      exact this
    | false =>
      rw [hs] at hsec
      cases hd : hasFl d with
      | false =>
        have := g.complete sec (by rw [hd]; exact hsec)
        rw [hd] at this
        exact this
      | true =>
        have hm := table_mono
        simp only [tableMono, List.all_eq_true, Bool.and_eq_true] at hm
        obtain ⟨h1, h2⟩ := hm sec hsec
        rw [List.contains_iff_mem] at h1
        have := g.complete sec (by rw [hd]; exact h1)
        rw [hd] at this
        refine ⟨this.1, fun key hkey himp hopt => this.2 key hkey ?_ hopt⟩
        rw [List.contains_iff_mem] at himp
        exact h2 key himp

end DclabModel.Check
