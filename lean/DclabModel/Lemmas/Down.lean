import DclabModel.Model.Down
/-!
# Helper lemmas for the downsampling model (C16, and the event limit of C03)
Core Lean only.
-/
namespace DclabModel.Down

/-! ## `sel` / `scatter` -/

theorem sel_nil_right {α : Type} (m : List Bool) : sel m ([] : List α) = [] := by
  cases m with
  | nil => rfl
  | cons b m => cases b <;> rfl

theorem sel_replicate_true {α : Type} (xs : List α) :
    sel (List.replicate xs.length true) xs = xs := by
  induction xs with
  | nil => rfl
  | cons x xs ih => simp only [List.length_cons, List.replicate_succ, sel, ih]

theorem length_scatter (m s : List Bool) : (scatter m s).length = m.length := by
  induction m generalizing s with
  | nil => rfl
  | cons b m ih =>
    cases b with
    | false => simp only [scatter, List.length_cons, ih]
    | true => cases s <;> simp only [scatter, List.length_cons, ih]

/-- `xs[full]` with `full[m] = s` is `xs[m][s]` -/
theorem sel_scatter {α : Type} (m s : List Bool) (xs : List α) :
    sel (scatter m s) xs = sel s (sel m xs) := by
  induction m generalizing s xs with
  | nil => cases s <;> simp [scatter, sel]
  | cons b m ih =>
    cases xs with
    | nil => simp only [sel_nil_right]
    | cons x xs =>
      cases b with
      | false => simp only [scatter, sel, ih]
      | true =>
        cases s with
        | nil => simp only [scatter, sel, ih]
        | cons c s => cases c <;> simp only [scatter, sel, ih]

theorem cnt_cons (b : Bool) (m : List Bool) : cnt (b :: m) = (if b then 1 else 0) + cnt m := by
  cases b <;> simp [cnt] <;> omega

theorem cnt_nil : cnt [] = 0 := rfl

theorem cnt_le_length (m : List Bool) : cnt m ≤ m.length := List.count_le_length

theorem cnt_scatter (m s : List Bool) (h : s.length = cnt m) : cnt (scatter m s) = cnt s := by
  induction m generalizing s with
  | nil => cases s with
    | nil => rfl
    | cons c s => simp [cnt_nil] at h
  | cons b m ih =>
    cases b with
    | false =>
      simp only [scatter, cnt_cons] at h ⊢
      simp only [Bool.false_eq_true, if_false, Nat.zero_add] at h ⊢
      exact ih s h
    | true =>
      cases s with
      | nil => simp only [cnt_cons, List.length_nil, if_true] at h; omega
      | cons c s =>
        simp only [scatter, cnt_cons, List.length_cons, if_true] at h ⊢
        rw [ih s (by omega)]

theorem length_sel {α : Type} (m : List Bool) (xs : List α) (h : m.length = xs.length) :
    (sel m xs).length = cnt m := by
  induction m generalizing xs with
  | nil => cases xs <;> rfl
  | cons b m ih =>
    cases xs with
    | nil => simp at h
    | cons x xs =>
      simp only [List.length_cons, Nat.add_right_cancel_iff] at h
      cases b <;> simp [sel, cnt_cons, ih xs h] <;> omega

theorem scatter_le (m s : List Bool) (i : Nat) :
    (scatter m s).getD i false = true → m.getD i false = true := by
  induction m generalizing s i with
  | nil => simp [scatter]
  | cons b m ih =>
    cases b with
    | false =>
      cases i with
      | zero => simp [scatter]
      | succ i => simpa [scatter] using ih s i
    | true =>
      cases i with
      | zero => simp
      | succ i => cases s <;> simpa [scatter] using ih _ i

theorem cnt_replicate_true (n : Nat) : cnt (List.replicate n true) = n := by
  simp [cnt]

/-- every selected element is an element of the input (no alteration) -/
theorem sel_sublist {α : Type} (m : List Bool) (xs : List α) : (sel m xs).Sublist xs := by
  induction m generalizing xs with
  | nil => cases xs <;> simp [sel]
  | cons b m ih =>
    cases xs with
    | nil => simp [sel_nil_right]
    | cons x xs =>
      cases b with
      | false => exact (ih xs).cons x
      | true => exact (ih xs).cons_cons x

/-! ## masks defined through index sets -/

theorem length_ofFn (n : Nat) (f : Nat → Bool) : (ofFn n f).length = n := by
  simp [ofFn]

theorem cnt_ofFn (n : Nat) (f : Nat → Bool) : cnt (ofFn n f) = (List.range n).countP f := by
  simp only [cnt, ofFn, List.count_eq_countP, List.countP_map]
  congr 1
  funext i
  simp

theorem ofFn_getD (m : List Bool) : ofFn m.length (fun i => m.getD i false) = m := by
  apply List.ext_getElem
  · simp [ofFn]
  · intro i h1 h2
    simp [ofFn, List.getD_eq_getElem?_getD, h2]

theorem cnt_eq_countP (m : List Bool) :
    cnt m = (List.range m.length).countP (fun i => m.getD i false) := by
  rw [← cnt_ofFn, ofFn_getD]

theorem countP_split (l : List Nat) (p q : Nat → Bool) :
    l.countP p = l.countP (fun i => p i && q i) + l.countP (fun i => p i && !q i) := by
  induction l with
  | nil => rfl
  | cons x l ih =>
    simp only [List.countP_cons, ih]
    cases p x <;> cases q x <;> simp <;> omega

theorem countP_or (l : List Nat) (p q : Nat → Bool) :
    l.countP (fun i => p i || q i) = l.countP p + l.countP (fun i => !p i && q i) := by
  induction l with
  | nil => rfl
  | cons x l ih =>
    simp only [List.countP_cons, ih]
    cases p x <;> cases q x <;> simp <;> omega

/-- pigeonhole: distinct indices below `n` that all satisfy `p` are counted once each -/
theorem countP_mem (n : Nat) (p : Nat → Bool) (ids : List Nat) (hn : ids.Nodup)
    (h : ∀ x ∈ ids, x < n ∧ p x = true) :
    (List.range n).countP (fun i => p i && ids.contains i) = ids.length := by
  rw [List.countP_eq_length_filter]
  apply List.Perm.length_eq
  rw [List.perm_ext_iff_of_nodup (List.Nodup.sublist List.filter_sublist List.nodup_range) hn]
  intro x
  simp only [List.mem_filter, List.mem_range, Bool.and_eq_true, List.contains_iff_mem]
  constructor
  · intro hx; exact hx.2.2
  · intro hx; exact ⟨(h x hx).1, (h x hx).2, hx⟩

theorem length_setAt (m : List Bool) (ids : List Nat) : (setAt m ids).length = m.length :=
  length_ofFn _ _

theorem length_clearAt (m : List Bool) (ids : List Nat) : (clearAt m ids).length = m.length :=
  length_ofFn _ _

theorem length_maskOf (n : Nat) (ids : List Nat) : (maskOf n ids).length = n :=
  length_ofFn _ _

theorem cnt_maskOf (n : Nat) (ids : List Nat) (hn : ids.Nodup) (h : ∀ x ∈ ids, x < n) :
    cnt (maskOf n ids) = ids.length := by
  rw [maskOf, cnt_ofFn]
  have := countP_mem n (fun _ => true) ids hn (fun x hx => ⟨h x hx, rfl⟩)
  simpa using this

theorem mem_whereT (m : List Bool) (x : Nat) :
    x ∈ whereT m ↔ x < m.length ∧ m.getD x false = true := by
  simp [whereT, List.mem_filter]

theorem mem_whereF (m : List Bool) (x : Nat) :
    x ∈ whereF m ↔ x < m.length ∧ m.getD x false = false := by
  simp [whereF, List.mem_filter]

theorem nodup_whereT (m : List Bool) : (whereT m).Nodup :=
  List.Nodup.sublist List.filter_sublist List.nodup_range

theorem nodup_whereF (m : List Bool) : (whereF m).Nodup :=
  List.Nodup.sublist List.filter_sublist List.nodup_range

theorem length_whereT (m : List Bool) : (whereT m).length = cnt m := by
  rw [cnt_eq_countP, whereT, List.countP_eq_length_filter]

theorem length_whereF (m : List Bool) : (whereF m).length = m.length - cnt m := by
  have h := countP_split (List.range m.length) (fun _ => true) (fun i => m.getD i false)
  simp only [Bool.true_and] at h
  rw [← cnt_eq_countP] at h
  have h0 : (List.range m.length).countP (fun _ => true) = m.length := by simp
  rw [whereF, ← List.countP_eq_length_filter]
  omega

theorem cnt_setAt (m : List Bool) (ids : List Nat) (hn : ids.Nodup)
    (h : ∀ x ∈ ids, x ∈ whereF m) : cnt (setAt m ids) = cnt m + ids.length := by
  rw [setAt, cnt_ofFn, countP_or, ← cnt_eq_countP]
  congr 1
  apply countP_mem _ _ _ hn
  intro x hx
  have := (mem_whereF m x).1 (h x hx)
  exact ⟨this.1, by rw [this.2]; rfl⟩

theorem cnt_clearAt (m : List Bool) (ids : List Nat) (hn : ids.Nodup)
    (h : ∀ x ∈ ids, x ∈ whereT m) : cnt (clearAt m ids) = cnt m - ids.length := by
  have hs := countP_split (List.range m.length) (fun i => m.getD i false)
    (fun i => ids.contains i)
  rw [← cnt_eq_countP] at hs
  have hm := countP_mem m.length (fun i => m.getD i false) ids hn
    (fun x hx => (mem_whereT m x).1 (h x hx))
  rw [clearAt, cnt_ofFn]
  omega

/-- `setAt` only adds the listed positions -/
theorem getD_setAt (m : List Bool) (ids : List Nat) (i : Nat) :
    (setAt m ids).getD i false = true → m.getD i false = true ∨ i ∈ ids := by
  intro h
  by_cases hi : i < m.length
  · simp [setAt, ofFn, List.getD_eq_getElem?_getD, hi] at h
    rcases h with h | h
    · left; simp [List.getD_eq_getElem?_getD, hi, h]
    · right; exact h
  · simp [setAt, ofFn, List.getD_eq_getElem?_getD, hi] at h

theorem getD_clearAt (m : List Bool) (ids : List Nat) (i : Nat) :
    (clearAt m ids).getD i false = true → m.getD i false = true := by
  intro h
  by_cases hi : i < m.length
  · simp [clearAt, ofFn, List.getD_eq_getElem?_getD, hi] at h
    simp [List.getD_eq_getElem?_getD, hi, h.1]
  · simp [clearAt, ofFn, List.getD_eq_getElem?_getD, hi] at h

/-! ## `populate_grid` -/

theorem length_populate (seen cs : List (Nat × Nat)) : (populate seen cs).length = cs.length := by
  induction cs generalizing seen with
  | nil => rfl
  | cons c cs ih =>
    simp only [populate]
    split <;> simp [ih]

/-- the kept events have pairwise different cells, none of them a cell seen before, and every
cell of the input is either seen before or represented by a kept event -/
theorem populate_spec (seen cs : List (Nat × Nat)) :
    (sel (populate seen cs) cs).Nodup ∧
    (∀ c ∈ sel (populate seen cs) cs, c ∉ seen) ∧
    (∀ c ∈ cs, c ∈ seen ∨ c ∈ sel (populate seen cs) cs) := by
  induction cs generalizing seen with
  | nil => simp [populate, sel]
  | cons c cs ih =>
    simp only [populate]
    by_cases hc : seen.contains c = true
    · simp only [hc, if_true, sel]
      obtain ⟨h1, h2, h3⟩ := ih seen
      refine ⟨h1, h2, ?_⟩
      intro d hd
      rcases List.mem_cons.1 hd with rfl | hd
      · left; simpa using hc
      · exact h3 d hd
    · simp only [hc]
      obtain ⟨h1, h2, h3⟩ := ih (c :: seen)
      have hc' : c ∉ seen := by simpa using hc
      refine ⟨?_, ?_, ?_⟩
      · refine List.nodup_cons.2 ⟨?_, h1⟩
        intro hmem
        exact h2 c hmem (List.mem_cons_self)
      · intro d hd
        rcases List.mem_cons.1 hd with rfl | hd
        · exact hc'
        · intro hds; exact h2 d hd (List.mem_cons_of_mem _ hds)
      · intro d hd
        rcases List.mem_cons.1 hd with rfl | hd
        · right; exact List.mem_cons_self
        · rcases h3 d hd with h | h
          · rcases List.mem_cons.1 h with rfl | h
            · right; exact List.mem_cons_self
            · left; exact h
          · right; exact List.mem_cons_of_mem _ h

/-! ## `downsample_rand`, lengths in `downsample_grid` -/

/-- `dsa = a[idx]`, `len(idx) = len(a)` -/
theorem rand_sel {α : Type} (choice : List Nat → Nat → List Nat)
    (valid : α → Bool) (a : List α) (k : Nat) (ri : Bool) :
    (rand choice valid a k ri).1 = sel (rand choice valid a k ri).2 a ∧
    (rand choice valid a k ri).2.length = a.length := by
  unfold rand
  cases ri with
  | true =>
    simp only [if_true]
    refine ⟨?_, by simp [length_scatter]⟩
    rw [sel_scatter]
    split
    · rfl
    · exact (sel_replicate_true _).symm
  | false =>
    simp only [Bool.false_eq_true, if_false]
    constructor
    · split
      · rfl
      · exact (sel_replicate_true _).symm
    · split
      · exact length_maskOf _ _
      · simp

/-- number of events `downsample_rand` may return -/
def randEligible {α : Type} (valid : α → Bool) (a : List α) (ri : Bool) : Nat :=
  if ri then cnt (a.map valid) else a.length

/-- **Exact count.** `k` events when at least `k` are eligible, all eligible events
otherwise (and for `k = 0`, O7); the mask selects that many. -/
theorem rand_cnt {α : Type} (choice : List Nat → Nat → List Nat) (hc : ChoiceOK choice)
    (valid : α → Bool) (a : List α) (k : Nat) (ri : Bool) :
    (rand choice valid a k ri).1.length =
      (if k = 0 then randEligible valid a ri else min k (randEligible valid a ri)) ∧
    cnt (rand choice valid a k ri).2 = (rand choice valid a k ri).1.length := by
  have hmask : ∀ q, k ≤ q → cnt (maskOf q (choice (List.range q) k)) = k := by
    intro q hq
    have hq' : k ≤ (List.range q).length := by simpa using hq
    rw [cnt_maskOf _ _ (hc.nodup _ _ List.nodup_range hq')]
    · exact hc.length _ _ hq'
    · intro x hx
      simpa using hc.mem _ _ hq' x hx
  have hpool : (if ri = true then sel (a.map valid) a else a).length = randEligible valid a ri := by
    unfold randEligible
    cases ri with
    | true => simp only [if_true]; exact length_sel _ _ (by simp)
    | false => simp
  have h1 := (rand_sel choice valid a k ri).1
  have h2 := (rand_sel choice valid a k ri).2
  refine ⟨?_, by rw [h1]; exact (length_sel _ _ h2).symm⟩
  unfold rand
  simp only
  generalize hp : (if ri = true then sel (a.map valid) a else a) = pool at hpool
  rw [← hpool]
  by_cases hthin : k ≠ 0 ∧ k < pool.length
  · simp only [hthin, decide_true, if_true, ne_eq, not_false_eq_true, and_self]
    rw [length_sel _ _ (length_maskOf _ _), hmask _ (by omega)]
    simp only [if_false]
    omega
  · simp only [hthin, decide_false, Bool.false_eq_true, if_false]
    by_cases hk : k = 0
    · simp [hk]
    · simp only [hk, if_false]; omega

theorem length_goodMask (a b : List Val) (h : a.length = b.length) :
    (goodMask a b).length = a.length := by
  simp [goodMask, List.length_zipWith]; omega

theorem padBad_length (choice : List Nat → Nat → List Nat) (good keep : List Bool) (k : Nat)
    (keep' : List Bool) (h : padBad choice good keep k = .ok keep') :
    keep'.length = keep.length := by
  unfold padBad at h
  simp only at h
  by_cases ht : (if k = 0 then keep.length else k) > cnt keep
  · rw [if_pos ht] at h
    by_cases hn : (if k = 0 then keep.length else k) - cnt keep > (whereF good).length
    · rw [if_pos hn] at h; cases h
    · rw [if_neg hn] at h; injection h with h; rw [← h, length_setAt]
  · rw [if_neg ht] at h; injection h with h; rw [h]

/-! ## scale, validity on scaled values, dataset-level bookkeeping (`getScatter`, `limitSel`) -/

/-- a logarithm is valid exactly for positive finite numbers -/
theorem logV_valid_iff (lg : Rat → Rat) (v : Val) :
    (logV lg v).isValid = true ↔ ∃ q, v = .fin q ∧ 0 < q := by
  cases v with
  | nan => simp [logV, Val.isValid]
  | ninf => simp [logV, Val.isValid]
  | pinf => simp [logV, Val.isValid]
  | fin q =>
    by_cases h : 0 < q
    · simp [logV, Val.isValid, h]
    · by_cases h0 : q = 0
      · simp [logV, Val.isValid, h0]
      · simp [logV, Val.isValid, h, h0]

theorem sel_map {α β : Type} (f : α → β) (m : List Bool) (xs : List α) :
    sel m (xs.map f) = (sel m xs).map f := by
  induction m generalizing xs with
  | nil => cases xs <;> simp [sel]
  | cons b m ih =>
    cases xs with
    | nil => simp [sel_nil_right]
    | cons x xs => cases b <;> simp [sel, ih]

/-- scaling commutes with boolean indexing -/
theorem applyScale_sel (lg : Rat → Rat) (log : Bool) (m : List Bool) (col : List Val) :
    applyScale lg log (sel m col) = sel m (applyScale lg log col) := by
  unfold applyScale
  cases log with
  | false => simp
  | true => simp only [if_true]; exact (sel_map _ _ _).symm

theorem length_applyScale (lg : Rat → Rat) (log : Bool) (col : List Val) :
    (applyScale lg log col).length = col.length := by
  unfold applyScale
  cases log <;> simp

/-- if a mask only selects positions where `p` holds, every selected element satisfies `p` -/
theorem sel_forall {α : Type} (p : α → Bool) (m : List Bool) (xs : List α)
    (h : ∀ i, m.getD i false = true → (xs.map p).getD i false = true) :
    ∀ v ∈ sel m xs, p v = true := by
  induction m generalizing xs with
  | nil => cases xs <;> simp [sel]
  | cons b m ih =>
    cases xs with
    | nil => simp [sel_nil_right]
    | cons x xs =>
      have ht : ∀ i, m.getD i false = true → (xs.map p).getD i false = true := by
        intro i hi
        have := h (i + 1)
        simpa using this (by simpa using hi)
      cases b with
      | false =>
        intro v hv
        exact ih xs ht v (by simpa [sel] using hv)
      | true =>
        intro v hv
        simp only [sel, List.mem_cons] at hv
        rcases hv with rfl | hv
        · have := h 0
          simpa using this
        · exact ih xs ht v hv

theorem goodMask_getD (a b : List Val) (i : Nat) :
    (goodMask a b).getD i false = true →
      (a.map Val.isValid).getD i false = true ∧ (b.map Val.isValid).getD i false = true := by
  induction a generalizing b i with
  | nil => simp [goodMask]
  | cons x a ih =>
    cases b with
    | nil => simp [goodMask]
    | cons y b =>
      cases i with
      | zero => simp [goodMask]
      | succ i =>
        have := ih b i
        simpa [goodMask] using this

/-- the grid stage never selects an invalid pair (no hypothesis on the random source) -/
theorem gridKeep_sub_good (choice : List Nat → Nat → List Nat) (a b : List Val) (k : Nat)
    (keep : List Bool) (h : gridKeep choice a b k = .ok keep) :
    ∀ i, keep.getD i false = true → (goodMask a b).getD i false = true := by
  unfold gridKeep at h
  simp only at h
  split at h
  · split at h
    · cases h
    · injection h with h; subst h; intro i; exact scatter_le _ _ i
  · injection h with h; subst h; intro i hi; exact hi

theorem goodMask_sel (m : List Bool) (a b : List Val) :
    goodMask (sel m a) (sel m b) = sel m (goodMask a b) := by
  induction m generalizing a b with
  | nil => cases a <;> cases b <;> simp [sel, goodMask]
  | cons c m ih =>
    cases a with
    | nil => simp [sel_nil_right, goodMask]
    | cons x a =>
      cases b with
      | nil => simp [sel_nil_right, goodMask]
      | cons y b =>
        have := ih a b
        cases c <;> simp_all [sel, goodMask]

/-- counting inside the filtered events = counting the conjunction on the dataset -/
theorem cnt_sel_eq (m g : List Bool) :
    cnt (sel m g) = cnt (List.zipWith (fun q x => q && x) m g) := by
  induction m generalizing g with
  | nil => cases g <;> simp [sel, cnt]
  | cons c m ih =>
    cases g with
    | nil => simp [sel_nil_right, cnt]
    | cons x g =>
      cases c with
      | false => simp only [sel, List.zipWith_cons_cons, Bool.false_and, cnt_cons, ih g]; simp
      | true => simp only [sel, List.zipWith_cons_cons, Bool.true_and, cnt_cons, ih g]

theorem zipWith_and_getD (q m : List Bool) (i : Nat) :
    (List.zipWith (fun a b => a && b) q m).getD i false = true →
      q.getD i false = true ∧ m.getD i false = true := by
  induction q generalizing m i with
  | nil => simp
  | cons x q ih =>
    cases m with
    | nil => simp
    | cons y m =>
      cases i with
      | zero => simp
      | succ i => simpa using ih m i

end DclabModel.Down
