import DclabModel.Lemmas.Http
import DclabModel.Model.HttpFault
/-! Lemmas about `HTTPFile` under download failures (C19). -/
namespace DclabModel.Http

theorem getChunkF_fail (sv : Server) (cfg : Cfg) (st : St) (i : Nat)
    (hm : (lookup i st.cache).isNone = true) :
    getChunkF sv cfg st i 0 =
      ({ st with reqs := st.reqs ++ [(i * cfg.cs, min ((i + 1) * cfg.cs) sv.len)] }, .ioError, 0) := by
  unfold getChunkF
  simp [hm]

theorem getChunkF_ok (sv : Server) (cfg : Cfg) (st : St) (i budget : Nat)
    (h : ¬ ((lookup i st.cache).isNone = true ∧ budget = 0)) :
    ∃ b', getChunkF sv cfg st i budget =
      ((getChunk sv cfg st i).1, Res.ofOpt (getChunk sv cfg st i).2, b') := by
  unfold getChunkF
  by_cases hm : (lookup i st.cache).isNone = true
  · have hb : budget ≠ 0 := fun hb => h ⟨hm, hb⟩
    simp only [hm, if_true, hb, if_false]
    exact ⟨_, rfl⟩
  · simp only [hm]
    exact ⟨_, rfl⟩

/-- A read under faults either raises the I/O error — the cache is still correct and the
position untouched — or behaves exactly like the read without faults. -/
theorem readLoopF_cases (sv : Server) (cfg : Cfg) (stop : Nat)
    (hcs : 0 < cfg.cs) (hk : 2 ≤ cfg.keep) :
    ∀ (count idx pos toread budget : Nat) (st : St) (data : Bytes), Inv sv cfg st.cache →
      (∃ st', readLoopF sv cfg stop count idx pos toread budget st data = (st', .ioError) ∧
              Inv sv cfg st'.cache ∧ st'.pos = st.pos) ∨
      readLoopF sv cfg stop count idx pos toread budget st data =
        ((readLoop sv cfg stop count idx pos toread st data).1,
         Res.ofOpt (readLoop sv cfg stop count idx pos toread st data).2) := by
  intro count
  induction count with
  | zero =>
    intro idx pos toread budget st data _
    right
    simp [readLoopF, readLoop, Res.ofOpt]
  | succ c ih =>
    intro idx pos toread budget st data hinv
    by_cases hf : (lookup idx st.cache).isNone = true ∧ budget = 0
    · left
      obtain ⟨hm, hb⟩ := hf
      subst hb
      unfold readLoopF
      rw [getChunkF_fail sv cfg st idx hm]
      exact ⟨_, rfl, hinv, rfl⟩
    · obtain ⟨b', hb'⟩ := getChunkF_ok sv cfg st idx budget hf
      obtain ⟨chunk, hget, _, hinv', hpos'⟩ := getChunk_spec sv cfg st idx hcs hk hinv
      have hsplit : getChunk sv cfg st idx = ((getChunk sv cfg st idx).1, some chunk) := by
        rw [← hget]
      unfold readLoopF readLoop
      rw [hb', hsplit]
      simp only [Res.ofOpt]
      by_cases h0 : toread = 0
      · right
        simp [h0]
      · simp only [h0, if_false]
        by_cases hbig : pos % cfg.cs + toread ≥ cfg.cs
        · simp only [hbig, if_true]
          rcases ih (idx + 1) (pos + (cfg.cs - pos % cfg.cs)) (toread - (cfg.cs - pos % cfg.cs)) b'
            (getChunk sv cfg st idx).1 (data ++ chunk.drop (pos % cfg.cs)) hinv' with
            ⟨st', h1, h2, h3⟩ | h
          · left; exact ⟨st', h1, h2, by rw [h3, hpos']⟩
          · right; exact h
        · simp only [hbig, if_false]
          rcases ih (idx + 1) (pos + (stop % cfg.cs - pos % cfg.cs))
            (toread - (stop % cfg.cs - pos % cfg.cs)) b'
            (getChunk sv cfg st idx).1 (data ++ (chunk.take (stop % cfg.cs)).drop (pos % cfg.cs))
            hinv' with ⟨st', h1, h2, h3⟩ | h
          · left; exact ⟨st', h1, h2, by rw [h3, hpos']⟩
          · right; exact h

theorem readRangeF_cases (sv : Server) (cfg : Cfg) (st : St) (start stop budget : Nat)
    (hcs : 0 < cfg.cs) (hk : 2 ≤ cfg.keep) (hinv : Inv sv cfg st.cache) :
    (∃ st', readRangeF sv cfg st start stop budget = (st', .ioError) ∧
            Inv sv cfg st'.cache ∧ st'.pos = st.pos) ∨
    readRangeF sv cfg st start stop budget =
      ((readRange sv cfg st start stop).1, Res.ofOpt (readRange sv cfg st start stop).2) := by
  unfold readRangeF readRange
  exact readLoopF_cases sv cfg stop hcs hk _ _ _ _ _ st [] hinv

/-- the specification never reports an I/O error for an operation without fault -/
theorem specStep_ne_ioError (sv : Server) (pos : Int) (op : Op) :
    (specStep sv pos op).2 ≠ .ioError := by
  cases op <;> simp only [specStep] <;> (repeat' split) <;> simp

end DclabModel.Http
