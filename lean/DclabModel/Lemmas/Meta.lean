import DclabModel.Model.Meta
/-!
Helper lemmas for C11 (core Lean only): every converter is `wrap ∘ core`, and `core (wrap p) = p`,
`core (h5 (wrap p)) = p`.
-/
namespace DclabModel.Meta
open PyVal Except

theorem map_eq_ok {α β : Type} {f : α → β} {x : Except Err α} {w : β}
    (h : x.map f = .ok w) : ∃ p, x = .ok p ∧ f p = w := by
  cases x with
  | error e => simp [Except.map] at h
  | ok p => exact ⟨p, rfl, by simpa [Except.map] using h⟩

/-! ### strings -/

theorem lowerC_idem (c : Nat) : lowerC (lowerC c) = lowerC c := by
  unfold lowerC; repeat' split
  all_goals omega

theorem lowerC_upperC (c : Nat) : lowerC (upperC c) = lowerC c := by
  unfold lowerC upperC; repeat' split
  all_goals omega

theorem lower_idem (s : Str) : lower (lower s) = lower s := by
  simp [lower, List.map_map, Function.comp_def, lowerC_idem]

theorem lower_upper (s : Str) : lower (upper s) = lower s := by
  simp [lower, upper, List.map_map, Function.comp_def, lowerC_upperC]

/-! ### numbers -/

theorem toInt_ofInt (z : Int) : F.toInt (F.ofInt z) = .ok z := by
  simp [F.toInt, F.ofInt, Rat.ofInt]

theorem isZero_ofInt (z : Int) : (F.ofInt z).isZero = (z == 0) := by
  simp [F.isZero, F.ofInt, Rat.ofInt]

theorem truth_ofBool (b : Bool) : (F.ofBool b).truth = b := by
  cases b <;> simp [F.truth, F.isZero, F.ofBool, Rat.ofInt]

/-! ### core (wrap p) = p -/

theorem fboolCore_bool (b : Bool) : fboolCore (sc (.bool b)) = .ok b := by
  simp [fboolCore, pyFloat, Scal.toF, Except.map, truth_ofBool]

theorem fboolCore_npBool (b : Bool) : fboolCore (sc (.npBool b)) = .ok b := by
  simp [fboolCore, pyFloat, Scal.toF, Except.map, truth_ofBool]

theorem fintCore_int (z : Int) : fintCore (sc (.int z)) = .ok z := by
  simp [fintCore, pyFloat, Scal.toF, bind, Except.bind, toInt_ofInt]

theorem fintCore_npInt (z : Int) : fintCore (sc (.npInt z)) = .ok z := by
  simp [fintCore, pyFloat, Scal.toF, bind, Except.bind, toInt_ofInt]

theorem keepFixed_int (z : Int) : keepFixed (.int z) = true := by
  by_cases h : z = 0 <;> simp [keepFixed, Scal.truthy, Scal.eqZero, h]

theorem fintItems_ints (zs : List Int) : fintItems keepFixed (zs.map Scal.int) = .ok zs := by
  induction zs with
  | nil => rfl
  | cons z zs ih => simp [fintItems, keepFixed_int, fintCore_int, ih, Except.map]

theorem f1dCore_pair (a b : F) : f1dCore (tuple [.float a, .float b]) = .ok (a, b) := by
  simp [f1dCore, ndim, floatItems, Scal.toF, Except.map]

theorem f1dCore_arr (a b : F) : f1dCore (arr1 [.f a, .f b]) = .ok (a, b) := by
  simp [f1dCore, ndim, floatItems, Scal.toF, Except.map, Num.toScal]

theorem toF_f_comp : (Num.toF ∘ Num.f) = id := by funext x; rfl

theorem f2dCore_wrap (a : ArrF) : f2dCore a.wrap = .ok a := by
  cases a with
  | a0 x => simp [ArrF.wrap, f2dCore, Num.toF]
  | a1 xs => simp [ArrF.wrap, f2dCore, List.map_map, toF_f_comp]
  | a2 rows => simp [ArrF.wrap, f2dCore, List.map_map, Function.comp_def, Num.toF]

theorem lcstrCore_out {v : PyVal} {s : Scal} (h : lcstrCore v = .ok s) :
    (∃ t, s = .str (lower t)) ∨ (∃ t, v = sc (.bytes t) ∧ s = .bytes (lower t)) := by
  unfold lcstrCore at h
  split at h
  · left; exact ⟨_, by injection h with h; exact h.symm⟩
  · right; exact ⟨_, rfl, by injection h with h; exact h.symm⟩
  · cases h


/-- the float branch of `fboolorfloat` is only reached for non-zero numbers -/
theorem fbofCore_f_nonzero {v : PyVal} {x : F} (h : fbofCore v = .ok (.f x)) :
    x.isZero = false := by
  unfold fbofCore at h
  split at h
  · obtain ⟨p, _, hp⟩ := map_eq_ok h; cases hp
  · split at h
    · cases h
    · obtain ⟨p, _, hp⟩ := map_eq_ok h; cases hp
    · rename_i hz
      split at h
      · rename_i hr
        obtain ⟨p, hp, hq⟩ := map_eq_ok h
        injection hq with hq; subst hq
        cases v with
        | sc s =>
          cases s <;> simp [isRealScalar] at hr <;>
            simp [eqZero, Scal.eqZero] at hz <;>
            simp [pyFloat, Scal.toF] at hp <;> subst hp <;>
            simp_all [isZero_ofInt]
        | _ => simp [isRealScalar] at hr
      · cases h

theorem fbofCore_wrap {r : BF} (hr : ∀ x, r = .f x → x.isZero = false) :
    fbofCore r.wrap = .ok r := by
  cases r with
  | b v => simp [BF.wrap, fbofCore, isStrOrBool, fboolCore_bool, Except.map]
  | f x =>
    have := hr x rfl
    simp [BF.wrap, fbofCore, isStrOrBool, isNpBool, eqZero, Scal.eqZero, this, isRealScalar,
      pyFloat, Scal.toF, Except.map]

theorem fbofCore_h5_wrap {r : BF} (hr : ∀ x, r = .f x → x.isZero = false) :
    fbofCore (h5 r.wrap) = .ok r := by
  cases r with
  | b v => simp [BF.wrap, h5, fbofCore, isStrOrBool, isNpBool, fboolCore_npBool, Except.map]
  | f x =>
    have := hr x rfl
    simp [BF.wrap, h5, fbofCore, isStrOrBool, isNpBool, eqZero, Scal.eqZero, this, isRealScalar,
      pyFloat, Scal.toF, Except.map]

theorem h5_wrapPair (p : F × F) : h5 (wrapPair p) = arr1 [.f p.1, .f p.2] := by
  simp [wrapPair, h5, kindOf, Scal.kind, Kind.join, Scal.cast, Scal.toF]

theorem f2dCore_h5_wrap (a : ArrF) : f2dCore (h5 a.wrap) = .ok a := by
  cases a with
  | a0 x => simp [ArrF.wrap, h5, Num.toScal, f2dCore, Scal.npF, Scal.toF, Except.map]
  | a1 xs => simpa [ArrF.wrap, h5] using f2dCore_wrap (.a1 xs)
  | a2 rows => simpa [ArrF.wrap, h5] using f2dCore_wrap (.a2 rows)

/-! ### Python equality -/

theorem eqv_refl (a : Scal) : a.eqv a = true := by
  cases a <;> simp [Scal.eqv, Scal.num?]

theorem eqvList_refl (xs : List Scal) : eqvList xs xs = true := by
  induction xs with
  | nil => rfl
  | cons a r ih => simp [eqvList, eqv_refl, ih]

theorem eqvRows_refl (rows : List (List Scal)) : eqvRows rows rows = true := by
  induction rows with
  | nil => rfl
  | cons a r ih => simp [eqvRows, eqvList_refl, ih]

theorem pyEq_refl (v : PyVal) : pyEq v v = true := by
  simp [pyEq, eqvRows_refl]

/-- a numeric element cast to any numeric dtype still compares equal to the original
(`True == 1 == 1.0`) -/
theorem cast_eqv (k : Kind) (x : Scal) (hx : x.kind ≠ .bad) : ((x.cast k).toScal).eqv x = true := by
  cases x <;> simp [Scal.kind] at hx <;> cases k <;>
    simp [Scal.cast, Num.toScal, Scal.eqv, Scal.num?, Scal.toF, F.ofBool, F.ofInt] <;>
    (try (rename_i b; cases b <;> simp [F.ofInt]))

theorem join_bad (k : Kind) : k.join .bad = .bad := by cases k <;> rfl

theorem foldl_join_bad (ys : List Scal) :
    ys.foldl (fun (k : Kind) y => k.join y.kind) Kind.bad = Kind.bad := by
  induction ys with
  | nil => rfl
  | cons y r ih => simpa [Kind.join] using ih

theorem foldl_join_ne_bad (ys : List Scal) (k : Kind)
    (h : ys.foldl (fun k y => k.join y.kind) k ≠ .bad) : ∀ y ∈ ys, y.kind ≠ .bad := by
  induction ys generalizing k with
  | nil => intro y hy; cases hy
  | cons a r ih =>
    intro y hy
    simp only [List.foldl_cons] at h
    cases hy with
    | head =>
      intro hb
      rw [hb, join_bad, foldl_join_bad] at h
      exact h rfl
    | tail _ hy => exact ih _ h y hy

theorem kindOf_ne_bad (xs : List Scal) (h : kindOf xs ≠ .bad) : ∀ x ∈ xs, x.kind ≠ .bad := by
  cases xs with
  | nil => intro x hx; cases hx
  | cons a r =>
    simp only [kindOf] at h
    intro x hx
    cases hx with
    | head =>
      intro hb
      rw [hb, foldl_join_bad] at h
      exact h rfl
    | tail _ hx => exact foldl_join_ne_bad r _ h x hx

theorem eqvList_cast (k : Kind) (xs : List Scal) (h : ∀ x ∈ xs, x.kind ≠ .bad) :
    eqvList ((xs.map (Scal.cast k)).map Num.toScal) xs = true := by
  induction xs with
  | nil => rfl
  | cons a r ih =>
    simp only [List.map_cons, eqvList, Bool.and_eq_true]
    exact ⟨cast_eqv k a (h a (List.mem_cons_self ..)),
      ih (fun x hx => h x (List.mem_cons_of_mem _ hx))⟩

theorem eqvRows_cast (k : Kind) (rows : List (List Scal))
    (h : ∀ r ∈ rows, ∀ x ∈ r, x.kind ≠ .bad) :
    eqvRows ((rows.map (·.map (Scal.cast k))).map (·.map Num.toScal)) rows = true := by
  induction rows with
  | nil => rfl
  | cons a r ih =>
    simp only [List.map_cons, eqvRows, Bool.and_eq_true]
    exact ⟨eqvList_cast k a (h a (List.mem_cons_self ..)),
      ih (fun x hx => h x (List.mem_cons_of_mem _ hx))⟩

/-- **the attribute layer preserves every value up to Python equality** (bytes are decoded to
str by `store_metadata`, hence excluded) -/
theorem h5_pyEq (v : PyVal) (hb : ∀ s, v ≠ sc (.bytes s)) : pyEq (h5 v) v = true := by
  cases v with
  | sc s =>
    cases s <;> simp [h5, pyEq, shape, eqvRows, eqvList, Scal.eqv, Scal.num?]
    exact hb _ rfl
  | list xs =>
    simp only [h5]
    split
    · exact pyEq_refl _
    · rename_i hk
      have := eqvList_cast (kindOf xs) xs (kindOf_ne_bad xs hk)
      simp only [List.map_map] at this
      simp [pyEq, shape, eqvRows, this]
  | tuple xs =>
    simp only [h5]
    split
    · exact pyEq_refl _
    · rename_i hk
      have := eqvList_cast (kindOf xs) xs (kindOf_ne_bad xs hk)
      simp only [List.map_map] at this
      simp [pyEq, shape, eqvRows, this]
  | list2 rows =>
    simp only [h5]
    split
    · exact pyEq_refl _
    · rename_i hk
      have hk' : kindOf rows.flatten ≠ .bad := fun h => hk (Or.inl h)
      have := kindOf_ne_bad _ hk'
      simp only [pyEq, shape, beq_self_eq_true, Bool.true_and]
      exact eqvRows_cast _ rows (fun r hr x hx => this x (List.mem_flatten.mpr ⟨r, hr, hx⟩))
  | arr0 x => simp [h5, pyEq, shape, eqvRows, eqvList, eqv_refl]
  | arr1 xs => exact pyEq_refl _
  | arr2 rows => exact pyEq_refl _

end DclabModel.Meta

namespace DclabModel.Meta
open PyVal Except

/-! ### line codec -/

theorem dropWhile_fixed (p : Nat → Bool) (l : Str) (h : ∀ c, l.head? = some c → p c = false) :
    l.dropWhile p = l := by
  cases l with
  | nil => rfl
  | cons c cs => simp [List.dropWhile, h c rfl]

theorem stripBy_fixed (p : Nat → Bool) (s : Str) (h1 : ∀ c, s.head? = some c → p c = false)
    (h2 : ∀ c, s.reverse.head? = some c → p c = false) : stripBy p s = s := by
  unfold stripBy
  rw [dropWhile_fixed p s h1, dropWhile_fixed p s.reverse h2, List.reverse_reverse]

theorem takeWhile_fixed (p : Nat → Bool) (s : Str) (h : ∀ c ∈ s, p c = true) :
    s.takeWhile p = s := by
  induction s with
  | nil => rfl
  | cons c cs ih =>
    simp only [List.takeWhile, h c (List.mem_cons_self ..)]
    rw [ih (fun x hx => h x (List.mem_cons_of_mem _ hx))]

theorem cleanText_plain (s : Str) (h : Plain s) : cleanText s = s := by
  obtain ⟨h0, h1, h2⟩ := h
  unfold cleanText
  rw [takeWhile_fixed _ s (fun c hc => by simpa using h0 c hc)]
  have e1 : ∀ c, s.head? = some c → isSpace c = false := fun c hc => by
    have := h1 c hc; simp [edgeChar] at this; exact this.1.1
  have e2 : ∀ c, s.reverse.head? = some c → isSpace c = false := fun c hc => by
    have := h2 c hc; simp [edgeChar] at this; exact this.1.1
  have q1 : ∀ c, s.head? = some c → isSQ c = false := fun c hc => by
    have := h1 c hc; simp [edgeChar, isSpace] at this; simp [isSQ]; omega
  have q2 : ∀ c, s.reverse.head? = some c → isSQ c = false := fun c hc => by
    have := h2 c hc; simp [edgeChar, isSpace] at this; simp [isSQ]; omega
  have d1 : ∀ c, s.head? = some c → isDQ c = false := fun c hc => by
    have := h1 c hc; simp [edgeChar, isSpace] at this; simp [isDQ]; omega
  have d2 : ∀ c, s.reverse.head? = some c → isDQ c = false := fun c hc => by
    have := h2 c hc; simp [edgeChar, isSpace] at this; simp [isDQ]; omega
  unfold strip
  rw [stripBy_fixed isSpace s e1 e2, stripBy_fixed isSQ s q1 q2, stripBy_fixed isDQ s d1 d2,
    stripBy_fixed isSpace s e1 e2]

/-! ### attribute maps -/

theorem attrs_get_put_same (a : Attrs) (k : Str × Str) (v : PyVal) :
    (a.put k v).get? k = some v := by
  simp [Attrs.put, Attrs.get?]

theorem attrs_get_put_other (a : Attrs) (k k' : Str × Str) (v : PyVal) (h : k ≠ k') :
    (a.put k v).get? k' = a.get? k' := by
  simp only [Attrs.put, Attrs.get?]
  rw [List.find?_cons_of_neg (by simpa using h)]
  congr 1
  rw [List.find?_filter]
  congr 1
  funext e
  by_cases he : e.1 = k'
  · have : ¬ e.1 = k := fun h' => h (h'.symm.trans he)
    simp [he]
    exact fun h' => h h'.symm
  · simp [he]

/-! ### registry -/

theorem featExists_withFeats (t : Tbl) (extra : List Str) (n : Str) :
    (t.withFeats extra).featExists n = (t.featExists n || extra.contains n) := by
  simp only [Tbl.featExists, Tbl.withFeats, List.contains_eq_mem, List.mem_append,
    Bool.decide_or]
  generalize decide (n ∈ t.feats) = a
  generalize decide (n ∈ extra) = b
  generalize (startsWith n _ && _ && _) = c
  cases a <;> cases b <;> cases c <;> rfl

end DclabModel.Meta
