/-!
Utilities shared by the line-protocol drivers in `lean/Drive/*.lean`
(run with `lake env lean --run Drive/Cxx.lean < ops > answers`).
Core Lean only.
-/
namespace DclabModel.DriveUtil

def words (s : String) : List String :=
  (s.trimAscii.toString.splitOn " ").filter (· ≠ "")

def parseInt? (s : String) : Option Int :=
  if s.startsWith "-" then (s.drop 1).toString.toNat?.map (fun n => - (Int.ofNat n))
  else if s.startsWith "+" then (s.drop 1).toString.toNat?.map Int.ofNat
  else s.toNat?.map Int.ofNat

def parseNats (ws : List String) : Option (List Nat) := ws.mapM (·.toNat?)
def parseInts (ws : List String) : Option (List Int) := ws.mapM parseInt?

/-- `p/q`, `p` or `-p/q` -/
def parseRat? (s : String) : Option Rat :=
  match s.splitOn "/" with
  | [p] => (parseInt? p).map (fun z => (z : Rat))
  | [p, q] => do
    let z ← parseInt? p
    let d ← q.toNat?
    if d = 0 then none else some ((z : Rat) / (d : Rat))
  | _ => none

def showRat (q : Rat) : String :=
  if q.den = 1 then toString q.num else s!"{q.num}/{q.den}"

def joinWith (sep : String) (xs : List String) : String := sep.intercalate xs

def showNats (xs : List Nat) : String := joinWith "," (xs.map toString)
def showBools (xs : List Bool) : String := String.ofList (xs.map (fun b => if b then '1' else '0'))
def parseBools (s : String) : List Bool := s.toList.map (· == '1')

/-- feed every input line to `step`, printing its answer -/
partial def loop {σ : Type} (h : IO.FS.Stream) (st : σ) (step : σ → String → σ × String) : IO Unit := do
  let line ← h.getLine
  if line.isEmpty then return ()
  let (st', out) := step st line
  IO.println out
  loop h st' step

def mainLoop {σ : Type} (init : σ) (step : σ → String → σ × String) : IO Unit := do
  let stdin ← IO.getStdin
  loop stdin init step

end DclabModel.DriveUtil
