import DclabModel.Lemmas.Emod
import DclabModel.Lemmas.EmodMem
/-!
# C05 — Young's modulus is the scaled linear interpolation of the look-up table

Property theorems only.  Model: `Model/Emod.lean` (exact rationals; the triangulation `T`, the
pixelation correction `δ` and the viscosity `η` are parameters – qhull and `exp`/powers are
outside the model).  `Pos m s` = channel widths positive, LUT flow rate / viscosity non-zero.

* `bary_affine_invariant`, `normalisation_transparent`   the `normalize` step does not matter
* `bary_edge_agree`            "first containing triangle" is well defined on shared edges
* `routes_agree`               global-viscosity route = per-event route
* `emod_linear_in_eta_Q`       E ∝ η·Q
* `emod_joint_rescale`         L→λL, x→λᵏx, px→λpx, Q→λ³Q leaves E unchanged
* `pointwise_A/B`, `batch_append_*`, `batch_perm_*`, `history_current`, `history_independent`,
  `call_after_rewrite`, `call_after_reregister`, `stale_cache_witness`
                               the value of an event depends on that event only
* `nodes_exact`                at a LUT node the value is the node's scaled E
* `none_iff_outside`, `emod_none_iff_outside_lut`   NaN exactly outside the triangles of `T`
-/
namespace DclabModel.C05
open DclabModel.Emod

/-! ## 1. normalisation is transparent -/

/-- rescaling both axes by positive constants (vertices and query alike) changes neither which
triangle contains the query nor the interpolated value, for the same triangulation -/
theorem bary_affine_invariant {sx sy : Rat} (hx : 0 < sx) (hy : 0 < sy) (T : List Tri)
    (pts : LUT) (p : P2) :
    bary T (pts.map (scalePt sx sy)) (scaleP sx sy p) = bary T pts p :=
  bary_scale hx hy T pts p

/-- containment alone is invariant as well -/
theorem inTri_affine_invariant {sx sy : Rat} (hx : 0 < sx) (hy : 0 < sy) (a b c p : P2) :
    InTri (scaleP sx sy a) (scaleP sx sy b) (scaleP sx sy c) (scaleP sx sy p) ↔ InTri a b c p :=
  inTri_scale hx hy a b c p

/-- `normalize(lut[:,0], nx); normalize(datax, nx); …` followed by interpolation equals
interpolation of the un-normalised table at the un-normalised point -/
theorem normalisation_transparent {nx ny : Rat} (hx : 0 < nx) (hy : 0 < ny) (T : List Tri)
    (lut : LUT) (p : P2) :
    bary T (normLut nx ny lut) (p.1 / nx, p.2 / ny) = bary T lut p :=
  bary_normLut hx hy T lut p

/-! ## 2. shared edges -/

/-- two non-degenerate triangles `a b c` and `a b d` sharing the edge `a b` give the same value
at every point of the line through `a` and `b` (in particular on the shared edge): the result
does not depend on which of the two triangles the point location reports -/
theorem bary_edge_agree (a b c d : Pt) (p : P2)
    (hp : orient (xy a) (xy b) p = 0)
    (hc : orient (xy a) (xy b) (xy c) ≠ 0) (hd : orient (xy a) (xy b) (xy d) ≠ 0) :
    triVal a b c p = triVal a b d p := by
  unfold triVal
  rw [div_eq_div_iff hc hd]
  exact edge_identity a b c d p hp

/-- the order in which a triangle's vertices are listed does not matter (rotation and swap
generate all six orders), neither for the value … -/
theorem triVal_perm (a b c : Pt) (p : P2) :
    triVal b c a p = triVal a b c p ∧ triVal b a c p = triVal a b c p := by
  have hr : orient (xy b) (xy c) (xy a) = orient (xy a) (xy b) (xy c) := by unfold orient; ring
  have hs : orient (xy b) (xy a) (xy c) = -orient (xy a) (xy b) (xy c) := by unfold orient; ring
  have h1 : orient (xy a) (xy c) p = -orient (xy c) (xy a) p := by unfold orient; ring
  have h2 : orient (xy c) (xy b) p = -orient (xy b) (xy c) p := by unfold orient; ring
  have h3 : orient (xy b) (xy a) p = -orient (xy a) (xy b) p := by unfold orient; ring
  constructor
  · unfold triVal; rw [hr]; congr 1; ring
  · unfold triVal; rw [hs, h1, h2, h3, div_neg, ← neg_div]; congr 1; ring

/-- … nor for containment -/
theorem inTri_perm (a b c p : P2) :
    (InTri b c a p ↔ InTri a b c p) ∧ (InTri b a c p ↔ InTri a b c p) := by
  have hr : orient b c a = orient a b c := by unfold orient; ring
  have hs : orient b a c = -orient a b c := by unfold orient; ring
  have h1 : orient a c p = -orient c a p := by unfold orient; ring
  have h2 : orient c b p = -orient b c p := by unfold orient; ring
  have h3 : orient b a p = -orient a b p := by unfold orient; ring
  unfold InTri
  constructor
  · rw [hr]; constructor <;> rintro ⟨h0, h | h⟩ <;> refine ⟨h0, ?_⟩
    · exact Or.inl ⟨h.2.2, h.1, h.2.1⟩
    · exact Or.inr ⟨h.2.2, h.1, h.2.1⟩
    · exact Or.inl ⟨h.2.1, h.2.2, h.1⟩
    · exact Or.inr ⟨h.2.1, h.2.2, h.1⟩
  · rw [hs, h1, h2, h3]
    simp only [neg_ne_zero, Left.nonneg_neg_iff, Left.neg_nonpos_iff]
    constructor <;> rintro ⟨h0, h | h⟩ <;> refine ⟨h0, ?_⟩
    · exact Or.inr ⟨h.1, h.2.2, h.2.1⟩
    · exact Or.inl ⟨h.1, h.2.2, h.2.1⟩
    · exact Or.inr ⟨h.1, h.2.2, h.2.1⟩
    · exact Or.inl ⟨h.1, h.2.2, h.2.1⟩

/-- and it is the linear interpolation between the edge's end points: for
`p = a + t (b - a)` the value is `(1 - t) E_a + t E_b` -/
theorem bary_edge_value (a b c : Pt) (t : Rat)
    (hc : orient (xy a) (xy b) (xy c) ≠ 0) :
    triVal a b c ((xy a).1 + t * ((xy b).1 - (xy a).1), (xy a).2 + t * ((xy b).2 - (xy a).2))
      = (1 - t) * val a + t * val b := by
  unfold triVal
  rw [div_eq_iff hc]
  unfold orient
  ring

/-! ## 3. the two routes agree -/

/-- the global-viscosity route (scale the LUT) and the per-event route (scale the event, scale
the result back) return the same value for an event with the same viscosity -/
theorem routes_agree {m : Meta} {s : Setup} (h : Pos m s) (lut : LUT) (T : List Tri)
    (δ : Rat → Rat → Rat) (η : Rat) (x d : Rat) :
    emodA m lut T δ s η (x, d) = emodB m lut T δ s (x, d, η) := by
  rw [emodA_canon h, emodB_canon h]

/-- whole batches: if all events share `η`, a per-event temperature array gives what the
scalar temperature gives -/
theorem routes_agree_batch {m : Meta} {s : Setup} (h : Pos m s) (lut : LUT) (T : List Tri)
    (δ : Rat → Rat → Rat) (η : Rat) (evs : List (Rat × Rat)) :
    evs.map (emodA m lut T δ s η) = (evs.map fun e => (e.1, e.2, η)).map (emodB m lut T δ s) := by
  rw [List.map_map]
  congr 1
  funext e
  exact routes_agree h lut T δ η e.1 e.2

/-! ## 4. proportional to viscosity and flow rate -/

theorem emod_linear_in_eta_Q {m : Meta} {s : Setup} (h : Pos m s) (lut : LUT) (T : List Tri)
    (δ : Rat → Rat → Rat) (η c₁ c₂ : Rat) (ev : Rat × Rat) :
    emodA m lut T δ { s with Q := c₁ * s.Q } (c₂ * η) ev
      = (emodA m lut T δ s η ev).map (· * (c₁ * c₂)) := by
  have h' : Pos m { s with Q := c₁ * s.Q } := ⟨h.L0, h.L, h.Q0, h.eta0⟩
  rw [emodA_canon h, emodA_canon h', Option.map_map]
  simp only [fE_linear]
  congr 1
  funext e
  simp only [Function.comp]
  ring

theorem emodB_linear_in_eta_Q {m : Meta} {s : Setup} (h : Pos m s) (lut : LUT) (T : List Tri)
    (δ : Rat → Rat → Rat) (c₁ c₂ : Rat) (x d η : Rat) :
    emodB m lut T δ { s with Q := c₁ * s.Q } (x, d, c₂ * η)
      = (emodB m lut T δ s (x, d, η)).map (· * (c₁ * c₂)) := by
  have h' : Pos m { s with Q := c₁ * s.Q } := ⟨h.L0, h.L, h.Q0, h.eta0⟩
  rw [emodB_canon h, emodB_canon h', Option.map_map]
  simp only [fE_linear]
  congr 1
  funext e
  simp only [Function.comp]
  ring

/-! ## 5. joint geometric rescaling -/

theorem corr_rescale {k : Nat} {δ : Rat → Rat → Rat} (hδ : DeltaLaw k δ) {lam : Rat}
    (hl : 0 < lam) (px x d : Rat) :
    corr δ (lam * px) (lam ^ k * x) d = corr δ px x d := by
  obtain ⟨g, c, hg⟩ := hδ
  unfold corr
  by_cases hp : px = 0
  · simp [hp]
  · have hp' : lam * px ≠ 0 := mul_ne_zero hl.ne' hp
    rw [if_neg hp, if_neg hp', hg _ _ hp, hg _ _ hp']
    congr 2
    rw [div_pow, div_pow, mul_pow]
    have : lam ^ k ≠ 0 := pow_ne_zero _ hl.ne'
    have : px ^ k ≠ 0 := pow_ne_zero _ hp
    field_simp

theorem emodB_joint_rescale {m : Meta} {s : Setup} (h : Pos m s) (lut : LUT) (T : List Tri)
    {δ : Rat → Rat → Rat} (hδ : DeltaLaw m.k δ) {lam : Rat} (hl : 0 < lam) (x d η : Rat) :
    emodB m lut T δ { L := lam * s.L, Q := lam ^ 3 * s.Q, px := lam * s.px } (lam ^ m.k * x, d, η)
      = emodB m lut T δ s (x, d, η) := by
  have h' : Pos m { L := lam * s.L, Q := lam ^ 3 * s.Q, px := lam * s.px } :=
    ⟨h.L0, mul_pos hl h.L, h.Q0, h.eta0⟩
  rw [emodB_canon h, emodB_canon h']
  simp only
  have hL := h.L.ne'
  have hl' := hl.ne'
  have h1 : lam ^ m.k * x * (m.L0 / (lam * s.L)) ^ m.k = x * (m.L0 / s.L) ^ m.k := by
    rw [div_pow, div_pow, mul_pow]
    have : lam ^ m.k ≠ 0 := pow_ne_zero _ hl'
    have : s.L ^ m.k ≠ 0 := pow_ne_zero _ hL
    field_simp
  have h2 : fE m.L0 (lam * s.L) m.Q0 (lam ^ 3 * s.Q) m.eta0 η = fE m.L0 s.L m.Q0 s.Q m.eta0 η := by
    unfold fE
    have := h.Q0
    have := h.eta0
    field_simp
  rw [h1, h2, corr_rescale hδ hl]

/-- **joint rescale**: channel width `L→λL`, abscissa `x→λᵏx` (k = 2 area, 3 volume), pixel size
`px→λ px`, flow rate `Q→λ³Q` (same viscosity) leaves the Young's modulus unchanged -/
theorem emod_joint_rescale {m : Meta} {s : Setup} (h : Pos m s) (lut : LUT) (T : List Tri)
    {δ : Rat → Rat → Rat} (hδ : DeltaLaw m.k δ) {lam : Rat} (hl : 0 < lam) (η : Rat) (x d : Rat) :
    emodA m lut T δ { L := lam * s.L, Q := lam ^ 3 * s.Q, px := lam * s.px } η (lam ^ m.k * x, d)
      = emodA m lut T δ s η (x, d) := by
  have h' : Pos m { L := lam * s.L, Q := lam ^ 3 * s.Q, px := lam * s.px } :=
    ⟨h.L0, mul_pos hl h.L, h.Q0, h.eta0⟩
  rw [routes_agree h, routes_agree h']
  exact emodB_joint_rescale h lut T hδ hl x d η

/-! ## 6. pointwise: the value of an event depends on that event only -/

/-- the whole-array computation of the global route is the event-wise map of `emodA` -/
theorem pointwise_A (m : Meta) (lut : LUT) (T : List Tri) (δ : Rat → Rat → Rat) (s : Setup)
    (η : Rat) (evs : List (Rat × Rat)) :
    batchA m lut T δ s η evs = evs.map (emodA m lut T δ s η) := by
  unfold batchA
  simp only [List.map_map]
  rfl

theorem pointwise_B (m : Meta) (lut : LUT) (T : List Tri) (δ : Rat → Rat → Rat) (s : Setup)
    (evs : List (Rat × Rat × Rat)) :
    batchB m lut T δ s evs = evs.map (emodB m lut T δ s) := by
  unfold batchB
  simp only [List.map_map]
  rfl

/-- **pointwise**: both whole-array computations are `events.map f` for a function `f` of the
single event, hence independent of the other events in the call -/
theorem pointwise (m : Meta) (lut : LUT) (T : List Tri) (δ : Rat → Rat → Rat) (s : Setup) :
    (∀ η evs, batchA m lut T δ s η evs = evs.map (emodA m lut T δ s η)) ∧
    (∀ evs, batchB m lut T δ s evs = evs.map (emodB m lut T δ s)) :=
  ⟨fun η evs => pointwise_A m lut T δ s η evs, fun evs => pointwise_B m lut T δ s evs⟩

/-- splitting a batch and concatenating the results = one call -/
theorem batch_append_A (m : Meta) (lut : LUT) (T : List Tri) (δ : Rat → Rat → Rat) (s : Setup)
    (η : Rat) (e₁ e₂ : List (Rat × Rat)) :
    batchA m lut T δ s η (e₁ ++ e₂) = batchA m lut T δ s η e₁ ++ batchA m lut T δ s η e₂ := by
  simp only [pointwise_A, List.map_append]

theorem batch_append_B (m : Meta) (lut : LUT) (T : List Tri) (δ : Rat → Rat → Rat) (s : Setup)
    (e₁ e₂ : List (Rat × Rat × Rat)) :
    batchB m lut T δ s (e₁ ++ e₂) = batchB m lut T δ s e₁ ++ batchB m lut T δ s e₂ := by
  simp only [pointwise_B, List.map_append]

/-- permuting the events permutes the results the same way -/
theorem batch_perm_A (m : Meta) (lut : LUT) (T : List Tri) (δ : Rat → Rat → Rat) (s : Setup)
    (η : Rat) {e₁ e₂ : List (Rat × Rat)} (hp : e₁.Perm e₂) :
    (e₁.zip (batchA m lut T δ s η e₁)).Perm (e₂.zip (batchA m lut T δ s η e₂)) := by
  simp only [pointwise_A, List.zip_map_right]
  have : ∀ l : List (Rat × Rat), l.zip l = l.map (fun x => (x, x)) := by
    intro l; induction l with
    | nil => rfl
    | cons a t ih => simp [ih]
  rw [this, this, List.map_map, List.map_map]
  exact hp.map _

theorem batch_perm_B (m : Meta) (lut : LUT) (T : List Tri) (δ : Rat → Rat → Rat) (s : Setup)
    {e₁ e₂ : List (Rat × Rat × Rat)} (hp : e₁.Perm e₂) :
    (e₁.zip (batchB m lut T δ s e₁)).Perm (e₂.zip (batchB m lut T δ s e₂)) := by
  simp only [pointwise_B, List.zip_map_right]
  have : ∀ l : List (Rat × Rat × Rat), l.zip l = l.map (fun x => (x, x)) := by
    intro l; induction l with
    | nil => rfl
    | cons a t ih => simp [ih]
  rw [this, this, List.map_map, List.map_map]
  exact hp.map _

/-- one operation as the code performs it = the specification's answer and effect -/
theorem step_refines (env : Env) (op : Op) : stepOp env op = (applyOp env op, answer env op) := by
  cases op with
  | write p e => rfl
  | register id p =>
    simp only [stepOp, applyOp, answer]
    cases h1 : (List.lookup id env.reg).isSome <;>
      cases h2 : (List.lookup id env.internal).isSome <;> simp
  | deregister id => rfl
  | call c =>
    simp only [stepOp, applyOp, answer, evalCall, evalEntry]
    cases h : loadLut env c.ref with
    | none => rfl
    | some e => cases c.global <;> rfl

/-- **histories**: over any interleaving of file rewrites, registrations, de-registrations and
calls, every call returns `evalCall` of the environment *as it is at that moment* – the table
currently on disk / currently registered – whatever was loaded by earlier calls -/
theorem history_current (env : Env) (ops : List Op) :
    runOps env ops = (ops.foldl applyOp env, specOps env ops) := by
  induction ops generalizing env with
  | nil => rfl
  | cons op ops ih =>
    simp only [runOps, step_refines, ih, List.foldl_cons, specOps]

/-- calls never change the environment … -/
theorem call_keeps_env (env : Env) (c : Call) : (stepOp env (.call c)).1 = env := by
  rw [step_refines]; rfl

/-- … so a history of calls returns what each call would return as the first one: results do
not depend on earlier calls or on the call order -/
theorem history_independent (env : Env) (calls : List Call) :
    runOps env (calls.map .call) = (env, calls.map (evalCall env)) := by
  rw [history_current]
  induction calls with
  | nil => rfl
  | cons c cs ih =>
    simp only [List.map_cons, List.foldl_cons, specOps, applyOp, answer] at ih ⊢
    rw [Prod.mk.injEq] at ih ⊢
    exact ⟨ih.1, by rw [ih.2]⟩

/-- after a file is rewritten, a call by that path evaluates the new content, whatever
happened before -/
theorem call_after_rewrite (env : Env) (pre : List Op) (p : Nat) (e : Entry) (c : Call)
    (hc : c.ref = .path p) :
    (runOps env (pre ++ [.write p e, .call c])).2.getLast? = some (.res (evalEntry e c)) := by
  rw [history_current]
  simp only
  have hs : ∀ (env : Env) (pre : List Op), specOps env (pre ++ [.write p e, .call c])
      = specOps env pre ++ [.ok, .res (evalEntry e c)] := by
    intro env pre
    induction pre generalizing env with
    | nil =>
      simp only [List.nil_append, specOps, answer, evalCall, hc, loadLut, applyOp,
        List.lookup_cons_self]
    | cons o os ih => simp only [List.cons_append, specOps, ih]
  rw [hs]
  simp

/-- after an identifier is de-registered and registered again for another file, a call by
that identifier evaluates the file it is registered for *now* -/
theorem call_after_reregister (env : Env) (id p : Nat) (e : Entry) (c : Call)
    (hc : c.ref = .named id) (hint : env.internal.lookup id = none)
    (hf : env.files.lookup p = some e) :
    (runOps env [.deregister id, .register id p, .call c]).2
      = [.ok, .ok, .res (evalEntry e c)] := by
  rw [history_current]
  have hno : (List.filter (fun x => x.1 != id) env.reg).lookup id = none := by
    induction env.reg with
    | nil => rfl
    | cons x xs ih =>
      simp only [List.filter_cons]
      split
      · rename_i hx
        rw [List.lookup_cons]
        have : (id == x.1) = false := by
          simp only [bne_iff_ne, ne_eq] at hx
          simp only [beq_eq_false_iff_ne, ne_eq]
          exact fun h => hx h.symm
        rw [this]; exact ih
      · exact ih
  simp only [specOps, answer, applyOp, hno, hint, Option.isSome_none, Bool.or_self,
    Bool.false_eq_true, if_false, evalCall, hc, loadLut, List.lookup_cons_self, Option.bind_some,
    hf]

/-- **witness**: a loader that memoises parsed tables by path and never invalidates violates
`history_current` – after the file is rewritten it still interpolates the old table -/
theorem stale_cache_witness :
    let e₁ : Entry := ⟨exLut, exMeta, exT⟩
    let e₂ : Entry := ⟨exLut.map (scaleVal 3), exMeta, exT⟩
    let c : Call := ⟨.path 7, fun _ _ => 0, { exSetup with px := 0 }, some 5, [(9/2, 3/2, 5)]⟩
    let env : Env := ⟨[], [], []⟩
    let ops := [Op.write 7 e₁, .call c, .write 7 e₂, .call c]
    (runOps env ops).2.map Out.toList = [none, some [some (160/81)], none, some [some (160/27)]] ∧
    (runOpsCached (env, []) ops).map Out.toList
      = [none, some [some (160/81)], none, some [some (160/81)]] := by
  decide +kernel

/-! ## 7. nodes -/

/-- in any non-degenerate triangle the interpolant takes the tabulated value at each vertex,
and the vertex belongs to the triangle -/
theorem nodes_exact_tri (a b c : Pt) (h : orient (xy a) (xy b) (xy c) ≠ 0) :
    triAt a b c (xy a) = some (val a) ∧ triAt a b c (xy b) = some (val b) ∧
    triAt a b c (xy c) = some (val c) := by
  unfold triAt
  rw [if_pos (inTri_node_a _ _ _ h), if_pos (inTri_node_b _ _ _ h), if_pos (inTri_node_c _ _ _ h),
    triVal_node_a a b c h, triVal_node_b a b c h, triVal_node_c a b c h]
  exact ⟨rfl, rfl, rfl⟩

/-- a triangle that has row `i` as a vertex and contains the node's position returns the
node's value there -/
theorem triAtIdx_vertex (pts : LUT) (i : Nat) (v : Pt) (hv : pts[i]? = some v) (t : Tri)
    (ht : HasVertex t i) (r : Rat) (hr : triAtIdx pts (xy v) t = some r) : r = val v := by
  unfold triAtIdx at hr
  cases hres : resolve pts t with
  | none => rw [hres] at hr; cases hr
  | some abc =>
    obtain ⟨a, b, c⟩ := abc
    rw [hres] at hr
    simp only at hr
    unfold resolve at hres
    cases h1 : pts[t.1]? with
    | none => rw [h1] at hres; cases hres
    | some a' =>
      cases h2 : pts[t.2.1]? with
      | none => rw [h1, h2] at hres; cases hres
      | some b' =>
        cases h3 : pts[t.2.2]? with
        | none => rw [h1, h2, h3] at hres; cases hres
        | some c' =>
          rw [h1, h2, h3] at hres
          simp only [Option.some.injEq, Prod.mk.injEq] at hres
          obtain ⟨ha, hb, hc⟩ := hres
          subst ha hb hc
          unfold triAt at hr
          split at hr
          · rename_i hin
            have hnd := hin.1
            simp only [Option.some.injEq] at hr
            rcases ht with ht | ht | ht
            · rw [ht, hv] at h1; cases h1; rw [← hr]; exact triVal_node_a _ _ _ hnd
            · rw [ht, hv] at h2; cases h2; rw [← hr]; exact triVal_node_b _ _ _ hnd
            · rw [ht, hv] at h3; cases h3; rw [← hr]; exact triVal_node_c _ _ _ hnd
          · cases hr

/-- **nodes**: if the query is the position of table row `i`, some triangle of `T` contains it,
and every triangle of `T` that contains it has row `i` as a vertex (true for a triangulation
whose vertex set is the table), then the interpolated value is the tabulated value -/
theorem nodes_exact (T : List Tri) (pts : LUT) (i : Nat) (v : Pt) (hv : pts[i]? = some v)
    (hex : ∃ t ∈ T, (triAtIdx pts (xy v) t).isSome)
    (hvert : ∀ t ∈ T, (triAtIdx pts (xy v) t).isSome → HasVertex t i) :
    bary T pts (xy v) = some (val v) := by
  unfold bary
  obtain ⟨t, htT, hts⟩ := hex
  cases hf : T.findSome? (triAtIdx pts (xy v)) with
  | none =>
    rw [List.findSome?_eq_none_iff] at hf
    rw [hf t htT] at hts; cases hts
  | some r =>
    obtain ⟨t', ht'T, ht'⟩ := List.exists_of_findSome?_eq_some hf
    have hv' := hvert t' ht'T (by rw [ht']; rfl)
    rw [triAtIdx_vertex pts i v hv t' hv' r ht']

/-- the per-event route at an event that lands on node `v` of the table: the result is the
node's emodulus times the scaling factor `(Q/Q₀)(η/η₀)(L₀/L)³` -/
theorem emodB_node {m : Meta} {s : Setup} (h : Pos m s) (lut : LUT) (T : List Tri)
    (δ : Rat → Rat → Rat) (i : Nat) (v : Pt) (x d η : Rat)
    (hnx : 0 < maxX lut) (hny : 0 < maxY lut)
    (hv : lut[i]? = some v)
    (hx : x * (m.L0 / s.L) ^ m.k = v.1) (hd : corr δ s.px x d = v.2.1)
    (hex : ∃ t ∈ T, (triAtIdx lut (xy v) t).isSome)
    (hvert : ∀ t ∈ T, (triAtIdx lut (xy v) t).isSome → HasVertex t i) :
    emodB m lut T δ s (x, d, η) = some (val v * fE m.L0 s.L m.Q0 s.Q m.eta0 η) := by
  rw [emodB_canon h]
  simp only
  rw [hx, hd]
  have := bary_normLut hnx hny T lut (xy v)
  unfold xy at this
  simp only at this
  rw [this]
  have := nodes_exact T lut i v hv hex hvert
  unfold xy at this
  rw [this]
  rfl

/-! ## 8. NaN exactly outside the triangulation -/

theorem none_iff_outside (T : List Tri) (pts : LUT) (p : P2) :
    bary T pts p = none ↔ Outside T pts p := by
  unfold bary Outside
  rw [List.findSome?_eq_none_iff]
  constructor
  · intro h t ht a b c hres hin
    have := h t ht
    unfold triAtIdx at this
    rw [hres] at this
    simp only [triAt, if_pos hin] at this
    cases this
  · intro h t ht
    unfold triAtIdx
    cases hres : resolve pts t with
    | none => rfl
    | some abc =>
      obtain ⟨a, b, c⟩ := abc
      simp only [triAt, if_neg (h t ht a b c hres)]

/-- the result of either route is NaN exactly if the pixelation-corrected event, with its
abscissa scaled to the LUT's channel width, lies in no triangle of the (un-normalised,
un-scaled) table -/
theorem emod_none_iff_outside_lut {m : Meta} {s : Setup} (h : Pos m s) (lut : LUT) (T : List Tri)
    (δ : Rat → Rat → Rat) (x d η : Rat) (hnx : 0 < maxX lut) (hny : 0 < maxY lut) :
    (emodB m lut T δ s (x, d, η) = none ↔
      Outside T lut (x * (m.L0 / s.L) ^ m.k, corr δ s.px x d)) ∧
    (emodA m lut T δ s η (x, d) = none ↔
      Outside T lut (x * (m.L0 / s.L) ^ m.k, corr δ s.px x d)) := by
  have hB : emodB m lut T δ s (x, d, η) = none ↔
      Outside T lut (x * (m.L0 / s.L) ^ m.k, corr δ s.px x d) := by
    rw [emodB_canon h, Option.map_eq_none_iff]
    have := bary_normLut hnx hny T lut (x * (m.L0 / s.L) ^ m.k, corr δ s.px x d)
    simp only at this ⊢
    rw [this]
    exact none_iff_outside T lut _
  exact ⟨hB, by rw [routes_agree h]; exact hB⟩

/-- **outside the convex hull ⇒ NaN for every triangulation of the table**: if all rows lie on
one closed side of a line and the query strictly on the other, no triangle with vertices in the
table contains the query -/
theorem outside_of_separating_line (T : List Tri) (pts : LUT) (a b p : P2)
    (h : sepLine pts a b p = true) : bary T pts p = none := by
  rw [none_iff_outside]
  unfold sepLine allOnSide at h
  simp only [Bool.and_eq_true, List.all_eq_true, decide_eq_true_eq] at h
  obtain ⟨hall, hp⟩ := h
  intro t _ u v w hres hin
  obtain ⟨hu, hv, hw⟩ := resolve_mem hres
  have := inTri_side a b (xy u) (xy v) (xy w) p hin (hall u hu) (hall v hv) (hall w hw)
  linarith

/-- the same for both routes, the certificate being checked on the raw table at the
pixelation-corrected, channel-scaled event -/
theorem emod_none_of_separating_line {m : Meta} {s : Setup} (h : Pos m s) (lut : LUT)
    (T : List Tri) (δ : Rat → Rat → Rat) (x d η : Rat) (hnx : 0 < maxX lut) (hny : 0 < maxY lut)
    (a b : P2) (hs : sepLine lut a b (x * (m.L0 / s.L) ^ m.k, corr δ s.px x d) = true) :
    emodB m lut T δ s (x, d, η) = none ∧ emodA m lut T δ s η (x, d) = none := by
  have ho := (none_iff_outside T lut _).mp (outside_of_separating_line T lut a b _ hs)
  obtain ⟨hB, hA⟩ := emod_none_iff_outside_lut h lut T δ x d η hnx hny
  exact ⟨hB.mpr ho, hA.mpr ho⟩

/-! ## 9. the driver's candidate mode

The correspondence driver evaluates big tables on a five-row sub-table (the three rows of
scipy's candidate simplex and the rows holding the two maxima).  That is the same value: -/

theorem bary_single_congr (pts pts' : LUT) (t t' : Tri) (p : P2)
    (h : resolve pts' t' = resolve pts t) : bary [t'] pts' p = bary [t] pts p := by
  unfold bary triAtIdx
  simp only [List.findSome?_cons, List.findSome?_nil, h]

theorem emodB_sublut (m : Meta) (s : Setup) (lut sub : LUT) (t t' : Tri) (δ : Rat → Rat → Rat)
    (ev : Rat × Rat × Rat) (hx : maxX sub = maxX lut) (hy : maxY sub = maxY lut)
    (hr : resolve sub t' = resolve lut t) :
    emodB m sub [t'] δ s ev = emodB m lut [t] δ s ev := by
  unfold emodB
  simp only [hx, hy]
  congr 1
  apply bary_single_congr
  unfold normLut
  rw [resolve_map, resolve_map, hr]

theorem emodA_sublut {m : Meta} {s : Setup} (h : Pos m s) (lut sub : LUT) (t t' : Tri)
    (δ : Rat → Rat → Rat) (η : Rat) (x d : Rat) (hx : maxX sub = maxX lut)
    (hy : maxY sub = maxY lut) (hr : resolve sub t' = resolve lut t) :
    emodA m sub [t'] δ s η (x, d) = emodA m lut [t] δ s η (x, d) := by
  rw [routes_agree h, routes_agree h]
  exact emodB_sublut m s lut sub t t' δ (x, d, η) hx hy hr

/-- a triangle of `T` that contains the query yields *a* value of `bary T`; it is *the* value
when it is the first such triangle, and by `bary_edge_agree`/`nodes_exact_tri` any other
containing triangle of a proper triangulation agrees with it -/
theorem bary_of_first (T₁ T₂ : List Tri) (t : Tri) (pts : LUT) (p : P2)
    (hbefore : ∀ u ∈ T₁, triAtIdx pts p u = none) (r : Rat) (ht : triAtIdx pts p t = some r) :
    bary (T₁ ++ t :: T₂) pts p = bary [t] pts p := by
  unfold bary
  rw [List.findSome?_append, List.findSome?_eq_none_iff.mpr hbefore]
  simp only [Option.none_or, List.findSome?_cons, ht]

/-! ## Non-vacuity -/

/-- the hypotheses are satisfiable -/
example : Pos exMeta exSetup := ⟨by decide +kernel, by decide +kernel, by decide +kernel,
  by decide +kernel⟩
example : DeltaLaw exMeta.k exDelta := ⟨fun y => 1 / (8 + 8 * y), 17/50, fun _ _ _ => rfl⟩
example : 0 < maxX exLut ∧ 0 < maxY exLut := by decide +kernel

/-- an interior event (second triangle, off every edge) with pixelation correction: both routes
give the same non-trivial number -/
example : emodA exMeta exLut exT exDelta exSetup 5 (7/2, 2) = some (1856/729) := by
  decide +kernel
example : emodB exMeta exLut exT exDelta exSetup (7/2, 2, 5) = some (1856/729) := by
  decide +kernel
/-- an event on the shared diagonal of the two triangles -/
example : emodA exMeta exLut exT (fun _ _ => 0) { exSetup with px := 0 } 5 (9/2, 3/2)
    = some (160/81) := by decide +kernel
example : bary exT.reverse exLut (2, 3/2) = bary exT exLut (2, 3/2) := by decide +kernel
/-- at node 2 of the table -/
example : bary exT exLut (3, 2) = some 8 := by decide +kernel
/-- outside the table: NaN -/
example : emodB exMeta exLut exT exDelta exSetup (19/2, 3/2, 5) = none := by decide +kernel
example : sepLine exLut (3, 1) (3, 2) (4, 3/2) = true := by decide +kernel
/-- joint rescale with λ = 3/2 on the example -/
example : emodA exMeta exLut exT exDelta { L := 45, Q := 27/50, px := 51/100 } 5 (63/8, 2)
    = some (1856/729) := by decide +kernel

/-! ## 9. memory: who owns what (`scale_linear.py`, `get_emodulus(copy=True)`)

`Model/EmodMem.lean`: arrays are objects in a heap, the `scale_*` functions and `get_emodulus`
are state-passing functions on it. -/

theorem applyF_facX (k : Nat) (Lin Lout : Rat) (l : List Rat) :
    applyF (facX k Lin Lout) l = l.map (scaleX k Lin Lout) := by
  unfold facX scaleX
  split
  · simp [applyF]
  · simp [applyF, mulFrom_const]

/-- `scale_feature(..., inplace=False)` (every feature, every dtype class of the argument –
`float64`, another float type, integer – and every heap): if it returns, the result is a NEW
object and every array that existed before the call, the caller's included, is unchanged -/
theorem scale_feature_copy_keeps_caller (ft : Feat) (H : Heap) (r : Nat)
    (Lin Lout Qin Qout ein : Rat) (eout : EtaOut) (H' : Heap) (r' : Nat)
    (h : scaleFeatureMem ft H r Lin Lout Qin Qout ein eout false = .ok (H', r')) :
    r' = H.length ∧ H'.take H.length = H := by
  cases ft <;> simp only [scaleFeatureMem, scaleAreaMem, scaleVolumeMem, scaleEmodMem] at h
  · split at h
    · cases h
    · split at h
      · cases h
      · exact ⟨(mulMem_copy h).1, (mulMem_copy h).2.1⟩
  all_goals first
    | exact ⟨(mulMem_copy h).1, (mulMem_copy h).2.1⟩
    | cases h

/-- `scale_feature(..., inplace=True)`: the result IS the argument (same object), no object is
created and no other object is touched -/
theorem scale_feature_inplace_same_object (ft : Feat) (H : Heap) (r : Nat)
    (Lin Lout Qin Qout ein : Rat) (eout : EtaOut) (H' : Heap) (r' : Nat)
    (h : scaleFeatureMem ft H r Lin Lout Qin Qout ein eout true = .ok (H', r')) :
    r' = r ∧ H'.length = H.length ∧ ∀ j, j ≠ r → H'[j]? = H[j]? := by
  cases ft <;> simp only [scaleFeatureMem, scaleAreaMem, scaleVolumeMem, scaleEmodMem] at h
  · split at h
    · cases h
    · split at h
      · cases h
      · exact ⟨(mulMem_inplace h).1, (mulMem_inplace h).2.1, (mulMem_inplace h).2.2.1⟩
  all_goals first
    | exact ⟨(mulMem_inplace h).1, (mulMem_inplace h).2.1, (mulMem_inplace h).2.2.1⟩
    | cases h

/-- in both modes the returned array has the argument's dtype and holds the values of the
functional model (`scaleX` for `area_um`/`volume`, the `scale_emodulus` factor incl. its
`has_changes` shortcut, identity for `deform`/`circ`): copying or not is invisible in the values -/
theorem scale_feature_values (ft : Feat) (H : Heap) (r : Nat) (a : Arr) (ha : H[r]? = some a)
    (Lin Lout Qin Qout ein : Rat) (eout : EtaOut) (inplace : Bool) (H' : Heap) (r' : Nat)
    (h : scaleFeatureMem ft H r Lin Lout Qin Qout ein eout inplace = .ok (H', r')) :
    H'[r']? = some { a with data := scaleFeatureVals ft Lin Lout Qin Qout ein eout a.data } := by
  have key : ∀ f, mulMem H r inplace f = .ok (H', r') →
      H'[r']? = some { a with data := applyF f a.data } := by
    intro f hf
    cases inplace with
    | false =>
      obtain ⟨_, _, b, hb, hv⟩ := mulMem_copy hf
      rw [ha] at hb; cases hb; exact hv
    | true =>
      obtain ⟨hr, _, _, b, hb, hv⟩ := mulMem_inplace hf
      rw [ha] at hb; cases hb; rw [hr]; exact hv
  cases ft <;> simp only [scaleFeatureMem, scaleAreaMem, scaleVolumeMem, scaleEmodMem] at h
  · rw [ha] at h
    simp only at h
    split at h
    · cases h
    · rw [key _ h, applyF_facX]; rfl
  · rw [key _ h]; rfl
  · rw [key _ h]; rfl
  · rw [key _ h]
    simp only [scaleFeatureVals]
    cases facE Lin Lout Qin Qout ein eout <;> rfl
  · rw [key _ h, applyF_facX]; rfl
  · cases h

/-- `scale_area_um` refuses an integer array in place before touching anything (`ValueError`),
for every heap and every width -/
theorem scale_area_int_inplace_rejected (H : Heap) (r : Nat) (a : Arr) (ha : H[r]? = some a)
    (hdt : a.dt = .int) (Lin Lout : Rat) :
    scaleAreaMem H r Lin Lout true = .error .value := by
  simp [scaleAreaMem, ha, hdt]

/-- … while an integer array with `inplace=False` is copied and the copy cannot be multiplied
by a float (`UFuncTypeError`, today's behaviour) unless the widths coincide -/
theorem scale_int_copy_type_error (k : Nat) (H : Heap) (r : Nat) (a : Arr) (ha : H[r]? = some a)
    (hdt : a.dt = .int) (Lin Lout : Rat) (hne : Lin ≠ Lout) :
    mulMem H r false (facX k Lin Lout) = .error .type := by
  simp [mulMem, npArray, ha, facX, hne, imul, hdt]

/-- `get_emodulus(copy=True)`: whatever the route, the pixelation switch, the arithmetic of the
in-place statements and the heap, the caller's three arrays (abscissa, deform, LUT array) are
unchanged after the call – every in-place statement of the code works on an object the call
allocated itself -/
theorem get_emodulus_copy_keeps_caller (px routeB : Bool) (g : Nat → List Rat → List Rat)
    (H : Heap) (hH : 3 ≤ H.length) :
    (runM H (emodProg true px routeB g)).take 3 = H.take 3 := by
  apply runM_take 3 _ H hH
  cases px <;> cases routeB <;> simp [emodProg, Owned]

/-- `copy=False` (excluded from the property) is different: the global route overwrites the
caller's abscissa and deform arrays, the per-event route the deform array -/
theorem copy_false_mutates_caller (g : Nat → List Rat → List Rat) :
    callerVisibleUpdates 3 (emodProg false true false g) = [1, 0] ∧
    callerVisibleUpdates 3 (emodProg false true true g) = [1] ∧
    callerVisibleUpdates 3 (emodProg true true true g) = [] ∧
    callerVisibleUpdates 3 (emodProg true true false g) = [] := by
  refine ⟨?_, ?_, ?_, ?_⟩ <;> simp [emodProg, callerVisibleUpdates, List.eraseDups] <;> decide

/-- non-vacuity: a float32 area array scaled from a 20 µm to a 30 µm channel, both modes -/
example : scaleFeatureMem .areaUm [⟨.f32, [4, 8]⟩] 0 20 30 1 1 1 (.scalar 1) false
    = .ok ([⟨.f32, [4, 8]⟩, ⟨.f32, [9, 18]⟩], 1) := by decide +kernel
example : scaleFeatureMem .areaUm [⟨.f32, [4, 8]⟩] 0 20 30 1 1 1 (.scalar 1) true
    = .ok ([⟨.f32, [9, 18]⟩], 0) := by decide +kernel
/-- per-event viscosities: one factor per element -/
example : scaleFeatureMem .emodulus [⟨.f64, [1, 1]⟩] 0 20 20 1 1 1 (.perEvent [2, 3]) true
    = .ok ([⟨.f64, [2, 3]⟩], 0) := by decide +kernel
/-- the `has_changes` shortcut: nothing to do, still a copy -/
example : scaleFeatureMem .emodulus [⟨.int, [1, 1]⟩] 0 20 20 1 1 5 (.scalar 5) false
    = .ok ([⟨.int, [1, 1]⟩, ⟨.int, [1, 1]⟩], 1) := by decide +kernel
example : (runM [⟨.f64, [8]⟩, ⟨.f64, [1]⟩, ⟨.f64, [2]⟩]
    (emodProg false true false fun _ l => l.map (· / 2))).take 3
    ≠ [⟨.f64, [8]⟩, ⟨.f64, [1]⟩, ⟨.f64, [2]⟩] := by decide +kernel

end DclabModel.C05
