import DclabModel.Lemmas.Anc
import DclabModel.Lemmas.AncFuel
import DclabModel.Lemmas.AncGap
import DclabModel.Gen.AncTable
/-!
# C06 — Computed (ancillary) features always reflect the current data and settings

* `cache_transparent`        for every registry whose recipes hash what their methods read
                             (`Sound`), every history of configuration edits, temporary-feature
                             edits, reads, availability tests and hierarchy-child refreshes
                             answers exactly like a freshly opened dataset at every step, and a
                             read after the history equals the fresh value at the final state;
* `table_sound`, `live_cache_transparent`
                             the premises hold for the registry regenerated from the code
                             (`Gen/AncTable.lean`), re-checked on every run;
* `available_iff_runnable_partial`, `emodulus_available_iff_runnable_partial`
                             `feat in ds` ⇔ reading succeeds, outside the recorded classes
                             F07/F63 (witnesses `F07_witness`, `F07_exactly_8`, `F63_witness`);
* `emodulus_precedence`, `emodulus_precedence_any_values`, `selection_by_presence`
                             which scenario recipe is selected for all 64 combinations — for
                             arbitrary values (0.0, -0.0, …): only presence matters;
* `hier_transparent`         children / grandchildren: every read on every level equals a
                             freshly built hierarchy (`C06_2_pop_only_witness`: a
                             `set_temporary_feature(child)` that does not rejuvenate is stale);
* `F05_*`, `F06_*`, `F61_*`, `F62_*`  the tables / code before the fixes violate the property.
-/
namespace DclabModel.C06
open DclabModel.Anc DclabModel.Gen.AncTable

/-! ## 1. cache transparency -/

/-- General non-interference theorem.  `Sound e` says: the reads of every method are covered by
its recipe's hash (`req_features`, `req_config`, what `req_func` returns) or are immutable
innate data; recipes that may serve each other's cache entries are the same computation.
Then the long-lived dataset (`run`, with the `_ancillaries` cache) and a dataset that is
freshly opened before every operation (`specRun`, no cache) give the same answers for every
history and every fuel (recursion depth), and a final read returns the fresh value. -/
theorem cache_transparent {D V : Type} [DecidableEq D] [DecidableEq V] {e : Env D V}
    (hs : Sound e) (n : Nat) (sel : D → D) (s0 : St D V) (hw : Wf e s0)
    (ops : List (Op D V)) (f : Feat) :
    (run e n sel (s0, []) ops).2 = (specRun e n sel s0 ops).2 ∧
    (run e n sel (s0, []) ops).1.1 = stateAt e s0 ops ∧
    (getitem e n (run e n sel (s0, []) ops).1.2 (run e n sel (s0, []) ops).1.1 f).2
      = fresh e n (stateAt e s0 ops) f := by
  obtain ⟨h1, h2, h3, h4⟩ := run_spec hs n sel ops s0 [] hw (inv_nil e)
  have hst : (run e n sel (s0, []) ops).1.1 = stateAt e s0 ops := by
    rw [h2, specRun_state]
  refine ⟨h1, hst, ?_⟩
  rw [← hst]
  exact (getitem_spec hs n _ _ f h4 h3).1

/-- the same from any reachable cache: only the invariant "every cache entry equals the fresh
value for the inputs its hash was taken from" matters -/
theorem cache_transparent_from {D V : Type} [DecidableEq D] [DecidableEq V] {e : Env D V}
    (hs : Sound e) (n : Nat) (sel : D → D) (s : St D V) (C : Cache D V) (hw : Wf e s)
    (hC : Inv e C) (ops : List (Op D V)) :
    (run e n sel (s, C) ops).2 = (specRun e n sel s ops).2 ∧
    Inv e (run e n sel (s, C) ops).1.2 := by
  obtain ⟨h1, _, h3, _⟩ := run_spec hs n sel ops s C hw hC
  exact ⟨h1, h3⟩

/-! ## 2. the live registry -/

def liveSpecs : List Spec := table.map specOf

/-- table obligations over the regenerated registry: `declaredReads ⊆ covered` for every
recipe, compatibility of recipes sharing hash coverage, hashed extra features and immutable
features are not ancillary names -/
theorem table_sound : soundB liveSpecs = true := by decide +kernel

theorem table_covered : liveSpecs.all coveredB = true := by decide +kernel

theorem live_cache_transparent (innate : List (Feat × String)) (n : Nat) (sel : String → String)
    (s0 : St String String) (hw : Wf (envOf liveSpecs innate) s0)
    (ops : List (Op String String)) (f : Feat) :
    (run (envOf liveSpecs innate) n sel (s0, []) ops).2
      = (specRun (envOf liveSpecs innate) n sel s0 ops).2 ∧
    (getitem (envOf liveSpecs innate) n (run (envOf liveSpecs innate) n sel (s0, []) ops).1.2
        (run (envOf liveSpecs innate) n sel (s0, []) ops).1.1 f).2
      = fresh (envOf liveSpecs innate) n (stateAt (envOf liveSpecs innate) s0 ops) f := by
  have h := cache_transparent (sound_of_soundB liveSpecs innate table_sound) n sel s0 hw ops f
  exact ⟨h.1, h.2.2⟩

/-- any extension of the registry (plug-in recipes) that passes the decidable check -/
theorem extended_cache_transparent (ps : List Spec) (hps : soundB ps = true)
    (innate : List (Feat × String)) (n : Nat) (sel : String → String)
    (s0 : St String String) (hw : Wf (envOf ps innate) s0)
    (ops : List (Op String String)) :
    (run (envOf ps innate) n sel (s0, []) ops).2 = (specRun (envOf ps innate) n sel s0 ops).2 :=
  (cache_transparent (sound_of_soundB ps innate hps) n sel s0 hw ops "").1

/-! ## 3. availability -/

/- Full statement (false today, see `F07_witness`, `F63_witness`):
     `∀ e n s f, avail e n s f = (fresh e n s f).isSome`
   What is missing: `is_available` is structural (keys/features present, priorities), while
   `compute_emodulus` / `compute_ctc` re-decide from the configuration and raise for
   contradictory or incomplete settings.  Proved under the guard that no method raises. -/
theorem available_iff_runnable_partial {D V : Type} {e : Env D V} (hn : NoRaise e)
    (n : Nat) (s : St D V) (f : Feat) :
    avail e n s f = true ↔ (fresh e n s f).isSome = true := by
  rw [avail_eq_fresh_isSome hn]

/-- with the cache: `f in ds` ⇔ `ds[f]` succeeds on the long-lived dataset -/
theorem available_iff_getitem_partial {D V : Type} [DecidableEq D] [DecidableEq V] {e : Env D V}
    (hs : Sound e) (hn : NoRaise e) (n : Nat) (s : St D V) (C : Cache D V) (hw : Wf e s)
    (hC : Inv e C) (f : Feat) :
    avail e n s f = true ↔ (getitem e n C s f).2.isSome = true := by
  rw [(getitem_spec hs n C s f hw hC).1, avail_eq_fresh_isSome hn]

/-! ### the 64 emodulus combinations -/

structure Combo where
  lut : Bool
  medium : Bool
  temperature : Bool
  viscosity : Bool
  viscModel : Bool
  tempF : Bool
deriving DecidableEq, Repr

def bools : List Bool := [false, true]

def allCombos : List Combo :=
  bools.flatMap fun a => bools.flatMap fun b => bools.flatMap fun c => bools.flatMap fun d =>
  bools.flatMap fun e => bools.map fun f =>
    { lut := a, medium := b, temperature := c, viscosity := d, viscModel := e, tempF := f }

def opt (b : Bool) (k v : String) : List (Key × String) := if b then [(k, v)] else []

/-- all other requirements (pixel size, flow rate, channel width, area_cvx, circ) are met -/
def comboState (c : Combo) (medium : String) : St String String :=
  { temp := [],
    cfg := opt c.lut "calculation:emodulus lut" "LE-2D-FEM-19"
        ++ opt c.medium "calculation:emodulus medium" medium
        ++ opt c.temperature "calculation:emodulus temperature" "23.0"
        ++ opt c.viscosity "calculation:emodulus viscosity" "5.0"
        ++ opt c.viscModel "calculation:emodulus viscosity model" "buyukurganci-2022"
        ++ [("imaging:pixel size", "0.34"), ("setup:flow rate", "0.04"),
            ("setup:channel width", "20.0")] }

def comboInnate (c : Combo) : List (Feat × String) :=
  [("area_cvx", "a"), ("circ", "c")] ++ (if c.tempF then [("temp", "t")] else [])

def comboEnv (c : Combo) : Env String String := envOf liveSpecs (comboInnate c)

/-- selection at the level of the first-order descriptions -/
def selectedSpec (ps : List Spec) (innate : List (Feat × String)) (n : Nat)
    (s : St String String) (f : Feat) : Option Spec :=
  (ps.filter (fun p => p.name == f && recAvail (envOf ps innate) n s p.toRecipe)).getLast?

theorem selected_envOf (ps : List Spec) (innate : List (Feat × String)) (n : Nat)
    (s : St String String) (f : Feat) :
    selected (envOf ps innate) n s f = (selectedSpec ps innate n s f).map Spec.toRecipe := by
  simp only [selected, selectedSpec, envOf, List.filter_map, List.getLast?_map]
  rfl

/-- the documented precedence: scenario C if lut, medium and temperature are set; else B if lut
and viscosity are set; else A if lut and medium are set and the `temp` feature exists -/
def precedenceSpec (c : Combo) : Option String :=
  if c.lut && c.medium && c.temperature then some "case C"
  else if c.lut && c.viscosity then some "case B"
  else if c.lut && c.medium && c.tempF then some "case A"
  else none

/-- over the regenerated table, for all 64 combinations of the five `emodulus *` keys and the
presence of `temp`: the selected recipe is the one the documentation promises, and it reads
the `temp` feature exactly in scenario A -/
theorem emodulus_precedence :
    allCombos.all (fun c =>
      let r := selectedSpec liveSpecs (comboInnate c) 3 (comboState c "CellCarrier") "emodulus"
      r.map (·.tag) == precedenceSpec c
      && r.map (fun p => p.readsF.contains "temp") == (precedenceSpec c).map (· == "case A")
      && r.map (fun p => decide (4 ≤ p.priority)) == (precedenceSpec c).map (· == "case C"))
      = true := by decide +kernel

theorem chip_absent :
    allCombos.all (fun c => (getC (comboState c "CellCarrier") chipKey).isNone) = true := by
  decide +kernel

/-- the same for ARBITRARY values (zero, negative zero, …): the selection looks only at which
keys and features are present, so every state with the presence pattern of a combination
selects the documented scenario -/
theorem emodulus_precedence_any_values (c : Combo) (hc : c ∈ allCombos) (s : St String String)
    (hk : ∀ k, (getC s k).isSome = (getC (comboState c "CellCarrier") k).isSome)
    (hf : ∀ f, (base (comboEnv c) s f).isSome
                = (base (comboEnv c) (comboState c "CellCarrier") f).isSome) :
    (selectedSpec liveSpecs (comboInnate c) 3 s "emodulus").map (·.tag) = precedenceSpec c := by
  have hchip : getC s chipKey = getC (comboState c "CellCarrier") chipKey := by
    have h0 : (getC (comboState c "CellCarrier") chipKey) = none := by
      have := List.all_eq_true.mp chip_absent c hc
      simpa using this
    have := hk chipKey
    rw [h0] at this ⊢
    cases h : getC s chipKey with
    | none => rfl
    | some v => rw [h] at this; simp at this
  have hrec : recAvail (comboEnv c) 3 s = recAvail (comboEnv c) 3 (comboState c "CellCarrier") :=
    funext (recAvail_presence hk hf (by rw [hchip]) 3)
  have hsel : selectedSpec liveSpecs (comboInnate c) 3 s "emodulus"
      = selectedSpec liveSpecs (comboInnate c) 3 (comboState c "CellCarrier") "emodulus" := by
    simp only [selectedSpec]
    have : envOf liveSpecs (comboInnate c) = comboEnv c := rfl
    rw [this, hrec]
  rw [hsel]
  have h := List.all_eq_true.mp emodulus_precedence c hc
  simp only [Bool.and_eq_true, beq_iff_eq] at h
  exact h.1.1

/-- selection (hence availability and which recipe's inputs are hashed) never depends on
configuration *values*, only on presence (and on `chip region` being "channel") -/
theorem selection_by_presence {D V : Type} {e : Env D V} {s s' : St D V}
    (hk : ∀ k, (getC s k).isSome = (getC s' k).isSome)
    (hf : ∀ f, (base e s f).isSome = (base e s' f).isSome)
    (hch : e.chanOk (getC s chipKey) = e.chanOk (getC s' chipKey)) (n : Nat) (f : Feat) :
    selected e n s f = selected e n s' f ∧ avail e n s f = avail e n s' f := by
  refine ⟨selected_presence hk hf hch n f, ?_⟩
  have : recAvail e n s = recAvail e n s' := funext (recAvail_presence hk hf hch n)
  simp only [avail, this, hf]

theorem allCombos_length : allCombos.length = 64 := by decide

example : precedenceSpec ⟨true, true, true, true, false, true⟩ = some "case C" := by decide

/-- F07 class: the configuration is contradictory for `compute_emodulus` — a known medium
together with `emodulus viscosity`, or medium "other"/absent without a viscosity -/
def contradictory (c : Combo) (medium : String) : Bool :=
  if c.medium && medium != "other" then c.viscosity else !c.viscosity

/- Full statement (false, `F07_witness`): for all 64 combinations and valid values,
   `"emodulus" in ds` ⇔ `ds["emodulus"]` succeeds.  Proved for the non-contradictory ones. -/
theorem emodulus_available_iff_runnable_partial :
    allCombos.all (fun c => ["CellCarrier", "other"].all (fun m =>
      contradictory c m ||
      (avail (comboEnv c) 3 (comboState c m) "emodulus"
        == (fresh (comboEnv c) 3 (comboState c m) "emodulus").isSome))) = true := by
  decide +kernel

def f07Combo : Combo :=
  { lut := true, medium := true, temperature := true, viscosity := true, viscModel := true,
    tempF := false }

/-- F07 (open): known medium and `emodulus viscosity` both set: available, but reading raises -/
theorem F07_witness :
    avail (comboEnv f07Combo) 3 (comboState f07Combo "CellCarrier") "emodulus" = true ∧
    fresh (comboEnv f07Combo) 3 (comboState f07Combo "CellCarrier") "emodulus" = none := by
  decide +kernel

/-- exactly 8 of the 64 combinations fail for a known medium -/
theorem F07_exactly_8 :
    (allCombos.filter (fun c =>
      avail (comboEnv c) 3 (comboState c "CellCarrier") "emodulus"
      && !(fresh (comboEnv c) 3 (comboState c "CellCarrier") "emodulus").isSome)).length = 8 := by
  decide +kernel

/-- F63 (open): three fluorescence channels, only the fl1/fl2 crosstalk pair configured:
the two-channel recipe is structurally available, `compute_ctc` raises -/
theorem F63_witness :
    let e := envOf liveSpecs [("fl1_max", "x"), ("fl2_max", "y"), ("fl3_max", "z")]
    let s : St String String :=
      { temp := [], cfg := [("calculation:crosstalk fl21", "0.1"), ("calculation:crosstalk fl12", "0.2")] }
    avail e 3 s "fl1_max_ctc" = true ∧ fresh e 3 s "fl1_max_ctc" = none := by
  decide +kernel

/-! ## 3b. hierarchy children -/

/-- A hierarchy of any depth (children, grandchildren, …) over a sound registry: for every
history of root edits, `set_temporary_feature` through any level, filter changes, refreshes and
reads on any level — where a level is rejuvenated before it is read if something above it
changed (documented protocol; `set_temporary_feature(child)` does it itself) — every read
returns what a freshly built hierarchy over a freshly opened root returns at that level. -/
theorem hier_transparent {D V : Type} [DecidableEq D] [DecidableEq V] {e : Env D V}
    (hs : Sound e) (n : Nat) (s0 : St D V) (hw : Wf e s0) (sels : List (D → D))
    (ops : List (HOp D V)) :
    (hrun e n ((s0, []), sels.map (fun s => { sel := s, dirty := false, cache := [] })) ops).2
      = (hspecRun e n (s0, sels.map (fun s => { sel := s, dirty := false, cache := [] })) ops).2 := by
  apply hrun_spec hs n ops s0 [] _ _ hw (inv_nil e) ?_ rfl
  induction sels with
  | nil => trivial
  | cons x xs ih => exact ⟨fun _ f d h => by simp [Anc.get] at h, ih⟩

def selStr (tag : String) (d : String) : String := tag ++ "[" ++ d ++ "]"

/-- seeded change C06-2: `set_temporary_feature(child, …)` that only drops the entry of the
replaced feature from the child instead of rejuvenating it — `ml_class`, computed from the
replaced score and already cached in the child, stays stale -/
theorem C06_2_pop_only_witness :
    let e := envOf liveSpecs []
    let s0 : St String String := { temp := [], cfg := [] }
    let chain : List (Lvl String) := [{ sel := selStr "c", dirty := false, cache := [] }]
    let h1 := (hrun e 3 ((s0, []), chain)
      [.settVia 0 "ml_score_abc" "a1", .settVia 0 "ml_score_abd" "b1", .read 0 "ml_class"]).1
    -- defective replacement of ml_score_abc through the child
    let h2 : HSt String String :=
      ((edit e h1.1.1 (.setT "ml_score_abc" "a2"), h1.1.2), hsettPopAt "ml_score_abc" 0 h1.2)
    (hrun e 3 h2 [.read 0 "ml_class"]).2
      ≠ (hspecRun e 3 (h2.1.1, chain) [.read 0 "ml_class"]).2 := by
  decide +kernel

/-- … while the real `set_temporary_feature` (rejuvenating) gives the fresh value -/
example :
    let e := envOf liveSpecs []
    let s0 : St String String := { temp := [], cfg := [] }
    let chain : List (Lvl String) := [{ sel := selStr "c", dirty := false, cache := [] }]
    let ops : List (HOp String String) :=
      [.settVia 0 "ml_score_abc" "a1", .settVia 0 "ml_score_abd" "b1", .read 0 "ml_class",
       .settVia 0 "ml_score_abc" "a2", .read 0 "ml_class"]
    (hrun e 3 ((s0, []), chain) ops).2 = (hspecRun e 3 (s0, chain) ops).2
    ∧ (hrun e 3 ((s0, []), chain) ops).2.getLast? ≠ some (some none) := by
  decide +kernel

/-! ## 4. the code before the fixes -/

/-- the two-channel crosstalk recipe as registered before the F05 fix -/
def oldCtc12 : Row :=
  { idx := 14, name := "fl1_max_ctc", priority := 0, reqF := ["fl1_max", "fl2_max"],
    reqC := ["calculation:crosstalk fl21", "calculation:crosstalk fl12"],
    reqFunc := "", method := "compute_ctc1", tag := "" }

theorem F05_old_not_covered : coveredB (specOf oldCtc12) = false := by decide +kernel

def ctcState (extra : List (Key × String)) : St String String :=
  { temp := [], cfg := extra ++ [("calculation:crosstalk fl21", "0.1"),
                                  ("calculation:crosstalk fl12", "0.2")] }

/-- F05: cache, edit, read — with the old recipe the second read returns the value computed
before `crosstalk fl31` was set, a fresh dataset computes a different one -/
theorem F05_stale_witness :
    let e := envOf [specOf oldCtc12] [("fl1_max", "x"), ("fl2_max", "y")]
    let ops : List (Op String String) :=
      [.read "fl1_max_ctc", .setC "calculation:crosstalk fl31" "0.3", .read "fl1_max_ctc"]
    (run e 3 id (ctcState [], []) ops).2 ≠ (specRun e 3 id (ctcState []) ops).2 := by
  decide +kernel

/-- scenario C as registered before the F06 fix (`req_func=is_channel`) -/
def oldEmodC : Row :=
  { idx := 8, name := "emodulus", priority := 4, reqF := ["area_um", "deform"],
    reqC := ["calculation:emodulus lut", "calculation:emodulus medium",
             "calculation:emodulus temperature", "imaging:pixel size", "setup:flow rate",
             "setup:channel width"],
    reqFunc := "is_channel", method := "compute_emodulus", tag := "case C" }

theorem F06_old_not_covered : coveredB (specOf oldEmodC) = false := by decide +kernel

/-- F06: medium "other", temperature and viscosity set; changing the viscosity is not seen -/
theorem F06_stale_witness :
    let c : Combo := { lut := true, medium := true, temperature := true, viscosity := true,
                       viscModel := false, tempF := false }
    let e := envOf ((liveSpecs.filter (fun p => p.name != "emodulus")) ++ [specOf oldEmodC])
               (comboInnate c)
    let ops : List (Op String String) :=
      [.read "emodulus", .setC "calculation:emodulus viscosity" "7.0", .read "emodulus"]
    (run e 3 id (comboState c "other", []) ops).2 ≠ (specRun e 3 id (comboState c "other") ops).2 := by
  decide +kernel

/-- F61: `has_ml_scores` before the fix did not return the score data -/
theorem F61_old_not_covered :
    liveSpecs.all (fun p => p.name != "ml_class" || !(coveredB { p with extraF := [] })) = true
    ∧ liveSpecs.any (fun p => p.name == "ml_class") = true := by
  decide +kernel

/-- F62: before the fix `__contains__` answered True for every name in the cache: read
`area_um`, delete `pixel size` — still "available", but reading fails -/
theorem F62_old_contains_witness :
    let e := envOf liveSpecs [("area_cvx", "a")]
    let s0 : St String String := { temp := [], cfg := [("imaging:pixel size", "0.34")] }
    let sc := (run e 3 id (s0, []) [.read "area_um", .delC "imaging:pixel size"]).1
    availOld e 3 sc.2 sc.1 "area_um" = true ∧ (getitem e 3 sc.2 sc.1 "area_um").2 = none ∧
      avail e 3 sc.1 "area_um" = false := by
  decide +kernel

/-! ## 5. non-vacuity -/

/-- the live registry really caches: the second read is served from the cache (no new entry) -/
example :
    let e := envOf liveSpecs [("area_cvx", "a")]
    let s0 : St String String := { temp := [], cfg := [("imaging:pixel size", "0.34")] }
    let r1 := run e 3 id (s0, []) [.read "area_um"]
    let r2 := run e 3 id r1.1 [.read "area_um"]
    r1.1.2.length = 1 ∧ r2.1.2.length = 1 ∧ r1.2 = r2.2 ∧ r1.2 ≠ [.val none] := by
  decide +kernel

/-- … and recomputes after a relevant edit -/
example :
    let e := envOf liveSpecs [("area_cvx", "a")]
    let s0 : St String String := { temp := [], cfg := [("imaging:pixel size", "0.34")] }
    let r := run e 3 id (s0, []) [.read "area_um", .setC "imaging:pixel size" "0.5", .read "area_um"]
    r.1.2.length = 2 := by
  decide +kernel

/-! ## 6. termination: the recursion of `is_available` / `__getitem__` reaches a fixpoint -/

/-- obligation over the regenerated tables: the rank emitted by `translate()` strictly decreases
along every call `is_available` can make (a recipe providing a required feature, a
higher-priority recipe of the same name).  A cyclic recipe in dclab makes this fail. -/
theorem table_ranked : rankedB liveSpecs rankTable = true := by decide +kernel

/-- a recursion depth that suffices for every feature of the live registry -/
def liveFuel : Nat := fuelBound rankTable

theorem live_rankOK (innate : List (Feat × String)) :
    RankOK (envOf liveSpecs innate) (rkOf rankTable) :=
  rankOK_of_rankedB liveSpecs innate rankTable table_ranked

/-- Fuel sufficiency, general form: in every sound registry with a rank that decreases along
the call relation, availability, selection and the computed value of a feature are the same for
EVERY fuel ≥ `featFuel f` (1 + the largest rank of `f`'s recipes): the recursion terminates with
that fixpoint value, "for every fuel" in the other theorems means "for the value the
terminating recursion returns". -/
theorem fuel_sufficient {D V : Type} {e : Env D V} (hs : Sound e) {rk : Recipe D V → Nat}
    (hk : RankOK e rk) (s : St D V) (f : Feat) (n : Nat) (hn : featFuel e rk f ≤ n) :
    avail e n s f = avail e (featFuel e rk f) s f ∧
    selected e n s f = selected e (featFuel e rk f) s f ∧
    fresh e n s f = fresh e (featFuel e rk f) s f :=
  ⟨avail_fuel hk s n _ f hn (Nat.le_refl _), selected_fuel hk s n _ f hn (Nat.le_refl _),
   fresh_fuel hs hk s n _ f hn (Nat.le_refl _)⟩

/-- … with the cache: the answer of the long-lived dataset is fuel-independent as well -/
theorem getitem_fuel_sufficient {D V : Type} [DecidableEq D] [DecidableEq V] {e : Env D V}
    (hs : Sound e) {rk : Recipe D V → Nat} (hk : RankOK e rk) (s : St D V) (C : Cache D V)
    (hw : Wf e s) (hC : Inv e C) (f : Feat) (n : Nat) (hn : featFuel e rk f ≤ n) :
    (getitem e n C s f).2 = (getitem e (featFuel e rk f) C s f).2 :=
  getitem_fuel hs hk s C hw hC n _ f hn (Nat.le_refl _)

/-- the live registry: one fuel (`liveFuel`) for all features -/
theorem live_fuel_sufficient (innate : List (Feat × String)) (s : St String String) (f : Feat)
    (n : Nat) (hn : liveFuel ≤ n) :
    avail (envOf liveSpecs innate) n s f = avail (envOf liveSpecs innate) liveFuel s f ∧
    selected (envOf liveSpecs innate) n s f = selected (envOf liveSpecs innate) liveFuel s f ∧
    fresh (envOf liveSpecs innate) n s f = fresh (envOf liveSpecs innate) liveFuel s f := by
  have hb := featFuel_le_bound (envOf liveSpecs innate) rankTable f
  have hk := live_rankOK innate
  have hs := sound_of_soundB liveSpecs innate table_sound
  exact ⟨avail_fuel hk s n _ f (Nat.le_trans hb hn) hb,
         selected_fuel hk s n _ f (Nat.le_trans hb hn) hb,
         fresh_fuel hs hk s n _ f (Nat.le_trans hb hn) hb⟩

theorem selectedSpec_fuel (innate : List (Feat × String)) (s : St String String) (f : Feat)
    (n : Nat) (hn : liveFuel ≤ n) :
    selectedSpec liveSpecs innate n s f = selectedSpec liveSpecs innate liveFuel s f := by
  simp only [selectedSpec]
  congr 1
  apply filter_congr_mem
  intro p hp
  have hr : p.toRecipe ∈ (envOf liveSpecs innate).reg := by
    simp only [envOf, List.mem_map]; exact ⟨p, hp, rfl⟩
  have hlt : rkOf rankTable p.toRecipe < liveFuel := by
    have := rankOf_le_bound rankTable p.toRecipe.name p.toRecipe.priority
    simp only [rkOf, liveFuel]; omega
  rw [recAvail_fuel (live_rankOK innate) s n liveFuel _ hr (by omega) hlt]

/-- the documented precedence at the fixpoint: for all 64 combinations and EVERY recursion
depth ≥ `liveFuel` (not just one chosen fuel) -/
theorem emodulus_precedence_fixpoint :
    allCombos.all (fun c =>
      (selectedSpec liveSpecs (comboInnate c) liveFuel (comboState c "CellCarrier") "emodulus").map
        (·.tag) == precedenceSpec c) = true := by decide +kernel

theorem emodulus_precedence_all_fuel (c : Combo) (hc : c ∈ allCombos) (n : Nat)
    (hn : liveFuel ≤ n) :
    (selectedSpec liveSpecs (comboInnate c) n (comboState c "CellCarrier") "emodulus").map (·.tag)
      = precedenceSpec c := by
  rw [selectedSpec_fuel _ _ _ n hn]
  have h := List.all_eq_true.mp emodulus_precedence_fixpoint c hc
  simpa using h

def cycA : Spec :=
  { idx := 0, name := "a", priority := 0, reqF := ["b"], reqC := [], guard := .always,
    extraC := [], extraF := [], readsF := ["b"], readsC := [], outs := ["a"], method := "m",
    tag := "" }
def cycB : Spec := { cycA with idx := 1, name := "b", reqF := ["a"], readsF := ["a"], outs := ["b"] }

/-- a cyclic registry admits no rank at all: the obligation `table_ranked` cannot be met -/
theorem cyclic_never_ranked (tbl : RankTable) : rankedB [cycA, cycB] tbl = false := by
  cases h : rankedB [cycA, cycB] tbl with
  | false => rfl
  | true =>
    exfalso
    simp only [rankedB, List.all_cons, List.all_nil, Bool.and_true, Bool.and_eq_true,
      Bool.or_eq_true, Bool.not_eq_true', decide_eq_true_eq] at h
    obtain ⟨⟨_, h1⟩, ⟨h2, _⟩⟩ := h
    have d1 : dependsS cycA cycB = true := by decide
    have d2 : dependsS cycB cycA = true := by decide
    rw [d1] at h1; rw [d2] at h2
    simp only [Bool.true_eq_false, false_or] at h1 h2
    have e1 : cycA.name = "a" := rfl
    have e2 : cycB.name = "b" := rfl
    have e3 : cycA.priority = 0 := rfl
    have e4 : cycB.priority = 0 := rfl
    rw [e1, e2, e3, e4] at h1 h2
    omega

/-- … and the in-model rank computation reports it -/
example : rankedB [cycA, cycB] (computeRanks [cycA, cycB]) = false := cyclic_never_ranked _

/-- non-vacuity: fuel matters below the bound (with fuel 1 the lowest-priority emodulus recipe
looks available because the higher-priority ones could not be examined), not above it -/
example :
    let c : Combo := ⟨true, true, true, false, true, true⟩
    (liveSpecs.filter (fun p => p.name == "emodulus"
        && recAvail (comboEnv c) 2 (comboState c "CellCarrier") p.toRecipe)).length
      ≠ (liveSpecs.filter (fun p => p.name == "emodulus"
        && recAvail (comboEnv c) liveFuel (comboState c "CellCarrier") p.toRecipe)).length := by
  decide +kernel

/-! ## 7. exactly where availability and runnability differ -/

def emodMedia : List String := ["CellCarrier", "water", "other"]

/-- Over the regenerated table, for all 64 key/`temp` combinations and a known medium, another
known medium and "other": `"emodulus" in ds` ⇔ (`ds["emodulus"]` succeeds ∨ `emodGapS`), and
inside `emodGapS` reading fails.  So outside the decidable class `emodGapS` availability and
runnability coincide, inside it the feature is available but raises (F07, open). -/
theorem emodulus_available_iff_runnable_exact :
    allCombos.all (fun c => emodMedia.all (fun m =>
      let a := avail (comboEnv c) liveFuel (comboState c m) "emodulus"
      let r := (fresh (comboEnv c) liveFuel (comboState c m) "emodulus").isSome
      let g := emodGapS (comboState c m) c.tempF
      (a == (r || g)) && !(g && r))) = true := by decide +kernel

/-- the same for every recursion depth ≥ `liveFuel`, as an equivalence and a witness -/
theorem emodulus_available_iff_runnable_all_fuel (c : Combo) (hc : c ∈ allCombos) (m : String)
    (hm : m ∈ emodMedia) (n : Nat) (hn : liveFuel ≤ n) :
    (emodGapS (comboState c m) c.tempF = false →
      (avail (comboEnv c) n (comboState c m) "emodulus" = true
        ↔ (fresh (comboEnv c) n (comboState c m) "emodulus").isSome = true)) ∧
    (emodGapS (comboState c m) c.tempF = true →
      avail (comboEnv c) n (comboState c m) "emodulus" = true
        ∧ fresh (comboEnv c) n (comboState c m) "emodulus" = none) := by
  obtain ⟨ha, _, hf⟩ := live_fuel_sufficient (comboInnate c) (comboState c m) "emodulus" n hn
  have h := List.all_eq_true.mp (List.all_eq_true.mp emodulus_available_iff_runnable_exact c hc) m hm
  simp only [comboEnv] at h ⊢
  rw [ha, hf]
  generalize avail (envOf liveSpecs (comboInnate c)) liveFuel (comboState c m) "emodulus" = a at h ⊢
  generalize fresh (envOf liveSpecs (comboInnate c)) liveFuel (comboState c m) "emodulus" = r at h ⊢
  generalize emodGapS (comboState c m) c.tempF = g at h ⊢
  cases a <;> cases g <;> cases r <;> simp_all

theorem emodGap_count :
    (allCombos.filter (fun c => emodGapS (comboState c "CellCarrier") c.tempF)).length = 8
    ∧ (allCombos.filter (fun c => emodGapS (comboState c "other") c.tempF)).length = 6 := by
  decide +kernel

/-- presence patterns of the six crosstalk elements and the three fluorescence channels -/
structure CtCombo where
  k12 : Bool
  k13 : Bool
  k21 : Bool
  k23 : Bool
  k31 : Bool
  k32 : Bool
  h1 : Bool
  h2 : Bool
  h3 : Bool
deriving DecidableEq, Repr

def allCtCombos : List CtCombo :=
  bools.flatMap fun a => bools.flatMap fun b => bools.flatMap fun c => bools.flatMap fun d =>
  bools.flatMap fun e => bools.flatMap fun f => bools.flatMap fun g => bools.flatMap fun h =>
  bools.map fun i =>
    { k12 := a, k13 := b, k21 := c, k23 := d, k31 := e, k32 := f, h1 := g, h2 := h, h3 := i }

def ctState (c : CtCombo) : St String String :=
  { temp := [],
    cfg := opt c.k12 "calculation:crosstalk fl12" "0.1" ++ opt c.k13 "calculation:crosstalk fl13" "0.2"
        ++ opt c.k21 "calculation:crosstalk fl21" "0.3" ++ opt c.k23 "calculation:crosstalk fl23" "0.4"
        ++ opt c.k31 "calculation:crosstalk fl31" "0.5" ++ opt c.k32 "calculation:crosstalk fl32" "0.6" }

def ctInnate (c : CtCombo) : List (Feat × String) :=
  (if c.h1 then [("fl1_max", "x")] else []) ++ (if c.h2 then [("fl2_max", "y")] else [])
    ++ (if c.h3 then [("fl3_max", "z")] else [])

def ctFeats : List (Nat × Feat) := [(1, "fl1_max_ctc"), (2, "fl2_max_ctc"), (3, "fl3_max_ctc")]

/-- Over the regenerated table, for all 512 presence patterns (six crosstalk elements, three
channels) and the three corrected features: available ⇔ (readable ∨ `ctcGapS`), and inside
`ctcGapS` reading fails (F63, open). -/
theorem crosstalk_available_iff_runnable_exact :
    allCtCombos.all (fun c => ctFeats.all (fun p =>
      let a := avail (envOf liveSpecs (ctInnate c)) liveFuel (ctState c) p.2
      let r := (fresh (envOf liveSpecs (ctInnate c)) liveFuel (ctState c) p.2).isSome
      let g := ctcGapS (ctState c) c.h1 c.h2 c.h3 p.1
      (a == (r || g)) && !(g && r))) = true := by decide +kernel

theorem crosstalk_available_iff_runnable_all_fuel (c : CtCombo) (hc : c ∈ allCtCombos)
    (p : Nat × Feat) (hp : p ∈ ctFeats) (n : Nat) (hn : liveFuel ≤ n) :
    (ctcGapS (ctState c) c.h1 c.h2 c.h3 p.1 = false →
      (avail (envOf liveSpecs (ctInnate c)) n (ctState c) p.2 = true
        ↔ (fresh (envOf liveSpecs (ctInnate c)) n (ctState c) p.2).isSome = true)) ∧
    (ctcGapS (ctState c) c.h1 c.h2 c.h3 p.1 = true →
      avail (envOf liveSpecs (ctInnate c)) n (ctState c) p.2 = true
        ∧ fresh (envOf liveSpecs (ctInnate c)) n (ctState c) p.2 = none) := by
  obtain ⟨ha, _, hf⟩ := live_fuel_sufficient (ctInnate c) (ctState c) p.2 n hn
  have h := List.all_eq_true.mp (List.all_eq_true.mp crosstalk_available_iff_runnable_exact c hc) p hp
  simp only at h ⊢
  rw [ha, hf]
  generalize avail (envOf liveSpecs (ctInnate c)) liveFuel (ctState c) p.2 = a at h ⊢
  generalize fresh (envOf liveSpecs (ctInnate c)) liveFuel (ctState c) p.2 = r at h ⊢
  generalize ctcGapS (ctState c) c.h1 c.h2 c.h3 p.1 = g at h ⊢
  cases a <;> cases g <;> cases r <;> simp_all

theorem allCtCombos_length : allCtCombos.length = 512 := by decide +kernel

/-- the gap is inhabited and is not everything -/
example : (allCtCombos.filter (fun c => ctcGapS (ctState c) c.h1 c.h2 c.h3 1)).length = 27 := by
  decide +kernel

/-- … and for ARBITRARY values: every state with the presence pattern of one of the 64
combinations (whatever the LUT, temperature, viscosity, pixel size, … VALUES are; the medium any
string, classified only as "other" or not) is available exactly when reading succeeds or
`emodGapS` holds, and inside `emodGapS` reading fails — at every recursion depth ≥ `liveFuel`.
(The model's methods reject no values; value combinations that `get_emodulus` itself rejects
are outside the model, see ASSUMPTIONS.) -/
theorem emodulus_gap_any_values (c : Combo) (hc : c ∈ allCombos) (m : String) (hm : m ∈ emodMedia)
    (s : St String String)
    (hk : ∀ k, (getC s k).isSome = (getC (comboState c m) k).isSome)
    (hf : ∀ f, (base (comboEnv c) s f).isSome = (base (comboEnv c) (comboState c m) f).isSome)
    (hch : chanOkStr (getC s chipKey) = chanOkStr (getC (comboState c m) chipKey))
    (ho : otherS s = otherS (comboState c m)) (n : Nat) (hn : liveFuel ≤ n) :
    (emodGapS s c.tempF = false →
      (avail (comboEnv c) n s "emodulus" = true
        ↔ (fresh (comboEnv c) n s "emodulus").isSome = true)) ∧
    (emodGapS s c.tempF = true →
      avail (comboEnv c) n s "emodulus" = true
        ∧ (fresh (comboEnv c) n s "emodulus").isSome = false) := by
  have hav := (selection_by_presence (e := comboEnv c) hk hf hch n "emodulus").2
  have hfr := fresh_isSome_presence liveSpecs (comboInnate c) hk hf hch ho n "emodulus"
  have hg : emodGapS s c.tempF = emodGapS (comboState c m) c.tempF := by
    simp only [emodGapS, hasK, hk, ho]
  have h := emodulus_available_iff_runnable_all_fuel c hc m hm n hn
  have hfr' : (fresh (comboEnv c) n s "emodulus").isSome
      = (fresh (comboEnv c) n (comboState c m) "emodulus").isSome := hfr
  rw [hav, hfr', hg]
  refine ⟨h.1, fun hgap => ?_⟩
  obtain ⟨h1, h2⟩ := h.2 hgap
  exact ⟨h1, by rw [h2]; rfl⟩

/-- crosstalk: only presence matters (the values of the matrix elements and the channel data
are arbitrary) -/
theorem crosstalk_gap_any_values (c : CtCombo) (hc : c ∈ allCtCombos) (p : Nat × Feat)
    (hp : p ∈ ctFeats) (s : St String String)
    (hk : ∀ k, (getC s k).isSome = (getC (ctState c) k).isSome)
    (hf : ∀ f, (base (envOf liveSpecs (ctInnate c)) s f).isSome
                = (base (envOf liveSpecs (ctInnate c)) (ctState c) f).isSome)
    (hch : chanOkStr (getC s chipKey) = chanOkStr (getC (ctState c) chipKey))
    (ho : otherS s = otherS (ctState c)) (n : Nat) (hn : liveFuel ≤ n) :
    (ctcGapS s c.h1 c.h2 c.h3 p.1 = false →
      (avail (envOf liveSpecs (ctInnate c)) n s p.2 = true
        ↔ (fresh (envOf liveSpecs (ctInnate c)) n s p.2).isSome = true)) ∧
    (ctcGapS s c.h1 c.h2 c.h3 p.1 = true →
      avail (envOf liveSpecs (ctInnate c)) n s p.2 = true
        ∧ (fresh (envOf liveSpecs (ctInnate c)) n s p.2).isSome = false) := by
  have hav := (selection_by_presence (e := envOf liveSpecs (ctInnate c)) hk hf hch n p.2).2
  have hfr := fresh_isSome_presence liveSpecs (ctInnate c) hk hf hch ho n p.2
  have hg : ctcGapS s c.h1 c.h2 c.h3 p.1 = ctcGapS (ctState c) c.h1 c.h2 c.h3 p.1 := by
    have hK : hasK s = hasK (ctState c) := funext (fun k => by simp only [hasK, hk])
    simp only [ctcGapS, hK]
  have h := crosstalk_available_iff_runnable_all_fuel c hc p hp n hn
  rw [hav, hfr, hg]
  refine ⟨h.1, fun hgap => ?_⟩
  obtain ⟨h1, h2⟩ := h.2 hgap
  exact ⟨h1, by rw [h2]; rfl⟩

/-! ## 8. read sets from the source; the hash covers chains of dependencies -/

/-- the live registry with the read set of every method taken from its SOURCE (extracted by
`translate()` with `ast`) where the extraction is complete -/
def liveSpecsA : List Spec := table.map (specOfA astReads)

/-- obligation over the regenerated tables: every feature / configuration key that the source
of a compute method can access is covered by its recipe's hash (`req_features`, `req_config`,
what `req_func` returns) or is immutable innate data -/
theorem table_sound_ast : soundB liveSpecsA = true := by decide +kernel

theorem live_cache_transparent_ast (innate : List (Feat × String)) (n : Nat)
    (sel : String → String) (s0 : St String String) (hw : Wf (envOf liveSpecsA innate) s0)
    (ops : List (Op String String)) :
    (run (envOf liveSpecsA innate) n sel (s0, []) ops).2
      = (specRun (envOf liveSpecsA innate) n sel s0 ops).2 :=
  extended_cache_transparent liveSpecsA table_sound_ast innate n sel s0 hw ops

/-- obligation over the regenerated tables: what the model says the requirement functions
return (`reqFuncInfo`: the five `emodulus *` keys, the six crosstalk elements, the channel
guard) is accessed by their sources -/
theorem reqfunc_info_from_source : table.all (reqFuncSourceB astReqFunc) = true := by
  decide +kernel

/-- … a `get_crosstalk_state` that no longer looks at `crosstalk fl31` is detected statically -/
theorem reqfunc_source_detects :
    table.all (reqFuncSourceB [("get_crosstalk_state", [],
      ["calculation:crosstalk fl12", "calculation:crosstalk fl13", "calculation:crosstalk fl21",
       "calculation:crosstalk fl23", "calculation:crosstalk fl32"], true)]) = false := by
  decide +kernel

/-- a method whose source reads a key its recipe does not hash is detected statically:
`compute_area_um` additionally reading `[setup] flow rate` -/
theorem ast_uncovered_detected :
    soundB (table.map (specOfA [("compute_area_um", ["area_cvx"],
      ["imaging:pixel size", "setup:flow rate"], true)])) = false := by decide +kernel

/-- Cache-key soundness for chains.  In every sound registry: two ARBITRARY states in which a
recipe has the same hash give its method identical inputs, hence the same result — whatever
was edited in between and however deep in the chain of ancillary dependencies it is read
(the data of required ancillary features are hashed, and by `cache_transparent` those data
are the fresh ones).  Contrapositive: if the fresh value differs, the hash differs, so a stale
cache entry can never be served. -/
theorem hash_covers_chain_value {D V : Type} {e : Env D V} (hs : Sound e) (n : Nat)
    {s s' : St D V} (hw : Wf e s) (hw' : Wf e s') {r : Recipe D V} (hr : r ∈ e.reg)
    (hh : freshHash e n s r = freshHash e n s' r) :
    r.compute (r.readsF.map (fresh e n s)) (r.readsC.map (getC s))
      = r.compute (r.readsF.map (fresh e n s')) (r.readsC.map (getC s')) := by
  obtain ⟨h1, h2⟩ := hash_covers_chain hs n hw hw' hr hh
  rw [h1, h2]

/-- for the live registry with source-extracted read sets -/
theorem live_hash_covers_chain (innate : List (Feat × String)) (n : Nat)
    {s s' : St String String} (hw : Wf (envOf liveSpecsA innate) s)
    (hw' : Wf (envOf liveSpecsA innate) s') {r : Recipe String String}
    (hr : r ∈ (envOf liveSpecsA innate).reg)
    (hh : freshHash (envOf liveSpecsA innate) n s r = freshHash (envOf liveSpecsA innate) n s' r) :
    r.compute (r.readsF.map (fresh (envOf liveSpecsA innate) n s)) (r.readsC.map (getC s))
      = r.compute (r.readsF.map (fresh (envOf liveSpecsA innate) n s')) (r.readsC.map (getC s')) :=
  hash_covers_chain_value (sound_of_soundB liveSpecsA innate table_sound_ast) n hw hw' hr hh

/-- non-vacuity (a chain): `volume` hashes the DATA of `contour`, which is computed from
`mask`; a state with another mask has another `volume` hash although `volume`'s own
`req_features` / `req_config` entries did not change by name -/
example :
    let e1 := envOf liveSpecsA [("mask", "m1"), ("pos_x", "x"), ("pos_y", "y")]
    let e2 := envOf liveSpecsA [("mask", "m2"), ("pos_x", "x"), ("pos_y", "y")]
    let s : St String String := { temp := [], cfg := [("imaging:pixel size", "0.34")] }
    (liveSpecsA.filter (fun p => p.name == "volume")).map
        (fun p => (freshHash e1 liveFuel s p.toRecipe).fs)
      ≠ (liveSpecsA.filter (fun p => p.name == "volume")).map
        (fun p => (freshHash e2 liveFuel s p.toRecipe).fs) := by
  decide +kernel

end DclabModel.C06
