import DclabModel.Lemmas.Anc
import DclabModel.Gen.AncTable
/-!
# C06 — Computed (ancillary) features always reflect the current data and settings

* `cache_transparent`        for every registry whose recipes hash what their methods read
                             (`Sound`), every history of configuration edits, temporary-feature
                             edits, reads, availability tests and hierarchy-child refreshes
                             answers exactly like a freshly opened dataset at every step, and a
                             read after the history equals the fresh value at the final state;
* `table_sound`, `live_cache_transparent`
                             the premises hold for the registry regenerated from the code
                             (`Gen/AncTable.lean`), re-checked on every run;
* `available_iff_runnable_partial`, `emodulus_available_iff_runnable_partial`
                             `feat in ds` ⇔ reading succeeds, outside the recorded classes
                             F07/F63 (witnesses `F07_witness`, `F07_exactly_8`, `F63_witness`);
* `emodulus_precedence`, `emodulus_precedence_any_values`, `selection_by_presence`
                             which scenario recipe is selected for all 64 combinations — for
                             arbitrary values (0.0, -0.0, …): only presence matters;
* `hier_transparent`         children / grandchildren: every read on every level equals a
                             freshly built hierarchy (`C06_2_pop_only_witness`: a
                             `set_temporary_feature(child)` that does not rejuvenate is stale);
* `F05_*`, `F06_*`, `F61_*`, `F62_*`  the tables / code before the fixes violate the property.
-/
namespace DclabModel.C06
open DclabModel.Anc DclabModel.Gen.AncTable

/-! ## 1. cache transparency -/

/-- General non-interference theorem.  `Sound e` says: the reads of every method are covered by
its recipe's hash (`req_features`, `req_config`, what `req_func` returns) or are immutable
innate data; recipes that may serve each other's cache entries are the same computation.
Then the long-lived dataset (`run`, with the `_ancillaries` cache) and a dataset that is
freshly opened before every operation (`specRun`, no cache) give the same answers for every
history and every fuel (recursion depth), and a final read returns the fresh value. -/
theorem cache_transparent {D V : Type} [DecidableEq D] [DecidableEq V] {e : Env D V}
    (hs : Sound e) (n : Nat) (sel : D → D) (s0 : St D V) (hw : Wf e s0)
    (ops : List (Op D V)) (f : Feat) :
    (run e n sel (s0, []) ops).2 = (specRun e n sel s0 ops).2 ∧
    (run e n sel (s0, []) ops).1.1 = stateAt e s0 ops ∧
    (getitem e n (run e n sel (s0, []) ops).1.2 (run e n sel (s0, []) ops).1.1 f).2
      = fresh e n (stateAt e s0 ops) f := by
  obtain ⟨h1, h2, h3, h4⟩ := run_spec hs n sel ops s0 [] hw (inv_nil e)
  have hst : (run e n sel (s0, []) ops).1.1 = stateAt e s0 ops := by
    rw [h2, specRun_state]
  refine ⟨h1, hst, ?_⟩
  rw [← hst]
  exact (getitem_spec hs n _ _ f h4 h3).1

/-- the same from any reachable cache: only the invariant "every cache entry equals the fresh
value for the inputs its hash was taken from" matters -/
theorem cache_transparent_from {D V : Type} [DecidableEq D] [DecidableEq V] {e : Env D V}
    (hs : Sound e) (n : Nat) (sel : D → D) (s : St D V) (C : Cache D V) (hw : Wf e s)
    (hC : Inv e C) (ops : List (Op D V)) :
    (run e n sel (s, C) ops).2 = (specRun e n sel s ops).2 ∧
    Inv e (run e n sel (s, C) ops).1.2 := by
  obtain ⟨h1, _, h3, _⟩ := run_spec hs n sel ops s C hw hC
  exact ⟨h1, h3⟩

/-! ## 2. the live registry -/

def liveSpecs : List Spec := table.map specOf

/-- table obligations over the regenerated registry: `declaredReads ⊆ covered` for every
recipe, compatibility of recipes sharing hash coverage, hashed extra features and immutable
features are not ancillary names -/
theorem table_sound : soundB liveSpecs = true := by decide +kernel

theorem table_covered : liveSpecs.all coveredB = true := by decide +kernel

theorem live_cache_transparent (innate : List (Feat × String)) (n : Nat) (sel : String → String)
    (s0 : St String String) (hw : Wf (envOf liveSpecs innate) s0)
    (ops : List (Op String String)) (f : Feat) :
    (run (envOf liveSpecs innate) n sel (s0, []) ops).2
      = (specRun (envOf liveSpecs innate) n sel s0 ops).2 ∧
    (getitem (envOf liveSpecs innate) n (run (envOf liveSpecs innate) n sel (s0, []) ops).1.2
        (run (envOf liveSpecs innate) n sel (s0, []) ops).1.1 f).2
      = fresh (envOf liveSpecs innate) n (stateAt (envOf liveSpecs innate) s0 ops) f := by
  have h := cache_transparent (sound_of_soundB liveSpecs innate table_sound) n sel s0 hw ops f
  exact ⟨h.1, h.2.2⟩

/-- any extension of the registry (plug-in recipes) that passes the decidable check -/
theorem extended_cache_transparent (ps : List Spec) (hps : soundB ps = true)
    (innate : List (Feat × String)) (n : Nat) (sel : String → String)
    (s0 : St String String) (hw : Wf (envOf ps innate) s0)
    (ops : List (Op String String)) :
    (run (envOf ps innate) n sel (s0, []) ops).2 = (specRun (envOf ps innate) n sel s0 ops).2 :=
  (cache_transparent (sound_of_soundB ps innate hps) n sel s0 hw ops "").1

/-! ## 3. availability -/

/- Full statement (false today, see `F07_witness`, `F63_witness`):
     `∀ e n s f, avail e n s f = (fresh e n s f).isSome`
   What is missing: `is_available` is structural (keys/features present, priorities), while
   `compute_emodulus` / `compute_ctc` re-decide from the configuration and raise for
   contradictory or incomplete settings.  Proved under the guard that no method raises. -/
theorem available_iff_runnable_partial {D V : Type} {e : Env D V} (hn : NoRaise e)
    (n : Nat) (s : St D V) (f : Feat) :
    avail e n s f = true ↔ (fresh e n s f).isSome = true := by
  rw [avail_eq_fresh_isSome hn]

/-- with the cache: `f in ds` ⇔ `ds[f]` succeeds on the long-lived dataset -/
theorem available_iff_getitem_partial {D V : Type} [DecidableEq D] [DecidableEq V] {e : Env D V}
    (hs : Sound e) (hn : NoRaise e) (n : Nat) (s : St D V) (C : Cache D V) (hw : Wf e s)
    (hC : Inv e C) (f : Feat) :
    avail e n s f = true ↔ (getitem e n C s f).2.isSome = true := by
  rw [(getitem_spec hs n C s f hw hC).1, avail_eq_fresh_isSome hn]

/-! ### the 64 emodulus combinations -/

structure Combo where
  lut : Bool
  medium : Bool
  temperature : Bool
  viscosity : Bool
  viscModel : Bool
  tempF : Bool
deriving DecidableEq, Repr

def bools : List Bool := [false, true]

def allCombos : List Combo :=
  bools.flatMap fun a => bools.flatMap fun b => bools.flatMap fun c => bools.flatMap fun d =>
  bools.flatMap fun e => bools.map fun f =>
    { lut := a, medium := b, temperature := c, viscosity := d, viscModel := e, tempF := f }

def opt (b : Bool) (k v : String) : List (Key × String) := if b then [(k, v)] else []

/-- all other requirements (pixel size, flow rate, channel width, area_cvx, circ) are met -/
def comboState (c : Combo) (medium : String) : St String String :=
  { temp := [],
    cfg := opt c.lut "calculation:emodulus lut" "LE-2D-FEM-19"
        ++ opt c.medium "calculation:emodulus medium" medium
        ++ opt c.temperature "calculation:emodulus temperature" "23.0"
        ++ opt c.viscosity "calculation:emodulus viscosity" "5.0"
        ++ opt c.viscModel "calculation:emodulus viscosity model" "buyukurganci-2022"
        ++ [("imaging:pixel size", "0.34"), ("setup:flow rate", "0.04"),
            ("setup:channel width", "20.0")] }

def comboInnate (c : Combo) : List (Feat × String) :=
  [("area_cvx", "a"), ("circ", "c")] ++ (if c.tempF then [("temp", "t")] else [])

def comboEnv (c : Combo) : Env String String := envOf liveSpecs (comboInnate c)

/-- selection at the level of the first-order descriptions -/
def selectedSpec (ps : List Spec) (innate : List (Feat × String)) (n : Nat)
    (s : St String String) (f : Feat) : Option Spec :=
  (ps.filter (fun p => p.name == f && recAvail (envOf ps innate) n s p.toRecipe)).getLast?

theorem selected_envOf (ps : List Spec) (innate : List (Feat × String)) (n : Nat)
    (s : St String String) (f : Feat) :
    selected (envOf ps innate) n s f = (selectedSpec ps innate n s f).map Spec.toRecipe := by
  simp only [selected, selectedSpec, envOf, List.filter_map, List.getLast?_map]
  rfl

/-- the documented precedence: scenario C if lut, medium and temperature are set; else B if lut
and viscosity are set; else A if lut and medium are set and the `temp` feature exists -/
def precedenceSpec (c : Combo) : Option String :=
  if c.lut && c.medium && c.temperature then some "case C"
  else if c.lut && c.viscosity then some "case B"
  else if c.lut && c.medium && c.tempF then some "case A"
  else none

/-- over the regenerated table, for all 64 combinations of the five `emodulus *` keys and the
presence of `temp`: the selected recipe is the one the documentation promises, and it reads
the `temp` feature exactly in scenario A -/
theorem emodulus_precedence :
    allCombos.all (fun c =>
      let r := selectedSpec liveSpecs (comboInnate c) 3 (comboState c "CellCarrier") "emodulus"
      r.map (·.tag) == precedenceSpec c
      && r.map (fun p => p.readsF.contains "temp") == (precedenceSpec c).map (· == "case A")
      && r.map (fun p => decide (4 ≤ p.priority)) == (precedenceSpec c).map (· == "case C"))
      = true := by decide +kernel

theorem chip_absent :
    allCombos.all (fun c => (getC (comboState c "CellCarrier") chipKey).isNone) = true := by
  decide +kernel

/-- the same for ARBITRARY values (zero, negative zero, …): the selection looks only at which
keys and features are present, so every state with the presence pattern of a combination
selects the documented scenario -/
theorem emodulus_precedence_any_values (c : Combo) (hc : c ∈ allCombos) (s : St String String)
    (hk : ∀ k, (getC s k).isSome = (getC (comboState c "CellCarrier") k).isSome)
    (hf : ∀ f, (base (comboEnv c) s f).isSome
                = (base (comboEnv c) (comboState c "CellCarrier") f).isSome) :
    (selectedSpec liveSpecs (comboInnate c) 3 s "emodulus").map (·.tag) = precedenceSpec c := by
  have hchip : getC s chipKey = getC (comboState c "CellCarrier") chipKey := by
    have h0 : (getC (comboState c "CellCarrier") chipKey) = none := by
      have := List.all_eq_true.mp chip_absent c hc
      simpa using this
    have := hk chipKey
    rw [h0] at this ⊢
    cases h : getC s chipKey with
    | none => rfl
    | some v => rw [h] at this; simp at this
  have hrec : recAvail (comboEnv c) 3 s = recAvail (comboEnv c) 3 (comboState c "CellCarrier") :=
    funext (recAvail_presence hk hf (by rw [hchip]) 3)
  have hsel : selectedSpec liveSpecs (comboInnate c) 3 s "emodulus"
      = selectedSpec liveSpecs (comboInnate c) 3 (comboState c "CellCarrier") "emodulus" := by
    simp only [selectedSpec]
    have : envOf liveSpecs (comboInnate c) = comboEnv c := rfl
    rw [this, hrec]
  rw [hsel]
  have h := List.all_eq_true.mp emodulus_precedence c hc
  simp only [Bool.and_eq_true, beq_iff_eq] at h
  exact h.1.1

/-- selection (hence availability and which recipe's inputs are hashed) never depends on
configuration *values*, only on presence (and on `chip region` being "channel") -/
theorem selection_by_presence {D V : Type} {e : Env D V} {s s' : St D V}
    (hk : ∀ k, (getC s k).isSome = (getC s' k).isSome)
    (hf : ∀ f, (base e s f).isSome = (base e s' f).isSome)
    (hch : e.chanOk (getC s chipKey) = e.chanOk (getC s' chipKey)) (n : Nat) (f : Feat) :
    selected e n s f = selected e n s' f ∧ avail e n s f = avail e n s' f := by
  refine ⟨selected_presence hk hf hch n f, ?_⟩
  have : recAvail e n s = recAvail e n s' := funext (recAvail_presence hk hf hch n)
  simp only [avail, this, hf]

theorem allCombos_length : allCombos.length = 64 := by decide

example : precedenceSpec ⟨true, true, true, true, false, true⟩ = some "case C" := by decide

/-- F07 class: the configuration is contradictory for `compute_emodulus` — a known medium
together with `emodulus viscosity`, or medium "other"/absent without a viscosity -/
def contradictory (c : Combo) (medium : String) : Bool :=
  if c.medium && medium != "other" then c.viscosity else !c.viscosity

/- Full statement (false, `F07_witness`): for all 64 combinations and valid values,
   `"emodulus" in ds` ⇔ `ds["emodulus"]` succeeds.  Proved for the non-contradictory ones. -/
theorem emodulus_available_iff_runnable_partial :
    allCombos.all (fun c => ["CellCarrier", "other"].all (fun m =>
      contradictory c m ||
      (avail (comboEnv c) 3 (comboState c m) "emodulus"
        == (fresh (comboEnv c) 3 (comboState c m) "emodulus").isSome))) = true := by
  decide +kernel

def f07Combo : Combo :=
  { lut := true, medium := true, temperature := true, viscosity := true, viscModel := true,
    tempF := false }

/-- F07 (open): known medium and `emodulus viscosity` both set: available, but reading raises -/
theorem F07_witness :
    avail (comboEnv f07Combo) 3 (comboState f07Combo "CellCarrier") "emodulus" = true ∧
    fresh (comboEnv f07Combo) 3 (comboState f07Combo "CellCarrier") "emodulus" = none := by
  decide +kernel

/-- exactly 8 of the 64 combinations fail for a known medium -/
theorem F07_exactly_8 :
    (allCombos.filter (fun c =>
      avail (comboEnv c) 3 (comboState c "CellCarrier") "emodulus"
      && !(fresh (comboEnv c) 3 (comboState c "CellCarrier") "emodulus").isSome)).length = 8 := by
  decide +kernel

/-- F63 (open): three fluorescence channels, only the fl1/fl2 crosstalk pair configured:
the two-channel recipe is structurally available, `compute_ctc` raises -/
theorem F63_witness :
    let e := envOf liveSpecs [("fl1_max", "x"), ("fl2_max", "y"), ("fl3_max", "z")]
    let s : St String String :=
      { temp := [], cfg := [("calculation:crosstalk fl21", "0.1"), ("calculation:crosstalk fl12", "0.2")] }
    avail e 3 s "fl1_max_ctc" = true ∧ fresh e 3 s "fl1_max_ctc" = none := by
  decide +kernel

/-! ## 3b. hierarchy children -/

/-- A hierarchy of any depth (children, grandchildren, …) over a sound registry: for every
history of root edits, `set_temporary_feature` through any level, filter changes, refreshes and
reads on any level — where a level is rejuvenated before it is read if something above it
changed (documented protocol; `set_temporary_feature(child)` does it itself) — every read
returns what a freshly built hierarchy over a freshly opened root returns at that level. -/
theorem hier_transparent {D V : Type} [DecidableEq D] [DecidableEq V] {e : Env D V}
    (hs : Sound e) (n : Nat) (s0 : St D V) (hw : Wf e s0) (sels : List (D → D))
    (ops : List (HOp D V)) :
    (hrun e n ((s0, []), sels.map (fun s => { sel := s, dirty := false, cache := [] })) ops).2
      = (hspecRun e n (s0, sels.map (fun s => { sel := s, dirty := false, cache := [] })) ops).2 := by
  apply hrun_spec hs n ops s0 [] _ _ hw (inv_nil e) ?_ rfl
  induction sels with
  | nil => trivial
  | cons x xs ih => exact ⟨fun _ f d h => by simp [Anc.get] at h, ih⟩

def selStr (tag : String) (d : String) : String := tag ++ "[" ++ d ++ "]"

/-- seeded change C06-2: `set_temporary_feature(child, …)` that only drops the entry of the
replaced feature from the child instead of rejuvenating it — `ml_class`, computed from the
replaced score and already cached in the child, stays stale -/
theorem C06_2_pop_only_witness :
    let e := envOf liveSpecs []
    let s0 : St String String := { temp := [], cfg := [] }
    let chain : List (Lvl String) := [{ sel := selStr "c", dirty := false, cache := [] }]
    let h1 := (hrun e 3 ((s0, []), chain)
      [.settVia 0 "ml_score_abc" "a1", .settVia 0 "ml_score_abd" "b1", .read 0 "ml_class"]).1
    -- defective replacement of ml_score_abc through the child
    let h2 : HSt String String :=
      ((edit e h1.1.1 (.setT "ml_score_abc" "a2"), h1.1.2), hsettPopAt "ml_score_abc" 0 h1.2)
    (hrun e 3 h2 [.read 0 "ml_class"]).2
      ≠ (hspecRun e 3 (h2.1.1, chain) [.read 0 "ml_class"]).2 := by
  decide +kernel

/-- … while the real `set_temporary_feature` (rejuvenating) gives the fresh value -/
example :
    let e := envOf liveSpecs []
    let s0 : St String String := { temp := [], cfg := [] }
    let chain : List (Lvl String) := [{ sel := selStr "c", dirty := false, cache := [] }]
    let ops : List (HOp String String) :=
      [.settVia 0 "ml_score_abc" "a1", .settVia 0 "ml_score_abd" "b1", .read 0 "ml_class",
       .settVia 0 "ml_score_abc" "a2", .read 0 "ml_class"]
    (hrun e 3 ((s0, []), chain) ops).2 = (hspecRun e 3 (s0, chain) ops).2
    ∧ (hrun e 3 ((s0, []), chain) ops).2.getLast? ≠ some (some none) := by
  decide +kernel

/-! ## 4. the code before the fixes -/

/-- the two-channel crosstalk recipe as registered before the F05 fix -/
def oldCtc12 : Row :=
  { idx := 14, name := "fl1_max_ctc", priority := 0, reqF := ["fl1_max", "fl2_max"],
    reqC := ["calculation:crosstalk fl21", "calculation:crosstalk fl12"],
    reqFunc := "", method := "compute_ctc1", tag := "" }

theorem F05_old_not_covered : coveredB (specOf oldCtc12) = false := by decide +kernel

def ctcState (extra : List (Key × String)) : St String String :=
  { temp := [], cfg := extra ++ [("calculation:crosstalk fl21", "0.1"),
                                  ("calculation:crosstalk fl12", "0.2")] }

/-- F05: cache, edit, read — with the old recipe the second read returns the value computed
before `crosstalk fl31` was set, a fresh dataset computes a different one -/
theorem F05_stale_witness :
    let e := envOf [specOf oldCtc12] [("fl1_max", "x"), ("fl2_max", "y")]
    let ops : List (Op String String) :=
      [.read "fl1_max_ctc", .setC "calculation:crosstalk fl31" "0.3", .read "fl1_max_ctc"]
    (run e 3 id (ctcState [], []) ops).2 ≠ (specRun e 3 id (ctcState []) ops).2 := by
  decide +kernel

/-- scenario C as registered before the F06 fix (`req_func=is_channel`) -/
def oldEmodC : Row :=
  { idx := 8, name := "emodulus", priority := 4, reqF := ["area_um", "deform"],
    reqC := ["calculation:emodulus lut", "calculation:emodulus medium",
             "calculation:emodulus temperature", "imaging:pixel size", "setup:flow rate",
             "setup:channel width"],
    reqFunc := "is_channel", method := "compute_emodulus", tag := "case C" }

theorem F06_old_not_covered : coveredB (specOf oldEmodC) = false := by decide +kernel

/-- F06: medium "other", temperature and viscosity set; changing the viscosity is not seen -/
theorem F06_stale_witness :
    let c : Combo := { lut := true, medium := true, temperature := true, viscosity := true,
                       viscModel := false, tempF := false }
    let e := envOf ((liveSpecs.filter (fun p => p.name != "emodulus")) ++ [specOf oldEmodC])
               (comboInnate c)
    let ops : List (Op String String) :=
      [.read "emodulus", .setC "calculation:emodulus viscosity" "7.0", .read "emodulus"]
    (run e 3 id (comboState c "other", []) ops).2 ≠ (specRun e 3 id (comboState c "other") ops).2 := by
  decide +kernel

/-- F61: `has_ml_scores` before the fix did not return the score data -/
theorem F61_old_not_covered :
    liveSpecs.all (fun p => p.name != "ml_class" || !(coveredB { p with extraF := [] })) = true
    ∧ liveSpecs.any (fun p => p.name == "ml_class") = true := by
  decide +kernel

/-- F62: before the fix `__contains__` answered True for every name in the cache: read
`area_um`, delete `pixel size` — still "available", but reading fails -/
theorem F62_old_contains_witness :
    let e := envOf liveSpecs [("area_cvx", "a")]
    let s0 : St String String := { temp := [], cfg := [("imaging:pixel size", "0.34")] }
    let sc := (run e 3 id (s0, []) [.read "area_um", .delC "imaging:pixel size"]).1
    availOld e 3 sc.2 sc.1 "area_um" = true ∧ (getitem e 3 sc.2 sc.1 "area_um").2 = none ∧
      avail e 3 sc.1 "area_um" = false := by
  decide +kernel

/-! ## 5. non-vacuity -/

/-- the live registry really caches: the second read is served from the cache (no new entry) -/
example :
    let e := envOf liveSpecs [("area_cvx", "a")]
    let s0 : St String String := { temp := [], cfg := [("imaging:pixel size", "0.34")] }
    let r1 := run e 3 id (s0, []) [.read "area_um"]
    let r2 := run e 3 id r1.1 [.read "area_um"]
    r1.1.2.length = 1 ∧ r2.1.2.length = 1 ∧ r1.2 = r2.2 ∧ r1.2 ≠ [.val none] := by
  decide +kernel

/-- … and recomputes after a relevant edit -/
example :
    let e := envOf liveSpecs [("area_cvx", "a")]
    let s0 : St String String := { temp := [], cfg := [("imaging:pixel size", "0.34")] }
    let r := run e 3 id (s0, []) [.read "area_um", .setC "imaging:pixel size" "0.5", .read "area_um"]
    r.1.2.length = 2 := by
  decide +kernel

end DclabModel.C06
