import DclabModel.Lemmas.Basin
/-!
# C07 — Basin-provided features equal the origin's data for the mapped events

* `proxy_routes_agree`   the three access routes of the mapping proxy (single integer, cached whole
                         array, event-wise nd route) return the same rows for every map
                         (repeated, permuted, subset, superset) and every index expression;
* `export_composes`      a feature read through the basins of an export of (a view of) `ref` is the
                         view of what `ref` shows — for filtered and unfiltered exports, from the
                         file and from a hierarchy child (fixed code, F08), with and without the
                         feature stored innately;  `export_unfiltered` is the identity case;
* `chain`                k-fold exports, any k: the feature of the last file is the origin's
                         feature at the composed map (induction over the chain);
* `viaBasin_consistent`  the fuel-bounded resolver of an acyclic world is a fixed point, i.e. it
                         satisfies the consistency premise of the two theorems above;
* `innate_wins`, `temp_before_basins`, `internal_before_file`   lookup order of `__getitem__`;
* `map_reuse_sound`, `store_history_sound`   `store_basin` never points a definition at a
                         `basinmapK` feature with different content, for every history of calls;
* `F08_old_export_wrong` the code before the fix violated `export_composes` (witness).
-/
namespace DclabModel.C07
open DclabModel.Basin

/-! ## 1. proxy routes -/

/-- For a proxy whose map is valid for the basin (`o[map]` exists): (1) indexing the cached whole
array equals gathering event-wise through `map[index]`, for every index list (slices, boolean
masks, index arrays, repeated and permuted indices); (2) the cheap integer route returns the
element of the whole array, also for negative indices; (3) hence all three agree on integers. -/
theorem proxy_routes_agree (p : Proxy) (a : List Row) (h : p.getArr = some a) :
    (∀ idx, p.viaCache idx = p.viaNd idx) ∧
    (∀ i : Int, p.getInt i = (normIdx p.m.length i).bind fun k => a[k]?) ∧
    (∀ i : Int, (p.getInt i).map ([·]) = ((Index.int i).expand p.m.length).bind p.viaNd) := by
  have h1 : ∀ idx, p.viaCache idx = p.viaNd idx := by
    intro idx
    simp only [Proxy.viaCache, Proxy.viaNd, h, Option.bind_some]
    exact gather_gather h idx
  have h2 : ∀ i : Int, p.getInt i = (normIdx p.m.length i).bind fun k => a[k]? := by
    intro i
    simp only [Proxy.getInt]
    cases normIdx p.m.length i with
    | none => rfl
    | some k => simp only [Option.bind_some]; exact (gather_getElem? h k).symm
  refine ⟨h1, h2, ?_⟩
  intro i
  rw [h2 i]
  simp only [Index.expand]
  cases normIdx p.m.length i with
  | none => rfl
  | some k =>
    simp only [Option.bind_some, Option.map_some]
    rw [← h1 [k]]
    simp only [Proxy.viaCache, h, Option.bind_some]
    exact (gather_single a k).symm

/-- the index list of every index expression is handled alike by both array routes -/
theorem proxy_index_agree (p : Proxy) (a : List Row) (h : p.getArr = some a) (ix : Index) :
    (ix.expand p.m.length).bind p.viaCache = (ix.expand p.m.length).bind p.viaNd := by
  cases ix.expand p.m.length with
  | none => rfl
  | some idx => exact (proxy_routes_agree p a h).1 idx

/-- the mapped array has one row per referrer event -/
theorem proxy_length (p : Proxy) (a : List Row) (h : p.getArr = some a) : a.length = p.m.length :=
  gather_length h

example : (Proxy.mk [10, 11, 12] [2, 2, 0, 1]).getArr = some [12, 12, 10, 11] := by decide
example : (Proxy.mk [10, 11, 12] [2, 2, 0, 1]).getInt (-1) = some 11 := by decide
example : (Proxy.mk [10, 11, 12] [2, 2, 0, 1]).viaNd [3, 0] = some [11, 12] := by decide

/-! ## 2. export -/

/-- **export_composes.**  Let `sub` resolve nested files consistently at `loc`, let `ref` (stored
at `loc`) show `rows` for `f`, every basin of `ref` that delivers `f` delivering the same rows.
Then the file written by `export.hdf5(basins=True)` for the view `v` of `ref` (a hierarchy child
and/or a filter, or neither) shows exactly the view's rows for `f` — whether or not `f` was also
stored innately — and all its basin definitions are again coherent. -/
theorem export_composes (sub : Sub) (loc : Nat) (ref out : RFile) (f : Feat) (feats : List Feat)
    (v : View) (rows rows' : List Row)
    (hcons : sub loc f = resolve1 sub ref f)
    (hres : resolve1 sub ref f = some rows)
    (hcoh : ∀ b ∈ ref.basins, Coh sub b f rows)
    (hout : exportFile true sub loc ref feats v = some out)
    (hv : viewRows v rows = some rows') :
    resolve1 sub out f = some rows' ∧ ∀ b ∈ out.basins, Coh sub b f rows' := by
  unfold exportFile at hout
  cases hup : mapBasins true v (ref.basins.filter fun b => !isInternal b) with
  | none => simp [hup] at hout
  | some up =>
    cases hms : stepMap true v true none with
    | none => simp [hup, hms] at hout
    | some ms =>
      simp only [hup, hms, Option.some.injEq] at hout
      subst hout
      have hself : route sub { src := .file loc, feats := none, map := ms } f = some rows' := by
        have : route sub { src := .file loc, feats := none, map := ms } f
            = (sub loc f).bind (applyMap ms) := rfl
        rw [this, hcons, hres, Option.bind_some]
        exact applyMap_step (fixed := true) (isSelf := true) rfl (m := none) rfl hms hv
      have hb : ∀ b ∈ up ++ [{ src := .file loc, feats := none, map := ms }],
          Coh sub b f rows' := by
        intro b hb
        rcases List.mem_append.mp hb with hb | hb
        · obtain ⟨b0, hb0, m', hs, rfl⟩ := mapBasins_mem hup b hb
          exact Coh_step (hcoh b0 (List.mem_filter.mp hb0).1) hs hv
        · simp only [List.mem_singleton] at hb; subst hb; exact Or.inl hself
      refine ⟨?_, hb⟩
      unfold resolve1
      cases hi : lk f (innateOf sub ref v feats) with
      | some r =>
        have := lk_innateOf hi
        rw [hres, Option.bind_some, hv] at this
        exact this.symm
      | none =>
        apply firstSome_all
        · intro b hb'; exact route_of_Coh (hb b hb')
        · exact ⟨_, List.mem_append_right _ (List.mem_singleton_self _), hself⟩

/-- unfiltered export of the file itself: the export shows what the file shows -/
theorem export_unfiltered (sub : Sub) (loc : Nat) (ref out : RFile) (f : Feat) (feats : List Feat)
    (rows : List Row)
    (hcons : sub loc f = resolve1 sub ref f) (hres : resolve1 sub ref f = some rows)
    (hcoh : ∀ b ∈ ref.basins, Coh sub b f rows)
    (hout : exportFile true sub loc ref feats ⟨none, none⟩ = some out) :
    resolve1 sub out f = some rows :=
  (export_composes sub loc ref out f feats ⟨none, none⟩ rows rows hcons hres hcoh hout rfl).1

/-- filtered export of the file itself: `sel mask` of what the file shows -/
theorem export_filtered (sub : Sub) (loc : Nat) (ref out : RFile) (f : Feat) (feats : List Feat)
    (mask : List Bool) (rows : List Row) (hlen : mask.length = rows.length)
    (hcons : sub loc f = resolve1 sub ref f) (hres : resolve1 sub ref f = some rows)
    (hcoh : ∀ b ∈ ref.basins, Coh sub b f rows)
    (hout : exportFile true sub loc ref feats ⟨none, some mask⟩ = some out) :
    resolve1 sub out f = sel mask rows := by
  have hv : viewRows ⟨none, some mask⟩ rows = some (filt mask rows) := by
    simp [viewRows, sel, hlen]
  rw [(export_composes sub loc ref out f feats _ rows _ hcons hres hcoh hout hv).1]
  simp [sel, hlen]

/-! ## 3. chains of exports -/

theorem chain_rows {sub : Sub} {f : Feat} {rows0 : List Row} {loc : Nat} {file : RFile}
    {vs : List View} (hd : Derived sub f rows0 loc file vs) :
    ∀ r, chainRows rows0 vs = some r →
      resolve1 sub file f = some r ∧ (∀ b ∈ file.basins, Coh sub b f r) := by
  induction hd with
  | origin loc file hc hr hcoh =>
    intro r h
    simp only [chainRows, Option.some.injEq] at h
    subst h
    exact ⟨hr, hcoh⟩
  | step loc' out feats v hprev hexp hc ih =>
    rename_i loc ref vs
    intro r h
    rw [chainRows_append] at h
    cases h0 : chainRows rows0 vs with
    | none => simp [h0] at h
    | some r0 =>
      simp only [h0, Option.bind_some] at h
      obtain ⟨h1, h2⟩ := ih r0 h0
      have hcons : sub loc f = resolve1 sub ref f := by
        cases hprev with
        | origin _ _ hc' _ _ => exact hc'
        | step _ _ _ _ _ _ hc' => exact hc'
      exact export_composes sub loc ref out f feats v r0 r hcons h1 h2 hexp h

/-- **chain.**  For every chain of exports (any depth `k = views.length`, every step filtered or
not, from the file or from a hierarchy child, with any set of features stored innately) the last
file shows for `f` the origin's rows at the composed map. -/
theorem chain {sub : Sub} {f : Feat} {rows0 : List Row} {loc : Nat} {file : RFile}
    {vs : List View} (hd : Derived sub f rows0 loc file vs) (r : List Row)
    (hvalid : chainRows rows0 vs = some r) :
    resolve1 sub file f = some r ∧
    ∃ m, chainMap (List.range rows0.length) vs = some m ∧ gather rows0 m = some r :=
  ⟨(chain_rows hd r hvalid).1, chain_map vs (gather_range rows0) hvalid⟩

/-- In an acyclic world (every basin points to a location of smaller rank) the fuel-bounded
resolver with enough fuel is a fixed point of one-level resolution; it can therefore be used as
`sub` in `export_composes` and `chain` at every location of the world. -/
theorem viaBasin_consistent (w : Nat → Option RFile) (rank : Nat → Nat) (N : Nat)
    (hr : ∀ loc g, w loc = some g → ∀ b ∈ g.basins, ∀ l, b.src = .file l → rank l < rank loc)
    (hN : ∀ loc, rank loc < N) (loc : Nat) (g : RFile) (hw : w loc = some g) (f : Feat) :
    viaBasin w N loc f = resolve1 (viaBasin w N) g f := by
  rw [← viaBasin_stable w rank hr N loc (hN loc) f]
  show (w loc).bind (fun g => resolve1 (viaBasin w N) g f) = _
  rw [hw]; rfl

/-! ## 4. lookup order -/

theorem innate_wins (d : DSState) (f : Feat) (r : List Row) (h : lk f d.innate = some r) :
    getitem d f = some r := by
  simp only [getitem, h]

theorem temp_before_basins (d : DSState) (f : Feat) (r : List Row) (h0 : lk f d.innate = none)
    (h : lk f d.temp = some r) : getitem d f = some r := by
  simp only [getitem, h0, h]

theorem internal_before_file (d : DSState) (f : Feat) (r : List Row) (h0 : lk f d.innate = none)
    (h1 : lk f d.temp = none) (h2 : lk f d.ancCached = none)
    (h : basinData d (some .internal) f = some r) : getitem d f = some r := by
  simp only [getitem, h0, h1, h2, h]

/-- a feature stored in the exported file itself is what the reader gets -/
theorem innate_wins_file (sub : Sub) (file : RFile) (f : Feat) (r : List Row)
    (h : lk f file.innate = some r) : resolve1 sub file f = some r := by
  simp only [resolve1, h]

/-! ## 5. store_basin -/

/-- the allocation loop returns a name whose content is the requested map and never changes
an existing map feature -/
theorem map_reuse_sound (maps maps' : Maps) (m : List Nat) (k : Nat)
    (h : allocMap maps m = some (k, maps')) :
    lk k maps' = some m ∧ ∀ j c, lk j maps = some c → lk j maps' = some c :=
  allocFrom_sound h

/-- for every history of `store_basin` calls every stored definition reads back the map it was
stored with -/
theorem store_history_sound : ∀ (reqs : List (Nat × MapReq)) (s s' : SFile), Sound s →
    storeAll s reqs = some s' → Sound s'
  | [], s, s', hs, h => by simp only [storeAll, Option.some.injEq] at h; subst h; exact hs
  | (t, r) :: rest, s, s', hs, h => by
    simp only [storeAll] at h
    cases h1 : storeBasin s t r with
    | none => simp [h1] at h
    | some s1 =>
      simp only [h1, Option.bind_some] at h
      exact store_history_sound rest s1 s' (storeBasin_sound hs h1).1 h

theorem store_from_empty (maps : Maps) (reqs : List (Nat × MapReq)) (s' : SFile)
    (h : storeAll ⟨maps, []⟩ reqs = some s') : Sound s' :=
  store_history_sound reqs _ s' (fun d hd => by cases hd) h

example : (storeAll ⟨[], []⟩ [(0, .auto [1, 2]), (1, .auto [0, 2]), (2, .auto [1, 2]), (3, .same)]).map
    (fun s => s.defs.map (·.mapping)) = some [some 0, some 1, some 0, none] := by decide

/-! ## 6. F08: the export rule before the fix -/

def w08 : Nat → Option RFile
  | 0 => some { innate := [(0, [10, 11, 12, 13])], basins := [] }
  | 1 => some { innate := [], basins := [{ src := .file 0, feats := none, map := none }] }
  | _ => none

/-- Exporting the hierarchy child `{1, 3}` of file 1 (whose feature 0 comes from basin file 0):
the fixed rule yields the child's rows, the old rule handed out the root's first rows under the
"same" mapping (and rows in child coordinates for filtered exports). -/
theorem F08_old_export_wrong :
    ((exportFile true (viaBasin w08 3) 1 ⟨[], [⟨.file 0, none, none⟩]⟩ [] ⟨some [1, 3], none⟩).bind
      fun out => resolve1 (viaBasin w08 3) out 0) = some [11, 13] ∧
    ((exportFile false (viaBasin w08 3) 1 ⟨[], [⟨.file 0, none, none⟩]⟩ [] ⟨some [1, 3], none⟩).bind
      fun out => resolve1 (viaBasin w08 3) out 0) = some [10, 11, 12, 13] ∧
    ((exportFile false (viaBasin w08 3) 1 ⟨[], [⟨.file 0, none, none⟩]⟩ []
        ⟨some [1, 3], some [false, true]⟩).bind
      fun out => resolve1 (viaBasin w08 3) out 0) = some [11] ∧
    ((exportFile true (viaBasin w08 3) 1 ⟨[], [⟨.file 0, none, none⟩]⟩ []
        ⟨some [1, 3], some [false, true]⟩).bind
      fun out => resolve1 (viaBasin w08 3) out 0) = some [13] := by decide

end DclabModel.C07
