import DclabModel.Lemmas.Basin
import DclabModel.Lemmas.BasinDefs
/-!
# C07 — Basin-provided features equal the origin's data for the mapped events

* `proxy_routes_agree`   the three access routes of the mapping proxy (single integer, cached whole
                         array, event-wise nd route) return the same rows for every map
                         (repeated, permuted, subset, superset) and every index expression;
* `export_composes`      a feature read through the basins of an export of (a view of) `ref` is the
                         view of what `ref` shows — for filtered and unfiltered exports, from the
                         file and from a hierarchy child (fixed code, F08), with and without the
                         feature stored innately;  `export_unfiltered` is the identity case;
* `chain`                k-fold exports, any k: the feature of the last file is the origin's
                         feature at the composed map (induction over the chain);
* `viaBasin_consistent`  the fuel-bounded resolver of an acyclic world is a fixed point, i.e. it
                         satisfies the consistency premise of the two theorems above;
* `innate_wins`, `temp_before_basins`, `internal_before_file`   lookup order of `__getitem__`;
* `map_reuse_sound`, `store_history_sound`   `store_basin` never points a definition at a
                         `basinmapK` feature with different content, for every history of calls;
* `F08_old_export_wrong` the code before the fix violated `export_composes` (witness).
* session 4: `stream_history_sound`, `append_holds_written` (map features written chunk-wise),
  `export_defs_read_back`, `export_defs_read_back_from`, `shared_name_equal_maps` (definition
  records of an export; `_from`: map features already written by the feature loop),
  `first_offering_basin_wins`, `lookup_deterministic` (priority among basins),
  `invalid_map_rejected`, `nd_route_rejects_iff`, `int_route_rejects_iff` (out-of-range maps),
  `copy_selected_same`, `copy_unselected_via_file_basins`, `copy_never_other_data` (`rtdc_copy`
  with a feature selection / `basin_definition_copy`), `records_dedup`,
  `records_share_name_share_map` (identical definitions are written once).
-/
namespace DclabModel.C07
open DclabModel.Basin

/-! ## 1. proxy routes -/

/-- For a proxy whose map is valid for the basin (`o[map]` exists): (1) indexing the cached whole
array equals gathering event-wise through `map[index]`, for every index list (slices, boolean
masks, index arrays, repeated and permuted indices); (2) the cheap integer route returns the
element of the whole array, also for negative indices; (3) hence all three agree on integers. -/
theorem proxy_routes_agree (p : Proxy) (a : List Row) (h : p.getArr = some a) :
    (∀ idx, p.viaCache idx = p.viaNd idx) ∧
    (∀ i : Int, p.getInt i = (normIdx p.m.length i).bind fun k => a[k]?) ∧
    (∀ i : Int, (p.getInt i).map ([·]) = ((Index.int i).expand p.m.length).bind p.viaNd) := by
  have h1 : ∀ idx, p.viaCache idx = p.viaNd idx := by
    intro idx
    simp only [Proxy.viaCache, Proxy.viaNd, h, Option.bind_some]
    exact gather_gather h idx
  have h2 : ∀ i : Int, p.getInt i = (normIdx p.m.length i).bind fun k => a[k]? := by
    intro i
    simp only [Proxy.getInt]
    cases normIdx p.m.length i with
    | none => rfl
    | some k => simp only [Option.bind_some]; exact (gather_getElem? h k).symm
  refine ⟨h1, h2, ?_⟩
  intro i
  rw [h2 i]
  simp only [Index.expand]
  cases normIdx p.m.length i with
  | none => rfl
  | some k =>
    simp only [Option.bind_some, Option.map_some]
    rw [← h1 [k]]
    simp only [Proxy.viaCache, h, Option.bind_some]
    exact (gather_single a k).symm

/-- the index list of every index expression is handled alike by both array routes -/
theorem proxy_index_agree (p : Proxy) (a : List Row) (h : p.getArr = some a) (ix : Index) :
    (ix.expand p.m.length).bind p.viaCache = (ix.expand p.m.length).bind p.viaNd := by
  cases ix.expand p.m.length with
  | none => rfl
  | some idx => exact (proxy_routes_agree p a h).1 idx

/-- the mapped array has one row per referrer event -/
theorem proxy_length (p : Proxy) (a : List Row) (h : p.getArr = some a) : a.length = p.m.length :=
  gather_length h

example : (Proxy.mk [10, 11, 12] [2, 2, 0, 1]).getArr = some [12, 12, 10, 11] := by decide
example : (Proxy.mk [10, 11, 12] [2, 2, 0, 1]).getInt (-1) = some 11 := by decide
example : (Proxy.mk [10, 11, 12] [2, 2, 0, 1]).viaNd [3, 0] = some [11, 12] := by decide

/-! ## 2. export -/

/-- **export_composes.**  Let `sub` resolve nested files consistently at `loc`, let `ref` (stored
at `loc`) show `rows` for `f`, every basin of `ref` that delivers `f` delivering the same rows.
Then the file written by `export.hdf5(basins=True)` for the view `v` of `ref` (a hierarchy child
and/or a filter, or neither) shows exactly the view's rows for `f` — whether or not `f` was also
stored innately — and all its basin definitions are again coherent. -/
theorem export_composes (sub : Sub) (loc : Nat) (ref out : RFile) (f : Feat) (feats : List Feat)
    (v : View) (rows rows' : List Row)
    (hcons : sub loc f = resolve1 sub ref f)
    (hres : resolve1 sub ref f = some rows)
    (hcoh : ∀ b ∈ ref.basins, Coh sub b f rows)
    (hout : exportFile true sub loc ref feats v = some out)
    (hv : viewRows v rows = some rows') :
    resolve1 sub out f = some rows' ∧ ∀ b ∈ out.basins, Coh sub b f rows' := by
  unfold exportFile at hout
  cases hup : mapBasins true v (ref.basins.filter fun b => !isInternal b) with
  | none => simp [hup] at hout
  | some up =>
    cases hms : stepMap true v true none with
    | none => simp [hup, hms] at hout
    | some ms =>
      simp only [hup, hms, Option.some.injEq] at hout
      subst hout
      have hself : route sub { src := .file loc, feats := none, map := ms } f = some rows' := by
        have : route sub { src := .file loc, feats := none, map := ms } f
            = (sub loc f).bind (applyMap ms) := rfl
        rw [this, hcons, hres, Option.bind_some]
        exact applyMap_step (fixed := true) (isSelf := true) rfl (m := none) rfl hms hv
      have hb : ∀ b ∈ up ++ [{ src := .file loc, feats := none, map := ms }],
          Coh sub b f rows' := by
        intro b hb
        rcases List.mem_append.mp hb with hb | hb
        · obtain ⟨b0, hb0, m', hs, rfl⟩ := mapBasins_mem hup b hb
          exact Coh_step (hcoh b0 (List.mem_filter.mp hb0).1) hs hv
        · simp only [List.mem_singleton] at hb; subst hb; exact Or.inl hself
      refine ⟨?_, hb⟩
      unfold resolve1
      cases hi : lk f (innateOf sub ref v feats) with
      | some r =>
        have := lk_innateOf hi
        rw [hres, Option.bind_some, hv] at this
        exact this.symm
      | none =>
        apply firstSome_all
        · intro b hb'; exact route_of_Coh (hb b hb')
        · exact ⟨_, List.mem_append_right _ (List.mem_singleton_self _), hself⟩

/-- unfiltered export of the file itself: the export shows what the file shows -/
theorem export_unfiltered (sub : Sub) (loc : Nat) (ref out : RFile) (f : Feat) (feats : List Feat)
    (rows : List Row)
    (hcons : sub loc f = resolve1 sub ref f) (hres : resolve1 sub ref f = some rows)
    (hcoh : ∀ b ∈ ref.basins, Coh sub b f rows)
    (hout : exportFile true sub loc ref feats ⟨none, none⟩ = some out) :
    resolve1 sub out f = some rows :=
  (export_composes sub loc ref out f feats ⟨none, none⟩ rows rows hcons hres hcoh hout rfl).1

/-- filtered export of the file itself: `sel mask` of what the file shows -/
theorem export_filtered (sub : Sub) (loc : Nat) (ref out : RFile) (f : Feat) (feats : List Feat)
    (mask : List Bool) (rows : List Row) (hlen : mask.length = rows.length)
    (hcons : sub loc f = resolve1 sub ref f) (hres : resolve1 sub ref f = some rows)
    (hcoh : ∀ b ∈ ref.basins, Coh sub b f rows)
    (hout : exportFile true sub loc ref feats ⟨none, some mask⟩ = some out) :
    resolve1 sub out f = sel mask rows := by
  have hv : viewRows ⟨none, some mask⟩ rows = some (filt mask rows) := by
    simp [viewRows, sel, hlen]
  rw [(export_composes sub loc ref out f feats _ rows _ hcons hres hcoh hout hv).1]
  simp [sel, hlen]

/-! ## 3. chains of exports -/

theorem chain_rows {sub : Sub} {f : Feat} {rows0 : List Row} {loc : Nat} {file : RFile}
    {vs : List View} (hd : Derived sub f rows0 loc file vs) :
    ∀ r, chainRows rows0 vs = some r →
      resolve1 sub file f = some r ∧ (∀ b ∈ file.basins, Coh sub b f r) := by
  induction hd with
  | origin loc file hc hr hcoh =>
    intro r h
    simp only [chainRows, Option.some.injEq] at h
    subst h
    exact ⟨hr, hcoh⟩
  | step loc' out feats v hprev hexp hc ih =>
    rename_i loc ref vs
    intro r h
    rw [chainRows_append] at h
    cases h0 : chainRows rows0 vs with
    | none => simp [h0] at h
    | some r0 =>
      simp only [h0, Option.bind_some] at h
      obtain ⟨h1, h2⟩ := ih r0 h0
      have hcons : sub loc f = resolve1 sub ref f := by
        cases hprev with
        | origin _ _ hc' _ _ => exact hc'
        | step _ _ _ _ _ _ hc' => exact hc'
      exact export_composes sub loc ref out f feats v r0 r hcons h1 h2 hexp h

/-- **chain.**  For every chain of exports (any depth `k = views.length`, every step filtered or
not, from the file or from a hierarchy child, with any set of features stored innately) the last
file shows for `f` the origin's rows at the composed map. -/
theorem chain {sub : Sub} {f : Feat} {rows0 : List Row} {loc : Nat} {file : RFile}
    {vs : List View} (hd : Derived sub f rows0 loc file vs) (r : List Row)
    (hvalid : chainRows rows0 vs = some r) :
    resolve1 sub file f = some r ∧
    ∃ m, chainMap (List.range rows0.length) vs = some m ∧ gather rows0 m = some r :=
  ⟨(chain_rows hd r hvalid).1, chain_map vs (gather_range rows0) hvalid⟩

/-- In an acyclic world (every basin points to a location of smaller rank) the fuel-bounded
resolver with enough fuel is a fixed point of one-level resolution; it can therefore be used as
`sub` in `export_composes` and `chain` at every location of the world. -/
theorem viaBasin_consistent (w : Nat → Option RFile) (rank : Nat → Nat) (N : Nat)
    (hr : ∀ loc g, w loc = some g → ∀ b ∈ g.basins, ∀ l, b.src = .file l → rank l < rank loc)
    (hN : ∀ loc, rank loc < N) (loc : Nat) (g : RFile) (hw : w loc = some g) (f : Feat) :
    viaBasin w N loc f = resolve1 (viaBasin w N) g f := by
  rw [← viaBasin_stable w rank hr N loc (hN loc) f]
  show (w loc).bind (fun g => resolve1 (viaBasin w N) g f) = _
  rw [hw]; rfl

/-! ## 4. lookup order -/

theorem innate_wins (d : DSState) (f : Feat) (r : List Row) (h : lk f d.innate = some r) :
    getitem d f = some r := by
  simp only [getitem, h]

theorem temp_before_basins (d : DSState) (f : Feat) (r : List Row) (h0 : lk f d.innate = none)
    (h : lk f d.temp = some r) : getitem d f = some r := by
  simp only [getitem, h0, h]

theorem internal_before_file (d : DSState) (f : Feat) (r : List Row) (h0 : lk f d.innate = none)
    (h1 : lk f d.temp = none) (h2 : lk f d.ancCached = none)
    (h : basinData d (some .internal) f = some r) : getitem d f = some r := by
  simp only [getitem, h0, h1, h2, h]

/-- a feature stored in the exported file itself is what the reader gets -/
theorem innate_wins_file (sub : Sub) (file : RFile) (f : Feat) (r : List Row)
    (h : lk f file.innate = some r) : resolve1 sub file f = some r := by
  simp only [resolve1, h]

/-! ## 5. store_basin -/

/-- the allocation loop returns a name whose content is the requested map and never changes
an existing map feature -/
theorem map_reuse_sound (maps maps' : Maps) (m : List Nat) (k : Nat)
    (h : allocMap maps m = some (k, maps')) :
    lk k maps' = some m ∧ ∀ j c, lk j maps = some c → lk j maps' = some c :=
  allocFrom_sound h

/-- for every history of `store_basin` calls every stored definition reads back the map it was
stored with -/
theorem store_history_sound : ∀ (reqs : List (Nat × MapReq)) (s s' : SFile), Sound s →
    storeAll s reqs = some s' → Sound s'
  | [], s, s', hs, h => by simp only [storeAll, Option.some.injEq] at h; subst h; exact hs
  | (t, r) :: rest, s, s', hs, h => by
    simp only [storeAll] at h
    cases h1 : storeBasin s t r with
    | none => simp [h1] at h
    | some s1 =>
      simp only [h1, Option.bind_some] at h
      exact store_history_sound rest s1 s' (storeBasin_sound hs h1).1 h

theorem store_from_empty (maps : Maps) (reqs : List (Nat × MapReq)) (s' : SFile)
    (h : storeAll ⟨maps, []⟩ reqs = some s') : Sound s' :=
  store_history_sound reqs _ s' (fun d hd => by cases hd) h

example : (storeAll ⟨[], []⟩ [(0, .auto [1, 2]), (1, .auto [0, 2]), (2, .auto [1, 2]), (3, .same)]).map
    (fun s => s.defs.map (·.mapping)) = some [some 0, some 1, some 0, none] := by decide

/-! ## 6. F08: the export rule before the fix -/

def w08 : Nat → Option RFile
  | 0 => some { innate := [(0, [10, 11, 12, 13])], basins := [] }
  | 1 => some { innate := [], basins := [{ src := .file 0, feats := none, map := none }] }
  | _ => none

/-- Exporting the hierarchy child `{1, 3}` of file 1 (whose feature 0 comes from basin file 0):
the fixed rule yields the child's rows, the old rule handed out the root's first rows under the
"same" mapping (and rows in child coordinates for filtered exports). -/
theorem F08_old_export_wrong :
    ((exportFile true (viaBasin w08 3) 1 ⟨[], [⟨.file 0, none, none⟩]⟩ [] ⟨some [1, 3], none⟩).bind
      fun out => resolve1 (viaBasin w08 3) out 0) = some [11, 13] ∧
    ((exportFile false (viaBasin w08 3) 1 ⟨[], [⟨.file 0, none, none⟩]⟩ [] ⟨some [1, 3], none⟩).bind
      fun out => resolve1 (viaBasin w08 3) out 0) = some [10, 11, 12, 13] ∧
    ((exportFile false (viaBasin w08 3) 1 ⟨[], [⟨.file 0, none, none⟩]⟩ []
        ⟨some [1, 3], some [false, true]⟩).bind
      fun out => resolve1 (viaBasin w08 3) out 0) = some [11] ∧
    ((exportFile true (viaBasin w08 3) 1 ⟨[], [⟨.file 0, none, none⟩]⟩ []
        ⟨some [1, 3], some [false, true]⟩).bind
      fun out => resolve1 (viaBasin w08 3) out 0) = some [13] := by decide

/-! ## 7. session 4: streamed map features, definition records, priority, invalid maps -/

/-- `store_feature("basinmapK", chunk)` on an existing map feature: afterwards the feature holds
the old content followed by the chunk (a missing feature is created with the chunk); every other
map feature is untouched. -/
theorem append_holds_written (maps : Maps) (k : Nat) (c : List Nat) :
    lk k (appendOne maps k c) = some ((lk k maps).getD [] ++ c) ∧
    ∀ j, j ≠ k → lk j (appendOne maps k c) = lk j maps :=
  ⟨lk_appendOne_same maps k c, fun _ hj => lk_appendOne_other maps c hj⟩

/-- For every history of writer calls — `store_basin` with automatic or explicit map names
(refused calls leave the file unchanged) interleaved with rounds of appended map chunks — every
definition of the file reads back exactly what was written for it: the map it was stored with
followed by all chunks appended to the feature it names. -/
theorem stream_history_sound (maps : Maps) (ops : List WOp) :
    Sound (runOps ⟨maps, []⟩ ops) :=
  runOps_sound ops (fun d hd => by cases hd)

example : (runOps ⟨[], []⟩ [.store 0 (.auto [1, 2]), .append [(0, [300])], .store 1 (.auto [1, 2, 300]),
      .store 2 (.auto [1, 2, 7]), .append [(0, [4]), (1, [5])]]).maps
    = [(0, [1, 2, 300, 4]), (1, [1, 2, 7, 5])] := by decide

/-- Two definitions of a soundly written file that share a mapping name have equal maps. -/
theorem shared_name_equal_maps {s : SFile} (hs : Sound s) {d1 d2 : SDef}
    (h1 : d1 ∈ s.defs) (h2 : d2 ∈ s.defs) (hm : d1.mapping = d2.mapping) :
    d1.intended = d2.intended := by
  have e1 := hs d1 h1
  have e2 := hs d2 h2
  unfold SFile.mapOf at e1 e2
  rw [hm] at e1
  rw [e1] at e2
  exact Option.some.inj e2

/-- The bookkeeping of an exported file (`exportStore`: the `store_basin` calls of
`Export.hdf5` on the fresh file, names `basinmap0..9` allocated / reused): the i-th definition
record reads back — through its mapping *name* — exactly the composed map that `exportFile`
computed for the i-th basin, and no two records share a name unless their maps are equal.
Together with `export_composes` / `chain` (which speak about map contents) this covers the
written file for every chain of exports. -/
theorem export_defs_read_back (out : RFile) (s : SFile) (h : exportStore out = some s) :
    Sound s ∧ s.defs.map (·.intended) = out.basins.map (·.map) ∧
    (∀ d1 ∈ s.defs, ∀ d2 ∈ s.defs, d1.mapping = d2.mapping → d1.intended = d2.intended) := by
  have hs : Sound s := store_from_empty [] _ s h
  refine ⟨hs, ?_, fun d1 h1 d2 h2 hm => shared_name_equal_maps hs h1 h2 hm⟩
  have := storeAll_intended (defReqsFrom 0 out.basins) (s := ⟨[], []⟩) (fun d hd => by cases hd) h
  simpa [defReqsFrom_content] using this

example : (exportStore ⟨[], [⟨.file 0, none, some [1, 3]⟩, ⟨.file 1, none, some [0, 1]⟩,
      ⟨.file 2, none, some [1, 3]⟩, ⟨.file 3, none, none⟩]⟩).map (fun s => s.defs.map (·.mapping))
    = some [some 0, some 1, some 0, none] := by decide

/-- The same for an export whose feature list names `basinmapN` features of the exported dataset
(the default list of a referrer does; depth ≥ 2 of an export chain): the feature loop has written
the map features `pre` before the `store_basin` calls.  For *every* `pre` the i-th record reads
back the i-th composed map, shared names mean equal maps, and no written map feature is changed
(in particular it keeps its length: nothing is appended to it). -/
theorem export_defs_read_back_from (pre : Maps) (out : RFile) (s : SFile)
    (h : exportStoreFrom pre out = some s) :
    Sound s ∧ s.defs.map (·.intended) = out.basins.map (·.map) ∧
    (∀ d1 ∈ s.defs, ∀ d2 ∈ s.defs, d1.mapping = d2.mapping → d1.intended = d2.intended) ∧
    (∀ j c, lk j pre = some c → lk j s.maps = some c) := by
  have hs : Sound s := store_from_empty pre _ s h
  have h0 : Sound (⟨pre, []⟩ : SFile) := fun d hd => by cases hd
  refine ⟨hs, ?_, fun d1 h1 d2 h2 hm => shared_name_equal_maps hs h1 h2 hm,
    storeAll_maps_kept _ h0 h⟩
  have := storeAll_intended (defReqsFrom 0 out.basins) (s := ⟨pre, []⟩) h0 h
  simpa [defReqsFrom_content] using this

/-- the upstream map exported under its old name is reused, the self reference gets the next
free name; a written feature with other content is skipped -/
example : (exportStoreFrom [(0, [4, 6]), (1, [9, 9])] ⟨[], [⟨.file 0, none, some [4, 6]⟩,
      ⟨.file 1, none, some [0, 2]⟩, ⟨.file 2, none, none⟩]⟩).map
      (fun s => (s.defs.map (·.mapping), s.maps))
    = some ([some 0, some 2, none], [(0, [4, 6]), (1, [9, 9]), (2, [0, 2])]) := by decide

/-- Priority among basins: for a feature that is not stored in the file, the value is the one
delivered by the *first* basin (in the order of `ds.basins`) whose route succeeds — every earlier
basin failed, later basins are not consulted. -/
theorem first_offering_basin_wins (sub : Sub) (file : RFile) (f : Feat) (pre post : List RBasin)
    (b : RBasin) (rows : List Row) (hi : lk f file.innate = none)
    (hb : file.basins = pre ++ b :: post) (hpre : ∀ p ∈ pre, route sub p f = none)
    (hr : route sub b f = some rows) : resolve1 sub file f = some rows := by
  unfold resolve1
  simp only [hi, hb]
  clear hb hi
  induction pre with
  | nil => simp [firstSome, hr]
  | cons p t ih =>
    have hp : route sub p f = none := hpre p (List.mem_cons_self ..)
    simp only [List.cons_append, firstSome, hp]
    exact ih (fun q hq => hpre q (List.mem_cons_of_mem _ hq))

/-- Determinism: the lookup is a function of the file's content and the resolver — later basins
cannot change an answer given by the stored features or by an earlier basin. -/
theorem lookup_deterministic (sub : Sub) (file : RFile) (f : Feat) (extra : List RBasin)
    (rows : List Row) (h : resolve1 sub file f = some rows) :
    resolve1 sub { file with basins := file.basins ++ extra } f = some rows := by
  unfold resolve1 at h ⊢
  cases hi : lk f file.innate with
  | some r => simpa [hi] using h
  | none =>
    simp only [hi] at h ⊢
    generalize file.basins = bs at h
    induction bs with
    | nil => simp [firstSome] at h
    | cons p t ih =>
      simp only [List.cons_append, firstSome] at h ⊢
      cases hp : route sub p f with
      | some r => simpa [hp] using h
      | none => simp only [hp] at h ⊢; exact ih h

/-- A map with an index outside the basin (`map[j] ≥ len(basin)`): the whole-array route (cached
`feat_obj[:][basinmap]`, used by `[:]`, `np.asarray`, slices and masks of scalar features)
raises for *every* index expression — the file cannot be read through this basin. -/
theorem invalid_map_rejected (p : Proxy) (hbad : ∃ j ∈ p.m, p.o.length ≤ j) :
    p.getArr = none ∧ ∀ idx, p.viaCache idx = none := by
  have h : p.getArr = none := gather_eq_none_iff.mpr hbad
  exact ⟨h, fun idx => by simp [Proxy.viaCache, h]⟩

/-- The event-wise (nd) route raises exactly when the index expression is itself out of range
for the map or one of the map entries it *touches* is outside the basin. -/
theorem nd_route_rejects_iff (p : Proxy) (idx : List Nat) :
    p.viaNd idx = none ↔
      (∃ i ∈ idx, p.m.length ≤ i) ∨ ∃ js, gather p.m idx = some js ∧ ∃ j ∈ js, p.o.length ≤ j := by
  unfold Proxy.viaNd
  cases hg : gather p.m idx with
  | none =>
    simp only [Option.bind_none, true_iff]
    exact Or.inl (gather_eq_none_iff.mp hg)
  | some js =>
    simp only [Option.bind_some, Option.some.injEq, exists_eq_left']
    constructor
    · intro h; exact Or.inr (gather_eq_none_iff.mp h)
    · intro h
      rcases h with h | h
      · rw [gather_eq_none_iff.mpr h] at hg; cases hg
      · exact gather_eq_none_iff.mpr h

/-- The integer route raises exactly when the integer is out of range for the map or the one
entry it reads is outside the basin (so it can succeed on a map that `[:]` rejects). -/
theorem int_route_rejects_iff (p : Proxy) (i : Int) :
    p.getInt i = none ↔
      normIdx p.m.length i = none ∨
      ∃ k, normIdx p.m.length i = some k ∧ ∀ j, p.m[k]? = some j → p.o.length ≤ j := by
  unfold Proxy.getInt
  cases hn : normIdx p.m.length i with
  | none => simp
  | some k =>
    cases hm : p.m[k]? with
    | none =>
      simp only [Option.bind_some, hm, Option.bind_none, true_iff]
      exact Or.inr ⟨k, rfl, fun j h => by rw [hm] at h; cases h⟩
    | some j =>
      simp only [Option.bind_some, hm]
      constructor
      · intro h
        refine Or.inr ⟨k, rfl, fun j' hj' => ?_⟩
        rw [hm] at hj'
        cases hj'
        rcases Nat.lt_or_ge j p.o.length with hlt | hge
        · simp [List.getElem?_eq_getElem hlt] at h
        · exact hge
      · intro h
        rcases h with h | ⟨k', hk', h⟩
        · cases h
        · cases hk'
          exact List.getElem?_eq_none (h j hm)

example : (Proxy.mk [10, 11, 12] [0, 5, 2]).getInt 0 = some 10 ∧
    (Proxy.mk [10, 11, 12] [0, 5, 2]).getInt 1 = none ∧
    (Proxy.mk [10, 11, 12] [0, 5, 2]).viaCache [0] = none ∧
    (Proxy.mk [10, 11, 12] [0, 5, 2]).viaNd [0, 2] = some [10, 12] := by decide

/-! ## 8. copies (`rtdc_copy` with a feature selection, `basin_definition_copy`) -/

/-- A feature that is in the selection of the copy is shown by the copy exactly as by the source
(stored rows, internal-basin rows and basin routes alike): definitions that are not written or
are rewritten make no difference for it. -/
theorem copy_selected_same (sub : Sub) (src : RFile) (sel : Feat → Bool) (f : Feat)
    (hf : sel f = true) : resolve1 sub (copyFile src sel) f = resolve1 sub src f := by
  simp only [resolve1, copyFile, lk_filter_sel hf, firstSome_copy_sel hf]

/-- A feature outside the selection is shown by the copy through the *file* basins of the source
only, in their order: neither the stored rows nor an internal basin of the source can leak into
the copy. -/
theorem copy_unselected_via_file_basins (sub : Sub) (src : RFile) (sel : Feat → Bool) (f : Feat)
    (hf : sel f = false) :
    resolve1 sub (copyFile src sel) f =
      firstSome (fun b => route sub b f) (src.basins.filter fun b => !isInternal b) := by
  simp only [resolve1, copyFile, lk_filter_unsel hf, firstSome_copy_unsel hf]

/-- Hence, for a source whose basins are coherent with the rows it shows for `f`, every copy
(any selection) shows these rows or does not offer `f` — never other data. -/
theorem copy_never_other_data (sub : Sub) (src : RFile) (sel : Feat → Bool) (f : Feat)
    (rows : List Row) (hsrc : resolve1 sub src f = some rows)
    (hcoh : ∀ b ∈ src.basins, Coh sub b f rows) :
    resolve1 sub (copyFile src sel) f = some rows ∨ resolve1 sub (copyFile src sel) f = none := by
  cases hf : sel f with
  | true => exact Or.inl ((copy_selected_same sub src sel f hf).trans hsrc)
  | false =>
    rw [copy_unselected_via_file_basins sub src sel f hf]
    exact firstSome_Coh _ fun b hb => hcoh b (List.mem_filter.mp hb).1

example : (copyFile ⟨[(0, [1, 2])], [⟨.internal [(1, [7, 8]), (2, [5, 6])], some [1, 2], some [0, 0]⟩,
      ⟨.file 9, none, none⟩]⟩ (fun f => f == 2)).basins.map (·.feats) = [some [2], none] := by decide

/-! ## 9. definition records are written once -/

/-- For every list of stored definitions: the `basins` group holds no record twice, every stored
definition has its record, and every record belongs to a stored definition — storing an
identical definition again (same text, same mapping name) does not add a record. -/
theorem records_dedup (s : SFile) :
    s.records.Nodup ∧ (∀ d ∈ s.defs, d.key ∈ s.records) ∧
    (∀ r ∈ s.records, ∃ d ∈ s.defs, r = d.key) := by
  obtain ⟨h1, h2⟩ := recsFrom_spec s.defs [] List.nodup_nil
  refine ⟨h1, fun d hd => (h2 d.key).mpr (Or.inr ⟨d, hd, rfl⟩), fun r hr => ?_⟩
  rcases (h2 r).mp hr with h | h
  · cases h
  · exact h

/-- Records that carry a mapping name read back one map per name: two records of a soundly
written file with the same mapping name stand for definitions with equal maps. -/
theorem records_share_name_share_map {s : SFile} (hs : Sound s) {d1 d2 : SDef}
    (h1 : d1 ∈ s.defs) (h2 : d2 ∈ s.defs) (hk : d1.key.2 = d2.key.2) :
    d1.intended = d2.intended :=
  shared_name_equal_maps hs h1 h2 hk

example : (runOps ⟨[], []⟩ [.store 0 (.auto [1, 2]), .store 0 (.auto [1, 2]), .store 1 (.auto [1, 2]),
      .store 0 (.auto [2, 2]), .store 0 .same, .store 0 .same]).records
    = [(0, some 0), (1, some 0), (0, some 1), (0, none)] := by decide

end DclabModel.C07
