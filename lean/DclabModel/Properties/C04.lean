import DclabModel.Lemmas.Hier
/-!
# C04 — A hierarchy child is exactly the filtered view of its parent

Model: `DclabModel/Model/Hier.lean` (chains `[L_d, …, L_1, L_0]`, youngest first).

1. Map algebra of `mapper.py`, for arbitrary masks and any depth:
   `parent2child_child2parent`, `child2parent_parent2child`, `child2root_is_composition`,
   `root2child_child2root`, `child2parent_order`, `parent2child_order`,
   `child2root_reads_root_ids`, `root2child_finds_positions`, `nd_feature_is_selection`.
2. `view_after_rejuvenate` (+ `view_after_applyFilter`, `synced_after_history`): after a refresh
   from the youngest member every member is `sel (all parent) (events parent)` and has
   `count (all parent)` events — every history, any depth, both comparison rules.
3. `manual_attached_to_events`: with the repaired `parent_changed`, in every history and at every
   member, the root ids excluded by the user (and not re-included) that are visible are excluded,
   and only root ids the user ever excluded are excluded (O1: upper bound is `Ever`).
   `stale_manual_witness`: with the comparison used before F04 the statement is false.
4. `filter_fresh_after_rejuvenate`: after a refresh every `filter.all` is the configured ranges
   on the member's *current* events and `manual` (`stale_box_witness` for the old rule).
5. `intermediate_refresh_witness` (open finding F32): a refresh of an intermediate member, which
   is not part of the histories of 2–4, can lose a pending manual exclusion of a deeper member.
-/
namespace DclabModel.C04
open DclabModel.Hier

/-! ## 1. index maps -/

/-- `map_indices_parent2child ∘ map_indices_child2parent = id` on child index arrays
(strictly increasing, in range) -/
theorem parent2child_child2parent (pf : List Bool) (I : List Nat) (hI : I.Pairwise (· < ·))
    (hr : ∀ i ∈ I, i < cnt pf) : p2c pf (c2p pf I) = I := p2c_c2p pf I hI hr

/-- `map_indices_child2parent ∘ map_indices_parent2child` keeps exactly the selected parent
indices that were asked for, in order (`J ∩ selected`) -/
theorem child2parent_parent2child (pf : List Bool) (J : List Nat) :
    c2p pf (p2c pf J) = (whereIdx pf).filter (fun q => J.contains q) := c2p_p2c pf J

theorem mem_child2parent_parent2child (pf : List Bool) (J : List Nat) (q : Nat) :
    q ∈ c2p pf (p2c pf J) ↔ q ∈ J ∧ pf.getD q false = true := by
  rw [c2p_p2c, List.mem_filter, mem_whereIdx, List.contains_iff_mem, and_comm]

/-- `map_indices_child2root` is the composition of the `child2parent` maps up the chain -/
theorem child2root_is_composition (alls : List (List Bool)) (I : List Nat) :
    c2root alls I = alls.foldl (fun J pf => c2p pf J) I := by
  induction alls generalizing I with
  | nil => rfl
  | cons pf rest ih => simp only [c2root, List.foldl_cons, ih]

/-- `map_indices_root2child ∘ map_indices_child2root = id`, any depth -/
theorem root2child_child2root {n : Nat} (alls : List (List Bool)) (I : List Nat) (h : WF n alls)
    (hI : I.Pairwise (· < ·)) (hr : ∀ i ∈ I, i < (idsOf n alls).length) :
    r2c alls (c2root alls I) = I := r2c_c2root alls I h hI hr

theorem child2parent_order {pf : List Bool} {I : List Nat} (hI : I.Pairwise (· < ·))
    (hr : ∀ i ∈ I, i < cnt pf) : (c2p pf I).Pairwise (· < ·) := c2p_pairwise hI hr

theorem parent2child_order (pf : List Bool) (J : List Nat) : (p2c pf J).Pairwise (· < ·) :=
  p2c_pairwise pf J

/-- `map_indices_child2root` returns the root index of every asked child event, any depth -/
theorem child2root_reads_root_ids {n : Nat} (alls : List (List Bool)) (I : List Nat)
    (h : WF n alls) (hr : ∀ i ∈ I, i < (idsOf n alls).length) :
    c2root alls I = I.map (fun i => (idsOf n alls).getD i 0) := c2root_eq alls I h hr

/-- `map_indices_root2child` returns the positions of the asked root events in the child -/
theorem root2child_finds_positions {n : Nat} (alls : List (List Bool)) (R : List Nat)
    (hne : alls ≠ []) (h : WF n alls) :
    r2c alls R = whereIdx ((idsOf n alls).map (fun r => R.contains r)) := r2c_eq alls R hne h

/-- n-d features (image, mask, contour, trace) are read through `child2parent` on the fly:
this is the same as boolean selection with the parent's `filter.all` -/
theorem nd_feature_is_selection {α : Type} (d : α) (pf : List Bool) (xs : List α) (I : List Nat)
    (h : xs.length = pf.length) (hI : ∀ i ∈ I, i < cnt pf) :
    (c2p pf I).map (fun q => xs.getD q d) = I.map (fun i => (sel pf xs).getD i d) :=
  c2p_eq_sel d pf xs I h hI

/-! ## 2. the view -/

/-- every member is the selection of its parent's events by the parent's `filter.all` -/
def ViewOK : List Level → Prop
  | [] => True
  | [_] => True
  | c :: p :: rest => c.ev = sel p.all p.ev ∧ c.len = cnt p.all ∧ ViewOK (p :: rest)

theorem refresh_view (fixed : Bool) (D : Data) (c : Level) (ps : List Level) :
    (refresh fixed D c ps).ev = sel (headAll ps) (headEv ps) ∧
      (refresh fixed D c ps).len = cnt (headAll ps) := by
  simp only [refresh]
  split <;> exact ⟨rfl, rfl⟩

/-- whatever the state before: after `apply_filter` of the youngest member the whole chain is a
chain of views (both comparison rules; induction over the depth) -/
theorem view_after_applyFilter (fixed : Bool) (D : Data) :
    ∀ s : List Level, ViewOK (applyFilter fixed D s)
  | [] => trivial
  | [r] => trivial
  | c :: p :: rest => by
    have ih := view_after_applyFilter fixed D (p :: rest)
    simp only [applyFilter]
    cases hq : applyFilter fixed D (p :: rest) with
    | nil => trivial
    | cons q qs =>
      rw [hq] at ih
      exact ⟨(refresh_view fixed D _ (q :: qs)).1, (refresh_view fixed D _ (q :: qs)).2, ih⟩

theorem view_after_rejuvenate (fixed : Bool) (D : Data) (d : Nat) (h : List Op) :
    ViewOK (run fixed D (initChain fixed D d) (h ++ [Op.rejuv])) := by
  simp only [run, List.foldl_append, List.foldl_cons, List.foldl_nil, step]
  exact view_after_applyFilter fixed D _

/-! ### the history invariant (repaired comparison) -/

def Inv (D : Data) (s : List Level) : Prop := s ≠ [] ∧ Synced true D s ∧ ∀ c ∈ s, LI D c

theorem modAt_ne_nil (k : Nat) (f : Level → Level) : ∀ s, s ≠ [] → modAt k f s ≠ []
  | [], h => absurd rfl h
  | c :: s, _ => by cases k <;> simp [modAt]

theorem inv_step (D : Data) (s : List Level) (op : Op) (h : Inv D s) : Inv D (step true D s op) := by
  obtain ⟨hne, hs, hl⟩ := h
  cases op with
  | setRange k f lo hi =>
    refine ⟨modAt_ne_nil _ _ _ hne,
      synced_modAt (fun c => { c with cfg := c.cfg.set f (some (lo, hi)) })
        (fun c => ⟨rfl, rfl, rfl, rfl, rfl⟩) k s hs, ?_⟩
    apply forall_modAt (fun c => { c with cfg := c.cfg.set f (some (lo, hi)) }) k s hl
    intro c _ hc
    obtain ⟨g2, g4, hb1, hb2⟩ := hc
    exact ⟨g2, g4, by simpa using hb1, fun f hf => hb2 f (by simpa using hf)⟩
  | manual k p b =>
    refine ⟨modAt_ne_nil _ _ _ hne, synced_modAt _ (shape_manualEdit p b) k s hs, ?_⟩
    apply forall_modAt _ k s hl
    intro c hc hli
    exact li_manualEdit p b c hli (synced_mem s hs c hc).2.1
  | rejuv =>
    exact ⟨applyFilter_ne_nil true D s hne, synced_applyFilter s (pre_of_synced s hs),
      fun c hc => (inv_applyFilter s hs hl c hc).1⟩

theorem inv_run (D : Data) : ∀ (h : List Op) (s : List Level), Inv D s → Inv D (run true D s h)
  | [], _, hs => hs
  | op :: h, s, hs => inv_run D h _ (inv_step D s op hs)

theorem inv_root (D : Data) : Inv D [rootLevel D] := by
  refine ⟨by simp, ⟨rfl, rfl, by simp [rootLevel], by simp [rootLevel]⟩, ?_⟩
  intro c hc
  simp only [List.mem_singleton] at hc
  subst hc
  have hnil : ∀ r, r ∉ excl (rootLevel D) :=
    excl_eq_nil_of_all (by simp [rootLevel]) (by simp [rootLevel])
  refine ⟨⟨fun r hr => by simp [rootLevel, freshLevel] at hr, fun r hr => absurd hr (hnil r)⟩,
    ⟨fun r hr => by simp [rootLevel, freshLevel] at hr,
     fun r hr => by simp [rootLevel, freshLevel] at hr⟩, ?_, ?_⟩
  · simp [rootLevel, freshLevel]
  · intro f hf
    have hf' : f < D.feats.length := by simpa [rootLevel, freshLevel] using hf
    simp [rootLevel, freshLevel, List.getD_eq_getElem?_getD, hf', boxOf_none]

theorem inv_addChild (D : Data) (s : List Level) (h : Inv D s) : Inv D (addChild true D s) := by
  obtain ⟨hne, hs, hl⟩ := h
  cases s with
  | nil => exact absurd rfl hne
  | cons p rest =>
    have hpre : Pre D (freshLevel D.feats.length :: p :: rest) :=
      ⟨fun a t h => by simp [freshLevel] at h, pre_of_synced _ hs⟩
    refine ⟨applyFilter_ne_nil true D _ (by simp), synced_applyFilter _ hpre, ?_⟩
    have hps := synced_applyFilter (fixed := true) (p :: rest) (pre_of_synced _ hs)
    have ih := inv_applyFilter (p :: rest) hs hl
    simp only [addChild, applyFilter]
    cases hq : applyFilter true D (p :: rest) with
    | nil => exact absurd hq (applyFilter_ne_nil true D _ (by simp))
    | cons q qs =>
      rw [hq] at ih hps
      have hret : retrieve true (freshLevel D.feats.length) (p :: rest)
          = freshLevel D.feats.length := by
        simp [retrieve, key, freshLevel]
      rw [hret]
      intro c hc
      rcases List.mem_cons.1 hc with rfl | hc
      · refine (refresh_level (freshLevel D.feats.length) q qs hps ?_ ?_ ?_ ?_).1
        · intro r hr; simp [freshLevel] at hr
        · intro r hr; simp [freshLevel] at hr
        · intro hk; simp [key, freshLevel] at hk
        · refine ⟨by simp [freshLevel], fun f _ => ?_⟩
          simp [freshLevel, boxOf]
      · exact (ih c hc).1

theorem inv_init (D : Data) : ∀ d, Inv D (initChain true D d)
  | 0 => inv_root D
  | d + 1 => inv_addChild D _ (inv_init D d)

/-- theorem 2, strong form for the repaired code: at every moment of every history the chain is
synchronised (views, lengths of `manual`/`all`, stored parent hashes) -/
theorem synced_after_history (D : Data) (d : Nat) (h : List Op) :
    Synced true D (run true D (initChain true D d) h) :=
  (inv_run D h _ (inv_init D d)).2.1

/-! ## 3. manual exclusions are attached to events -/

/-- lower bound `M ∩ vis ⊆ excluded`, upper bound `excluded ⊆ Ever ∩ vis`, at every member -/
def ManualOK (s : List Level) : Prop :=
  ∀ c ∈ s, (∀ r ∈ c.gM, r ∈ c.ev → r ∈ excl c) ∧ (∀ r ∈ excl c, r ∈ c.gEver ∧ r ∈ c.ev)

instance (s : List Level) : Decidable (ManualOK s) := by unfold ManualOK; infer_instance

theorem manual_attached_to_events (D : Data) (d : Nat) (h : List Op) :
    ManualOK (run true D (initChain true D d) h) := by
  obtain ⟨_, _, hl⟩ := inv_run D h _ (inv_init D d)
  intro c hc
  obtain ⟨⟨g1, g2⟩, _, _⟩ := hl c hc
  exact ⟨g1, fun r hr => ⟨g2 r hr, (sel_sublist _ _).subset hr⟩⟩

/-- the bookkeeping of the user's intent (`gM`, `gEver`) that the statement above refers to is
never read by the modelled code: erasing it commutes with `apply_filter` -/
theorem ghost_fields_never_read (fixed : Bool) (D : Data) (s : List Level) :
    applyFilter fixed D (s.map erase) = (applyFilter fixed D s).map erase :=
  applyFilter_erase fixed D s

/-! ## 4. the filter of every member is the configured one on its current events -/

def FreshOK (D : Data) (s : List Level) : Prop := ∀ c ∈ s, c.all = specAll D c

instance (D : Data) (s : List Level) : Decidable (FreshOK D s) := by
  unfold FreshOK; infer_instance

theorem filter_fresh_after_rejuvenate (D : Data) (d : Nat) (h : List Op) :
    FreshOK D (run true D (initChain true D d) (h ++ [Op.rejuv])) := by
  simp only [run, List.foldl_append, List.foldl_cons, List.foldl_nil, step]
  obtain ⟨_, hs, hl⟩ := inv_run D h _ (inv_init D d)
  intro c hc
  exact (inv_applyFilter _ hs hl c hc).2

/-! ## F04: the comparison used before the repair -/

/-- 12 events; features: identity, `area_cvx = index mod 5` -/
def D0 : Data :=
  { n := 12, feats := [[0, 1, 2, 3, 4, 5, 6, 7, 8, 9, 10, 11], [0, 1, 2, 3, 4, 0, 1, 2, 3, 4, 0, 1]] }

/-- depth 3 (positions: 0 = L3, 1 = L2, 2 = L1, 3 = root): root window 6..9, range 0..2 on L2,
refresh, exclude event 1 of L3 (root event 7), refresh, move the root window to 7..10, refresh.
L1 keeps four events and an all-true filter, so L2 sees the same boolean parent pattern. -/
def h0 : List Op :=
  [.setRange 3 0 6 9, .setRange 1 1 0 2, .rejuv, .manual 0 1 false, .rejuv,
   .setRange 3 0 7 10, .rejuv]

/-- F04: with `parent_changed` comparing only the parent's boolean pattern, the exclusion of root
event 7 is lost and root event 8 is excluded instead -/
theorem stale_manual_witness : ¬ ManualOK (run false D0 (initChain false D0 3) h0) := by
  decide +kernel

/-- F04, second symptom: the box filter of L2 still belongs to the previous events -/
theorem stale_box_witness : ¬ FreshOK D0 (run false D0 (initChain false D0 3) h0) := by
  decide +kernel

/-- non-vacuity: on the same history the repaired rule keeps root event 7 excluded at L3, whose
events are now root events 7 and 10 -/
example : ((run true D0 (initChain true D0 3) h0).head?.map
    (fun c => (c.ev, excl c, c.gM, c.manRoot))) = some ([7, 10], [7], [7], [7]) := by
  decide +kernel

example : ManualOK (run true D0 (initChain true D0 3) h0) ∧
    FreshOK D0 (run true D0 (initChain true D0 3) h0) := by decide +kernel

/-- the old rule on the same history: L3 shows root events 7, 8 and excludes 8 -/
example : ((run false D0 (initChain false D0 3) h0).head?.map
    (fun c => (c.ev, excl c, c.gM))) = some ([7, 8], [8], [7]) := by
  decide +kernel

/-! ## open finding F32: refreshing an intermediate member

The histories above refresh from the youngest member. `set_temporary_feature` on an
*intermediate* member (or a direct `rejuvenate()` there) refreshes only the chain above it; if a
deeper member holds a manual edit that has not been retrieved yet, its `retrieve_manual_indices`
later takes the "parent changed: ignore" branch and the edit is lost (before and after the F04
repair). `view_after_applyFilter` still applies (it holds from any state). -/

/-- depth 2 (positions 0 = L2, 1 = L1, 2 = root): exclude event 5 at L2, root window 2..7,
refresh L1 only, then refresh from L2: root event 5 is visible at L2 and no longer excluded -/
theorem intermediate_refresh_witness :
    ¬ ManualOK (applyFilter true D0 (rejuvAt true D0 1
        (run true D0 (initChain true D0 2) [.manual 0 5 false, .setRange 2 0 2 7]))) := by
  decide +kernel

end DclabModel.C04
