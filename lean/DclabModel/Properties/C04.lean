import DclabModel.Lemmas.Hier
import DclabModel.Lemmas.HierCache
/-!
# C04 — A hierarchy child is exactly the filtered view of its parent

Model: `DclabModel/Model/Hier.lean` (chains `[L_d, …, L_1, L_0]`, youngest first).

1. Map algebra of `mapper.py`, for arbitrary masks and any depth:
   `parent2child_child2parent`, `child2parent_parent2child`, `child2root_is_composition`,
   `root2child_child2root`, `child2parent_order`, `parent2child_order`,
   `child2root_reads_root_ids`, `root2child_finds_positions`, `nd_feature_is_selection`.
Histories: range edits at any member, manual edits at any member, `rejuvenate()` of the youngest
member, **and `rejuvenate()` of any intermediate member** (what `set_temporary_feature` on that
member does), in any interleaving, any depth.

2. `view_after_rejuvenate` (+ `view_after_applyFilter`, `synced_after_rejuvenate`): after a
   refresh from the youngest member every member is `sel (all parent) (events parent)` and has
   `count (all parent)` events — every history, any depth, all code variants.
3. `manual_attached_to_events`: with the repaired code (F04 + F32), in every history and at
   every member, the excluded root ids are exactly the ones the user excluded (and did not
   re-include) that are visible — also for events that vanish and return (O1 of DESIGN.md, the
   return of re-included exclusions, disappeared with the F32 repair).
   `stale_manual_witness`: false for the `parent_changed` before F04;
   `intermediate_refresh_witness`: false for the `retrieve_manual_indices` before F32.
4. `filter_fresh_after_rejuvenate`: after a refresh from the youngest member every `filter.all`
   is the configured ranges on the member's *current* events and `manual`
   (`stale_box_witness` for the old comparison).
5. `narrow_rootIds_witness`: root indices are unbounded in the model; a bounded-width `_root_ids`
   wraps and names other events.
6. (session 4, model `Model/HierCache.lean`: `ChildScalar._array` filled at the first read,
   `_ufunc_attrs`, `config["calculation"]`, root data that change)
   `scalar_feature_is_view`, `scalar_feature_is_selection_of_parent`: after a refresh from the
   youngest member a scalar read at any member returns the composed selection of the root's
   *current* data — every history of edits, partial refreshes, reads, summary reads, root data and
   configuration changes; `summary_is_fold_of_reported_array` (every reachable state),
   `summary_after_rejuvenate`: reported min/max/mean = fold over the current view;
   `calculation_after_rejuvenate`; `read_is_frozen`, `stale_member_mixed_witness`: what a member
   below a partial refresh shows (features frozen at their first read, other features and n-d
   data current, `len` old — mutually inconsistent until its own refresh).
-/
namespace DclabModel.C04
open DclabModel.Hier

/-! ## 1. index maps -/

/-- `map_indices_parent2child ∘ map_indices_child2parent = id` on child index arrays
(strictly increasing, in range) -/
theorem parent2child_child2parent (pf : List Bool) (I : List Nat) (hI : I.Pairwise (· < ·))
    (hr : ∀ i ∈ I, i < cnt pf) : p2c pf (c2p pf I) = I := p2c_c2p pf I hI hr

/-- `map_indices_child2parent ∘ map_indices_parent2child` keeps exactly the selected parent
indices that were asked for, in order (`J ∩ selected`) -/
theorem child2parent_parent2child (pf : List Bool) (J : List Nat) :
    c2p pf (p2c pf J) = (whereIdx pf).filter (fun q => J.contains q) := c2p_p2c pf J

theorem mem_child2parent_parent2child (pf : List Bool) (J : List Nat) (q : Nat) :
    q ∈ c2p pf (p2c pf J) ↔ q ∈ J ∧ pf.getD q false = true := by
  rw [c2p_p2c, List.mem_filter, mem_whereIdx, List.contains_iff_mem, and_comm]

/-- `map_indices_child2root` is the composition of the `child2parent` maps up the chain -/
theorem child2root_is_composition (alls : List (List Bool)) (I : List Nat) :
    c2root alls I = alls.foldl (fun J pf => c2p pf J) I := by
  induction alls generalizing I with
  | nil => rfl
  | cons pf rest ih => simp only [c2root, List.foldl_cons, ih]

/-- `map_indices_root2child ∘ map_indices_child2root = id`, any depth -/
theorem root2child_child2root {n : Nat} (alls : List (List Bool)) (I : List Nat) (h : WF n alls)
    (hI : I.Pairwise (· < ·)) (hr : ∀ i ∈ I, i < (idsOf n alls).length) :
    r2c alls (c2root alls I) = I := r2c_c2root alls I h hI hr

theorem child2parent_order {pf : List Bool} {I : List Nat} (hI : I.Pairwise (· < ·))
    (hr : ∀ i ∈ I, i < cnt pf) : (c2p pf I).Pairwise (· < ·) := c2p_pairwise hI hr

theorem parent2child_order (pf : List Bool) (J : List Nat) : (p2c pf J).Pairwise (· < ·) :=
  p2c_pairwise pf J

/-- `map_indices_child2root` returns the root index of every asked child event, any depth -/
theorem child2root_reads_root_ids {n : Nat} (alls : List (List Bool)) (I : List Nat)
    (h : WF n alls) (hr : ∀ i ∈ I, i < (idsOf n alls).length) :
    c2root alls I = I.map (fun i => (idsOf n alls).getD i 0) := c2root_eq alls I h hr

/-- `map_indices_root2child` returns the positions of the asked root events in the child -/
theorem root2child_finds_positions {n : Nat} (alls : List (List Bool)) (R : List Nat)
    (hne : alls ≠ []) (h : WF n alls) :
    r2c alls R = whereIdx ((idsOf n alls).map (fun r => R.contains r)) := r2c_eq alls R hne h

/-- n-d features (image, mask, contour, trace) are read through `child2parent` on the fly:
this is the same as boolean selection with the parent's `filter.all` -/
theorem nd_feature_is_selection {α : Type} (d : α) (pf : List Bool) (xs : List α) (I : List Nat)
    (h : xs.length = pf.length) (hI : ∀ i ∈ I, i < cnt pf) :
    (c2p pf I).map (fun q => xs.getD q d) = I.map (fun i => (sel pf xs).getD i d) :=
  c2p_eq_sel d pf xs I h hI

/-! ## 2. the view -/

/-- every member is the selection of its parent's events by the parent's `filter.all` -/
def ViewOK : List Level → Prop
  | [] => True
  | [_] => True
  | c :: p :: rest => c.ev = sel p.all p.ev ∧ c.len = cnt p.all ∧ ViewOK (p :: rest)

theorem refresh_view (fixed : Bool) (D : Data) (c : Level) (ps : List Level) :
    (refresh fixed D c ps).ev = sel (headAll ps) (headEv ps) ∧
      (refresh fixed D c ps).len = cnt (headAll ps) := by
  simp only [refresh]
  split <;> exact ⟨rfl, rfl⟩

/-- whatever the state before (any partial refreshes, any pending edits): after `apply_filter`
of the youngest member the whole chain is a chain of views (all code variants; induction over
the depth) -/
theorem view_after_applyFilter (fixed snap : Bool) (D : Data) :
    ∀ s : List Level, ViewOK (applyFilter fixed snap D s)
  | [] => trivial
  | [r] => trivial
  | c :: p :: rest => by
    have ih := view_after_applyFilter fixed snap D (p :: rest)
    simp only [applyFilter]
    cases hq : applyFilter fixed snap D (p :: rest) with
    | nil => trivial
    | cons q qs =>
      rw [hq] at ih
      exact ⟨(refresh_view fixed D _ (q :: qs)).1, (refresh_view fixed D _ (q :: qs)).2, ih⟩

theorem view_after_rejuvenate (fixed snap : Bool) (D : Data) (d : Nat) (h : List Op) :
    ViewOK (run fixed snap D (initChain fixed snap D d) (h ++ [Op.rejuv])) := by
  simp only [run, List.foldl_append, List.foldl_cons, List.foldl_nil, step]
  exact view_after_applyFilter fixed snap D _

/-! ### the history invariant (repaired code) -/

theorem inv_step (D : Data) (s : List Level) (op : Op) (h : GInv D s) :
    GInv D (step true true D s op) := by
  cases op with
  | setRange k f lo hi =>
    apply ginv_modAt (fun c => { c with cfg := c.cfg.set f (some (lo, hi)) })
      (fun c => ⟨rfl, rfl, rfl, rfl, rfl, rfl⟩) _ k s h
    intro c _ _ hc
    obtain ⟨g2, g4, hb1, hb2⟩ := hc
    exact ⟨g2, g4, by simpa using hb1, fun f hf => hb2 f (by simpa using hf)⟩
  | manual k p b =>
    exact ginv_modAt (manualEdit p b) (shape_manualEdit p b)
      (fun c hl hpw hli => li_manualEdit p b c hli hl hpw) k s h
  | rejuv => exact (ginv_applyFilter s h).1
  | rejuvAt k => exact ginv_rejuvAt k s h

theorem inv_run (D : Data) : ∀ (h : List Op) (s : List Level), GInv D s →
    GInv D (run true true D s h)
  | [], _, hs => hs
  | op :: h, s, hs => inv_run D h _ (inv_step D s op hs)

theorem inv_root (D : Data) : GInv D [rootLevel D] := by
  refine ⟨⟨rfl, rfl, by simp [rootLevel]⟩, ?_⟩
  have hnil : ∀ r, r ∉ excl (rootLevel D) :=
    excl_eq_nil_of_all (by simp [rootLevel]) (by simp [rootLevel])
  refine ⟨⟨fun r hr => by simp [rootLevel, freshLevel] at hr, fun r hr => absurd hr (hnil r)⟩,
    ⟨fun r hr => by simp [rootLevel, freshLevel] at hr,
     fun r hr => by simp [rootLevel, freshLevel] at hr⟩, ?_, ?_⟩
  · simp [rootLevel, freshLevel]
  · intro f hf
    have hf' : f < D.feats.length := by simpa [rootLevel, freshLevel] using hf
    simp [rootLevel, freshLevel, List.getD_eq_getElem?_getD, hf', boxOf_none]

/-- `RTDC_Hierarchy(parent)`: a member without filter object satisfies the invariants trivially;
its constructor then refreshes the chain -/
theorem inv_addChild (D : Data) (s : List Level) (h : GInv D s) :
    GInv D (addChild true true D s) := by
  apply (ginv_applyFilter _ (ginv_cons ?_ ?_ h)).1
  · exact ⟨fun a t hk => by simp [freshLevel] at hk, rfl, rfl, rfl, List.Pairwise.nil⟩
  · refine ⟨⟨fun r hr => by simp [freshLevel] at hr, fun r hr => by simp [excl, freshLevel, sel] at hr⟩,
      ⟨fun r hr => by simp [freshLevel] at hr, fun r hr => by simp [freshLevel] at hr⟩,
      by simp [freshLevel], fun f _ => by simp [freshLevel, boxOf]⟩

theorem inv_init (D : Data) : ∀ d, GInv D (initChain true true D d)
  | 0 => inv_root D
  | d + 1 => inv_addChild D _ (inv_init D d)

/-- theorem 2, strong form for the repaired code: after a refresh from the youngest member the
chain is synchronised (views, sizes of `manual`/`all`, stored parent hashes), whatever partial
refreshes and edits preceded it -/
theorem synced_after_rejuvenate (D : Data) (d : Nat) (h : List Op) :
    Synced true D (run true true D (initChain true true D d) (h ++ [Op.rejuv])) := by
  simp only [run, List.foldl_append, List.foldl_cons, List.foldl_nil, step]
  exact synced_applyFilter _ (pre_of_ginv _ (inv_run D h _ (inv_init D d)))

/-! ## 3. manual exclusions are attached to events -/

/-- `excluded = M ∩ vis` at every member: what the user excluded (and did not re-include) and
can see is excluded, and nothing else (`vis` = the member's events as of its own last refresh) -/
def ManualOK (s : List Level) : Prop :=
  ∀ c ∈ s, (∀ r ∈ c.gM, r ∈ c.ev → r ∈ excl c) ∧ (∀ r ∈ excl c, r ∈ c.gM ∧ r ∈ c.ev)

instance (s : List Level) : Decidable (ManualOK s) := by unfold ManualOK; infer_instance

theorem manual_attached_to_events (D : Data) (d : Nat) (h : List Op) :
    ManualOK (run true true D (initChain true true D d) h) := by
  have hg := inv_run D h _ (inv_init D d)
  intro c hc
  obtain ⟨⟨⟨g1, g2⟩, _, _⟩, _, _⟩ := ginv_mem _ hg c hc
  exact ⟨g1, fun r hr => ⟨g2 r hr, (sel_sublist _ _).subset hr⟩⟩

/-- the bookkeeping of the user's intent (`gM`) that the statement above refers to is
never read by the modelled code: erasing it commutes with `apply_filter` -/
theorem ghost_fields_never_read (fixed snap : Bool) (D : Data) (s : List Level) :
    applyFilter fixed snap D (s.map erase) = (applyFilter fixed snap D s).map erase :=
  applyFilter_erase fixed snap D s

/-! ## 4. the filter of every member is the configured one on its current events -/

def FreshOK (D : Data) (s : List Level) : Prop := ∀ c ∈ s, c.all = specAll D c

instance (D : Data) (s : List Level) : Decidable (FreshOK D s) := by
  unfold FreshOK; infer_instance

theorem filter_fresh_after_rejuvenate (D : Data) (d : Nat) (h : List Op) :
    FreshOK D (run true true D (initChain true true D d) (h ++ [Op.rejuv])) := by
  simp only [run, List.foldl_append, List.foldl_cons, List.foldl_nil, step]
  exact (ginv_applyFilter _ (inv_run D h _ (inv_init D d))).2

/-! ## F04: the comparison used before the repair -/

/-- 12 events; features: identity, `area_cvx = index mod 5` -/
def D0 : Data :=
  { n := 12, feats := [[0, 1, 2, 3, 4, 5, 6, 7, 8, 9, 10, 11], [0, 1, 2, 3, 4, 0, 1, 2, 3, 4, 0, 1]] }

/-- depth 3 (positions: 0 = L3, 1 = L2, 2 = L1, 3 = root): root window 6..9, range 0..2 on L2,
refresh, exclude event 1 of L3 (root event 7), refresh, move the root window to 7..10, refresh.
L1 keeps four events and an all-true filter, so L2 sees the same boolean parent pattern. -/
def h0 : List Op :=
  [.setRange 3 0 6 9, .setRange 1 1 0 2, .rejuv, .manual 0 1 false, .rejuv,
   .setRange 3 0 7 10, .rejuv]

/-- F04: with `parent_changed` comparing only the parent's boolean pattern, the exclusion of root
event 7 is lost and root event 8 is excluded instead -/
theorem stale_manual_witness : ¬ ManualOK (run false false D0 (initChain false false D0 3) h0) := by
  decide +kernel

/-- F04, second symptom: the box filter of L2 still belongs to the previous events -/
theorem stale_box_witness : ¬ FreshOK D0 (run false false D0 (initChain false false D0 3) h0) := by
  decide +kernel

/-- non-vacuity: on the same history the repaired code keeps root event 7 excluded at L3, whose
events are now root events 7 and 10 -/
example : ((run true true D0 (initChain true true D0 3) h0).head?.map
    (fun c => (c.ev, excl c, c.gM, c.manRoot))) = some ([7, 10], [7], [7], [7]) := by
  decide +kernel

example : ManualOK (run true true D0 (initChain true true D0 3) h0) ∧
    FreshOK D0 (run true true D0 (initChain true true D0 3) h0) := by decide +kernel

/-- the old rule on the same history: L3 shows root events 7, 8 and excludes 8 -/
example : ((run false false D0 (initChain false false D0 3) h0).head?.map
    (fun c => (c.ev, excl c, c.gM))) = some ([7, 8], [8], [7]) := by
  decide +kernel

/-! ## F32: `retrieve_manual_indices` before the repair

Before F32 the manual array was mapped to root indices through the *current* filter arrays of
all ancestors, and the retrieval was skipped when the parent had changed. After a refresh of an
intermediate member, a deeper member that holds a manual edit made since its own last refresh
takes the "parent changed: ignore" branch and the edit is lost. -/

/-- depth 2 (positions 0 = L2, 1 = L1, 2 = root): exclude event 5 at L2, root window 2..7,
refresh L1 only (`set_temporary_feature(L1, …)`), then refresh from L2 -/
def h1 : List Op := [.manual 0 5 false, .setRange 2 0 2 7, .rejuvAt 1, .rejuv]

/-- F32: with the F04 repair alone, root event 5 is visible at L2 and no longer excluded -/
theorem intermediate_refresh_witness :
    ¬ ManualOK (run true false D0 (initChain true false D0 2) h1) := by
  decide +kernel

/-- non-vacuity: the repaired code keeps root event 5 excluded (L2 shows root events 2..7) -/
example : ((run true true D0 (initChain true true D0 2) h1).head?.map
    (fun c => (c.ev, excl c, c.gM))) = some ([2, 3, 4, 5, 6, 7], [5], [5]) := by
  decide +kernel

/-! ## `_root_ids` must hold root indices exactly

The model keeps root indices as unbounded `Nat`; `CI` (`rootIds = ev`) is the hypothesis under
which `retrieveSnap` is correct. Storing `_root_ids` in an integer type sized after the *parent*
(e.g. 8 bits when the parent has ≤ 255 events) breaks it as soon as a small member holds large
root indices. -/

/-- a member showing root events 290 and 291 with the first one excluded: with `_root_ids`
wrapped to 8 bits the retrieved exclusion is root event 34, which is not one of its events;
with exact `_root_ids` it is root event 290 -/
theorem narrow_rootIds_witness :
    let c : Level := { freshLevel 0 with ev := [290, 291], len := 2, manual := [false, true] }
    (retrieveSnap { c with rootIds := c.ev.map (· % 256) }).manRoot = [34] ∧
      (retrieveSnap { c with rootIds := c.ev }).manRoot = [290] := by
  decide

/-! ## 6. lazily filled caches: scalar arrays, summaries, calculation section

`ChildScalar._array` is filled at the first read after the member's refresh, `_ufunc_attrs`
(min/max/mean) at the first use; `apply_filter` drops both (`_events.clear()`) and copies the
parent's `config["calculation"]`.  Histories (`XOp`): all operations of sections 2–4, changes of
the root's data (`set_temporary_feature` on the root, recomputed ancillary features), changes of
the root's calculation section, array reads and summary reads at any member at any time. -/
section caches
open DclabModel.HierCache

theorem scalar_view_after_refresh (D : Data) (x : X) (hx : XInv x) (k f : Nat)
    (hk : k < x.s.length) :
    readVal (xstep D x (.base .rejuv)) k f =
      viewVals (col x f) (allsFrom (xstep D x (.base .rejuv)).s k) := by
  have hl := hx.len
  simp only [readVal, readAt, xstep, refreshPos, List.take_zero, List.nil_append, List.drop_zero,
    col]
  apply readArr_cleared
  · exact cleared_drop k _ (cleared_auxApply x.a)
  · simp only [allsFrom, List.length_drop, List.length_map, length_auxApply, length_step]
    omega

/-- theorem 2 for lazily cached scalar features, with root data that change: after a refresh from
the youngest member, a read at member `k` (0 = youngest … `d` = root) returns the root's current
data selected by the `filter.all` arrays of all ancestors — whatever was read, cached, edited or
partially refreshed before -/
theorem scalar_feature_is_view (D : Data) (d : Nat) (cols : List (List Int)) (cc : Int)
    (h : List XOp) (k f : Nat) (hk : k ≤ d) :
    let x := xrun D (xinit D d cols cc) (h ++ [.base .rejuv])
    readVal x k f = viewVals (col x f) (allsFrom x.s k) := by
  intro x
  have hx : XInv (xrun D (xinit D d cols cc) h) := xinv_run D h _ (xinv_init D d cols cc)
  have hlen : (xrun D (xinit D d cols cc) h).s.length = d + 1 := by
    rw [← hx.len]
    have : ∀ (h : List XOp) (y : X), XInv y → (xrun D y h).a.length = y.a.length := by
      intro h
      induction h with
      | nil => intro y _; rfl
      | cons op h ih =>
        intro y hy
        have h1 := xinv_step D y op hy
        have := ih _ h1
        simp only [xrun, List.foldl_cons] at this ⊢
        rw [this, h1.len, hy.len]
        cases op <;> simp [xstep, length_step]
    rw [this h _ (xinv_init D d cols cc)]
    simp [xinit]
  have := scalar_view_after_refresh D _ hx k f (by omega)
  simpa only [x, xrun, List.foldl_append, List.foldl_cons, List.foldl_nil, col, xstep] using this

/-- the literal statement of the property: the child's feature is the parent's feature restricted
to the events the parent's filter selects, in order -/
theorem view_is_selection_of_parent (c : List Int) (pf : List Bool) (rest : List (List Bool)) :
    viewVals c (pf :: rest) = sel pf (viewVals c rest) := rfl

/-- `min()/max()/mean()` of a child feature always are the folds of the array the same member
reports at that moment — in every reachable state, whatever is cached -/
theorem summary_is_fold_of_reported_array (D : Data) (d : Nat) (cols : List (List Int)) (cc : Int)
    (h : List XOp) (k f u : Nat) :
    let x := xrun D (xinit D d cols cc) h
    summVal x k f u = ufn u (readVal x k f) := by
  intro x
  have hx : XInv x := xinv_run D h _ (xinv_init D d cols cc)
  exact summArr_eq _ _ _ _ _ (fun a ha => hx.uf a (List.mem_of_mem_drop ha))

/-- reported summary = fold over the current view, after a refresh from the youngest member -/
theorem summary_after_rejuvenate (D : Data) (d : Nat) (cols : List (List Int)) (cc : Int)
    (h : List XOp) (k f u : Nat) (hk : k ≤ d) :
    let x := xrun D (xinit D d cols cc) (h ++ [.base .rejuv])
    summVal x k f u = ufn u (viewVals (col x f) (allsFrom x.s k)) := by
  intro x
  have h1 := summary_is_fold_of_reported_array D d cols cc (h ++ [.base .rejuv]) k f u
  have h2 := scalar_feature_is_view D d cols cc h k f hk
  simp only at h1 h2
  rw [h1, h2]

/-- after a refresh from the youngest member every member carries the root's calculation section -/
theorem calculation_after_rejuvenate (D : Data) (d : Nat) (cols : List (List Int)) (cc : Int)
    (h : List XOp) :
    let x := xrun D (xinit D d cols cc) h
    ∀ a ∈ (xstep D x (.base .rejuv)).a, a.ccfg = lastCalc x.a := by
  intro x a ha
  simp only [xstep, refreshPos, List.take_zero, List.nil_append, List.drop_zero] at ha
  rw [cleared_ccfg _ (cleared_auxApply x.a) a ha, lastCalc_auxApply]

/-- reading fills the cache and a second read returns the same array -/
theorem readArr_idem (c : List Int) (f : Nat) (alls : List (List Bool)) (as : List Aux) :
    (readArr c f alls (readArr c f alls as).2).1 = (readArr c f alls as).1 := by
  match alls, as with
  | [], as => simp [readArr]
  | _ :: _, [] => simp [readArr]
  | pf :: alls, a :: as =>
    cases hv : (a.fc f).arr with
    | some v => simp [readArr, hv]
    | none => simp [readArr, hv, Aux.setArr]

/-! ### B3: what a member below a partial refresh shows

Each scalar feature of a member is frozen at its first read after the member's own refresh
(`read_is_frozen`: reading again returns the same array; `apply_filter` of the member itself is the
only operation that empties `FC.arr`).  Features that were not read yet are computed from the
parent's *current* state, n-d features always are, `len()` is the cached old count.  So a stale
member can show different event sets in different features: -/

theorem read_is_frozen (D : Data) (x : X) (k f : Nat) :
    readVal (xstep D x (.read k f)) k f = readVal x k f := by
  simp only [readVal, readAt, xstep, col]
  by_cases hk : k ≤ x.a.length
  · have hd : (x.a.take k ++ (readArr (x.cols.getD f []) f (allsFrom x.s k) (x.a.drop k)).2).drop k
        = (readArr (x.cols.getD f []) f (allsFrom x.s k) (x.a.drop k)).2 :=
      List.drop_left' (by simp only [List.length_take]; omega)
    rw [hd]
    exact readArr_idem _ _ _ _
  · have h0 : x.a.drop k = [] := List.drop_eq_nil_of_le (by omega)
    have h1 : ∀ alls : List (List Bool), readArr (x.cols.getD f []) f alls [] =
        (x.cols.getD f [], []) := by
      intro alls; cases alls <;> rfl
    simp only [h0, h1, List.append_nil]
    have h2 : (x.a.take k).drop k = [] := List.drop_eq_nil_of_le (by simp only [List.length_take]; omega)
    rw [h2, h1]

/-- slots 0 and 1 both hold the identity feature (root index) -/
def cols0 : List (List Int) :=
  [[0, 1, 2, 3, 4, 5, 6, 7, 8, 9, 10, 11], [0, 1, 2, 3, 4, 5, 6, 7, 8, 9, 10, 11]]

/-- depth 2: L2 reads feature 0, the root window becomes 2..7, only L1 is refreshed -/
def hx0 : List XOp := [.read 0 0, .base (.setRange 2 0 2 7), .base (.rejuvAt 1)]

/-- the stale member L2 shows all 12 events in feature 0 (frozen), root events 2..7 in feature 1
(first read, through the refreshed parent) and reports 12 events -/
theorem stale_member_mixed_witness :
    let x := xrun D0 (xinit D0 2 cols0 0) hx0
    readVal x 0 0 = [0, 1, 2, 3, 4, 5, 6, 7, 8, 9, 10, 11] ∧ readVal x 0 1 = [2, 3, 4, 5, 6, 7] ∧
      x.s.head?.map (·.len) = some 12 := by
  decide +kernel

/-- non-vacuity: after its own refresh both features show root events 2..7; min, max and the
numerator of mean are those of the view -/
example :
    let x := xrun D0 (xinit D0 2 cols0 0) (hx0 ++ [.summ 0 0 1, .base .rejuv])
    readVal x 0 0 = [2, 3, 4, 5, 6, 7] ∧ readVal x 0 1 = [2, 3, 4, 5, 6, 7] ∧
      summVal x 0 0 0 = some 2 ∧ summVal x 0 0 1 = some 7 ∧ summVal x 0 1 2 = some 27 := by
  decide +kernel

/-- a stale summary: `max()` asked while stale is the fold of the frozen array (11), and stays
cached; root data that change afterwards do not show either -/
example :
    let x := xrun D0 (xinit D0 2 cols0 0) (hx0 ++ [.summ 0 0 1, .setCol 0 [5, 5, 5, 5, 5, 5, 5, 5, 5, 5, 5, 50]])
    summVal x 0 0 1 = some 11 ∧ summVal x 2 0 1 = some 50 := by
  decide +kernel

end caches

end DclabModel.C04
