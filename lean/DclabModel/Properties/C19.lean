import DclabModel.Lemmas.Http
import DclabModel.Lemmas.HttpFault
/-!
# C19 — Remote range-cached access returns the bytes of the resource

Property theorems only.  The model (`Model/Http.lean`) mirrors `HTTPFile`; the specification
is "a position and the blob".  All theorems quantify over every resource, every reply `oob`
of the server to unsatisfiable ranges, every chunk size > 0, every capacity ≥ 2 and every
finite history of seek/tell/read operations whose reads lie inside the resource.
-/
namespace DclabModel.C19
open DclabModel.Http

/-- one operation: same visible result as the specification, invariant kept -/
theorem step_refines (sv : Server) (cfg : Cfg) (hcs : 0 < cfg.cs) (hk : 2 ≤ cfg.keep)
    (st : St) (op : Op) (hinv : Inv sv cfg st.cache)
    (hvalid : match op with
      | .read n => 0 ≤ st.pos ∧ 0 ≤ n ∧ st.pos + n ≤ sv.len
      | _ => True) :
    (step sv cfg st op).2 = (specStep sv st.pos op).2 ∧
    (step sv cfg st op).1.pos = (specStep sv st.pos op).1 ∧
    Inv sv cfg (step sv cfg st op).1.cache := by
  cases op with
  | tell => exact ⟨rfl, rfl, hinv⟩
  | seek off w =>
    unfold step specStep
    by_cases h0 : w = 0
    · simp [h0, hinv]
    · by_cases h1 : w = 1
      · simp [h1, hinv]
      · by_cases h2 : w = 2
        · simp [h2, hinv]
        · simp [h0, h1, h2, hinv]
  | read n =>
    obtain ⟨hp, hn, hle⟩ := hvalid
    unfold step specStep
    have hneg : ¬ (st.pos < 0 ∨ n < 0) := by omega
    simp only [hneg, if_false]
    obtain ⟨st', hr, hinv', hpos'⟩ := readRange_spec sv cfg st st.pos.toNat
      (st.pos.toNat + n.toNat) hcs hk (by omega) (by unfold Server.len at *; omega) hinv
    rw [hr]
    simp only [Nat.add_sub_cancel_left]
    refine ⟨?_, ?_, hinv'⟩ <;> first | rfl | trivial

/-- **Refinement.** Every history of operations whose reads lie inside the resource produces
exactly the outputs of the specification (bytes `blob[pos:pos+n]`, positions), whatever was
cached or evicted before. -/
theorem history_refines (sv : Server) (cfg : Cfg) (hcs : 0 < cfg.cs) (hk : 2 ≤ cfg.keep) :
    ∀ (ops : List Op) (st : St), Inv sv cfg st.cache → ValidFrom sv st.pos ops →
      (run sv cfg st ops).2 = (specRun sv st.pos ops).2 ∧
      (run sv cfg st ops).1.pos = (specRun sv st.pos ops).1 ∧
      Inv sv cfg (run sv cfg st ops).1.cache := by
  intro ops
  induction ops with
  | nil => intro st hinv _; exact ⟨rfl, rfl, hinv⟩
  | cons op ops ih =>
    intro st hinv hv
    obtain ⟨hv1, hv2⟩ := hv
    obtain ⟨ho, hp, hi⟩ := step_refines sv cfg hcs hk st op hinv (by cases op <;> simp at hv1 ⊢ <;> exact hv1)
    simp only [run, specRun]
    rw [← hp] at hv2
    obtain ⟨h1, h2, h3⟩ := ih _ hi hv2
    rw [← hp]
    exact ⟨by rw [ho, h1], h2, h3⟩

theorem inv_init (sv : Server) (cfg : Cfg) : Inv sv cfg St.init.cache :=
  ⟨(by intro p hp; cases hp), Nat.zero_le _, List.nodup_nil⟩

/-- **C19, bytes.** From a fresh file object, after any valid history `pre`, a read of `n`
bytes at the current position `p` returns exactly `blob[p : p+n]`. -/
theorem read_exact (sv : Server) (cfg : Cfg) (hcs : 0 < cfg.cs) (hk : 2 ≤ cfg.keep)
    (pre : List Op) (n : Int) (hv : ValidFrom sv 0 (pre ++ [.read n])) :
    (run sv cfg St.init (pre ++ [.read n])).2 = (specRun sv 0 (pre ++ [.read n])).2 :=
  (history_refines sv cfg hcs hk _ St.init (inv_init sv cfg) hv).1

/-- **C19, memory bound.** After every valid history the cache holds at most `keep` chunks. -/
theorem cache_bounded (sv : Server) (cfg : Cfg) (hcs : 0 < cfg.cs) (hk : 2 ≤ cfg.keep)
    (ops : List Op) (hv : ValidFrom sv 0 ops) :
    (run sv cfg St.init ops).1.cache.length ≤ cfg.keep :=
  (history_refines sv cfg hcs hk ops St.init (inv_init sv cfg) hv).2.2.bounded

/-- the specification's answer to a read depends on position and length only, so the
implementation's does too (history independence) -/
theorem history_independent (sv : Server) (cfg : Cfg) (hcs : 0 < cfg.cs) (hk : 2 ≤ cfg.keep)
    (st₁ st₂ : St) (h₁ : Inv sv cfg st₁.cache) (h₂ : Inv sv cfg st₂.cache)
    (hpos : st₁.pos = st₂.pos) (n : Int)
    (hv : 0 ≤ st₁.pos ∧ 0 ≤ n ∧ st₁.pos + n ≤ sv.len) :
    (step sv cfg st₁ (.read n)).2 = (step sv cfg st₂ (.read n)).2 := by
  rw [(step_refines sv cfg hcs hk st₁ (.read n) h₁ hv).1,
      (step_refines sv cfg hcs hk st₂ (.read n) h₂ (by rw [← hpos]; exact hv)).1, hpos]

/-- the first chunk is never evicted by `get_cache_chunk` -/
theorem pop_keeps_zero (l : List (Nat × Bytes)) (h : 0 ∈ l.map Prod.fst) :
    0 ∈ (popFirstNonzero l).map Prod.fst := by
  induction l with
  | nil => cases h
  | cons hd t ih =>
    obtain ⟨k, v⟩ := hd
    simp only [popFirstNonzero]
    split
    · rename_i hk
      simp only [List.map_cons, List.mem_cons] at h
      rcases h with h | h
      · exact absurd h.symm hk
      · exact h
    · simp only [List.map_cons, List.mem_cons] at h ⊢
      rcases h with h | h
      · exact Or.inl h
      · exact Or.inr (ih h)

theorem chunk0_pinned (sv : Server) (cfg : Cfg) (st : St) (i : Nat)
    (h : 0 ∈ st.cache.map Prod.fst) : 0 ∈ (getChunk sv cfg st i).1.cache.map Prod.fst := by
  unfold getChunk
  cases hl : lookup i st.cache with
  | some c =>
    simp only [Option.isNone_some, Bool.false_eq_true, if_false]
    split
    · exact pop_keeps_zero _ h
    · exact h
  | none =>
    simp only [Option.isNone_none, if_true]
    have h1 : 0 ∈ (st.cache ++ [(i, sv.serve (i * cfg.cs) (min ((i + 1) * cfg.cs) sv.len))]).map
        Prod.fst := by
      simp only [List.map_append, List.mem_append]; exact Or.inl h
    split
    · exact pop_keeps_zero _ h1
    · exact h1

/-- every download issued by `get_cache_chunk` is the range of one whole chunk -/
theorem requests_are_chunks (sv : Server) (cfg : Cfg) (st : St) (i : Nat)
    (h : ∀ r ∈ st.reqs, ∃ j, r = (j * cfg.cs, min ((j + 1) * cfg.cs) sv.len)) :
    ∀ r ∈ (getChunk sv cfg st i).1.reqs, ∃ j, r = (j * cfg.cs, min ((j + 1) * cfg.cs) sv.len) := by
  unfold getChunk
  simp only
  intro r hr
  split at hr
  · rcases List.mem_append.mp hr with h1 | h1
    · exact h r h1
    · simp only [List.mem_singleton] at h1; exact ⟨i, h1⟩
  · exact h r hr

/-- **Known finding F20** (`keep_chunks = 1`): with chunk 0 cached, reading any other chunk
raises `KeyError` — the model reproduces it.  This is why the theorems require `2 ≤ keep`. -/
theorem keep1_witness :
    (run { blob := [1, 2, 3, 4], oob := [] } { cs := 2, keep := 1 } St.init
      [.read 1, .seek 2 0, .read 1]).2 = [.data [1], .unit, .keyError] := by
  decide

/-- non-vacuity: a concrete history that crosses chunk boundaries, evicts, re-reads and ends at
the end of a resource whose length is a multiple of the chunk size satisfies the hypotheses -/
example : ValidFrom { blob := [1, 2, 3, 4, 5, 6], oob := [9] } 0
    [.read 3, .seek (-2) 2, .read 2, .seek 0 0, .read 6, .seek (-1) 1, .tell, .read 1] := by
  decide

example : (run { blob := [1, 2, 3, 4, 5, 6], oob := [9] } { cs := 2, keep := 2 } St.init
    [.read 3, .seek (-2) 2, .read 2, .seek 0 0, .read 6, .seek (-1) 1, .tell, .read 1]).2
    = [.data [1, 2, 3], .unit, .data [5, 6], .unit, .data [1, 2, 3, 4, 5, 6], .unit, .pos 5,
       .data [6]] := by
  decide

end DclabModel.C19

namespace DclabModel.C19
open DclabModel.Http

/-! ## History-level statements about the issued requests and the pinned first chunk -/

/-- every download issued so far is the range of one whole chunk -/
def ReqsOK (sv : Server) (cfg : Cfg) (st : St) : Prop :=
  ∀ r ∈ st.reqs, ∃ j, r = (j * cfg.cs, min ((j + 1) * cfg.cs) sv.len)

theorem readLoop_reqs (sv : Server) (cfg : Cfg) (stop : Nat) :
    ∀ (count idx pos toread : Nat) (st : St) (data : Bytes), ReqsOK sv cfg st →
      ReqsOK sv cfg (readLoop sv cfg stop count idx pos toread st data).1 := by
  intro count
  induction count with
  | zero => intro idx pos toread st data h; simpa [readLoop] using h
  | succ c ih =>
    intro idx pos toread st data h
    have hg : ReqsOK sv cfg (getChunk sv cfg st idx).1 := requests_are_chunks sv cfg st idx h
    unfold readLoop
    cases hgc : getChunk sv cfg st idx with
    | mk st' oc =>
      rw [hgc] at hg
      cases oc with
      | none => exact hg
      | some chunk =>
        simp only
        split
        · exact hg
        · split
          · exact ih _ _ _ _ _ hg
          · exact ih _ _ _ _ _ hg

theorem step_reqs (sv : Server) (cfg : Cfg) (st : St) (op : Op) (h : ReqsOK sv cfg st) :
    ReqsOK sv cfg (step sv cfg st op).1 := by
  cases op with
  | tell => exact h
  | seek off w =>
    have e : (step sv cfg st (.seek off w)).1.reqs = st.reqs := by
      simp only [step]
      split
      · rfl
      · split
        · rfl
        · split <;> rfl
    intro r hr
    rw [e] at hr
    exact h r hr
  | read n =>
    simp only [step]
    split
    · exact h
    · have hr := readLoop_reqs sv cfg (st.pos.toNat + n.toNat)
        ((st.pos.toNat + n.toNat) / cfg.cs + 1 - st.pos.toNat / cfg.cs) (st.pos.toNat / cfg.cs)
        st.pos.toNat (st.pos.toNat + n.toNat - st.pos.toNat) st [] h
      simp only [readRange]
      cases hrl : readLoop sv cfg (st.pos.toNat + n.toNat)
        ((st.pos.toNat + n.toNat) / cfg.cs + 1 - st.pos.toNat / cfg.cs) (st.pos.toNat / cfg.cs)
        st.pos.toNat (st.pos.toNat + n.toNat - st.pos.toNat) st [] with
      | mk st' od =>
        rw [hrl] at hr
        cases od with
        | none => exact hr
        | some d => exact hr

/-- **For every history whatsoever** (valid or not, any capacity, any chunk size): the file
object only ever asks the server for whole-chunk ranges `bytes=j·cs-(min((j+1)·cs,len)-1)`. -/
theorem history_requests_are_chunks (sv : Server) (cfg : Cfg) :
    ∀ (ops : List Op) (st : St), ReqsOK sv cfg st → ReqsOK sv cfg (run sv cfg st ops).1 := by
  intro ops
  induction ops with
  | nil => intro st h; exact h
  | cons op ops ih =>
    intro st h
    simp only [run]
    exact ih _ (step_reqs sv cfg st op h)

theorem fresh_requests_are_chunks (sv : Server) (cfg : Cfg) (ops : List Op) :
    ReqsOK sv cfg (run sv cfg St.init ops).1 :=
  history_requests_are_chunks sv cfg ops St.init (by intro r hr; cases hr)

end DclabModel.C19

namespace DclabModel.C19
open DclabModel.Http

def HasZero (st : St) : Prop := 0 ∈ st.cache.map Prod.fst

theorem readLoop_keeps_zero (sv : Server) (cfg : Cfg) (stop : Nat) :
    ∀ (count idx pos toread : Nat) (st : St) (data : Bytes), HasZero st →
      HasZero (readLoop sv cfg stop count idx pos toread st data).1 := by
  intro count
  induction count with
  | zero => intro idx pos toread st data h; simpa [readLoop] using h
  | succ c ih =>
    intro idx pos toread st data h
    have hg : HasZero (getChunk sv cfg st idx).1 := chunk0_pinned sv cfg st idx h
    unfold readLoop
    cases hgc : getChunk sv cfg st idx with
    | mk st' oc =>
      rw [hgc] at hg
      cases oc with
      | none => exact hg
      | some chunk =>
        simp only
        split
        · exact hg
        · split
          · exact ih _ _ _ _ _ hg
          · exact ih _ _ _ _ _ hg

theorem step_keeps_zero (sv : Server) (cfg : Cfg) (st : St) (op : Op) (h : HasZero st) :
    HasZero (step sv cfg st op).1 := by
  cases op with
  | tell => exact h
  | seek off w =>
    have e : (step sv cfg st (.seek off w)).1.cache = st.cache := by
      simp only [step]
      split
      · rfl
      · split
        · rfl
        · split <;> rfl
    unfold HasZero
    rw [e]
    exact h
  | read n =>
    simp only [step]
    split
    · exact h
    · have hr := readLoop_keeps_zero sv cfg (st.pos.toNat + n.toNat)
        ((st.pos.toNat + n.toNat) / cfg.cs + 1 - st.pos.toNat / cfg.cs) (st.pos.toNat / cfg.cs)
        st.pos.toNat (st.pos.toNat + n.toNat - st.pos.toNat) st [] h
      simp only [readRange]
      cases hrl : readLoop sv cfg (st.pos.toNat + n.toNat)
        ((st.pos.toNat + n.toNat) / cfg.cs + 1 - st.pos.toNat / cfg.cs) (st.pos.toNat / cfg.cs)
        st.pos.toNat (st.pos.toNat + n.toNat - st.pos.toNat) st [] with
      | mk st' od =>
        rw [hrl] at hr
        cases od with
        | none => exact hr
        | some d => exact hr

/-- **For every history** (any capacity, any chunk size): once the first chunk is cached it is
never evicted again — the HDF5 superblock stays in memory, as the code comment promises. -/
theorem history_chunk0_pinned (sv : Server) (cfg : Cfg) :
    ∀ (ops : List Op) (st : St), HasZero st → HasZero (run sv cfg st ops).1 := by
  intro ops
  induction ops with
  | nil => intro st h; exact h
  | cons op ops ih =>
    intro st h
    simp only [run]
    exact ih _ (step_keeps_zero sv cfg st op h)

end DclabModel.C19

namespace DclabModel.C19
open DclabModel.Http

/-! ## Transient download failures (`Model/HttpFault.lean`)

`readF n budget` is a `read(n)` during which the `budget+1`-th download raises.  The
specification treats a failed read as a no-op that reports the failure; which reads failed is
read off the outputs (`failedFlags`). -/

/-- one operation under faults: same visible result as the specification (a failed read moves
nothing), invariant kept -/
theorem stepF_refines (sv : Server) (cfg : Cfg) (hcs : 0 < cfg.cs) (hk : 2 ≤ cfg.keep)
    (st : St) (op : OpF) (hinv : Inv sv cfg st.cache)
    (hvalid : match op.readLen with
      | some n => 0 ≤ st.pos ∧ 0 ≤ n ∧ st.pos + n ≤ sv.len
      | none => True) :
    (stepF sv cfg st op).2 =
      (specStepF sv st.pos op (decide ((stepF sv cfg st op).2 = .ioError))).2 ∧
    (stepF sv cfg st op).1.pos =
      (specStepF sv st.pos op (decide ((stepF sv cfg st op).2 = .ioError))).1 ∧
    Inv sv cfg (stepF sv cfg st op).1.cache := by
  cases op with
  | plain op =>
    simp only [stepF, specStepF]
    exact step_refines sv cfg hcs hk st op hinv
      (by cases op <;> simp [OpF.readLen] at hvalid ⊢ <;> exact hvalid)
  | readF n budget =>
    simp only [OpF.readLen] at hvalid
    obtain ⟨hp, hn, hle⟩ := hvalid
    have hneg : ¬ (st.pos < 0 ∨ n < 0) := by omega
    rcases readRangeF_cases sv cfg st st.pos.toNat (st.pos.toNat + n.toNat) budget hcs hk hinv with
      ⟨st', h1, h2, h3⟩ | h
    · have e : stepF sv cfg st (.readF n budget) = (st', .ioError) := by
        simp only [stepF, hneg, if_false, h1]
      rw [e]
      simp [specStepF, h2, h3]
    · obtain ⟨st'', hr, hinv'', _⟩ := readRange_spec sv cfg st st.pos.toNat
        (st.pos.toNat + n.toNat) hcs hk (by omega) (by unfold Server.len at *; omega) hinv
      rw [hr] at h
      have e : stepF sv cfg st (.readF n budget) =
          ({ st'' with pos := if n > 0 then st.pos + n else sv.len },
           .data ((sv.blob.drop st.pos.toNat).take (st.pos.toNat + n.toNat - st.pos.toNat))) := by
        simp only [stepF, hneg, if_false, h, Res.ofOpt]
      rw [e]
      simp only [Nat.add_sub_cancel_left]
      have hd : decide ((Out.data ((sv.blob.drop st.pos.toNat).take n.toNat)) = Out.ioError) = false := by
        simp
      rw [hd]
      simp only [specStepF, specStep, hneg, if_false, Bool.false_eq_true]
      refine ⟨?_, ?_, hinv''⟩ <;> first | rfl | trivial

/-- **Refinement under faults.** For every history of seek/tell/read operations in which any
number of reads are hit by a download failure at any point of their chunk loop: every output is
that of the specification in which the failed reads are no-ops — later reads return exactly
`blob[pos:pos+n]` at the position the *successful* operations define; a failure neither moves
the position nor corrupts the cache. -/
theorem faulty_history_refines (sv : Server) (cfg : Cfg) (hcs : 0 < cfg.cs) (hk : 2 ≤ cfg.keep) :
    ∀ (ops : List OpF) (st : St), Inv sv cfg st.cache →
      ValidFromF sv st.pos ops (failedFlags (runF sv cfg st ops).2) →
      (runF sv cfg st ops).2 = (specRunF sv st.pos ops (failedFlags (runF sv cfg st ops).2)).2 ∧
      (runF sv cfg st ops).1.pos = (specRunF sv st.pos ops (failedFlags (runF sv cfg st ops).2)).1 ∧
      Inv sv cfg (runF sv cfg st ops).1.cache := by
  intro ops
  induction ops with
  | nil => intro st hinv _; exact ⟨rfl, rfl, hinv⟩
  | cons op ops ih =>
    intro st hinv hv
    simp only [runF, failedFlags, List.map_cons, ValidFromF, List.headD_cons, List.tail_cons] at hv ⊢
    obtain ⟨hv1, hv2⟩ := hv
    obtain ⟨ho, hp, hi⟩ := stepF_refines sv cfg hcs hk st op hinv hv1
    simp only [specRunF, List.headD_cons, List.tail_cons]
    rw [← hp] at hv2 ⊢
    obtain ⟨h1, h2, h3⟩ := ih _ hi hv2
    exact ⟨by rw [← ho]; exact congrArg _ h1, h2, h3⟩

/-- a read that fails leaves the position where it was and the cache correct -/
theorem failed_read_changes_nothing (sv : Server) (cfg : Cfg) (hcs : 0 < cfg.cs) (hk : 2 ≤ cfg.keep)
    (st : St) (n : Int) (budget : Nat) (hinv : Inv sv cfg st.cache)
    (hv : 0 ≤ st.pos ∧ 0 ≤ n ∧ st.pos + n ≤ sv.len)
    (hfail : (stepF sv cfg st (.readF n budget)).2 = .ioError) :
    (stepF sv cfg st (.readF n budget)).1.pos = st.pos ∧
    Inv sv cfg (stepF sv cfg st (.readF n budget)).1.cache := by
  obtain ⟨_, hp, hi⟩ := stepF_refines sv cfg hcs hk st (.readF n budget) hinv hv
  rw [hfail] at hp
  exact ⟨by simpa [specStepF] using hp, hi⟩

/-- **Retry.** If a read fails, repeating it returns exactly the bytes it was asked for. -/
theorem retry_returns_bytes (sv : Server) (cfg : Cfg) (hcs : 0 < cfg.cs) (hk : 2 ≤ cfg.keep)
    (st : St) (n : Int) (budget : Nat) (hinv : Inv sv cfg st.cache)
    (hv : 0 ≤ st.pos ∧ 0 ≤ n ∧ st.pos + n ≤ sv.len)
    (hfail : (stepF sv cfg st (.readF n budget)).2 = .ioError) :
    (step sv cfg (stepF sv cfg st (.readF n budget)).1 (.read n)).2 =
      .data ((sv.blob.drop st.pos.toNat).take n.toNat) := by
  obtain ⟨hp, hi⟩ := failed_read_changes_nothing sv cfg hcs hk st n budget hinv hv hfail
  have := (step_refines sv cfg hcs hk _ (.read n) hi (by rw [hp]; exact hv)).1
  rw [this, hp]
  have hneg : ¬ (st.pos < 0 ∨ n < 0) := by omega
  simp [specStep, hneg]

/-- an operation without injected fault never reports an I/O error -/
theorem plain_never_fails (sv : Server) (cfg : Cfg) (hcs : 0 < cfg.cs) (hk : 2 ≤ cfg.keep)
    (st : St) (op : Op) (hinv : Inv sv cfg st.cache)
    (hvalid : match op with
      | .read n => 0 ≤ st.pos ∧ 0 ≤ n ∧ st.pos + n ≤ sv.len
      | _ => True) :
    (stepF sv cfg st (.plain op)).2 ≠ .ioError := by
  simp only [stepF]
  rw [(step_refines sv cfg hcs hk st op hinv hvalid).1]
  exact specStep_ne_ioError sv st.pos op

/-- non-vacuity: a three-chunk read whose second download fails, a `tell`, the retry, and a
read served from the cache although no download is allowed any more -/
example : (runF { blob := [1, 2, 3, 4, 5, 6], oob := [9] } { cs := 2, keep := 2 } St.init
    [.readF 5 1, .plain .tell, .plain (.read 5), .plain (.seek 0 0), .readF 1 0]).2
    = [.ioError, .pos 0, .data [1, 2, 3, 4, 5], .unit, .data [1]] := by
  decide

example : ValidFromF { blob := [1, 2, 3, 4, 5, 6], oob := [9] } 0
    [.readF 5 1, .plain .tell, .plain (.read 5), .plain (.seek 0 0), .readF 1 0]
    [true, false, false, false, false] := by
  decide

/-- what the property forbids (and a seeded change did): moving the position before the
download makes the retry return other bytes — in the specification a failed read is a no-op -/
theorem advance_before_download_witness :
    (specRunF { blob := [1, 2, 3, 4], oob := [] } 0 [.readF 2 0, .plain (.read 2)] [true, false]).2
      = [.ioError, .data [1, 2]] := by
  decide

end DclabModel.C19
