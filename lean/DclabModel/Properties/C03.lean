import DclabModel.Lemmas.Filter
/-!
# C03 — The combined event filter equals the specification of the current settings

Property theorems only.  The model (`Model/Filter.lean`) mirrors `Filter.update` with its
diff of settings, the per-feature box-filter cache, the polygon cache, the manual array, the
invalid-event exclusion and the event limit; `spec` is the stateless conjunction.

All theorems quantify over: every dataset `d` (any number of events and scalar features with
distinct names, values `nan`, `±inf`, any rational), every point-in-polygon function `pip`,
every random source `choice`, and every finite history of operations
{set/change a min or max key, remove a key, create a polygon or edit its axes, points or
inverted flag in place (each alone or together; the content triple is the cache key),
add/remove a polygon filter, toggle invalid removal, toggle enable, set/clear the limit, edit
the manual array, reset, apply (with or without `force`)}.  An `apply` while some feature has
only one of min/max set raises `ValueError` – the history simply continues.  The only
remaining guard (`ValidHist`) is that polygon filters in the settings have their axes in the
dataset (otherwise the code raises a `KeyError` that is not modelled).

The main theorems are about the current code (`Ver.f25`, after `fix-F03` and `fix-F25`);
`removed_range_witness` (`Ver.orig`) and `failed_apply_witness` (`Ver.f03`) show that each of
the two earlier revisions violates the property.
-/
namespace DclabModel.C03
open DclabModel.Filter DclabModel.Down

variable (choice : List Nat → Nat → List Nat) (pip : Nat → Val → Val → Bool) (d : Data)

/-- one operation: the invariant is kept, settings / registry / manual array evolve as in
the specification run; an `apply` raises iff some feature has a half-set range (a stateless
criterion) and then leaves `all` alone, otherwise it produces `spec` of the current settings -/
theorem step_refines (hd : (d.cols.map (fun e => e.1)).Nodup) (s : Sys) (op : Op)
    (hinv : Inv pip d s.st)
    (hvalid : match op with
      | .apply _ => ValidAt d s
      | _ => True) :
    Inv pip d (step .f25 choice pip d s op).1.st ∧
    (step .f25 choice pip d s op).1.cfg = (cfgStep s.cfg s.reg s.st.manual op).1 ∧
    (step .f25 choice pip d s op).1.reg = (cfgStep s.cfg s.reg s.st.manual op).2.1 ∧
    (step .f25 choice pip d s op).1.st.manual = (cfgStep s.cfg s.reg s.st.manual op).2.2.1 ∧
    (∀ force, op = .apply force →
      (anyHalf s.cfg.ranges = true →
        (step .f25 choice pip d s op).2 = .errValue ∧
        (step .f25 choice pip d s op).1.st.aAll = s.st.aAll) ∧
      (anyHalf s.cfg.ranges = false →
        (step .f25 choice pip d s op).2 = .ok ∧
        (step .f25 choice pip d s op).1.st.aAll = spec choice pip d s.cfg s.reg s.st.manual ∧
        (step .f25 choice pip d s op).1.st.aBox = toList d.n (specBox d s.cfg) ∧
        (step .f25 choice pip d s op).1.st.aPoly = toList d.n (specPoly pip d s.cfg s.reg) ∧
        (step .f25 choice pip d s op).1.st.aInv = toList d.n (invalidMask d s.cfg.removeInvalid))) := by
  have hkeep : ∀ m : Mask, Inv pip d { s.st with manual := m } :=
    fun _ => ⟨hinv.box_ok, hinv.box_miss, hinv.poly_ok, hinv.old_ok⟩
  cases op with
  | apply force =>
    cases hh : anyHalf s.cfg.ranges with
    | true =>
      obtain ⟨h1, h2, h3, h4, _⟩ := update_err choice pip d s.cfg s.reg force s.st hinv hh hvalid
      refine ⟨h2, rfl, rfl, h3, ?_⟩
      intro f hf
      injection hf with hf
      subst hf
      exact ⟨fun _ => ⟨h1, h4⟩, fun h => (by cases h)⟩
    | false =>
      obtain ⟨h1, h2, h3, h4, h5, h6, h7⟩ :=
        update_ok choice pip d hd s.cfg s.reg force s.st hinv hh hvalid
      refine ⟨h2, rfl, rfl, h3, ?_⟩
      intro f hf
      injection hf with hf
      subst hf
      exact ⟨fun h => (by cases h), fun _ => ⟨h1, h4, h5, h6, h7⟩⟩
  | reset => exact ⟨inv_init pip d d.n, rfl, rfl, rfl, fun f hf => by cases hf⟩
  | setKey f mx v => exact ⟨hkeep _, rfl, rfl, rfl, fun f hf => by cases hf⟩
  | popKey f mx => exact ⟨hkeep _, rfl, rfl, rfl, fun f hf => by cases hf⟩
  | polySet id p => exact ⟨hkeep _, rfl, rfl, rfl, fun f hf => by cases hf⟩
  | polyAxes id ax ay => exact ⟨hkeep _, rfl, rfl, rfl, fun f hf => by cases hf⟩
  | polyPoints id sh => exact ⟨hkeep _, rfl, rfl, rfl, fun f hf => by cases hf⟩
  | polyInv id b => exact ⟨hkeep _, rfl, rfl, rfl, fun f hf => by cases hf⟩
  | polyAdd id => exact ⟨hkeep _, rfl, rfl, rfl, fun f hf => by cases hf⟩
  | polyRm id => exact ⟨hkeep _, rfl, rfl, rfl, fun f hf => by cases hf⟩
  | setInvalid b => exact ⟨hkeep _, rfl, rfl, rfl, fun f hf => by cases hf⟩
  | setEnable b => exact ⟨hkeep _, rfl, rfl, rfl, fun f hf => by cases hf⟩
  | setLimit k => exact ⟨hkeep _, rfl, rfl, rfl, fun f hf => by cases hf⟩
  | manual i b => exact ⟨hkeep _, rfl, rfl, rfl, fun f hf => by cases hf⟩

/-- **Refinement (headline theorem).** For every history, starting from any coherent state,
every `apply` behaves as the stateless specification `specApply` of the settings, polygon
registry and manual array current at that `apply`: it raises exactly when some feature has
only one of min/max set, and otherwise `all` equals `spec` – whatever was set, applied,
changed, removed, cached, or attempted and failed before. -/
theorem update_refines_spec (hd : (d.cols.map (fun e => e.1)).Nodup) :
    ∀ (ops : List Op) (s : Sys), Inv pip d s.st → ValidHist .f25 choice pip d s ops →
      runAll .f25 choice pip d s ops = specAll choice pip d s.cfg s.reg s.st.manual ops := by
  intro ops
  induction ops with
  | nil => intro s _ _; rfl
  | cons op ops ih =>
    intro s hinv hv
    obtain ⟨hv1, hv2⟩ := hv
    obtain ⟨hi, hc, hr, hm, ha⟩ := step_refines choice pip d hd s op hinv hv1
    have hrec := ih _ hi hv2
    rw [hc, hr, hm] at hrec
    cases op with
    | apply force =>
      simp only [runAll, specAll, specApply]
      rw [hrec]
      cases hh : anyHalf s.cfg.ranges with
      | true =>
        rw [((ha force rfl).1 hh).1]
        simp
      | false =>
        rw [((ha force rfl).2 hh).1, ((ha force rfl).2 hh).2.1]
        simp
    | reset => simp only [runAll, specAll]; exact hrec
    | setKey f mx v => simp only [runAll, specAll]; exact hrec
    | popKey f mx => simp only [runAll, specAll]; exact hrec
    | polySet id p => simp only [runAll, specAll]; exact hrec
    | polyAxes id ax ay => simp only [runAll, specAll]; exact hrec
    | polyPoints id sh => simp only [runAll, specAll]; exact hrec
    | polyInv id b => simp only [runAll, specAll]; exact hrec
    | polyAdd id => simp only [runAll, specAll]; exact hrec
    | polyRm id => simp only [runAll, specAll]; exact hrec
    | setInvalid b => simp only [runAll, specAll]; exact hrec
    | setEnable b => simp only [runAll, specAll]; exact hrec
    | setLimit k => simp only [runAll, specAll]; exact hrec
    | manual i b => simp only [runAll, specAll]; exact hrec

/-- the headline theorem for a freshly created dataset -/
theorem history_all_eq_spec (hd : (d.cols.map (fun e => e.1)).Nodup) (ops : List Op)
    (hv : ValidHist .f25 choice pip d (Sys.init d.n) ops) :
    runAll .f25 choice pip d (Sys.init d.n) ops =
      specAll choice pip d Cfg.default (Sys.init d.n).reg (fun _ => true) ops :=
  update_refines_spec choice pip d hd ops (Sys.init d.n) (inv_init pip d d.n) hv

/-- the cache-coherence invariant holds after every history (raising applies included) -/
theorem history_inv (hd : (d.cols.map (fun e => e.1)).Nodup) :
    ∀ (ops : List Op) (s : Sys), Inv pip d s.st → ValidHist .f25 choice pip d s ops →
      Inv pip d (run .f25 choice pip d s ops).st := by
  intro ops
  induction ops with
  | nil => intro s h _; exact h
  | cons op ops ih =>
    intro s hinv hv
    exact ih _ (step_refines choice pip d hd s op hinv hv.1).1 hv.2

/-- **After any history** (with any number of failed applies in it), an `apply` at settings
without half-set range succeeds and yields `all`, `box`, `polygon`, `invalid` equal to their
specification for the settings current at that moment. -/
theorem apply_after_history (hd : (d.cols.map (fun e => e.1)).Nodup) (ops : List Op)
    (hv : ValidHist .f25 choice pip d (Sys.init d.n) ops) (force : List Feat)
    (hva : ValidAt d (run .f25 choice pip d (Sys.init d.n) ops))
    (hh : anyHalf (run .f25 choice pip d (Sys.init d.n) ops).cfg.ranges = false) :
    let s := run .f25 choice pip d (Sys.init d.n) ops
    let r := step .f25 choice pip d s (.apply force)
    r.2 = .ok ∧
    r.1.st.aAll = spec choice pip d s.cfg s.reg s.st.manual ∧
    r.1.st.aBox = toList d.n (specBox d s.cfg) ∧
    r.1.st.aPoly = toList d.n (specPoly pip d s.cfg s.reg) ∧
    r.1.st.aInv = toList d.n (invalidMask d s.cfg.removeInvalid) := by
  intro s r
  have hinv := history_inv choice pip d hd ops (Sys.init d.n) (inv_init pip d d.n) hv
  exact ((step_refines choice pip d hd s (.apply force) hinv hva).2.2.2.2 force rfl).2 hh

/-- **A failed apply is harmless.** After any history, an `apply` at settings with a half-set
range raises `ValueError`, keeps the invariant and leaves `all` as it was. -/
theorem failed_apply_keeps_state (hd : (d.cols.map (fun e => e.1)).Nodup) (ops : List Op)
    (hv : ValidHist .f25 choice pip d (Sys.init d.n) ops) (force : List Feat)
    (hva : ValidAt d (run .f25 choice pip d (Sys.init d.n) ops))
    (hh : anyHalf (run .f25 choice pip d (Sys.init d.n) ops).cfg.ranges = true) :
    let s := run .f25 choice pip d (Sys.init d.n) ops
    let r := step .f25 choice pip d s (.apply force)
    r.2 = .errValue ∧ r.1.st.aAll = s.st.aAll ∧ Inv pip d r.1.st := by
  intro s r
  have hinv := history_inv choice pip d hd ops (Sys.init d.n) (inv_init pip d d.n) hv
  have h := step_refines choice pip d hd s (.apply force) hinv hva
  exact ⟨((h.2.2.2.2 force rfl).1 hh).1, ((h.2.2.2.2 force rfl).1 hh).2, h.1⟩

/-- **History independence.** Two histories that end in the same settings, registry and
manual array give the same `all`, whatever happened before and whatever is forced. -/
theorem history_independent (hd : (d.cols.map (fun e => e.1)).Nodup) (ops1 ops2 : List Op)
    (hv1 : ValidHist .f25 choice pip d (Sys.init d.n) ops1)
    (hv2 : ValidHist .f25 choice pip d (Sys.init d.n) ops2) (f1 f2 : List Feat)
    (ha1 : ValidAt d (run .f25 choice pip d (Sys.init d.n) ops1))
    (ha2 : ValidAt d (run .f25 choice pip d (Sys.init d.n) ops2))
    (hh : anyHalf (run .f25 choice pip d (Sys.init d.n) ops1).cfg.ranges = false)
    (hc : (run .f25 choice pip d (Sys.init d.n) ops1).cfg = (run .f25 choice pip d (Sys.init d.n) ops2).cfg)
    (hr : (run .f25 choice pip d (Sys.init d.n) ops1).reg = (run .f25 choice pip d (Sys.init d.n) ops2).reg)
    (hm : (run .f25 choice pip d (Sys.init d.n) ops1).st.manual = (run .f25 choice pip d (Sys.init d.n) ops2).st.manual) :
    (step .f25 choice pip d (run .f25 choice pip d (Sys.init d.n) ops1) (.apply f1)).1.st.aAll =
    (step .f25 choice pip d (run .f25 choice pip d (Sys.init d.n) ops2) (.apply f2)).1.st.aAll := by
  rw [(apply_after_history choice pip d hd ops1 hv1 f1 ha1 hh).2.1,
      (apply_after_history choice pip d hd ops2 hv2 f2 ha2 (by rw [← hc]; exact hh)).2.1, hc, hr, hm]

/-! ## what `spec` says (the clauses named by the property) -/

/-- with filters disabled every event is selected -/
theorem disabled_all_true (cfg : Cfg) (reg : Nat → Poly) (manual : Mask)
    (h : cfg.enable = false) : spec choice pip d cfg reg manual = List.replicate d.n true := by
  simp [spec, h]

/-- the per-event test of an active range (min and max both set and different): NaN is
never inside; otherwise `min(lo,hi) ≤ x ≤ max(lo,hi)` -/
theorem active_range_test (r : Ranges) (f : Feat) (col : Nat → Val) (lo hi : Val)
    (h0 : getR r (f, false) = some lo) (h1 : getR r (f, true) = some hi) (hne : lo ≠ hi) (i : Nat) :
    boxMask r f col i =
      (if col i = .nan then false
       else vle (if vgt lo hi then hi else lo) (col i) && vle (col i) (if vgt lo hi then lo else hi)) := by
  simp [boxMask, h0, h1, hne]

/-- NaN is never inside an active range -/
theorem nan_never_in_active_range (r : Ranges) (f : Feat) (col : Nat → Val) (lo hi : Val)
    (h0 : getR r (f, false) = some lo) (h1 : getR r (f, true) = some hi) (hne : lo ≠ hi)
    (i : Nat) (hx : col i = .nan) : boxMask r f col i = false := by
  rw [active_range_test r f col lo hi h0 h1 hne, if_pos hx]

/-- bounds are inclusive: an event whose value equals the min or the max bound is inside -/
theorem bounds_inclusive (r : Ranges) (f : Feat) (col : Nat → Val) (lo hi : Val)
    (h0 : getR r (f, false) = some lo) (h1 : getR r (f, true) = some hi) (hne : lo ≠ hi)
    (hlo : lo ≠ .nan) (hhi : hi ≠ .nan) (i : Nat) (hx : col i = lo ∨ col i = hi) :
    boxMask r f col i = true := by
  rw [active_range_test r f col lo hi h0 h1 hne]
  have hnot : ¬ vgt lo hi = true → vle lo hi = true := by
    intro hg
    rcases vle_total lo hi hlo hhi with h | h
    · exact h
    · exfalso; apply hg; simp [vgt, h, hne]
  have hgt : vgt lo hi = true → vle hi lo = true := by
    intro hg; simp only [vgt, Bool.and_eq_true] at hg; exact hg.1
  rcases hx with hx | hx <;> rw [hx]
  · rw [if_neg hlo]
    by_cases hg : vgt lo hi = true
    · simp [hg, hgt hg, vle_refl lo hlo]
    · simp [hg, hnot hg, vle_refl lo hlo]
  · rw [if_neg hhi]
    by_cases hg : vgt lo hi = true
    · simp [hg, hgt hg, vle_refl hi hhi]
    · simp [hg, hnot hg, vle_refl hi hhi]

/-- bounds given in reverse order are swapped: exchanging min and max does not change the
box filter -/
theorem reversed_bounds_swapped (r r' : Ranges) (f : Feat) (col : Nat → Val) (a b : Val)
    (h0 : getR r (f, false) = some a) (h1 : getR r (f, true) = some b)
    (h0' : getR r' (f, false) = some b) (h1' : getR r' (f, true) = some a)
    (ha : a ≠ .nan) (hb : b ≠ .nan) : boxMask r f col = boxMask r' f col := by
  by_cases hne : a = b
  · subst hne; simp [boxMask, h0, h1, h0', h1']
  · funext i
    rw [active_range_test r f col a b h0 h1 hne, active_range_test r' f col b a h0' h1' (Ne.symm hne)]
    have hab : vgt a b = true ↔ ¬ vgt b a = true := by
      simp only [vgt, Bool.and_eq_true, bne_iff_ne, ne_eq]
      constructor
      · intro h h'
        exact hne (vle_antisymm a b h'.1 h.1)
      · intro h
        rcases vle_total a b ha hb with h2 | h2
        · exfalso; exact h ⟨h2, Ne.symm hne⟩
        · exact ⟨h2, hne⟩
    by_cases hg : vgt a b = true
    · have := hab.1 hg
      simp [hg, this]
    · have : vgt b a = true := by
        by_cases h' : vgt b a = true
        · exact h'
        · exact absurd (hab.2 h') hg
      simp [hg, this]

/-- a range whose min equals its max is inactive -/
theorem min_eq_max_inactive (r : Ranges) (f : Feat) (col : Nat → Val) (v : Val)
    (h0 : getR r (f, false) = some v) (h1 : getR r (f, true) = some v) :
    boxMask r f col = fun _ => true := by
  simp [boxMask, h0, h1]

/-- a feature without both keys has no box filter -/
theorem absent_range_inactive (r : Ranges) (f : Feat) (col : Nat → Val)
    (h : getR r (f, false) = none ∨ getR r (f, true) = none) :
    boxMask r f col = fun _ => true := by
  unfold boxMask
  rcases h with h | h
  · rw [h]
  · rw [h]; cases getR r (f, false) <;> rfl

/-- **Event limit.** With a limit `> 0` and a well-behaved random source, exactly
`min(limit, #qualifying)` of the qualifying events remain (all of them if not more than the
limit qualify), and only qualifying events remain. -/
theorem limit_exact (hc : ChoiceOK choice) (limit : Nat) (hl : limit > 0) (pre : List Bool) :
    cnt (limitL choice limit pre) = min limit (cnt pre) ∧
    (limitL choice limit pre).length = pre.length ∧
    ∀ i, (limitL choice limit pre).getD i false = true → pre.getD i false = true := by
  unfold limitL
  have hs := rand_sel choice (fun _ : Bool => true) (List.replicate (cnt pre) true) limit false
  have hn := rand_cnt choice hc (fun _ : Bool => true) (List.replicate (cnt pre) true) limit false
  have hlen : (rand choice (fun _ : Bool => true) (List.replicate (cnt pre) true) limit false).2.length
      = cnt pre := by rw [hs.2]; simp
  refine ⟨?_, length_scatter _ _, fun i => scatter_le _ _ i⟩
  rw [cnt_scatter _ _ hlen, hn.2, hn.1]
  have : limit ≠ 0 := by omega
  simp [this, randEligible]

/-- the limit is reproducible: `all` is a function of the pre-limit selection and the limit -/
theorem limit_reproducible (limit limit' : Nat) (pre pre' : List Bool) (h1 : limit = limit')
    (h2 : pre = pre') : limitL choice limit pre = limitL choice limit' pre' := by
  subst h1 h2; rfl

/-- `spec` with an active limit: the count clause of the property -/
theorem spec_limit_count (hc : ChoiceOK choice) (cfg : Cfg) (reg : Nat → Poly) (manual : Mask)
    (he : cfg.enable = true) (hl : cfg.limit > 0) :
    cnt (spec choice pip d cfg reg manual) =
      min cfg.limit (cnt (toList d.n (specPre pip d cfg reg manual))) := by
  simp only [spec, he, if_true, hl]
  exact (limit_exact choice hc cfg.limit hl _).1

/-! ## Witnesses -/

/-- three events with `area` = 0, 1, 3 (feature 0) and a second feature 1 -/
def wData : Data :=
  { n := 3, cols := [(0, fun i => [Val.fin 0, .fin 1, .fin 3].getD i .nan),
                     (1, fun i => [Val.fin 5, .fin 6, .fin 7].getD i .nan)] }
def wChoice : List Nat → Nat → List Nat := fun pool k => pool.take k
def wPip : Nat → Val → Val → Bool := fun _ _ _ => true

/-- **F03.** History: set `0 min = 1`, `0 max = 2`, apply, remove both keys, apply. -/
def wF03 : List Op :=
  [.setKey 0 false (.fin 1), .setKey 0 true (.fin 2), .apply [],
   .popKey 0 false, .popKey 0 true, .apply []]

/-- With the diff rule *before* `fix-F03` the removed range keeps filtering: the second `all`
is `[F,T,F]` although the current settings select everything.  The property is violated. -/
theorem removed_range_witness :
    runAll .orig wChoice wPip wData (Sys.init 3) wF03
      = [some [false, true, false], some [false, true, false]] ∧
    specAll wChoice wPip wData Cfg.default (Sys.init 3).reg (fun _ => true) wF03
      = [some [false, true, false], some [true, true, true]] := by
  constructor <;> decide +kernel

/-- the fixed diff rule gives the specification on the same history -/
theorem removed_range_fixed :
    runAll .f25 wChoice wPip wData (Sys.init 3) wF03
      = [some [false, true, false], some [true, true, true]] := by
  decide +kernel

/-- **F25.** History: range 1..2 on feature 0, apply; change it to 3..4 *and* set only
`1 min`, apply (raises `ValueError`); restore 1..2, remove `1 min`, apply. -/
def wF25 : List Op :=
  [.setKey 0 false (.fin 1), .setKey 0 true (.fin 2), .apply [],
   .setKey 0 false (.fin 3), .setKey 0 true (.fin 4), .setKey 1 false (.fin 0), .apply [],
   .setKey 0 false (.fin 1), .setKey 0 true (.fin 2), .popKey 1 false, .apply []]

/-- Before `fix-F25` (F03 already fixed) the failed `apply` had recomputed the box filter of
feature 0 before raising: the last `all` is `[F,F,T]` (range 3..4) although the settings say
1..2 (`[F,T,F]`).  The property is violated. -/
theorem failed_apply_witness :
    runAll .f03 wChoice wPip wData (Sys.init 3) wF25
      = [some [false, true, false], none, some [false, false, true]] ∧
    specAll wChoice wPip wData Cfg.default (Sys.init 3).reg (fun _ => true) wF25
      = [some [false, true, false], none, some [false, true, false]] := by
  constructor <;> decide +kernel

/-- the current code gives the specification on the same history -/
theorem failed_apply_fixed :
    runAll .f25 wChoice wPip wData (Sys.init 3) wF25
      = [some [false, true, false], none, some [false, true, false]] := by
  decide +kernel

/-! ## Non-vacuity -/

theorem wData_nodup : (wData.cols.map (fun e => e.1)).Nodup := by decide

/-- the F25 history (with its raising apply) satisfies the hypotheses of the headline theorem -/
theorem wF25_valid : ValidHist .f25 wChoice wPip wData (Sys.init 3) wF25 := by
  refine ⟨trivial, trivial, ?_, trivial, trivial, trivial, ?_, trivial, trivial, trivial, ?_, trivial⟩ <;>
    (unfold ValidAt; decide +kernel)

/-- … and the raising apply really is in it -/
example : anyHalf (run .f25 wChoice wPip wData (Sys.init 3) (wF25.take 6)).cfg.ranges = true := by
  decide +kernel

/-- changing only the axes of an applied polygon filter re-evaluates it on the new feature pair -/
example : runAll .f25 wChoice (fun _ x _ => vle (.fin 1) x && vle x (.fin 5)) wData (Sys.init 3)
    [.polySet 1 ⟨0, 1, 7, false⟩, .polyAdd 1, .apply [], .polyAxes 1 1 0, .apply [],
     .polyInv 1 true, .apply [], .polyPoints 1 8, .apply []]
    = [some [false, true, true], some [true, false, false], some [false, true, true],
       some [false, true, true]] := by
  decide +kernel

/-- a history with a polygon filter, a limit, a manual exclusion and a reset -/
example : runAll .f25 wChoice (fun s x y => s == 7 && vle (.fin 1) x && vle y (.fin 6)) wData (Sys.init 3)
    [.polySet 1 ⟨0, 1, 7, false⟩, .polyAdd 1, .apply [], .polySet 1 ⟨0, 1, 7, true⟩, .apply [],
     .polyRm 1, .manual 0 false, .setLimit 1, .apply [], .reset, .apply []]
    = [some [false, true, false], some [true, false, true], some [false, true, false],
       some [true, true, true]] := by
  decide +kernel

end DclabModel.C03
