import DclabModel.Lemmas.Filter
import DclabModel.Lemmas.FilterX
/-!
# C03 — The combined event filter equals the specification of the current settings

Property theorems only.  The model (`Model/Filter.lean`) mirrors `Filter.update` with its
diff of settings, the per-feature box-filter cache, the polygon cache, the manual array, the
invalid-event exclusion and the event limit; `spec` is the stateless conjunction.

All theorems quantify over: every dataset `d` (any number of events and scalar features with
distinct names, values `nan`, `±inf`, any rational), every point-in-polygon function `pip`,
every random source `choice`, and every finite history of operations
{set/change a min or max key, remove a key, create a polygon or edit its axes, points or
inverted flag in place (each alone or together; the content triple is the cache key),
add/remove a polygon filter, toggle invalid removal, toggle enable, set/clear the limit, edit
the manual array, reset, apply (with or without `force`)}.  An `apply` while some feature has
only one of min/max set raises `ValueError` – the history simply continues.  The only
remaining guard (`ValidHist`) is that polygon filters in the settings have their axes in the
dataset (otherwise the code raises a `KeyError` that is not modelled).

The main theorems are about the current code (`Ver.f25`, after `fix-F03` and `fix-F25`);
`removed_range_witness` (`Ver.orig`) and `failed_apply_witness` (`Ver.f03`) show that each of
the two earlier revisions violates the property.
-/
namespace DclabModel.C03
open DclabModel.Filter DclabModel.Down

variable (choice : List Nat → Nat → List Nat) (pip : Nat → Val → Val → Bool) (d : Data)

/-- one operation: the invariant is kept, settings / registry / manual array evolve as in
the specification run; an `apply` raises iff some feature has a half-set range (a stateless
criterion) and then leaves `all` alone, otherwise it produces `spec` of the current settings -/
theorem step_refines (hd : (d.cols.map (fun e => e.1)).Nodup) (s : Sys) (op : Op)
    (hinv : Inv pip d s.st)
    (hvalid : match op with
      | .apply _ => ValidAt d s
      | _ => True) :
    Inv pip d (step .f25 choice pip d s op).1.st ∧
    (step .f25 choice pip d s op).1.cfg = (cfgStep s.cfg s.reg s.st.manual op).1 ∧
    (step .f25 choice pip d s op).1.reg = (cfgStep s.cfg s.reg s.st.manual op).2.1 ∧
    (step .f25 choice pip d s op).1.st.manual = (cfgStep s.cfg s.reg s.st.manual op).2.2.1 ∧
    (∀ force, op = .apply force →
      (anyHalf s.cfg.ranges = true →
        (step .f25 choice pip d s op).2 = .errValue ∧
        (step .f25 choice pip d s op).1.st.aAll = s.st.aAll) ∧
      (anyHalf s.cfg.ranges = false →
        (step .f25 choice pip d s op).2 = .ok ∧
        (step .f25 choice pip d s op).1.st.aAll = spec choice pip d s.cfg s.reg s.st.manual ∧
        (step .f25 choice pip d s op).1.st.aBox = toList d.n (specBox d s.cfg) ∧
        (step .f25 choice pip d s op).1.st.aPoly = toList d.n (specPoly pip d s.cfg s.reg) ∧
        (step .f25 choice pip d s op).1.st.aInv = toList d.n (invalidMask d s.cfg.removeInvalid))) := by
  have hkeep : ∀ m : Mask, Inv pip d { s.st with manual := m } :=
    fun _ => ⟨hinv.box_ok, hinv.box_miss, hinv.poly_ok, hinv.old_ok⟩
  cases op with
  | apply force =>
    cases hh : anyHalf s.cfg.ranges with
    | true =>
      obtain ⟨h1, h2, h3, h4, _⟩ := update_err choice pip d s.cfg s.reg force s.st hinv hh hvalid
      refine ⟨h2, rfl, rfl, h3, ?_⟩
      intro f hf
      injection hf with hf
      subst hf
      exact ⟨fun _ => ⟨h1, h4⟩, fun h => (by cases h)⟩
    | false =>
      obtain ⟨h1, h2, h3, h4, h5, h6, h7⟩ :=
        update_ok choice pip d hd s.cfg s.reg force s.st hinv hh hvalid
      refine ⟨h2, rfl, rfl, h3, ?_⟩
      intro f hf
      injection hf with hf
      subst hf
      exact ⟨fun h => (by cases h), fun _ => ⟨h1, h4, h5, h6, h7⟩⟩
  | reset => exact ⟨inv_init pip d d.n, rfl, rfl, rfl, fun f hf => by cases hf⟩
  | setKey f mx v => exact ⟨hkeep _, rfl, rfl, rfl, fun f hf => by cases hf⟩
  | popKey f mx => exact ⟨hkeep _, rfl, rfl, rfl, fun f hf => by cases hf⟩
  | polySet id p => exact ⟨hkeep _, rfl, rfl, rfl, fun f hf => by cases hf⟩
  | polyAxes id ax ay => exact ⟨hkeep _, rfl, rfl, rfl, fun f hf => by cases hf⟩
  | polyPoints id sh => exact ⟨hkeep _, rfl, rfl, rfl, fun f hf => by cases hf⟩
  | polyInv id b => exact ⟨hkeep _, rfl, rfl, rfl, fun f hf => by cases hf⟩
  | polyAdd id => exact ⟨hkeep _, rfl, rfl, rfl, fun f hf => by cases hf⟩
  | polyRm id => exact ⟨hkeep _, rfl, rfl, rfl, fun f hf => by cases hf⟩
  | setInvalid b => exact ⟨hkeep _, rfl, rfl, rfl, fun f hf => by cases hf⟩
  | setEnable b => exact ⟨hkeep _, rfl, rfl, rfl, fun f hf => by cases hf⟩
  | setLimit k => exact ⟨hkeep _, rfl, rfl, rfl, fun f hf => by cases hf⟩
  | manual i b => exact ⟨hkeep _, rfl, rfl, rfl, fun f hf => by cases hf⟩

/-- **Refinement (headline theorem).** For every history, starting from any coherent state,
every `apply` behaves as the stateless specification `specApply` of the settings, polygon
registry and manual array current at that `apply`: it raises exactly when some feature has
only one of min/max set, and otherwise `all` equals `spec` – whatever was set, applied,
changed, removed, cached, or attempted and failed before. -/
theorem update_refines_spec (hd : (d.cols.map (fun e => e.1)).Nodup) :
    ∀ (ops : List Op) (s : Sys), Inv pip d s.st → ValidHist .f25 choice pip d s ops →
      runAll .f25 choice pip d s ops = specAll choice pip d s.cfg s.reg s.st.manual ops := by
  intro ops
  induction ops with
  | nil => intro s _ _; rfl
  | cons op ops ih =>
    intro s hinv hv
    obtain ⟨hv1, hv2⟩ := hv
    obtain ⟨hi, hc, hr, hm, ha⟩ := step_refines choice pip d hd s op hinv hv1
    have hrec := ih _ hi hv2
    rw [hc, hr, hm] at hrec
    cases op with
    | apply force =>
      simp only [runAll, specAll, specApply]
      rw [hrec]
      cases hh : anyHalf s.cfg.ranges with
      | true =>
        rw [((ha force rfl).1 hh).1]
        simp
      | false =>
        rw [((ha force rfl).2 hh).1, ((ha force rfl).2 hh).2.1]
        simp
    | reset => simp only [runAll, specAll]; exact hrec
    | setKey f mx v => simp only [runAll, specAll]; exact hrec
    | popKey f mx => simp only [runAll, specAll]; exact hrec
    | polySet id p => simp only [runAll, specAll]; exact hrec
    | polyAxes id ax ay => simp only [runAll, specAll]; exact hrec
    | polyPoints id sh => simp only [runAll, specAll]; exact hrec
    | polyInv id b => simp only [runAll, specAll]; exact hrec
    | polyAdd id => simp only [runAll, specAll]; exact hrec
    | polyRm id => simp only [runAll, specAll]; exact hrec
    | setInvalid b => simp only [runAll, specAll]; exact hrec
    | setEnable b => simp only [runAll, specAll]; exact hrec
    | setLimit k => simp only [runAll, specAll]; exact hrec
    | manual i b => simp only [runAll, specAll]; exact hrec

/-- the headline theorem for a freshly created dataset -/
theorem history_all_eq_spec (hd : (d.cols.map (fun e => e.1)).Nodup) (ops : List Op)
    (hv : ValidHist .f25 choice pip d (Sys.init d.n) ops) :
    runAll .f25 choice pip d (Sys.init d.n) ops =
      specAll choice pip d Cfg.default (Sys.init d.n).reg (fun _ => true) ops :=
  update_refines_spec choice pip d hd ops (Sys.init d.n) (inv_init pip d d.n) hv

/-- the cache-coherence invariant holds after every history (raising applies included) -/
theorem history_inv (hd : (d.cols.map (fun e => e.1)).Nodup) :
    ∀ (ops : List Op) (s : Sys), Inv pip d s.st → ValidHist .f25 choice pip d s ops →
      Inv pip d (run .f25 choice pip d s ops).st := by
  intro ops
  induction ops with
  | nil => intro s h _; exact h
  | cons op ops ih =>
    intro s hinv hv
    exact ih _ (step_refines choice pip d hd s op hinv hv.1).1 hv.2

/-- **After any history** (with any number of failed applies in it), an `apply` at settings
without half-set range succeeds and yields `all`, `box`, `polygon`, `invalid` equal to their
specification for the settings current at that moment. -/
theorem apply_after_history (hd : (d.cols.map (fun e => e.1)).Nodup) (ops : List Op)
    (hv : ValidHist .f25 choice pip d (Sys.init d.n) ops) (force : List Feat)
    (hva : ValidAt d (run .f25 choice pip d (Sys.init d.n) ops))
    (hh : anyHalf (run .f25 choice pip d (Sys.init d.n) ops).cfg.ranges = false) :
    let s := run .f25 choice pip d (Sys.init d.n) ops
    let r := step .f25 choice pip d s (.apply force)
    r.2 = .ok ∧
    r.1.st.aAll = spec choice pip d s.cfg s.reg s.st.manual ∧
    r.1.st.aBox = toList d.n (specBox d s.cfg) ∧
    r.1.st.aPoly = toList d.n (specPoly pip d s.cfg s.reg) ∧
    r.1.st.aInv = toList d.n (invalidMask d s.cfg.removeInvalid) := by
  intro s r
  have hinv := history_inv choice pip d hd ops (Sys.init d.n) (inv_init pip d d.n) hv
  exact ((step_refines choice pip d hd s (.apply force) hinv hva).2.2.2.2 force rfl).2 hh

/-- **A failed apply is harmless.** After any history, an `apply` at settings with a half-set
range raises `ValueError`, keeps the invariant and leaves `all` as it was. -/
theorem failed_apply_keeps_state (hd : (d.cols.map (fun e => e.1)).Nodup) (ops : List Op)
    (hv : ValidHist .f25 choice pip d (Sys.init d.n) ops) (force : List Feat)
    (hva : ValidAt d (run .f25 choice pip d (Sys.init d.n) ops))
    (hh : anyHalf (run .f25 choice pip d (Sys.init d.n) ops).cfg.ranges = true) :
    let s := run .f25 choice pip d (Sys.init d.n) ops
    let r := step .f25 choice pip d s (.apply force)
    r.2 = .errValue ∧ r.1.st.aAll = s.st.aAll ∧ Inv pip d r.1.st := by
  intro s r
  have hinv := history_inv choice pip d hd ops (Sys.init d.n) (inv_init pip d d.n) hv
  have h := step_refines choice pip d hd s (.apply force) hinv hva
  exact ⟨((h.2.2.2.2 force rfl).1 hh).1, ((h.2.2.2.2 force rfl).1 hh).2, h.1⟩

/-- **History independence.** Two histories that end in the same settings, registry and
manual array give the same `all`, whatever happened before and whatever is forced. -/
theorem history_independent (hd : (d.cols.map (fun e => e.1)).Nodup) (ops1 ops2 : List Op)
    (hv1 : ValidHist .f25 choice pip d (Sys.init d.n) ops1)
    (hv2 : ValidHist .f25 choice pip d (Sys.init d.n) ops2) (f1 f2 : List Feat)
    (ha1 : ValidAt d (run .f25 choice pip d (Sys.init d.n) ops1))
    (ha2 : ValidAt d (run .f25 choice pip d (Sys.init d.n) ops2))
    (hh : anyHalf (run .f25 choice pip d (Sys.init d.n) ops1).cfg.ranges = false)
    (hc : (run .f25 choice pip d (Sys.init d.n) ops1).cfg = (run .f25 choice pip d (Sys.init d.n) ops2).cfg)
    (hr : (run .f25 choice pip d (Sys.init d.n) ops1).reg = (run .f25 choice pip d (Sys.init d.n) ops2).reg)
    (hm : (run .f25 choice pip d (Sys.init d.n) ops1).st.manual = (run .f25 choice pip d (Sys.init d.n) ops2).st.manual) :
    (step .f25 choice pip d (run .f25 choice pip d (Sys.init d.n) ops1) (.apply f1)).1.st.aAll =
    (step .f25 choice pip d (run .f25 choice pip d (Sys.init d.n) ops2) (.apply f2)).1.st.aAll := by
  rw [(apply_after_history choice pip d hd ops1 hv1 f1 ha1 hh).2.1,
      (apply_after_history choice pip d hd ops2 hv2 f2 ha2 (by rw [← hc]; exact hh)).2.1, hc, hr, hm]

/-! ## what `spec` says (the clauses named by the property) -/

/-- with filters disabled every event is selected -/
theorem disabled_all_true (cfg : Cfg) (reg : Nat → Poly) (manual : Mask)
    (h : cfg.enable = false) : spec choice pip d cfg reg manual = List.replicate d.n true := by
  simp [spec, h]

/-- the per-event test of an active range (min and max both set and different): NaN is
never inside; otherwise `min(lo,hi) ≤ x ≤ max(lo,hi)` -/
theorem active_range_test (r : Ranges) (f : Feat) (col : Nat → Val) (lo hi : Val)
    (h0 : getR r (f, false) = some lo) (h1 : getR r (f, true) = some hi) (hne : lo ≠ hi) (i : Nat) :
    boxMask r f col i =
      (if col i = .nan then false
       else vle (if vgt lo hi then hi else lo) (col i) && vle (col i) (if vgt lo hi then lo else hi)) := by
  simp [boxMask, h0, h1, hne]

/-- NaN is never inside an active range -/
theorem nan_never_in_active_range (r : Ranges) (f : Feat) (col : Nat → Val) (lo hi : Val)
    (h0 : getR r (f, false) = some lo) (h1 : getR r (f, true) = some hi) (hne : lo ≠ hi)
    (i : Nat) (hx : col i = .nan) : boxMask r f col i = false := by
  rw [active_range_test r f col lo hi h0 h1 hne, if_pos hx]

/-- bounds are inclusive: an event whose value equals the min or the max bound is inside -/
theorem bounds_inclusive (r : Ranges) (f : Feat) (col : Nat → Val) (lo hi : Val)
    (h0 : getR r (f, false) = some lo) (h1 : getR r (f, true) = some hi) (hne : lo ≠ hi)
    (hlo : lo ≠ .nan) (hhi : hi ≠ .nan) (i : Nat) (hx : col i = lo ∨ col i = hi) :
    boxMask r f col i = true := by
  rw [active_range_test r f col lo hi h0 h1 hne]
  have hnot : ¬ vgt lo hi = true → vle lo hi = true := by
    intro hg
    rcases vle_total lo hi hlo hhi with h | h
    · exact h
    · exfalso; apply hg; simp [vgt, h, hne]
  have hgt : vgt lo hi = true → vle hi lo = true := by
    intro hg; simp only [vgt, Bool.and_eq_true] at hg; exact hg.1
  rcases hx with hx | hx <;> rw [hx]
  · rw [if_neg hlo]
    by_cases hg : vgt lo hi = true
    · simp [hg, hgt hg, vle_refl lo hlo]
    · simp [hg, hnot hg, vle_refl lo hlo]
  · rw [if_neg hhi]
    by_cases hg : vgt lo hi = true
    · simp [hg, hgt hg, vle_refl hi hhi]
    · simp [hg, hnot hg, vle_refl hi hhi]

/-- bounds given in reverse order are swapped: exchanging min and max does not change the
box filter -/
theorem reversed_bounds_swapped (r r' : Ranges) (f : Feat) (col : Nat → Val) (a b : Val)
    (h0 : getR r (f, false) = some a) (h1 : getR r (f, true) = some b)
    (h0' : getR r' (f, false) = some b) (h1' : getR r' (f, true) = some a)
    (ha : a ≠ .nan) (hb : b ≠ .nan) : boxMask r f col = boxMask r' f col := by
  by_cases hne : a = b
  · subst hne; simp [boxMask, h0, h1, h0', h1']
  · funext i
    rw [active_range_test r f col a b h0 h1 hne, active_range_test r' f col b a h0' h1' (Ne.symm hne)]
    have hab : vgt a b = true ↔ ¬ vgt b a = true := by
      simp only [vgt, Bool.and_eq_true, bne_iff_ne, ne_eq]
      constructor
      · intro h h'
        exact hne (vle_antisymm a b h'.1 h.1)
      · intro h
        rcases vle_total a b ha hb with h2 | h2
        · exfalso; exact h ⟨h2, Ne.symm hne⟩
        · exact ⟨h2, hne⟩
    by_cases hg : vgt a b = true
    · have := hab.1 hg
      simp [hg, this]
    · have : vgt b a = true := by
        by_cases h' : vgt b a = true
        · exact h'
        · exact absurd (hab.2 h') hg
      simp [hg, this]

/-- a range whose min equals its max is inactive -/
theorem min_eq_max_inactive (r : Ranges) (f : Feat) (col : Nat → Val) (v : Val)
    (h0 : getR r (f, false) = some v) (h1 : getR r (f, true) = some v) :
    boxMask r f col = fun _ => true := by
  simp [boxMask, h0, h1]

/-- a feature without both keys has no box filter -/
theorem absent_range_inactive (r : Ranges) (f : Feat) (col : Nat → Val)
    (h : getR r (f, false) = none ∨ getR r (f, true) = none) :
    boxMask r f col = fun _ => true := by
  unfold boxMask
  rcases h with h | h
  · rw [h]
  · rw [h]; cases getR r (f, false) <;> rfl

/-- **Event limit.** With a limit `> 0` and a well-behaved random source, exactly
`min(limit, #qualifying)` of the qualifying events remain (all of them if not more than the
limit qualify), and only qualifying events remain. -/
theorem limit_exact (hc : ChoiceOK choice) (limit : Nat) (hl : limit > 0) (pre : List Bool) :
    cnt (limitL choice limit pre) = min limit (cnt pre) ∧
    (limitL choice limit pre).length = pre.length ∧
    ∀ i, (limitL choice limit pre).getD i false = true → pre.getD i false = true := by
  unfold limitL
  have hs := rand_sel choice (fun _ : Bool => true) (List.replicate (cnt pre) true) limit false
  have hn := rand_cnt choice hc (fun _ : Bool => true) (List.replicate (cnt pre) true) limit false
  have hlen : (rand choice (fun _ : Bool => true) (List.replicate (cnt pre) true) limit false).2.length
      = cnt pre := by rw [hs.2]; simp
  refine ⟨?_, length_scatter _ _, fun i => scatter_le _ _ i⟩
  rw [cnt_scatter _ _ hlen, hn.2, hn.1]
  have : limit ≠ 0 := by omega
  simp [this, randEligible]

/-- the limit is reproducible: `all` is a function of the pre-limit selection and the limit -/
theorem limit_reproducible (limit limit' : Nat) (pre pre' : List Bool) (h1 : limit = limit')
    (h2 : pre = pre') : limitL choice limit pre = limitL choice limit' pre' := by
  subst h1 h2; rfl

/-- `spec` with an active limit: the count clause of the property -/
theorem spec_limit_count (hc : ChoiceOK choice) (cfg : Cfg) (reg : Nat → Poly) (manual : Mask)
    (he : cfg.enable = true) (hl : cfg.limit > 0) :
    cnt (spec choice pip d cfg reg manual) =
      min cfg.limit (cnt (toList d.n (specPre pip d cfg reg manual))) := by
  simp only [spec, he, if_true, hl]
  exact (limit_exact choice hc cfg.limit hl _).1

/-! ## Witnesses -/

/-- three events with `area` = 0, 1, 3 (feature 0) and a second feature 1 -/
def wData : Data :=
  { n := 3, cols := [(0, fun i => [Val.fin 0, .fin 1, .fin 3].getD i .nan),
                     (1, fun i => [Val.fin 5, .fin 6, .fin 7].getD i .nan)] }
def wChoice : List Nat → Nat → List Nat := fun pool k => pool.take k
def wPip : Nat → Val → Val → Bool := fun _ _ _ => true

/-- **F03.** History: set `0 min = 1`, `0 max = 2`, apply, remove both keys, apply. -/
def wF03 : List Op :=
  [.setKey 0 false (.fin 1), .setKey 0 true (.fin 2), .apply [],
   .popKey 0 false, .popKey 0 true, .apply []]

/-- With the diff rule *before* `fix-F03` the removed range keeps filtering: the second `all`
is `[F,T,F]` although the current settings select everything.  The property is violated. -/
theorem removed_range_witness :
    runAll .orig wChoice wPip wData (Sys.init 3) wF03
      = [some [false, true, false], some [false, true, false]] ∧
    specAll wChoice wPip wData Cfg.default (Sys.init 3).reg (fun _ => true) wF03
      = [some [false, true, false], some [true, true, true]] := by
  constructor <;> decide +kernel

/-- the fixed diff rule gives the specification on the same history -/
theorem removed_range_fixed :
    runAll .f25 wChoice wPip wData (Sys.init 3) wF03
      = [some [false, true, false], some [true, true, true]] := by
  decide +kernel

/-- **F25.** History: range 1..2 on feature 0, apply; change it to 3..4 *and* set only
`1 min`, apply (raises `ValueError`); restore 1..2, remove `1 min`, apply. -/
def wF25 : List Op :=
  [.setKey 0 false (.fin 1), .setKey 0 true (.fin 2), .apply [],
   .setKey 0 false (.fin 3), .setKey 0 true (.fin 4), .setKey 1 false (.fin 0), .apply [],
   .setKey 0 false (.fin 1), .setKey 0 true (.fin 2), .popKey 1 false, .apply []]

/-- Before `fix-F25` (F03 already fixed) the failed `apply` had recomputed the box filter of
feature 0 before raising: the last `all` is `[F,F,T]` (range 3..4) although the settings say
1..2 (`[F,T,F]`).  The property is violated. -/
theorem failed_apply_witness :
    runAll .f03 wChoice wPip wData (Sys.init 3) wF25
      = [some [false, true, false], none, some [false, false, true]] ∧
    specAll wChoice wPip wData Cfg.default (Sys.init 3).reg (fun _ => true) wF25
      = [some [false, true, false], none, some [false, true, false]] := by
  constructor <;> decide +kernel

/-- the current code gives the specification on the same history -/
theorem failed_apply_fixed :
    runAll .f25 wChoice wPip wData (Sys.init 3) wF25
      = [some [false, true, false], none, some [false, true, false]] := by
  decide +kernel

/-! ## Non-vacuity -/

theorem wData_nodup : (wData.cols.map (fun e => e.1)).Nodup := by decide

/-- the F25 history (with its raising apply) satisfies the hypotheses of the headline theorem -/
theorem wF25_valid : ValidHist .f25 wChoice wPip wData (Sys.init 3) wF25 := by
  refine ⟨trivial, trivial, ?_, trivial, trivial, trivial, ?_, trivial, trivial, trivial, ?_, trivial⟩ <;>
    (unfold ValidAt; decide +kernel)

/-- … and the raising apply really is in it -/
example : anyHalf (run .f25 wChoice wPip wData (Sys.init 3) (wF25.take 6)).cfg.ranges = true := by
  decide +kernel

/-- changing only the axes of an applied polygon filter re-evaluates it on the new feature pair -/
example : runAll .f25 wChoice (fun _ x _ => vle (.fin 1) x && vle x (.fin 5)) wData (Sys.init 3)
    [.polySet 1 ⟨0, 1, 7, false⟩, .polyAdd 1, .apply [], .polyAxes 1 1 0, .apply [],
     .polyInv 1 true, .apply [], .polyPoints 1 8, .apply []]
    = [some [false, true, true], some [true, false, false], some [false, true, true],
       some [false, true, true]] := by
  decide +kernel

/-- a history with a polygon filter, a limit, a manual exclusion and a reset -/
example : runAll .f25 wChoice (fun s x y => s == 7 && vle (.fin 1) x && vle y (.fin 6)) wData (Sys.init 3)
    [.polySet 1 ⟨0, 1, 7, false⟩, .polyAdd 1, .apply [], .polySet 1 ⟨0, 1, 7, true⟩, .apply [],
     .polyRm 1, .manual 0 false, .setLimit 1, .apply [], .reset, .apply []]
    = [some [false, true, false], some [true, false, true], some [false, true, false],
       some [true, true, true]] := by
  decide +kernel


/-! ## Session 4: every exit of `update`, the ignored key, the global random state

`updateX pk known` (`Model/FilterX.lean`) has all exits of `Filter.update`: `ValueError` for a
forced name that is no scalar feature, `ValueError` for a half-set range, `KeyError` for a
polygon filter whose axes are not in the dataset.  `pk = true` is the code after `fix-F73`
(polygon axes validated before anything is recomputed), `pk = false` the code as found.
For `pk = true` the guard `ValidHist` of the theorems above disappears: the statements hold
for **all** histories. -/

variable (known : Feat → Bool)

/-- an extended operation that is a plain (non-apply) operation of the base model -/
theorem stepX_plain (pk : Bool) (hd : (d.cols.map (fun e => e.1)).Nodup) (s : SysX) (bop : Op)
    (hinv : Inv pip d s.sys.st) (hna : ∀ f, bop ≠ .apply f) :
    Inv pip d (stepX pk known choice pip d s (.base bop)).1.sys.st ∧
    (stepX pk known choice pip d s (.base bop)).1.sys.cfg
      = (cfgStep s.sys.cfg s.sys.reg s.sys.st.manual bop).1 ∧
    (stepX pk known choice pip d s (.base bop)).1.sys.reg
      = (cfgStep s.sys.cfg s.sys.reg s.sys.st.manual bop).2.1 ∧
    (stepX pk known choice pip d s (.base bop)).1.sys.st.manual
      = (cfgStep s.sys.cfg s.sys.reg s.sys.st.manual bop).2.2.1 := by
  have hs : (stepX pk known choice pip d s (.base bop)).1.sys
      = (step .f25 choice pip d s.sys bop).1 := by
    cases bop <;> first | rfl | exact absurd rfl (hna _)
  have hv : (match (generalizing := false) bop with
      | .apply _ => ValidAt d s.sys
      | _ => True) := by
    cases bop <;> first | trivial | exact absurd rfl (hna _)
  obtain ⟨hi, hc, hr, hm, _⟩ := step_refines choice pip d hd s.sys bop hinv hv
  rw [hs]
  exact ⟨hi, hc, hr, hm⟩

/-- what one `apply` does, stated on `stepX` -/
theorem stepX_apply (pk : Bool) (hd : (d.cols.map (fun e => e.1)).Nodup) (s : SysX)
    (force : List Feat) (hinv : Inv pip d s.sys.st)
    (hg : pk = true ∨ ValidAt d s.sys) :
    let r := stepX pk known choice pip d s (.base (.apply force))
    Inv pip d r.1.sys.st ∧ r.1.sys.cfg = s.sys.cfg ∧ r.1.sys.reg = s.sys.reg ∧
    r.1.sys.st.manual = s.sys.st.manual ∧
    r.2 = applyOut known d s.sys.cfg s.sys.reg force ∧
    (applyRaises known d s.sys.cfg s.sys.reg force = true →
      r.2 ≠ .ok ∧ Untouched s.sys.st r.1.sys.st) ∧
    (applyRaises known d s.sys.cfg s.sys.reg force = false →
      r.2 = .ok ∧
      r.1.sys.st.aAll = spec choice pip d s.sys.cfg s.sys.reg s.sys.st.manual ∧
      r.1.sys.st.aBox = toList d.n (specBox d s.sys.cfg) ∧
      r.1.sys.st.aPoly = toList d.n (specPoly pip d s.sys.cfg s.sys.reg) ∧
      r.1.sys.st.aInv = toList d.n (invalidMask d s.sys.cfg.removeInvalid)) := by
  intro r
  obtain ⟨h1, h2, h3, h4, h5⟩ :=
    updateX_spec pk known choice pip d hd s.sys.cfg s.sys.reg force s.sys.st hinv hg
  exact ⟨h2, rfl, rfl, h3, h1, h4, h5⟩

/-- **Refinement for all exits.** With the repaired code (`pk = true`) for *every* history, with
the code as found (`pk = false`) for histories whose polygon filters have their axes in the
dataset at each apply: every `apply` raises exactly when the stateless criterion `applyRaises`
holds (unknown forced name, half-set range, polygon filter without its axes) and otherwise
`all` equals `spec` of the settings current at that moment – whatever was attempted and
failed before; `hierarchy parent` plays no role. -/
theorem histories_refine_spec_guarded (pk : Bool) (hd : (d.cols.map (fun e => e.1)).Nodup) :
    ∀ (ops : List OpX) (s : SysX), Inv pip d s.sys.st →
      (pk = true ∨ ValidHistX pk known choice pip d s ops) →
      runAllX pk known choice pip d s ops =
        specAllX known choice pip d s.sys.cfg s.sys.reg s.sys.st.manual ops := by
  intro ops
  induction ops with
  | nil => intro s _ _; rfl
  | cons op ops ih =>
    intro s hinv hg
    have hg2 : pk = true ∨ ValidHistX pk known choice pip d
        (stepX pk known choice pip d s op).1 ops := hg.elim Or.inl (fun h => Or.inr h.2)
    cases op with
    | setParent v =>
      have := ih (stepX pk known choice pip d s (.setParent v)).1 hinv hg2
      simp only [runAllX, specAllX]
      exact this
    | base bop =>
      cases bop with
      | apply force =>
        have hg1 : pk = true ∨ ValidAt d s.sys := hg.elim Or.inl (fun h => Or.inr h.1)
        obtain ⟨hi, hc, hr, hm, _, hR, hO⟩ :=
          stepX_apply choice pip d known pk hd s force hinv hg1
        have hrec := ih _ hi hg2
        rw [hc, hr, hm] at hrec
        simp only [runAllX, specAllX, specApplyX, cfgStep]
        rw [hrec]
        cases hh : applyRaises known d s.sys.cfg s.sys.reg force with
        | true => simp [(hR hh).1]
        | false => simp [(hO hh).1, (hO hh).2.1]
      | reset =>
        obtain ⟨hi, hc, hr, hm⟩ := stepX_plain choice pip d known pk hd s .reset hinv (fun f h => by cases h)
        have hrec := ih _ hi hg2
        rw [hc, hr, hm] at hrec
        simp only [runAllX, specAllX]; exact hrec
      | setKey f mx v =>
        obtain ⟨hi, hc, hr, hm⟩ := stepX_plain choice pip d known pk hd s (.setKey f mx v) hinv (fun f h => by cases h)
        have hrec := ih _ hi hg2
        rw [hc, hr, hm] at hrec
        simp only [runAllX, specAllX]; exact hrec
      | popKey f mx =>
        obtain ⟨hi, hc, hr, hm⟩ := stepX_plain choice pip d known pk hd s (.popKey f mx) hinv (fun f h => by cases h)
        have hrec := ih _ hi hg2
        rw [hc, hr, hm] at hrec
        simp only [runAllX, specAllX]; exact hrec
      | polySet id p =>
        obtain ⟨hi, hc, hr, hm⟩ := stepX_plain choice pip d known pk hd s (.polySet id p) hinv (fun f h => by cases h)
        have hrec := ih _ hi hg2
        rw [hc, hr, hm] at hrec
        simp only [runAllX, specAllX]; exact hrec
      | polyAxes id ax ay =>
        obtain ⟨hi, hc, hr, hm⟩ := stepX_plain choice pip d known pk hd s (.polyAxes id ax ay) hinv (fun f h => by cases h)
        have hrec := ih _ hi hg2
        rw [hc, hr, hm] at hrec
        simp only [runAllX, specAllX]; exact hrec
      | polyPoints id sh =>
        obtain ⟨hi, hc, hr, hm⟩ := stepX_plain choice pip d known pk hd s (.polyPoints id sh) hinv (fun f h => by cases h)
        have hrec := ih _ hi hg2
        rw [hc, hr, hm] at hrec
        simp only [runAllX, specAllX]; exact hrec
      | polyInv id b =>
        obtain ⟨hi, hc, hr, hm⟩ := stepX_plain choice pip d known pk hd s (.polyInv id b) hinv (fun f h => by cases h)
        have hrec := ih _ hi hg2
        rw [hc, hr, hm] at hrec
        simp only [runAllX, specAllX]; exact hrec
      | polyAdd id =>
        obtain ⟨hi, hc, hr, hm⟩ := stepX_plain choice pip d known pk hd s (.polyAdd id) hinv (fun f h => by cases h)
        have hrec := ih _ hi hg2
        rw [hc, hr, hm] at hrec
        simp only [runAllX, specAllX]; exact hrec
      | polyRm id =>
        obtain ⟨hi, hc, hr, hm⟩ := stepX_plain choice pip d known pk hd s (.polyRm id) hinv (fun f h => by cases h)
        have hrec := ih _ hi hg2
        rw [hc, hr, hm] at hrec
        simp only [runAllX, specAllX]; exact hrec
      | setInvalid b =>
        obtain ⟨hi, hc, hr, hm⟩ := stepX_plain choice pip d known pk hd s (.setInvalid b) hinv (fun f h => by cases h)
        have hrec := ih _ hi hg2
        rw [hc, hr, hm] at hrec
        simp only [runAllX, specAllX]; exact hrec
      | setEnable b =>
        obtain ⟨hi, hc, hr, hm⟩ := stepX_plain choice pip d known pk hd s (.setEnable b) hinv (fun f h => by cases h)
        have hrec := ih _ hi hg2
        rw [hc, hr, hm] at hrec
        simp only [runAllX, specAllX]; exact hrec
      | setLimit k =>
        obtain ⟨hi, hc, hr, hm⟩ := stepX_plain choice pip d known pk hd s (.setLimit k) hinv (fun f h => by cases h)
        have hrec := ih _ hi hg2
        rw [hc, hr, hm] at hrec
        simp only [runAllX, specAllX]; exact hrec
      | manual i b =>
        obtain ⟨hi, hc, hr, hm⟩ := stepX_plain choice pip d known pk hd s (.manual i b) hinv (fun f h => by cases h)
        have hrec := ih _ hi hg2
        rw [hc, hr, hm] at hrec
        simp only [runAllX, specAllX]; exact hrec

/-- **Headline, no guard left** (repaired code): for every dataset, `pip`, `choice`, every set
of valid feature names, every coherent start state and **every** history – including applies
that raise for any of the three reasons – each apply behaves as the stateless `specApplyX`. -/
theorem all_histories_refine_spec (hd : (d.cols.map (fun e => e.1)).Nodup) (ops : List OpX)
    (s : SysX) (hinv : Inv pip d s.sys.st) :
    runAllX true known choice pip d s ops =
      specAllX known choice pip d s.sys.cfg s.sys.reg s.sys.st.manual ops :=
  histories_refine_spec_guarded choice pip d known true hd ops s hinv (Or.inl rfl)

/-- the same for the code as found, under the guard that is needed there
(`polygon_keyerror_witness` shows that it is needed) -/
theorem today_refines_spec_partial (hd : (d.cols.map (fun e => e.1)).Nodup) (ops : List OpX)
    (s : SysX) (hinv : Inv pip d s.sys.st) (hv : ValidHistX false known choice pip d s ops) :
    runAllX false known choice pip d s ops =
      specAllX known choice pip d s.sys.cfg s.sys.reg s.sys.st.manual ops :=
  histories_refine_spec_guarded choice pip d known false hd ops s hinv (Or.inr hv)

/-- the invariant after every history (repaired code, no guard) -/
theorem historyX_inv (hd : (d.cols.map (fun e => e.1)).Nodup) :
    ∀ (ops : List OpX) (s : SysX), Inv pip d s.sys.st →
      Inv pip d (runX true known choice pip d s ops).sys.st := by
  intro ops
  induction ops with
  | nil => intro s h; exact h
  | cons op ops ih =>
    intro s hinv
    apply ih
    cases op with
    | setParent v => exact hinv
    | base bop =>
      by_cases hb : ∃ f, bop = .apply f
      · obtain ⟨f, rfl⟩ := hb
        exact (stepX_apply choice pip d known true hd s f hinv (Or.inl rfl)).1
      · exact (stepX_plain choice pip d known true hd s bop hinv
          (fun f h => hb ⟨f, h⟩)).1

/-- **An apply that raises – for whatever reason – is harmless** (repaired code): after any
history, an apply at settings for which `applyRaises` holds raises the exception `applyOut`
names (`ValueError` for an unknown forced name or a half-set range, else `KeyError`), leaves
`all`, `box`, `polygon`, the remembered settings and `manual` exactly as they were, and keeps
the caches coherent. -/
theorem raising_apply_harmless (hd : (d.cols.map (fun e => e.1)).Nodup) (ops : List OpX)
    (force : List Feat)
    (hh : applyRaises known d (runX true known choice pip d (SysX.init d.n) ops).sys.cfg
            (runX true known choice pip d (SysX.init d.n) ops).sys.reg force = true) :
    let s := runX true known choice pip d (SysX.init d.n) ops
    let r := stepX true known choice pip d s (.base (.apply force))
    r.2 = applyOut known d s.sys.cfg s.sys.reg force ∧ r.2 ≠ .ok ∧
    Untouched s.sys.st r.1.sys.st ∧ Inv pip d r.1.sys.st := by
  intro s r
  have hinv := historyX_inv choice pip d known hd ops (SysX.init d.n) (inv_init pip d d.n)
  obtain ⟨hi, _, _, _, ho, hR, _⟩ := stepX_apply choice pip d known true hd s force hinv (Or.inl rfl)
  exact ⟨ho, (hR hh).1, (hR hh).2, hi⟩

/-- after any history whatsoever (repaired code), an apply at acceptable settings succeeds and
all four arrays equal their specification -/
theorem apply_after_any_history (hd : (d.cols.map (fun e => e.1)).Nodup) (ops : List OpX)
    (force : List Feat)
    (hh : applyRaises known d (runX true known choice pip d (SysX.init d.n) ops).sys.cfg
            (runX true known choice pip d (SysX.init d.n) ops).sys.reg force = false) :
    let s := runX true known choice pip d (SysX.init d.n) ops
    let r := stepX true known choice pip d s (.base (.apply force))
    r.2 = .ok ∧
    r.1.sys.st.aAll = spec choice pip d s.sys.cfg s.sys.reg s.sys.st.manual ∧
    r.1.sys.st.aBox = toList d.n (specBox d s.sys.cfg) ∧
    r.1.sys.st.aPoly = toList d.n (specPoly pip d s.sys.cfg s.sys.reg) ∧
    r.1.sys.st.aInv = toList d.n (invalidMask d s.sys.cfg.removeInvalid) := by
  intro s r
  have hinv := historyX_inv choice pip d known hd ops (SysX.init d.n) (inv_init pip d d.n)
  obtain ⟨_, _, _, _, _, _, hO⟩ := stepX_apply choice pip d known true hd s force hinv (Or.inl rfl)
  exact hO hh

/-- the exception kind is a function of the current settings alone -/
theorem apply_error_kind (cfg : Cfg) (reg : Nat → Poly) (force : List Feat) :
    (applyOut known d cfg reg force = .ok ↔ applyRaises known d cfg reg force = false) ∧
    (applyOut known d cfg reg force = .errKey ↔
      (force.all known = true ∧ anyHalf cfg.ranges = false ∧ polysOK d reg cfg.polys = false)) := by
  unfold applyOut applyRaises
  cases force.all known <;> cases anyHalf cfg.ranges <;> cases polysOK d reg cfg.polys <;> simp

/-- states that differ only in the ignored key behave alike -/
theorem stepX_parent_congr (pk : Bool) (s s' : SysX) (h : s.sys = s'.sys) (bop : Op) :
    (stepX pk known choice pip d s (.base bop)).1.sys
      = (stepX pk known choice pip d s' (.base bop)).1.sys ∧
    (stepX pk known choice pip d s (.base bop)).2 = (stepX pk known choice pip d s' (.base bop)).2 := by
  cases bop <;> simp [stepX, h]

/-- **The key `hierarchy parent` never influences the filter**: erasing all assignments to it
from a history (and starting with any other value of it) gives the same result for every
apply – for both revisions of the code. -/
theorem parent_key_ignored (pk : Bool) :
    ∀ (ops : List OpX) (s s' : SysX), s.sys = s'.sys →
      runAllX pk known choice pip d s ops = runAllX pk known choice pip d s' (dropParent ops) := by
  intro ops
  induction ops with
  | nil => intro s s' _; rfl
  | cons op ops ih =>
    intro s s' h
    cases op with
    | setParent v =>
      simp only [runAllX, dropParent]
      exact ih _ s' h
    | base bop =>
      obtain ⟨h1, h2⟩ := stepX_parent_congr choice pip d known pk s s' h bop
      have hrec := ih _ _ h1
      cases bop <;> simp only [runAllX, dropParent] <;> rw [hrec]
      rw [h1, h2]

/-! ### the global random state -/

theorem choiceAt_reseed {G : Type} (R : Rng G) (g : G) : R.choiceAt true g = R.pick := by
  unfold Rng.choiceAt Rng.pick; simp

/-- **Re-seeding makes the limit a pure function**: with the two re-seeding lines of
`downsample_rand`, the limited selection does not depend on the state of the global generator
on entry -/
theorem limit_ignores_global_state {G : Type} (R : Rng G) (g g' : G) (limit : Nat)
    (pre : List Bool) : limitG R true g limit pre = limitG R true g' limit pre := by
  unfold limitG; rw [choiceAt_reseed, choiceAt_reseed]

/-- **History-independence of the limited selection**: whatever state the global generator is
in when each operation starts (`env`, arbitrary: other code may have drawn from it, earlier
applies have), every apply of every history gives what the pure draw `R.pick` gives -/
theorem limited_selection_ignores_global_rng {G : Type} (R : Rng G) (pk : Bool) :
    ∀ (ops : List OpX) (env : Nat → G) (s : SysX),
      runAllG R true pk known pip d env s ops = runAllX pk known R.pick pip d s ops := by
  intro ops
  induction ops with
  | nil => intro _ _; rfl
  | cons op ops ih =>
    intro env s
    cases op with
    | setParent v => simp only [runAllG, runAllX, choiceAt_reseed]; exact ih _ _
    | base bop => cases bop <;> simp only [runAllG, runAllX, choiceAt_reseed] <;> rw [ih]

/-- … hence equal to the stateless specification evaluated with `R.pick`, for every
history and every sequence of generator states (repaired code) -/
theorem limited_selection_reproducible {G : Type} (R : Rng G)
    (hd : (d.cols.map (fun e => e.1)).Nodup) (ops : List OpX) (env : Nat → G) (s : SysX)
    (hinv : Inv pip d s.sys.st) :
    runAllG R true true known pip d env s ops =
      specAllX known R.pick pip d s.sys.cfg s.sys.reg s.sys.st.manual ops := by
  rw [limited_selection_ignores_global_rng]
  exact all_histories_refine_spec R.pick pip d known hd ops s hinv

/-- a toy generator: state `g`, draws the `k` positions following `g mod n` -/
def wRng : Rng Nat :=
  { seed47 := 47, draw := fun g n k => (((List.range n).drop (g % n)).take k, g + 1) }

/-- without the re-seeding lines the selection depends on what happened before -/
theorem without_reseed_history_dependent :
    limitG wRng false 0 1 [true, true, true] ≠ limitG wRng false 1 1 [true, true, true] ∧
    limitG wRng true 0 1 [true, true, true] = limitG wRng true 1 1 [true, true, true] := by
  constructor <;> decide +kernel

/-! ### Witnesses for the error paths -/

def wKnown : Feat → Bool := fun f => f < 100

/-- **F73.** Range 1..2 on feature 0, apply; change it to 3..4 *and* add a polygon filter whose
second axis (feature 5) is not in the dataset, apply (raises `KeyError`); remove the polygon
filter, restore 1..2, apply. -/
def wF73 : List OpX :=
  [.base (.setKey 0 false (.fin 1)), .base (.setKey 0 true (.fin 2)), .base (.apply []),
   .base (.setKey 0 false (.fin 3)), .base (.setKey 0 true (.fin 4)),
   .base (.polySet 1 ⟨0, 5, 7, false⟩), .base (.polyAdd 1), .setParent 3, .base (.apply []),
   .base (.polyRm 1), .base (.setKey 0 false (.fin 1)), .base (.setKey 0 true (.fin 2)),
   .base (.apply [])]

/-- In the code as found the `KeyError` leaves the recomputed box filter of feature 0 behind:
the last `all` is `[F,F,T]` (range 3..4) although the settings say 1..2 (`[F,T,F]`).  The
property is violated. -/
theorem polygon_keyerror_witness :
    runAllX false wKnown wChoice wPip wData (SysX.init 3) wF73
      = [some [false, true, false], none, some [false, false, true]] ∧
    specAllX wKnown wChoice wPip wData Cfg.default (Sys.init 3).reg (fun _ => true) wF73
      = [some [false, true, false], none, some [false, true, false]] := by
  constructor <;> decide +kernel

/-- the repaired code gives the specification on the same history -/
theorem polygon_keyerror_fixed :
    runAllX true wKnown wChoice wPip wData (SysX.init 3) wF73
      = [some [false, true, false], none, some [false, true, false]] := by
  decide +kernel

/-- the witness history is outside the guard of `today_refines_spec_partial` … -/
example : ¬ ValidAt wData (runX false wKnown wChoice wPip wData (SysX.init 3) (wF73.take 8)).sys := by
  unfold ValidAt; decide +kernel

/-- … and the three kinds of raising applies really occur: unknown forced name (`ValueError`),
half-set range (`ValueError`), polygon filter without its axes (`KeyError`); the history goes on -/
example : (runAllX true wKnown wChoice wPip wData (SysX.init 3)
      [.base (.setKey 0 false (.fin 1)), .base (.setKey 0 true (.fin 2)), .base (.apply [100]),
       .base (.apply [0]), .base (.setKey 1 true (.fin 6)), .base (.apply []),
       .base (.popKey 1 true), .base (.polySet 2 ⟨9, 0, 7, true⟩), .base (.polyAdd 2),
       .base (.apply []), .base (.reset), .base (.apply [])]
     = [none, some [false, true, false], none, none, some [false, true, false]]) ∧
    applyOut wKnown wData Cfg.default (Sys.init 3).reg [100] = .errValue ∧
    applyOut wKnown wData { Cfg.default with polys := [2] }
      (fun _ => ⟨9, 0, 7, true⟩) [] = .errKey := by
  refine ⟨?_, ?_, ?_⟩ <;> decide +kernel


end DclabModel.C03
