import DclabModel.Lemmas.Cache
/-!
# C17 — Cached computations are indistinguishable from fresh ones

* `memo_history_correct`   every history of calls to a FIFO-evicting memo table returns the
                           fresh value, provided the key respects the function;
* `encCall_injective`      the (fixed, F18) call encoding of `dclab.cached.Cache` is injective,
                           hence respects *every* function;  `encCallOld_collides_*` show the
                           encoding before the fix was not;
* `contour_lockstep`       `LazyContourList` returns `get_contour(masks[i])` for every access
                           history and every `max_events`;
* `readonly_never_leaks`   a cached feature array that is handed out read-only (or copied)
                           cannot be changed by the user; `alias_leaks_witness` (F24).
-/
namespace DclabModel.C17
open DclabModel.Cache

/-! ## 1. memo table -/

theorem memo_history_correct [DecidableEq K] (c : Cfg A K V)
    (hinj : ∀ a b, c.enc a = c.enc b → c.f a = c.f b) :
    ∀ (hist : List A) (s : St K V), Inv c s →
      (runCalls c s hist).2 = hist.map c.f ∧ Inv c (runCalls c s hist).1 := by
  intro hist
  induction hist with
  | nil => intro s h; exact ⟨rfl, h⟩
  | cons x xs ih =>
    intro s h
    obtain ⟨h1, h2⟩ := call_correct c hinj s x h
    obtain ⟨h3, h4⟩ := ih _ h2
    simp only [runCalls, List.map_cons]
    exact ⟨by rw [h1, h3], h4⟩

/-- from the empty cache, any interleaving of calls (any length, hence any eviction pattern)
returns exactly the values of the undecorated function -/
theorem memo_fresh [DecidableEq K] (c : Cfg A K V)
    (hinj : ∀ a b, c.enc a = c.enc b → c.f a = c.f b) (hist : List A) :
    (runCalls c { store := [], keys := [] } hist).2 = hist.map c.f :=
  (memo_history_correct c hinj hist _ (by intro k v h; cases h)).1

theorem memo_keys_bounded [DecidableEq K] (c : Cfg A K V) :
    ∀ (hist : List A) (s : St K V), s.keys.length ≤ c.cap →
      (runCalls c s hist).1.keys.length ≤ c.cap := by
  intro hist
  induction hist with
  | nil => intro s h; exact h
  | cons x xs ih =>
    intro s h
    simp only [runCalls]
    exact ih _ (call_keys_bounded c s x h)

/-- **File-hash cache** (`util.file_monitoring_lru_cache`): the key is (path, (mtime_ns, size),
other arguments).  If the file-system stamp distinguishes the contents a path takes during the
history (`hstamp`, the stated assumption), every history of `hashfile` calls interleaved with
rewrites returns the hash of the content present at call time. `A = path × content × args`. -/
theorem file_cache_sound {P Cn S Ar V : Type} [DecidableEq P] [DecidableEq S] [DecidableEq Ar]
    (stamp : P → Cn → S) (h : P → Cn → Ar → V)
    (hstamp : ∀ p c c', stamp p c = stamp p c' → c = c') (cap : Nat)
    (hist : List (P × Cn × Ar)) :
    (runCalls { f := fun a => h a.1 a.2.1 a.2.2, enc := fun a => (a.1, stamp a.1 a.2.1, a.2.2),
                cap := cap } { store := [], keys := [] } hist).2
      = hist.map (fun a => h a.1 a.2.1 a.2.2) := by
  apply memo_fresh
  intro a b hab
  obtain ⟨p, c, ar⟩ := a
  obtain ⟨p', c', ar'⟩ := b
  simp only [Prod.mk.injEq] at hab
  obtain ⟨hp, hs, ha⟩ := hab
  subst hp; subst ha
  rw [hstamp p c c' hs]

/-! ## 2. the call encoding -/

inductive Item where
  | pos (a : Arg)
  | kwd (p : List Nat × Arg)

def encItem : Item → List Tok
  | .pos a => encArg a
  | .kwd p => encKw p

def items (c : Call) : List Item :=
  c.args.map .pos ++ c.kwargs.map .kwd ++
    [.pos (.leaf (strLeaf c.name)), .pos (.leaf (strLeaf c.doc)), .pos (.leaf (strLeaf c.file))]

theorem encCall_eq_items (c : Call) : encCall c = ((items c).map encItem).flatten := by
  simp only [encCall, items, List.map_append, List.flatten_append, List.map_map, List.map_cons,
    List.map_nil, List.flatten_cons, List.flatten_nil, List.append_nil, List.append_assoc]
  rfl

theorem encArg_head_ne_kw (a : Arg) (r : List Tok) (t : List Tok) : encArg a ≠ Tok.kw :: t ++ r := by
  cases a with
  | leaf l => cases l <;> simp [encArg, encLeaf]
  | lst ls => simp [encArg]

theorem encItem_prefix_free (x y : Item) (h : encItem x <+: encItem y) : x = y := by
  cases x with
  | pos a =>
    cases y with
    | pos b => rw [encArg_prefix_free a b h]
    | kwd p =>
      exfalso
      cases a with
      | leaf l => cases l <;> simp [encItem, encArg, encLeaf, encKw] at h
      | lst ls => simp [encItem, encArg, encKw] at h
  | kwd p =>
    cases y with
    | pos b =>
      exfalso
      cases b with
      | leaf l => cases l <;> simp [encItem, encArg, encLeaf, encKw] at h
      | lst ls => simp [encItem, encArg, encKw] at h
    | kwd q =>
      simp only [encItem, encKw, List.cons_prefix_cons, true_and] at h
      have h1 : encLeaf (strLeaf p.1) <+: encLeaf (strLeaf q.1) ++ encArg q.2 :=
        List.IsPrefix.trans (List.prefix_append _ _) h
      have h2 : encLeaf (strLeaf q.1) <+: encLeaf (strLeaf q.1) ++ encArg q.2 :=
        List.prefix_append _ _
      have hk : strLeaf p.1 = strLeaf q.1 := by
        rcases List.prefix_or_prefix_of_prefix h1 h2 with h3 | h3
        · exact encLeaf_prefix_free _ _ h3
        · exact (encLeaf_prefix_free _ _ h3).symm
      have hk' : p.1 = q.1 := by simpa [strLeaf] using hk
      rw [hk] at h
      have hv := encArg_prefix_free _ _ ((List.prefix_append_right_inj _).mp h)
      congr 1
      exact Prod.ext hk' hv

theorem encItem_ne_nil (x : Item) : encItem x ≠ [] := by
  cases x with
  | pos a => exact encArg_ne_nil a
  | kwd p => simp [encItem, encKw]

theorem split_pos_kwd : ∀ (A A' : List Arg) (K K' : List (List Nat × Arg)),
    A.map Item.pos ++ K.map Item.kwd = A'.map Item.pos ++ K'.map Item.kwd → A = A' ∧ K = K' := by
  intro A
  induction A with
  | nil =>
    intro A' K K' h
    cases A' with
    | nil =>
      refine ⟨rfl, ?_⟩
      simp only [List.map_nil, List.nil_append] at h
      exact (List.map_inj_right (fun a b h => by cases h; rfl)).mp h
    | cons a' A' =>
      exfalso
      cases K with
      | nil => simp at h
      | cons k K => simp at h
  | cons a A ih =>
    intro A' K K' h
    cases A' with
    | nil =>
      exfalso
      cases K' with
      | nil => simp at h
      | cons k K' => simp at h
    | cons a' A' =>
      simp only [List.map_cons, List.cons_append, List.cons.injEq, Item.pos.injEq] at h
      obtain ⟨h1, h2⟩ := ih A' K K' h.2
      exact ⟨by rw [h.1, h1], h2⟩

/-- **The fixed key encoding identifies the call**: equal hash inputs ⇒ same positional
arguments (dtype, shape and bytes of every array), same keyword arguments, same function. -/
theorem encCall_injective (c c' : Call) (h : encCall c = encCall c') : c = c' := by
  rw [encCall_eq_items, encCall_eq_items] at h
  have hi := flatten_map_injective encItem encItem_prefix_free encItem_ne_nil _ _ h
  unfold items at hi
  obtain ⟨h1, h2⟩ := List.append_inj' hi rfl
  obtain ⟨hA, hK⟩ := split_pos_kwd _ _ _ _ h1
  simp only [List.cons.injEq, Item.pos.injEq, Arg.leaf.injEq, strLeaf, Leaf.other.injEq,
    true_and, and_true] at h2
  obtain ⟨hn, hd, hf⟩ := h2
  cases c; cases c'
  simp only at hA hK hn hd hf
  simp [hA, hK, hn, hd, hf]

/-- consequently the cache is transparent for EVERY memoised function, every history -/
theorem cache_transparent (f : Call → V) (cap : Nat) (hist : List Call) :
    (runCalls { f := f, enc := encCall, cap := cap } { store := [], keys := [] } hist).2
      = hist.map f :=
  memo_fresh _ (fun a b h => by rw [encCall_injective a b h]) hist

/-- **F18 witness 1**: before the fix, a float64 array and its int64 view (same bytes, dtype
codes 1 and 2) had the same key -/
theorem encCallOld_collides_dtype :
    encCallOld ⟨[.leaf (.arr 1 [2] [0, 0, 0, 0, 0, 0, 240, 63, 0, 0, 0, 0, 0, 0, 0, 64])], [], [100], [], []⟩
      = encCallOld ⟨[.leaf (.arr 2 [2] [0, 0, 0, 0, 0, 0, 240, 63, 0, 0, 0, 0, 0, 0, 0, 64])], [], [100], [], []⟩ := by
  decide

/-- **F18 witness 2**: positional arguments ran into each other: `(…, 1, 1)` vs `(…, 11)`
(ASCII '1' = 49) -/
theorem encCallOld_collides_framing :
    encCallOld ⟨[.leaf (.other 1 [49]), .leaf (.other 1 [49])], [], [100], [], []⟩
      = encCallOld ⟨[.leaf (.other 1 [49, 49])], [], [100], [], []⟩ := by
  decide

/-- …and the fixed encoding separates both pairs -/
example : encCall ⟨[.leaf (.arr 1 [2] [0, 64])], [], [100], [], []⟩
    ≠ encCall ⟨[.leaf (.arr 2 [2] [0, 64])], [], [100], [], []⟩ := by decide

/-! ## 3. `LazyContourList` -/

def DInv (f : Nat → C) (d : Deques C) : Prop := d.contours = d.indices.map f

theorem contour_get_correct (f : Nat → C) (m : Nat) (d : Deques C) (i : Nat) (h : DInv f d) :
    (contourGet f m d i).2 = some (f i) ∧ DInv f (contourGet f m d i).1 := by
  unfold contourGet
  have key : contourLookup f d i = some (f i) := by
    unfold contourLookup
    cases hq : findIdx? i d.indices with
    | none => rfl
    | some q =>
      have := findIdx?_get i d.indices q hq
      simp only
      rw [h, List.getElem?_map, this]; rfl
  rw [key]
  refine ⟨rfl, ?_⟩
  unfold DInv at *
  simp only []
  rw [h, pushBounded_map]

/-- every access in every history returns the freshly computed contour, for every capacity -/
theorem contour_lockstep (f : Nat → C) (m : Nat) :
    ∀ (hist : List Nat) (d : Deques C), DInv f d → ∀ i,
      (contourGet f m (hist.foldl (fun st j => (contourGet f m st j).1) d) i).2 = some (f i) := by
  intro hist
  induction hist with
  | nil => intro d h i; exact (contour_get_correct f m d i h).1
  | cons j js ih =>
    intro d h i
    exact ih _ (contour_get_correct f m d j h).2 i

/-! ## 4. cached feature arrays -/

theorem readonly_never_leaks (p : Policy) (hp : p ≠ .alias) :
    ∀ (ops : List AOp) (data : List Nat), ∀ o ∈ arun p data ops, ∀ xs, o = .arr xs → xs = data := by
  intro ops
  induction ops with
  | nil => intro data o ho; cases ho
  | cons op ops ih =>
    intro data o ho xs hxs
    cases op with
    | read =>
      simp only [arun, astep, List.mem_cons] at ho
      rcases ho with h | h
      · rw [h] at hxs; cases hxs; rfl
      · exact ih data o h xs hxs
    | poke i v =>
      cases p with
      | alias => exact absurd rfl hp
      | readOnly =>
        simp only [arun, astep, List.mem_cons] at ho
        rcases ho with h | h
        · rw [h] at hxs; cases hxs
        · exact ih data o h xs hxs
      | copy =>
        simp only [arun, astep, List.mem_cons] at ho
        rcases ho with h | h
        · rw [h] at hxs; cases hxs
        · exact ih data o h xs hxs

/-- **F24 witness**: with a writable alias, `a = ds[f][:]; a[1] = 7` changes later reads -/
theorem alias_leaks_witness :
    arun .alias [3, 4, 5] [.read, .poke 1 7, .read] = [.arr [3, 4, 5], .ok, .arr [3, 7, 5]] := by
  decide

example : arun .readOnly [3, 4, 5] [.read, .poke 1 7, .read]
    = [.arr [3, 4, 5], .readOnlyError, .arr [3, 4, 5]] := by decide

end DclabModel.C17

namespace DclabModel.C17
open DclabModel.Cache

/-! ## 5. the dict and the FIFO key list stay in sync (memory bound) -/

/-- `Cache._cache` holds exactly the keys of `Cache._keys`, each once -/
def Sync [DecidableEq K] (s : St K V) : Prop :=
  (s.store.map Prod.fst).Perm s.keys ∧ s.keys.Nodup

theorem erase_of_not_mem [DecidableEq K] (d : K) :
    ∀ l : List (K × V), d ∉ l.map Prod.fst → erase d l = l := by
  intro l
  induction l with
  | nil => intro _; rfl
  | cons h t ih =>
    obtain ⟨k, v⟩ := h
    intro hd
    simp only [List.map_cons, List.mem_cons, not_or] at hd
    simp only [erase]
    split
    · rename_i hk; exact absurd hk.symm hd.1
    · rw [ih hd.2]

theorem erase_map_fst [DecidableEq K] (d : K) :
    ∀ l : List (K × V), (l.map Prod.fst).Nodup → (erase d l).map Prod.fst = (l.map Prod.fst).erase d := by
  intro l
  induction l with
  | nil => intro _; rfl
  | cons h t ih =>
    obtain ⟨k, v⟩ := h
    intro hn
    simp only [List.map_cons, List.nodup_cons] at hn
    simp only [erase, List.map_cons]
    split
    · rename_i hk
      subst hk
      rw [erase_of_not_mem k t hn.1, List.erase_cons_head]
    · rename_i hk
      rw [List.map_cons, ih hn.2, List.erase_cons_tail (by simpa using hk)]

theorem lookup_none_not_mem [DecidableEq K] (k : K) :
    ∀ l : List (K × V), lookup k l = none → k ∉ l.map Prod.fst := by
  intro l
  induction l with
  | nil => intro _ h; cases h
  | cons h t ih =>
    obtain ⟨k', v⟩ := h
    simp only [lookup]
    split
    · intro h; cases h
    · rename_i hk
      intro h
      simp only [List.map_cons, List.mem_cons, not_or]
      exact ⟨fun e => hk e.symm, ih h⟩

theorem call_sync [DecidableEq K] (c : Cfg A K V) (s : St K V) (a : A) (h : Sync s) :
    Sync (call c s a).1 := by
  obtain ⟨hp, hn⟩ := h
  unfold call
  cases hl : lookup (c.enc a) s.store with
  | some v => simp only [hl]; exact ⟨hp, hn⟩
  | none =>
    simp only [hl]
    have hk : c.enc a ∉ s.store.map Prod.fst := lookup_none_not_mem _ _ hl
    have hk' : c.enc a ∉ s.keys := fun hm => hk (hp.symm.subset hm)
    have hp1 : (((c.enc a, c.f a) :: s.store).map Prod.fst).Perm (s.keys ++ [c.enc a]) := by
      simp only [List.map_cons]
      exact ((List.perm_append_singleton (c.enc a) s.keys).trans (hp.symm.cons _)).symm
    have hn1 : (s.keys ++ [c.enc a]).Nodup := by
      rw [List.nodup_append]
      refine ⟨hn, by simp, ?_⟩
      intro x hx y hy
      simp only [List.mem_singleton] at hy
      subst hy; intro e; subst e; exact hk' hx
    by_cases hover : (s.keys ++ [c.enc a]).length > c.cap
    · simp only [hover, if_true]
      cases hks : s.keys ++ [c.enc a] with
      | nil => simp at hks
      | cons d rest =>
        simp only
        rw [hks] at hp1 hn1
        have hsn : (((c.enc a, c.f a) :: s.store).map Prod.fst).Nodup := hp1.nodup_iff.mpr hn1
        refine ⟨?_, (List.nodup_cons.mp hn1).2⟩
        rw [erase_map_fst d _ hsn]
        have := hp1.erase d
        rwa [List.erase_cons_head] at this
    · simp only [hover, if_false]
      exact ⟨hp1, hn1⟩

/-- **Memory bound of `dclab.cached.Cache`.** After every history of calls the dict holds
exactly the keys of the FIFO list, each once, hence at most `MAX_SIZE` entries. -/
theorem memo_store_bounded [DecidableEq K] (c : Cfg A K V) :
    ∀ (hist : List A) (s : St K V), Sync s → s.keys.length ≤ c.cap →
      Sync (runCalls c s hist).1 ∧ (runCalls c s hist).1.store.length ≤ c.cap := by
  intro hist
  induction hist with
  | nil =>
    intro s h hb
    refine ⟨h, ?_⟩
    have := h.1.length_eq
    simp only [List.length_map] at this
    simp only [runCalls]; omega
  | cons x xs ih =>
    intro s h hb
    simp only [runCalls]
    exact ih _ (call_sync c s x h) (call_keys_bounded c s x hb)

end DclabModel.C17
