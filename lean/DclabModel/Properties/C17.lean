import DclabModel.Lemmas.Cache
/-!
# C17 — Cached computations are indistinguishable from fresh ones

* `memo_history_correct`   every history of calls to a FIFO-evicting memo table returns the
                           fresh value, provided the key respects the function;
* `encCall_injective`      the (fixed, F18) call encoding of `dclab.cached.Cache` is injective,
                           hence respects *every* function;  `encCallOld_collides_*` show the
                           encoding before the fix was not;
* `contour_lockstep`       `LazyContourList` returns `get_contour(masks[i])` for every access
                           history and every `max_events`;
* `readonly_never_leaks`   a cached feature array that is handed out read-only (or copied)
                           cannot be changed by the user; `alias_leaks_witness` (F24).
-/
namespace DclabModel.C17
open DclabModel.Cache

/-! ## 1. memo table -/

theorem memo_history_correct [DecidableEq K] (c : Cfg A K V)
    (hinj : ∀ a b, c.enc a = c.enc b → c.f a = c.f b) :
    ∀ (hist : List A) (s : St K V), Inv c s →
      (runCalls c s hist).2 = hist.map c.f ∧ Inv c (runCalls c s hist).1 := by
  intro hist
  induction hist with
  | nil => intro s h; exact ⟨rfl, h⟩
  | cons x xs ih =>
    intro s h
    obtain ⟨h1, h2⟩ := call_correct c hinj s x h
    obtain ⟨h3, h4⟩ := ih _ h2
    simp only [runCalls, List.map_cons]
    exact ⟨by rw [h1, h3], h4⟩

/-- from the empty cache, any interleaving of calls (any length, hence any eviction pattern)
returns exactly the values of the undecorated function -/
theorem memo_fresh [DecidableEq K] (c : Cfg A K V)
    (hinj : ∀ a b, c.enc a = c.enc b → c.f a = c.f b) (hist : List A) :
    (runCalls c { store := [], keys := [] } hist).2 = hist.map c.f :=
  (memo_history_correct c hinj hist _ (by intro k v h; cases h)).1

theorem memo_keys_bounded [DecidableEq K] (c : Cfg A K V) :
    ∀ (hist : List A) (s : St K V), s.keys.length ≤ c.cap →
      (runCalls c s hist).1.keys.length ≤ c.cap := by
  intro hist
  induction hist with
  | nil => intro s h; exact h
  | cons x xs ih =>
    intro s h
    simp only [runCalls]
    exact ih _ (call_keys_bounded c s x h)

/-- **File-hash cache** (`util.file_monitoring_lru_cache`): the key is (path, (mtime_ns, size),
other arguments).  If the file-system stamp distinguishes the contents a path takes during the
history (`hstamp`, the stated assumption), every history of `hashfile` calls interleaved with
rewrites returns the hash of the content present at call time. `A = path × content × args`. -/
theorem file_cache_sound {P Cn S Ar V : Type} [DecidableEq P] [DecidableEq S] [DecidableEq Ar]
    (stamp : P → Cn → S) (h : P → Cn → Ar → V)
    (hstamp : ∀ p c c', stamp p c = stamp p c' → c = c') (cap : Nat)
    (hist : List (P × Cn × Ar)) :
    (runCalls { f := fun a => h a.1 a.2.1 a.2.2, enc := fun a => (a.1, stamp a.1 a.2.1, a.2.2),
                cap := cap } { store := [], keys := [] } hist).2
      = hist.map (fun a => h a.1 a.2.1 a.2.2) := by
  apply memo_fresh
  intro a b hab
  obtain ⟨p, c, ar⟩ := a
  obtain ⟨p', c', ar'⟩ := b
  simp only [Prod.mk.injEq] at hab
  obtain ⟨hp, hs, ha⟩ := hab
  subst hp; subst ha
  rw [hstamp p c c' hs]

/-! ## 2. the call encoding -/

inductive Item where
  | pos (a : Arg)
  | kwd (p : List Nat × Arg)

def encItem : Item → List Tok
  | .pos a => encArg a
  | .kwd p => encKw p

def items (c : Call) : List Item :=
  c.args.map .pos ++ c.kwargs.map .kwd ++
    [.pos (.leaf (strLeaf c.name)), .pos (.leaf (strLeaf c.doc)), .pos (.leaf (strLeaf c.file))]

theorem encCall_eq_items (c : Call) : encCall c = ((items c).map encItem).flatten := by
  simp only [encCall, items, List.map_append, List.flatten_append, List.map_map, List.map_cons,
    List.map_nil, List.flatten_cons, List.flatten_nil, List.append_nil, List.append_assoc]
  rfl

theorem encArg_head_ne_kw (a : Arg) (r : List Tok) (t : List Tok) : encArg a ≠ Tok.kw :: t ++ r := by
  cases a with
  | leaf l => cases l <;> simp [encArg, encLeaf]
  | lst ls => simp [encArg]

theorem encItem_prefix_free (x y : Item) (h : encItem x <+: encItem y) : x = y := by
  cases x with
  | pos a =>
    cases y with
    | pos b => rw [encArg_prefix_free a b h]
    | kwd p =>
      exfalso
      cases a with
      | leaf l => cases l <;> simp [encItem, encArg, encLeaf, encKw] at h
      | lst ls => simp [encItem, encArg, encKw] at h
  | kwd p =>
    cases y with
    | pos b =>
      exfalso
      cases b with
      | leaf l => cases l <;> simp [encItem, encArg, encLeaf, encKw] at h
      | lst ls => simp [encItem, encArg, encKw] at h
    | kwd q =>
      simp only [encItem, encKw, List.cons_prefix_cons, true_and] at h
      have h1 : encLeaf (strLeaf p.1) <+: encLeaf (strLeaf q.1) ++ encArg q.2 :=
        List.IsPrefix.trans (List.prefix_append _ _) h
      have h2 : encLeaf (strLeaf q.1) <+: encLeaf (strLeaf q.1) ++ encArg q.2 :=
        List.prefix_append _ _
      have hk : strLeaf p.1 = strLeaf q.1 := by
        rcases List.prefix_or_prefix_of_prefix h1 h2 with h3 | h3
        · exact encLeaf_prefix_free _ _ h3
        · exact (encLeaf_prefix_free _ _ h3).symm
      have hk' : p.1 = q.1 := by simpa [strLeaf] using hk
      rw [hk] at h
      have hv := encArg_prefix_free _ _ ((List.prefix_append_right_inj _).mp h)
      congr 1
      exact Prod.ext hk' hv

theorem encItem_ne_nil (x : Item) : encItem x ≠ [] := by
  cases x with
  | pos a => exact encArg_ne_nil a
  | kwd p => simp [encItem, encKw]

theorem split_pos_kwd : ∀ (A A' : List Arg) (K K' : List (List Nat × Arg)),
    A.map Item.pos ++ K.map Item.kwd = A'.map Item.pos ++ K'.map Item.kwd → A = A' ∧ K = K' := by
  intro A
  induction A with
  | nil =>
    intro A' K K' h
    cases A' with
    | nil =>
      refine ⟨rfl, ?_⟩
      simp only [List.map_nil, List.nil_append] at h
      exact (List.map_inj_right (fun a b h => by cases h; rfl)).mp h
    | cons a' A' =>
      exfalso
      cases K with
      | nil => simp at h
      | cons k K => simp at h
  | cons a A ih =>
    intro A' K K' h
    cases A' with
    | nil =>
      exfalso
      cases K' with
      | nil => simp at h
      | cons k K' => simp at h
    | cons a' A' =>
      simp only [List.map_cons, List.cons_append, List.cons.injEq, Item.pos.injEq] at h
      obtain ⟨h1, h2⟩ := ih A' K K' h.2
      exact ⟨by rw [h.1, h1], h2⟩

/-- **The fixed key encoding identifies the call**: equal hash inputs ⇒ same positional
arguments (dtype, shape and bytes of every array), same keyword arguments, same function. -/
theorem encCall_injective (c c' : Call) (h : encCall c = encCall c') : c = c' := by
  rw [encCall_eq_items, encCall_eq_items] at h
  have hi := flatten_map_injective encItem encItem_prefix_free encItem_ne_nil _ _ h
  unfold items at hi
  obtain ⟨h1, h2⟩ := List.append_inj' hi rfl
  obtain ⟨hA, hK⟩ := split_pos_kwd _ _ _ _ h1
  simp only [List.cons.injEq, Item.pos.injEq, Arg.leaf.injEq, strLeaf, Leaf.other.injEq,
    true_and, and_true] at h2
  obtain ⟨hn, hd, hf⟩ := h2
  cases c; cases c'
  simp only at hA hK hn hd hf
  simp [hA, hK, hn, hd, hf]

/-- consequently the cache is transparent for EVERY memoised function, every history -/
theorem cache_transparent (f : Call → V) (cap : Nat) (hist : List Call) :
    (runCalls { f := f, enc := encCall, cap := cap } { store := [], keys := [] } hist).2
      = hist.map f :=
  memo_fresh _ (fun a b h => by rw [encCall_injective a b h]) hist

/-- **F18 witness 1**: before the fix, a float64 array and its int64 view (same bytes, dtype
codes 1 and 2) had the same key -/
theorem encCallOld_collides_dtype :
    encCallOld ⟨[.leaf (.arr 1 [2] [0, 0, 0, 0, 0, 0, 240, 63, 0, 0, 0, 0, 0, 0, 0, 64])], [], [100], [], []⟩
      = encCallOld ⟨[.leaf (.arr 2 [2] [0, 0, 0, 0, 0, 0, 240, 63, 0, 0, 0, 0, 0, 0, 0, 64])], [], [100], [], []⟩ := by
  decide

/-- **F18 witness 2**: positional arguments ran into each other: `(…, 1, 1)` vs `(…, 11)`
(ASCII '1' = 49) -/
theorem encCallOld_collides_framing :
    encCallOld ⟨[.leaf (.other 1 [49]), .leaf (.other 1 [49])], [], [100], [], []⟩
      = encCallOld ⟨[.leaf (.other 1 [49, 49])], [], [100], [], []⟩ := by
  decide

/-- …and the fixed encoding separates both pairs -/
example : encCall ⟨[.leaf (.arr 1 [2] [0, 64])], [], [100], [], []⟩
    ≠ encCall ⟨[.leaf (.arr 2 [2] [0, 64])], [], [100], [], []⟩ := by decide

/-! ## 3. `LazyContourList` -/

def DInv (f : Nat → C) (d : Deques C) : Prop := d.contours = d.indices.map f

theorem contour_get_correct (f : Nat → C) (m : Nat) (d : Deques C) (i : Nat) (h : DInv f d) :
    (contourGet f m d i).2 = some (f i) ∧ DInv f (contourGet f m d i).1 := by
  unfold contourGet
  have key : contourLookup f d i = some (f i) := by
    unfold contourLookup
    cases hq : findIdx? i d.indices with
    | none => rfl
    | some q =>
      have := findIdx?_get i d.indices q hq
      simp only
      rw [h, List.getElem?_map, this]; rfl
  rw [key]
  refine ⟨rfl, ?_⟩
  unfold DInv at *
  simp only []
  rw [h, pushBounded_map]

/-- every access in every history returns the freshly computed contour, for every capacity -/
theorem contour_lockstep (f : Nat → C) (m : Nat) :
    ∀ (hist : List Nat) (d : Deques C), DInv f d → ∀ i,
      (contourGet f m (hist.foldl (fun st j => (contourGet f m st j).1) d) i).2 = some (f i) := by
  intro hist
  induction hist with
  | nil => intro d h i; exact (contour_get_correct f m d i h).1
  | cons j js ih =>
    intro d h i
    exact ih _ (contour_get_correct f m d j h).2 i

/-! ## 4. cached feature arrays -/

theorem readonly_never_leaks (p : Policy) (hp : p ≠ .alias) :
    ∀ (ops : List AOp) (data : List Nat), ∀ o ∈ arun p data ops, ∀ xs, o = .arr xs → xs = data := by
  intro ops
  induction ops with
  | nil => intro data o ho; cases ho
  | cons op ops ih =>
    intro data o ho xs hxs
    cases op with
    | read =>
      simp only [arun, astep, List.mem_cons] at ho
      rcases ho with h | h
      · rw [h] at hxs; cases hxs; rfl
      · exact ih data o h xs hxs
    | poke i v =>
      cases p with
      | alias => exact absurd rfl hp
      | readOnly =>
        simp only [arun, astep, List.mem_cons] at ho
        rcases ho with h | h
        · rw [h] at hxs; cases hxs
        · exact ih data o h xs hxs
      | copy =>
        simp only [arun, astep, List.mem_cons] at ho
        rcases ho with h | h
        · rw [h] at hxs; cases hxs
        · exact ih data o h xs hxs

/-- **F24 witness**: with a writable alias, `a = ds[f][:]; a[1] = 7` changes later reads -/
theorem alias_leaks_witness :
    arun .alias [3, 4, 5] [.read, .poke 1 7, .read] = [.arr [3, 4, 5], .ok, .arr [3, 7, 5]] := by
  decide

example : arun .readOnly [3, 4, 5] [.read, .poke 1 7, .read]
    = [.arr [3, 4, 5], .readOnlyError, .arr [3, 4, 5]] := by decide

end DclabModel.C17

namespace DclabModel.C17
open DclabModel.Cache

/-! ## 5. the dict and the FIFO key list stay in sync (memory bound) -/

/-- `Cache._cache` holds exactly the keys of `Cache._keys`, each once -/
def Sync [DecidableEq K] (s : St K V) : Prop :=
  (s.store.map Prod.fst).Perm s.keys ∧ s.keys.Nodup

theorem erase_of_not_mem [DecidableEq K] (d : K) :
    ∀ l : List (K × V), d ∉ l.map Prod.fst → erase d l = l := by
  intro l
  induction l with
  | nil => intro _; rfl
  | cons h t ih =>
    obtain ⟨k, v⟩ := h
    intro hd
    simp only [List.map_cons, List.mem_cons, not_or] at hd
    simp only [erase]
    split
    · rename_i hk; exact absurd hk.symm hd.1
    · rw [ih hd.2]

theorem erase_map_fst [DecidableEq K] (d : K) :
    ∀ l : List (K × V), (l.map Prod.fst).Nodup → (erase d l).map Prod.fst = (l.map Prod.fst).erase d := by
  intro l
  induction l with
  | nil => intro _; rfl
  | cons h t ih =>
    obtain ⟨k, v⟩ := h
    intro hn
    simp only [List.map_cons, List.nodup_cons] at hn
    simp only [erase, List.map_cons]
    split
    · rename_i hk
      subst hk
      rw [erase_of_not_mem k t hn.1, List.erase_cons_head]
    · rename_i hk
      rw [List.map_cons, ih hn.2, List.erase_cons_tail (by simpa using hk)]

theorem lookup_none_not_mem [DecidableEq K] (k : K) :
    ∀ l : List (K × V), lookup k l = none → k ∉ l.map Prod.fst := by
  intro l
  induction l with
  | nil => intro _ h; cases h
  | cons h t ih =>
    obtain ⟨k', v⟩ := h
    simp only [lookup]
    split
    · intro h; cases h
    · rename_i hk
      intro h
      simp only [List.map_cons, List.mem_cons, not_or]
      exact ⟨fun e => hk e.symm, ih h⟩

theorem call_sync [DecidableEq K] (c : Cfg A K V) (s : St K V) (a : A) (h : Sync s) :
    Sync (call c s a).1 := by
  obtain ⟨hp, hn⟩ := h
  unfold call
  cases hl : lookup (c.enc a) s.store with
  | some v => simp only [hl]; exact ⟨hp, hn⟩
  | none =>
    simp only [hl]
    have hk : c.enc a ∉ s.store.map Prod.fst := lookup_none_not_mem _ _ hl
    have hk' : c.enc a ∉ s.keys := fun hm => hk (hp.symm.subset hm)
    have hp1 : (((c.enc a, c.f a) :: s.store).map Prod.fst).Perm (s.keys ++ [c.enc a]) := by
      simp only [List.map_cons]
      exact ((List.perm_append_singleton (c.enc a) s.keys).trans (hp.symm.cons _)).symm
    have hn1 : (s.keys ++ [c.enc a]).Nodup := by
      rw [List.nodup_append]
      refine ⟨hn, by simp, ?_⟩
      intro x hx y hy
      simp only [List.mem_singleton] at hy
      subst hy; intro e; subst e; exact hk' hx
    by_cases hover : (s.keys ++ [c.enc a]).length > c.cap
    · simp only [hover, if_true]
      cases hks : s.keys ++ [c.enc a] with
      | nil => simp at hks
      | cons d rest =>
        simp only
        rw [hks] at hp1 hn1
        have hsn : (((c.enc a, c.f a) :: s.store).map Prod.fst).Nodup := hp1.nodup_iff.mpr hn1
        refine ⟨?_, (List.nodup_cons.mp hn1).2⟩
        rw [erase_map_fst d _ hsn]
        have := hp1.erase d
        rwa [List.erase_cons_head] at this
    · simp only [hover, if_false]
      exact ⟨hp1, hn1⟩

/-- **Memory bound of `dclab.cached.Cache`.** After every history of calls the dict holds
exactly the keys of the FIFO list, each once, hence at most `MAX_SIZE` entries. -/
theorem memo_store_bounded [DecidableEq K] (c : Cfg A K V) :
    ∀ (hist : List A) (s : St K V), Sync s → s.keys.length ≤ c.cap →
      Sync (runCalls c s hist).1 ∧ (runCalls c s hist).1.store.length ≤ c.cap := by
  intro hist
  induction hist with
  | nil =>
    intro s h hb
    refine ⟨h, ?_⟩
    have := h.1.length_eq
    simp only [List.length_map] at this
    simp only [runCalls]; omega
  | cons x xs ih =>
    intro s h hb
    simp only [runCalls]
    exact ih _ (call_sync c s x h) (call_keys_bounded c s x hb)

end DclabModel.C17

namespace DclabModel.C17
open DclabModel.Cache

/-! ## 6. every eviction policy, `functools.lru_cache`, refinement of "no cache" -/

/-- **History theorem for every sound eviction policy** (FIFO, LRU with hit reordering, …) and
every capacity: if the key respects the function on the calls that are made (`H`), every history
returns the values of the undecorated function. -/
theorem evict_history_correct [DecidableEq K] (e : Evict K V) (he : e.Sound) (c : Cfg A K V)
    (H : A → Prop) (hinj : ∀ a b, H a → H b → c.enc a = c.enc b → c.f a = c.f b) :
    ∀ (hist : List A), (∀ a ∈ hist, H a) → ∀ s, TInv c H s →
      (trun e c s hist).2 = hist.map c.f ∧ TInv c H (trun e c s hist).1 := by
  intro hist
  induction hist with
  | nil => intro _ s h; exact ⟨rfl, h⟩
  | cons x xs ih =>
    intro hH s h
    obtain ⟨h1, h2⟩ := tcall_correct e he c H hinj s x (hH x (by simp)) h
    obtain ⟨h3, h4⟩ := ih (fun a ha => hH a (by simp [ha])) _ h2
    simp only [trun, List.map_cons]
    exact ⟨by rw [h1, h3], h4⟩

/-- `functools.lru_cache(maxsize=cap)` for every `cap` (also 0 = nothing stored): every history
of calls, whatever is evicted and however hits reorder the table, returns `f(args)` -/
theorem lru_history_correct [DecidableEq K] (c : Cfg A K V)
    (hinj : ∀ a b, c.enc a = c.enc b → c.f a = c.f b) (hist : List A) :
    (trun lru c [] hist).2 = hist.map c.f :=
  (evict_history_correct lru lru_sound c (fun _ => True) (fun a b _ _ h => hinj a b h) hist
    (fun _ _ => trivial) [] (by intro k v h; cases h)).1

theorem lru_size_bounded [DecidableEq K] (c : Cfg A K V) :
    ∀ (hist : List A) (s : List (K × V)), s.length ≤ c.cap →
      (trun lru c s hist).1.length ≤ c.cap := by
  intro hist
  induction hist with
  | nil => intro s h; exact h
  | cons x xs ih =>
    intro s h
    simp only [trun]
    apply ih
    unfold tcall
    cases hl : lookup (c.enc x) s with
    | some v =>
      simp only [lru, List.length_append, List.length_singleton]
      have := erase_length_lt _ _ _ hl
      omega
    | none => exact pushCap_length _ _ _ _

/-- the key must respect the function: with a key that forgets the argument a table of any
policy returns the other call's value -/
theorem stale_without_key_respect :
    (trun lru ({ f := id, enc := fun _ => 0, cap := 1 } : Cfg Nat Nat Nat) [] [1, 2]).2 = [1, 1] := by
  decide

/-- hit reordering is really modelled: with capacity 2 the history 1 2 1 3 1 ends with a hit under
LRU (the hit on 1 made 2 the victim) and with a miss under FIFO -/
theorem lru_differs_from_fifo :
    thits lru ({ f := id, enc := id, cap := 2 } : Cfg Nat Nat Nat) [] [1, 2, 1, 3, 1]
      = [false, false, true, false, true] ∧
    thits fifo ({ f := id, enc := id, cap := 2 } : Cfg Nat Nat Nat) [] [1, 2, 1, 3, 1]
      = [false, false, true, false, false] := by
  decide

/-- forward simulation between state machines over the same calls and results -/
def Refines (m : Machine S A V) (spec : Machine T A V) : Prop :=
  ∃ R : S → T → Prop, R m.init spec.init ∧
    ∀ s t a, R s t → (m.step s a).2 = (spec.step t a).2 ∧ R (m.step s a).1 (spec.step t a).1

/-- a refinement has the same observable trace for every history -/
theorem refines_run (m : Machine S A V) (spec : Machine T A V) (h : Refines m spec)
    (hist : List A) : m.run m.init hist = spec.run spec.init hist := by
  obtain ⟨R, h0, hstep⟩ := h
  have key : ∀ (hist : List A) s t, R s t → m.run s hist = spec.run t hist := by
    intro hist
    induction hist with
    | nil => intro s t _; rfl
    | cons a as ih =>
      intro s t hr
      obtain ⟨h1, h2⟩ := hstep s t a hr
      simp only [Machine.run]
      rw [h1, ih _ _ h2]
  exact key hist _ _ h0

/-- **the FIFO table of `dclab.cached.Cache` refines "no cache"**, for every capacity -/
theorem fifo_refines_noCache [DecidableEq K] (c : Cfg A K V)
    (hinj : ∀ a b, c.enc a = c.enc b → c.f a = c.f b) : Refines (fifoM c) (noCache c.f) :=
  ⟨fun s _ => Inv c s, (by intro k v h; cases h), fun s _ a hr => call_correct c hinj s a hr⟩

/-- **every sound table — in particular the LRU table — refines "no cache"**, for every capacity -/
theorem table_refines_noCache [DecidableEq K] (e : Evict K V) (he : e.Sound) (c : Cfg A K V)
    (hinj : ∀ a b, c.enc a = c.enc b → c.f a = c.f b) : Refines (tableM e c) (noCache c.f) :=
  ⟨fun s _ => TInv c (fun _ => True) s, (by intro k v h; cases h),
   fun s _ a hr => tcall_correct e he c _ (fun a b _ _ h => hinj a b h) s a trivial hr⟩

theorem lru_refines_noCache [DecidableEq K] (c : Cfg A K V)
    (hinj : ∀ a b, c.enc a = c.enc b → c.f a = c.f b) : Refines (tableM lru c) (noCache c.f) :=
  table_refines_noCache lru lru_sound c hinj

example : (noCache (fun n : Nat => n + 1)).run () [1, 5] = [2, 6] := by decide

/-! ## 7. the file-monitoring cache over a file system -/

theorem fileCfg_respects (h : List Nat → Ar → V) (cap : Nat) (C : List (FCall P Ar))
    (hC : StampOK C) (a b : FCall P Ar) (ha : a ∈ C) (hb : b ∈ C)
    (hk : (fileCfg h cap).enc a = (fileCfg h cap).enc b) :
    (fileCfg h cap).f a = (fileCfg h cap).f b := by
  obtain ⟨p, f, ar⟩ := a
  obtain ⟨p', f', ar'⟩ := b
  simp only [fileCfg, Prod.mk.injEq] at hk
  obtain ⟨hp, hs, har⟩ := hk
  have := hC _ ha _ hb hp hs
  simp only at this
  simp only [fileCfg, this, har]

theorem fs_cache_sound_gen [DecidableEq P] [DecidableEq Sp] [DecidableEq Ar]
    (e : Evict (P × (Nat × Nat) × Ar) V) (he : e.Sound) (h : List Nat → Ar → V) (cap : Nat)
    (C : List (FCall P Ar)) (hC : StampOK C) :
    ∀ (ops : List (FsOp P Sp Ar)) (st : FsSt P Sp) (t : List ((P × (Nat × Nat) × Ar) × V)),
      (∀ a ∈ fsCalls st ops, a ∈ C) → TInv (fileCfg h cap) (· ∈ C) t →
      fsRun e h cap st t ops = fsSpec h st ops := by
  intro ops
  induction ops with
  | nil => intro st t _ _; rfl
  | cons op ops ih =>
    intro st t hsub hinv
    cases op with
    | hash sp ar =>
      simp only [fsRun, fsSpec]
      cases hf : st.files (st.res sp) with
      | none =>
        simp only [Option.map_none]
        rw [ih st t (by simpa [fsCalls, hf] using hsub) hinv]
      | some f =>
        have hmem : (st.res sp, f, ar) ∈ C := hsub _ (by simp [fsCalls, hf])
        obtain ⟨h1, h2⟩ := tcall_correct e he (fileCfg h cap) (· ∈ C)
          (fun a b ha hb => fileCfg_respects h cap C hC a b ha hb) t _ hmem hinv
        simp only [Option.map_some]
        rw [h1, ih st _ (fun a ha => hsub a (by simp [fsCalls, hf, ha])) h2]
        rfl
    | write p b m => simp only [fsRun, fsSpec]; exact ih _ t (by simpa [fsCalls] using hsub) hinv
    | remove p => simp only [fsRun, fsSpec]; exact ih _ t (by simpa [fsCalls] using hsub) hinv
    | rebind sp p => simp only [fsRun, fsSpec]; exact ih _ t (by simpa [fsCalls] using hsub) hinv

/-- **Soundness of `file_monitoring_lru_cache`.**  For every history of rewrites, removals,
`chdir`s / re-targeted links and memoised calls, every eviction policy and capacity: if, among
the moments at which a file is hashed, equal (mtime, size) stamps of the same resolved file go
with equal bytes (`StampOK`), every call returns what the undecorated function returns on the
file as it is at call time (and raises exactly when the path does not exist). -/
theorem fs_cache_sound [DecidableEq P] [DecidableEq Sp] [DecidableEq Ar]
    (e : Evict (P × (Nat × Nat) × Ar) V) (he : e.Sound) (h : List Nat → Ar → V) (cap : Nat)
    (st : FsSt P Sp) (ops : List (FsOp P Sp Ar)) (hok : StampOK (fsCalls st ops)) :
    fsRun e h cap st [] ops = fsSpec h st ops :=
  fs_cache_sound_gen e he h cap _ hok ops st [] (fun _ h => h) (by intro k v h; cases h)

/-- `util.hashfile`: lru table, `maxsize = 100`, value = md5 of `hashedBytes` -/
theorem hashfile_cache_sound [DecidableEq P] [DecidableEq Sp] (md5 : List Nat → D)
    (st : FsSt P Sp) (ops : List (FsOp P Sp (Option (Nat × Nat)))) (hok : StampOK (fsCalls st ops)) :
    fsRun lru (fun b ar => md5 (hashedBytes b ar)) 100 st [] ops
      = fsSpec (fun b ar => md5 (hashedBytes b ar)) st ops :=
  fs_cache_sound lru lru_sound _ 100 st ops hok

/-- **outside the assumption** (documented limit of the design, not a defect): a rewrite that
keeps size and mtime is served the old value -/
theorem same_stamp_rewrite_is_stale :
    fsRun lru (fun b (_ : Unit) => b) 100 (⟨fun _ => none, fun _ => 0⟩ : FsSt Nat Nat) []
        [.write 0 [1] 5, .hash 0 (), .write 0 [2] 5, .hash 0 ()] = [some [1], some [1]] ∧
    fsSpec (fun b (_ : Unit) => b) (⟨fun _ => none, fun _ => 0⟩ : FsSt Nat Nat)
        [.write 0 [1] 5, .hash 0 (), .write 0 [2] 5, .hash 0 ()] = [some [1], some [2]] := by
  decide

/-- non-vacuity: two files with the same stamp behind one spelling (a link that is re-targeted)
are told apart, because the key holds the resolved path -/
example :
    fsRun lru (fun b (_ : Unit) => b) 100 (⟨fun _ => none, fun _ => 0⟩ : FsSt Nat Nat) []
        [.write 0 [1] 5, .write 1 [2] 5, .hash 7 (), .rebind 7 1, .hash 7 (), .hash 8 (),
         .remove 0, .hash 8 ()]
      = [some [1], some [2], some [1], none] := by
  decide

end DclabModel.C17

namespace DclabModel.C17
open DclabModel.Cache

/-! ## 8. ownership: results that do not alias the cache entry cannot be corrupted -/

/-- stored objects hold the function value; ids are allocated; under `readOnly` every stored
object is write-protected, under `copy` no stored object was ever handed out -/
structure OInv (p : Policy) (c : Cfg A K (List Nat)) (s : OSt K) : Prop where
  val : ∀ k id, (k, id) ∈ s.table → ∃ a, c.enc a = k ∧ (s.heap id).data = c.f a
  tlt : ∀ k id, (k, id) ∈ s.table → id < s.next
  olt : ∀ id, id ∈ s.out → id < s.next
  ro  : p = .readOnly → ∀ k id, (k, id) ∈ s.table → (s.heap id).writeable = false
  own : p = .copy → ∀ k id, (k, id) ∈ s.table → id ∉ s.out

theorem oinit_inv (p : Policy) (c : Cfg A K (List Nat)) : OInv p c (oinit : OSt K) where
  val := by intro k id h; cases h
  tlt := by intro k id h; cases h
  olt := by intro id h; cases h
  ro := by intro _ k id h; cases h
  own := by intro _ k id h; cases h

theorem ostore_inv [DecidableEq K] (p : Policy) (c : Cfg A K (List Nat))
    (hinj : ∀ a b, c.enc a = c.enc b → c.f a = c.f b) (s : OSt K) (a : A) (h : OInv p c s) :
    OInv p c (ostore p c s a).1 ∧ (ostore p c s a).2 < (ostore p c s a).1.next ∧
      ((ostore p c s a).1.heap (ostore p c s a).2).data = c.f a := by
  unfold ostore
  cases hl : lookup (c.enc a) s.table with
  | some id =>
    simp only
    have hm := lookup_mem hl
    obtain ⟨b, hb1, hb2⟩ := h.val _ _ hm
    exact ⟨h, h.tlt _ _ hm, by rw [hb2]; exact hinj b a hb1⟩
  | none =>
    simp only
    refine ⟨?_, by omega, by simp [upd]⟩
    have old : ∀ k id, (k, id) ∈ pushCap c.cap s.table (c.enc a) s.next →
        (k, id) = (c.enc a, s.next) ∨ (k, id) ∈ s.table := fun k id hm => mem_pushCap hm
    constructor
    · intro k id hm
      rcases old k id hm with h1 | h1
      · cases h1; exact ⟨a, rfl, by simp [upd]⟩
      · obtain ⟨b, hb1, hb2⟩ := h.val k id h1
        have := h.tlt k id h1
        exact ⟨b, hb1, by simp only [upd]; rw [if_neg (by omega)]; exact hb2⟩
    · intro k id hm
      rcases old k id hm with h1 | h1
      · cases h1; simp
      · have := h.tlt k id h1; simp only; omega
    · intro id hm
      have := h.olt id hm; simp only; omega
    · intro hp k id hm
      rcases old k id hm with h1 | h1
      · cases h1; subst hp; simp [upd]
      · have := h.tlt k id h1
        simp only [upd]; rw [if_neg (by omega)]; exact h.ro hp k id h1
    · intro hp k id hm
      rcases old k id hm with h1 | h1
      · cases h1; intro hin; have := h.olt _ hin; omega
      · exact h.own hp k id h1

theorem handOut_inv (p : Policy) (c : Cfg A K (List Nat)) (s : OSt K) (sid : Nat)
    (h : OInv p c s) (hs : sid < s.next) :
    OInv p c (handOut p s sid).1 ∧ ∃ id, (handOut p s sid).2 = .val id (s.heap sid).data := by
  have plain : OInv p c { s with out := s.out ++ [sid] } ∨ p = .copy := by
    by_cases hp : p = .copy
    · exact Or.inr hp
    · left
      exact { val := h.val, tlt := h.tlt,
              olt := by
                intro id hm
                rcases List.mem_append.mp hm with h1 | h1
                · exact h.olt id h1
                · have : id = sid := by simpa using h1
                  rw [this]; exact hs
              ro := h.ro, own := fun hc => absurd hc hp }
  cases p with
  | copy =>
    refine ⟨?_, ⟨_, rfl⟩⟩
    simp only [handOut]
    constructor
    · intro k id hm
      obtain ⟨b, hb1, hb2⟩ := h.val k id hm
      have := h.tlt k id hm
      exact ⟨b, hb1, by simp only [upd]; rw [if_neg (by omega)]; exact hb2⟩
    · intro k id hm; have := h.tlt k id hm; simp only; omega
    · intro id hm
      rcases List.mem_append.mp hm with h1 | h1
      · have := h.olt id h1; simp only; omega
      · have : id = s.next := by simpa using h1
        simp only; omega
    · intro hp; cases hp
    · intro _ k id hm hin
      rcases List.mem_append.mp hin with h1 | h1
      · exact h.own rfl k id hm h1
      · have : id = s.next := by simpa using h1
        have := h.tlt k id hm; omega
  | alias =>
    rcases plain with h1 | h1
    · exact ⟨h1, ⟨_, rfl⟩⟩
    · cases h1
  | readOnly =>
    rcases plain with h1 | h1
    · exact ⟨h1, ⟨_, rfl⟩⟩
    · cases h1

theorem poke_inv [DecidableEq K] (p : Policy) (hp : p ≠ .alias) (c : Cfg A K (List Nat)) (s : OSt K)
    (r i v : Nat) (h : OInv p c s) : OInv p c (ostep p c s (.poke r i v)).1 := by
  simp only [ostep]
  cases hr : s.out[r]? with
  | none => exact h
  | some id =>
    simp only
    by_cases hw : (s.heap id).writeable = true
    · simp only [hw, if_true]
      have hin : id ∈ s.out := List.mem_of_getElem? hr
      have ne : ∀ k id', (k, id') ∈ s.table → id' ≠ id := by
        intro k id' hm e
        subst e
        cases p with
        | alias => exact hp rfl
        | readOnly => have := h.ro rfl k _ hm; rw [this] at hw; cases hw
        | copy => exact h.own rfl k _ hm hin
      constructor
      · intro k id' hm
        obtain ⟨b, hb1, hb2⟩ := h.val k id' hm
        exact ⟨b, hb1, by simp only [upd]; rw [if_neg (ne k id' hm)]; exact hb2⟩
      · exact h.tlt
      · exact h.olt
      · intro hq k id' hm
        simp only [upd]; rw [if_neg (ne k id' hm)]; exact h.ro hq k id' hm
      · exact h.own
    · simp only [hw]
      exact h

/-- **Mutation isolation.**  If memoised results are handed out write-protected or as fresh
copies, then for every history of calls and in-place writes into any earlier result (any
interleaving, any eviction) every call returns exactly the value of the undecorated function. -/
theorem memo_mutation_isolated [DecidableEq K] (p : Policy) (hp : p ≠ .alias)
    (c : Cfg A K (List Nat)) (hinj : ∀ a b, c.enc a = c.enc b → c.f a = c.f b) :
    ∀ (ops : List (OOp A)) (s : OSt K), OInv p c s → ovals (orun p c s ops) = ospec c.f ops := by
  intro ops
  induction ops with
  | nil => intro s _; rfl
  | cons op ops ih =>
    intro s h
    cases op with
    | call a =>
      obtain ⟨h1, h2, h3⟩ := ostore_inv p c hinj s a h
      obtain ⟨h4, id, h5⟩ := handOut_inv p c _ _ h1 h2
      simp only [orun, ostep, ospec, h5, ovals, h3]
      rw [ih _ h4]
    | poke r i v =>
      have h1 := poke_inv p hp c s r i v h
      simp only [orun, ospec]
      rw [← ih _ h1]
      cases ho : (ostep p c s (.poke r i v)).2 with
      | val id xs =>
        exfalso
        simp only [ostep] at ho
        split at ho
        · cases ho
        · split at ho <;> cases ho
      | ok => rfl
      | readOnlyError => rfl
      | noResult => rfl

theorem memo_mutation_isolated_fresh [DecidableEq K] (p : Policy) (hp : p ≠ .alias)
    (c : Cfg A K (List Nat)) (hinj : ∀ a b, c.enc a = c.enc b → c.f a = c.f b)
    (ops : List (OOp A)) : ovals (orun p c oinit ops) = ospec c.f ops :=
  memo_mutation_isolated p hp c hinj ops _ (oinit_inv p c)

/-- **the witness for `alias`** (today's `dclab.cached.Cache` when a memoised function is called
directly, e.g. `downsampling.downsample_grid`): writing into the result changes what the next
identical call returns -/
theorem alias_result_corrupts_cache :
    ovals (orun .alias ({ f := fun n => [n, n], enc := id, cap := 100 } : Cfg Nat Nat (List Nat)) oinit
      [.call 3, .poke 0 1 9, .call 3]) = [some [3, 3], none, some [3, 9]] := by
  decide

example : ovals (orun .copy ({ f := fun n => [n, n], enc := id, cap := 100 } : Cfg Nat Nat (List Nat)) oinit
      [.call 3, .poke 0 1 9, .call 3]) = [some [3, 3], none, some [3, 3]] := by
  decide

example : orun .readOnly ({ f := fun n => [n, n], enc := id, cap := 100 } : Cfg Nat Nat (List Nat)) oinit
      [.call 3, .poke 0 1 9, .call 3] = [.val 0 [3, 3], .readOnlyError, .val 0 [3, 3]] := by
  decide

end DclabModel.C17
