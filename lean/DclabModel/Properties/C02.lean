import DclabModel.Lemmas.Export
/-!
# C02 — HDF5/TSV export contains exactly the selected events and features

The model (`Model/Export.lean`) mirrors `Export.hdf5`, `store_filtered_feature`,
`yield_filtered_array_stacks`, `RTDCWriter.write_ndarray` and `Export.tsv`; the specification
is `sel mask rows` (= `rows[mask]`).  Every theorem quantifies over all sources, masks,
feature lists and chunk sizes > 0; rows are opaque tokens.

* `stacksFast_concat`, `stacksSlow_concat`  the chunk-assembling generator hands out exactly the
  selected rows in order — for the slow path this is a statement about the *snapshots at yield
  time* of a buffer that is reused (`lazy_consumer_witness`: a consumer that keeps the yielded
  references gets wrong data);
* `chunked_write_appends`   the write loop of `write_ndarray` (full chunks + remainder) appends;
* `export_selects`          every requested feature reads back as `sel mask rows`;
* `export_event_count`      the event count is the size of the selection (F02 repaired;
                            `F02_old_witness` shows the previous behaviour);
* `export_unfiltered`       without filter every row is exported;
* `export_duplicates_irrelevant`, `export_carries_metadata`, `length_check_makes_selection_safe`;
* `tsv_rows`                one row per selected event with that event's values;
  `tsv_chunked_rows`        a chunked table writer (any chunk size) yields the same rows;
* `feature_list_normalised`, `feature_list_order_independent`, `export_order_independent`,
  `export_exactly_requested`, `export_default_features`   `sorted(set(features))` is sorted,
  duplicate-free, a permutation of the request and determined by the *set* of requested names;
  the output holds exactly the requested features;
* `prefixed_names_injective`, `export_log_lookup`, `export_log_name_distinct`
                            carried-over logs are found under their prefixed names, no collisions;
* `export_ignores_directory_history`, `export_directory_frame`, `export_refuses_existing`
                            the exported file does not depend on what earlier exports (completed,
                            failed, killed) left in the output directory; `stale_temp_file_witness`
                            shows a temp-file variant without that property;
* `tsv_text_structure`, `tsv_text_chunked`, `tsv_values_recoverable`
                            comment lines, `# names`, `# labels`, then one data line per selected
                            event whose cells are the formatted values in column order.
-/
namespace DclabModel.C02
open DclabModel.Export

variable {α : Type}

/-! ## 1. the stack generator -/

/-- **fast path** (`data[indices[start:stop]]` for `len // cs` full slices, then the remainder):
the concatenation of the yielded stacks is `data` at `indices`, for every chunk size > 0 -/
theorem stacksFast_concat (cs : Nat) (_hcs : 0 < cs) (idx : List Nat) (get : Nat → α) :
    (stacksFast cs idx get).flatten = idx.map get := by
  unfold stacksFast
  simp only [List.flatten_append, fast_full_flatten]
  split
  · simp only [List.flatten_cons, List.flatten_nil, List.append_nil, ← List.map_append,
      List.take_append_drop]
  · simp only [List.flatten_nil, List.append_nil]
    rw [List.take_of_length_le (by omega)]

/-- **slow path** (one buffer, filled event-wise, yielded by reference when full, `chunk[:jj]`
at the end): the concatenation of the *snapshots taken at yield time* is `data` at `indices` -/
theorem stacksSlow_concat [Inhabited α] (cs : Nat) (hcs : 0 < cs) (idx : List Nat)
    (get : Nat → α) : (stacksSlow cs idx get).flatten = idx.map get := by
  unfold stacksSlow
  have := consumeEager_flatten cs hcs get idx (List.replicate cs default) 0 (by simp) hcs
  simpa using this

/-- both paths yield the same data -/
theorem stacks_paths_agree [Inhabited α] (cs : Nat) (hcs : 0 < cs) (idx : List Nat)
    (get : Nat → α) : (stacksSlow cs idx get).flatten = (stacksFast cs idx get).flatten := by
  rw [stacksSlow_concat cs hcs, stacksFast_concat cs hcs]

/-- no empty stack is ever handed to the writer (it would raise "Empty data object") -/
theorem stacks_nonempty [Inhabited α] (cs : Nat) (hcs : 0 < cs) (idx : List Nat) (get : Nat → α) :
    (∀ st ∈ stacksFast cs idx get, st ≠ []) ∧ (∀ st ∈ stacksSlow cs idx get, st ≠ []) :=
  ⟨stacksFast_nonempty cs hcs idx get,
   consumeEager_nonempty cs hcs get idx _ 0 (by simp) hcs⟩

/-- the in-place reuse matters: a consumer that collects the yielded objects and reads them
after the generator has finished sees the last buffer contents in every full stack -/
theorem lazy_consumer_witness :
    (consumeLazy (List.replicate 2 0) (slowTrace 2 (fun i => 10 * i) [1, 2, 3, 4, 5] 0)).flatten
      ≠ [1, 2, 3, 4, 5].map (fun i => 10 * i) ∧
    (consumeEager (List.replicate 2 0) (slowTrace 2 (fun i => 10 * i) [1, 2, 3, 4, 5] 0)).flatten
      = [1, 2, 3, 4, 5].map (fun i => 10 * i) := by
  decide

/-- an off-by-one in the remainder of the fast path (`stop <= len` dropped to `stop + 1 < len`)
would lose an event: the model distinguishes it -/
example : (stacksFast 3 [4, 5, 6, 7] (fun i => i)).flatten = [4, 5, 6, 7] ∧
    (stacksFast 3 [4, 5, 6, 7] (fun i => i)) = [[4, 5, 6], [7]] := by decide

/-! ## 2. the chunked write loop -/

/-- `write_ndarray` (create/resize, `len // cs` full chunks, remainder) appends the data to the
dataset, for every dataset chunk size > 0 -/
theorem chunked_write_appends [Inhabited α] (cs : Nat) (hcs : 0 < cs) (dset data : List α)
    (hne : data ≠ []) : writeNd cs dset data = some (dset ++ data) :=
  writeNd_append cs hcs dset data hne

/-! ## 3. the export -/

/-- **C02.** For every source, every mask (empty, full, single, straddling the chunk sizes),
every feature list (any order, duplicates) and all chunk sizes > 0: the export succeeds and
every requested feature reads back as exactly the selected rows, in order. -/
theorem export_selects [Inhabited α] (src : Src α) (o : Opts) (mask : List Bool)
    (feats : List String) (fts : List (Feat α))
    (hlk : lookupAll src (normFeats feats) = some fts)
    (m : List Bool) (hm : effMask src o mask fts = some m) (hok : Ok o fts (some m)) :
    ∃ fl, exportHdf5 src o mask feats = some fl ∧
      ∀ f ∈ feats, ∀ ft, lookup src f = some ft → read fl f = sel m ft.rows := by
  obtain ⟨fl, hfl, hread, _⟩ := export_run src o mask feats fts hlk (hm ▸ hok)
  refine ⟨fl, hfl, ?_⟩
  intro f hf ft hft
  rw [hread f hf ft hft, hm]; rfl

/-- without any length mismatch the effective selection is the dataset's filter itself -/
theorem effMask_plain (src : Src α) (o : Opts) (mask : List Bool) (fts : List (Feat α))
    (hf : o.filtered = true) (hsame : ∀ a ∈ fts, ∀ b ∈ fts, a.rows.length = b.rows.length) :
    effMask src o mask fts = some mask := by
  unfold effMask
  simp only [hf, if_true]
  split
  · rfl
  · split
    · rename_i lmin lmax hmin hmax
      have h1 := List.min?_mem hmin
      have h2 := List.max?_mem hmax
      obtain ⟨a, ha, rfl⟩ := List.mem_map.mp h1
      obtain ⟨b, hb, rfl⟩ := List.mem_map.mp h2
      simp [hsame a ha b hb]
    · rfl

/-- with the length check on, features of different length are exported up to the shortest one:
the selection is truncated and then automatically addresses existing rows only -/
theorem length_check_makes_selection_safe (src : Src α) (o : Opts) (mask : List Bool)
    (fts : List (Feat α)) (hchk : o.skipChecks = false) (lmin lmax : Nat)
    (hmin : (fts.map (·.rows.length)).min? = some lmin)
    (hmax : (fts.map (·.rows.length)).max? = some lmax) (hdiff : lmin ≠ lmax) :
    ∃ m, effMask src o mask fts = some m ∧ (∀ ft ∈ fts, ∀ i ∈ indices m, i < ft.rows.length) ∧
      ∀ (xs : List α), sel m xs
        = sel ((if o.filtered then mask else List.replicate src.n true).take lmin) xs := by
  obtain ⟨m, hm, hr⟩ := truncation_in_range src o mask fts hchk lmin lmax hmin hmax hdiff
  refine ⟨m, hm, hr, ?_⟩
  intro xs
  unfold effMask at hm
  simp only [hchk, Bool.false_eq_true, if_false, hmin, hmax, ne_eq, hdiff, not_false_eq_true,
    if_true, Option.some.injEq] at hm
  rw [← hm, sel_truncate]
  cases o.filtered <;> rfl

/-- **event count** (F02 repaired): the exported file's `experiment:event count` is the number
of selected events — also when nothing was selected and therefore no feature was written -/
theorem export_event_count [Inhabited α] (src : Src α) (o : Opts) (hfix : o.fixed = true)
    (mask : List Bool) (feats : List String) (fts : List (Feat α))
    (hlk : lookupAll src (normFeats feats) = some fts)
    (m : List Bool) (hm : effMask src o mask fts = some m) (hok : Ok o fts (some m)) :
    ∃ fl, exportHdf5 src o mask feats = some fl ∧ fl.eventCount = countTrue m := by
  obtain ⟨fl, hfl, _, hmem, hcnt, _⟩ := export_run src o mask feats fts hlk (hm ▸ hok)
  refine ⟨fl, hfl, ?_⟩
  rw [hcnt]
  cases hfs : firstSorted fl.events with
  | none => simp [hm, hfix]
  | some h =>
    obtain ⟨name, rows⟩ := h
    obtain ⟨ft, hft, hrows⟩ := hmem _ (firstSorted_mem _ _ hfs)
    simp only at hrows ⊢
    rw [hrows, hm]
    exact sel_length m ft.rows (hok.inRange m rfl ft hft)

/-- **unfiltered export**: every requested feature is exported completely and the event count
is the source's -/
theorem export_unfiltered [Inhabited α] (src : Src α) (o : Opts) (mask : List Bool)
    (feats : List String) (fts : List (Feat α))
    (hlk : lookupAll src (normFeats feats) = some fts)
    (hm : effMask src o mask fts = none) (hok : Ok o fts none)
    (hlen : ∀ ft ∈ fts, ft.rows.length = src.n) :
    ∃ fl, exportHdf5 src o mask feats = some fl ∧ fl.eventCount = src.n ∧
      ∀ f ∈ feats, ∀ ft, lookup src f = some ft → read fl f = ft.rows := by
  obtain ⟨fl, hfl, hread, hmem, hcnt, _⟩ := export_run src o mask feats fts hlk (hm ▸ hok)
  refine ⟨fl, hfl, ?_, ?_⟩
  · rw [hcnt]
    cases hfs : firstSorted fl.events with
    | none => simp [hm]
    | some h =>
      obtain ⟨name, rows⟩ := h
      obtain ⟨ft, hft, hrows⟩ := hmem _ (firstSorted_mem _ _ hfs)
      simp only at hrows ⊢
      rw [hrows, hm]
      exact hlen ft hft
  · intro f hf ft hft
    rw [hread f hf ft hft, hm]; rfl

/-- duplicates in the feature list are irrelevant (`sorted(set(features))`) -/
theorem export_duplicates_irrelevant [Inhabited α] (src : Src α) (o : Opts) (mask : List Bool)
    (feats : List String) (a : String) (ha : a ∈ feats) :
    exportHdf5 src o mask (a :: feats) = exportHdf5 src o mask feats := by
  unfold exportHdf5 normFeats
  simp only [dedup, ha, if_true]

/-- measurement metadata of the configuration sections, and — when requested — the logs and
tables (with the prefix) are carried over unchanged; a filtered export gets a new run
identifier -/
theorem export_carries_metadata [Inhabited α] (src : Src α) (o : Opts) (mask : List Bool)
    (feats : List String) (fts : List (Feat α))
    (hlk : lookupAll src (normFeats feats) = some fts)
    (hok : Ok o fts (effMask src o mask fts)) :
    ∃ fl, exportHdf5 src o mask feats = some fl ∧
      fl.cfg = src.cfg.filter (fun e => o.cfgSections.contains e.1) ∧
      fl.logs = (if o.logs then src.logs.map (fun l => (o.pfx ++ l.1, l.2)) else []) ∧
      fl.tables = (if o.tables then src.tables.map (fun t => (o.pfx ++ t.1, t.2)) else []) ∧
      fl.derivedRunId = o.filtered := by
  obtain ⟨fl, hfl, _, _, _, h1, h2, h3, h4⟩ := export_run src o mask feats fts hlk hok
  exact ⟨fl, hfl, h1, h2, h3, h4⟩

/-! ## 4. F02 -/

def demoSrc : Src Nat :=
  { n := 5, hdf5 := true, cfg := [("setup", "medium", "1"), ("calculation", "x", "2")],
    logs := [("log", ["a"])], tables := [],
    feats := [⟨"deform", .scalar, [1, 2, 3, 4, 5], true⟩, ⟨"image", .image, [11, 12, 13, 14, 15], false⟩,
              ⟨"contour", .contour, [21, 22, 23, 24, 25], false⟩] }

/-- **F02 (before the fix).** With an all-False filter no feature is written and the output
kept the *source's* event count (5) although nothing was exported. -/
theorem F02_old_witness :
    (exportHdf5 demoSrc { fixed := false, cs := 2, csw := 2 } [false, false, false, false, false]
      ["deform", "image"]).map (fun fl => (fl.events, fl.eventCount)) = some ([], 5) := by
  decide

/-- after the fix the count is that of the selection -/
theorem F02_fixed_witness :
    (exportHdf5 demoSrc { cs := 2, csw := 2 } [false, false, false, false, false]
      ["deform", "image"]).map (fun fl => (fl.events, fl.eventCount)) = some ([], 0) := by
  decide

/-- non-vacuity: a selection straddling both chunk sizes, slow path, duplicates, contour -/
example :
    (exportHdf5 demoSrc { cs := 2, csw := 3, cfgSections := ["setup"], logs := true }
      [true, false, true, true, true] ["image", "deform", "image", "contour"]).map
      (fun fl => (fl.events, fl.eventCount))
    = some ([("contour", [21, 23, 24, 25]), ("deform", [1, 3, 4, 5]), ("image", [11, 13, 14, 15])],
        4) := by
  decide

example :
    (exportHdf5 demoSrc { cs := 2, csw := 3, cfgSections := ["setup"], logs := true }
      [true, false, true, true, true] ["image", "deform", "image", "contour"]).map
      (fun fl => (fl.cfg, fl.logs))
    = some ([("setup", "medium", "1")], [("src_log", ["a"])]) := by
  decide

example : Ok { cs := 2, csw := 3 } demoSrc.feats (some [true, false, true, true, true]) :=
  ⟨by decide, by decide, by decide, by intro m h; cases h; decide, by intro m h; cases h; decide⟩

/-! ## 5. TSV -/

/-- **TSV.** The header is the sorted, lower-cased, duplicate-free feature list; the table has
one row per selected event (in order), holding that event's value of every column. -/
theorem tsv_rows [Inhabited α] (src : Src α) (mask : List Bool) (feats : List String)
    (fts : List (Feat α)) (hlk : lookupAll src (tsvFeats feats) = some fts) (hne : fts ≠ [])
    (hsc : fts.all (fun ft => ft.kind = .scalar) = true)
    (hr : ∀ ft ∈ fts, ∀ i ∈ indices mask, i < ft.rows.length) :
    tsvRows src true mask feats = some (tsvFeats feats,
      (indices mask).map fun j => fts.map fun ft => ft.rows.getD j default) := by
  unfold tsvRows
  simp only [hlk, hsc, if_true]
  congr 2
  have : fts.map (fun ft => sel mask ft.rows)
      = (fts.map (fun ft => fun i => ft.rows.getD i default)).map
          (fun g => (indices mask).map g) := by
    rw [List.map_map]
    apply List.map_congr_left
    intro ft hft
    exact (gather_eq_sel default mask ft.rows (hr ft hft)).symm
  rw [this, transpose_gather _ _ (by simpa using hne)]
  simp only [List.map_map]
  rfl

/-- **chunked TSV writer.** Writing the table in chunks of any size `c > 0` (full chunks of the
selected indices, then the remainder) yields exactly the rows of `tsv_rows` — the refinement
obligation of every memory-saving rewrite of `Export.tsv`. -/
theorem tsv_chunked_rows [Inhabited α] (src : Src α) (mask : List Bool) (feats : List String)
    (fts : List (Feat α)) (hlk : lookupAll src (tsvFeats feats) = some fts) (hne : fts ≠ [])
    (hsc : fts.all (fun ft => ft.kind = .scalar) = true)
    (hr : ∀ ft ∈ fts, ∀ i ∈ indices mask, i < ft.rows.length) (c : Nat) (hc : 0 < c) :
    tsvRows src true mask feats = some (tsvFeats feats,
      (tsvChunks c (indices mask) fun j => fts.map fun ft => ft.rows.getD j default).flatten) := by
  rw [tsv_rows src mask feats fts hlk hne hsc hr]
  unfold tsvChunks
  rw [stacksFast_concat c hc]

/-- a writer that decides about the trailing partial chunk from the dataset size loses the last
selected events when the size is a multiple of the chunk size and the selection is not -/
theorem tsv_size_test_loses_events :
    (tsvChunksSizeTest 2 4 [0, 1, 3] (fun j => j)).flatten = [0, 1] ∧
    (tsvChunks 2 [0, 1, 3] (fun j => j)).flatten = [0, 1, 3] := by
  decide

/-- an unfiltered TSV export has the full columns -/
theorem tsv_unfiltered (src : Src α) (mask : List Bool) (feats : List String)
    (fts : List (Feat α)) (hlk : lookupAll src (tsvFeats feats) = some fts)
    (hsc : fts.all (fun ft => ft.kind = .scalar) = true) :
    tsvRows src false mask feats = some (tsvFeats feats, transpose (fts.map (·.rows))) := by
  unfold tsvRows
  simp [hlk, hsc]

example : tsvRows demoSrc true [true, false, true, true, true] ["Deform", "deform"]
    = some (["deform"], [[1], [3], [4], [5]]) := by decide +kernel

/-! ## 6. the requested feature list -/

/-- **feature list.** `sorted(set(features))`: the list the feature loop runs over is in ascending
order, free of duplicates, a permutation of the de-duplicated request, and holds exactly the
requested names -/
theorem feature_list_normalised (feats : List String) :
    (normFeats feats).Pairwise (· ≤ ·) ∧ (normFeats feats).Nodup ∧
      (normFeats feats).Perm (dedup feats) ∧ ∀ a, a ∈ normFeats feats ↔ a ∈ feats :=
  ⟨isort_sorted _, nodup_normFeats feats, isort_perm _ _, fun a => mem_normFeats a feats⟩

/-- the normalised list is *determined* by the set of requested names: order and multiplicity of
the request are irrelevant -/
theorem feature_list_order_independent (f₁ f₂ : List String) (h : ∀ a, a ∈ f₁ ↔ a ∈ f₂) :
    normFeats f₁ = normFeats f₂ :=
  sorted_nodup_ext _ _ (isort_sorted _) (isort_sorted _) (nodup_normFeats f₁) (nodup_normFeats f₂)
    (fun a => by rw [mem_normFeats, mem_normFeats, h a])

/-- … and therefore for the whole export (any permutation, any duplication of the request) -/
theorem export_order_independent [Inhabited α] (src : Src α) (o : Opts) (mask : List Bool)
    (f₁ f₂ : List String) (h : ∀ a, a ∈ f₁ ↔ a ∈ f₂) :
    exportHdf5 src o mask f₁ = exportHdf5 src o mask f₂ := by
  unfold exportHdf5
  rw [feature_list_order_independent f₁ f₂ h]

/-- **exactly the requested features**: every entry of the output is a requested feature holding
that feature's selected rows, and every requested feature with a non-empty selection is there -/
theorem export_exactly_requested [Inhabited α] (src : Src α) (o : Opts) (mask : List Bool)
    (feats : List String) (fts : List (Feat α))
    (hlk : lookupAll src (normFeats feats) = some fts)
    (hok : Ok o fts (effMask src o mask fts)) :
    ∃ fl, exportHdf5 src o mask feats = some fl ∧
      (∀ p ∈ fl.events, p.1 ∈ feats ∧ ∃ ft, lookup src p.1 = some ft ∧
        p.2 = target (effMask src o mask fts) ft) ∧
      ∀ f ∈ feats, ∀ ft, lookup src f = some ft → target (effMask src o mask fts) ft ≠ [] →
        f ∈ fl.events.map (·.1) := by
  obtain ⟨fl, hfl, hread, _⟩ := export_run src o mask feats fts hlk hok
  refine ⟨fl, hfl, export_run_names src o mask feats fts hlk hok fl hfl, ?_⟩
  intro f hf ft hft hne
  apply readEv_ne_nil_mem
  have := hread f hf ft hft
  unfold Export.read at this
  rw [this]; exact hne

/-- `features=None` exports the innate features -/
theorem export_default_features [Inhabited α] (src : Src α) (o : Opts) (mask : List Bool)
    (innate : List String) :
    exportHdf5 src o mask (reqFeats none innate) = exportHdf5 src o mask innate := rfl

example : normFeats ["image", "deform", "image", "contour", "deform"]
    = ["contour", "deform", "image"] := by decide

/-! ## 7. names of the carried-over logs and tables -/

/-- prefixing is injective: no two logs (tables) of the source collide in the output, whatever
the prefix -/
theorem prefixed_names_injective (pfx a b : String) (h : pfx ++ a = pfx ++ b) : a = b :=
  prefix_injective pfx a b h

/-- **logs by name.** With logs requested, every log of the source is found in the output under
its prefixed name with unchanged lines (source log names are the keys of a mapping, hence
pairwise different), and nothing else is there -/
theorem export_log_lookup [Inhabited α] (src : Src α) (o : Opts) (mask : List Bool)
    (feats : List String) (fts : List (Feat α))
    (hlk : lookupAll src (normFeats feats) = some fts)
    (hok : Ok o fts (effMask src o mask fts)) (hlogs : o.logs = true)
    (hnd : (src.logs.map (·.1)).Nodup) :
    ∃ fl, exportHdf5 src o mask feats = some fl ∧
      (fl.logs.map (·.1)).Nodup ∧ fl.logs.length = src.logs.length ∧
      ∀ n lines, (n, lines) ∈ src.logs → findLog fl.logs (o.pfx ++ n) = some lines := by
  obtain ⟨fl, hfl, _, _, _, _, hl, _⟩ := export_run src o mask feats fts hlk hok
  refine ⟨fl, hfl, ?_, ?_, ?_⟩
  · rw [hl, hlogs]; exact prefixed_nodup o.pfx src.logs hnd
  · rw [hl, hlogs]; simp
  · intro n lines hm
    apply findLog_of_mem
    · rw [hl, hlogs]; exact prefixed_nodup o.pfx src.logs hnd
    · rw [hl, hlogs]
      exact List.mem_map.mpr ⟨(n, lines), hm, rfl⟩

/-- the export's own log (`dclab-export_<time>`) never collides with a carried-over log under
the default prefix -/
theorem export_log_name_distinct (n t : String) : "src_" ++ n ≠ "dclab-export_" ++ t := by
  intro h
  have := congrArg String.toList h
  simp only [String.toList_append] at this
  have h1 : ("src_" : String).toList = ['s', 'r', 'c', '_'] := rfl
  have h2 : ("dclab-export_" : String).toList = 'd' :: "clab-export_".toList := rfl
  rw [h1, h2] at this
  simp at this

/-- without a prefix a source log that carries the name of the export log *is* merged with it
(append-mode `write_text`): the prefix is what keeps the logs apart -/
theorem empty_prefix_merges_witness :
    appendLogs [("dclab-export_T", ["{…}"])] (prefixed "" [("dclab-export_T", ["old"])])
      = [("dclab-export_T", ["{…}", "old"])] ∧
    appendLogs [("dclab-export_T", ["{…}"])] (prefixed "src_" [("dclab-export_T", ["old"])])
      = [("dclab-export_T", ["{…}"]), ("src_dclab-export_T", ["old"])] := by
  decide

/-! ## 8. the output directory -/

/-- **history independence.** Whatever the output directory contains (files left by earlier
exports to the same path that completed, raised or were killed half-way — any `d`), an export
with `override` produces at `path` exactly the file of an export to a fresh path, and touches no
other file -/
theorem export_ignores_directory_history [Inhabited α] (d : Dir α) (path : String) (src : Src α)
    (o : Opts) (mask : List Bool) (feats : List String) (hnd : (src.logs.map (·.1)).Nodup) :
    exportAt d path true src o mask feats =
      match exportHdf5 src o mask feats with
      | some fl => .done (dirSet d path fl)
      | none => .failed := by
  unfold exportAt
  simp only [Bool.not_true, Bool.false_and, Bool.false_eq_true, if_false]
  have hget : dirGet (if (dirGet d path).isSome = true then dirErase d path else d) path = none := by
    split
    · exact dirGet_erase_self d path
    · rename_i h
      cases hg : dirGet d path with
      | none => rfl
      | some f => simp [hg] at h
  have hset : ∀ fl, dirSet (if (dirGet d path).isSome = true then dirErase d path else d) path fl
      = dirSet d path fl := by
    intro fl
    split
    · simp only [dirSet, dirErase_idem]
    · rfl
  rw [hget]
  simp only [Option.getD_none, exportOnto_empty src o mask feats hnd, hset]
  rfl

/-- the exported file is found at `path`, every other file of the directory is what it was -/
theorem export_directory_frame [Inhabited α] (d : Dir α) (path : String) (src : Src α)
    (o : Opts) (mask : List Bool) (feats : List String) (hnd : (src.logs.map (·.1)).Nodup)
    (fl : File α) (hfl : exportHdf5 src o mask feats = some fl) :
    ∃ d', exportAt d path true src o mask feats = .done d' ∧ dirGet d' path = some fl ∧
      ∀ q, q ≠ path → dirGet d' q = dirGet d q := by
  refine ⟨dirSet d path fl, ?_, dirGet_set_self d path fl, fun q hq => dirGet_set_other d path q fl hq⟩
  rw [export_ignores_directory_history d path src o mask feats hnd, hfl]

/-- without `override` an existing output file is refused (and not touched) -/
theorem export_refuses_existing [Inhabited α] (d : Dir α) (path : String) (src : Src α)
    (o : Opts) (mask : List Bool) (feats : List String) (f : File α) (h : dirGet d path = some f) :
    exportAt d path false src o mask feats = .exists_ := by
  unfold exportAt
  simp [h]

def staleFile : File Nat :=
  { events := [("deform", [91, 92, 93]), ("image", [81, 82])], eventCount := 3,
    derivedRunId := true, cfg := [], logs := [("src_log", ["stale"])], tables := [] }

def eventsAt (r : Outcome Nat) (p : String) : Option (Events Nat × Nat) :=
  match r with
  | .done d => (dirGet d p).map fun fl => (fl.events, fl.eventCount)
  | _ => none

/-- **the `unlink` matters.** A variant that writes through the neighbour `path~` with the
append-mode writer and does not remove a temporary file that is already there (left by a killed
export) delivers the stale events in front of the selected ones — while dclab's export of the
same request into the same directory (and into one where the stale file sits at `path` itself)
delivers exactly the selection -/
theorem stale_temp_file_witness :
    eventsAt (exportAtTemp [("out.rtdc~", staleFile)] "out.rtdc" true demoSrc { cs := 2, csw := 2 }
      [true, false, true, true, false] ["deform", "image"]) "out.rtdc"
      = some ([("deform", [91, 92, 93, 1, 3, 4]), ("image", [81, 82, 11, 13, 14])], 6) ∧
    eventsAt (exportAt [("out.rtdc~", staleFile), ("out.rtdc", staleFile)] "out.rtdc" true demoSrc
      { cs := 2, csw := 2 } [true, false, true, true, false] ["deform", "image"]) "out.rtdc"
      = some ([("deform", [1, 3, 4]), ("image", [11, 13, 14])], 3) := by
  decide +kernel

/-- the variant is indistinguishable from dclab's export as long as no `path~` exists — a single
export into a clean directory, repeated exports and overriding a complete file all agree -/
theorem temp_variant_agrees_without_stale_file [Inhabited α] (d : Dir α) (path : String)
    (src : Src α) (o : Opts) (mask : List Bool) (feats : List String)
    (hnd : (src.logs.map (·.1)).Nodup) (hclean : dirGet d (path ++ "~") = none) :
    exportAtTemp d path true src o mask feats = exportAt d path true src o mask feats := by
  rw [export_ignores_directory_history d path src o mask feats hnd]
  unfold exportAtTemp
  simp only [Bool.not_true, Bool.false_and, Bool.false_eq_true, if_false, hclean,
    Option.getD_none, exportOnto_empty src o mask feats hnd, dirErase_absent d _ hclean]
  rfl

/-! ## 9. the text of a `.tsv` file -/

/-- **TSV text.** For every source, mask, scalar feature list, formatter and label function: the
file consists of comment lines followed by data lines only; the last two comment lines are the
sorted lower-case feature names and their labels (same order); there is exactly one data line
per selected event, in order, and its `k`-th cell is the formatted value of the `k`-th column's
feature at that event -/
theorem tsv_text_structure [Inhabited α] (fmt : α → String) (label : String → String)
    (metaLines : List (List String)) (src : Src α) (mask : List Bool) (feats : List String)
    (fts : List (Feat α)) (hlk : lookupAll src (tsvFeats feats) = some fts) (hne : fts ≠ [])
    (hsc : fts.all (fun ft => ft.kind = .scalar) = true)
    (hr : ∀ ft ∈ fts, ∀ i ∈ indices mask, i < ft.rows.length) :
    ∃ txt, tsvText fmt label metaLines src true mask feats = some txt ∧
      commentCells txt = metaLines ++ [tsvFeats feats, (tsvFeats feats).map label] ∧
      dataCells txt = (indices mask).map (fun j => fts.map fun ft => fmt (ft.rows.getD j default)) ∧
      (dataCells txt).length = countTrue mask ∧
      txt = (commentCells txt).map .comment ++ (dataCells txt).map .data := by
  have hrows := tsv_rows src mask feats fts hlk hne hsc hr
  unfold tsvText
  rw [hrows]
  simp only
  have hmap : ∀ rows : List (List α), rows.map (fun r => Line.data (r.map fmt))
      = (rows.map (fun r => r.map fmt)).map Line.data := by
    intro rows; rw [List.map_map]; rfl
  rw [hmap]
  obtain ⟨hc, hd⟩ := text_shape metaLines (tsvFeats feats) ((tsvFeats feats).map label)
    (((indices mask).map fun j => fts.map fun ft => ft.rows.getD j default).map
      (fun r => r.map fmt))
  refine ⟨_, rfl, hc, ?_, ?_, ?_⟩
  · rw [hd]; simp [List.map_map, Function.comp_def]
  · rw [hd]; simp [indices_length]
  · rw [hc, hd]; simp

/-- values can be read back as precisely as the formatter allows: if `fmt` is injective up to the
relation `close` (two numbers with the same text are `close`), every number a reader can
associate with the cell of selected event `j` in column `ft` is `close` to the source value -/
theorem tsv_values_recoverable [Inhabited α] (fmt : α → String) (close : α → α → Prop)
    (hinj : ∀ x y, fmt x = fmt y → close x y) (ft : Feat α) (j : Nat) (v : α)
    (hcell : fmt v = fmt (ft.rows.getD j default)) : close v (ft.rows.getD j default) :=
  hinj _ _ hcell

/-- a writer that puts out the data lines in chunks of any size `c > 0` writes the same text -/
theorem tsv_text_chunked [Inhabited α] (fmt : α → String) (label : String → String)
    (metaLines : List (List String)) (src : Src α) (mask : List Bool) (feats : List String)
    (fts : List (Feat α)) (hlk : lookupAll src (tsvFeats feats) = some fts) (hne : fts ≠ [])
    (hsc : fts.all (fun ft => ft.kind = .scalar) = true)
    (hr : ∀ ft ∈ fts, ∀ i ∈ indices mask, i < ft.rows.length) (c : Nat) (hc : 0 < c) :
    tsvText fmt label metaLines src true mask feats =
      some (tsvTextChunked c fmt label metaLines (tsvFeats feats) (indices mask)
        fun j => fts.map fun ft => ft.rows.getD j default) := by
  unfold tsvText tsvTextChunked
  rw [tsv_chunked_rows src mask feats fts hlk hne hsc hr c hc]
  simp only [List.map_flatten]

example : tsvText (fun n : Nat => toString n) (fun f => f ++ " [a.u.]") [["dclab version: x"], []]
    demoSrc true [true, false, true, true, true] ["Deform", "deform"]
    = some [.comment ["dclab version: x"], .comment [], .comment ["deform"],
            .comment ["deform [a.u.]"], .data ["1"], .data ["3"], .data ["4"], .data ["5"]] := by
  decide +kernel

end DclabModel.C02
