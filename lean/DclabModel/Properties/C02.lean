import DclabModel.Lemmas.Export
/-!
# C02 — HDF5/TSV export contains exactly the selected events and features

The model (`Model/Export.lean`) mirrors `Export.hdf5`, `store_filtered_feature`,
`yield_filtered_array_stacks`, `RTDCWriter.write_ndarray` and `Export.tsv`; the specification
is `sel mask rows` (= `rows[mask]`).  Every theorem quantifies over all sources, masks,
feature lists and chunk sizes > 0; rows are opaque tokens.

* `stacksFast_concat`, `stacksSlow_concat`  the chunk-assembling generator hands out exactly the
  selected rows in order — for the slow path this is a statement about the *snapshots at yield
  time* of a buffer that is reused (`lazy_consumer_witness`: a consumer that keeps the yielded
  references gets wrong data);
* `chunked_write_appends`   the write loop of `write_ndarray` (full chunks + remainder) appends;
* `export_selects`          every requested feature reads back as `sel mask rows`;
* `export_event_count`      the event count is the size of the selection (F02 repaired;
                            `F02_old_witness` shows the previous behaviour);
* `export_unfiltered`       without filter every row is exported;
* `export_duplicates_irrelevant`, `export_carries_metadata`, `length_check_makes_selection_safe`;
* `tsv_rows`                one row per selected event with that event's values;
  `tsv_chunked_rows`        a chunked table writer (any chunk size) yields the same rows.
-/
namespace DclabModel.C02
open DclabModel.Export

variable {α : Type}

/-! ## 1. the stack generator -/

/-- **fast path** (`data[indices[start:stop]]` for `len // cs` full slices, then the remainder):
the concatenation of the yielded stacks is `data` at `indices`, for every chunk size > 0 -/
theorem stacksFast_concat (cs : Nat) (_hcs : 0 < cs) (idx : List Nat) (get : Nat → α) :
    (stacksFast cs idx get).flatten = idx.map get := by
  unfold stacksFast
  simp only [List.flatten_append, fast_full_flatten]
  split
  · simp only [List.flatten_cons, List.flatten_nil, List.append_nil, ← List.map_append,
      List.take_append_drop]
  · simp only [List.flatten_nil, List.append_nil]
    rw [List.take_of_length_le (by omega)]

/-- **slow path** (one buffer, filled event-wise, yielded by reference when full, `chunk[:jj]`
at the end): the concatenation of the *snapshots taken at yield time* is `data` at `indices` -/
theorem stacksSlow_concat [Inhabited α] (cs : Nat) (hcs : 0 < cs) (idx : List Nat)
    (get : Nat → α) : (stacksSlow cs idx get).flatten = idx.map get := by
  unfold stacksSlow
  have := consumeEager_flatten cs hcs get idx (List.replicate cs default) 0 (by simp) hcs
  simpa using this

/-- both paths yield the same data -/
theorem stacks_paths_agree [Inhabited α] (cs : Nat) (hcs : 0 < cs) (idx : List Nat)
    (get : Nat → α) : (stacksSlow cs idx get).flatten = (stacksFast cs idx get).flatten := by
  rw [stacksSlow_concat cs hcs, stacksFast_concat cs hcs]

/-- no empty stack is ever handed to the writer (it would raise "Empty data object") -/
theorem stacks_nonempty [Inhabited α] (cs : Nat) (hcs : 0 < cs) (idx : List Nat) (get : Nat → α) :
    (∀ st ∈ stacksFast cs idx get, st ≠ []) ∧ (∀ st ∈ stacksSlow cs idx get, st ≠ []) :=
  ⟨stacksFast_nonempty cs hcs idx get,
   consumeEager_nonempty cs hcs get idx _ 0 (by simp) hcs⟩

/-- the in-place reuse matters: a consumer that collects the yielded objects and reads them
after the generator has finished sees the last buffer contents in every full stack -/
theorem lazy_consumer_witness :
    (consumeLazy (List.replicate 2 0) (slowTrace 2 (fun i => 10 * i) [1, 2, 3, 4, 5] 0)).flatten
      ≠ [1, 2, 3, 4, 5].map (fun i => 10 * i) ∧
    (consumeEager (List.replicate 2 0) (slowTrace 2 (fun i => 10 * i) [1, 2, 3, 4, 5] 0)).flatten
      = [1, 2, 3, 4, 5].map (fun i => 10 * i) := by
  decide

/-- an off-by-one in the remainder of the fast path (`stop <= len` dropped to `stop + 1 < len`)
would lose an event: the model distinguishes it -/
example : (stacksFast 3 [4, 5, 6, 7] (fun i => i)).flatten = [4, 5, 6, 7] ∧
    (stacksFast 3 [4, 5, 6, 7] (fun i => i)) = [[4, 5, 6], [7]] := by decide

/-! ## 2. the chunked write loop -/

/-- `write_ndarray` (create/resize, `len // cs` full chunks, remainder) appends the data to the
dataset, for every dataset chunk size > 0 -/
theorem chunked_write_appends [Inhabited α] (cs : Nat) (hcs : 0 < cs) (dset data : List α)
    (hne : data ≠ []) : writeNd cs dset data = some (dset ++ data) :=
  writeNd_append cs hcs dset data hne

/-! ## 3. the export -/

/-- **C02.** For every source, every mask (empty, full, single, straddling the chunk sizes),
every feature list (any order, duplicates) and all chunk sizes > 0: the export succeeds and
every requested feature reads back as exactly the selected rows, in order. -/
theorem export_selects [Inhabited α] (src : Src α) (o : Opts) (mask : List Bool)
    (feats : List String) (fts : List (Feat α))
    (hlk : lookupAll src (normFeats feats) = some fts)
    (m : List Bool) (hm : effMask src o mask fts = some m) (hok : Ok o fts (some m)) :
    ∃ fl, exportHdf5 src o mask feats = some fl ∧
      ∀ f ∈ feats, ∀ ft, lookup src f = some ft → read fl f = sel m ft.rows := by
  obtain ⟨fl, hfl, hread, _⟩ := export_run src o mask feats fts hlk (hm ▸ hok)
  refine ⟨fl, hfl, ?_⟩
  intro f hf ft hft
  rw [hread f hf ft hft, hm]; rfl

/-- without any length mismatch the effective selection is the dataset's filter itself -/
theorem effMask_plain (src : Src α) (o : Opts) (mask : List Bool) (fts : List (Feat α))
    (hf : o.filtered = true) (hsame : ∀ a ∈ fts, ∀ b ∈ fts, a.rows.length = b.rows.length) :
    effMask src o mask fts = some mask := by
  unfold effMask
  simp only [hf, if_true]
  split
  · rfl
  · split
    · rename_i lmin lmax hmin hmax
      have h1 := List.min?_mem hmin
      have h2 := List.max?_mem hmax
      obtain ⟨a, ha, rfl⟩ := List.mem_map.mp h1
      obtain ⟨b, hb, rfl⟩ := List.mem_map.mp h2
      simp [hsame a ha b hb]
    · rfl

/-- with the length check on, features of different length are exported up to the shortest one:
the selection is truncated and then automatically addresses existing rows only -/
theorem length_check_makes_selection_safe (src : Src α) (o : Opts) (mask : List Bool)
    (fts : List (Feat α)) (hchk : o.skipChecks = false) (lmin lmax : Nat)
    (hmin : (fts.map (·.rows.length)).min? = some lmin)
    (hmax : (fts.map (·.rows.length)).max? = some lmax) (hdiff : lmin ≠ lmax) :
    ∃ m, effMask src o mask fts = some m ∧ (∀ ft ∈ fts, ∀ i ∈ indices m, i < ft.rows.length) ∧
      ∀ (xs : List α), sel m xs
        = sel ((if o.filtered then mask else List.replicate src.n true).take lmin) xs := by
  obtain ⟨m, hm, hr⟩ := truncation_in_range src o mask fts hchk lmin lmax hmin hmax hdiff
  refine ⟨m, hm, hr, ?_⟩
  intro xs
  unfold effMask at hm
  simp only [hchk, Bool.false_eq_true, if_false, hmin, hmax, ne_eq, hdiff, not_false_eq_true,
    if_true, Option.some.injEq] at hm
  rw [← hm, sel_truncate]
  cases o.filtered <;> rfl

/-- **event count** (F02 repaired): the exported file's `experiment:event count` is the number
of selected events — also when nothing was selected and therefore no feature was written -/
theorem export_event_count [Inhabited α] (src : Src α) (o : Opts) (hfix : o.fixed = true)
    (mask : List Bool) (feats : List String) (fts : List (Feat α))
    (hlk : lookupAll src (normFeats feats) = some fts)
    (m : List Bool) (hm : effMask src o mask fts = some m) (hok : Ok o fts (some m)) :
    ∃ fl, exportHdf5 src o mask feats = some fl ∧ fl.eventCount = countTrue m := by
  obtain ⟨fl, hfl, _, hmem, hcnt, _⟩ := export_run src o mask feats fts hlk (hm ▸ hok)
  refine ⟨fl, hfl, ?_⟩
  rw [hcnt]
  cases hfs : firstSorted fl.events with
  | none => simp [hm, hfix]
  | some h =>
    obtain ⟨name, rows⟩ := h
    obtain ⟨ft, hft, hrows⟩ := hmem _ (firstSorted_mem _ _ hfs)
    simp only at hrows ⊢
    rw [hrows, hm]
    exact sel_length m ft.rows (hok.inRange m rfl ft hft)

/-- **unfiltered export**: every requested feature is exported completely and the event count
is the source's -/
theorem export_unfiltered [Inhabited α] (src : Src α) (o : Opts) (mask : List Bool)
    (feats : List String) (fts : List (Feat α))
    (hlk : lookupAll src (normFeats feats) = some fts)
    (hm : effMask src o mask fts = none) (hok : Ok o fts none)
    (hlen : ∀ ft ∈ fts, ft.rows.length = src.n) :
    ∃ fl, exportHdf5 src o mask feats = some fl ∧ fl.eventCount = src.n ∧
      ∀ f ∈ feats, ∀ ft, lookup src f = some ft → read fl f = ft.rows := by
  obtain ⟨fl, hfl, hread, hmem, hcnt, _⟩ := export_run src o mask feats fts hlk (hm ▸ hok)
  refine ⟨fl, hfl, ?_, ?_⟩
  · rw [hcnt]
    cases hfs : firstSorted fl.events with
    | none => simp [hm]
    | some h =>
      obtain ⟨name, rows⟩ := h
      obtain ⟨ft, hft, hrows⟩ := hmem _ (firstSorted_mem _ _ hfs)
      simp only at hrows ⊢
      rw [hrows, hm]
      exact hlen ft hft
  · intro f hf ft hft
    rw [hread f hf ft hft, hm]; rfl

/-- duplicates in the feature list are irrelevant (`sorted(set(features))`) -/
theorem export_duplicates_irrelevant [Inhabited α] (src : Src α) (o : Opts) (mask : List Bool)
    (feats : List String) (a : String) (ha : a ∈ feats) :
    exportHdf5 src o mask (a :: feats) = exportHdf5 src o mask feats := by
  unfold exportHdf5 normFeats
  simp only [dedup, ha, if_true]

/-- measurement metadata of the configuration sections, and — when requested — the logs and
tables (with the prefix) are carried over unchanged; a filtered export gets a new run
identifier -/
theorem export_carries_metadata [Inhabited α] (src : Src α) (o : Opts) (mask : List Bool)
    (feats : List String) (fts : List (Feat α))
    (hlk : lookupAll src (normFeats feats) = some fts)
    (hok : Ok o fts (effMask src o mask fts)) :
    ∃ fl, exportHdf5 src o mask feats = some fl ∧
      fl.cfg = src.cfg.filter (fun e => o.cfgSections.contains e.1) ∧
      fl.logs = (if o.logs then src.logs.map (fun l => (o.pfx ++ l.1, l.2)) else []) ∧
      fl.tables = (if o.tables then src.tables.map (fun t => (o.pfx ++ t.1, t.2)) else []) ∧
      fl.derivedRunId = o.filtered := by
  obtain ⟨fl, hfl, _, _, _, h1, h2, h3, h4⟩ := export_run src o mask feats fts hlk hok
  exact ⟨fl, hfl, h1, h2, h3, h4⟩

/-! ## 4. F02 -/

def demoSrc : Src Nat :=
  { n := 5, hdf5 := true, cfg := [("setup", "medium", "1"), ("calculation", "x", "2")],
    logs := [("log", ["a"])], tables := [],
    feats := [⟨"deform", .scalar, [1, 2, 3, 4, 5], true⟩, ⟨"image", .image, [11, 12, 13, 14, 15], false⟩,
              ⟨"contour", .contour, [21, 22, 23, 24, 25], false⟩] }

/-- **F02 (before the fix).** With an all-False filter no feature is written and the output
kept the *source's* event count (5) although nothing was exported. -/
theorem F02_old_witness :
    (exportHdf5 demoSrc { fixed := false, cs := 2, csw := 2 } [false, false, false, false, false]
      ["deform", "image"]).map (fun fl => (fl.events, fl.eventCount)) = some ([], 5) := by
  decide

/-- after the fix the count is that of the selection -/
theorem F02_fixed_witness :
    (exportHdf5 demoSrc { cs := 2, csw := 2 } [false, false, false, false, false]
      ["deform", "image"]).map (fun fl => (fl.events, fl.eventCount)) = some ([], 0) := by
  decide

/-- non-vacuity: a selection straddling both chunk sizes, slow path, duplicates, contour -/
example :
    (exportHdf5 demoSrc { cs := 2, csw := 3, cfgSections := ["setup"], logs := true }
      [true, false, true, true, true] ["image", "deform", "image", "contour"]).map
      (fun fl => (fl.events, fl.eventCount))
    = some ([("contour", [21, 23, 24, 25]), ("deform", [1, 3, 4, 5]), ("image", [11, 13, 14, 15])],
        4) := by
  decide

example :
    (exportHdf5 demoSrc { cs := 2, csw := 3, cfgSections := ["setup"], logs := true }
      [true, false, true, true, true] ["image", "deform", "image", "contour"]).map
      (fun fl => (fl.cfg, fl.logs))
    = some ([("setup", "medium", "1")], [("src_log", ["a"])]) := by
  decide

example : Ok { cs := 2, csw := 3 } demoSrc.feats (some [true, false, true, true, true]) :=
  ⟨by decide, by decide, by decide, by intro m h; cases h; decide, by intro m h; cases h; decide⟩

/-! ## 5. TSV -/

/-- **TSV.** The header is the sorted, lower-cased, duplicate-free feature list; the table has
one row per selected event (in order), holding that event's value of every column. -/
theorem tsv_rows [Inhabited α] (src : Src α) (mask : List Bool) (feats : List String)
    (fts : List (Feat α)) (hlk : lookupAll src (tsvFeats feats) = some fts) (hne : fts ≠ [])
    (hsc : fts.all (fun ft => ft.kind = .scalar) = true)
    (hr : ∀ ft ∈ fts, ∀ i ∈ indices mask, i < ft.rows.length) :
    tsvRows src true mask feats = some (tsvFeats feats,
      (indices mask).map fun j => fts.map fun ft => ft.rows.getD j default) := by
  unfold tsvRows
  simp only [hlk, hsc, if_true]
  congr 2
  have : fts.map (fun ft => sel mask ft.rows)
      = (fts.map (fun ft => fun i => ft.rows.getD i default)).map
          (fun g => (indices mask).map g) := by
    rw [List.map_map]
    apply List.map_congr_left
    intro ft hft
    exact (gather_eq_sel default mask ft.rows (hr ft hft)).symm
  rw [this, transpose_gather _ _ (by simpa using hne)]
  simp only [List.map_map]
  rfl

/-- **chunked TSV writer.** Writing the table in chunks of any size `c > 0` (full chunks of the
selected indices, then the remainder) yields exactly the rows of `tsv_rows` — the refinement
obligation of every memory-saving rewrite of `Export.tsv`. -/
theorem tsv_chunked_rows [Inhabited α] (src : Src α) (mask : List Bool) (feats : List String)
    (fts : List (Feat α)) (hlk : lookupAll src (tsvFeats feats) = some fts) (hne : fts ≠ [])
    (hsc : fts.all (fun ft => ft.kind = .scalar) = true)
    (hr : ∀ ft ∈ fts, ∀ i ∈ indices mask, i < ft.rows.length) (c : Nat) (hc : 0 < c) :
    tsvRows src true mask feats = some (tsvFeats feats,
      (tsvChunks c (indices mask) fun j => fts.map fun ft => ft.rows.getD j default).flatten) := by
  rw [tsv_rows src mask feats fts hlk hne hsc hr]
  unfold tsvChunks
  rw [stacksFast_concat c hc]

/-- a writer that decides about the trailing partial chunk from the dataset size loses the last
selected events when the size is a multiple of the chunk size and the selection is not -/
theorem tsv_size_test_loses_events :
    (tsvChunksSizeTest 2 4 [0, 1, 3] (fun j => j)).flatten = [0, 1] ∧
    (tsvChunks 2 [0, 1, 3] (fun j => j)).flatten = [0, 1, 3] := by
  decide

/-- an unfiltered TSV export has the full columns -/
theorem tsv_unfiltered (src : Src α) (mask : List Bool) (feats : List String)
    (fts : List (Feat α)) (hlk : lookupAll src (tsvFeats feats) = some fts)
    (hsc : fts.all (fun ft => ft.kind = .scalar) = true) :
    tsvRows src false mask feats = some (tsvFeats feats, transpose (fts.map (·.rows))) := by
  unfold tsvRows
  simp [hlk, hsc]

example : tsvRows demoSrc true [true, false, true, true, true] ["Deform", "deform"]
    = some (["deform"], [[1], [3], [4], [5]]) := by decide +kernel

end DclabModel.C02
