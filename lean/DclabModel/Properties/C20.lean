import DclabModel.Lemmas.Summary
import DclabModel.Lemmas.SummaryView
/-!
# C20 — Reported feature minima, maxima and means match the data

Property theorems only.  Model: `Model/Summary.lean`.  `MeanRule.fixed` is the update rule of
`RTDCWriter.write_ndarray` after the repair of finding F21, `MeanRule.old` the rule before it.
All statements quantify over every list of values (any distribution of NaN, ±inf, all-NaN
prefixes, single events) and every production history.
-/
namespace DclabModel.C20
open DclabModel.Summary DclabModel.Summary.Val

/-- one call of `write_ndarray` (scalar branch, repaired rule): whatever was stored before was
absent or true ⇒ afterwards all three attributes are stored and true, and the data are
`old ++ new` -/
theorem write_step (ds : Option SDs) (hg : ∀ s, ds = some s → Good s) (data : List Val) :
    Exact (writeScalar .fixed ds data) ∧
    (writeScalar .fixed ds data).data = (ds.map (·.data)).getD [] ++ data :=
  write_exact ds hg data

/-- **C20, minimum and maximum.** After any partition of the events into append calls
(non-empty calls; at least one) the stored `min`/`max` are `nanmin`/`nanmax` of the
concatenation — including all-NaN prefixes. -/
theorem min_max_incremental (chunks : List (List Val)) (s : SDs)
    (h : appends .fixed chunks = some s) :
    s.data = chunks.flatten ∧
    (s.mn = none ∨ s.mn = some (nanmin chunks.flatten)) ∧
    (s.mx = none ∨ s.mx = some (nanmax chunks.flatten)) := by
  have hd := appends_data chunks none
  have hg := appends_from_good chunks none (by intro s h; cases h) s h
  unfold appends at h
  rw [h] at hd
  simp at hd
  rw [← hd]
  exact ⟨rfl, hg.1, hg.2.1⟩

/-- **C20, mean (repaired rule).** After any partition into append calls the stored mean is
`nanmean` of the concatenation. -/
theorem mean_incremental (chunks : List (List Val)) (last : List Val) (hne : last ≠ []) (s : SDs)
    (h : appends .fixed (chunks ++ [last]) = some s) :
    s.mean = some (nanmean (chunks ++ [last]).flatten) ∧
    s.mn = some (nanmin (chunks ++ [last]).flatten) ∧
    s.mx = some (nanmax (chunks ++ [last]).flatten) := by
  obtain ⟨⟨h1, h2, h3⟩, hd⟩ := appends_exact chunks last hne s h
  rw [← hd]
  exact ⟨h3, h1, h2⟩

/-- **Finding F21, witness 1** (rule before the repair): `[1, nan]` then `[3]` stores the mean
`5/3`; the true mean is `2`. -/
theorem mean_old_witness :
    (appends .old [[fin 1, nan], [fin 3]]).map (·.mean) = some (some (fin (5 / 3))) ∧
    nanmean [fin 1, nan, fin 3] = fin 2 ∧
    (appends .fixed [[fin 1, nan], [fin 3]]).map (·.mean) = some (some (fin 2)) := by
  decide +kernel

/-- **Finding F21, witness 2**: an all-NaN first call poisons the stored mean for ever. -/
theorem mean_nan_witness :
    (appends .old [[nan, nan], [fin 3]]).map (·.mean) = some (some nan) ∧
    nanmean [nan, nan, fin 3] = fin 3 ∧
    (appends .fixed [[nan, nan], [fin 3]]).map (·.mean) = some (some (fin 3)) := by
  decide +kernel

/-- **C20.** However the file was produced (one call or many, replace mode, further appends /
join, summaries removed with raw h5py, copied/compressed/condensed, exported with any filter, in
any nesting), the reported minimum, maximum and mean of a file-based scalar feature are the
NaN-ignoring minimum, maximum and mean of the feature's actual values. -/
theorem reported_eq_data (h : Hist) (ht : Trusted h) (s : SDs) (hs : build .fixed h = some s) :
    report s = truth s.data :=
  report_of_good s (build_good h ht s hs)

/-- **the event count of the file does not enter**: a file whose scalar dataset holds more (or
fewer) events than `experiment:event count` says (partial appends, count edited) reports the
summaries of exactly the values it hands out, for every count -/
theorem reported_eq_exposed_any_count (h : Hist) (ht : Trusted h) (s : SDs)
    (hs : build .fixed h = some s) (count : Nat) :
    report s = truth (exposed count s) :=
  reported_eq_data h ht s hs

/-- a reader that hands out only the first `count` events while trusting the stored attributes
(seeded change C20-12) is right when the count covers all stored events … -/
theorem trimmed_reader_sound_of_count_ge (s : SDs) (hg : Good s) (count : Nat)
    (hc : s.data.length ≤ count) :
    reportTrimmed count s = truth (exposedTrimmed count s) := by
  have ht : exposedTrimmed count s = s.data := List.take_of_length_le hc
  have := report_of_good s hg
  simpa [reportTrimmed, ht, report] using this

/-- … or when no summary is stored (everything is computed from what is handed out) … -/
theorem trimmed_reader_sound_without_attributes (s : SDs) (count : Nat)
    (h : s.mn = none ∧ s.mx = none ∧ s.mean = none) :
    reportTrimmed count s = truth (exposedTrimmed count s) := by
  simp [reportTrimmed, truth, h.1, h.2.1, h.2.2]

/-- … but not in general: stored events `[3, 5, 1, 9]` with true summaries, event count 2: the
feature hands out `[3, 5]` (min 3, max 5, mean 4) and reports 1, 9, 9/2 -/
theorem trimmed_reader_witness :
    let s : SDs := { data := [fin 3, fin 5, fin 1, fin 9], mn := some (fin 1), mx := some (fin 9),
                     mean := some (fin (9 / 2)) }
    (s.mn = some (nanmin s.data) ∧ s.mx = some (nanmax s.data) ∧ s.mean = some (nanmean s.data)) ∧
    exposedTrimmed 2 s = [fin 3, fin 5] ∧
    truth (exposedTrimmed 2 s) = { mn := fin 3, mx := fin 5, mean := fin 4 } ∧
    reportTrimmed 2 s = { mn := fin 1, mx := fin 9, mean := fin (9 / 2) } ∧
    report s = truth (exposed 2 s) := by
  decide +kernel

/-- **re-writing and exporting heal**: whatever a file contained before — foreign, with wrong
stored summaries — a feature stored in replace mode or exported through dclab reports the true
summaries (no precondition) -/
theorem export_and_replace_heal (h : Hist) (mask : List Bool) (data : List Val) (s : SDs)
    (hs : build .fixed (.exported h mask) = some s ∨ build .fixed (.rewrite h data) = some s) :
    report s = truth s.data := by
  rcases hs with hs | hs
  · exact reported_eq_data (.exported h mask) trivial s hs
  · exact reported_eq_data (.rewrite h data) trivial s hs

/-- **chunk-wise completion.** Summaries accumulated chunk by chunk over ANY partition of a
dataset into (HDF5) chunks — running extrema, running mean weighted with the numbers of non-NaN
values — are the summaries of the whole dataset.  (The copier may therefore complete missing
summaries chunk by chunk, but only with these weights; see the witness below.) -/
theorem completion_any_partition (chunks : List (List Val)) (last : List Val) (hne : last ≠ [])
    (s : SDs) (h : appends .fixed (chunks ++ [last]) = some s) :
    report s = truth (chunks ++ [last]).flatten := by
  obtain ⟨⟨h1, h2, h3⟩, hd⟩ := appends_exact chunks last hne s h
  unfold report truth
  rw [h1, h2, h3, hd]
  rfl

/-- per-chunk means combined with the chunk *lengths* as weights are wrong as soon as NaNs are
spread unevenly over the chunks: chunks `[1, nan]`, `[3, 5]` give `10/4`, the mean is `3` -/
theorem chunk_length_weights_witness :
    vdiv (vadd (vscale (nanmean [fin 1, nan]) 2) (vscale (nanmean [fin 3, fin 5]) 2)) 4
      = fin (5 / 2) ∧ nanmean [fin 1, nan, fin 3, fin 5] = fin 3 := by
  decide +kernel

/-- a stored but wrong summary of a foreign file is reported as it is (the reader trusts stored
attributes — by design; this is why `reported_eq_data` needs `Trusted`) and survives a copy -/
theorem foreign_wrong_summary_reported_as_is :
    let f : SDs := { data := [fin 1, fin 2], mn := some (fin 7), mx := none, mean := none }
    (build .fixed (.copy (.foreign f))).map report =
      some { mn := fin 7, mx := fin 2, mean := fin (3 / 2) } := by
  decide +kernel

/-- a copy always carries all three summaries, and they are true -/
theorem copy_completes (h : Hist) (ht : Trusted h) (s : SDs)
    (hs : build .fixed (.copy h) = some s) : Exact s := by
  simp only [build, Option.map_eq_some_iff] at hs
  obtain ⟨s0, h0, rfl⟩ := hs
  obtain ⟨h1, h2, h3⟩ := build_good h ht s0 h0
  refine ⟨?_, ?_, ?_⟩
  · rcases h1 with h | h <;> simp [copyDs, h]
  · rcases h2 with h | h <;> simp [copyDs, h]
  · rcases h3 with h | h <;> simp [copyDs, h]

/-- the data of an export are the selected events of its source -/
theorem export_data (h : Hist) (mask : List Bool) (s0 s : SDs) (h0 : build .fixed h = some s0)
    (hs : build .fixed (.exported h mask) = some s) : s.data = sel mask s0.data := by
  simp only [build, h0] at hs
  unfold storeFeature at hs
  split at hs
  · cases hs
  · injection hs with hs
    subst hs
    rfl

/-- **Hierarchy child.** The first query after `rejuvenate` reports the summaries of exactly the
events that the parent's current filter selects from the parent's current data — whatever was
queried, filtered or recomputed before (in particular a change of the parent's feature data
without any filter change). -/
theorem child_summaries_recomputed_after_refresh (c : Child) (pre : List ChildOp) :
    (childStep (childStep (childRun c pre).1 .rejuvenate).1 .query).2 =
      some (truth (sel (childRun c pre).1.mask (childRun c pre).1.parent)) := by
  simp only [childStep, Option.getD_none]

/-- a refresh that keeps the cached summaries when no filter changed would be wrong: data change,
no filter change -/
theorem child_data_change_witness :
    (childRun { parent := [fin 1, fin 2], mask := [true, true], arr := none, cache := none }
      [.query, .setData [fin 5, fin 7], .rejuvenate, .query]).2 =
    [some (truth [fin 1, fin 2]), none, none, some (truth [fin 5, fin 7])] := by
  decide +kernel

/-- between refreshes the child keeps answering from its cache (this is dclab's documented
contract: a child is only up to date after `rejuvenate`) -/
theorem child_stale_without_refresh :
    (childRun { parent := [fin 1, fin 2], mask := [true, true], arr := none, cache := none }
      [.query, .setMask [false, true], .query, .rejuvenate, .query]).2 =
    [some (truth [fin 1, fin 2]), none, some (truth [fin 1, fin 2]), none, some (truth [fin 2])] := by
  decide +kernel

/-! ## mapped basins -/

/-- **C20, mapped basins.** The summaries of a feature served by a mapped basin are the
NaN-ignoring folds over `origin[map]` — every repetition counts, every omitted basin event is
left out — and a hierarchy child on top of the mapped dataset sees the boolean selection of
exactly these values.  (The stored summaries of the basin file play no role.) -/
theorem mapped_summaries_fold_over_gather (s : SDs) (m : List Nat) (mask : List Bool) :
    proxyReport { origin := s, map := m, cache := none } = truth (gather s.data m) ∧
    proxyChildReport { origin := s, map := m, cache := none } mask =
      truth (sel mask (gather s.data m)) := ⟨rfl, rfl⟩

/-- the lazily filled cache of the proxy (`_cache`) never changes an answer -/
theorem mapped_cache_transparent (p : Proxy) (hc : p.cache = none ∨ p.cache = some (gather p.origin.data p.map)) :
    proxyReport (proxyArray p).1 = proxyReport p ∧ proxyReport p = truth (gather p.origin.data p.map) := by
  rcases hc with h | h <;> simp [proxyReport, proxyArray, h]

/-- the folds over the mapped values distribute over any split of the mapping array (the mapped
values may be evaluated piecewise, e.g. chunk by chunk, for remote basins) -/
theorem mapped_any_split (o : List Val) (m1 m2 : List Nat) :
    nanmin (gather o (m1 ++ m2)) = vmin (nanmin (gather o m1)) (nanmin (gather o m2)) ∧
    nanmax (gather o (m1 ++ m2)) = vmax (nanmax (gather o m1)) (nanmax (gather o m2)) ∧
    nansum (gather o (m1 ++ m2)) = vadd (nansum (gather o m1)) (nansum (gather o m2)) ∧
    nancount (gather o (m1 ++ m2)) = nancount (gather o m1) + nancount (gather o m2) := by
  rw [gather_append]
  exact ⟨nanmin_append _ _, nanmax_append _ _, nansum_append _ _, nancount_append _ _⟩

/-- handing out the basin feature's own (absent-or-true) summaries is right when the mapping is a
**permutation** of the basin's events … -/
theorem mapped_permutation_shortcut_sound (s : SDs) (hg : Good s) (m : List Nat)
    (hp : m.Perm (List.range s.data.length)) :
    proxyReportShortcut { origin := s, map := m, cache := none } =
      proxyReport { origin := s, map := m, cache := none } := by
  have hl : m.length = s.data.length := by simpa using hp.length_eq
  simp only [proxyReportShortcut, hl, if_true]
  rw [report_of_good s hg]
  exact (truth_perm (gather_perm s.data m hp)).symm

/-- … but **equal length does not imply permutation** (seeded change C20-10): basin `[1, 5, 9, 2]`
with true stored summaries, mapping `[1, 1, 3, 3]` of the same length: the mapped feature has
min 2, max 5, mean 7/2; the shortcut reports 1, 9, 17/4 -/
theorem mapped_same_length_witness :
    let s : SDs := { data := [fin 1, fin 5, fin 9, fin 2], mn := some (fin 1), mx := some (fin 9),
                     mean := some (fin (17 / 4)) }
    let p : Proxy := { origin := s, map := [1, 1, 3, 3], cache := none }
    (s.mn = some (nanmin s.data) ∧ s.mx = some (nanmax s.data) ∧ s.mean = some (nanmean s.data)) ∧
    p.map.length = s.data.length ∧ mapOk s.data.length p.map = true ∧
    proxyReport p = { mn := fin 2, mx := fin 5, mean := fin (7 / 2) } ∧
    proxyReportShortcut p = { mn := fin 1, mx := fin 9, mean := fin (17 / 4) } := by
  decide +kernel

/-- repetitions matter even when nothing is omitted: the mean is weighted by the multiplicities -/
theorem mapped_repetition_witness :
    truth (gather [fin 1, fin 3] [0, 0, 1]) = { mn := fin 1, mx := fin 3, mean := fin (5 / 3) } ∧
    truth [fin 1, fin 3] = { mn := fin 1, mx := fin 3, mean := fin 2 } := by
  decide +kernel


/-- omissions matter for every mapping, whatever its length: if basin event `j` is not referenced,
the basin feature "1 at `j`, 0 elsewhere" has maximum 1 and the mapped feature maximum 0 — a
shortcut through the basin's summaries can only be sound for mappings that reference every event -/
theorem mapped_omission_matters (n j : Nat) (m : List Nat) (hj : j < n) (hm : mapOk n m = true)
    (hne : m ≠ []) (hom : j ∉ m) :
    nanmax (gather (indicator n j) m) = fin 0 ∧ nanmax (indicator n j) = fin 1 :=
  omitted_index_changes_max n j m hj hm hne hom

/-- **the shortcut of seeded change C20-10, settled.** For a mapping with valid indices that is as
long as the (non-empty) basin: handing out the basin feature's own summaries is right for EVERY
basin feature with absent-or-true stored summaries **iff** the mapping is a permutation of the
basin's events.  (Pigeonhole: same length and not a permutation ⇒ some event is omitted ⇒ the
indicator feature of that event refutes the shortcut.) -/
theorem mapped_same_length_shortcut_sound_iff_perm (n : Nat) (m : List Nat) (hn : 0 < n)
    (hl : m.length = n) (hm : mapOk n m = true) :
    (∀ s : SDs, s.data.length = n → Good s →
        proxyReportShortcut { origin := s, map := m, cache := none } =
          proxyReport { origin := s, map := m, cache := none })
      ↔ m.Perm (List.range n) := by
  constructor
  · intro h
    rcases same_length_perm_or_omits n m hl with hp | ⟨j, hj, hom⟩
    · exact hp
    · exfalso
      have hne : m ≠ [] := by
        intro h0
        rw [h0] at hl
        simp at hl
        omega
      obtain ⟨h0, h1⟩ := omitted_index_changes_max n j m hj hm hne hom
      have hlen : (indicator n j).length = n := by simp [indicator]
      have := h { data := indicator n j, mn := none, mx := none, mean := none } hlen
        ⟨Or.inl rfl, Or.inl rfl, Or.inl rfl⟩
      have hmx := congrArg Summ.mx this
      simp only [proxyReportShortcut, hl, hlen, if_true, report, Option.getD_none, proxyReport,
        proxyArray, truth] at hmx
      rw [h0, h1] at hmx
      cases hmx
  · intro hp s hs hg
    exact mapped_permutation_shortcut_sound s hg m (hs ▸ hp)


/-! ## foreign datasets without stored summaries -/

/-- the first append to a dataset that carries **no** summary attribute computes all three from the
whole dataset (old events included), not from the appended batch -/
theorem first_append_to_attributeless (d c : List Val) :
    writeScalar .fixed (some { data := d, mn := none, mx := none, mean := none }) c =
      { data := d ++ c, mn := some (nanmin (d ++ c)), mx := some (nanmax (d ++ c)),
        mean := some (nanmean (d ++ c)) } := rfl

/-- **C20, appending to foreign files.** Start from a dataset made by other software whose
summaries are absent (all of them, or any subset — the present ones being true), append in any
number of calls: all three summaries are stored and equal those of old ++ new events. -/
theorem append_to_attributeless (s0 : SDs) (hg : Good s0) (chunks : List (List Val))
    (last : List Val) (hne : last ≠ []) (s : SDs)
    (h : build .fixed (.append (.foreign s0) (chunks ++ [last])) = some s) :
    s.data = s0.data ++ (chunks ++ [last]).flatten ∧
    s.mn = some (nanmin s.data) ∧ s.mx = some (nanmax s.data) ∧ s.mean = some (nanmean s.data) ∧
    report s = truth (s0.data ++ (chunks ++ [last]).flatten) := by
  obtain ⟨⟨h1, h2, h3⟩, hd⟩ := appends_exact_from s0 hg chunks last hne s h
  refine ⟨hd, h1, h2, h3, ?_⟩
  rw [← hd]
  exact report_of_good s ⟨Or.inr h1, Or.inr h2, Or.inr h3⟩

/-- treating an absent attribute like "no value yet" (update from the appended batch only — the
seeded changes C20-6 / C20-8 branched on `offset == 0` instead of on the attribute) is wrong:
old data `[1]` without attributes, batch `[3]`: the minimum is 1, not 3 -/
theorem absent_attribute_is_not_identity_witness :
    (writeScalar .fixed (some { data := [fin 1], mn := none, mx := none, mean := none })
      [fin 3]).mn = some (fin 1) ∧ vmin nan (nanmin [fin 3]) = fin 3 := by
  decide +kernel

/-! ## hierarchy children at any depth (on top of the C04 model) -/
open DclabModel.SummaryView in
/-- **C20 on C04.** After any history of filter edits and partial refreshes followed by a refresh
of the youngest member (`Hier.run … (h ++ [rejuv])`, repaired code), the array a scalar feature's
`ChildScalar` holds at the youngest member — the root's values at the member's events `c.ev`
(the identity feature of the C04 model) — is the nested boolean selection through the `filter.all`
arrays of all ancestors, and its summaries are the NaN-ignoring folds over exactly these values. -/
theorem child_summary_any_depth (D : Hier.Data) (d : Nat) (h : List Hier.Op) (root : List Val)
    (hn : root.length = D.n) (c : Hier.Level) (anc : List Hier.Level)
    (hs : Hier.run true true D (Hier.initChain true true D d) (h ++ [Hier.Op.rejuv]) = c :: anc) :
    gather root c.ev = levelVals root (anc.map (·.all)) ∧
    truth (gather root c.ev) = childReport root (anc.map (·.all)) := by
  have hsync := C04.synced_after_rejuvenate D d h
  rw [hs] at hsync
  obtain ⟨hev, _⟩ := Hier.synced_ids anc c hsync
  have : gather root c.ev = levelVals root (anc.map (·.all)) := by
    rw [levelVals_eq_gather, hn, hev]
  exact ⟨this, by rw [this]; rfl⟩

open DclabModel.SummaryView in
/-- the view at any depth is an index selection of the root: `levelVals = root[idsOf …]` (C04's
`idsOf`), for every chain of masks -/
theorem child_values_are_root_at_view (root : List Val) (alls : List (List Bool)) :
    levelVals root alls = gather root (Hier.idsOf root.length alls) :=
  levelVals_eq_gather root alls

open DclabModel.SummaryView in
/-- the one-level `Child` model above is this view: first query after `rejuvenate` =
`childOfRoot` of an ndarray parent with the same data -/
theorem child_model_is_view (c : Child) :
    (childStep (childStep c .rejuvenate).1 .query).2 = some (childOfRoot (.nd c.parent) c.mask) := by
  simp only [childStep, Option.getD_none, childOfRoot, RootFeat.data, sel_eq_hier]

open DclabModel.SummaryView in
/-- **NaN-ignoring for every kind of parent feature object**: the child's answer does not depend
on whether the parent holds an `H5ScalarEvent` (whatever it has stored) or an ndarray -/
theorem child_ignores_parent_kind (s : SDs) (pf : List Bool) :
    childOfRoot (.h5 s) pf = childOfRoot (.nd s.data) pf ∧
    childOfRoot (.h5 s) pf = truth (Hier.sel pf s.data) := ⟨rfl, rfl⟩

open DclabModel.SummaryView in
/-- delegating to the parent's feature object when nothing is filtered out is sound for an HDF5
parent whose stored summaries are absent or true … -/
theorem delegation_sound_for_h5 (s : SDs) (hg : Good s) (pf : List Bool) (ha : pf.all id = true)
    (hl : pf.length = s.data.length) :
    childOfRootDelegating (.h5 s) pf = childOfRoot (.h5 s) pf := by
  simp only [childOfRootDelegating, ha, if_true, RootFeat.own, childOfRoot, RootFeat.data,
    sel_all_true pf s.data ha hl]
  exact report_of_good s hg

open DclabModel.SummaryView in
/-- … and for an ndarray parent **without NaN** … -/
theorem delegation_sound_for_ndarray_without_nan (l : List Val) (hn : hasNan l = false)
    (pf : List Bool) (ha : pf.all id = true) (hl : pf.length = l.length) :
    childOfRootDelegating (.nd l) pf = childOfRoot (.nd l) pf := by
  obtain ⟨h1, h2, h3⟩ := pmin_of_no_nan l hn
  simp only [childOfRootDelegating, ha, if_true, RootFeat.own, childOfRoot, RootFeat.data,
    sel_all_true pf l ha hl, h1, h2, h3]
  rfl

open DclabModel.SummaryView in
/-- … but not for an ndarray parent with a NaN (seeded changes C20-2 / C20-9): `ndarray.min()`
propagates NaN -/
theorem delegation_ndarray_nan_witness :
    childOfRootDelegating (.nd [fin 1, nan]) [true, true] = { mn := nan, mx := nan, mean := nan } ∧
    childOfRoot (.nd [fin 1, nan]) [true, true] = { mn := fin 1, mx := fin 1, mean := fin 1 } := by
  decide +kernel

open DclabModel.SummaryView in
/-- **the per-level caches are transparent.** After a refresh of the youngest member (all cached
feature objects dropped), whatever the order and the depths of the queries — a query at one member
loads and keeps the arrays of all its ancestors' feature objects — every member reports the
summaries of its own nested view -/
theorem chain_queries_any_order (root : List Val) (masks : List (List Bool)) (ks : List Nat) :
    (queries root (chainRefresh masks) ks).2.map truth =
      ks.map (fun k => childReport root (masks.drop k)) := by
  rw [queries_spec root ks _ (consistent_refresh root masks)]
  simp [chainRefresh, masksOf, List.map_map, Function.comp_def, childReport]

open DclabModel.SummaryView in
/-- the same from any consistent state (some arrays loaded, some not): a query never leaves a
member with an array that is not its view -/
theorem chain_query_keeps_consistency (root : List Val) (k : Nat) (ms : List Member)
    (h : Consistent root ms) :
    (queryAt root k ms).2 = levelVals root (masksOf (ms.drop k)) ∧
    Consistent root (queryAt root k ms).1 :=
  ⟨(queryAt_spec root k ms h).1, (queryAt_spec root k ms h).2.2⟩

/-- non-vacuity: grandchild first (loads the child's array too), then the child, then again -/
example : (SummaryView.queries [fin 4, nan, fin 1, fin 9]
    (SummaryView.chainRefresh [[true, false, true], [true, true, false, true]]) [0, 1, 0]).2 =
    [[fin 4, fin 9], [fin 4, nan, fin 9], [fin 4, fin 9]] := by
  decide +kernel

/-- non-vacuity of `child_summary_any_depth`: depth 2 -/
example : SummaryView.childReport [fin 4, nan, fin 1, fin 9] [[true, false, true], [true, true, false, true]]
    = { mn := fin 4, mx := fin 9, mean := fin (13 / 2) } := by
  decide +kernel

/-- non-vacuity: a history with an all-NaN first call, ±inf, replace, strip, copy and export -/
example : (build .fixed (.exported (.copy (.strip (.append (.write [[nan, nan], [fin 3, pinf]])
    [[fin (1 / 2)], [ninf, nan]]) true false true)) [false, true, true, false, true, true])).map
    report = some (truth [nan, fin 3, fin (1 / 2), ninf]) := by
  decide +kernel

example : truth [nan, fin 3, fin (1 / 2), ninf] = { mn := ninf, mx := fin 3, mean := ninf } := by
  decide +kernel

example : nanmean [pinf, ninf, fin 1] = nan ∧ nanmin [nan, nan] = nan ∧
    nanmean [fin 1, fin 2, nan] = fin (3 / 2) := by
  decide +kernel

end DclabModel.C20
