import DclabModel.Lemmas.Summary
/-!
# C20 — Reported feature minima, maxima and means match the data

Property theorems only.  Model: `Model/Summary.lean`.  `MeanRule.fixed` is the update rule of
`RTDCWriter.write_ndarray` after the repair of finding F21, `MeanRule.old` the rule before it.
All statements quantify over every list of values (any distribution of NaN, ±inf, all-NaN
prefixes, single events) and every production history.
-/
namespace DclabModel.C20
open DclabModel.Summary DclabModel.Summary.Val

/-- one call of `write_ndarray` (scalar branch, repaired rule): whatever was stored before was
absent or true ⇒ afterwards all three attributes are stored and true, and the data are
`old ++ new` -/
theorem write_step (ds : Option SDs) (hg : ∀ s, ds = some s → Good s) (data : List Val) :
    Exact (writeScalar .fixed ds data) ∧
    (writeScalar .fixed ds data).data = (ds.map (·.data)).getD [] ++ data :=
  write_exact ds hg data

/-- **C20, minimum and maximum.** After any partition of the events into append calls
(non-empty calls; at least one) the stored `min`/`max` are `nanmin`/`nanmax` of the
concatenation — including all-NaN prefixes. -/
theorem min_max_incremental (chunks : List (List Val)) (s : SDs)
    (h : appends .fixed chunks = some s) :
    s.data = chunks.flatten ∧
    (s.mn = none ∨ s.mn = some (nanmin chunks.flatten)) ∧
    (s.mx = none ∨ s.mx = some (nanmax chunks.flatten)) := by
  have hd := appends_data chunks none
  have hg := appends_from_good chunks none (by intro s h; cases h) s h
  unfold appends at h
  rw [h] at hd
  simp at hd
  rw [← hd]
  exact ⟨rfl, hg.1, hg.2.1⟩

/-- **C20, mean (repaired rule).** After any partition into append calls the stored mean is
`nanmean` of the concatenation. -/
theorem mean_incremental (chunks : List (List Val)) (last : List Val) (hne : last ≠ []) (s : SDs)
    (h : appends .fixed (chunks ++ [last]) = some s) :
    s.mean = some (nanmean (chunks ++ [last]).flatten) ∧
    s.mn = some (nanmin (chunks ++ [last]).flatten) ∧
    s.mx = some (nanmax (chunks ++ [last]).flatten) := by
  obtain ⟨⟨h1, h2, h3⟩, hd⟩ := appends_exact chunks last hne s h
  rw [← hd]
  exact ⟨h3, h1, h2⟩

/-- **Finding F21, witness 1** (rule before the repair): `[1, nan]` then `[3]` stores the mean
`5/3`; the true mean is `2`. -/
theorem mean_old_witness :
    (appends .old [[fin 1, nan], [fin 3]]).map (·.mean) = some (some (fin (5 / 3))) ∧
    nanmean [fin 1, nan, fin 3] = fin 2 ∧
    (appends .fixed [[fin 1, nan], [fin 3]]).map (·.mean) = some (some (fin 2)) := by
  decide +kernel

/-- **Finding F21, witness 2**: an all-NaN first call poisons the stored mean for ever. -/
theorem mean_nan_witness :
    (appends .old [[nan, nan], [fin 3]]).map (·.mean) = some (some nan) ∧
    nanmean [nan, nan, fin 3] = fin 3 ∧
    (appends .fixed [[nan, nan], [fin 3]]).map (·.mean) = some (some (fin 3)) := by
  decide +kernel

/-- **C20.** However the file was produced (one call or many, replace mode, further appends /
join, summaries removed with raw h5py, copied/compressed/condensed, exported with any filter, in
any nesting), the reported minimum, maximum and mean of a file-based scalar feature are the
NaN-ignoring minimum, maximum and mean of the feature's actual values. -/
theorem reported_eq_data (h : Hist) (ht : Trusted h) (s : SDs) (hs : build .fixed h = some s) :
    report s = truth s.data :=
  report_of_good s (build_good h ht s hs)

/-- **re-writing and exporting heal**: whatever a file contained before — foreign, with wrong
stored summaries — a feature stored in replace mode or exported through dclab reports the true
summaries (no precondition) -/
theorem export_and_replace_heal (h : Hist) (mask : List Bool) (data : List Val) (s : SDs)
    (hs : build .fixed (.exported h mask) = some s ∨ build .fixed (.rewrite h data) = some s) :
    report s = truth s.data := by
  rcases hs with hs | hs
  · exact reported_eq_data (.exported h mask) trivial s hs
  · exact reported_eq_data (.rewrite h data) trivial s hs

/-- **chunk-wise completion.** Summaries accumulated chunk by chunk over ANY partition of a
dataset into (HDF5) chunks — running extrema, running mean weighted with the numbers of non-NaN
values — are the summaries of the whole dataset.  (The copier may therefore complete missing
summaries chunk by chunk, but only with these weights; see the witness below.) -/
theorem completion_any_partition (chunks : List (List Val)) (last : List Val) (hne : last ≠ [])
    (s : SDs) (h : appends .fixed (chunks ++ [last]) = some s) :
    report s = truth (chunks ++ [last]).flatten := by
  obtain ⟨⟨h1, h2, h3⟩, hd⟩ := appends_exact chunks last hne s h
  unfold report truth
  rw [h1, h2, h3, hd]
  rfl

/-- per-chunk means combined with the chunk *lengths* as weights are wrong as soon as NaNs are
spread unevenly over the chunks: chunks `[1, nan]`, `[3, 5]` give `10/4`, the mean is `3` -/
theorem chunk_length_weights_witness :
    vdiv (vadd (vscale (nanmean [fin 1, nan]) 2) (vscale (nanmean [fin 3, fin 5]) 2)) 4
      = fin (5 / 2) ∧ nanmean [fin 1, nan, fin 3, fin 5] = fin 3 := by
  decide +kernel

/-- a stored but wrong summary of a foreign file is reported as it is (the reader trusts stored
attributes — by design; this is why `reported_eq_data` needs `Trusted`) and survives a copy -/
theorem foreign_wrong_summary_reported_as_is :
    let f : SDs := { data := [fin 1, fin 2], mn := some (fin 7), mx := none, mean := none }
    (build .fixed (.copy (.foreign f))).map report =
      some { mn := fin 7, mx := fin 2, mean := fin (3 / 2) } := by
  decide +kernel

/-- a copy always carries all three summaries, and they are true -/
theorem copy_completes (h : Hist) (ht : Trusted h) (s : SDs)
    (hs : build .fixed (.copy h) = some s) : Exact s := by
  simp only [build, Option.map_eq_some_iff] at hs
  obtain ⟨s0, h0, rfl⟩ := hs
  obtain ⟨h1, h2, h3⟩ := build_good h ht s0 h0
  refine ⟨?_, ?_, ?_⟩
  · rcases h1 with h | h <;> simp [copyDs, h]
  · rcases h2 with h | h <;> simp [copyDs, h]
  · rcases h3 with h | h <;> simp [copyDs, h]

/-- the data of an export are the selected events of its source -/
theorem export_data (h : Hist) (mask : List Bool) (s0 s : SDs) (h0 : build .fixed h = some s0)
    (hs : build .fixed (.exported h mask) = some s) : s.data = sel mask s0.data := by
  simp only [build, h0] at hs
  unfold storeFeature at hs
  split at hs
  · cases hs
  · injection hs with hs
    subst hs
    rfl

/-- **Hierarchy child.** The first query after `rejuvenate` reports the summaries of exactly the
events that the parent's current filter selects from the parent's current data — whatever was
queried, filtered or recomputed before (in particular a change of the parent's feature data
without any filter change). -/
theorem child_summaries_recomputed_after_refresh (c : Child) (pre : List ChildOp) :
    (childStep (childStep (childRun c pre).1 .rejuvenate).1 .query).2 =
      some (truth (sel (childRun c pre).1.mask (childRun c pre).1.parent)) := by
  simp only [childStep, Option.getD_none]

/-- a refresh that keeps the cached summaries when no filter changed would be wrong: data change,
no filter change -/
theorem child_data_change_witness :
    (childRun { parent := [fin 1, fin 2], mask := [true, true], arr := none, cache := none }
      [.query, .setData [fin 5, fin 7], .rejuvenate, .query]).2 =
    [some (truth [fin 1, fin 2]), none, none, some (truth [fin 5, fin 7])] := by
  decide +kernel

/-- between refreshes the child keeps answering from its cache (this is dclab's documented
contract: a child is only up to date after `rejuvenate`) -/
theorem child_stale_without_refresh :
    (childRun { parent := [fin 1, fin 2], mask := [true, true], arr := none, cache := none }
      [.query, .setMask [false, true], .query, .rejuvenate, .query]).2 =
    [some (truth [fin 1, fin 2]), none, some (truth [fin 1, fin 2]), none, some (truth [fin 2])] := by
  decide +kernel

/-- non-vacuity: a history with an all-NaN first call, ±inf, replace, strip, copy and export -/
example : (build .fixed (.exported (.copy (.strip (.append (.write [[nan, nan], [fin 3, pinf]])
    [[fin (1 / 2)], [ninf, nan]]) true false true)) [false, true, true, false, true, true])).map
    report = some (truth [nan, fin 3, fin (1 / 2), ninf]) := by
  decide +kernel

example : truth [nan, fin 3, fin (1 / 2), ninf] = { mn := ninf, mx := fin 3, mean := ninf } := by
  decide +kernel

example : nanmean [pinf, ninf, fin 1] = nan ∧ nanmin [nan, nan] = nan ∧
    nanmean [fin 1, fin 2, nan] = fin (3 / 2) := by
  decide +kernel

end DclabModel.C20
