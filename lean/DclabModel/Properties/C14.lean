import DclabModel.Lemmas.Basin
import DclabModel.Gen.BasinTable
/-!
# C14 — Basins are only followed when matching, acyclic and permitted

The model `Basin.resolve` (fixed code: F14 type guard, F22 identifier rule) is defined by
well-founded recursion on the number of distinct basin keys of the world that are not ignored
yet; Lean accepting the definition *is* the termination proof for every reference graph
(chains, diamonds, self references, k-cycles).

* `resolution_terminates`   depth of the resolution tree ≤ #distinct basin keys + 1;
* `guard_never_cuts_file/url`  the decreasing-measure guard inside `resolve` is always true
                            when a definition of a file of the world is followed
                            (so the model follows exactly what `basins_retrieve` follows);
* `used_only_if_matching`   every basin whose data is handed out — at any nesting depth — has
                            matching identifiers (equal; prefix for mapped basins; or the referrer
                            presents none);
* `remote_never_local`      a dataset opened through a remote format (or an internal basin)
                            never opens a local file, directly or through nested basins;
* `unreachable_degrades`    a definition none of whose locations can be opened offers no
                            feature and delivers no data;
* `normalize_idem`, `verification_history_independent` (+ `full_key_sound`; witness
  `cache_without_mode_depends_on_history`): spellings and histories;
* witnesses: `F14_old_guard_opens_local`, `F22_old_rule_accepts_missing`,
  `F22_old_rule_raises_mapped`; `F70_same_name_sibling_accepted` (open finding F70).
-/
namespace DclabModel.C14
open DclabModel.Basin

/-! ## 1. termination, depth -/

theorem depth_le_budget (w : World) (univ : List Feat) (tg : Bool) (node : Node)
    (ign : List Nat) : (resolve w univ tg node ign).depth ≤ budget w ign + 1 := by
  apply resolve_ind w univ tg (fun _ ign r => r.depth ≤ budget w ign + 1)
  intro node ign rec hrec
  show 1 + maxDepth _ ≤ budget w ign + 1
  have : maxDepth ((sortBy prioLe node.file.basins).flatMap (instantiate w tg node ign rec))
      ≤ budget w ign := by
    apply maxDepth_le
    intro o ho
    obtain ⟨b, _, hob⟩ := List.mem_flatMap.mp ho
    rcases instantiate_sub hob with h | ⟨c, _, h⟩
    · rw [h]; exact Nat.zero_le _
    · rw [h]
      rcases hrec c with he | ⟨hlt, hp⟩
      · rw [he]; exact Nat.zero_le _
      · omega
  omega

/-- **resolution_terminates.**  `resolve` is a total function (well-founded recursion, checked by
Lean's termination checker) and the resolution tree of any dataset in any world — whatever the
reference graph — is at most `#distinct basin keys + 1` levels deep. -/
theorem resolution_terminates (w : World) (univ : List Feat) (tg : Bool) (node : Node)
    (ign : List Nat) :
    (resolve w univ tg node ign).depth ≤ (allKeys w).eraseDups.length + 1 :=
  Nat.le_trans (depth_le_budget w univ tg node ign) (Nat.succ_le_succ (budget_le w ign))

/-- following a not-yet-ignored definition of a local file of the world decreases the measure -/
theorem guard_never_cuts_file (w : World) (d n : Nat) (f : CFile) (at_ : Option Loc)
    (ign : List Nat) (b : BDef) (hf : lk (d, n) w.files = some f) (hb : b ∈ f.basins)
    (hi : ign.contains b.key = false) :
    budget w (nextIgnored ⟨at_, f⟩ ign) < budget w ign :=
  guard_true w ⟨at_, f⟩ ign b hb (key_in_world_file hf hb) hi

theorem guard_never_cuts_url (w : World) (n : Nat) (f : CFile) (at_ : Option Loc)
    (ign : List Nat) (b : BDef) (hf : lk n w.urls = some f) (hb : b ∈ f.basins)
    (hi : ign.contains b.key = false) :
    budget w (nextIgnored ⟨at_, f⟩ ign) < budget w ign :=
  guard_true w ⟨at_, f⟩ ign b hb (key_in_world_url hf hb) hi

/-! ## 2. identifiers -/

/-- **used_only_if_matching.**  Every use of basin data recorded anywhere in the resolution tree
passed the identifier check: the referrer has no identifier, or both have one and they are equal
(unmapped basin) / the basin's is a prefix of the referrer's (mapped basin).  In particular a
basin without identifier is never used by a referrer that has one (F22). -/
theorem used_only_if_matching (w : World) (univ : List Feat) (tg : Bool) (node : Node)
    (ign : List Nat) : ∀ u ∈ (resolve w univ tg node ign).used,
      u.refRid = none ∨ ∃ r b, u.refRid = some r ∧ u.basRid = some b ∧
        (if u.mapped then b <+: r else r = b) := by
  have key : ∀ u ∈ (resolve w univ tg node ign).used, UseOK u := by
    apply resolve_ind w univ tg (fun _ _ r => ∀ u ∈ r.used, UseOK u)
    intro node ign rec hrec u hu
    simp only [resolveStep, List.mem_append, List.mem_flatMap] at hu
    rcases hu with ⟨p, hp, hup⟩ | ⟨o, ho, huo⟩
    · obtain ⟨f, _, hf⟩ := List.mem_filterMap.mp hp
      obtain ⟨q, hq, rfl⟩ := Option.map_eq_some_iff.mp hf
      exact getData_used (r := q.1) (us := q.2) hq u hup
    · obtain ⟨b, _, hob⟩ := ho
      rcases instantiate_sub hob with h | ⟨c, _, h⟩
      · rw [h] at huo; cases huo
      · rw [h] at huo
        rcases hrec c with he | ⟨_, hp⟩
        · rw [he] at huo; cases huo
        · exact hp u huo
  intro u hu
  exact idMatch_spec (key u hu)

/-! ## 3. remote datasets never open local files -/

theorem step_nonlocal (w : World) (univ : List Feat) (node : Node) (ign : List Nat)
    (rec : Node → Res) (hn : node.isLocal = false)
    (hrec : ∀ c, c.isLocal = false → ∀ l ∈ (rec c).opened, isLocalLoc l = false) :
    ∀ l ∈ (resolveStep w univ true node ign rec).opened, isLocalLoc l = false := by
  intro l hl
  simp only [resolveStep, List.mem_flatMap, List.mem_append] at hl
  obtain ⟨o, ⟨b, _, hob⟩, hlo⟩ := hl
  obtain ⟨htried, hnode⟩ := instantiate_nonlocal hn hob
  rcases hlo with (hlo | hlo) | hlo
  · rw [htried] at hlo; cases hlo
  · cases hc : o.node with
    | none => simp [hc] at hlo
    | some c =>
      simp only [hc, Option.bind_some, Option.mem_toList] at hlo
      exact at_nonlocal (hnode c hc) hlo
  · rcases instantiate_sub hob with h | ⟨c, hc, h⟩
    · rw [h] at hlo; cases hlo
    · rw [h] at hlo; exact hrec c (hnode c hc) l hlo

/-- **remote_never_local.**  With the type guard in place, a dataset that is not a local file
(opened through `RTDC_HTTP`/S3/DCOR, or the dictionary dataset of an internal basin) never opens a
local path: not for its own basins and not for any nested basin, for every world, every ignored
set and every reference graph. -/
theorem remote_never_local (w : World) (univ : List Feat) (node : Node) (ign : List Nat)
    (hn : node.isLocal = false) :
    ∀ l ∈ (resolve w univ true node ign).opened, isLocalLoc l = false := by
  revert hn
  apply resolve_ind w univ true
    (fun node _ r => node.isLocal = false → ∀ l ∈ r.opened, isLocalLoc l = false)
  intro node ign rec hrec hn
  apply step_nonlocal w univ node ign rec hn
  intro c hc l hl
  rcases hrec c with he | ⟨_, hp⟩
  · rw [he] at hl; cases hl
  · exact hp hc l hl

/-! ## 4. unreachable basins -/

/-- **unreachable_degrades.**  A (non-internal) definition none of whose locations can be opened —
dangling path, unreachable URL, unsupported combination — contributes no feature to
`features_basin` and delivers no data for any feature; it never produces wrong data. -/
theorem unreachable_degrades (w : World) (tg : Bool) (ref : Node) (ign : List Nat)
    (rec : Node → Res) (b : BDef) (hty : b.type ≠ .internal)
    (hun : ∀ l ∈ b.locs, openAt w ref b.format l = none) :
    ∀ o ∈ instantiate w tg ref ign rec b, o.offered = [] ∧ ∀ f, OB.data ref o f = none := by
  intro o ho
  obtain ⟨hnode, hint⟩ := instantiate_unreachable hty hun ho
  constructor
  · simp [OB.offered, OB.available, hint, hnode]
  · intro f
    simp only [OB.data, hnode]
    split <;> rfl

/-- a file-type definition is never followed from a non-local dataset, whatever it says -/
theorem file_type_refused (w : World) (ref : Node) (ign : List Nat) (rec : Node → Res) (b : BDef)
    (hty : b.type = .file) (hn : ref.isLocal = false) :
    instantiate w true ref ign rec b = [] := by
  unfold instantiate
  cases hcls : classType b.format with
  | none => rfl
  | some cls =>
    by_cases hi : b.key ∈ ign <;> cases cls <;> simp [hi, hty, hn]

/-! ## 5. witnesses for the rules before the fixes -/

def secret : CFile := { rid := none, innate := [(5, [70, 71])], maps := [], internal := [], basins := [] }

/-- F14: a dataset served over HTTP declares `{"type": "remote", "format": "hdf5",
"urls": ["/dir0/file7"]}` -/
def evil : CFile :=
  { rid := none, innate := [], maps := [], internal := [],
    basins := [{ key := 1, type := .remote, format := .hdf5, locs := [.abs 0 7], feats := none,
                 mapping := none }] }

def w14 : World := { files := [((0, 7), secret)], urls := [(0, evil)], up := [.http] }

/-- without the type guard the local file is opened and its feature served to the remote
dataset; with the guard nothing is opened and nothing is offered -/
theorem F14_old_guard_opens_local :
    (resolveStep w14 [5] false ⟨some (.url 0), evil⟩ []
        (fun c => resolveStep w14 [5] false c [1] fun _ => Res.empty)).opened = [.abs 0 7] ∧
    (resolveStep w14 [5] false ⟨some (.url 0), evil⟩ []
        (fun c => resolveStep w14 [5] false c [1] fun _ => Res.empty)).data = [(5, [70, 71])] ∧
    (resolveStep w14 [5] true ⟨some (.url 0), evil⟩ []
        (fun c => resolveStep w14 [5] true c [1] fun _ => Res.empty)).opened = [] ∧
    (resolveStep w14 [5] true ⟨some (.url 0), evil⟩ []
        (fun c => resolveStep w14 [5] true c [1] fun _ => Res.empty)).feats = [] := by decide

/-- F22: the old rule accepted an unmapped basin that has no identifier … -/
theorem F22_old_rule_accepts_missing :
    idMatchOld (some [1, 2]) none false = .ok ∧ idMatch (some [1, 2]) none false = false := by
  decide

/-- … and raised `TypeError` for a mapped one -/
theorem F22_old_rule_raises_mapped :
    idMatchOld (some [1, 2]) none true = .raise ∧ idMatch (some [1, 2]) none true = false := by
  decide

/-- on identifiers that exist the old and the fixed rule agree -/
theorem idMatch_old_agree (r : Option Ident) (b : Ident) (m : Bool) :
    idMatchOld r (some b) m = (if idMatch r (some b) m then .ok else .no) := by
  cases r with
  | none => rfl
  | some r => cases m <;> simp [idMatchOld, idMatch]

example : idMatch (some [1, 2, 3]) (some [1, 2]) true = true := by decide
example : idMatch (some [1, 2, 3]) (some [1, 2]) false = false := by decide
example : idMatch (some [1, 2]) (some [1, 2]) false = true := by decide

/-! ## 6. spellings of locations, histories of verifications -/

/-- **normalize_idem.**  Lexical normalisation of a location (`.` dropped, `name/..` cancelled) is
idempotent: a normalised location is a canonical key, re-spelling cannot produce a new one. -/
theorem normalize_idem (p : List Seg) : normalize (normalize p) = normalize p := by
  obtain ⟨acc, hs, he⟩ := normAcc_stk p [] trivial
  unfold normalize
  rw [he]
  have := normAcc_replay acc [] [] (by simpa using hs)
  simp only [List.append_nil] at this
  rw [this]; rfl

example : normalize [.nm 1, .up, .cur, .nm 2, .nm 3, .up, .up, .up, .nm 4] = [.up, .nm 4] := by decide

/-- every spelling of a location that only adds no-op components has the normal form of the
plain location (`sub/../x`, `./x`) -/
theorem normalize_noop (n : Nat) (p : List Seg) :
    normalize (.nm n :: .up :: p) = normalize p ∧ normalize (.cur :: p) = normalize p :=
  ⟨rfl, rfl⟩

/-- **verification_history_independent.**  The accept/reject decision for a (referrer, definition)
pair is the pure function `idMatch` of (referrer identifier, basin identifier, mapping mode).
A process-wide cache of successful verifications in front of it is transparent for every history
of verifications — provided its key determines the decision (in particular contains the mapping
mode). -/
theorem verification_history_independent [DecidableEq κ] (key : VQ → κ)
    (hkey : ∀ q q', key q = key q' → q.decide = q'.decide) (hist : List VQ) :
    runVerify key [] hist = hist.map VQ.decide :=
  runVerify_transparent key hkey hist [] (fun q h => by simp at h)

/-- a key made of (location, referrer identifier, mapping mode) is sound when the location
determines the basin's identifier -/
theorem full_key_sound (q q' : VQ) (hloc : q.loc = q'.loc → q.basRid = q'.basRid)
    (h : (q.loc, q.refRid, q.mapped) = (q'.loc, q'.refRid, q'.mapped)) : q.decide = q'.decide := by
  simp only [Prod.mk.injEq] at h
  obtain ⟨h1, h2, h3⟩ := h
  simp only [VQ.decide, h2, h3, hloc h1]

/-- witness: a cache keyed by (location, referrer identifier) *without* the mapping mode accepts
an unmapped definition after a mapped one to the same file was verified by prefix -/
theorem cache_without_mode_depends_on_history :
    runVerify (fun q => (q.loc, q.refRid)) []
      [⟨7, some [1, 2], some [1], true⟩, ⟨7, some [1, 2], some [1], false⟩] = [true, true] ∧
    runVerify (fun q => (q.loc, q.refRid)) [] [⟨7, some [1, 2], some [1], false⟩] = [false] ∧
    (⟨7, some [1, 2], some [1], false⟩ : VQ).decide = false := by decide

/-! ## 7. F70 (open): a relative location is only a file name -/

def origin70 : CFile := { rid := some [1], innate := [(5, [10, 11, 12, 13])], maps := [], internal := [], basins := [] }
def export1_70 : CFile := { rid := some [1, 2], innate := [(5, [11, 13])], maps := [], internal := [], basins := [] }
/-- second-generation export written into directory 1 from `export1` in directory 0 (file name 7):
its definition for `export1` has the dangling absolute path and the bare name `7` -/
def export2_70 : CFile :=
  { rid := some [1, 2, 3], innate := [], maps := [(0, [1])], internal := [],
    basins := [{ key := 1, type := .file, format := .hdf5, locs := [.abs 0 7, .rel 7],
                 feats := none, mapping := some 0 }] }

/-- With `export1` (0,7) unreachable and the *origin* stored as (1,7) next to `export2`, the
relative name resolves to the origin, the prefix rule accepts it, and the map written for
`export1` is applied to the origin: `[11]` instead of `[13]`.  With `export1` reachable the
definition delivers `[13]`. -/
theorem F70_same_name_sibling_accepted :
    (resolveStep { files := [((1, 7), origin70)], urls := [], up := [] } [5] true
        ⟨some (.abs 1 8), export2_70⟩ [] (fun c => resolveStep
          { files := [((1, 7), origin70)], urls := [], up := [] } [5] true c [1] fun _ => Res.empty)).data
      = [(5, [11])] ∧
    (resolveStep { files := [((0, 7), export1_70), ((1, 7), origin70)], urls := [], up := [] } [5] true
        ⟨some (.abs 1 8), export2_70⟩ [] (fun c => resolveStep
          { files := [((0, 7), export1_70), ((1, 7), origin70)], urls := [], up := [] } [5] true c [1]
            fun _ => Res.empty)).data
      = [(5, [13])] := by decide

/-! ## 8. `Basin.verify_basin`: decision table, histories of calls on one basin object -/

/-- **verify_decision_table.**  One call of `verify_basin(run_identifier=run)` on a basin whose
identifier has not been verified yet: the answer is `available ∧ (¬run ∨ identifiers match)`, and
the flag `_measurement_identifier_verified` is set exactly when the identifiers were compared and
match.  `identifiers match` is `idMatch` (table below). -/
theorem verify_decision_table (r b : Option Ident) (m av run : Bool) :
    (verifyBasin r b m av run false).1 = (av && (!run || idMatch r b m)) ∧
    (verifyBasin r b m av run false).2 = (run && av && idMatch r b m) := by
  rw [verifyBasin_fresh]; exact ⟨rfl, rfl⟩

/-- **idMatch_table.**  The identifier rule, all four presence combinations: a referrer without
identifier accepts everything; a referrer with identifier rejects a basin without one (F22);
both present: equality for unmapped, `basin <+: referrer` (prefix) for mapped basins. -/
theorem idMatch_table (r b : Ident) (ob : Option Ident) (m : Bool) :
    idMatch none ob m = true ∧
    idMatch (some r) none m = false ∧
    (idMatch (some r) (some b) false = true ↔ r = b) ∧
    (idMatch (some r) (some b) true = true ↔ b <+: r) := by
  refine ⟨rfl, rfl, ?_, ?_⟩
  · simp [idMatch]
  · simp [idMatch, List.isPrefixOf_iff_prefix]

/-- **mapped_needs_prefix.**  For a mapped basin nothing short of a prefix is accepted: whenever
the basin's identifier is not a prefix of the referrer's — in particular when it merely occurs
somewhere inside it (proper suffix, inner piece), is longer, or differs in case — the identifiers
do not match, and no call that asks for the identifier check is answered `True`. -/
theorem mapped_needs_prefix (r b : Ident) (hn : ¬ b <+: r) (av : Bool) :
    idMatch (some r) (some b) true = false ∧
    (verifyBasin (some r) (some b) true av true false).1 = false := by
  have h : idMatch (some r) (some b) true = false := by
    cases h : idMatch (some r) (some b) true
    · rfl
    · exact absurd ((idMatch_table r b none true).2.2.2.1 h) hn
  refine ⟨h, ?_⟩
  rw [(verify_decision_table _ _ _ _ _).1, h]; simp

/-- non-vacuity: identifiers exist where a substring test and the prefix rule disagree — the
basin's identifier occurs inside the referrer's (as a suffix, as an inner piece) and is rejected;
and an unmapped basin rejects even a proper prefix. -/
theorem substring_is_not_enough :
    (∃ r b : Ident, b <:+ r ∧ idMatch (some r) (some b) true = false) ∧
    (∃ r b : Ident, b <:+: r ∧ ¬ b <+: r ∧ ¬ b <:+ r ∧ idMatch (some r) (some b) true = false) ∧
    (∃ r b : Ident, b <+: r ∧ idMatch (some r) (some b) false = false) :=
  ⟨⟨[1, 2, 3], [2, 3], ⟨[1], rfl⟩, by decide⟩,
   ⟨[1, 2, 3], [2], ⟨[1], [3], rfl⟩, by decide, by decide, by decide⟩,
   ⟨[1, 2, 3], [1, 2], ⟨[3], rfl⟩, by decide⟩⟩

/-- **verify_history_independent.**  However often and with whatever flags `verify_basin` is
called on one basin object (availability may change between calls), every answer is the pure
decision `available ∧ (¬run ∨ idMatch)`: the sticky flag never changes an answer. -/
theorem verify_history_independent (r b : Option Ident) (m : Bool) (hist : List (Bool × Bool)) :
    runVerifyBasin r b m false hist = hist.map fun c => c.1 && (!c.2 || idMatch r b m) :=
  runVerifyBasin_pure r b m hist false (fun h => by cases h)

/-- a basin that ever answers `True` to a call with `run_identifier=True` matches the referrer -/
theorem verified_implies_matching (r b : Option Ident) (m : Bool) (hist : List (Bool × Bool))
    (i : Nat) (av : Bool) (hc : hist[i]? = some (av, true))
    (ht : (runVerifyBasin r b m false hist)[i]? = some true) : idMatch r b m = true := by
  rw [verify_history_independent, List.getElem?_map, hc] at ht
  simp only [Option.map_some, Bool.not_true, Bool.false_or, Option.some.injEq,
    Bool.and_eq_true] at ht
  exact ht.2

example : runVerifyBasin (some [1, 2, 3]) (some [1, 2]) true false [(true, true), (false, true), (true, false)]
    = [true, false, true] := by decide
example : runVerifyBasin (some [1, 2, 3]) (some [1, 2]) false false [(true, false), (true, true)]
    = [true, false] := by decide

/-! ## 9. the order of `ds.basins` and which basin serves a feature -/

/-- **basins_sorted_by_priority.**  The definitions are processed in non-decreasing priority
(type, then format, then mapping): for any two positions `i < j` of the sorted list the earlier
one is `prioLe` the later one. -/
theorem basins_sorted_by_priority (l : List BDef) :
    (sortBy prioLe l).Pairwise (fun a b => prioLe a b = true) :=
  sortBy_pairwise prioLe_total (fun h1 h2 => prioLe_trans h1 h2) l

/-- sorting neither drops nor invents a definition -/
theorem basins_sort_perm (l : List BDef) : (sortBy prioLe l).Perm l := sortBy_perm l

/-- **basins_order_deterministic.**  If no two definitions of a file share a priority key, the
processing order does not depend on the order in which the file stores them (HDF5 iterates the
group by key name = md5 of the definition text): any two storage orders give the same list. -/
theorem basins_order_deterministic (l₁ l₂ : List BDef) (hp : l₁.Perm l₂)
    (hanti : ∀ a ∈ l₁, ∀ b ∈ l₁, prioLe a b = true → prioLe b a = true → a = b) :
    sortBy prioLe l₁ = sortBy prioLe l₂ := by
  apply List.Perm.eq_of_pairwise (le := fun a b => prioLe a b = true)
  · intro a b ha hb hab hba
    have ha' : a ∈ l₁ := mem_sortBy.mp ha
    have hb' : b ∈ l₁ := hp.mem_iff.mpr (mem_sortBy.mp hb)
    exact hanti a ha' b hb' hab hba
  · exact basins_sorted_by_priority l₁
  · exact basins_sorted_by_priority l₂
  · exact (sortBy_perm l₁).trans (hp.trans (sortBy_perm l₂).symm)

/-- with ties the order *does* depend on the storage order (stable sort): witness -/
theorem basins_order_ties_keep_storage_order :
    (sortBy prioLe [⟨1, .file, .hdf5, [], none, none⟩, ⟨2, .file, .hdf5, [], none, none⟩]).map (·.key)
      = [1, 2] ∧
    (sortBy prioLe [⟨2, .file, .hdf5, [], none, none⟩, ⟨1, .file, .hdf5, [], none, none⟩]).map (·.key)
      = [2, 1] := by decide

/-- **first_match_wins.**  `ds[f]`: innate data wins over every basin; otherwise the data comes
from the first basin — in the order internal basins, file basins, then all basins, each in
priority order — whose `get_feature_data` succeeds, and every basin in front of it delivered
nothing. -/
theorem first_match_wins (ref : Node) (obs : List OB) (f : Feat) (r : List Row) (us : List Use)
    (h : getData ref obs f = some (r, us)) :
    (lk f ref.file.innate = some r ∧ us = []) ∨
    (lk f ref.file.innate = none ∧ ∃ pre o post, passes obs = pre ++ o :: post ∧
      OB.data ref o f = some (r, us) ∧ ∀ p ∈ pre, OB.data ref p f = none) := by
  unfold getData at h
  split at h
  · next r' hr =>
    simp only [Option.some.injEq, Prod.mk.injEq] at h
    exact Or.inl ⟨by rw [hr, h.1], h.2.symm⟩
  · next hn => exact Or.inr ⟨hn, firstSome_first h⟩

/-- non-vacuity: a file basin is asked before a remote basin that sorts in front of nothing -/
example : (passes [⟨⟨1, .remote, .http, [], none, none⟩, .remote, none, Res.empty, []⟩,
                   ⟨⟨2, .file, .hdf5, [], none, none⟩, .file, none, Res.empty, []⟩]).map (·.d.key)
    = [2, 1, 2] := by decide

/-! ## 10. constants regenerated from the source on every run (`harness/c14.py:translate`) -/

def typeIdx : BType → Nat
  | .internal => 0 | .file => 1 | .remote => 2 | .other => 3
def formatIdx : BFormat → Nat
  | .h5dataset => 0 | .hdf5 => 1 | .http => 2 | .s3 => 3 | .dcor => 4 | .other => 5

open DclabModel.Gen.BasinTable in
/-- **tables_match_source.**  The model's class lookup and priority ranks are the ones of the
imported dclab: (1) for every format string the registered basin class has the storage type
`classType` says, and dclab registers no format the model does not know; (2) `typeRank` /
`formatRank` order types / formats exactly like the characters `basin_priority_sorted_key`
assigns; (3) the key is laid out type, format, mapping with `same` < `basinmap0` < … (what
`prioLe` compares lexicographically). -/
theorem tables_match_source :
    (∀ f : BFormat, f ≠ .other → (classType f).map typeIdx = classTypeIds[formatIdx f]?) ∧
    extraFormats = 0 ∧
    (∀ a b : BType, decide (typeRank a < typeRank b) =
      decide (typeKeyCodes.getD (typeIdx a) 0 < typeKeyCodes.getD (typeIdx b) 0)) ∧
    (∀ a b : BFormat, decide (formatRank a < formatRank b) =
      decide (formatKeyCodes.getD (formatIdx a) 0 < formatKeyCodes.getD (formatIdx b) 0)) ∧
    keyLayoutOK = true := by
  refine ⟨?_, by decide, ?_, ?_, by decide⟩
  · intro f hf; cases f <;> first | (exact absurd rfl hf) | decide
  · intro a b; cases a <;> cases b <;> decide
  · intro a b; cases a <;> cases b <;> decide

/-! ## 11. resource use: the number of opened datasets is NOT bounded by the number of definitions

The cycle cut works on the keys of the current resolution *path*, so a dataset that is reachable
over several paths is opened once per path.  In a chain of `k` diamonds
`L0 → {a0, b0} → L1 → {a1, b1} → L2 …` the last file is opened `2^k` times.  Witness for `k = 2`
(7 files, 8 definitions, 12 datasets opened) on the fuel-unrolled step function (`decide` does not
reduce the well-founded `resolve`; `resolveN` with enough fuel is the same unrolling that
`resolve_ind` describes).  Replayed on the real code: findings/C14-diamond-opens.md. -/

def resolveN (w : World) (univ : List Feat) : Nat → Node → List Nat → Res
  | 0, _, _ => Res.empty
  | n + 1, node, ign =>
    resolveStep w univ true node ign fun c => resolveN w univ n c (nextIgnored node ign)

def fdef (key tgt : Nat) : BDef :=
  { key := key, type := .file, format := .hdf5, locs := [.abs 0 tgt], feats := none, mapping := none }
def fnode (bs : List BDef) : CFile :=
  { rid := none, innate := [], maps := [], internal := [], basins := bs }

/-- L0 = 0, a0 = 1, b0 = 2, L1 = 3, a1 = 4, b1 = 5, L2 = 6 -/
def wDiamonds : World :=
  { files := [((0, 0), fnode [fdef 1 1, fdef 2 2]), ((0, 1), fnode [fdef 3 3]),
              ((0, 2), fnode [fdef 4 3]), ((0, 3), fnode [fdef 5 4, fdef 6 5]),
              ((0, 4), fnode [fdef 7 6]), ((0, 5), fnode [fdef 8 6]), ((0, 6), fnode [])],
    urls := [], up := [] }

/-- **opens_not_bounded_by_definitions** (negation of the conjectured resource bound): 12 datasets
are opened for 8 distinct definitions (6 distinct basin files); the last file alone 4 times.
(`Res.opened` lists every verified file-type candidate twice — once as the candidate
`verify_basin` opened, once as the dataset behind the listed basin; the real code opens it once
and keeps it — hence `2 * …`.) -/
theorem opens_not_bounded_by_definitions :
    (resolveN wDiamonds [] 6 ⟨some (.abs 0 0), fnode [fdef 1 1, fdef 2 2]⟩ []).opened.length = 2 * 12 ∧
    (allKeys wDiamonds).eraseDups.length = 8 ∧
    ((resolveN wDiamonds [] 6 ⟨some (.abs 0 0), fnode [fdef 1 1, fdef 2 2]⟩ []).opened.filter
      (· == .abs 0 6)).length = 2 * 4 := by decide

end DclabModel.C14
