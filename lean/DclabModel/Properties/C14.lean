import DclabModel.Lemmas.Basin
/-!
# C14 — Basins are only followed when matching, acyclic and permitted

The model `Basin.resolve` (fixed code: F14 type guard, F22 identifier rule) is defined by
well-founded recursion on the number of distinct basin keys of the world that are not ignored
yet; Lean accepting the definition *is* the termination proof for every reference graph
(chains, diamonds, self references, k-cycles).

* `resolution_terminates`   depth of the resolution tree ≤ #distinct basin keys + 1;
* `guard_never_cuts_file/url`  the decreasing-measure guard inside `resolve` is always true
                            when a definition of a file of the world is followed
                            (so the model follows exactly what `basins_retrieve` follows);
* `used_only_if_matching`   every basin whose data is handed out — at any nesting depth — has
                            matching identifiers (equal; prefix for mapped basins; or the referrer
                            presents none);
* `remote_never_local`      a dataset opened through a remote format (or an internal basin)
                            never opens a local file, directly or through nested basins;
* `unreachable_degrades`    a definition none of whose locations can be opened offers no
                            feature and delivers no data;
* `normalize_idem`, `verification_history_independent` (+ `full_key_sound`; witness
  `cache_without_mode_depends_on_history`): spellings and histories;
* witnesses: `F14_old_guard_opens_local`, `F22_old_rule_accepts_missing`,
  `F22_old_rule_raises_mapped`; `F70_same_name_sibling_accepted` (open finding F70).
-/
namespace DclabModel.C14
open DclabModel.Basin

/-! ## 1. termination, depth -/

theorem depth_le_budget (w : World) (univ : List Feat) (tg : Bool) (node : Node)
    (ign : List Nat) : (resolve w univ tg node ign).depth ≤ budget w ign + 1 := by
  apply resolve_ind w univ tg (fun _ ign r => r.depth ≤ budget w ign + 1)
  intro node ign rec hrec
  show 1 + maxDepth _ ≤ budget w ign + 1
  have : maxDepth ((sortBy prioLe node.file.basins).flatMap (instantiate w tg node ign rec))
      ≤ budget w ign := by
    apply maxDepth_le
    intro o ho
    obtain ⟨b, _, hob⟩ := List.mem_flatMap.mp ho
    rcases instantiate_sub hob with h | ⟨c, _, h⟩
    · rw [h]; exact Nat.zero_le _
    · rw [h]
      rcases hrec c with he | ⟨hlt, hp⟩
      · rw [he]; exact Nat.zero_le _
      · omega
  omega

/-- **resolution_terminates.**  `resolve` is a total function (well-founded recursion, checked by
Lean's termination checker) and the resolution tree of any dataset in any world — whatever the
reference graph — is at most `#distinct basin keys + 1` levels deep. -/
theorem resolution_terminates (w : World) (univ : List Feat) (tg : Bool) (node : Node)
    (ign : List Nat) :
    (resolve w univ tg node ign).depth ≤ (allKeys w).eraseDups.length + 1 :=
  Nat.le_trans (depth_le_budget w univ tg node ign) (Nat.succ_le_succ (budget_le w ign))

/-- following a not-yet-ignored definition of a local file of the world decreases the measure -/
theorem guard_never_cuts_file (w : World) (d n : Nat) (f : CFile) (at_ : Option Loc)
    (ign : List Nat) (b : BDef) (hf : lk (d, n) w.files = some f) (hb : b ∈ f.basins)
    (hi : ign.contains b.key = false) :
    budget w (nextIgnored ⟨at_, f⟩ ign) < budget w ign :=
  guard_true w ⟨at_, f⟩ ign b hb (key_in_world_file hf hb) hi

theorem guard_never_cuts_url (w : World) (n : Nat) (f : CFile) (at_ : Option Loc)
    (ign : List Nat) (b : BDef) (hf : lk n w.urls = some f) (hb : b ∈ f.basins)
    (hi : ign.contains b.key = false) :
    budget w (nextIgnored ⟨at_, f⟩ ign) < budget w ign :=
  guard_true w ⟨at_, f⟩ ign b hb (key_in_world_url hf hb) hi

/-! ## 2. identifiers -/

/-- **used_only_if_matching.**  Every use of basin data recorded anywhere in the resolution tree
passed the identifier check: the referrer has no identifier, or both have one and they are equal
(unmapped basin) / the basin's is a prefix of the referrer's (mapped basin).  In particular a
basin without identifier is never used by a referrer that has one (F22). -/
theorem used_only_if_matching (w : World) (univ : List Feat) (tg : Bool) (node : Node)
    (ign : List Nat) : ∀ u ∈ (resolve w univ tg node ign).used,
      u.refRid = none ∨ ∃ r b, u.refRid = some r ∧ u.basRid = some b ∧
        (if u.mapped then b <+: r else r = b) := by
  have key : ∀ u ∈ (resolve w univ tg node ign).used, UseOK u := by
    apply resolve_ind w univ tg (fun _ _ r => ∀ u ∈ r.used, UseOK u)
    intro node ign rec hrec u hu
    simp only [resolveStep, List.mem_append, List.mem_flatMap] at hu
    rcases hu with ⟨p, hp, hup⟩ | ⟨o, ho, huo⟩
    · obtain ⟨f, _, hf⟩ := List.mem_filterMap.mp hp
      obtain ⟨q, hq, rfl⟩ := Option.map_eq_some_iff.mp hf
      exact getData_used (r := q.1) (us := q.2) hq u hup
    · obtain ⟨b, _, hob⟩ := ho
      rcases instantiate_sub hob with h | ⟨c, _, h⟩
      · rw [h] at huo; cases huo
      · rw [h] at huo
        rcases hrec c with he | ⟨_, hp⟩
        · rw [he] at huo; cases huo
        · exact hp u huo
  intro u hu
  exact idMatch_spec (key u hu)

/-! ## 3. remote datasets never open local files -/

theorem step_nonlocal (w : World) (univ : List Feat) (node : Node) (ign : List Nat)
    (rec : Node → Res) (hn : node.isLocal = false)
    (hrec : ∀ c, c.isLocal = false → ∀ l ∈ (rec c).opened, isLocalLoc l = false) :
    ∀ l ∈ (resolveStep w univ true node ign rec).opened, isLocalLoc l = false := by
  intro l hl
  simp only [resolveStep, List.mem_flatMap, List.mem_append] at hl
  obtain ⟨o, ⟨b, _, hob⟩, hlo⟩ := hl
  obtain ⟨htried, hnode⟩ := instantiate_nonlocal hn hob
  rcases hlo with (hlo | hlo) | hlo
  · rw [htried] at hlo; cases hlo
  · cases hc : o.node with
    | none => simp [hc] at hlo
    | some c =>
      simp only [hc, Option.bind_some, Option.mem_toList] at hlo
      exact at_nonlocal (hnode c hc) hlo
  · rcases instantiate_sub hob with h | ⟨c, hc, h⟩
    · rw [h] at hlo; cases hlo
    · rw [h] at hlo; exact hrec c (hnode c hc) l hlo

/-- **remote_never_local.**  With the type guard in place, a dataset that is not a local file
(opened through `RTDC_HTTP`/S3/DCOR, or the dictionary dataset of an internal basin) never opens a
local path: not for its own basins and not for any nested basin, for every world, every ignored
set and every reference graph. -/
theorem remote_never_local (w : World) (univ : List Feat) (node : Node) (ign : List Nat)
    (hn : node.isLocal = false) :
    ∀ l ∈ (resolve w univ true node ign).opened, isLocalLoc l = false := by
  revert hn
  apply resolve_ind w univ true
    (fun node _ r => node.isLocal = false → ∀ l ∈ r.opened, isLocalLoc l = false)
  intro node ign rec hrec hn
  apply step_nonlocal w univ node ign rec hn
  intro c hc l hl
  rcases hrec c with he | ⟨_, hp⟩
  · rw [he] at hl; cases hl
  · exact hp hc l hl

/-! ## 4. unreachable basins -/

/-- **unreachable_degrades.**  A (non-internal) definition none of whose locations can be opened —
dangling path, unreachable URL, unsupported combination — contributes no feature to
`features_basin` and delivers no data for any feature; it never produces wrong data. -/
theorem unreachable_degrades (w : World) (tg : Bool) (ref : Node) (ign : List Nat)
    (rec : Node → Res) (b : BDef) (hty : b.type ≠ .internal)
    (hun : ∀ l ∈ b.locs, openAt w ref b.format l = none) :
    ∀ o ∈ instantiate w tg ref ign rec b, o.offered = [] ∧ ∀ f, OB.data ref o f = none := by
  intro o ho
  obtain ⟨hnode, hint⟩ := instantiate_unreachable hty hun ho
  constructor
  · simp [OB.offered, OB.available, hint, hnode]
  · intro f
    simp only [OB.data, hnode]
    split <;> rfl

/-- a file-type definition is never followed from a non-local dataset, whatever it says -/
theorem file_type_refused (w : World) (ref : Node) (ign : List Nat) (rec : Node → Res) (b : BDef)
    (hty : b.type = .file) (hn : ref.isLocal = false) :
    instantiate w true ref ign rec b = [] := by
  unfold instantiate
  cases hcls : classType b.format with
  | none => rfl
  | some cls =>
    by_cases hi : b.key ∈ ign <;> cases cls <;> simp [hi, hty, hn]

/-! ## 5. witnesses for the rules before the fixes -/

def secret : CFile := { rid := none, innate := [(5, [70, 71])], maps := [], internal := [], basins := [] }

/-- F14: a dataset served over HTTP declares `{"type": "remote", "format": "hdf5",
"urls": ["/dir0/file7"]}` -/
def evil : CFile :=
  { rid := none, innate := [], maps := [], internal := [],
    basins := [{ key := 1, type := .remote, format := .hdf5, locs := [.abs 0 7], feats := none,
                 mapping := none }] }

def w14 : World := { files := [((0, 7), secret)], urls := [(0, evil)], up := [.http] }

/-- without the type guard the local file is opened and its feature served to the remote
dataset; with the guard nothing is opened and nothing is offered -/
theorem F14_old_guard_opens_local :
    (resolveStep w14 [5] false ⟨some (.url 0), evil⟩ []
        (fun c => resolveStep w14 [5] false c [1] fun _ => Res.empty)).opened = [.abs 0 7] ∧
    (resolveStep w14 [5] false ⟨some (.url 0), evil⟩ []
        (fun c => resolveStep w14 [5] false c [1] fun _ => Res.empty)).data = [(5, [70, 71])] ∧
    (resolveStep w14 [5] true ⟨some (.url 0), evil⟩ []
        (fun c => resolveStep w14 [5] true c [1] fun _ => Res.empty)).opened = [] ∧
    (resolveStep w14 [5] true ⟨some (.url 0), evil⟩ []
        (fun c => resolveStep w14 [5] true c [1] fun _ => Res.empty)).feats = [] := by decide

/-- F22: the old rule accepted an unmapped basin that has no identifier … -/
theorem F22_old_rule_accepts_missing :
    idMatchOld (some [1, 2]) none false = .ok ∧ idMatch (some [1, 2]) none false = false := by
  decide

/-- … and raised `TypeError` for a mapped one -/
theorem F22_old_rule_raises_mapped :
    idMatchOld (some [1, 2]) none true = .raise ∧ idMatch (some [1, 2]) none true = false := by
  decide

/-- on identifiers that exist the old and the fixed rule agree -/
theorem idMatch_old_agree (r : Option Ident) (b : Ident) (m : Bool) :
    idMatchOld r (some b) m = (if idMatch r (some b) m then .ok else .no) := by
  cases r with
  | none => rfl
  | some r => cases m <;> simp [idMatchOld, idMatch]

example : idMatch (some [1, 2, 3]) (some [1, 2]) true = true := by decide
example : idMatch (some [1, 2, 3]) (some [1, 2]) false = false := by decide
example : idMatch (some [1, 2]) (some [1, 2]) false = true := by decide

/-! ## 6. spellings of locations, histories of verifications -/

/-- **normalize_idem.**  Lexical normalisation of a location (`.` dropped, `name/..` cancelled) is
idempotent: a normalised location is a canonical key, re-spelling cannot produce a new one. -/
theorem normalize_idem (p : List Seg) : normalize (normalize p) = normalize p := by
  obtain ⟨acc, hs, he⟩ := normAcc_stk p [] trivial
  unfold normalize
  rw [he]
  have := normAcc_replay acc [] [] (by simpa using hs)
  simp only [List.append_nil] at this
  rw [this]; rfl

example : normalize [.nm 1, .up, .cur, .nm 2, .nm 3, .up, .up, .up, .nm 4] = [.up, .nm 4] := by decide

/-- every spelling of a location that only adds no-op components has the normal form of the
plain location (`sub/../x`, `./x`) -/
theorem normalize_noop (n : Nat) (p : List Seg) :
    normalize (.nm n :: .up :: p) = normalize p ∧ normalize (.cur :: p) = normalize p :=
  ⟨rfl, rfl⟩

/-- **verification_history_independent.**  The accept/reject decision for a (referrer, definition)
pair is the pure function `idMatch` of (referrer identifier, basin identifier, mapping mode).
A process-wide cache of successful verifications in front of it is transparent for every history
of verifications — provided its key determines the decision (in particular contains the mapping
mode). -/
theorem verification_history_independent [DecidableEq κ] (key : VQ → κ)
    (hkey : ∀ q q', key q = key q' → q.decide = q'.decide) (hist : List VQ) :
    runVerify key [] hist = hist.map VQ.decide :=
  runVerify_transparent key hkey hist [] (fun q h => by simp at h)

/-- a key made of (location, referrer identifier, mapping mode) is sound when the location
determines the basin's identifier -/
theorem full_key_sound (q q' : VQ) (hloc : q.loc = q'.loc → q.basRid = q'.basRid)
    (h : (q.loc, q.refRid, q.mapped) = (q'.loc, q'.refRid, q'.mapped)) : q.decide = q'.decide := by
  simp only [Prod.mk.injEq] at h
  obtain ⟨h1, h2, h3⟩ := h
  simp only [VQ.decide, h2, h3, hloc h1]

/-- witness: a cache keyed by (location, referrer identifier) *without* the mapping mode accepts
an unmapped definition after a mapped one to the same file was verified by prefix -/
theorem cache_without_mode_depends_on_history :
    runVerify (fun q => (q.loc, q.refRid)) []
      [⟨7, some [1, 2], some [1], true⟩, ⟨7, some [1, 2], some [1], false⟩] = [true, true] ∧
    runVerify (fun q => (q.loc, q.refRid)) [] [⟨7, some [1, 2], some [1], false⟩] = [false] ∧
    (⟨7, some [1, 2], some [1], false⟩ : VQ).decide = false := by decide

/-! ## 7. F70 (open): a relative location is only a file name -/

def origin70 : CFile := { rid := some [1], innate := [(5, [10, 11, 12, 13])], maps := [], internal := [], basins := [] }
def export1_70 : CFile := { rid := some [1, 2], innate := [(5, [11, 13])], maps := [], internal := [], basins := [] }
/-- second-generation export written into directory 1 from `export1` in directory 0 (file name 7):
its definition for `export1` has the dangling absolute path and the bare name `7` -/
def export2_70 : CFile :=
  { rid := some [1, 2, 3], innate := [], maps := [(0, [1])], internal := [],
    basins := [{ key := 1, type := .file, format := .hdf5, locs := [.abs 0 7, .rel 7],
                 feats := none, mapping := some 0 }] }

/-- With `export1` (0,7) unreachable and the *origin* stored as (1,7) next to `export2`, the
relative name resolves to the origin, the prefix rule accepts it, and the map written for
`export1` is applied to the origin: `[11]` instead of `[13]`.  With `export1` reachable the
definition delivers `[13]`. -/
theorem F70_same_name_sibling_accepted :
    (resolveStep { files := [((1, 7), origin70)], urls := [], up := [] } [5] true
        ⟨some (.abs 1 8), export2_70⟩ [] (fun c => resolveStep
          { files := [((1, 7), origin70)], urls := [], up := [] } [5] true c [1] fun _ => Res.empty)).data
      = [(5, [11])] ∧
    (resolveStep { files := [((0, 7), export1_70), ((1, 7), origin70)], urls := [], up := [] } [5] true
        ⟨some (.abs 1 8), export2_70⟩ [] (fun c => resolveStep
          { files := [((0, 7), export1_70), ((1, 7), origin70)], urls := [], up := [] } [5] true c [1]
            fun _ => Res.empty)).data
      = [(5, [13])] := by decide

end DclabModel.C14
