import DclabModel.Lemmas.Stats
import DclabModel.Gen.StatsTable
/-!
# C12 — Statistics and density estimates are computed from exactly the filtered events

Model: `Model/Stats.lean` (`Val := nan | ninf | pinf | fin q`, every entry point has the shape
`post ∘ g ∘ purge ∘ scale ∘ sel`).  Floating-point estimators (`g`) are parameters: the theorems
hold for *every* estimator, so they say that the data handed to the estimator are exactly the
selected (scaled, purged) events.  Equality of dclab's estimators with the reference estimators
is correspondence-only (harness part c).

* `sel_congr`, `entry_ignores_excluded`, `entry_eq_on_subset` and their instances for every
  entry point: excluded events — whatever their values — never influence a result, and a result
  on a filtered dataset equals the result on the dataset of the selected events;
* `purge_then_stat`, `events_gated`;
* `bin_centres_are_midpoints`, `hist_counts_permutation_invariant`, `hist_total`;
* `percentile_splits_partial` (+ `percentile_splits_full_is_false`);
* `log_scale_commutes`;
* `percentile_mono_in_q`, `percentile_permutation_invariant`, `median_is_percentile_50` and the
  same for quantile levels;
* the registry of statistics (table regenerated from the source): `registry_table`,
  `registry_factors_through_sel`, `registry_stat_ignores_excluded`;
* `get_statistics`: `getStatistics_ignores_excluded`, `getStatistics_length`,
  `getStatistics_header`, `getStatistics_index`, `getStatistics_raises_iff`, `empty_selection`.
-/
namespace DclabModel.C12
open DclabModel.Stats
open DclabModel.Export (sel countTrue tsvRows lookupAll tsvFeats Src Feat)
open DclabModel.Gen.StatsTable (registry)

/-! ## 1. excluded events never matter -/

/-- rows of excluded events are irrelevant for the selection -/
theorem sel_congr {α : Type} (m : List Bool) (xs ys : List α) (hl : xs.length = ys.length)
    (h : ∀ i (h1 : i < xs.length) (h2 : i < ys.length), m.getD i false = true → xs[i] = ys[i]) :
    sel m xs = sel m ys :=
  DclabModel.Export.sel_congr m xs ys hl h

/-- **every entry point** (any number of columns, any scales, any estimator / post-processing
`F`): two datasets that agree on the selected events give the same result — the values of
excluded events (NaN, inf, anything) never influence it -/
theorem entry_ignores_excluded {β : Type} (F : List (List Val) → β) (lg : Val → Val)
    (scs : List Scale) (m : List Bool) (cols cols' : List (List Val))
    (h : AgreeAll m cols cols') :
    entry F lg scs m cols = entry F lg scs m cols' := by
  unfold entry
  rw [view_congr lg m cols cols' scs h]

/-- **every entry point**: the result on the filtered dataset is the result on the dataset that
contains the selected events only (with an all-True filter) -/
theorem entry_eq_on_subset {β : Type} (F : List (List Val) → β) (lg : Val → Val)
    (scs : List Scale) (m : List Bool) (cols : List (List Val)) :
    entry F lg scs m cols = entry F lg scs (allTrue (countTrue m)) (sub m cols) := by
  unfold entry
  rw [view_sub lg m (countTrue m) (Nat.le_refl _)]

/-- statistics of one feature (`Statistics.get_feature` + any method `g`) -/
theorem stat_ignores_excluded {β : Type} (g : List Rat → Option β) (m : List Bool)
    (xs ys : List Val) (h : AgreeOn m xs ys) :
    statFeat g true m xs = statFeat g true m ys := by
  unfold statFeat
  simp only [if_true]
  rw [DclabModel.Export.sel_congr m xs ys h.1 h.2]

theorem stat_eq_on_subset {β : Type} (g : List Rat → Option β) (m : List Bool) (xs : List Val) :
    statFeat g true m xs = statFeat g true (allTrue (countTrue m)) (sel m xs) ∧
    statFeat g true m xs = statFeat g false [] (sel m xs) := by
  unfold statFeat
  simp only [if_true, sel_allTrue_sel m xs _ (Nat.le_refl _)]
  simp

/-- with filtering disabled all events are used, whatever the filter array says -/
theorem stat_filter_disabled {β : Type} (g : List Rat → Option β) (m m' : List Bool)
    (xs : List Val) : statFeat g false m xs = statFeat g false m' xs := rfl

/-- scatter KDE (`get_kde_scatter`), any estimator -/
theorem kdeScatter_ignores_excluded (g : List (Rat × Rat) → List Val) (lg : Val → Val)
    (sx sy : Scale) (m : List Bool) (x y x' y' : List Val)
    (hx : AgreeOn m x x') (hy : AgreeOn m y y') :
    kdeScatter g lg sx sy m x y = kdeScatter g lg sx sy m x' y' :=
  entry_ignores_excluded _ lg _ m _ _ (.cons hx (.cons hy .nil))

theorem kdeScatter_eq_on_subset (g : List (Rat × Rat) → List Val) (lg : Val → Val)
    (sx sy : Scale) (m : List Bool) (x y : List Val) :
    kdeScatter g lg sx sy m x y
      = kdeScatter g lg sx sy (allTrue (countTrue m)) (sel m x) (sel m y) :=
  entry_eq_on_subset _ lg _ m [x, y]

/-- contour KDE (`get_kde_contour`: spacing, grid, density), any estimator -/
theorem kdeContour_ignores_excluded {β : Type} (G : List Val → List Val → β) (lg : Val → Val)
    (sx sy : Scale) (m : List Bool) (x y x' y' : List Val)
    (hx : AgreeOn m x x') (hy : AgreeOn m y y') :
    kdeContour G lg sx sy m x y = kdeContour G lg sx sy m x' y' :=
  entry_ignores_excluded _ lg _ m _ _ (.cons hx (.cons hy .nil))

theorem kdeContour_eq_on_subset {β : Type} (G : List Val → List Val → β) (lg : Val → Val)
    (sx sy : Scale) (m : List Bool) (x y : List Val) :
    kdeContour G lg sx sy m x y
      = kdeContour G lg sx sy (allTrue (countTrue m)) (sel m x) (sel m y) :=
  entry_eq_on_subset _ lg _ m [x, y]

/-- downsampled scatter (`get_downsampled_scatter`), any downsampling rule -/
theorem downsampled_ignores_excluded (dsmp : List Val → List Val → List Bool) (lg : Val → Val)
    (sx sy : Scale) (m : List Bool) (x y x' y' : List Val)
    (hx : AgreeOn m x x') (hy : AgreeOn m y y') :
    downsampled dsmp lg sx sy m x y = downsampled dsmp lg sx sy m x' y' := by
  unfold downsampled
  rw [entry_ignores_excluded _ lg _ m [x, y] [x', y'] (.cons hx (.cons hy .nil)),
    DclabModel.Export.sel_congr m x x' hx.1 hx.2, DclabModel.Export.sel_congr m y y' hy.1 hy.2]

theorem downsampled_eq_on_subset (dsmp : List Val → List Val → List Bool) (lg : Val → Val)
    (sx sy : Scale) (m : List Bool) (x y : List Val) :
    downsampled dsmp lg sx sy m x y
      = downsampled dsmp lg sx sy (allTrue (countTrue m)) (sel m x) (sel m y) := by
  unfold downsampled
  rw [entry_eq_on_subset _ lg _ m [x, y]]
  simp only [sub, List.map_cons, List.map_nil, sel_allTrue_sel m _ _ (Nat.le_refl _)]

/-- quantile levels: the events handed to `get_quantile_levels` are the selected ones -/
theorem quantile_ignores_excluded (dens : Rat × Rat → Val) (m : List Bool)
    (x y x' y' : List Val) (hx : AgreeOn m x x') (hy : AgreeOn m y y') (q : Rat) :
    quantileLevel dens (sel m x) (sel m y) q = quantileLevel dens (sel m x') (sel m y') q := by
  rw [DclabModel.Export.sel_congr m x x' hx.1 hx.2, DclabModel.Export.sel_congr m y y' hy.1 hy.2]

/-- filtered text export: the rows only depend on the selected events -/
theorem tsv_ignores_excluded (src src' : Src Val) (mask : List Bool) (feats : List String)
    (fts fts' : List (Feat Val))
    (hl : lookupAll src (tsvFeats feats) = some fts)
    (hl' : lookupAll src' (tsvFeats feats) = some fts')
    (hk : fts.map (·.kind) = fts'.map (·.kind))
    (hsel : fts.map (fun ft => sel mask ft.rows) = fts'.map (fun ft => sel mask ft.rows)) :
    tsvRows src true mask feats = tsvRows src' true mask feats := by
  unfold tsvRows
  simp only [hl, hl', if_true]
  have hall : fts.all (fun ft => decide (ft.kind = .scalar))
      = fts'.all (fun ft => decide (ft.kind = .scalar)) := by
    have h1 : ∀ l : List (Feat Val), l.all (fun ft => decide (ft.kind = .scalar))
        = (l.map (·.kind)).all (fun k => decide (k = .scalar)) := by
      intro l; rw [List.all_map]; rfl
    rw [h1 fts, h1 fts', hk]
  rw [hall, hsel]

/-! ## 2. purge -/

/-- statistics use exactly the finite selected values: purging first changes nothing, and
invalid values among the selected events are ignored -/
theorem purge_then_stat {β : Type} (g : List Rat → Option β) (m : List Bool) (xs : List Val) :
    statFeat g true m xs = g (fins (purge (sel m xs))) ∧
    (∀ (a b : List Val) (v : Val), v.isBad = true → fins (a ++ v :: b) = fins (a ++ b)) := by
  constructor
  · unfold statFeat; simp only [if_true, fins_purge]
  · intro a b v hv
    rw [fins_append, fins_append]
    cases v <;> simp_all [fins, Val.isBad]

/-- "Events" is the number of selected events of any column, "%-gated" their share -/
theorem events_gated (m : List Bool) (xs : List Val) (h : m.length ≤ xs.length) :
    events m = (sel m xs).length ∧
    (m ≠ [] → gated m = some (((sel m xs).length : Rat) / (m.length : Rat) * 100)) := by
  have hl := sel_length_eq m xs h
  constructor
  · unfold events; exact hl.symm
  · intro hm
    unfold gated
    have : m.isEmpty = false := by cases m <;> simp_all
    simp only [this, Bool.false_eq_true, if_false, hl]

/-- the density of an event-wise KDE is reported at exactly the valid events; invalid events
get nan -/
theorem kde_nan_positions (g : List (Rat × Rat) → List Val) :
    ∀ (xs ys : List Val), (kdeAtEvents g xs ys).length = (badPairs xs ys).length := by
  intro xs ys
  unfold kdeAtEvents
  generalize g (goodPairs xs ys) = vs
  generalize badPairs xs ys = bs
  induction bs generalizing vs with
  | nil => rfl
  | cons b t ih =>
    cases b
    · cases vs <;> simp [scatterBack, ih]
    · simp [scatterBack, ih]

/-! ## 3. histograms -/

/-- `xedges[1:] - (xedges[1] - xedges[0]) / 2` are the bin midpoints for uniform edges -/
theorem bin_centres_are_midpoints (lo hi : Rat) (nb : Nat) (hnb : 1 ≤ nb) (i : Nat) (hi' : i < nb) :
    (centres (edgesUniform lo hi nb))[i]? =
      some (((lo + (i : Rat) * ((hi - lo) / (nb : Rat)))
        + (lo + ((i + 1 : Nat) : Rat) * ((hi - lo) / (nb : Rat)))) / 2) := by
  unfold centres edgesUniform
  have h0 : ((List.range (nb + 1)).map fun (i : Nat) => lo + (i : Rat) * ((hi - lo) / (nb : Rat))).getD 0 0
      = lo + ((0 : Nat) : Rat) * ((hi - lo) / (nb : Rat)) := by
    simp [List.getD_eq_getElem?_getD]
  have h1 : ((List.range (nb + 1)).map fun (i : Nat) => lo + (i : Rat) * ((hi - lo) / (nb : Rat))).getD 1 0
      = lo + ((1 : Nat) : Rat) * ((hi - lo) / (nb : Rat)) := by
    have hr1 : (List.range (nb + 1))[1]? = some 1 := by
      rw [List.getElem?_range]; omega
    rw [List.getD_eq_getElem?_getD, List.getElem?_map, hr1]
    rfl
  rw [h0, h1]
  simp only [List.getElem?_map, List.getElem?_drop]
  have hr : (List.range (nb + 1))[1 + i]? = some (1 + i) := by
    rw [List.getElem?_range]; omega
  rw [hr]
  simp only [Option.map_some, Option.some.injEq]
  have e1 : ((1 + i : Nat) : Rat) = 1 + (i : Rat) := by simp [Rat.natCast_add]
  have e2 : ((i + 1 : Nat) : Rat) = (i : Rat) + 1 := by simp [Rat.natCast_add]
  rw [e1, e2]
  simp
  grind

/-- histogram counts do not depend on the order of the events -/
theorem hist_counts_permutation_invariant {α : Type} (f : α → Nat) (nb : Nat) (d d' : List α)
    (h : d.Perm d') : histCounts f nb d = histCounts f nb d' := by
  unfold histCounts
  apply List.map_congr_left
  intro i _
  exact h.countP_eq _

/-- every event is counted exactly once -/
theorem hist_total {α : Type} (f : α → Nat) (nb : Nat) (d : List α) (h : ∀ x ∈ d, f x < nb) :
    (histCounts f nb d).sum = d.length := by
  rw [hist_prefix_sum, List.countP_eq_length]
  intro x hx
  simpa using h x hx

/-- … in particular for the bin assignment of `np.histogram` (interior edges `≤ x`), 1-d and 2-d -/
theorem hist_total_edges (edges : List Rat) (h : 2 ≤ edges.length) (d : List Rat) :
    (histCounts (binOf edges) (edges.length - 1) d).sum = d.length :=
  hist_total _ _ _ (fun x _ => binOf_lt edges h x)

theorem hist2_total (ex ey : List Rat) (hx : 2 ≤ ex.length) (hy : 2 ≤ ey.length)
    (d : List (Rat × Rat)) :
    (histCounts (bin2 ex ey) ((ex.length - 1) * (ey.length - 1)) d).sum = d.length := by
  apply hist_total
  intro p _
  unfold bin2
  have h1 := binOf_lt ex hx p.1
  have h2 := binOf_lt ey hy p.2
  calc binOf ex p.1 * (ey.length - 1) + binOf ey p.2
      < binOf ex p.1 * (ey.length - 1) + (ey.length - 1) := by omega
    _ = (binOf ex p.1 + 1) * (ey.length - 1) := by rw [Nat.succ_mul]
    _ ≤ (ex.length - 1) * (ey.length - 1) := Nat.mul_le_mul_right _ (by omega)

/-! ## 4. percentiles -/

/-- **the level for quantile `q` splits the events at `q`, up to one event.**
For `0 ≤ q ≤ 1` and `L = percentile d q` (NumPy's linear rule), with `n = len(d)`:
`#{x < L} − 1 ≤ q·(n−1) < #{x ≤ L}`.

The statement planned in DESIGN.md, `#{x < L}/n ≤ q ≤ #{x ≤ L}/n`, is **false** for the linear
rule (`percentile_splits_full_is_false`: two events, `q = 9/10`): interpolation between order
statistics places the level strictly between two events, so the fractions can only bracket `q`
up to `1/n`. -/
theorem percentile_splits_partial (d : List Rat) (hd : d ≠ []) (q : Rat) (h0 : 0 ≤ q) (h1 : q ≤ 1)
    (L : Rat) (hL : percentile d q = some L) :
    ((d.countP (fun x => decide (x < L)) : Nat) : Rat) ≤ q * ((d.length : Rat) - 1) + 1 ∧
    q * ((d.length : Rat) - 1) < ((d.countP (fun x => decide (x ≤ L)) : Nat) : Rat) :=
  percentile_bounds d hd q h0 h1 L hL

/-- the same for the density level reported for a quantile (`get_quantile_levels`) -/
theorem quantile_level_splits_partial (dens : Rat × Rat → Val) (xs ys : List Val) (q : Rat)
    (h0 : 0 ≤ q) (h1 : q ≤ 1) (L : Rat) (hL : quantileLevel dens xs ys q = some L) :
    let dp := fins ((goodPairs xs ys).map dens)
    ((dp.countP (fun x => decide (x < L)) : Nat) : Rat) ≤ q * ((dp.length : Rat) - 1) + 1 ∧
    q * ((dp.length : Rat) - 1) < ((dp.countP (fun x => decide (x ≤ L)) : Nat) : Rat) := by
  intro dp
  have hne : dp ≠ [] := by
    intro h
    unfold quantileLevel percentile at hL
    simp only [show fins ((goodPairs xs ys).map dens) = dp from rfl, h, List.isEmpty_nil,
      if_true] at hL
    cases hL
  exact percentile_bounds dp hne q h0 h1 L hL

/-- witness: `#{x ≤ L}/n ≥ q` fails for `d = [0, 10]`, `q = 9/10` (`L = 9`, one of two events) -/
theorem percentile_splits_full_is_false :
    percentile [0, 10] (9 / 10) = some 9 ∧
    ¬ ((9 : Rat) / 10 ≤ (([0, 10] : List Rat).countP (fun x => decide (x ≤ 9)) : Rat) / 2) := by
  decide +kernel

/-- when `q·(n−1)` is an integer no interpolation takes place and the level is an event value
(example) -/
example : percentile [3, 1, 2, 10, 7] (1 / 2) = some 3 := by decide +kernel

/-! ## 4b. quantile levels: monotone in `q`, independent of the order of the events -/

/-- the level grows with the quantile: `q ≤ q'` gives `percentile d q ≤ percentile d q'`
(NumPy's linear rule, `0 ≤ q ≤ q' ≤ 1`) -/
theorem percentile_mono_in_q (d : List Rat) (q q' : Rat) (h0 : 0 ≤ q) (hqq : q ≤ q') (h1 : q' ≤ 1)
    (L L' : Rat) (hL : percentile d q = some L) (hL' : percentile d q' = some L') : L ≤ L' := by
  have hd : d ≠ [] := by
    intro h; subst h; simp [percentile] at hL
  rw [percentile_eq_interp d hd] at hL hL'
  cases hL; cases hL'
  have hn : 1 ≤ d.length := by cases d <;> simp_all
  have hn1 : (0 : Rat) ≤ (d.length : Rat) - 1 := by
    have : ((1 : Nat) : Rat) ≤ (d.length : Rat) := Rat.natCast_le_natCast.mpr hn
    simp at this; grind
  have hlen : (sortR d).length = d.length := length_isort _ d
  apply interp_mono _ (sorted_sortR d)
  · exact Rat.mul_nonneg h0 hn1
  · have := Rat.mul_nonneg (by grind : (0 : Rat) ≤ q' - q) hn1
    grind
  · rw [hlen]
    have := Rat.mul_nonneg (by grind : (0 : Rat) ≤ 1 - q') hn1
    grind

/-- a percentile does not depend on the order of the events -/
theorem percentile_permutation_invariant (d d' : List Rat) (h : d.Perm d') (q : Rat) :
    percentile d q = percentile d' q := by
  unfold percentile
  have he : d.isEmpty = d'.isEmpty := by
    cases d <;> cases d' <;> simp_all
  rw [he, sortR_perm d d' h]

/-- "Median" is the 50th percentile of NumPy's linear rule (`np.median(d) = np.percentile(d, 50)`),
so the splitting, monotonicity and permutation theorems of this section apply to it -/
theorem median_is_percentile_50 (d : List Rat) : median d = medianP d :=
  median_eq_percentile d

/-- quantile levels (`get_quantile_levels`) grow with `q` … -/
theorem quantile_level_mono_in_q (dens : Rat × Rat → Val) (xs ys : List Val) (q q' : Rat)
    (h0 : 0 ≤ q) (hqq : q ≤ q') (h1 : q' ≤ 1) (L L' : Rat)
    (hL : quantileLevel dens xs ys q = some L) (hL' : quantileLevel dens xs ys q' = some L') :
    L ≤ L' :=
  percentile_mono_in_q _ q q' h0 hqq h1 L L' hL hL'

/-- … and do not depend on the order in which the events are stored: permuting the events
(both coordinates simultaneously) leaves every level unchanged -/
theorem quantile_level_permutation_invariant (dens : Rat × Rat → Val) (xs ys xs' ys' : List Val)
    (h : (xs.zip ys).Perm (xs'.zip ys')) (q : Rat) :
    quantileLevel dens xs ys q = quantileLevel dens xs' ys' q := by
  unfold quantileLevel
  apply percentile_permutation_invariant
  rw [goodPairs_eq_filterMap, goodPairs_eq_filterMap, fins_eq_filterMap, fins_eq_filterMap]
  exact ((h.filterMap _).map _).filterMap _

example : percentile [3, 1, 2, 10, 7] (1 / 4) = some 2 ∧ percentile [3, 1, 2, 10, 7] (9 / 10) = some (44 / 5)
    ∧ percentile [10, 7, 3, 2, 1] (9 / 10) = some (44 / 5) := by decide +kernel

/-! ## 6. the registry of statistics (regenerated from `Statistics.available_methods`) -/

/-- table fact, re-checked whenever the registry changes: names are unique and every registered
statistic is one the model knows, with the registered `req_feature` flag -/
theorem registry_table :
    ∀ e ∈ registry, registry.lookup e.1 = some e.2 ∧ kindOf e.1 = some e.2 := by
  decide +kernel

theorem featMethod_of_kind (fp : FP) (name : String) (h : kindOf name = some true) :
    ∃ g, featMethod fp name = some g ∧ g [] = none := by
  unfold kindOf at h
  unfold featMethod
  by_cases h1 : name = "Mean"
  · exact ⟨mean, by simp [h1], rfl⟩
  by_cases h2 : name = "Median"
  · exact ⟨median, by simp [h2], rfl⟩
  by_cases h3 : name = "Mode"
  · exact ⟨modeFD fp.cbrt, by simp [h3], rfl⟩
  by_cases h4 : name = "SD"
  · exact ⟨sd fp.sqrt, by simp [h4], rfl⟩
  simp [h1, h2, h3, h4] at h

theorem dsMethod_of_kind (m : List Bool) (flow : Option Rat) (name : String)
    (h : kindOf name = some false) : (dsMethod m flow name).isSome = true := by
  unfold kindOf at h
  unfold dsMethod
  by_cases h1 : name = "Events"
  · simp [h1]
  by_cases h2 : name = "%-gated"
  · simp [h2]
  by_cases h3 : name = "Flow rate"
  · simp [h3]
  simp [h1, h2, h3] at h

/-- a statistic — any registry, any name — never sees the values of excluded events -/
theorem statCall_ignores_excluded (fp : FP) (reg : List (String × Bool)) (name : String)
    (m : List Bool) (flow : Option Rat) (xs ys : List Val) (h : AgreeOn m xs ys) :
    statCall fp reg name true m flow xs = statCall fp reg name true m flow ys := by
  unfold statCall
  split
  · rfl
  · cases featMethod fp name with
    | none => rfl
    | some g => simp only [Option.map_some, stat_ignores_excluded g m xs ys h]
  · rfl

/-- **every registered statistic factors through the selection.**  For each entry of the
regenerated registry: the statistic is modelled; with a feature it is `g (fins (sel m xs))` for a
fixed function `g` of the finite selected values (so excluded events never matter, and no valid
selected event gives nan); without a feature it does not look at feature values at all. -/
theorem registry_factors_through_sel (fp : FP) : ∀ e ∈ registry,
    (e.2 = true → ∃ g : List Rat → Option Rat, g [] = none ∧ ∀ (m : List Bool) (flow : Option Rat)
        (xs : List Val),
        statCall fp registry e.1 true m flow xs = some (g (fins (sel m xs))) ∧
        statCall fp registry e.1 false m flow xs = some (g (fins xs))) ∧
    (e.2 = false → ∀ (en : Bool) (m : List Bool) (flow : Option Rat) (xs ys : List Val),
        (statCall fp registry e.1 en m flow xs).isSome = true ∧
        statCall fp registry e.1 en m flow xs = statCall fp registry e.1 en m flow ys) := by
  intro e he
  obtain ⟨hl, hk⟩ := registry_table e he
  constructor
  · intro h2
    rw [h2] at hl hk
    obtain ⟨g, hg, hg0⟩ := featMethod_of_kind fp e.1 hk
    refine ⟨g, hg0, ?_⟩
    intro m flow xs
    unfold statCall
    simp only [hl, hg, Option.map_some, statFeat, if_true]
    simp
  · intro h2
    rw [h2] at hl hk
    intro en m flow xs ys
    unfold statCall
    simp only [hl]
    refine ⟨dsMethod_of_kind m flow e.1 hk, ?_⟩
    first | rfl | trivial

/-- corollary in the form of the headline: every registered statistic is modelled and two datasets
that agree on the selected events give the same value -/
theorem registry_stat_ignores_excluded (fp : FP) : ∀ e ∈ registry, ∀ (m : List Bool)
    (flow : Option Rat) (xs ys : List Val), AgreeOn m xs ys →
    (statCall fp registry e.1 true m flow xs).isSome = true ∧
    statCall fp registry e.1 true m flow xs = statCall fp registry e.1 true m flow ys := by
  intro e he m flow xs ys h
  refine ⟨?_, statCall_ignores_excluded fp registry e.1 m flow xs ys h⟩
  obtain ⟨h1, h2⟩ := registry_factors_through_sel fp e he
  cases hb : e.2
  · exact (h2 hb true m flow xs xs).1
  · obtain ⟨g, _, hg⟩ := h1 hb
    rw [(hg m flow xs).1]; rfl

/-- the order of `get_statistics(ds)` with `methods=None` for today's registry -/
example : defaultMethods registry
    = ["Events", "%-gated", "Flow rate", "Mean", "Median", "Mode", "SD"] := by decide +kernel

/-! ## 7. `get_statistics`: shape, order, empty selections -/

/-- the whole answer of `get_statistics` (header and values) is the same for two datasets that
agree on the selected events -/
theorem getStatistics_ignores_excluded (fp : FP) (reg : List (String × Bool))
    (methods : Option (List String)) (m : List Bool) (flow : Option Rat)
    (feats feats' : List (String × Option (List Val)))
    (h : AgreeFeats m feats feats') :
    getStatistics fp reg methods feats true m flow
      = getStatistics fp reg methods feats' true m flow := by
  unfold getStatistics
  simp only
  split
  · congr 2
    induction h with
    | nil => rfl
    | @cons a b t t' hab _ ih =>
      simp only [List.flatMap_cons, ih]
      congr 1
      apply List.map_congr_left
      intro mt _
      obtain ⟨hn, hv⟩ := hab
      rcases a with ⟨an, ac⟩
      rcases b with ⟨bn, bc⟩
      simp only at hn hv
      subst hn
      cases ac with
      | none =>
        cases bc with
        | none => rfl
        | some y => exact hv.elim
      | some x =>
        cases bc with
        | none => exact hv.elim
        | some y =>
          simp only
          rw [statCall_ignores_excluded fp reg mt m flow x y hv]
  · rfl

/-- **shape**: the number of entries is `#dataset methods + #features · #feature methods` … -/
theorem getStatistics_length (fp : FP) (reg : List (String × Bool)) (methods : Option (List String))
    (feats : List (String × Option (List Val))) (enable : Bool) (m : List Bool) (flow : Option Rat)
    (out : List Slot) (h : getStatistics fp reg methods feats enable m flow = some out) :
    out.length = (methodsOf reg false (methods.getD (defaultMethods reg))).length
      + feats.length * (methodsOf reg true (methods.getD (defaultMethods reg))).length := by
  unfold getStatistics at h
  simp only at h
  split at h
  · cases h
    simp only [List.length_append, List.length_map]
    congr 1
    induction feats with
    | nil => simp
    | cons a t ih => simp only [List.flatMap_cons, List.length_append, List.length_map, ih,
        List.length_cons, Nat.succ_mul]; omega
  · cases h

/-- … and **order**: the header (method, feature) is a function of the requested methods and
feature names alone — dataset methods first in request order, then feature by feature all feature
methods in request order — whatever the data, the filter and the configuration are -/
theorem getStatistics_header (fp : FP) (reg : List (String × Bool)) (methods : Option (List String))
    (feats : List (String × Option (List Val))) (enable : Bool) (m : List Bool) (flow : Option Rat)
    (out : List Slot) (h : getStatistics fp reg methods feats enable m flow = some out) :
    out.map (fun s => (s.method, s.feature))
      = (methodsOf reg false (methods.getD (defaultMethods reg))).map (fun mt => (mt, none))
        ++ feats.flatMap fun ft =>
          (methodsOf reg true (methods.getD (defaultMethods reg))).map fun mt => (mt, some ft.1) := by
  unfold getStatistics at h
  simp only at h
  split at h
  · cases h
    simp only [List.map_append, List.map_map, List.map_flatMap]
    rfl
  · cases h

/-- **position** of a (feature, method) pair in the answer of `get_statistics` -/
theorem getStatistics_index (fp : FP) (reg : List (String × Bool)) (methods : Option (List String))
    (feats : List (String × Option (List Val))) (enable : Bool) (m : List Bool) (flow : Option Rat)
    (out : List Slot) (h : getStatistics fp reg methods feats enable m flow = some out)
    (i j : Nat) (hi : i < feats.length)
    (hj : j < (methodsOf reg true (methods.getD (defaultMethods reg))).length) :
    out[(methodsOf reg false (methods.getD (defaultMethods reg))).length
        + (i * (methodsOf reg true (methods.getD (defaultMethods reg))).length + j)]?
      = some ⟨(methodsOf reg true (methods.getD (defaultMethods reg)))[j], some feats[i].1,
          match feats[i].2 with
          | some xs => statCall fp reg
              (methodsOf reg true (methods.getD (defaultMethods reg)))[j] enable m flow xs
          | none => some none⟩ := by
  unfold getStatistics at h
  simp only at h
  split at h
  · cases h
    generalize methodsOf reg true (methods.getD (defaultMethods reg)) = fm at hj ⊢
    rw [List.getElem?_append_right (by simp), List.length_map, Nat.add_sub_cancel_left,
      flatMap_const_getElem? _ fm.length (by intro a; simp) feats i j hj]
    simp [List.getElem?_eq_getElem hi, List.getElem?_eq_getElem hj]
    cases feats[i].2 <;> rfl
  · cases h
/-- a request raises (`KeyError`) exactly when a requested method is not registered -/
theorem getStatistics_raises_iff (fp : FP) (reg : List (String × Bool)) (methods : List String)
    (feats : List (String × Option (List Val))) (enable : Bool) (m : List Bool) (flow : Option Rat) :
    getStatistics fp reg (some methods) feats enable m flow = none
      ↔ ∃ mt ∈ methods, reg.lookup mt = none := by
  unfold getStatistics
  simp only [Option.getD_some]
  split
  · rename_i hall
    simp only [reduceCtorEq, false_iff]
    rintro ⟨mt, hm, hn⟩
    have := List.all_eq_true.mp hall mt hm
    simp [hn] at this
  · rename_i hall
    simp only [true_iff]
    rw [Bool.not_eq_true, List.all_eq_false] at hall
    obtain ⟨mt, hm, hn⟩ := hall
    exact ⟨mt, hm, by cases hl : reg.lookup mt <;> simp_all⟩

/-- **empty selection**: when the filter selects no event, every registered feature statistic is
nan, "Events" is 0 and "%-gated" is 0 (dataset with at least one event) -/
theorem empty_selection (fp : FP) (m : List Bool) (hm : countTrue m = 0) (hne : m ≠ []) :
    (∀ e ∈ registry, e.2 = true → ∀ (flow : Option Rat) (xs : List Val),
      statCall fp registry e.1 true m flow xs = some none) ∧
    (∀ flow xs, statCall fp registry "Events" true m flow xs = some (some 0)) ∧
    (∀ flow xs, statCall fp registry "%-gated" true m flow xs = some (some 0)) := by
  have hsel : ∀ xs : List Val, sel m xs = [] := by
    intro xs
    have := sel_length_le m xs
    rw [hm] at this
    exact List.eq_nil_of_length_eq_zero (by omega)
  have hemp : m.isEmpty = false := by cases m <;> simp_all
  refine ⟨?_, ?_, ?_⟩
  · intro e he h2 flow xs
    obtain ⟨g, hg0, hg⟩ := (registry_factors_through_sel fp e he).1 h2
    rw [(hg m flow xs).1, hsel xs]
    simp [fins, hg0]
  · intro flow xs
    have : registry.lookup "Events" = some false := by decide +kernel
    simp [statCall, this, dsMethod, events, hm, hemp]
  · intro flow xs
    have : registry.lookup "%-gated" = some false := by decide +kernel
    simp [statCall, this, dsMethod, gated, hm, hemp]
    rw [Rat.div_def, Rat.zero_mul, Rat.zero_mul]

example : getStatistics ⟨id, fun _ => 1⟩ registry (some ["Mean", "Events", "Median"])
    [("deform", some [.fin 1, .fin 100, .nan, .fin 4]), ("area_um", none)] true
    [true, false, true, true] (some (1 / 25))
    = some [⟨"Events", none, some (some 3)⟩,
            ⟨"Mean", some "deform", some (some (5 / 2))⟩, ⟨"Median", some "deform", some (some (5 / 2))⟩,
            ⟨"Mean", some "area_um", some none⟩, ⟨"Median", some "area_um", some none⟩] := by
  decide +kernel

example : getStatistics ⟨id, fun _ => 1⟩ registry (some ["Mean", "Bogus"]) [] true [true] none
    = none := by decide +kernel

/-! ## 5. scale -/

/-- the logarithmic scale is applied element-wise, so scaling and selecting commute -/
theorem log_scale_commutes (lg : Val → Val) (sc : Scale) (m : List Bool) (xs : List Val) :
    applyScale lg sc (sel m xs) = sel m (applyScale lg sc xs) := by
  cases sc
  · rfl
  · simp only [applyScale]; exact (sel_map lg m xs).symm

/-! ## non-vacuity -/

example : AgreeOn [true, false, true] [.fin 1, .nan, .fin 3] [.fin 1, .pinf, .fin 3] := by
  refine ⟨rfl, ?_⟩
  intro i h1 h2 hm
  match i, h1 with
  | 0, _ => rfl
  | 1, _ => simp at hm
  | 2, _ => rfl

example : statFeat mean true [true, false, true, true] [.fin 1, .fin 100, .nan, .fin 4]
    = some (5 / 2) := by decide +kernel

example : histCounts (binOf (edgesUniform 0 10 5)) 5 [0, 1, 2, 4, 10, 5] = [2, 1, 2, 0, 1] := by
  decide +kernel

end DclabModel.C12
