import DclabModel.Lemmas.Stats
/-!
# C12 — Statistics and density estimates are computed from exactly the filtered events

Model: `Model/Stats.lean` (`Val := nan | ninf | pinf | fin q`, every entry point has the shape
`post ∘ g ∘ purge ∘ scale ∘ sel`).  Floating-point estimators (`g`) are parameters: the theorems
hold for *every* estimator, so they say that the data handed to the estimator are exactly the
selected (scaled, purged) events.  Equality of dclab's estimators with the reference estimators
is correspondence-only (harness part c).

* `sel_congr`, `entry_ignores_excluded`, `entry_eq_on_subset` and their instances for every
  entry point: excluded events — whatever their values — never influence a result, and a result
  on a filtered dataset equals the result on the dataset of the selected events;
* `purge_then_stat`, `events_gated`;
* `bin_centres_are_midpoints`, `hist_counts_permutation_invariant`, `hist_total`;
* `percentile_splits_partial` (+ `percentile_splits_full_is_false`);
* `log_scale_commutes`.
-/
namespace DclabModel.C12
open DclabModel.Stats
open DclabModel.Export (sel countTrue tsvRows lookupAll tsvFeats Src Feat)

/-! ## 1. excluded events never matter -/

/-- rows of excluded events are irrelevant for the selection -/
theorem sel_congr {α : Type} (m : List Bool) (xs ys : List α) (hl : xs.length = ys.length)
    (h : ∀ i (h1 : i < xs.length) (h2 : i < ys.length), m.getD i false = true → xs[i] = ys[i]) :
    sel m xs = sel m ys :=
  DclabModel.Export.sel_congr m xs ys hl h

/-- **every entry point** (any number of columns, any scales, any estimator / post-processing
`F`): two datasets that agree on the selected events give the same result — the values of
excluded events (NaN, inf, anything) never influence it -/
theorem entry_ignores_excluded {β : Type} (F : List (List Val) → β) (lg : Val → Val)
    (scs : List Scale) (m : List Bool) (cols cols' : List (List Val))
    (h : AgreeAll m cols cols') :
    entry F lg scs m cols = entry F lg scs m cols' := by
  unfold entry
  rw [view_congr lg m cols cols' scs h]

/-- **every entry point**: the result on the filtered dataset is the result on the dataset that
contains the selected events only (with an all-True filter) -/
theorem entry_eq_on_subset {β : Type} (F : List (List Val) → β) (lg : Val → Val)
    (scs : List Scale) (m : List Bool) (cols : List (List Val)) :
    entry F lg scs m cols = entry F lg scs (allTrue (countTrue m)) (sub m cols) := by
  unfold entry
  rw [view_sub lg m (countTrue m) (Nat.le_refl _)]

/-- statistics of one feature (`Statistics.get_feature` + any method `g`) -/
theorem stat_ignores_excluded {β : Type} (g : List Rat → Option β) (m : List Bool)
    (xs ys : List Val) (h : AgreeOn m xs ys) :
    statFeat g true m xs = statFeat g true m ys := by
  unfold statFeat
  simp only [if_true]
  rw [DclabModel.Export.sel_congr m xs ys h.1 h.2]

theorem stat_eq_on_subset {β : Type} (g : List Rat → Option β) (m : List Bool) (xs : List Val) :
    statFeat g true m xs = statFeat g true (allTrue (countTrue m)) (sel m xs) ∧
    statFeat g true m xs = statFeat g false [] (sel m xs) := by
  unfold statFeat
  simp only [if_true, sel_allTrue_sel m xs _ (Nat.le_refl _)]
  simp

/-- with filtering disabled all events are used, whatever the filter array says -/
theorem stat_filter_disabled {β : Type} (g : List Rat → Option β) (m m' : List Bool)
    (xs : List Val) : statFeat g false m xs = statFeat g false m' xs := rfl

/-- scatter KDE (`get_kde_scatter`), any estimator -/
theorem kdeScatter_ignores_excluded (g : List (Rat × Rat) → List Val) (lg : Val → Val)
    (sx sy : Scale) (m : List Bool) (x y x' y' : List Val)
    (hx : AgreeOn m x x') (hy : AgreeOn m y y') :
    kdeScatter g lg sx sy m x y = kdeScatter g lg sx sy m x' y' :=
  entry_ignores_excluded _ lg _ m _ _ (.cons hx (.cons hy .nil))

theorem kdeScatter_eq_on_subset (g : List (Rat × Rat) → List Val) (lg : Val → Val)
    (sx sy : Scale) (m : List Bool) (x y : List Val) :
    kdeScatter g lg sx sy m x y
      = kdeScatter g lg sx sy (allTrue (countTrue m)) (sel m x) (sel m y) :=
  entry_eq_on_subset _ lg _ m [x, y]

/-- contour KDE (`get_kde_contour`: spacing, grid, density), any estimator -/
theorem kdeContour_ignores_excluded {β : Type} (G : List Val → List Val → β) (lg : Val → Val)
    (sx sy : Scale) (m : List Bool) (x y x' y' : List Val)
    (hx : AgreeOn m x x') (hy : AgreeOn m y y') :
    kdeContour G lg sx sy m x y = kdeContour G lg sx sy m x' y' :=
  entry_ignores_excluded _ lg _ m _ _ (.cons hx (.cons hy .nil))

theorem kdeContour_eq_on_subset {β : Type} (G : List Val → List Val → β) (lg : Val → Val)
    (sx sy : Scale) (m : List Bool) (x y : List Val) :
    kdeContour G lg sx sy m x y
      = kdeContour G lg sx sy (allTrue (countTrue m)) (sel m x) (sel m y) :=
  entry_eq_on_subset _ lg _ m [x, y]

/-- downsampled scatter (`get_downsampled_scatter`), any downsampling rule -/
theorem downsampled_ignores_excluded (dsmp : List Val → List Val → List Bool) (lg : Val → Val)
    (sx sy : Scale) (m : List Bool) (x y x' y' : List Val)
    (hx : AgreeOn m x x') (hy : AgreeOn m y y') :
    downsampled dsmp lg sx sy m x y = downsampled dsmp lg sx sy m x' y' := by
  unfold downsampled
  rw [entry_ignores_excluded _ lg _ m [x, y] [x', y'] (.cons hx (.cons hy .nil)),
    DclabModel.Export.sel_congr m x x' hx.1 hx.2, DclabModel.Export.sel_congr m y y' hy.1 hy.2]

theorem downsampled_eq_on_subset (dsmp : List Val → List Val → List Bool) (lg : Val → Val)
    (sx sy : Scale) (m : List Bool) (x y : List Val) :
    downsampled dsmp lg sx sy m x y
      = downsampled dsmp lg sx sy (allTrue (countTrue m)) (sel m x) (sel m y) := by
  unfold downsampled
  rw [entry_eq_on_subset _ lg _ m [x, y]]
  simp only [sub, List.map_cons, List.map_nil, sel_allTrue_sel m _ _ (Nat.le_refl _)]

/-- quantile levels: the events handed to `get_quantile_levels` are the selected ones -/
theorem quantile_ignores_excluded (dens : Rat × Rat → Val) (m : List Bool)
    (x y x' y' : List Val) (hx : AgreeOn m x x') (hy : AgreeOn m y y') (q : Rat) :
    quantileLevel dens (sel m x) (sel m y) q = quantileLevel dens (sel m x') (sel m y') q := by
  rw [DclabModel.Export.sel_congr m x x' hx.1 hx.2, DclabModel.Export.sel_congr m y y' hy.1 hy.2]

/-- filtered text export: the rows only depend on the selected events -/
theorem tsv_ignores_excluded (src src' : Src Val) (mask : List Bool) (feats : List String)
    (fts fts' : List (Feat Val))
    (hl : lookupAll src (tsvFeats feats) = some fts)
    (hl' : lookupAll src' (tsvFeats feats) = some fts')
    (hk : fts.map (·.kind) = fts'.map (·.kind))
    (hsel : fts.map (fun ft => sel mask ft.rows) = fts'.map (fun ft => sel mask ft.rows)) :
    tsvRows src true mask feats = tsvRows src' true mask feats := by
  unfold tsvRows
  simp only [hl, hl', if_true]
  have hall : fts.all (fun ft => decide (ft.kind = .scalar))
      = fts'.all (fun ft => decide (ft.kind = .scalar)) := by
    have h1 : ∀ l : List (Feat Val), l.all (fun ft => decide (ft.kind = .scalar))
        = (l.map (·.kind)).all (fun k => decide (k = .scalar)) := by
      intro l; rw [List.all_map]; rfl
    rw [h1 fts, h1 fts', hk]
  rw [hall, hsel]

/-! ## 2. purge -/

/-- statistics use exactly the finite selected values: purging first changes nothing, and
invalid values among the selected events are ignored -/
theorem purge_then_stat {β : Type} (g : List Rat → Option β) (m : List Bool) (xs : List Val) :
    statFeat g true m xs = g (fins (purge (sel m xs))) ∧
    (∀ (a b : List Val) (v : Val), v.isBad = true → fins (a ++ v :: b) = fins (a ++ b)) := by
  constructor
  · unfold statFeat; simp only [if_true, fins_purge]
  · intro a b v hv
    rw [fins_append, fins_append]
    cases v <;> simp_all [fins, Val.isBad]

/-- "Events" is the number of selected events of any column, "%-gated" their share -/
theorem events_gated (m : List Bool) (xs : List Val) (h : m.length ≤ xs.length) :
    events m = (sel m xs).length ∧
    (m ≠ [] → gated m = some (((sel m xs).length : Rat) / (m.length : Rat) * 100)) := by
  have hl := sel_length_eq m xs h
  constructor
  · unfold events; exact hl.symm
  · intro hm
    unfold gated
    have : m.isEmpty = false := by cases m <;> simp_all
    simp only [this, Bool.false_eq_true, if_false, hl]

/-- the density of an event-wise KDE is reported at exactly the valid events; invalid events
get nan -/
theorem kde_nan_positions (g : List (Rat × Rat) → List Val) :
    ∀ (xs ys : List Val), (kdeAtEvents g xs ys).length = (badPairs xs ys).length := by
  intro xs ys
  unfold kdeAtEvents
  generalize g (goodPairs xs ys) = vs
  generalize badPairs xs ys = bs
  induction bs generalizing vs with
  | nil => rfl
  | cons b t ih =>
    cases b
    · cases vs <;> simp [scatterBack, ih]
    · simp [scatterBack, ih]

/-! ## 3. histograms -/

/-- `xedges[1:] - (xedges[1] - xedges[0]) / 2` are the bin midpoints for uniform edges -/
theorem bin_centres_are_midpoints (lo hi : Rat) (nb : Nat) (hnb : 1 ≤ nb) (i : Nat) (hi' : i < nb) :
    (centres (edgesUniform lo hi nb))[i]? =
      some (((lo + (i : Rat) * ((hi - lo) / (nb : Rat)))
        + (lo + ((i + 1 : Nat) : Rat) * ((hi - lo) / (nb : Rat)))) / 2) := by
  unfold centres edgesUniform
  have h0 : ((List.range (nb + 1)).map fun (i : Nat) => lo + (i : Rat) * ((hi - lo) / (nb : Rat))).getD 0 0
      = lo + ((0 : Nat) : Rat) * ((hi - lo) / (nb : Rat)) := by
    simp [List.getD_eq_getElem?_getD]
  have h1 : ((List.range (nb + 1)).map fun (i : Nat) => lo + (i : Rat) * ((hi - lo) / (nb : Rat))).getD 1 0
      = lo + ((1 : Nat) : Rat) * ((hi - lo) / (nb : Rat)) := by
    have hr1 : (List.range (nb + 1))[1]? = some 1 := by
      rw [List.getElem?_range]; omega
    rw [List.getD_eq_getElem?_getD, List.getElem?_map, hr1]
    rfl
  rw [h0, h1]
  simp only [List.getElem?_map, List.getElem?_drop]
  have hr : (List.range (nb + 1))[1 + i]? = some (1 + i) := by
    rw [List.getElem?_range]; omega
  rw [hr]
  simp only [Option.map_some, Option.some.injEq]
  have e1 : ((1 + i : Nat) : Rat) = 1 + (i : Rat) := by simp [Rat.natCast_add]
  have e2 : ((i + 1 : Nat) : Rat) = (i : Rat) + 1 := by simp [Rat.natCast_add]
  rw [e1, e2]
  simp
  grind

/-- histogram counts do not depend on the order of the events -/
theorem hist_counts_permutation_invariant {α : Type} (f : α → Nat) (nb : Nat) (d d' : List α)
    (h : d.Perm d') : histCounts f nb d = histCounts f nb d' := by
  unfold histCounts
  apply List.map_congr_left
  intro i _
  exact h.countP_eq _

/-- every event is counted exactly once -/
theorem hist_total {α : Type} (f : α → Nat) (nb : Nat) (d : List α) (h : ∀ x ∈ d, f x < nb) :
    (histCounts f nb d).sum = d.length := by
  rw [hist_prefix_sum, List.countP_eq_length]
  intro x hx
  simpa using h x hx

/-- … in particular for the bin assignment of `np.histogram` (interior edges `≤ x`), 1-d and 2-d -/
theorem hist_total_edges (edges : List Rat) (h : 2 ≤ edges.length) (d : List Rat) :
    (histCounts (binOf edges) (edges.length - 1) d).sum = d.length :=
  hist_total _ _ _ (fun x _ => binOf_lt edges h x)

theorem hist2_total (ex ey : List Rat) (hx : 2 ≤ ex.length) (hy : 2 ≤ ey.length)
    (d : List (Rat × Rat)) :
    (histCounts (bin2 ex ey) ((ex.length - 1) * (ey.length - 1)) d).sum = d.length := by
  apply hist_total
  intro p _
  unfold bin2
  have h1 := binOf_lt ex hx p.1
  have h2 := binOf_lt ey hy p.2
  calc binOf ex p.1 * (ey.length - 1) + binOf ey p.2
      < binOf ex p.1 * (ey.length - 1) + (ey.length - 1) := by omega
    _ = (binOf ex p.1 + 1) * (ey.length - 1) := by rw [Nat.succ_mul]
    _ ≤ (ex.length - 1) * (ey.length - 1) := Nat.mul_le_mul_right _ (by omega)

/-! ## 4. percentiles -/

/-- **the level for quantile `q` splits the events at `q`, up to one event.**
For `0 ≤ q ≤ 1` and `L = percentile d q` (NumPy's linear rule), with `n = len(d)`:
`#{x < L} − 1 ≤ q·(n−1) < #{x ≤ L}`.

The statement planned in DESIGN.md, `#{x < L}/n ≤ q ≤ #{x ≤ L}/n`, is **false** for the linear
rule (`percentile_splits_full_is_false`: two events, `q = 9/10`): interpolation between order
statistics places the level strictly between two events, so the fractions can only bracket `q`
up to `1/n`. -/
theorem percentile_splits_partial (d : List Rat) (hd : d ≠ []) (q : Rat) (h0 : 0 ≤ q) (h1 : q ≤ 1)
    (L : Rat) (hL : percentile d q = some L) :
    ((d.countP (fun x => decide (x < L)) : Nat) : Rat) ≤ q * ((d.length : Rat) - 1) + 1 ∧
    q * ((d.length : Rat) - 1) < ((d.countP (fun x => decide (x ≤ L)) : Nat) : Rat) :=
  percentile_bounds d hd q h0 h1 L hL

/-- the same for the density level reported for a quantile (`get_quantile_levels`) -/
theorem quantile_level_splits_partial (dens : Rat × Rat → Val) (xs ys : List Val) (q : Rat)
    (h0 : 0 ≤ q) (h1 : q ≤ 1) (L : Rat) (hL : quantileLevel dens xs ys q = some L) :
    let dp := fins ((goodPairs xs ys).map dens)
    ((dp.countP (fun x => decide (x < L)) : Nat) : Rat) ≤ q * ((dp.length : Rat) - 1) + 1 ∧
    q * ((dp.length : Rat) - 1) < ((dp.countP (fun x => decide (x ≤ L)) : Nat) : Rat) := by
  intro dp
  have hne : dp ≠ [] := by
    intro h
    unfold quantileLevel percentile at hL
    simp only [show fins ((goodPairs xs ys).map dens) = dp from rfl, h, List.isEmpty_nil,
      if_true] at hL
    cases hL
  exact percentile_bounds dp hne q h0 h1 L hL

/-- witness: `#{x ≤ L}/n ≥ q` fails for `d = [0, 10]`, `q = 9/10` (`L = 9`, one of two events) -/
theorem percentile_splits_full_is_false :
    percentile [0, 10] (9 / 10) = some 9 ∧
    ¬ ((9 : Rat) / 10 ≤ (([0, 10] : List Rat).countP (fun x => decide (x ≤ 9)) : Rat) / 2) := by
  decide +kernel

/-- when `q·(n−1)` is an integer no interpolation takes place and the level is an event value
(example) -/
example : percentile [3, 1, 2, 10, 7] (1 / 2) = some 3 := by decide +kernel

/-! ## 5. scale -/

/-- the logarithmic scale is applied element-wise, so scaling and selecting commute -/
theorem log_scale_commutes (lg : Val → Val) (sc : Scale) (m : List Bool) (xs : List Val) :
    applyScale lg sc (sel m xs) = sel m (applyScale lg sc xs) := by
  cases sc
  · rfl
  · simp only [applyScale]; exact (sel_map lg m xs).symm

/-! ## non-vacuity -/

example : AgreeOn [true, false, true] [.fin 1, .nan, .fin 3] [.fin 1, .pinf, .fin 3] := by
  refine ⟨rfl, ?_⟩
  intro i h1 h2 hm
  match i, h1 with
  | 0, _ => rfl
  | 1, _ => simp at hm
  | 2, _ => rfl

example : statFeat mean true [true, false, true, true] [.fin 1, .fin 100, .nan, .fin 4]
    = some (5 / 2) := by decide +kernel

example : histCounts (binOf (edgesUniform 0 10 5)) 5 [0, 1, 2, 4, 10, 5] = [2, 1, 2, 0, 1] := by
  decide +kernel

end DclabModel.C12
