import DclabModel.Lemmas.Check
import DclabModel.Lemmas.CheckLevels
/-!
# C13 — The integrity checker accepts dclab's own output and flags real inconsistencies

* tables (regenerated `Gen/CheckTable.lean`): `table_ok`, `pinned_keys_mandatory`,
  `valid_choices_empty`;
* closure: `clean_of_guarantees'`, `writer_output_clean` — the description of a file produced by
  the writer from a well-formed history with complete metadata has no violation;
* `writer_history_index_enumerates`, `writer_history_clean` (append / re-open / replace-mode
  histories; `stale_offset_breaks_index_witness`), `export_subset_clean`,
  `export_without_features_clean` (`has_fluorescence` follows the features, not the metadata
  section; `partial_channel_subset_witness` = F30, open);
* detection, one theorem per cue, each for an arbitrary rest of the description:
  `detect_feature_length`, `detect_trace_length`, `detect_roi_mismatch` (every image-like feature;
  `roi_every_image_like_feature_witness`), `detect_unknown_feature`,
  `detect_missing_key`, `detect_index`, `detect_channel_count`, `detect_laser_count`,
  `detect_samples_per_event`, `detect_external_link`, `detect_non_positive`,
  `detect_polygon_shape`, `detect_basin_data`;
* copies: `same_violations_after_copy_partial` (guards: no unknown feature — F23 —, no external
  link), `unknown_feature_copy_witness`, `compress_violations`, `compress_same_violations_partial`;
* F13: `index_length_mismatch_is_cue` with `old_index_check_raised_witness`;
* `exit_code_table`;
* session 4 — size independence: `index_check_exact`, `index_cue_exact`, `feature_size_cue_exact`,
  `skipped_event_number_detected`, `tolerant_index_check_misses_late_skip` (variant witness, all
  positions ≥ 100000), `zero_event_count_detected`, `lenient_length_hides_zero_count_witness`;
  cue levels: `violation_missing_key_mandatory`, `alert_missing_key_not_mandatory`,
  `missing_key_levels_exclusive`, `mandatory_missing_never_alert`, `empty_dataset_alert`,
  `exit_status_reports_violations`; writer closure of copies and exports:
  `copy_violations_subset`, `copy_output_clean`, `export_output_clean`,
  `export_partial_channels_witness` (F30).
-/
namespace DclabModel.C13
open DclabModel.Check DclabModel.Gen.CheckTable

/-! ## 0. tables -/

/-- every important key (with and without fluorescence) lies in an investigated section, is
    listed in `dfn.config_keys` (so the loop reaches it) and is not shadowed by `OPTIONAL_KEYS` -/
theorem table_ok : tableOk true = true ∧ tableOk false = true := by decide

/-- no key that was mandatory when the property was written has left the regenerated tables -/
theorem pinned_keys_mandatory :
    (pinnedKeys.all fun p => (keysOf (important false) p.1).contains p.2) = true ∧
    ((pinnedKeys ++ pinnedKeysFl).all fun p => (keysOf (important true) p.1).contains p.2) = true := by
  decide

/-- the model has no branch for `VALID_CHOICES`, which is empty -/
theorem valid_choices_empty : validChoicesCount = 0 := by decide

/-! ## 1. detection -/

theorem detect_feature_length (d : D) (f : String) (l : Nat) (hf : (f, l) ∈ d.events)
    (hl : l ≠ lends (cfgGet d.cfg) d) : Cue.featSize f ∈ violations d := by
  rw [mem_violations]
  refine Or.inr (Or.inr (Or.inr (Or.inl ?_)))
  simp only [vSize, List.mem_append, List.mem_map, List.mem_filter]
  exact Or.inl ⟨(f, l), ⟨hf, by simpa using hl⟩, rfl⟩

theorem detect_trace_length (d : D) (t : String) (l w : Nat) (ht : (t, l, w) ∈ d.traces)
    (hl : l ≠ lends (cfgGet d.cfg) d) : Cue.traceSize t ∈ violations d := by
  rw [mem_violations]
  refine Or.inr (Or.inr (Or.inr (Or.inl ?_)))
  simp only [vSize, List.mem_append, List.mem_map, List.mem_filter]
  exact Or.inr ⟨(t, l, w), ⟨ht, by simpa using hl⟩, rfl⟩

/-- image height ≠ `roi size y` or width ≠ `roi size x` (both keys present) -/
theorem detect_roi_mismatch (d : D) (f : String) (h w : Nat) (vx vy : Val)
    (hx : cfgGet d.cfg ("imaging", "roi size x") = some vx)
    (hy : cfgGet d.cfg ("imaging", "roi size y") = some vy)
    (hi : (f, h, w) ∈ d.images) :
    (isNat vy h = false → Cue.roiMismatch "roi size y" f ∈ violations d) ∧
    (isNat vx w = false → Cue.roiMismatch "roi size x" f ∈ violations d) := by
  constructor <;> intro hne <;> rw [mem_violations] <;>
    refine Or.inr (Or.inr (Or.inr (Or.inr (Or.inr (Or.inr (Or.inl ?_)))))) <;>
    simp only [vRoi, hx, hy, List.mem_append, List.mem_map, List.mem_filter]
  · exact Or.inl ⟨(f, h, w), ⟨hi, by simp [hne]⟩, rfl⟩
  · exact Or.inr ⟨(f, h, w), ⟨hi, by simp [hne]⟩, rfl⟩

/-- the ROI check looks at **every** image-like feature: a `mask` (or `image_bg`) of the wrong
    size is flagged although `image` matches; stopping at the first present feature misses it -/
theorem roi_every_image_like_feature_witness :
    let d : D := { cfg := [(("imaging", "roi size x"), natVal 16), (("imaging", "roi size y"), natVal 12)],
                   images := [("image", 12, 16), ("image_bg", 12, 16), ("mask", 12, 17)] }
    Cue.roiMismatch "roi size x" "mask" ∈ violations d ∧ vRoiFirstOnly (cfgGet d.cfg) d = [] := by
  decide

theorem detect_unknown_feature (d : D) (f : String) (hf : (f, false) ∈ d.h5events)
    (hdef : f ≠ "def") : Cue.unknownFeature f ∈ violations d := by
  rw [mem_violations]
  refine Or.inr (Or.inr (Or.inr (Or.inr (Or.inl ?_))))
  simp only [vUnknown, List.mem_map, List.mem_filter]
  exact ⟨(f, false), ⟨hf, by simpa using hdef⟩, rfl⟩

/-- a missing mandatory key is reported — as the key, or as its whole section when no key of
    the section is present -/
theorem detect_missing_key (d : D) (sec : String) (ks : List String) (k : String)
    (hs : (sec, ks) ∈ important (hasFl d)) (hk : k ∈ ks)
    (hmiss : cfgGet d.cfg (sec, k) = none) :
    Cue.missingKey sec k ∈ violations d ∨ Cue.missingSection sec ∈ violations d := by
  have htab : tableOk (hasFl d) = true := by
    cases hasFl d
    · exact table_ok.2
    · exact table_ok.1
  simp only [tableOk, List.all_eq_true, Bool.and_eq_true, beq_iff_eq, Bool.not_eq_true'] at htab
  obtain ⟨⟨hsec, hkeys⟩, hall⟩ := htab (sec, ks) hs
  obtain ⟨hck, hopt⟩ := hall k hk
  rw [List.contains_iff_mem] at hsec hck
  have himp : (keysOf (important (hasFl d)) sec).contains k = true := by
    rw [hkeys, List.contains_iff_mem]; exact hk
  cases hp : sectionPresent (cfgGet d.cfg) sec with
  | false =>
    right
    rw [mem_violations]
    refine Or.inr (Or.inr (Or.inr (Or.inr (Or.inr (Or.inr (Or.inr (Or.inr (Or.inr (Or.inl ?_)))))))))
    simp only [vMissing, List.mem_flatMap]
    refine ⟨sec, hsec, ?_⟩
    simp [hp]
    exact ⟨ks, hs⟩
  | true =>
    left
    rw [mem_violations]
    refine Or.inr (Or.inr (Or.inr (Or.inr (Or.inr (Or.inr (Or.inr (Or.inr (Or.inr (Or.inl ?_)))))))))
    simp only [vMissing, List.mem_flatMap]
    refine ⟨sec, hsec, ?_⟩
    simp only [hp, Bool.not_true, Bool.false_eq_true, if_false, List.mem_map, List.mem_filter]
    have hopt' : k ∉ keysOf optionalKeys sec := by simpa using hopt
    have himp' : k ∈ keysOf (important (hasFl d)) sec := by simpa using himp
    exact ⟨k, ⟨hck, by simp [hmiss, hopt', himp']⟩, rfl⟩

theorem detect_index (d : D) (xs : List Nat) (hi : d.index = some xs)
    (hne : xs ≠ List.range' 1 (lends (cfgGet d.cfg) d)) :
    Cue.indexNotEnumerated ∈ violations d := by
  rw [mem_violations]
  refine Or.inr (Or.inr (Or.inl ?_))
  simp [vIndex, hi, hne]

/-- F13 (repaired): an index whose length differs from the event count is reported … -/
theorem index_length_mismatch_is_cue (d : D) (xs : List Nat) (hi : d.index = some xs)
    (hl : xs.length ≠ lends (cfgGet d.cfg) d) : Cue.indexNotEnumerated ∈ violations d := by
  apply detect_index d xs hi
  intro h
  apply hl
  rw [h]; simp

/-- … where the code before the repair raised `ValueError` (7 stored rows, event count 9) -/
theorem old_index_check_raised_witness :
    indexCheckRaisedOld
      (cfgGet [(("experiment", "event count"), natVal 9)])
      { index := some [1, 2, 3, 4, 5, 6, 7] } = true := by decide

theorem detect_channel_count (d : D) (v : Val) (hfl : hasFl d = true)
    (hv : cfgGet d.cfg ("fluorescence", "channel count") = some v)
    (hne : isNat v (channelsFound (cfgGet d.cfg) d) = false) :
    Cue.channelCount ∈ violations d := by
  rw [mem_violations]
  refine Or.inr (Or.inr (Or.inr (Or.inr (Or.inr (Or.inl ?_)))))
  simp [vFl, hfl, hv, hne]

theorem detect_laser_count (d : D) (v : Val) (hfl : hasFl d = true)
    (hv : cfgGet d.cfg ("fluorescence", "laser count") = some v)
    (hne : isNat v (lasersFound (cfgGet d.cfg)) = false) :
    Cue.laserCount ∈ violations d := by
  rw [mem_violations]
  refine Or.inr (Or.inr (Or.inr (Or.inr (Or.inr (Or.inl ?_)))))
  simp [vFl, hfl, hv, hne]

theorem detect_samples_per_event (d : D) (v : Val) (t : String) (l w : Nat)
    (hfl : hasFl d = true)
    (hv : cfgGet d.cfg ("fluorescence", "samples per event") = some v)
    (ht : (t, l, w) ∈ d.traces) (hne : isNat v w = false) :
    Cue.samplesPerEvent t ∈ violations d := by
  rw [mem_violations]
  refine Or.inr (Or.inr (Or.inr (Or.inr (Or.inr (Or.inl ?_)))))
  simp only [vFl, hfl, hv, Bool.not_true, Bool.false_eq_true, if_false, List.mem_append,
    List.mem_map, List.mem_filter]
  exact Or.inr ⟨(t, l, w), ⟨ht, by simp [hne]⟩, rfl⟩

theorem detect_external_link (d : D) (h : d.external = true) :
    Cue.externalLink ∈ violations d := by
  rw [mem_violations]
  exact Or.inr (Or.inl (by simp [vExternal, h]))

theorem detect_non_positive (d : D) (k : Key) (v : Val) (hk : k ∈ positiveKeys)
    (hv : cfgGet d.cfg k = some v) (hle : leZero v = true) :
    Cue.nonPositive k.1 k.2 ∈ violations d := by
  rw [mem_violations]
  refine Or.inr (Or.inr (Or.inr (Or.inr (Or.inr (Or.inr (Or.inr (Or.inl ?_)))))))
  simp only [vPositive, List.mem_map, List.mem_filter]
  exact ⟨k, ⟨hk, by simp [hv, hle]⟩, rfl⟩

theorem detect_polygon_shape (d : D) (key : String) (r c : Nat) (hp : (key, r, c) ∈ d.polygons)
    (hbad : c ≠ 2 ∨ r < 3) : Cue.polygonShape key ∈ violations d := by
  rw [mem_violations]
  refine Or.inr (Or.inr (Or.inr (Or.inr (Or.inr (Or.inr (Or.inr (Or.inr (Or.inl ?_))))))))
  simp only [vPolygon, List.mem_map, List.mem_filter]
  refine ⟨(key, r, c), ⟨hp, ?_⟩, rfl⟩
  rcases hbad with h | h <;> simp [h]

theorem detect_basin_data (d : D) (b : BasinD) (hb : b ∈ d.basins) (hc : b.commonPath = true) :
    (d.basinEvents = none → Cue.basinGroupMissing ∈ violations d) ∧
    (∀ names f, d.basinEvents = some names → f ∈ b.feats → names.contains f = false →
      Cue.basinFeatMissing f ∈ violations d) := by
  constructor
  · intro hn
    rw [mem_violations]
    refine Or.inl ?_
    simp only [vBasin, List.mem_flatMap]
    exact ⟨b, hb, by simp [hc, hn]⟩
  · intro names f hn hf hnot
    rw [mem_violations]
    refine Or.inl ?_
    simp only [vBasin, List.mem_flatMap]
    refine ⟨b, hb, ?_⟩
    simp only [hc, Bool.not_true, Bool.false_eq_true, if_false, hn, List.mem_map, List.mem_filter]
    have hnot' : f ∉ names := by simpa using hnot
    exact ⟨f, ⟨hf, by simp [hnot']⟩, rfl⟩

/-- F36 (open): a file without `event count` and without any non-empty feature cannot be
    sized — the checker raises instead of reporting the missing key; every description with an
    event count or a non-empty feature is sized -/
theorem size_undetermined_witness :
    sizeUndetermined (cfgGet []) { lenOrder := [0, 0] } = true ∧
    sizeUndetermined (cfgGet []) { lenOrder := [0, 7] } = false ∧
    sizeUndetermined (cfgGet [(("experiment", "event count"), natVal 0)]) {} = false := by decide

/-! ## 2. closure -/

/-- whatever description satisfies the consistency facts of `Guarantees` (lengths equal the
    event count, index enumerates, ROI equals the image shape, counts agree, mandatory metadata
    present and positive, …) has no violation -/
theorem clean_of_guarantees' (d : D) (g : Guarantees d) : violations d = [] :=
  clean_of_guarantees d g

/-- **closure**: the file left behind by the writer (any number of events, any set of scalar
    features, optional index / image / traces; `rectify_metadata` applied on exit) from
    complete metadata has no violation.  The structural facts — all lengths equal the event
    count, the index enumerates, ROI = image shape, samples per event = trace width, channel
    count = number of stored fluorescence channels, no unknown feature, no external link — are
    derived from the writer model (`writer_guarantees`), not assumed. -/
theorem writer_output_clean (w : Written) (hm : CompleteMeta w) : violations (writerD w) = [] :=
  clean_of_guarantees _ (writer_guarantees w hm)

/-- non-vacuity: a fluorescence measurement with image and traces -/
example : violations (writerD
    { n := 5, scalars := ["deform", "fl1_max"], storeIndex := true, image := some (12, 16),
      traces := ["fl1_raw"], traceWidth := 9,
      userCfg := [(("experiment", "date"), none), (("experiment", "run index"), natVal 1),
        (("experiment", "sample"), none), (("experiment", "time"), none),
        (("imaging", "flash device"), none), (("imaging", "flash duration"), natVal 2),
        (("imaging", "frame rate"), natVal 2000), (("imaging", "pixel size"), some (34, 100)),
        (("imaging", "roi position x"), natVal 1), (("imaging", "roi position y"), natVal 1),
        (("setup", "channel width"), natVal 20), (("setup", "chip region"), none),
        (("setup", "flow rate"), some (4, 100)), (("setup", "medium"), none),
        (("fluorescence", "bit depth"), natVal 16), (("fluorescence", "channels installed"), natVal 3),
        (("fluorescence", "laser count"), natVal 1), (("fluorescence", "lasers installed"), natVal 3),
        (("fluorescence", "sample rate"), natVal 1000), (("fluorescence", "signal max"), natVal 1),
        (("fluorescence", "signal min"), some (-1, 1)), (("fluorescence", "trace median"), natVal 0),
        (("fluorescence", "channel 1 name"), none), (("fluorescence", "laser 1 lambda"), natVal 488),
        (("fluorescence", "laser 1 power"), natVal 5)] }) = [] := by decide

/-- … and the same input without the user-supplied laser keys is flagged -/
example : violations (writerD
    { n := 5, scalars := ["deform", "fl1_max"],
      userCfg := [(("fluorescence", "laser count"), natVal 1)] }) ≠ [] := by decide

/-! ### writer histories: append, re-open, `mode="replace"` -/

/-- whatever sequence of appended portions and replace-mode rewrites: the enforced index
    enumerates the events that are in the file at the end -/
theorem writer_history_index_enumerates (h : List WOp) :
    (runHist h).2 = List.range' 1 (runHist h).1 := runHist_index h

/-- … so the file is clean after every such history (complete metadata) -/
theorem writer_history_clean (w : Written) (h : List WOp)
    (hm : CompleteMeta { w with n := (runHist h).1, storeIndex := true }) :
    violations (histD w h) = [] := by
  rw [histD_eq]
  exact writer_output_clean _ hm

/-- reading the index offset before the replace-mode deletion continues the enumeration after
    the deleted data (6+4 events, then 7 events rewritten: 11…17 instead of 1…7) -/
theorem stale_offset_breaks_index_witness :
    ([WOp.append 6, .append 4, .replace 7].foldl stepHistStale (0, [])).2 ≠ List.range' 1 7 ∧
    (runHist [WOp.append 6, .append 4, .replace 7]).2 = List.range' 1 7 := by decide

/-! ### exports of a feature subset, feature-less exports -/

/-- **a subset export of a clean file is clean**: `has_fluorescence` follows the *features*, so
    dropping the fluorescence features switches the fluorescence checks and the mandatory
    fluorescence keys off, even though the `[fluorescence]` metadata section is still there.
    Guard (F30, open): the stored fluorescence channels are kept or dropped together. -/
theorem export_subset_clean (d : D) (keep : String → Bool) (g : Guarantees d)
    (hfl : hasFl (subsetD d keep) = true →
      ∀ ce, ce ∈ chanKeys → hasEvent d ce.2 = true → keep ce.2 = true) :
    violations (subsetD d keep) = [] :=
  clean_of_guarantees _ (subset_guarantees d keep g hfl)

/-- a feature-less export (metadata + basins only) of a clean file is clean -/
theorem export_without_features_clean (d : D) (g : Guarantees d) :
    violations (subsetD d (fun _ => false)) = [] := by
  apply export_subset_clean d _ g
  intro h
  have : hasFl (subsetD d (fun _ => false)) = false := by
    simp [hasFl, hasEvent_subsetD]
  rw [this] at h; cases h

def wTwoChannels : Written :=
  { n := 5, scalars := ["deform", "fl1_max", "fl2_max"],
    userCfg := [(("experiment", "date"), none), (("experiment", "run index"), natVal 1),
      (("experiment", "sample"), none), (("experiment", "time"), none),
      (("imaging", "flash device"), none), (("imaging", "flash duration"), natVal 2),
      (("imaging", "frame rate"), natVal 2000), (("imaging", "pixel size"), some (34, 100)),
      (("imaging", "roi position x"), natVal 1), (("imaging", "roi position y"), natVal 1),
      (("imaging", "roi size x"), natVal 16), (("imaging", "roi size y"), natVal 12),
      (("setup", "channel width"), natVal 20), (("setup", "chip region"), none),
      (("setup", "flow rate"), some (4, 100)), (("setup", "medium"), none),
      (("fluorescence", "bit depth"), natVal 16), (("fluorescence", "channels installed"), natVal 3),
      (("fluorescence", "laser count"), natVal 1), (("fluorescence", "lasers installed"), natVal 3),
      (("fluorescence", "sample rate"), natVal 1000), (("fluorescence", "signal max"), natVal 1),
      (("fluorescence", "signal min"), some (-1, 1)), (("fluorescence", "trace median"), natVal 0),
      (("fluorescence", "samples per event"), natVal 9),
      (("fluorescence", "channel 1 name"), none), (("fluorescence", "channel 2 name"), none),
      (("fluorescence", "laser 1 lambda"), natVal 488), (("fluorescence", "laser 1 power"), natVal 5)] }

/-- F30 (open): keeping one of two stored fluorescence channels leaves `channel count = 2`
    behind; dropping both (or none) is clean -/
theorem partial_channel_subset_witness :
    violations (writerD wTwoChannels) = [] ∧
    violations (subsetD (writerD wTwoChannels) (fun f => f != "fl2_max")) = [Cue.channelCount] ∧
    violations (subsetD (writerD wTwoChannels) (fun f => f == "deform")) = [] := by decide

/-! ## 3. copies -/

/-- **a file and its repacked copy receive the same violations**, provided the file holds no
    feature unknown to dclab (F23) and no external link (which the copy resolves) -/
theorem same_violations_after_copy_partial (d : D)
    (hunk : ∀ fk, fk ∈ d.h5events → fk.2 = true) (hext : d.external = false) :
    violations (copyD d) = violations d := by
  have h1 : d.h5events.filter (·.2) = d.h5events := List.filter_eq_self.mpr hunk
  have : copyD d = d := by
    simp only [copyD, h1, ← hext]
  rw [this]

/-- F23 (open): with an unknown feature the copy loses the violation -/
theorem unknown_feature_copy_witness :
    violations (copyD { h5events := [("deform", true), ("peter", false)] })
      ≠ violations { h5events := [("deform", true), ("peter", false)] } := by decide

/-- the external-link cue disappears as well: the copy contains the linked data -/
theorem external_link_copy_witness :
    violations (copyD { external := true }) ≠ violations { external := true } := by decide

/-- `dclab-compress` = copy + writer hook: its violations are those of the rectified description -/
theorem compress_violations (d : D)
    (hunk : ∀ fk, fk ∈ d.h5events → fk.2 = true) (hext : d.external = false) :
    violations (compressD d) = violations (rectifyD d) := by
  have h1 : d.h5events.filter (·.2) = d.h5events := List.filter_eq_self.mpr hunk
  have : copyD d = d := by
    simp only [copyD, h1, ← hext]
  simp only [compressD, this]

/-- the hook changes nothing the checker looks at when the derived metadata are already
    consistent with the data (O8) -/
theorem compress_same_violations_partial (d : D)
    (hunk : ∀ fk, fk ∈ d.h5events → fk.2 = true) (hext : d.external = false)
    (hcons : ∀ k, cfgGet (rectifyCfg d) k = cfgGet d.cfg k) :
    violations (compressD d) = violations d := by
  rw [compress_violations d hunk hext]
  have : cfgGet (rectifyCfg d) = cfgGet d.cfg := funext hcons
  simp only [violations, rectifyD, this]
  rfl

/-! ## 4. exit codes of `dclab-verify-dataset` -/

theorem exit_code_table :
    exitCode 0 0 = 0 ∧ exitCode 1 0 = 1 ∧ exitCode 0 1 = 2 ∧ exitCode 1 1 = 3 ∧
    exitCode 5 0 = 1 ∧ exitCode 0 7 = 2 ∧ exitCode 2 3 = 3 := by decide

theorem exit_code_spec (a v : Nat) :
    (exitCode a v = 0 ↔ a = 0 ∧ v = 0) ∧ (exitCode a v = 1 ↔ a ≠ 0 ∧ v = 0) ∧
    (exitCode a v = 2 ↔ a = 0 ∧ v ≠ 0) ∧ (exitCode a v = 3 ↔ a ≠ 0 ∧ v ≠ 0) := by
  unfold exitCode
  by_cases ha : a = 0 <;> by_cases hv : v = 0 <;> simp [ha, hv]

/-! ## 5. size independence of the array-comparing cues -/

/-- the comparison `check_feat_index` performs (same shape, then every element equal) holds
    exactly for the enumeration `1 … n` — for every `n`, no tolerance -/
theorem index_check_exact (xs : List Nat) (n : Nat) :
    indexOk xs n = true ↔ xs = List.range' 1 n := indexOk_iff xs n

/-- the index cue is reported **iff** the stored index is not `1 … len(ds)`; no other check
    emits it -/
theorem index_cue_exact (d : D) :
    Cue.indexNotEnumerated ∈ violations d ↔
      ∃ xs, d.index = some xs ∧ xs ≠ List.range' 1 (lends (cfgGet d.cfg) d) := index_cue_iff d

/-- the feature-size cue of `f` is reported **iff** a stored length of `f` differs from
    `len(ds)` — by one or by many, for small and large measurements alike -/
theorem feature_size_cue_exact (d : D) (f : String) :
    Cue.featSize f ∈ violations d ↔ ∃ l, (f, l) ∈ d.events ∧ l ≠ lends (cfgGet d.cfg) d :=
  featSize_cue_iff d f

/-- one skipped event number anywhere in a measurement of any size is reported -/
theorem skipped_event_number_detected (d : D) (p n : Nat) (hp : p < n)
    (hi : d.index = some (skipIndex p n)) (hl : lends (cfgGet d.cfg) d = n) :
    Cue.indexNotEnumerated ∈ violations d :=
  detect_index d _ hi (by rw [hl]; exact skipIndex_ne p n hp)

/-- variant witness (unbounded): a comparison with NumPy's default tolerances
    (`np.allclose`, |a-b| ≤ 1e-8 + 1e-5·b) accepts **every** index with an event number skipped
    at a position ≥ 100000, which the exact comparison rejects -/
theorem tolerant_index_check_misses_late_skip (p n : Nat) (hp : 100000 ≤ p) (hn : p < n) :
    indexOkTol (skipIndex p n) n = true ∧ indexOk (skipIndex p n) n = false := by
  constructor
  · simp only [indexOkTol, Bool.and_eq_true, beq_iff_eq]
    refine ⟨skipIndex_length p n (by omega), ?_⟩
    rw [skipIndex, enumFromTol_append, enumFromTol_range_self]
    simp only [List.length_range', Bool.true_and]
    have := enumFromTol_range_shift (n - p) (1 + p) (by omega)
    rw [show 1 + p + 1 = p + 2 by omega] at this
    exact this
  · cases h : indexOk (skipIndex p n) n with
    | false => rfl
    | true => exact absurd ((indexOk_iff _ _).mp h) (skipIndex_ne p n hn)

/-- non-vacuity / small sizes: below 100000 the tolerant variant still notices the skip -/
example : indexOkTol (skipIndex 5 9) 9 = false ∧ indexOk (skipIndex 5 9) 9 = false ∧
    indexOk (List.range' 1 9) 9 = true := by decide

/-- metadata that announce 0 events while a feature holds rows: every such feature is flagged -/
theorem zero_event_count_detected (d : D) (f : String) (l : Nat) (hf : (f, l) ∈ d.events)
    (hl : l ≠ 0) (h0 : cfgGet d.cfg ("experiment", "event count") = some (natVal 0)) :
    Cue.featSize f ∈ violations d := by
  apply detect_feature_length d f l hf
  rw [lends_of_some _ _ _ h0]
  simpa [toNat, natVal] using hl

/-- variant witness: taking an event count of 0 for "unknown" (falling back to the length of
    the first non-empty feature) hides the inconsistency -/
theorem lenient_length_hides_zero_count_witness :
    let d : D := { cfg := [(("experiment", "event count"), natVal 0)], lenOrder := [7],
                   events := [("deform", 7)] }
    Cue.featSize "deform" ∈ violations d ∧ lendsLenient (cfgGet d.cfg) d = 7 := by decide

/-! ## 6. cue levels -/

/-- a key reported missing at violation level is a mandatory key of the regenerated tables -/
theorem violation_missing_key_mandatory (d : D) (s k : String)
    (h : Cue.missingKey s k ∈ violations d) :
    (keysOf (important (hasFl d)) s).contains k = true := viol_missingKey_mandatory d s k h

/-- a key reported missing at alert level (by `check_metadata_missing` or by
    `check_fl_metadata_channel_names`, whose message has the same form) is not mandatory -/
theorem alert_missing_key_not_mandatory (d : D) (s k : String)
    (h : ACue.missingKey s k ∈ alerts d) :
    (keysOf (important (hasFl d)) s).contains k = false := alert_missingKey_not_mandatory d s k h

/-- every missing key is reported at exactly one level -/
theorem missing_key_levels_exclusive (d : D) (s k : String)
    (hv : Cue.missingKey s k ∈ violations d) : ACue.missingKey s k ∉ alerts d := by
  intro ha
  have h1 := viol_missingKey_mandatory d s k hv
  rw [alert_missingKey_not_mandatory d s k ha] at h1
  cases h1

/-- **no mandatory key is ever downgraded**: for every key of the mandatory tables the alert
    list never contains the missing-key cue (it is a violation — `detect_missing_key`) -/
theorem mandatory_missing_never_alert (d : D) (sec : String) (ks : List String) (k : String)
    (hs : (sec, ks) ∈ important (hasFl d)) (hk : k ∈ ks) : ACue.missingKey sec k ∉ alerts d := by
  intro ha
  have htab : tableOk (hasFl d) = true := by
    cases hasFl d
    · exact table_ok.2
    · exact table_ok.1
  simp only [tableOk, List.all_eq_true, Bool.and_eq_true, beq_iff_eq] at htab
  obtain ⟨⟨_, hkeys⟩, _⟩ := htab (sec, ks) hs
  have himp : (keysOf (important (hasFl d)) sec).contains k = true := by
    rw [hkeys, List.contains_iff_mem]; exact hk
  rw [alert_missingKey_not_mandatory d sec k ha] at himp
  cases himp

/-- a dataset whose length is 0 gets the alert "does not contain any events" -/
theorem empty_dataset_alert (d : D) (h : lends (cfgGet d.cfg) d = 0) : ACue.empty ∈ alerts d := by
  rw [mem_alerts]
  exact Or.inr (Or.inl (by simp [aEmpty, h]))

/-- the exit status of `dclab-verify-dataset` shows a violation iff there is one, whatever the
    number of (modelled or further) alerts -/
theorem exit_status_reports_violations (d : D) (extra : Nat) :
    (exitOf d extra = 2 ∨ exitOf d extra = 3) ↔ violations d ≠ [] := by
  rw [exitOf, exitCode_ge_two]
  cases violations d <;> simp

/-- non-vacuity: alert-level cues of a small fluorescence description (channel 2 named without
    `fl2_max`, flow rates that do not add up, `temp` without `[setup] temperature`) -/
example :
    let d : D := { cfg := [(("experiment", "event count"), natVal 3),
                     (("fluorescence", "channel 2 name"), none),
                     (("setup", "flow rate"), some (4, 100)), (("setup", "flow rate sample"), some (1, 100)),
                     (("setup", "flow rate sheath"), some (2, 100))],
                   events := [("fl1_max", 3), ("temp", 3)] }
    ACue.unusedKey "channel 2 name" ∈ alerts d ∧ ACue.missingKey "fluorescence" "channel 1 name" ∈ alerts d ∧
    ACue.flowRates ∈ alerts d ∧ ACue.tempKey ∈ alerts d ∧ ACue.empty ∉ alerts d ∧
    ACue.missingKey "setup" "flow rate" ∉ alerts d := by decide

/-! ## 7. writer closure for copies and exports -/

/-- `rtdc_copy` never adds a violation: every cue of the copy is a cue of the original … -/
theorem copy_violations_subset (d : D) (c : Cue) (h : c ∈ violations (copyD d)) :
    c ∈ violations d := by
  rw [mem_violations] at h ⊢
  rcases h with h | h | h | h | h | h | h | h | h | h | h
  · exact Or.inl h
  · simp [vExternal, copyD] at h
  · exact Or.inr (Or.inr (Or.inl h))
  · exact Or.inr (Or.inr (Or.inr (Or.inl h)))
  · simp only [vUnknown, copyD, List.mem_map, List.mem_filter] at h
    obtain ⟨fk, ⟨⟨_, hk⟩, hn⟩, _⟩ := h
    simp [hk] at hn
  · exact Or.inr (Or.inr (Or.inr (Or.inr (Or.inr (Or.inl h)))))
  · exact Or.inr (Or.inr (Or.inr (Or.inr (Or.inr (Or.inr (Or.inl h))))))
  · exact Or.inr (Or.inr (Or.inr (Or.inr (Or.inr (Or.inr (Or.inr (Or.inl h)))))))
  · exact Or.inr (Or.inr (Or.inr (Or.inr (Or.inr (Or.inr (Or.inr (Or.inr (Or.inl h))))))))
  · exact Or.inr (Or.inr (Or.inr (Or.inr (Or.inr (Or.inr (Or.inr (Or.inr (Or.inr (Or.inl h)))))))))
  · exact Or.inr (Or.inr (Or.inr (Or.inr (Or.inr (Or.inr (Or.inr (Or.inr (Or.inr (Or.inr h)))))))))

/-- … so **the copy of any violation-free file is violation-free** (no guard) -/
theorem copy_output_clean (d : D) (h : violations d = []) : violations (copyD d) = [] := by
  cases hv : violations (copyD d) with
  | nil => rfl
  | cons c cs =>
    have := copy_violations_subset d c (by rw [hv]; simp)
    rw [h] at this
    cases this

/-- **export closure**: `export.hdf5` of `m` selected events and any feature subset of a
    consistent file (complete metadata) is violation-free; only guard: the stored fluorescence
    channels are kept or dropped together (F30, see the witness below) -/
theorem export_output_clean (d : D) (keep : String → Bool) (m : Nat) (g : Guarantees d)
    (hfl : hasFl (subsetD d keep) = true →
      ∀ ce, ce ∈ chanKeys → hasEvent d ce.2 = true → keep ce.2 = true) :
    violations (exportD d keep m) = [] :=
  clean_of_guarantees _ (resize_guarantees _ m (subset_guarantees d keep g hfl))

/-- exporting the writer's own output again (all features, any selection size) is clean -/
theorem export_of_writer_output_clean (w : Written) (hm : CompleteMeta w) (m : Nat) :
    violations (exportD (writerD w) (fun _ => true) m) = [] :=
  export_output_clean _ _ m (writer_guarantees w hm) (fun _ _ _ _ => rfl)

/-- F30 (open) is the exact exception: keeping one of two stored channels leaves only the
    channel-count violation; keeping both, or none, is clean -/
theorem export_partial_channels_witness :
    violations (exportD (writerD wTwoChannels) (fun f => f != "fl2_max") 3) = [Cue.channelCount] ∧
    violations (exportD (writerD wTwoChannels) (fun _ => true) 3) = [] ∧
    violations (exportD (writerD wTwoChannels) (fun f => f == "deform") 0) = [] := by decide

end DclabModel.C13
