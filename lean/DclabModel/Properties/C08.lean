import DclabModel.Lemmas.Copy
/-!
# C08 — Compress, repack, condense and tdms2rtdc preserve dataset content

* `copy_rows_identity`, `copy_skips_only_empty`, `copy_chunks_clipped`, `stdGrid_covers`,
  `slab_copy_identity` (`floor_slabs_lose_tail_witness`)
      the layout-aware dataset copy returns the rows of the source for every chunking
      (including chunks larger than the data) and every covering chunk grid;
* `vlen_to_fixed_preserves_bytes`
      variable-length strings re-encoded as `S<max(100,maxlen)>` read back unchanged;
* `rtdc_copy_preserves` / `rtdc_copy_preserves_view_partial`
      the view of the copy equals the view of the source (features, logs, tables incl.
      attributes, metadata, basin definitions, internal basin data); with strip options the
      stripped components are empty and the rest is equal.  Guard `NoUnknownFeature` (F23, open);
      witnesses: `unknown_feature_dropped_witness` (F23), `old_table_copy_drops_attrs_witness`
      (F09), `old_basin_copy_raises_witness` (F26), `empty_scalar_raises_witness` (F27, open);
* `compress_preserves_data`, `compress_idempotent_on_data_partial`,
  `repack_idempotent_on_data_partial`, `copy_output_has_no_unknown_feature`,
  `idempotence_needs_surviving_basin_features_witness` (+ `empty_internal_witness_wellformed`);
* `condense_scalar_set`, `condense_no_duplicates`, `condense_values`,
  `old_condense_raises_witness` (F28);
* `compress_generations_keep_logs`, `compress_generations_distinct_names`,
  `compress_equal_hash_collides` — command logs across `n` successive compress runs;
* `tdms2rtdc_exact`, `tdms2rtdc_count`, `tdms2rtdc_index`, `tdms2rtdc_include_boundary_keeps_all`,
  `tdms2rtdc_no_image_keeps_last` — exact characterisation of the boundary-image skipping;
* `tdms2rtdc_rows`, `tdms2rtdc_sublist`, `bulk_features_independent`,
  `shared_feature_list_loses_features_witness`;
* `setup_never_touches_input`, `setup_refuses_input_as_output`,
  `corrected_hits_input_only_literally`, `old_setup_unlinks_input_witness` (F29),
  `replacing_suffix_hits_input_witness`.
-/
namespace DclabModel.C08
open DclabModel.Copy

/-! ## 1. dataset copy -/

/-- for every chunking (also `c > len`) and any chunk grid covering `[0,len)`: the copied rows
    are the source rows (numeric and fixed-length string datasets) -/
theorem copy_rows_identity (grid : List (Nat × Nat)) (src d : Dset)
    (hg : Covers grid src.rows.length) (hs : src.str ≠ .vlen) (h : h5dsCopy grid src = some d) :
    d.rows = src.rows :=
  (h5dsCopy_rows hg hs h).1

/-- nothing but empty datasets is ever skipped -/
theorem copy_skips_only_empty (grid : List (Nat × Nat)) (src : Dset)
    (h : h5dsCopy grid src = none) : src.rows = [] := h5dsCopy_none h

/-- attributes are copied and the result is marked compressed, so a second copy is the identity -/
theorem copy_attrs_and_fixpoint (grid grid' : List (Nat × Nat)) (src d : Dset)
    (h : h5dsCopy grid src = some d) : d.attrs = src.attrs ∧ h5dsCopy grid' d = some d :=
  ⟨h5dsCopy_attrs h, h5dsCopy_idem h⟩

/-- the chunk length handed to `create_dataset(shape=src.shape, chunks=…)` never exceeds the
    data (h5py would refuse it) -/
theorem copy_chunks_clipped (grid : List (Nat × Nat)) (src d : Dset) (hc : src.compressed = false)
    (h : h5dsCopy grid src = some d) : ∀ c, d.chunks = some c → c ≤ src.rows.length := by
  intro c hcc
  have key : d.chunks = src.chunks.map fun c => if c > src.rows.length then src.rows.length else c := by
    unfold h5dsCopy at h
    simp only [hc, Bool.false_eq_true, if_false] at h
    split at h
    · cases h
    · split at h <;> (cases h; rfl)
  rw [key] at hcc
  cases hsc : src.chunks with
  | none => simp [hsc] at hcc
  | some c0 =>
    simp only [hsc, Option.map_some, Option.some.injEq] at hcc
    subst hcc
    split <;> omega

/-- the chunk grid h5py yields for chunk length `c > 0` covers `[0,n)` (non-vacuity of `Covers`,
    also for `c > n`) -/
theorem stdGrid_covers (n c : Nat) (hc : 0 < c) : Covers (stdGrid n c) n := by
  intro i hi
  have hlt : i < (i / c + 1) * c := by
    have := Nat.div_add_mod i c
    have := Nat.mod_lt i hc
    rw [Nat.add_mul, Nat.mul_comm]; omega
  refine ⟨((i / c) * c, min ((i / c + 1) * c) n), ?_, ?_, ?_⟩
  · simp only [stdGrid, List.mem_map, List.mem_range]
    refine ⟨i / c, ?_, rfl⟩
    rw [Nat.div_lt_iff_lt_mul hc]
    have h1 := Nat.div_add_mod (n + c - 1) c
    have h2 := Nat.mod_lt (n + c - 1) hc
    rw [Nat.mul_comm]
    generalize c * ((n + c - 1) / c) = m at h1 ⊢
    omega
  · exact Nat.div_mul_le_self i c
  · simp only [Nat.lt_min]
    exact ⟨hlt, hi⟩

/-- a copy in slabs of any length `s > 0` (clipped at the end of the data) returns the rows -/
theorem slab_copy_identity (rows : List Row) (s : Nat) (hs : 0 < s) :
    copyChunks (slabGrid rows.length s) rows (blank rows.length) = rows :=
  copyChunks_covers _ rows (stdGrid_covers rows.length s hs)

/-- `k` slabs of `n / k` rows do not cover the data when `k` does not divide `n`: the trailing
    `n % k` rows keep the fill value (7 rows, 2 slabs of 3) -/
theorem floor_slabs_lose_tail_witness :
    copyChunks (floorSlabs 7 2) [[1], [2], [3], [4], [5], [6], [7]] (blank 7)
      = [[1], [2], [3], [4], [5], [6], []] ∧
    copyChunks (slabGrid 7 4) [[1], [2], [3], [4], [5], [6], [7]] (blank 7)
      = [[1], [2], [3], [4], [5], [6], [7]] := by decide

example : h5dsCopy (stdGrid 3 5) { rows := [[1], [2], [3]], chunks := some 5 }
    = some { rows := [[1], [2], [3]], chunks := some 3, compressed := true } := by decide

/-! ## 2. strings -/

/-- a variable-length string dataset (NUL-free lines) that is re-encoded with fixed width
    `max(100, longest line)` reads back byte for byte -/
theorem vlen_to_fixed_preserves_bytes (grid : List (Nat × Nat)) (src d : Dset)
    (hv : src.str = .vlen) (hc : src.compressed = false)
    (h0 : ∀ r, r ∈ src.rows → ∀ b, b ∈ r → b ≠ 0) (h : h5dsCopy grid src = some d) :
    d.str = .fixed (fixedWidth src.rows) ∧ readRows d = src.rows := by
  unfold h5dsCopy at h
  simp only [hc, Bool.false_eq_true, if_false] at h
  split at h
  · cases h
  · rw [hv] at h
    simp only at h
    cases h
    refine ⟨rfl, ?_⟩
    simp only [readRows]
    exact map_rstrip_toFixed _ _ h0 (fun r hr => length_le_fixedWidth _ r hr)

example : (h5dsCopy [] { rows := [[104, 105], [33]], str := .vlen }).map readRows
    = some [[104, 105], [33]] := by decide

/-! ## 3. file copy -/

/-- **`rtdc_copy` preserves what the file shows** (`features="all"`, any combination of
    strip options and prefix): metadata, stored non-defective features, logs, tables with their
    attributes (F09 repaired), basin definitions and internal basin data are equal; a stripped
    component is empty.  `keep` leaves out the `basinmap*` features when basins are stripped.
    Guard: no feature unknown to dclab (F23). -/
theorem rtdc_copy_preserves (env : Env) (o : Opts) (src : File)
    (hall : o.features = .all) (hfix : o.fixF09 = true)
    (hwf : WF env src) (hunk : NoUnknownFeature env src) :
    let out := rtdcCopy env o src
    let keep : String → Bool := fun n => o.includeBasins || !env.basinmap n
    out.attrs = src.attrs ∧
    featsView env keep out.events = featsView env keep src.events ∧
    logsView out.logs = (if o.includeLogs
      then (logsView src.logs).map fun kl => (o.metaPrefix ++ kl.1, kl.2) else []) ∧
    tablesView out.tables = (if o.includeTables
      then (tablesView src.tables).map fun t => (o.metaPrefix ++ t.1, t.2) else []) ∧
    basinsView out.basins = (if o.includeBasins then basinsView src.basins else []) ∧
    dataView out.basinEvents = (if o.includeBasins then dataView src.basinEvents else []) := by
  intro out keep
  refine ⟨by simp [out, rtdcCopy], ?_, ?_, ?_, ?_, ?_⟩
  · -- features
    show featsView env keep (copyEvents env (featureIter env o src) src) = _
    rw [copyEvents, featsView_copy env hwf.grid keep _ _ (wf_events hwf)
      (fun f hf => hunk f (List.mem_append_left _ hf))]
    simp only [featsView]
    rw [List.filterMap_filter]
    apply filterMap_congr'
    intro f hf
    have hm : f.name ∈ eventsSrc o src :=
      mem_eventsSrc_of_events o src f.name (by simp only [names, List.mem_map]; exact ⟨f, hf, rfl⟩)
    rw [it_all_contains env o src f.name hall hm]
    cases hk : (o.includeBasins || !env.basinmap f.name) with
    | true => simp
    | false => simp [featEntry, keep, hk]
  · -- logs
    show logsView (if o.includeLogs then src.logs.map (copyLogs env o) else none) = _
    cases hl : o.includeLogs with
    | false => simp [logsView]
    | true =>
      cases hs : src.logs with
      | none => simp [logsView]
      | some ls =>
        simp only [if_true, Option.map_some, logsView, Option.getD_some, copyLogs]
        exact pairs_copy env hwf.grid _ ls (by
          intro kd hkd; exact wf_logs hwf kd (by simp [hs, hkd]))
  · -- tables
    show tablesView (if o.includeTables then src.tables.map (List.map (tableCopy o)) else none) = _
    cases hl : o.includeTables with
    | false => simp [tablesView]
    | true =>
      cases hs : src.tables with
      | none => simp [tablesView]
      | some ts => simp only [if_true, Option.map_some]; exact tablesView_copy o hfix ts
  · -- basin definitions
    show basinsView (if o.includeBasins then src.basins.map (basinDefCopy env _) else none) = _
    cases hb : o.includeBasins with
    | false => simp [basinsView]
    | true =>
      cases hs : src.basins with
      | none => simp [basinsView]
      | some bs =>
        simp only [if_true, Option.map_some]
        apply basinsView_copy
        intro b hbm
        obtain ⟨h1, h2⟩ := hwf.basins b (by simp [hs, hbm])
        refine ⟨h1, fun hi => ⟨(h2 hi).1, fun f hf => ?_⟩⟩
        have hm : f ∈ eventsSrc o src := by
          rcases (h2 hi).2 f hf with h | h
          · exact mem_eventsSrc_of_events o src f h
          · exact mem_eventsSrc_of_basin o src f hb h
        rw [it_all_contains env o src f hall hm, hb]; rfl
  · -- internal basin data
    show dataView (copyBasinEvents env o (featureIter env o src) src) = _
    unfold copyBasinEvents
    cases hb : o.includeBasins with
    | false => simp [dataView]
    | true =>
      cases hs : src.basinEvents with
      | none => simp [dataView]
      | some be =>
        simp only [if_true]
        rw [dataView_none_of_empty]
        apply dataView_copy env hwf.grid
        · intro f hf; exact wf_basinEvents hwf f (by simp [hs, hf])
        · intro f hf
          have hf' : f ∈ src.basinEvents.getD [] := by simp [hs, hf]
          have hm : f.name ∈ eventsSrc o src :=
            mem_eventsSrc_of_basin o src f.name hb (by
              simp only [names, List.mem_map]; exact ⟨f, hf', rfl⟩)
          rw [it_all_contains env o src f.name hall hm, hb,
            hunk f (List.mem_append_right _ hf'), hwf.disjoint f hf']
          rfl

/-- default options: the whole view is equal -/
theorem rtdc_copy_preserves_view_partial (env : Env) (src : File)
    (hwf : WF env src) (hunk : NoUnknownFeature env src) :
    view env (rtdcCopy env {} src) = view env src := by
  obtain ⟨h1, h2, h3, h4, h5, h6⟩ := rtdc_copy_preserves env {} src rfl rfl hwf hunk
  simp only [view, viewWith]
  simp only [Bool.true_or, String.empty_append, if_true, List.map_id'] at h2 h3 h4 h5 h6
  rw [h1, h3, h4, h5, h6]
  congr 1

/-! ### witnesses: what the guards and the repairs exclude -/

def wEnv : Env :=
  { known := fun s => s != "peter", scalar := fun s => s != "image", basinmap := fun _ => false,
    defective := fun _ => false, grid := fun d => [(0, d.rows.length)],
    summary := fun _ _ => 0, rekey := fun k _ => k, rebody := fun _ _ => { rows := [] } }

/-- two stored features, one of them unknown to dclab (e.g. a plugin feature) -/
def wUnknown : File :=
  { events := [⟨"deform", .ds { rows := [[1], [2]] }⟩, ⟨"peter", .ds { rows := [[5], [6]] }⟩] }

/-- F23 (open): without the guard the statement is false — the unknown feature is dropped -/
theorem unknown_feature_dropped_witness :
    view wEnv (rtdcCopy wEnv {} wUnknown) ≠ view wEnv wUnknown := by decide

/-- … although the witness satisfies every other hypothesis of `rtdc_copy_preserves` -/
theorem unknown_witness_wellformed : WF wEnv wUnknown where
  grid := by
    intro d i hi
    exact ⟨(0, d.rows.length), by simp [wEnv], Nat.zero_le _, hi⟩
  dsets := by
    intro d hd hv
    simp [allDsets, wUnknown, nodeDsets] at hd
    rcases hd with h | h <;> (subst h; cases hv)
  disjoint := by intro f hf; simp [wUnknown] at hf
  basins := by intro b hb; simp [wUnknown] at hb

def wTable : File :=
  { events := [⟨"deform", .ds { rows := [[1]] }⟩],
    tables := some [("tab", { rows := [[7], [8]], attrs := [("COLOR_a", 3)] })] }

/-- F09 (repaired): the copy made before the fix lost the table attributes … -/
theorem old_table_copy_drops_attrs_witness :
    tablesView (rtdcCopy wEnv { fixF09 := false } wTable).tables ≠ tablesView wTable.tables ∧
    tablesView (rtdcCopy wEnv {} wTable).tables = tablesView wTable.tables := by decide

/-- … and ignored `meta_prefix` -/
theorem old_table_copy_ignores_prefix_witness :
    (tablesView (rtdcCopy wEnv { fixF09 := false, metaPrefix := "src_" } wTable).tables).map (·.1)
      = ["tab"] ∧
    (tablesView (rtdcCopy wEnv { metaPrefix := "src_" } wTable).tables).map (·.1) = ["src_tab"] := by
  decide

def wBasin (k : String) : BasinDef :=
  { key := k, internal := false, feats := [], rest := 1, body := { rows := [[123]] } }

/-- F26 (repaired): two basin definitions made the old loop copy the first key twice -/
theorem old_basin_copy_raises_witness :
    basinDefCopyOldRaises ["deform"] [wBasin "k1", wBasin "k2"] = true ∧
    basinsView (some (basinDefCopy wEnv ["deform"] [wBasin "k1", wBasin "k2"]))
      = basinsView (some [wBasin "k1", wBasin "k2"]) := by decide

/-- F27 (open): an empty uncompressed scalar feature makes `rtdc_copy` raise -/
theorem empty_scalar_raises_witness :
    copyRaises wEnv {} { events := [⟨"deform", .ds { rows := [] }⟩] } = true ∧
    copyRaises wEnv {} wUnknown = false := by decide

/-- F33 (repaired): the copy of a feature-less file (empty `events` group, e.g. the export of an
    empty selection) had no `events` group at all and could not be opened by dclab -/
theorem old_copy_drops_events_group_witness :
    eventsGroupCreated wEnv {} {} = false ∧ eventsGroupCreatedFixed wEnv {} {} = true ∧
    eventsGroupCreatedFixed wEnv { features := .none } {} = false := by decide

/-! ## 4. the tasks apply the copy and change nothing else -/

/-- `dclab-compress` leaves every feature, table, basin and user log as it is (the command logs
    and the metadata completed by the writer hook are the only differences, O8) -/
theorem compress_preserves_data (env : Env) (hook : Attrs → Attrs) (suffix : String)
    (newLogs : List (String × Dset)) (isCmd : String → Bool) (src : File)
    (hwf : WF env src) (hunk : NoUnknownFeature env src)
    (hnew : ∀ kd, kd ∈ newLogs → isCmd kd.1 = true)
    (hren : ∀ n, cmdLogNames.contains n = true →
      isCmd n = true ∧ isCmd (n ++ "_" ++ suffix) = true) :
    dataPart env isCmd (compress env hook suffix newLogs src) = dataPart env isCmd src := by
  have hv := rtdc_copy_preserves_view_partial env src hwf hunk
  simp only [view, viewWith, View.mk.injEq] at hv
  obtain ⟨_, h2, h3, h4, h5, h6⟩ := hv
  simp only [dataPart, view, viewWith, compress, View.mk.injEq, true_and]
  refine ⟨h2, ?_, h4, h5, h6⟩
  simp only [logsView, Option.getD_some, List.filterMap_append, List.filter_append,
    pairs_filter_cmd isCmd newLogs hnew, List.append_nil, pairs_rename isCmd suffix _ hren]
  simp only [logsView] at h3
  rw [h3]

/-- closure, part 1 (unconditional): whatever the source and the options, the copy contains no
    feature unknown to dclab — the guard `NoUnknownFeature` (F23) holds for every output -/
theorem copy_output_has_no_unknown_feature (env : Env) (o : Opts) (src : File) :
    NoUnknownFeature env (rtdcCopy env o src) := noUnknown_rtdcCopy env o src

/-- applying compress to its own output changes no data.
    The statement without any hypothesis on the intermediate file is FALSE on the model and on the
    real code (`idempotence_needs_surviving_basin_features_witness`, candidate finding F75): an
    internal basin that lists a feature stored as an empty dataset is copied as it is while the
    empty dataset is skipped, so the second run rewrites the definition.  What remains a hypothesis
    is the well-formedness `WF` of the first run's output (its only non-trivial part: the features
    named by internal basins survive the copy); `NoUnknownFeature` of the intermediate file is now
    derived (`copy_output_has_no_unknown_feature`).  The harness checks idempotence on every
    generated file. -/
theorem compress_idempotent_on_data_partial (env : Env) (hook hook' : Attrs → Attrs) (sfx sfx' : String)
    (nl nl' : List (String × Dset)) (isCmd : String → Bool) (x : File)
    (hwf : WF env (compress env hook sfx nl x))
    (hnew : ∀ kd, kd ∈ nl' → isCmd kd.1 = true)
    (hren : ∀ n, cmdLogNames.contains n = true →
      isCmd n = true ∧ isCmd (n ++ "_" ++ sfx') = true) :
    dataPart env isCmd (compress env hook' sfx' nl' (compress env hook sfx nl x))
      = dataPart env isCmd (compress env hook sfx nl x) :=
  compress_preserves_data env hook' sfx' nl' isCmd _ hwf (noUnknown_compress env hook sfx nl x)
    hnew hren

/-- `dclab-repack` with the same strip options applied to its own output changes nothing that
    is shown (same remark as for `compress_idempotent_on_data_partial`) -/
theorem repack_idempotent_on_data_partial (env : Env) (sb sl : Bool) (x : File)
    (hwf : WF env (repack env sb sl x)) :
    let keep : String → Bool := fun n => !sb || !env.basinmap n
    viewWith env keep (repack env sb sl (repack env sb sl x))
      = viewWith env keep (repack env sb sl x) := by
  intro keep
  have hunk : NoUnknownFeature env (repack env sb sl x) := noUnknown_rtdcCopy env _ x
  obtain ⟨h1, h2, h3, h4, h5, h6⟩ := rtdc_copy_preserves env
    { includeBasins := !sb, includeLogs := !sl } (repack env sb sl x) rfl rfl hwf hunk
  simp only [String.empty_append, List.map_id', if_true] at h2 h3 h4 h5 h6
  simp only [viewWith, View.mk.injEq]
  refine ⟨h1, h2, ?_, h4, ?_, ?_⟩
  · rw [show repack env sb sl (repack env sb sl x)
        = rtdcCopy env { includeBasins := !sb, includeLogs := !sl } (repack env sb sl x) from rfl, h3]
    cases sl <;> simp [repack, rtdcCopy, logsView]
  · rw [show repack env sb sl (repack env sb sl x)
        = rtdcCopy env { includeBasins := !sb, includeLogs := !sl } (repack env sb sl x) from rfl, h5]
    cases sb <;> simp [repack, rtdcCopy, basinsView]
  · rw [show repack env sb sl (repack env sb sl x)
        = rtdcCopy env { includeBasins := !sb, includeLogs := !sl } (repack env sb sl x) from rfl, h6]
    cases sb <;> simp [repack, rtdcCopy, copyBasinEvents, dataView]

/-- an internal basin that lists two features, one of them stored as an EMPTY dataset -/
def wEmptyInternal : File :=
  { events := [⟨"deform", .ds { rows := [[1], [2]] }⟩],
    basinEvents := some [⟨"userdef0", .ds { rows := [] }⟩, ⟨"userdef1", .ds { rows := [[5]] }⟩],
    basins := some [{ key := "k", internal := true, feats := ["userdef0", "userdef1"], rest := 1,
                      body := { rows := [[123]] } }] }

theorem empty_internal_witness_wellformed :
    WF wEnv wEmptyInternal ∧ NoUnknownFeature wEnv wEmptyInternal := by
  refine ⟨⟨?_, ?_, ?_, ?_⟩, ?_⟩
  · intro d i hi
    exact ⟨(0, d.rows.length), by simp [wEnv], Nat.zero_le _, hi⟩
  · intro d hd hv
    simp [allDsets, wEmptyInternal, nodeDsets] at hd
    rcases hd with h | h | h | h <;> (subst h; cases hv)
  · intro f hf
    simp [wEmptyInternal] at hf
    rcases hf with h | h <;> (subst h; decide)
  · intro b hb
    simp [wEmptyInternal] at hb
    subst hb
    decide
  · intro f hf
    simp [wEmptyInternal] at hf
    rcases hf with h | h | h <;> (subst h; decide)

/-- **the unconditional idempotence statement is false** (model and real code): the first run
    copies the definition as it is but skips the empty dataset, so the second run no longer finds
    `userdef0`, rewrites the definition (new key, shorter feature list) — the first run's output is
    not well-formed although the input is -/
theorem idempotence_needs_surviving_basin_features_witness :
    basinsView (repack wEnv false false (repack wEnv false false wEmptyInternal)).basins
      ≠ basinsView (repack wEnv false false wEmptyInternal).basins ∧
    basinsView (repack wEnv false false wEmptyInternal).basins = basinsView wEmptyInternal.basins ∧
    dataView (repack wEnv false false wEmptyInternal).basinEvents
      = dataView wEmptyInternal.basinEvents := by decide

/-! ### command logs across generations -/

/-- **`n + 1` successive `dclab-compress` runs keep all `n + 1` command logs**: on a file without
    command logs the logs group of generation `n + 1` is the user logs followed by the history —
    run `j`'s log under `dclab-compress_<hash of the input of run j+1>` for `j < n` and the last
    run's log under `dclab-compress`; nothing is lost or overwritten -/
theorem compress_generations_keep_logs (env : Env) (hook : Attrs → Attrs) (sfx : Nat → String)
    (cmd : Nat → Dset) (x : File) (hc : ∀ k, (cmd k).compressed = true)
    (hu : ∀ kd, kd ∈ x.logs.getD [] → cmdLogNames.contains kd.1 = false) (n : Nat) :
    (compressGen env hook sfx cmd (n + 1) x).logs
      = some (copyLogs env {} (x.logs.getD []) ++ cmdHistory sfx cmd (n + 1)) ∧
    (∀ j, j < n → ("dclab-compress" ++ "_" ++ sfx (j + 1), cmd j)
      ∈ (compressGen env hook sfx cmd (n + 1) x).logs.getD []) ∧
    ("dclab-compress", cmd n) ∈ (compressGen env hook sfx cmd (n + 1) x).logs.getD [] := by
  have h := compressGen_logs env hook sfx cmd x hc hu n
  refine ⟨h, ?_, ?_⟩
  · intro j hj
    rw [h, Option.getD_some]
    apply List.mem_append_right
    simp only [cmdHistory, List.mem_append, List.mem_map, List.mem_range]
    exact Or.inl ⟨j, hj, rfl⟩
  · rw [h, Option.getD_some]
    apply List.mem_append_right
    simp [cmdHistory]

/-- … **under distinct names, given distinct hashes** of the intermediate files -/
theorem compress_generations_distinct_names (sfx : Nat → String) (cmd : Nat → Dset) (n : Nat)
    (hd : ∀ i j, i < n → j < n → sfx (i + 1) = sfx (j + 1) → i = j) :
    ((cmdHistory sfx cmd (n + 1)).map (·.1)).Nodup := cmdHistory_names_nodup sfx cmd n hd

/-- **equal hashes**: if the input of run `n + 2` has the hash of an earlier intermediate file,
    the rename target `dclab-compress_<hash>` exists already — h5py refuses the link
    (`renameCollides`), the task aborts; no log is silently overwritten -/
theorem compress_equal_hash_collides (sfx : Nat → String) (cmd : Nat → Dset)
    (u : List (String × Dset)) (n j : Nat) (hj : j < n) (he : sfx (j + 1) = sfx (n + 1)) :
    renameCollides (sfx (n + 1)) (u ++ cmdHistory sfx cmd (n + 1)) = true := by
  simp only [renameCollides, cmdLogNames, List.any_cons, Bool.or_eq_true]
  left
  simp only [Bool.and_eq_true, List.contains_iff_mem, List.mem_map]
  refine ⟨⟨("dclab-compress", cmd n), ?_, rfl⟩,
          ⟨("dclab-compress" ++ "_" ++ sfx (j + 1), cmd j), ?_, by rw [he]⟩⟩
  · apply List.mem_append_right; simp [cmdHistory]
  · apply List.mem_append_right
    simp only [cmdHistory, List.mem_append, List.mem_map, List.mem_range]
    exact Or.inl ⟨j, hj, rfl⟩

/-- three runs with hashes a, b, c: three command logs under three names; with hashes a, b, b the
    third run collides -/
example : (cmdHistory (fun k => ["a", "b", "c"].getD k "") (fun k => { rows := [[k]], compressed := true }) 3).map (·.1)
    = ["dclab-compress_b", "dclab-compress_c", "dclab-compress"] := by decide
example : renameCollides "b" (cmdHistory (fun k => ["a", "b", "b"].getD k "")
    (fun k => { rows := [[k]], compressed := true }) 2) = true := by decide
example : renameCollides "c" (cmdHistory (fun k => ["a", "b", "c"].getD k "")
    (fun k => { rows := [[k]], compressed := true }) 2) = false := by decide

/-! ## 5. condense: which scalar features end up in the output -/

/-- **the scalar features of the condensed file are exactly the promised set**: what
    `rtdc_copy(features="scalar")` copied, every loaded scalar feature, and — when requested —
    every scalar basin / ancillary feature that is not already provided by internal basin data.
    Nothing else is written, nothing of the set is dropped. -/
theorem condense_scalar_set (env : Env) (c : CondIn) (f : String) :
    f ∈ condOut env c ↔
      f ∈ names (condCopy env c).events ∨ f ∈ scLoaded c ∨
      (c.storeBasin = true ∧ f ∈ c.basin ∧ f ∈ c.featsScalar ∧ f ∉ scBasInt env c) ∨
      (c.storeAnc = true ∧ f ∈ c.ancillary ∧ f ∈ c.featsScalar ∧ f ∉ scBasInt env c) := by
  simp only [condOut, condAdded, condFeatures, List.mem_append, List.mem_filter, mem_dedup,
    mem_scBasin, mem_scAnc, Bool.not_eq_true', List.contains_eq_mem, decide_eq_false_iff_not]
  by_cases hc : f ∈ names (condCopy env c).events
  · simp [hc]
  · by_cases hl : f ∈ scLoaded c
    · simp [hc, hl]
    · simp [hc, hl]

/-- no feature is written twice -/
theorem condense_no_duplicates (env : Env) (c : CondIn)
    (h : (names c.src.events).Nodup) : (condOut env c).Nodup := by
  have hsub : ∀ evs : List Feat, (names (evs.filterMap
      (copyEntry env (featureIter env { features := .scalar } c.src)))).Sublist (names evs) := by
    intro evs
    induction evs with
    | nil => exact List.Sublist.refl _
    | cons x xs ih =>
      simp only [List.filterMap_cons, names, List.map_cons] at ih ⊢
      cases hx : copyEntry env (featureIter env { features := .scalar } c.src) x with
      | none => exact List.Sublist.cons _ ih
      | some y =>
        have : y.name = x.name := by
          simp only [copyEntry] at hx
          split at hx
          · cases hn : copyNode env x.node with
            | none => simp [hn] at hx
            | some n => simp [hn] at hx; rw [← hx]
          · cases hx
        simp only [List.map_cons, this]
        exact List.Sublist.cons_cons _ ih
  have h1 : (names (condCopy env c).events).Nodup := by
    simp only [condCopy, rtdcCopy, copyEvents]
    exact List.Nodup.sublist (hsub c.src.events) h
  have h2 : (condAdded env c).Nodup :=
    List.Nodup.sublist List.filter_sublist (nodup_dedup _)
  simp only [condOut]
  rw [List.nodup_append]
  refine ⟨h1, h2, ?_⟩
  intro a ha b hb hab
  subst hab
  simp only [condAdded, List.mem_filter, Bool.not_eq_true', List.contains_eq_mem,
    decide_eq_false_iff_not] at hb
  exact hb.2 ha

/-- every added feature carries `ds[feat]` of the input, and the copied ones carry the stored
    data of the source -/
theorem condense_values (env : Env) (dsVal : String → List Row) (c : CondIn)
    (hwf : WF env c.src) (hunk : NoUnknownFeature env c.src) :
    (∀ f, f ∈ condAdded env c →
      (⟨f, .ds { rows := dsVal f, compressed := true }⟩ : Feat) ∈ (condense env dsVal c).events) ∧
    featsView env (fun _ => true) (condCopy env c).events
      = featsView env (fun _ => true) (c.src.events.filter fun f =>
          (featureIter env { features := .scalar } c.src).contains f.name) := by
  constructor
  · intro f hf
    simp only [condense, List.mem_append, List.mem_map]
    exact Or.inr ⟨f, hf, rfl⟩
  · simp only [condCopy, rtdcCopy, copyEvents]
    exact featsView_copy env hwf.grid _ _ _ (wf_events hwf)
      (fun f hf => hunk f (List.mem_append_left _ hf))

/-- loaded `[deform]`, basin `[area_um, userdef1]` (userdef1 comes with internal basin data),
    ancillary `[area_ratio]`: output = deform (copied) + area_um + area_ratio -/
example : condOut wEnv
    { src := { events := [⟨"deform", .ds { rows := [[1]] }⟩, ⟨"image", .ds { rows := [[9]] }⟩],
               basinEvents := some [⟨"userdef1", .ds { rows := [[4]] }⟩] },
      featsScalar := ["deform", "area_um", "userdef1", "area_ratio"], loaded := ["deform", "image"],
      basin := ["area_um", "userdef1"], ancillary := ["area_ratio", "deform"] }
    = ["deform", "area_um", "area_ratio"] := by decide

/-- F28 (repaired): without a stored scalar feature the `events` group did not exist when the
    computed features were to be added -/
theorem old_condense_raises_witness :
    condenseOldRaises wEnv
      { src := { events := [⟨"image", .ds { rows := [[9]] }⟩] }, featsScalar := ["bright_avg"],
        loaded := ["image"], basin := [], ancillary := ["bright_avg"] } = true ∧
    condOut wEnv
      { src := { events := [⟨"image", .ds { rows := [[9]] }⟩] }, featsScalar := ["bright_avg"],
        loaded := ["image"], basin := [], ancillary := ["bright_avg"] } = ["bright_avg"] := by
  decide

/-! ## 6. tdms2rtdc -/

/-- without an empty boundary image every event of every feature is exported, in order -/
theorem tdms2rtdc_rows (rows : List α) : tdms2rtdcRows false false rows = rows := by
  simp only [tdms2rtdcRows, skipMask, Bool.false_and, Bool.or_self, Bool.not_false]
  rw [List.map_const']
  simpa using sel_all rows

/-- skipping empty boundary images only ever removes events: no reordering, no duplication -/
theorem tdms2rtdc_sublist (a b : Bool) (rows : List α) :
    (tdms2rtdcRows a b rows).Sublist rows := sel_sublist _ _

example : tdms2rtdcRows true true [10, 11, 12, 13] = [11, 12] := by decide
example : tdms2rtdcRows true false [10, 11, 12, 13] = [11, 12, 13] := by decide
example : tdms2rtdcRows false true [10, 11, 12, 13] = [10, 11, 12] := by decide

/-- **exact characterisation of the boundary-image skipping**: the exported events are the source
    events without the first one iff the first flag is set and without the last one iff the second
    flag is set — nothing else is dropped, reordered or duplicated, for every event count (also 0
    and 1, where both flags hit the same event) -/
theorem tdms2rtdc_exact (a b : Bool) (rows : List α) :
    tdms2rtdcRows a b rows = tdmsKept a b rows := tdms2rtdcRows_closed a b rows

/-- the number of exported events -/
theorem tdms2rtdc_count (a b : Bool) (rows : List α) :
    (tdms2rtdcRows a b rows).length = rows.length - a.toNat - b.toNat := by
  rw [tdms2rtdc_exact]
  cases a <;> cases b <;> simp [tdmsKept] <;> omega

/-- event `i` of the output is event `i + a` of the source -/
theorem tdms2rtdc_index (a b : Bool) (rows : List α) (i : Nat)
    (hi : i < (tdms2rtdcRows a b rows).length) :
    (tdms2rtdcRows a b rows)[i]? = rows[i + a.toNat]? := by
  have hc := tdms2rtdc_count a b rows
  rw [hc] at hi
  rw [tdms2rtdc_exact]
  cases a <;> cases b <;>
    simp [tdmsKept, List.getElem?_dropLast, Nat.add_comm] at hi ⊢ <;> omega

/-- with `--include-empty-boundary-images` (both options off) the two flags are off whatever the
    data look like, so every event is exported -/
theorem tdms2rtdc_include_boundary_keeps_all (h o c i l : Bool) (rows : List α) :
    tdms2rtdcRows (skipFlags false false h o c i l).1 (skipFlags false false h o c i l).2 rows
      = rows := by
  simp [skipFlags, tdms2rtdc_rows]

/-- without an image the final event is never dropped; without image and contour nothing is -/
theorem tdms2rtdc_no_image_keeps_last (ini fin o c i l : Bool) :
    (skipFlags ini fin false o c i l).2 = false ∧ (skipFlags ini fin false o false i l).1 = false := by
  simp [skipFlags]

example : tdms2rtdcRows true true [10] = ([] : List Nat) := by decide
example : skipFlags true true true false false true true = (true, true) := by decide

/-- bulk conversion: what is exported for a measurement depends on that measurement only -/
theorem bulk_features_independent (ms : List (List String)) (i : Nat) :
    (bulkFeatures ms)[i]? = ms[i]? := rfl

/-- a feature list shared across the measurements of a directory loses the features the first
    measurement lacks (brightfield first, fluorescence second) -/
theorem shared_feature_list_loses_features_witness :
    bulkFeaturesShared [["area_cvx", "deform"], ["area_cvx", "deform", "fl1_max", "trace"]]
      ≠ bulkFeatures [["area_cvx", "deform"], ["area_cvx", "deform", "fl1_max", "trace"]] := by
  decide

/-! ## 7. the input is never touched, whatever the output is called -/

/-- **for every output name** (no suffix, other suffix, any number of dots, same stem, same
    directory, …), **every input name** (including inputs that carry the temporary suffix
    `.rtdc~`, possible with `check_suffix=False` — finding F64) and every set of existing files: no
    input file is among the unlinked paths, the temporary file or the output -/
theorem setup_never_touches_input (ins : List Path) (out : Path) (ex : Path → Bool)
    (tp : TaskPaths) (h : setupPaths ins out ex = some tp) :
    ∀ i, i ∈ ins → i ∉ tp.unlinked ∧ i ≠ tp.temp ∧ i ≠ tp.out := by
  intro i hi
  unfold setupPaths at h
  simp only at h
  split at h
  · cases h
  · rename_i hnot
    cases h
    simp only [Bool.or_eq_true, not_or, List.contains_iff_mem] at hnot
    have h1 : i ≠ correctedOut out := by
      intro e; exact hnot.1 (e ▸ hi)
    have h2 : i ≠ tempOf (correctedOut out) := by
      intro e; exact hnot.2 (e ▸ hi)
    refine ⟨?_, h2, h1⟩
    simp only [List.mem_append]
    rintro (h | h)
    · split at h
      · simp only [List.mem_singleton] at h; exact h1 h
      · cases h
    · split at h
      · simp only [List.mem_singleton] at h; exact h2 h
      · cases h

/-- an output whose temporary path `<out>.rtdc~` is one of the inputs is refused (F64) -/
theorem setup_refuses_input_as_temp (ins : List Path) (out : Path) (ex : Path → Bool)
    (h : tempOf (correctedOut out) ∈ ins) : setupPaths ins out ex = none := by
  simp [setupPaths, h]

/-- F64 (repaired): with only the F29 comparison, input `x.rtdc~` and output `x.rtdc` make the
    helper unlink the input (its temporary path *is* the input); the repaired helper refuses.
    This is the point the hypothesis `i.parts.getLast? ≠ some "rtdc~"` of the earlier version of
    `setup_never_touches_input` excluded. -/
theorem f64_temp_unlinks_input_witness :
    (∃ tp, setupPathsF29 [⟨[], ["x", "rtdc~"]⟩] ⟨[], ["x", "rtdc"]⟩ (fun _ => true) = some tp ∧
      (⟨[], ["x", "rtdc~"]⟩ : Path) ∈ tp.unlinked) ∧
    setupPaths [⟨[], ["x", "rtdc~"]⟩] ⟨[], ["x", "rtdc"]⟩ (fun _ => true) = none := by
  decide

/-- an output that (after the suffix correction) is one of the inputs is refused -/
theorem setup_refuses_input_as_output (ins : List Path) (out : Path) (ex : Path → Bool)
    (h : correctedOut out ∈ ins) : setupPaths ins out ex = none := by
  simp [setupPaths, h]

/-- appending `.rtdc` reaches an input `i = ….rtdc` only if the user literally named the input,
    with or without its suffix — never through an unrelated name such as `x.compressed` -/
theorem corrected_hits_input_only_literally (o i : Path) (h : correctedOut o = i) : o = i ∨ (o.dir = i.dir ∧ o.parts = i.parts.dropLast) := by
  unfold correctedOut at h
  split at h
  · exact Or.inl h
  · right
    rw [← h]; simp

/-- F29 (repaired): the old helper unlinked the input when the output resolved to it -/
theorem old_setup_unlinks_input_witness :
    (⟨[], ["x", "rtdc"]⟩ : Path) ∈
      (setupPathsOld ⟨[], ["x"]⟩ (fun p => p == ⟨[], ["x", "rtdc"]⟩)).unlinked ∧
    setupPaths [⟨[], ["x", "rtdc"]⟩] ⟨[], ["x"]⟩ (fun p => p == ⟨[], ["x", "rtdc"]⟩) = none := by
  decide

/-- replacing the last dotted part instead of appending sends `x.compressed` to the input
    `x.rtdc`; appending does not -/
theorem replacing_suffix_hits_input_witness :
    correctedOutReplacing ⟨[], ["x", "compressed"]⟩ = ⟨[], ["x", "rtdc"]⟩ ∧
    correctedOut ⟨[], ["x", "compressed"]⟩ = ⟨[], ["x", "compressed", "rtdc"]⟩ ∧
    correctedOut ⟨[], ["", "hidden"]⟩ = ⟨[], ["", "hidden", "rtdc"]⟩ := by decide

end DclabModel.C08
