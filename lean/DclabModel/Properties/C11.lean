import DclabModel.Lemmas.Meta
import DclabModel.Lemmas.MetaWriter
import DclabModel.Model.MetaGuess
import DclabModel.Gen.MetaTable
import DclabModel.Model.MetaBaseline
/-!
# C11 — Metadata values are type-normalised and survive storage unchanged

Property theorems only.  `conv c` is the model of the converter `c` of `meta_parse.py`
(`Model/Meta.lean`, repaired behaviour: F12 for `fboolorfloat`, F34 for `fintlist`), `h5` the
type map of the HDF5 attribute layer (measured against h5py on every run), `≃` Python
equality.  Theorems 1–3 quantify over **all** values `v`; the table theorems are
re-checked by the kernel against the table regenerated from `dclab.definitions`.
-/
namespace DclabModel.C11
open DclabModel.Meta PyVal
open DclabModel.Gen.MetaTable (tbl rows probes)

/-! ## 1. idempotence, per converter and for all of them -/

theorem fbool_idem {v w : PyVal} (h : conv .fbool v = .ok w) : conv .fbool w = .ok w := by
  obtain ⟨p, _, rfl⟩ := map_eq_ok h
  simp [conv, fboolCore_bool, Except.map]

theorem fint_idem {v w : PyVal} (h : conv .fint v = .ok w) : conv .fint w = .ok w := by
  obtain ⟨p, _, rfl⟩ := map_eq_ok h
  simp [conv, fintCore_int, Except.map]

theorem fintlist_idem {v w : PyVal} (h : conv .fintlist v = .ok w) :
    conv .fintlist w = .ok w := by
  obtain ⟨p, _, rfl⟩ := map_eq_ok h
  simp [conv, wrapInts, fintlistCore, fintlistWith, fintItems_ints, Except.map]

theorem f1dfloatduple_idem {v w : PyVal} (h : conv .f1dfloatduple v = .ok w) :
    conv .f1dfloatduple w = .ok w := by
  obtain ⟨p, _, rfl⟩ := map_eq_ok h
  simp [conv, wrapPair, f1dCore_pair, Except.map]

theorem f2dfloatarray_idem {v w : PyVal} (h : conv .f2dfloatarray v = .ok w) :
    conv .f2dfloatarray w = .ok w := by
  obtain ⟨p, _, rfl⟩ := map_eq_ok h
  simp [conv, f2dCore_wrap, Except.map]

theorem fboolorfloat_idem {v w : PyVal} (h : conv .fboolorfloat v = .ok w) :
    conv .fboolorfloat w = .ok w := by
  obtain ⟨p, hp, rfl⟩ := map_eq_ok h
  have : fbofCore p.wrap = .ok p :=
    fbofCore_wrap (fun x hx => fbofCore_f_nonzero (hx ▸ hp))
  simp [conv, this, Except.map]

theorem lcstr_idem {v w : PyVal} (h : conv .lcstr v = .ok w) : conv .lcstr w = .ok w := by
  obtain ⟨p, hp, rfl⟩ := map_eq_ok h
  rcases lcstrCore_out hp with ⟨t, rfl⟩ | ⟨t, _, rfl⟩ <;>
    simp [conv, lcstrCore, lower_idem, Except.map]

theorem float_idem {v w : PyVal} (h : conv .float v = .ok w) : conv .float w = .ok w := by
  obtain ⟨p, _, rfl⟩ := map_eq_ok h
  simp [conv, pyFloat, Scal.toF, Except.map]

theorem str_idem {v w : PyVal} (h : conv .str v = .ok w) : conv .str w = .ok w := by
  obtain ⟨p, _, rfl⟩ := map_eq_ok h
  simp [conv, strCore, Except.map]

/-- **Normalising twice equals normalising once**, for every converter and every value. -/
theorem conv_idem (c : Conv) {v w : PyVal} (h : conv c v = .ok w) : conv c w = .ok w := by
  cases c
  · exact fbool_idem h
  · exact fint_idem h
  · exact fintlist_idem h
  · exact f1dfloatduple_idem h
  · exact f2dfloatarray_idem h
  · exact fboolorfloat_idem h
  · exact lcstr_idem h
  · exact float_idem h
  · exact str_idem h

/-! ## 2. the result has the documented type -/

/-- `lcstr(b"AB")` is `b"ab"` (bytes, not the documented `str`): observation O11, excluded. -/
def NotLcstrOfBytes (c : Conv) (v : PyVal) : Prop := c = .lcstr → ∀ s, v ≠ sc (.bytes s)

/-- Full statement (false for `lcstr` applied to `bytes`, see `lcstr_bytes_untyped`):
    `conv c v = ok w → hasType w c.doc`. -/
theorem conv_typed_partial (c : Conv) {v w : PyVal} (h : conv c v = .ok w)
    (hb : NotLcstrOfBytes c v) : hasType w c.doc = true := by
  cases c <;> obtain ⟨p, hp, rfl⟩ := map_eq_ok h
  case fboolorfloat => cases p <;> rfl
  case f2dfloatarray => cases p <;> rfl
  case lcstr =>
    rcases lcstrCore_out hp with ⟨t, rfl⟩ | ⟨t, rfl, _⟩
    · rfl
    · exact absurd rfl (hb rfl t)
  all_goals rfl

theorem lcstr_bytes_untyped :
    conv .lcstr (sc (.bytes [65, 66])) = .ok (sc (.bytes [97, 98])) ∧
    hasType (sc (.bytes [97, 98])) Conv.lcstr.doc = false := by decide

/-! ## 3. storage round trip through the HDF5 attribute layer -/

/-- **What was normalised, written as an HDF5 attribute, read back and normalised again is the
normalised value** — for every converter that occurs in a stored section (`fintlist` only
occurs in `filtering`, see `table_fintlist_not_stored` and `fintlist_h5_breaks`). -/
theorem conv_storage_roundtrip (c : Conv) (hc : c ≠ .fintlist) {v w : PyVal}
    (h : conv c v = .ok w) (hb : NotLcstrOfBytes c v) :
    ∃ w', conv c (h5 w) = .ok w' ∧ w' ≃ w := by
  refine ⟨w, ?_, pyEq_refl w⟩
  cases c <;> obtain ⟨p, hp, rfl⟩ := map_eq_ok h
  case fbool => simp [conv, h5, fboolCore_npBool, Except.map]
  case fint => simp [conv, h5, fintCore_npInt, Except.map]
  case fintlist => exact absurd rfl hc
  case f1dfloatduple =>
    simp only [conv]
    rw [h5_wrapPair, f1dCore_arr]
    rfl
  case f2dfloatarray => simp [conv, f2dCore_h5_wrap, Except.map]
  case fboolorfloat =>
    have : fbofCore (h5 p.wrap) = .ok p :=
      fbofCore_h5_wrap (fun x hx => fbofCore_f_nonzero (hx ▸ hp))
    simp [conv, this, Except.map]
  case lcstr =>
    rcases lcstrCore_out hp with ⟨t, rfl⟩ | ⟨t, rfl, _⟩
    · simp [conv, h5, lcstrCore, lower_idem, Except.map]
    · exact absurd rfl (hb rfl t)
  case float => simp [conv, h5, pyFloat, Scal.toF, Except.map]
  case str => simp [conv, h5, strCore, Except.map]

/-- keys without converter (`user` section, `<feat> min|max`): the attribute layer changes the
Python type but not the value -/
theorem identity_storage_roundtrip (v : PyVal) (hb : ∀ s, v ≠ sc (.bytes s)) : h5 v ≃ v :=
  h5_pyEq v hb

/-- a list of integers comes back as an array, which `fintlist` does not accept -/
theorem fintlist_h5_breaks :
    conv .fintlist (h5 (list [.int 1, .int 2])) = .error .other := by decide

/-! ### F12 — the unrepaired `fboolorfloat` breaks the round trip -/

theorem F12_old_roundtrip_fails :
    convOld .fboolorfloat (sc (.bool true)) = .ok (sc (.bool true)) ∧
    convOld .fboolorfloat (h5 (sc (.bool true))) = .error .value := by decide

theorem F12_old_rejects_numpy_integer :
    convOld .fboolorfloat (sc (.npInt 5)) = .error .value ∧
    conv .fboolorfloat (sc (.npInt 5)) = .ok (sc (.float (F.ofInt 5))) := by decide

/-! ### F34 — the unrepaired `fintlist` is not idempotent (`"0,1"` ↦ `[0, 1]` ↦ `[1]`) -/

theorem F34_old_not_idempotent :
    convOld .fintlist (sc (.str [48, 44, 49])) = .ok (list [.int 0, .int 1]) ∧
    convOld .fintlist (list [.int 0, .int 1]) = .ok (list [.int 1]) := by decide +kernel

/-! ## 4. item assignment: case-insensitive, rejecting, normalising -/

/-- assignment only depends on the lower-cased key -/
theorem setitem_case_insensitive (t : Tbl) (sec : Str) (d : Dict) (k₁ k₂ : Str) (v : PyVal)
    (h : lower k₁ = lower k₂) : t.setitem sec d k₁ v = t.setitem sec d k₂ v := by
  unfold Tbl.setitem; rw [h]

theorem setitem_upper (t : Tbl) (sec : Str) (d : Dict) (k : Str) (v : PyVal) :
    t.setitem sec d (upper k) v = t.setitem sec d k v :=
  setitem_case_insensitive t sec d _ _ v (lower_upper k)

theorem setitem_lower (t : Tbl) (sec : Str) (d : Dict) (k : Str) (v : PyVal) :
    t.setitem sec d (lower k) v = t.setitem sec d k v :=
  setitem_case_insensitive t sec d _ _ v (lower_idem k)

theorem verify_false_warns (t : Tbl) (sec k : Str) (ws : List Warn)
    (h : t.verify sec k = .ok (false, ws)) : ws ≠ [] := by
  unfold Tbl.verify at h
  repeat' split at h
  all_goals (cases h <;> simp)

/-- **Empty strings, `None` and unknown keys leave the section unchanged and raise a
warning.** -/
theorem rejects (t : Tbl) (sec : Str) (d : Dict) (key : Str) (v : PyVal)
    (valid : Bool) (w0 : List Warn) (hv : t.verify sec (lower key) = .ok (valid, w0))
    (h : v = sc (.str []) ∨ v = sc .none ∨ valid = false) :
    ∃ ws, t.setitem sec d key v = .ok (d, ws) ∧ ws ≠ [] := by
  unfold Tbl.setitem
  simp only [hv]
  rcases h with rfl | rfl | rfl
  · cases valid
    · exact ⟨w0, by simp, verify_false_warns t sec _ w0 hv⟩
    · exact ⟨w0 ++ [.empty], by simp, by simp⟩
  · cases valid
    · exact ⟨w0 ++ [.badValue], by simp, by simp⟩
    · exact ⟨w0 ++ [.badValue], by simp, by simp⟩
  · by_cases hn : v = sc .none
    · exact ⟨w0 ++ [.badValue], by simp [hn], by simp⟩
    · exact ⟨w0, by simp [hn], verify_false_warns t sec _ w0 hv⟩

theorem get_put (d : Dict) (k : Str) (w : PyVal) : (d.put (lower k) w).get? k = some w := by
  simp [Dict.put, Dict.get?]

/-- **A valid assignment stores the normalised value** (spec), whatever the case of the key. -/
theorem setitem_stores (t : Tbl) (sec : Str) (d : Dict) (key : Str) (v w : PyVal)
    (w0 : List Warn) (hv : t.verify sec (lower key) = .ok (true, w0))
    (h1 : v ≠ sc (.str [])) (h2 : v ≠ sc .none) (hn : t.normalise sec key v = .ok w) :
    ∃ d' ws, t.setitem sec d key v = .ok (d', ws) ∧ d'.get? key = some w := by
  unfold Tbl.normalise at hn
  refine ⟨d.put (lower key) w, (match t.type sec (lower key) with
    | some ty => if hasType v ty then w0 else w0 ++ [.wrongType]
    | none => w0), ?_, get_put d key w⟩
  simp [Tbl.setitem, hv, h1, h2, hn]
  cases t.type sec (lower key) <;> rfl

/-- a converter error propagates and nothing is stored -/
theorem setitem_error (t : Tbl) (sec : Str) (d : Dict) (key : Str) (v : PyVal) (e : Err)
    (w0 : List Warn) (hv : t.verify sec (lower key) = .ok (true, w0))
    (h1 : v ≠ sc (.str [])) (h2 : v ≠ sc .none) (hn : t.normalise sec key v = .error e) :
    t.setitem sec d key v = .error e := by
  unfold Tbl.normalise at hn
  unfold Tbl.setitem
  simp [hv, h1, h2, hn]

/-- normalisation of a key is idempotent (converter keys by `conv_idem`, others trivially) -/
theorem normalise_idem (t : Tbl) (sec key : Str) {v w : PyVal}
    (h : t.normalise sec key v = .ok w) : t.normalise sec key w = .ok w := by
  unfold Tbl.normalise Tbl.convert at *
  split at h
  · exact conv_idem _ h
  · rfl

/-- `update` / `_convert_keys` / `Configuration(cfg=…)` are item assignments in order -/
theorem update_cons (t : Tbl) (sec : Str) (d : Dict) (k : Str) (v : PyVal)
    (r : List (Str × PyVal)) :
    t.update sec d ((k, v) :: r) =
      match t.setitem sec d k v with
      | .error e => .error e
      | .ok (d', w) => match t.update sec d' r with
        | .error e => .error e
        | .ok (d'', w') => .ok (d'', w ++ w') := rfl

/-- **Configuration file route = item assignment of the text**: `load_from_file` converts the
text and `Configuration.update` assigns (and converts) the result; by idempotence the same value
is stored as by assigning the text directly. -/
theorem file_route_agrees (t : Tbl) (sec : Str) (d : Dict) (key text : Str) (w : PyVal)
    (w0 : List Warn) (hv : t.verify sec (lower key) = .ok (true, w0)) (ht : text ≠ [])
    (hw1 : w ≠ sc (.str [])) (hw2 : w ≠ sc .none)
    (hn : t.normalise sec key (sc (.str text)) = .ok w) :
    (∃ d' ws, t.setitem sec d key (sc (.str text)) = .ok (d', ws) ∧ d'.get? key = some w) ∧
    (∃ d' ws, t.fileRoute sec d key text = .ok (d', ws) ∧ d'.get? key = some w) := by
  constructor
  · exact setitem_stores t sec d key _ w w0 hv (by simpa using ht) (by simp) hn
  · have hn' := hn
    unfold Tbl.normalise at hn'
    unfold Tbl.fileRoute
    simp only [hn']
    exact setitem_stores t sec d key w w w0 hv hw1 hw2 (normalise_idem t sec key hn)

/-- **`store_metadata` then `parse_config`** for a key with a converter other than `fintlist`:
the re-opened value equals the normalised one. -/
theorem storeLoad_roundtrip (t : Tbl) (sec key : Str) (c : Conv) (hf : t.func sec key = some c)
    (hc : c ≠ .fintlist) (v w : PyVal) (hb : NotLcstrOfBytes c v)
    (h : t.convert sec key v = .ok w) :
    ∃ w', t.convert sec key (h5 w) = .ok w' ∧ w' ≃ w := by
  unfold Tbl.convert at *
  simp only [hf] at *
  exact conv_storage_roundtrip c hc h hb

/-! ## 5. the regenerated key table (`decide +kernel`, re-checked on every run) -/

/-- every key's converter is one of the nine and its documented type is `func_types[c]` -/
theorem table_converters_documented :
    rows.all (fun r => match Conv.ofName r.conv with
      | some c => Ty.ofName r.typ == some c.doc
      | none => false) = true := by decide +kernel

/-- every key of the committed reference (`Model/MetaBaseline.lean`) still has its documented
converter in the regenerated table (a converter changed in `meta_const.py` breaks this) -/
theorem table_extends_baseline :
    baseline.all (fun b => tbl.func b.1 b.2.1 == some b.2.2) = true := by decide +kernel

/-- sections and keys are lower-case and every key is found under its own name (no duplicate
shadows another row) -/
theorem table_keys_lowercase_unique :
    rows.all (fun r => lower r.key == r.key && lower r.sec == r.sec &&
      tbl.find r.sec r.key == some r) = true := by decide +kernel

/-- looking a table key up in upper case gives the same converter, type and validity -/
theorem table_lookup_case_insensitive :
    rows.all (fun r =>
      tbl.func r.sec (lower (upper r.key)) == tbl.func r.sec r.key &&
      tbl.type r.sec (lower (upper r.key)) == tbl.type r.sec r.key &&
      (match tbl.verify r.sec (lower (upper r.key)) with
       | .ok (true, []) => true
       | _ => false)) = true := by decide +kernel

/-- `fintlist` (whose output does not survive the attribute layer) is not used in any stored
section -/
theorem table_fintlist_not_stored :
    rows.all (fun r => r.conv != "fintlist" || !tbl.stored.contains r.sec) = true := by
  decide +kernel

/-- stored sections are sections; `user`, `filtering`, `calculation` are not stored by table -/
theorem table_sections :
    (tbl.stored.all tbl.sections.contains && !tbl.stored.contains sUser &&
     !tbl.stored.contains sFiltering) = true := by decide +kernel

/-- the model's pattern logic (`online_filter:<f1>,<f2> polygon points|soft limit`,
`<feat> min|max`, `user`) answers like `config_key_exists`, `get_config_value_func`,
`get_config_value_type` on the probed keys -/
theorem table_probes_agree : probes.all (·.agrees tbl) = true := by decide +kernel

/-! ## 6. histories: feature registry, repeated `store_metadata`, configuration-file lines -/

theorem registered_after_reg (r : List Str) (n : Str) : n ∈ regStep r (.reg n) := by
  simp only [regStep, List.contains_eq_mem, decide_eq_true_eq]
  split
  · assumption
  · simp

theorem not_registered_after_dereg (r : List Str) (n : Str) : n ∉ regStep r (.dereg n) := by
  simp [regStep]

/-- a feature is known iff it is built in or currently registered -/
theorem feature_known_iff (t : Tbl) (reg : List Str) (n : Str) :
    (t.withFeats reg).featExists n = (t.featExists n || reg.contains n) :=
  featExists_withFeats t reg n

/-- **No history dependence**: whatever was registered, deregistered or asked before, a query is
answered as by a fresh table with the current registry. -/
theorem runHist_append_query (t : Tbl) (ops : List HOp) (reg : List Str) (sec key : Str)
    (v : PyVal) :
    t.runHist reg (ops ++ [.q sec key v]) =
      t.runHist reg ops ++ [(t.withFeats ((regOps ops).foldl regStep reg)).setitem sec [] key v] := by
  induction ops generalizing reg with
  | nil => rfl
  | cons op rest ih =>
    cases op with
    | r o => simpa [Tbl.runHist, regOps] using ih (regStep reg o)
    | q s k w => simp [Tbl.runHist, regOps, ih reg]

/-- lines whose value is empty after stripping are skipped -/
theorem fileLine_empty_skipped (t : Tbl) (sec : Str) (d : Dict) (key raw : Str)
    (h : cleanText raw = []) : t.fileLine sec d key raw = .ok (d, []) := by
  simp [Tbl.fileLine, h]

/-- **Configuration-file line = item assignment of the cleaned text**, for values made of
arbitrary characters (`cleanText`: cut at `#`, blanks and quotes stripped at the ends). -/
theorem fileLine_agrees (t : Tbl) (sec : Str) (d : Dict) (key raw : Str) (w : PyVal)
    (w0 : List Warn) (hv : t.verify sec (lower key) = .ok (true, w0)) (ht : cleanText raw ≠ [])
    (hw1 : w ≠ sc (.str [])) (hw2 : w ≠ sc .none)
    (hn : t.normalise sec key (sc (.str (cleanText raw))) = .ok w) :
    (∃ d' ws, t.setitem sec d key (sc (.str (cleanText raw))) = .ok (d', ws) ∧
      d'.get? key = some w) ∧
    (∃ d' ws, t.fileLine sec d key raw = .ok (d', ws) ∧ d'.get? key = some w) := by
  have := file_route_agrees t sec d key (cleanText raw) w w0 hv ht hw1 hw2 hn
  simpa [Tbl.fileLine, ht] using this

/-- strings without `#` and without blank/quote at either end are read back verbatim
(`save` → `load` is a fixed point on them) -/
theorem fileLine_plain_verbatim (s : Str) (h : Plain s) : cleanText s = s :=
  cleanText_plain s h

/-- several `store_metadata` calls are one call with the concatenated entries -/
theorem storeMeta_append (t : Tbl) (a : Attrs) (ws1 ws2 : List (Str × Str × PyVal)) :
    t.storeMeta a (ws1 ++ ws2) =
      match t.storeMeta a ws1 with
      | .error e => .error e
      | .ok a' => t.storeMeta a' ws2 := by
  induction ws1 generalizing a with
  | nil => rfl
  | cons e r ih =>
    obtain ⟨s, k, v⟩ := e
    simp only [List.cons_append, Tbl.storeMeta]
    cases t.storedValue s k v with
    | error e => rfl
    | ok w => exact ih _

/-- **Last write wins**: after any successful history of `store_metadata` entries every
attribute holds the (normalised, type-mapped) value written last, untouched keys keep theirs. -/
theorem store_last_wins (t : Tbl) (ws : List (Str × Str × PyVal)) (a a' : Attrs)
    (h : t.storeMeta a ws = .ok a') (K : Str × Str) :
    a'.get? K = match lastWrite ws K with
      | some v => (t.storedValue K.1 K.2 v).toOption
      | none => a.get? K := by
  induction ws generalizing a with
  | nil =>
    simp only [Tbl.storeMeta] at h
    cases h; rfl
  | cons e r ih =>
    obtain ⟨s, k, v⟩ := e
    simp only [Tbl.storeMeta] at h
    cases hs : t.storedValue s k v with
    | error e => simp [hs] at h
    | ok w =>
      simp only [hs] at h
      have := ih _ h
      simp only [lastWrite]
      cases hl : lastWrite r K with
      | some x => simpa [hl] using this
      | none =>
        simp only [hl] at this ⊢
        by_cases hk : (s, k) = K
        · subst hk
          simp [this, attrs_get_put_same, hs, Except.toOption]
        · simp [hk, this, attrs_get_put_other _ _ _ _ hk]

/-! ## non-vacuity -/

example : conv .fbool (sc (.str [84, 114, 117, 101])) = .ok (sc (.bool true)) := by decide
example : conv .fint (sc (.float (.fin (5 / 2)))) = .ok (sc (.int 2)) := by decide +kernel
example : conv .fboolorfloat (h5 (sc (.bool true))) = .ok (sc (.bool true)) := by decide
example : conv .fintlist (list [.int 0, .int 1]) = .ok (list [.int 0, .int 1]) := by decide
example : (tbl.setitem [115, 101, 116, 117, 112] [] [73, 68, 69, 78, 84, 73, 70, 73, 69, 82]
    (sc (.str [65]))).toOption.map (·.1) =
    some [([105, 100, 101, 110, 116, 105, 102, 105, 101, 114], sc (.str [65]))] := by
  decide +kernel
example : ∃ ws, tbl.setitem [115, 101, 116, 117, 112] [] [120] (sc (.int 1)) = .ok ([], ws)
    ∧ ws ≠ [] := ⟨[.unknownKey], by decide +kernel, by decide⟩
example : rows.length > 100 := by decide +kernel

example : cleanText [32, 39, 97, 59, 98, 39, 32, 35, 120] = [97, 59, 98] := by decide
example : registry [.reg [118], .reg [119], .dereg [118]] = [[119]] := by decide
example : lastWrite [([117], [107], sc (.int 1)), ([117], [107], sc (.int 2))] ([117], [107])
    = some (sc (.int 2)) := by decide

/-! ## the writer's completion of metadata from the data (`rectify_metadata`) and the export route -/

/-- **Frame**: the writer's completion touches no key outside the five data-describing ones. -/
theorem rectify_frame (d : DataShape) (a : Attrs) {K : Str × Str} (h : K ∉ dataKeys) :
    (rectify d a).get? K = a.get? K := by
  obtain ⟨h1, h2, h3, h4, h5⟩ := not_dataKey h
  unfold rectify
  cases d.trace <;> cases d.image <;> simp only [] <;> split <;>
    simp [attrs_get_put, h1, h2, h3, h4, h5]

/-- **Acquisition metadata present in the source are carried over**: a channel count that is in
the attributes survives the completion, whatever features the file holds. -/
theorem rectify_channel_count_kept (d : DataShape) (a : Attrs) (v : PyVal)
    (h : a.get? kChannels = some v) : (rectify d a).get? kChannels = some v := by
  obtain ⟨_, _, _, _, _, _, _, h8, h9, _⟩ := dataKeys_distinct
  unfold rectify
  cases d.trace <;> cases d.image <;> simp only [] <;> split <;>
    simp_all [attrs_get_put, Ne.symm h8, Ne.symm h9]

/-- an absent channel count is added iff fluorescence maxima are present -/
theorem rectify_channel_count_added (d : DataShape) (a : Attrs) (h : a.get? kChannels = none) :
    (rectify d a).get? kChannels = if d.flCount = 0 then none else some (npI d.flCount) := by
  obtain ⟨_, _, _, _, _, _, _, h8, h9, _⟩ := dataKeys_distinct
  unfold rectify
  cases d.trace <;> cases d.image <;> simp only [] <;> split <;>
    simp_all [attrs_get_put, Ne.symm h8, Ne.symm h9]

/-- the event count is the number of events in the file -/
theorem rectify_event_count (d : DataShape) (a : Attrs) :
    (rectify d a).get? kEventCount = some (npI d.events) := by
  obtain ⟨h1, h2, h3, h4, _⟩ := dataKeys_distinct
  unfold rectify
  cases d.trace <;> cases d.image <;> simp only [] <;> split <;>
    simp [attrs_get_put, Ne.symm h1, Ne.symm h2, Ne.symm h3, Ne.symm h4]

/-- samples per event / roi size follow the data when the data are present, else are carried -/
theorem rectify_samples (d : DataShape) (a : Attrs) :
    (rectify d a).get? kSamples = match d.trace with
      | some n => some (npI n)
      | none => a.get? kSamples := by
  obtain ⟨h1, _, _, _, h5, h6, h7, _⟩ := dataKeys_distinct
  unfold rectify
  cases d.trace <;> cases d.image <;> simp only [] <;> split <;>
    simp [attrs_get_put, h1, Ne.symm h5, Ne.symm h6, Ne.symm h7]

theorem rectify_roi (d : DataShape) (a : Attrs) :
    ((rectify d a).get? kRoiX, (rectify d a).get? kRoiY) = match d.image with
      | some (r, c) => (some (npI c), some (npI r))
      | none => (a.get? kRoiX, a.get? kRoiY) := by
  obtain ⟨_, _, h3, h4, _, h6, h7, h8, h9, h10⟩ := dataKeys_distinct
  unfold rectify
  cases d.trace <;> cases d.image <;> simp only [] <;> split <;>
    simp [attrs_get_put, h3, h4, h6, h7, h8, h9, Ne.symm h10]

/-- completing twice is completing once (observed through every key) -/
theorem rectify_idem (d : DataShape) (a : Attrs) (K : Str × Str) :
    (rectify d (rectify d a)).get? K = (rectify d a).get? K := by
  by_cases hK : K ∈ dataKeys
  · simp only [dataKeys, List.mem_cons, List.not_mem_nil, or_false] at hK
    rcases hK with rfl | rfl | rfl | rfl | rfl
    · simp [rectify_event_count]
    · rw [rectify_samples d (rectify d a), rectify_samples d a]; cases d.trace <;> rfl
    · cases hc : (rectify d a).get? kChannels with
      | some v => exact rectify_channel_count_kept d _ v hc
      | none =>
        rw [rectify_channel_count_added d _ hc]
        cases ha : a.get? kChannels with
        | some v => rw [rectify_channel_count_kept d a v ha] at hc; cases hc
        | none => rw [rectify_channel_count_added d a ha] at hc; exact hc
    · have h1 := rectify_roi d (rectify d a); have h2 := rectify_roi d a
      cases hd : d.image <;> simp_all [Prod.ext_iff]
    · have h1 := rectify_roi d (rectify d a); have h2 := rectify_roi d a
      cases hd : d.image <;> simp_all [Prod.ext_iff]
  · rw [rectify_frame d _ hK]

/-- **Export carries the metadata over**: after `export.hdf5` (source configuration through
`store_metadata`, completion from the output's data) every key that does not describe the data
holds the normalised, type-mapped value of the source — for ALL feature sets of the output. -/
theorem export_carries (t : Tbl) (d : DataShape) (es : List (Str × Str × PyVal)) (a' : Attrs)
    (h : t.exportMeta d es = .ok a') {K : Str × Str} (hK : K ∉ dataKeys) :
    a'.get? K = match lastWrite es K with
      | some v => (t.storedValue K.1 K.2 v).toOption
      | none => none := by
  unfold Tbl.exportMeta at h
  obtain ⟨a, ha, rfl⟩ := map_eq_ok h
  rw [rectify_frame d a hK, store_last_wins t es [] a ha K]
  cases lastWrite es K <;> rfl

/-- … and so does the channel count whenever the source has one -/
theorem export_carries_channel_count (t : Tbl) (d : DataShape) (es : List (Str × Str × PyVal))
    (a' : Attrs) (h : t.exportMeta d es = .ok a') (v : PyVal)
    (hv : lastWrite es kChannels = some v) :
    a'.get? kChannels = (t.storedValue kChannels.1 kChannels.2 v).toOption := by
  unfold Tbl.exportMeta at h
  obtain ⟨a, ha, rfl⟩ := map_eq_ok h
  have hs := store_last_wins t es [] a ha kChannels
  rw [hv] at hs
  simp only [] at hs
  cases hw : t.storedValue kChannels.1 kChannels.2 v with
  | error e =>
    -- a failing converter would have aborted `store_metadata`
    exfalso
    have : ∀ (es : List (Str × Str × PyVal)) (a0 a : Attrs), t.storeMeta a0 es = .ok a →
        lastWrite es kChannels = some v → False := by
      intro es
      induction es with
      | nil => intro _ _ _ h; simp [lastWrite] at h
      | cons e r ih =>
        obtain ⟨s, k, x⟩ := e
        intro a0 a hst hl
        simp only [Tbl.storeMeta] at hst
        cases hsv : t.storedValue s k x with
        | error e => simp [hsv] at hst
        | ok w =>
          simp only [hsv] at hst
          simp only [lastWrite] at hl
          cases hr : lastWrite r kChannels with
          | some y => rw [hr] at hl; cases hl; exact ih _ _ hst hr
          | none =>
            rw [hr] at hl
            by_cases hk : (s, k) = kChannels
            · simp only [hk, if_true] at hl; cases hl
              have : s = kChannels.1 ∧ k = kChannels.2 := by cases hk; exact ⟨rfl, rfl⟩
              rw [this.1, this.2, hw] at hsv; cases hsv
            · simp [hk] at hl
    exact this es [] a ha hv
  | ok w =>
    simp only [hw, Except.toOption] at hs
    simpa [Except.toOption] using rectify_channel_count_kept d a w hs

/-- non-vacuity: a 3-channel measurement exported with two maxima keeps `channel count = 3`; a
file without the attribute gets the number of maxima -/
example : (rectify ⟨5, none, true, true, false, none⟩ [(kChannels, npI 3)]).get? kChannels
    = some (npI 3) := by decide
example : (rectify ⟨5, some 9, true, false, false, some (12, 16)⟩ []).get? kChannels
    = some (npI 1) := by decide

/-! ## type guessing (`keyval_str2typ`) and text rendering (`keyval_typ2str`) -/

/-- **Text round trip of strings, exact guard**: a string value written by `tostring` (verbatim)
and guessed back by `keyval_str2typ` is the same string **iff** `StrGuard` holds -/
theorem guess_str_roundtrip (t : Tbl) (s : Str) (h : StrGuard t s = true) :
    t.guess s = .ok (some (sc (.str s))) := by
  simp only [StrGuard, Bool.and_eq_true, Bool.or_eq_true, ne_eq, beq_iff_eq,
    Bool.not_eq_true', Option.isNone_iff_eq_none, decide_eq_true_eq] at h
  obtain ⟨⟨⟨⟨⟨h1, h2⟩, h3⟩, h4⟩, h5⟩, h6⟩ := h
  unfold Tbl.guess
  simp only [h2, h1, if_false, h3, h4, h5, Bool.false_eq_true]
  rcases h6 with h6 | h6
  · simp [h6]
  · simp only [h6]; split <;> rfl

/-- booleans: `True`/`False` are read back as booleans -/
theorem guess_bool_roundtrip (t : Tbl) (fmt : F → Str) (b : Bool) :
    (typ2str fmt (sc (.bool b))).toOption.map t.guess = some (.ok (some (sc (.bool b)))) := by
  cases b <;> rfl

/-- the empty list is read back as the empty list -/
theorem guess_empty_list (t : Tbl) (fmt : F → Str) :
    (typ2str fmt (list [])).toOption.map t.guess = some (.ok (some (list []))) := by rfl

/-- outside the guard (witnesses, replayed on the code by the harness): strings that look like
numbers, booleans, lists, or carry quotes/blanks do not come back -/
theorem guess_str_outside_guard :
    tbl.guess [49, 101, 51] = .ok (some (sc (.float (.fin 1000)))) ∧          -- "1e3"
    tbl.guess [49, 44, 53] = .ok (some (sc (.float (.fin (3 / 2))))) ∧        -- "1,5"
    tbl.guess [89] = .ok (some (sc (.bool true))) ∧                             -- "Y"
    tbl.guess [39, 97, 39] = .ok (some (sc (.str [97]))) ∧                      -- "'a'"
    tbl.guess [91, 97, 93] = .error .value ∧                                    -- "[a]"
    tbl.guess [110, 97, 110] = .ok (some (sc (.float .nan))) := by              -- "nan"
  decide +kernel

/-- a list of booleans is rendered as `[True]`, which `keyval_str2typ` refuses (ValueError) -/
theorem guess_bool_list_breaks (fmt : F → Str) :
    (typ2str fmt (list [.bool true])).toOption.map tbl.guess = some (.error .value) := by
  rfl

end DclabModel.C11
