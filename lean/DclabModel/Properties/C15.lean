import DclabModel.Lemmas.Poly
import DclabModel.Lemmas.PolyText
import Mathlib.Algebra.Order.Field.Rat
/-!
# C15 — Polygon filters classify points by exact even-odd containment

Property theorems only.  `K` is an arbitrary linearly ordered field; the executable model run by
the driver (`Drive/C15.lean`) is the same definition at `K = Rat` (see the `example`s at the end).
The model (`Model/Poly.lean`) mirrors `geometry.pyx:point_in_polygon`, `_points_in_poly`,
`PolygonFilter.filter` and `PolygonFilter.save/_load/import_all/_set_unique_id`.

1. `crosses_swap` – the half-open crossing test does not depend on the edge's direction
2. `pip_eq_spec`, `pip_cyclic_shift`, `pip_rotate`, `pip_reverse`, `pip_repeat_closing_vertex`,
   `pip_insert_duplicate_vertex` – the result depends only on the closed polygonal curve
3. `inverted_is_complement`
4. `crosses_iff_ray_hits`, `crosses_iff_openHit`, `generic_ray`, `perturbation`,
   `even_odd_off_boundary` – the geometric meaning: exact even-odd containment off the boundary
5. `import_all_save_all`, `roundtrip_exact`, `roundtrip_classification`, `setUniqueId_spec`,
   and the F15 witnesses – persistence
-/
set_option linter.unusedSectionVars false
namespace DclabModel.C15
open DclabModel.Poly

variable {K : Type} [Field K] [LinearOrder K] [IsStrictOrderedRing K]

/-- the loop of the C code computes the parity of the crossing flags of the cyclic edges -/
theorem pipLoop_eq (p prev : Pt K) (l : List (Pt K)) (c : Bool) :
    pipLoop p prev l c = xor c (parity ((edgesFrom prev l).map fun e => crosses e.1 e.2 p)) := by
  induction l generalizing prev c with
  | nil => simp [pipLoop, edgesFrom, parity]
  | cons v r ih =>
    simp only [pipLoop, edgesFrom, List.map_cons, parity, ih]
    cases crosses v prev p <;> cases c <;> simp

/-- **impl refines spec**: the loop result is the parity over the edge list. -/
theorem pip_eq_spec (poly : List (Pt K)) (p : Pt K) : pip poly p = pipSpec poly p := by
  cases poly with
  | nil => rfl
  | cons v r => simp [pip, pipSpec, edges, pipLoop_eq]

/-- 1. The crossing test does not depend on the direction in which the edge is traversed. -/
theorem crosses_swap (a b p : Pt K) : crosses a b p = crosses b a p := crosses_swap' a b p

/-- parity over a concatenation of edge lists commutes -/
private theorem par_comm (f : Pt K × Pt K → Bool) (l₁ l₂ : List (Pt K × Pt K)) :
    parity ((l₁ ++ l₂).map f) = parity ((l₂ ++ l₁).map f) := by
  simp [List.map_append, parity_append, Bool.xor_comm]

/-- 2a. **Starting vertex.** The classification does not depend on the vertex at which the
polygon's vertex list starts (every cyclic shift). -/
theorem pip_cyclic_shift (l₁ l₂ : List (Pt K)) (p : Pt K) :
    pip (l₁ ++ l₂) p = pip (l₂ ++ l₁) p := by
  rw [pip_eq_spec, pip_eq_spec]
  cases l₁ with
  | nil => simp
  | cons a r₁ =>
    cases l₂ with
    | nil => simp
    | cons b r₂ =>
      have e1 : edges (a :: r₁ ++ b :: r₂)
          = edgesFrom (lastD b r₂) (a :: r₁) ++ edgesFrom (lastD a r₁) (b :: r₂) := by
        show edgesFrom (lastD a (r₁ ++ b :: r₂)) (a :: r₁ ++ b :: r₂) = _
        rw [lastD_append, edgesFrom_append]; rfl
      have e2 : edges (b :: r₂ ++ a :: r₁)
          = edgesFrom (lastD a r₁) (b :: r₂) ++ edgesFrom (lastD b r₂) (a :: r₁) := by
        show edgesFrom (lastD b (r₂ ++ a :: r₁)) (b :: r₂ ++ a :: r₁) = _
        rw [lastD_append, edgesFrom_append]; rfl
      unfold pipSpec
      rw [e1, e2]
      exact par_comm _ _ _

theorem pip_rotate (poly : List (Pt K)) (k : Nat) (p : Pt K) :
    pip (poly.drop k ++ poly.take k) p = pip poly p := by
  rw [pip_cyclic_shift, List.take_append_drop]

/-- 2b. **Orientation.** Traversing the vertices in the opposite direction gives the same
classification. -/
theorem pip_reverse (poly : List (Pt K)) (p : Pt K) : pip poly.reverse p = pip poly p := by
  rw [pip_eq_spec, pip_eq_spec]
  cases poly with
  | nil => rfl
  | cons v r =>
    -- C = reverse (v :: r) = h :: t, with h = last vertex and lastD h t = v
    cases hc : (v :: r).reverse with
    | nil => simp at hc
    | cons h t =>
      have hh : h = lastD v r ∧ lastD h t = v := by
        have : h :: t = r.reverse ++ [v] := by rw [← hc]; simp
        rcases hr : r.reverse with _ | ⟨h', t'⟩
        · have hr' : r = [] := by simpa using hr
          rw [hr] at this; simp at this; obtain ⟨rfl, rfl⟩ := this
          subst hr'; exact ⟨rfl, rfl⟩
        · rw [hr] at this
          simp only [List.cons_append, List.cons.injEq] at this
          obtain ⟨rfl, rfl⟩ := this
          refine ⟨?_, by rw [lastD_append]; rfl⟩
          have : r = (h :: t').reverse := by rw [← hr]; simp
          rw [this, List.reverse_cons, lastD_append]; rfl
      obtain ⟨hh1, hh2⟩ := hh
      -- edges of the reversed polygon
      have e1 : edges (h :: t) = (h, v) :: pathEdges (h :: t) := by
        show edgesFrom (lastD h t) (h :: t) = _
        rw [hh2, edgesFrom_eq_path]; rfl
      -- edges of the polygon, as the reversal of the closed path  (h :: t) ++ [h]
      have e2 : edges (v :: r) = ((pathEdges (h :: t ++ [h])).map Prod.swap).reverse := by
        show edgesFrom (lastD v r) (v :: r) = _
        rw [edgesFrom_eq_path, ← hh1]
        have : h :: v :: r = (h :: t ++ [h]).reverse := by
          rw [List.reverse_append, ← hc]; simp
        rw [this, pathEdges_reverse]
      unfold pipSpec
      rw [e1, e2, pathEdges_snoc, hh2, List.map_reverse, parity_reverse, List.map_map]
      have : (fun e : Pt K × Pt K => crosses e.1 e.2 p) ∘ Prod.swap
          = fun e => crosses e.1 e.2 p := by
        funext e; simp [crosses_swap e.2 e.1 p]
      rw [this, List.map_append, parity_append]
      simp [parity, Bool.xor_comm]

/-- a degenerate edge (both end points equal) never crosses; neither does a horizontal one -/
theorem degenerate_edge_never_crosses (v p : Pt K) : crosses v v p = false :=
  crosses_degenerate v p

/-- 2c. **Repeated closing vertex.** Repeating the first vertex at the end does not change the
classification. -/
theorem pip_repeat_closing_vertex (v : Pt K) (r : List (Pt K)) (p : Pt K) :
    pip (v :: r ++ [v]) p = pip (v :: r) p := by
  rw [pip_eq_spec, pip_eq_spec]
  have e1 : edges (v :: r ++ [v]) = (v, v) :: (edgesFrom v r ++ [(v, lastD v r)]) := by
    show edgesFrom (lastD v (r ++ [v])) (v :: (r ++ [v])) = _
    rw [lastD_append]
    simp [lastD, edgesFrom, edgesFrom_append]
  have e2 : edges (v :: r) = (v, lastD v r) :: edgesFrom v r := rfl
  unfold pipSpec
  rw [e1, e2]
  simp [parity, parity_append, crosses_degenerate, Bool.xor_comm]

/-- 2d. **Duplicate vertex anywhere.** Writing a vertex twice in a row does not change the
classification. -/
theorem pip_insert_duplicate_vertex (l₁ l₂ : List (Pt K)) (v p : Pt K) :
    pip (l₁ ++ v :: v :: l₂) p = pip (l₁ ++ v :: l₂) p := by
  rw [pip_cyclic_shift l₁, pip_cyclic_shift l₁, pip_eq_spec, pip_eq_spec]
  have e1 : edges (v :: v :: l₂ ++ l₁)
      = (v, lastD v (l₂ ++ l₁)) :: (v, v) :: edgesFrom v (l₂ ++ l₁) := rfl
  have e2 : edges (v :: l₂ ++ l₁) = (v, lastD v (l₂ ++ l₁)) :: edgesFrom v (l₂ ++ l₁) := rfl
  unfold pipSpec
  rw [e1, e2]
  simp [parity, crosses_degenerate]

theorem replicate_append_cons {α : Type} (n : Nat) (v : α) (l : List α) :
    List.replicate n v ++ v :: l = v :: (List.replicate n v ++ l) := by
  induction n with
  | zero => rfl
  | succ m ih => rw [List.replicate_succ, List.cons_append, ih, List.cons_append]

/-- 2e. Any number of extra copies of a vertex next to itself. -/
theorem pip_insert_duplicates (l₁ l₂ : List (Pt K)) (v p : Pt K) (n : Nat) :
    pip (l₁ ++ (List.replicate n v ++ v :: l₂)) p = pip (l₁ ++ v :: l₂) p := by
  induction n with
  | zero => rfl
  | succ n ih =>
    rw [List.replicate_succ, List.cons_append, replicate_append_cons,
      pip_insert_duplicate_vertex, ← replicate_append_cons, ih]

/-- 2f. **Removing adjacent repeats is benign** (for every polygon, any context `l₁`):
zero-length edges never count. -/
theorem pip_dedup_adjacent_ctx [DecidableEq K] (l : List (Pt K)) :
    ∀ (l₁ : List (Pt K)) (p : Pt K), pip (l₁ ++ dedupAdj l) p = pip (l₁ ++ l) p := by
  fun_induction dedupAdj l with
  | case1 => intro l₁ p; rfl
  | case2 v => intro l₁ p; rfl
  | case3 v r ih =>
    intro l₁ p
    rw [ih l₁ p, pip_insert_duplicate_vertex]
  | case4 v w r h ih =>
    intro l₁ p
    have := ih (l₁ ++ [v]) p
    simpa [List.append_assoc] using this

theorem pip_dedup_adjacent [DecidableEq K] (poly : List (Pt K)) (p : Pt K) :
    pip (dedupAdj poly) p = pip poly p := by
  simpa using pip_dedup_adjacent_ctx poly [] p

/-- 3. **Inversion is the complement**, point by point. -/
theorem inverted_is_complement (poly pts : List (Pt K)) :
    filterPts true poly pts = (filterPts false poly pts).map (!·) := by
  simp [filterPts]

theorem filter_not_inverted (poly pts : List (Pt K)) :
    filterPts false poly pts = pts.map (pip poly) := by
  simp [filterPts, pointsInPoly]

/-! ## Geometric meaning -/

/-- 4a. `crosses a b p` holds exactly when the right ray of `p` meets the segment `ab`
(parameter `0 ≤ t ≤ 1`) strictly right of `p`, at a point that is not the upper end of the edge
(`p.y < max a.y b.y`; the segment is half-open: lower end point in, upper end point out, so a
horizontal edge is never hit). -/
theorem crosses_iff_ray_hits (a b p : Pt K) :
    crosses a b p = true ↔
      ∃ t, 0 ≤ t ∧ t ≤ 1 ∧ RayHitsAt a b p t ∧ p.y < max a.y b.y := by
  rw [crosses_iff]
  unfold RayHitsAt
  constructor
  · rintro ⟨hy, hx⟩
    have hne : b.y - a.y ≠ 0 := by
      rcases hy with ⟨h1, h2⟩ | ⟨h1, h2⟩
      · exact sub_ne_zero.mpr (ne_of_gt (lt_of_le_of_lt h1 h2))
      · exact sub_ne_zero.mpr (ne_of_lt (lt_of_le_of_lt h1 h2))
    refine ⟨(p.y - a.y) / (b.y - a.y), ?_, ?_, ⟨?_, ?_⟩, ?_⟩
    · rcases hy with ⟨h1, h2⟩ | ⟨h1, h2⟩
      · exact div_nonneg (by linarith) (by linarith)
      · exact div_nonneg_of_nonpos (by linarith) (by linarith)
    · rcases hy with ⟨h1, h2⟩ | ⟨h1, h2⟩
      · rw [div_le_one (by linarith)]; linarith
      · rw [div_le_one_of_neg (by linarith)]; linarith
    · rw [div_mul_cancel₀ _ hne]; ring
    · have : a.x + (p.y - a.y) / (b.y - a.y) * (b.x - a.x)
          = (b.x - a.x) * (p.y - a.y) / (b.y - a.y) + a.x := by ring
      rw [this]; exact hx
    · rcases hy with ⟨h1, h2⟩ | ⟨h1, h2⟩
      · exact lt_of_lt_of_le h2 (le_max_right _ _)
      · exact lt_of_lt_of_le h2 (le_max_left _ _)
  · rintro ⟨t, ht0, ht1, ⟨hy, hx⟩, hmax⟩
    have hne : b.y - a.y ≠ 0 := by
      intro h
      have h1 : p.y = a.y := by rw [← hy, h]; ring
      have h2 : b.y = a.y := by linear_combination h
      rw [h1, h2, max_self] at hmax
      exact lt_irrefl _ hmax
    have ht : t = (p.y - a.y) / (b.y - a.y) := by
      rw [eq_div_iff hne]; linear_combination hy
    refine ⟨?_, ?_⟩
    · rcases lt_or_gt_of_ne hne with hneg | hpos
      · -- b.y < a.y : max = a.y
        right
        have hba : b.y < a.y := by linarith
        rw [max_eq_left (le_of_lt hba)] at hmax
        refine ⟨?_, hmax⟩
        have : t * (b.y - a.y) ≥ 1 * (b.y - a.y) :=
          mul_le_mul_of_nonpos_right ht1 (le_of_lt hneg)
        linarith
      · left
        have hab : a.y < b.y := by linarith
        rw [max_eq_right (le_of_lt hab)] at hmax
        refine ⟨?_, hmax⟩
        have : 0 ≤ t * (b.y - a.y) := mul_nonneg ht0 (le_of_lt hpos)
        linarith
    · have : (b.x - a.x) * (p.y - a.y) / (b.y - a.y) + a.x
          = a.x + (p.y - a.y) / (b.y - a.y) * (b.x - a.x) := by ring
      rw [this, ← ht]; exact hx

/-- for an edge without an end point level with `p`, the half-open rule is a transversal
crossing of the open segment -/
theorem crosses_iff_openHit (a b p : Pt K) (ha : a.y ≠ p.y) (hb : b.y ≠ p.y) :
    crosses a b p = true ↔ OpenHit a b p := by
  rw [crosses_iff_ray_hits]
  unfold OpenHit RayHitsAt
  constructor
  · rintro ⟨t, ht0, ht1, ⟨hy, hx⟩, _⟩
    refine ⟨t, lt_of_le_of_ne ht0 ?_, lt_of_le_of_ne ht1 ?_, hy, hx⟩
    · rintro rfl; apply ha; rw [← hy]; ring
    · rintro rfl; apply hb; rw [← hy]; ring
  · rintro ⟨t, ht0, ht1, hy, hx⟩
    refine ⟨t, le_of_lt ht0, le_of_lt ht1, ⟨hy, hx⟩, ?_⟩
    rcases lt_trichotomy a.y b.y with h | h | h
    · rw [max_eq_right (le_of_lt h)]
      have : t * (b.y - a.y) < 1 * (b.y - a.y) := mul_lt_mul_of_pos_right ht1 (by linarith)
      linarith
    · exfalso; apply ha; rw [← hy, h]; ring
    · rw [max_eq_left (le_of_lt h)]
      have : t * (b.y - a.y) < 0 := mul_neg_of_pos_of_neg ht0 (by linarith)
      linarith

/-- 4b. **Generic ray.** If no vertex is level with `p`, the classification is the parity of the
number of edges crossed by the horizontal ray from `p` to the right. -/
theorem generic_ray (poly : List (Pt K)) (p : Pt K) (hgen : ∀ v ∈ poly, v.y ≠ p.y) :
    pip poly p = (rayCount poly p % 2 == 1) := by
  classical
  rw [pip_eq_spec]
  unfold pipSpec rayCount
  rw [← parity_eq_countP]
  apply parity_map_congr
  intro e he
  obtain ⟨h1, h2⟩ := edges_mem poly e he
  rw [Bool.eq_iff_iff, decide_eq_true_iff]
  exact crosses_iff_openHit e.1 e.2 p (hgen _ h1) (hgen _ h2)

/-- 4c. **Perturbation.** For a point off the boundary there is a height `ε` such that every
point less than `ε` above `p` gets the same classification and is not level with any vertex –
this covers the points level with vertices and horizontal edges. -/
theorem perturbation (poly : List (Pt K)) (p : Pt K) (hoff : ¬ OnBoundary poly p) :
    ∃ ε, 0 < ε ∧ ∀ δ, 0 < δ → δ < ε →
      pip poly (up p δ) = pip poly p ∧ ∀ v ∈ poly, v.y ≠ (up p δ).y := by
  have hedge : ∀ e ∈ edges poly, ∃ ε, 0 < ε ∧ ∀ δ, 0 < δ → δ < ε →
      crosses e.1 e.2 (up p δ) = crosses e.1 e.2 p := fun e he =>
    crosses_stable_up e.1 e.2 p (fun hc => hoff ⟨e, he, hc⟩)
  obtain ⟨ε₁, h1, hp1⟩ := exists_eps_forall (edges poly)
    (fun e δ => crosses e.1 e.2 (up p δ) = crosses e.1 e.2 p) hedge
  obtain ⟨ε₂, h2, hp2⟩ := exists_eps_forall poly (fun v δ => v.y ≠ p.y + δ)
    (fun v _ => not_level_up v p)
  refine ⟨min ε₁ ε₂, lt_min h1 h2, fun δ h0 hlt => ⟨?_, ?_⟩⟩
  · rw [pip_eq_spec, pip_eq_spec]
    exact parity_map_congr _ _ _ (hp1 δ h0 (lt_of_lt_of_le hlt (min_le_left _ _)))
  · exact hp2 δ h0 (lt_of_lt_of_le hlt (min_le_right _ _))

/-- **Exact even-odd containment.** For every polygon (any vertex list: concave,
self-intersecting, repeated vertices, horizontal edges) and every point `p` off its boundary
the classification is the parity of the number of edges that are crossed transversally by a
generic horizontal ray starting arbitrarily little above `p`. -/
theorem even_odd_off_boundary (poly : List (Pt K)) (p : Pt K) (hoff : ¬ OnBoundary poly p) :
    ∃ ε, 0 < ε ∧ ∀ δ, 0 < δ → δ < ε →
      (∀ v ∈ poly, v.y ≠ (up p δ).y) ∧
      pip poly p = (rayCount poly (up p δ) % 2 == 1) := by
  obtain ⟨ε, hε, h⟩ := perturbation poly p hoff
  refine ⟨ε, hε, fun δ h0 h1 => ?_⟩
  obtain ⟨hp, hg⟩ := h δ h0 h1
  exact ⟨hg, by rw [← hp]; exact generic_ray poly (up p δ) hg⟩

/-! ## Persistence (`save`, `_load`, `import_all`, unique ids) -/

/-- 5a. Importing a file that was written from filters with pairwise different identifiers
into a cleared registry returns the filters in order, each with its identifier, name and
inversion flag; axes and coordinates have passed through the text codec (`lower`, `fmt`). -/
theorem import_all_save_all (fmt : Rat → Rat) (lower : String → String) (fs : List PF)
    (hid : (fs.map (·.uid)).Nodup) :
    (importAll lower (saveAll fmt fs) {}).2 = fs.map (PF.through fmt lower) ∧
    (importAll lower (saveAll fmt fs) {}).1.ids = fs.map (·.uid) := by
  have := importLoop_saveAll fmt lower fs hid ((saveAll fmt fs).length + 1) 0 {} []
    (by have := saveAll_length fmt fs; omega) (by simp)
  simpa [importAll] using this

/-- 5b. **Round trip.** If the text codec reproduces the coordinates (17 significant digits:
`fmt = id` on binary64 values, an assumption about `float.__format__`/`strtod` that the harness
checks) and the axis names are lower-case, `import_all ∘ save` is the identity: axes,
inversion, name, identifier, points – hence every classification. -/
theorem roundtrip_exact (fmt : Rat → Rat) (lower : String → String) (fs : List PF)
    (hid : (fs.map (·.uid)).Nodup)
    (hfmt : ∀ f ∈ fs, ∀ q ∈ f.points, fmt q.x = q.x ∧ fmt q.y = q.y)
    (hlow : ∀ f ∈ fs, lower f.xaxis = f.xaxis ∧ lower f.yaxis = f.yaxis) :
    (importAll lower (saveAll fmt fs) {}).2 = fs := by
  rw [(import_all_save_all fmt lower fs hid).1]
  have : ∀ f ∈ fs, PF.through fmt lower f = f := by
    intro f hf
    obtain ⟨h1, h2⟩ := hlow f hf
    have hp : (f.points.map fun q => (⟨fmt q.x, fmt q.y⟩ : Pt Rat)) = f.points := by
      have : ∀ q ∈ f.points, (⟨fmt q.x, fmt q.y⟩ : Pt Rat) = q := by
        intro q hq
        obtain ⟨hx, hy⟩ := hfmt f hf q hq
        rw [hx, hy]
      rw [List.map_congr_left this, List.map_id']
    unfold PF.through
    rw [h1, h2, hp]
  rw [List.map_congr_left this, List.map_id']

theorem roundtrip_classification (fmt : Rat → Rat) (lower : String → String) (fs : List PF)
    (hid : (fs.map (·.uid)).Nodup)
    (hfmt : ∀ f ∈ fs, ∀ q ∈ f.points, fmt q.x = q.x ∧ fmt q.y = q.y)
    (hlow : ∀ f ∈ fs, lower f.xaxis = f.xaxis ∧ lower f.yaxis = f.yaxis) (pts : List (Pt Rat)) :
    ((importAll lower (saveAll fmt fs) {}).2.map fun f => filterPts f.inverted f.points pts)
      = fs.map fun f => filterPts f.inverted f.points pts := by
  rw [roundtrip_exact fmt lower fs hid hfmt hlow]

/-- 5c. An identifier that is already taken in the registry is replaced by a fresh one
(`max counter (uid+1)`), and the counter stays above every identifier given away. -/
theorem setUniqueId_spec (reg : Reg) (u : Nat) (hc : ∀ i ∈ reg.ids, i < reg.counter) :
    let r := setUniqueId reg u
    r.2 ∉ reg.ids ∧ (u ∉ reg.ids → r.2 = u) ∧ ∀ i ∈ r.1.ids, i < r.1.counter := by
  simp only [setUniqueId]
  by_cases h : u ∈ reg.ids
  · have hu := hc u h
    have hcont : reg.ids.contains u = true := by simpa using h
    simp only [hcont, if_true]
    refine ⟨fun hm => ?_, fun hn => absurd h hn, fun i hi => ?_⟩
    · have := hc _ hm; omega
    · simp only [List.mem_append, List.mem_singleton] at hi
      rcases hi with hi | rfl
      · have := hc i hi; omega
      · omega
  · have hcont : reg.ids.contains u = false := by simpa using h
    simp only [hcont, Bool.false_eq_true, if_false]
    refine ⟨h, fun _ => trivial, fun i hi => ?_⟩
    simp only [List.mem_append, List.mem_singleton] at hi
    rcases hi with hi | rfl
    · have := hc i hi; omega
    · omega

/-! ### The text layer of `.poly` files (`Model/PolyText.lean`) -/

/-- 5d. **The text parser inverts the text printer and finds the sections**: for every list of
structured lines whose names / axes have no surrounding blanks (they may contain `=`),
`import_all` on the printed text – header search by `strip().startswith("[")`, `split("=", 1)`,
`strip`, lower-cased keys, `strip("Polygon []")` – never raises and returns what the structured
model returns, for every registry. -/
theorem text_layer_refines (lower : String → String) (L : List Line) (hwf : ∀ l ∈ L, l.WF)
    (reg : Reg) :
    importAllT lower (L.map renderLine) reg = some (importAll lower L reg) := by
  unfold importAllT importAll
  rw [List.length_map]
  exact importLoopT_render lower L hwf _ 0 reg []

/-- 5e. **Text round trip**: `parse (print fs) = fs` for every list of filters with pairwise
different identifiers, names/axes without surrounding blanks (`=` allowed), lower-case axes and
a faithful number codec; the registry ends up with exactly the saved identifiers. -/
theorem poly_text_roundtrip (fmt : Rat → Rat) (lower : String → String) (fs : List PF)
    (hid : (fs.map (·.uid)).Nodup)
    (hs : ∀ f ∈ fs, Stripped f.name ∧ Stripped f.xaxis ∧ Stripped f.yaxis)
    (hfmt : ∀ f ∈ fs, ∀ q ∈ f.points, fmt q.x = q.x ∧ fmt q.y = q.y)
    (hlow : ∀ f ∈ fs, lower f.xaxis = f.xaxis ∧ lower f.yaxis = f.yaxis) :
    ∃ reg, importAllT lower (saveAllT fmt fs) {} = some (reg, fs) ∧ reg.ids = fs.map (·.uid) := by
  refine ⟨(importAll lower (saveAll fmt fs) {}).1, ?_, (import_all_save_all fmt lower fs hid).2⟩
  unfold saveAllT
  rw [text_layer_refines lower _ (saveAll_wf fmt fs hs)]
  exact congrArg some (Prod.ext rfl (roundtrip_exact fmt lower fs hid hfmt hlow))

/-- 5f. **Per-section state does not leak**: an inverted filter followed by a plain one is read
back as (inverted, plain) – `_load` starts every section from the constructor defaults. -/
theorem inverted_does_not_leak (fmt : Rat → Rat) (lower : String → String) (f g : PF)
    (rest : List PF) (hid : ((f :: g :: rest).map (·.uid)).Nodup)
    (hs : ∀ f' ∈ f :: g :: rest, Stripped f'.name ∧ Stripped f'.xaxis ∧ Stripped f'.yaxis) :
    ∃ reg out, importAllT lower (saveAllT fmt (f :: g :: rest)) {} = some (reg, out) ∧
      (out.map (·.inverted)) = f.inverted :: g.inverted :: rest.map (·.inverted) := by
  refine ⟨(importAll lower (saveAll fmt (f :: g :: rest)) {}).1,
    (importAll lower (saveAll fmt (f :: g :: rest)) {}).2, ?_, ?_⟩
  · unfold saveAllT
    exact text_layer_refines lower _ (saveAll_wf fmt _ hs) {}
  · rw [(import_all_save_all fmt lower _ hid).1]
    simp [PF.through, Function.comp_def]

/-- a name with `=` and inner blanks is `Stripped`; the concrete file round-trips -/
example : Stripped "a=b c" := by unfold Stripped; decide
example : importAllT id (saveAllT id
    [{ uid := 3, xaxis := "area_um", yaxis := "deform", name := "a=b c", inverted := true,
       points := [⟨0, 0⟩, ⟨1, 0⟩, ⟨1, 1⟩] },
     { uid := 1, xaxis := "deform", yaxis := "area_um", name := "[x]", inverted := false,
       points := [⟨0, 0⟩, ⟨2, 0⟩, ⟨1, 1/2⟩] }]) {}
    = some ({ ids := [3, 1], counter := 4 },
      [{ uid := 3, xaxis := "area_um", yaxis := "deform", name := "a=b c", inverted := true,
         points := [⟨0, 0⟩, ⟨1, 0⟩, ⟨1, 1⟩] },
       { uid := 1, xaxis := "deform", yaxis := "area_um", name := "[x]", inverted := false,
         points := [⟨0, 0⟩, ⟨2, 0⟩, ⟨1, 1/2⟩] }]) := by decide +kernel
/-- the hypothesis matters: surrounding blanks of a name are lost (normalisation on load) -/
example : parseLineT (renderLine (.name " x ")) = some (.name "x") := by decide +kernel
/-- a line without `=` and an unknown key make `_load` raise -/
example : parseLineT (cs ['h', 'e', 'l', 'l', 'o']) = none := by decide +kernel
example : parseLineT (cs ['C', 'o', 'l', 'o', 'r', ' ', '=', ' ', 'r']) = none := by decide +kernel

/-! ### The instance registry: identifiers stay unique -/

/-- registry invariant: identifiers pairwise different, counter above all of them -/
def RegInv (reg : Reg) : Prop := reg.ids.Nodup ∧ ∀ i ∈ reg.ids, i < reg.counter

theorem setUniqueId_inv (reg : Reg) (u : Nat) (h : RegInv reg) : RegInv (setUniqueId reg u).1 := by
  obtain ⟨hn, hc⟩ := h
  have hs := setUniqueId_spec reg u hc
  refine ⟨?_, hs.2.2⟩
  have hids : (setUniqueId reg u).1.ids = reg.ids ++ [(setUniqueId reg u).2] := rfl
  rw [hids]
  refine List.nodup_append.mpr ⟨hn, by simp, ?_⟩
  intro a ha b hb
  simp only [List.mem_singleton] at hb
  subst hb
  exact fun e => hs.1 (e ▸ ha)

/-- `PolygonFilter(axes, points)` without `unique_id`: the counter is handed out and is free -/
theorem auto_id_is_free (reg : Reg) (h : RegInv reg) :
    (setUniqueId reg reg.counter).2 = reg.counter ∧ reg.counter ∉ reg.ids := by
  have hfree : reg.counter ∉ reg.ids := fun hm => Nat.lt_irrefl _ (h.2 _ hm)
  exact ⟨(setUniqueId_spec reg reg.counter h.2).2.1 hfree, hfree⟩

theorem importLoop_inv (lower : String → String) (file : List Line) :
    ∀ (fuel k : Nat) (reg : Reg) (acc : List PF), RegInv reg →
      RegInv (importLoop lower file fuel k reg acc).1 ∧
      ∃ new, (importLoop lower file fuel k reg acc).2 = acc ++ new ∧
        (importLoop lower file fuel k reg acc).1.ids = reg.ids ++ new.map (·.uid) := by
  intro fuel
  induction fuel with
  | zero => intro k reg acc h; exact ⟨h, [], by simp [importLoop], by simp [importLoop]⟩
  | succ fuel ih =>
    intro k reg acc h
    unfold importLoop
    cases hl : load lower file k reg with
    | none => exact ⟨h, [], by simp, by simp⟩
    | some rf =>
      obtain ⟨r, f⟩ := rf
      simp only
      unfold load at hl
      cases hs : nthSection file k with
      | none => simp [hs] at hl
      | some ub =>
        simp only [hs, Option.some.injEq, Prod.mk.injEq] at hl
        obtain ⟨hr, hf⟩ := hl
        have hinv : RegInv r := hr ▸ setUniqueId_inv reg ub.1 h
        have hrid : r.ids = reg.ids ++ [f.uid] := by rw [← hr, ← hf]; rfl
        obtain ⟨i1, new, i2, i3⟩ := ih (k + 1) r (acc ++ [f]) hinv
        refine ⟨i1, f :: new, ?_, ?_⟩
        · rw [i2, List.append_assoc]; rfl
        · rw [i3, hrid, List.append_assoc]; rfl

/-- 5g. **Identifiers stay unique on import**: importing ANY file into ANY registry that
satisfies the invariant leaves a registry that satisfies it (pairwise different ids, counter
above all), and the registry grew by exactly the identifiers of the returned filters. -/
theorem import_all_ids_unique (lower : String → String) (file : List Line) (reg : Reg)
    (h : RegInv reg) :
    RegInv (importAll lower file reg).1 ∧
    (importAll lower file reg).1.ids = reg.ids ++ (importAll lower file reg).2.map (·.uid) := by
  obtain ⟨h1, new, h2, h3⟩ := importLoop_inv lower file (file.length + 1) 0 reg [] h
  refine ⟨h1, ?_⟩
  unfold importAll
  rw [h3, h2, List.nil_append]

/-- the same for the text-level import (when it does not raise) -/
theorem import_all_text_ids_unique (lower : String → String) (L : List Line)
    (hwf : ∀ l ∈ L, l.WF) (reg : Reg) (h : RegInv reg) :
    ∃ reg' out, importAllT lower (L.map renderLine) reg = some (reg', out) ∧ RegInv reg' ∧
      reg'.ids = reg.ids ++ out.map (·.uid) :=
  ⟨_, _, text_layer_refines lower L hwf reg, import_all_ids_unique lower L reg h⟩

example : RegInv {} := ⟨List.nodup_nil, by simp⟩
/-- a clash: id 3 is taken, counter 5 → the imported filter becomes 5, ids stay unique -/
example : (importAll id (saveAll id
    [{ uid := 3, xaxis := "a", yaxis := "b", name := "n", inverted := false, points := [] }])
    { ids := [3, 4], counter := 5 }).1 = { ids := [3, 4, 5], counter := 6 } := by decide +kernel

/-! ### F15: the old text format (`{:.15e}`, 16 significant digits) is not faithful -/

/-- `nextafter(0.1, 1)` and `0.1` as exact binary64 values -/
def x1 : Rat := 7205759403792795 / 72057594037927936
def x0 : Rat := 7205759403792794 / 72057594037927936

/-- with 16 significant digits the two different values get the same text … -/
theorem F15_sixteen_digits_collide : fmtDigits 16 x1 = x0 ∧ fmtDigits 16 x0 = x0 ∧ x1 ≠ x0 := by
  decide +kernel

/-- … with 17 they do not -/
theorem F15_seventeen_digits_keep : fmtDigits 17 x1 = x1 ∧ fmtDigits 17 x0 = x0 := by
  decide +kernel

def f15 : PF :=
  { uid := 0, xaxis := "area_um", yaxis := "deform", name := "gate", inverted := false,
    points := [⟨x1, 0⟩, ⟨1, 0⟩, ⟨1, 1⟩, ⟨x1, 1⟩] }

/-- **Witness (old behaviour violated the property).** The point `(0.1, 0.5)` lies outside the
polygon with left edge at `nextafter(0.1)`, off its boundary; after `save` with 16 significant
digits and `import_all` the same point is classified inside. -/
theorem F15_witness_old_format_changes_classification :
    pip f15.points ⟨x0, 1/2⟩ = false ∧
    ((importAll id (saveAll (fmtDigits 16) [f15]) {}).2.map fun g => pip g.points ⟨x0, 1/2⟩)
      = [true] := by
  decide +kernel

/-- the repaired format keeps it -/
theorem F15_fixed_format_keeps_classification :
    (importAll id (saveAll (fmtDigits 17) [f15]) {}).2 = [f15] := by
  decide +kernel

/-! ### Why de-duplication of vertices is not benign

Two triangles that share the vertex `(0,0)`, drawn in one stroke: the vertex is visited twice,
the visits are NOT adjacent.  Dropping the second visit joins `(2,2)` directly to `(-2,0)` and
the point `(-1, 1/4)` – off both boundaries – changes from outside to inside. -/

def twoTriangles : List (Pt Rat) := [⟨0, 0⟩, ⟨2, 0⟩, ⟨2, 2⟩, ⟨0, 0⟩, ⟨-2, 0⟩, ⟨-2, -2⟩]

theorem dedup_nonadjacent_changes_classification :
    dedupAll [] twoTriangles = [⟨0, 0⟩, ⟨2, 0⟩, ⟨2, 2⟩, ⟨-2, 0⟩, ⟨-2, -2⟩] ∧
    dedupAdj twoTriangles = twoTriangles ∧
    pip twoTriangles ⟨-1, 1/4⟩ = false ∧
    pip (dedupAll [] twoTriangles) ⟨-1, 1/4⟩ = true := by
  decide +kernel

/-- hence no statement "`pip (dedupAll [] poly) = pip poly` for all polygons" holds -/
theorem dedupAll_not_benign : ¬ ∀ (poly : List (Pt Rat)) (p : Pt Rat),
    pip (dedupAll [] poly) p = pip poly p := by
  intro h
  have := h twoTriangles ⟨-1, 1/4⟩
  revert this
  decide +kernel

/-- `dedupAdj` does something: a run of three copies and a repeated closing vertex collapse -/
example : dedupAdj [(⟨0, 0⟩ : Pt Rat), ⟨0, 0⟩, ⟨0, 0⟩, ⟨2, 0⟩, ⟨2, 2⟩, ⟨2, 2⟩]
    = [⟨0, 0⟩, ⟨2, 0⟩, ⟨2, 2⟩] := by decide +kernel
example (poly : List (Pt Rat)) (p : Pt Rat) : pip (dedupAdj poly) p = pip poly p :=
  pip_dedup_adjacent poly p

/-! ## Non-vacuity and instantiation at the executable model (`K = Rat`) -/

/-- the theorems apply to the definition that the driver runs -/
example (a b p : Pt Rat) : crosses a b p = crosses b a p := crosses_swap a b p
example (poly : List (Pt Rat)) (p : Pt Rat) : pip poly.reverse p = pip poly p := pip_reverse poly p
example (poly : List (Pt Rat)) (p : Pt Rat) (h : ¬ OnBoundary poly p) :
    ∃ ε, 0 < ε ∧ ∀ δ, 0 < δ → δ < ε → (∀ v ∈ poly, v.y ≠ (up p δ).y) ∧
      pip poly p = (rayCount poly (up p δ) % 2 == 1) := even_odd_off_boundary poly p h

/-- a square: centre inside, a point level with two vertices outside, left edge in, right out -/
example : pointsInPoly [⟨0, 0⟩, ⟨2, 0⟩, ⟨2, 2⟩, ⟨0, 2⟩]
    [(⟨1, 1⟩ : Pt Rat), ⟨3, 0⟩, ⟨0, 1⟩, ⟨2, 1⟩] = [true, false, true, false] := by decide +kernel

/-- a self-intersecting "bow tie" with a horizontal edge and a vertex level with the point -/
example : pointsInPoly [⟨0, 0⟩, ⟨2, 2⟩, ⟨2, 0⟩, ⟨0, 2⟩]
    [(⟨1/2, 1⟩ : Pt Rat), ⟨3/2, 1⟩, ⟨1, 1/2⟩, ⟨1, 3/2⟩, ⟨-1, 0⟩] = [true, true, false, false, false] := by
  decide +kernel

/-- the hypothesis of `generic_ray` is satisfiable and its conclusion is not trivially false:
the crossing flags of the square for the centre are `[false, true, false, false]` (one edge crossed) -/
example : (edges [⟨0, 0⟩, ⟨2, 0⟩, ⟨2, 2⟩, ⟨0, 2⟩]).map (fun e => crosses e.1 e.2 (⟨1, 1⟩ : Pt Rat))
    = [false, false, true, false] := by decide +kernel

/-- the point (1,1) is off the boundary of the square (so `even_odd_off_boundary` applies) -/
example : ¬ OnBoundary [⟨0, 0⟩, ⟨2, 0⟩, ⟨2, 2⟩, (⟨0, 2⟩ : Pt Rat)] ⟨1, 1⟩ := by
  rintro ⟨e, he, t, h0, h1, hx, hy⟩
  simp only [edges, edgesFrom, lastD, List.mem_cons, List.not_mem_nil, or_false] at he
  rcases he with rfl | rfl | rfl | rfl <;> simp at hx hy

end DclabModel.C15
