import DclabModel.Lemmas.Down
import DclabModel.Model.Filter
/-!
# C16 — Downsampling returns a reproducible subset of the requested size

Property theorems only.  The model (`Model/Down.lean`) mirrors `downsample_rand`,
`downsample_grid`, `populate_grid`, `norm` and the mask translation of
`get_downsampled_scatter`.  All theorems quantify over every pair of input arrays of any
length (values `nan`, `±inf`, any rational, in any position), every requested size and both
invalid-handling modes, and over every random source `choice` that satisfies `ChoiceOK`
(`np.random.choice(pool, k, replace=False)` returns `k` distinct members of `pool`).

Two open findings live in compiled Cython that cannot be rebuilt in the sandbox; the model
reproduces today's behaviour and the count theorem is proved under the guard that excludes them:
* F16 – `remove_invalid=False` and `samples > len(a)`: `ValueError`;
* F17 – `0 < samples < #valid`, `#valid ≥ 4` and a zero value range of `a` or `b`: `IndexError`.
-/
namespace DclabModel.C16
open DclabModel.Down

/-! ## `downsample_rand` -/

/-- **No alteration, no duplication, order kept.** The returned values are exactly the
input at the positions of the returned mask, and the mask has the input's length. -/
theorem rand_result_is_masked_input {α : Type} (choice : List Nat → Nat → List Nat)
    (valid : α → Bool) (a : List α) (k : Nat) (ri : Bool) :
    (rand choice valid a k ri).1 = sel (rand choice valid a k ri).2 a ∧
    (rand choice valid a k ri).2.length = a.length :=
  rand_sel choice valid a k ri

/-- **Exact count.** `k` events when at least `k` are eligible, all eligible events
otherwise (and for `k = 0`, O7); the mask selects that many. -/
theorem rand_count {α : Type} (choice : List Nat → Nat → List Nat) (hc : ChoiceOK choice)
    (valid : α → Bool) (a : List α) (k : Nat) (ri : Bool) :
    (rand choice valid a k ri).1.length =
      (if k = 0 then randEligible valid a ri else min k (randEligible valid a ri)) ∧
    cnt (rand choice valid a k ri).2 = (rand choice valid a k ri).1.length :=
  rand_cnt choice hc valid a k ri

/-- **Reproducible.** The result is a function of the input, the request and the flag only
(the random state is re-seeded inside the function; the harness repeats every call). -/
theorem rand_deterministic {α : Type} (choice : List Nat → Nat → List Nat) (valid : α → Bool)
    (a a' : List α) (k k' : Nat) (ri ri' : Bool) (ha : a = a') (hk : k = k') (hr : ri = ri') :
    rand choice valid a k ri = rand choice valid a' k' ri' := by
  subst ha hk hr; rfl

/-- with `remove_invalid` no invalid value is ever returned -/
theorem rand_removes_invalid (choice : List Nat → Nat → List Nat) (valid : Val → Bool)
    (a : List Val) (k : Nat) (i : Nat) :
    (rand choice valid a k true).2.getD i false = true → (a.map valid).getD i false = true := by
  unfold rand
  simp only [if_true]
  exact scatter_le _ _ i

/-! ## `downsample_grid` -/

/-- **`populate_grid` keeps exactly one event per occupied cell** (the first one): the cells
of the kept events are pairwise different and every event's cell is represented. -/
theorem grid_one_per_cell (cs : List (Nat × Nat)) :
    (sel (populate [] cs) cs).Nodup ∧ (∀ c ∈ cs, c ∈ sel (populate [] cs) cs) ∧
    (populate [] cs).length = cs.length := by
  obtain ⟨h1, _, h3⟩ := populate_spec [] cs
  refine ⟨h1, ?_, length_populate _ _⟩
  intro c hc
  rcases h3 c hc with h | h
  · simp at h
  · exact h

/-- **The add/remove step reaches the request** whenever that many events exist. -/
theorem adjust_hits_target (choice : List Nat → Nat → List Nat) (hc : ChoiceOK choice)
    (keepd : List Bool) (k : Nat) (hk : k ≤ keepd.length) :
    cnt (adjust choice keepd k) = k ∧ (adjust choice keepd k).length = keepd.length := by
  unfold adjust
  simp only
  have hs := cnt_le_length keepd
  by_cases h1 : cnt keepd > k
  · simp only [h1, if_true]
    have hle : cnt keepd - k ≤ (whereT keepd).length := by rw [length_whereT]; omega
    refine ⟨?_, length_clearAt _ _⟩
    rw [cnt_clearAt _ _ (hc.nodup _ _ (nodup_whereT _) hle) (hc.mem _ _ hle), hc.length _ _ hle]
    omega
  · by_cases h2 : cnt keepd < k
    · simp only [h1, h2, if_true, if_false]
      have hle : k - cnt keepd ≤ (whereF keepd).length := by rw [length_whereF]; omega
      refine ⟨?_, length_setAt _ _⟩
      rw [cnt_setAt _ _ (hc.nodup _ _ (nodup_whereF _) hle) (hc.mem _ _ hle), hc.length _ _ hle]
      omega
    · simp only [h1, h2, if_false]
      constructor <;> first | omega | trivial

/-- value range of the valid part of a column -/
def vrange (good : List Bool) (a : List Val) : Rat :=
  lmax ((sel good a).map Val.rat) - lmin ((sel good a).map Val.rat)

/-- the input class of open finding F16 -/
def InF16 (a : List Val) (k : Nat) (ri : Bool) : Prop := ri = false ∧ k > a.length

/-- the input class of open finding F17 -/
def InF17 (a b : List Val) (k : Nat) : Prop :=
  k ≠ 0 ∧ k < cnt (goodMask a b) ∧ 4 ≤ cnt (goodMask a b) ∧
  (vrange (goodMask a b) a = 0 ∨ vrange (goodMask a b) b = 0)

/-- inputs outside the two open findings F16 and F17 -/
def Guard (a b : List Val) (k : Nat) (ri : Bool) : Prop := ¬ InF16 a k ri ∧ ¬ InF17 a b k

/-- the grid stage: `keep` has the input's length, selects `min k #valid` valid events
(all valid events for `k = 0`) and never an invalid one -/
theorem gridKeep_spec (choice : List Nat → Nat → List Nat) (hc : ChoiceOK choice)
    (a b : List Val) (hlen : a.length = b.length) (k : Nat) (hg : ¬ InF17 a b k) :
    ∃ keep, gridKeep choice a b k = .ok keep ∧ keep.length = a.length ∧
      cnt keep = (if k = 0 then cnt (goodMask a b) else min k (cnt (goodMask a b))) ∧
      ∀ i, keep.getD i false = true → (goodMask a b).getD i false = true := by
  have hgl := length_goodMask a b hlen
  have hla : ((sel (goodMask a b) a).map Val.rat).length = cnt (goodMask a b) := by
    rw [List.length_map, length_sel _ _ hgl]
  have hlb : ((sel (goodMask a b) b).map Val.rat).length = cnt (goodMask a b) := by
    rw [List.length_map, length_sel _ _ (by omega)]
  unfold gridKeep
  simp only
  by_cases hthin : k ≠ 0 ∧ k < ((sel (goodMask a b) a).map Val.rat).length
  · rw [if_pos hthin]
    have hk0 := hthin.1
    have hnz : ¬ ((lmax ((sel (goodMask a b) a).map Val.rat) - lmin ((sel (goodMask a b) a).map Val.rat) = 0
        ∨ lmax ((sel (goodMask a b) b).map Val.rat) - lmin ((sel (goodMask a b) b).map Val.rat) = 0)
        ∧ 4 ≤ ((sel (goodMask a b) a).map Val.rat).length) := by
      intro h
      exact hg ⟨hk0, by omega, by omega, h.1⟩
    rw [if_neg hnz]
    have hpl : (populate [] (List.zip (cells1 ((sel (goodMask a b) a).map Val.rat))
        (cells1 ((sel (goodMask a b) b).map Val.rat)))).length = cnt (goodMask a b) := by
      rw [length_populate, List.length_zip]
      simp only [cells1, List.length_map] at hla hlb ⊢
      omega
    obtain ⟨ha1, ha2⟩ := adjust_hits_target choice hc (populate [] (List.zip
      (cells1 ((sel (goodMask a b) a).map Val.rat)) (cells1 ((sel (goodMask a b) b).map Val.rat))))
      k (by rw [hpl]; omega)
    refine ⟨_, rfl, ?_, ?_, ?_⟩
    · rw [length_scatter, hgl]
    · rw [cnt_scatter _ _ (by omega), ha1]
      simp only [hk0, if_false]; omega
    · intro i; exact scatter_le _ _ i
  · rw [if_neg hthin]
    refine ⟨_, rfl, hgl, ?_, fun i h => h⟩
    by_cases hk : k = 0
    · simp [hk]
    · simp only [hk, if_false]; omega

/-- **No alteration, no duplication, order kept** (grid method): whenever a result is
returned, the two value arrays are the inputs at the positions of the mask, and the mask has
the input's length. -/
theorem grid_result_is_masked_input (choice : List Nat → Nat → List Nat) (a b : List Val)
    (hlen : a.length = b.length) (k : Nat) (ri : Bool) (oa ob : List Val) (mask : List Bool)
    (h : grid choice a b k ri = .ok (oa, ob, mask)) :
    oa = sel mask a ∧ ob = sel mask b ∧ mask.length = a.length := by
  have hgl := length_goodMask a b hlen
  have hkeep : ∀ keep, gridKeep choice a b k = .ok keep → keep.length = a.length := by
    intro keep hk
    unfold gridKeep at hk
    simp only at hk
    split at hk
    · split at hk
      · cases hk
      · injection hk with hk; rw [← hk, length_scatter, hgl]
    · injection hk with hk; rw [← hk, hgl]
  unfold grid at h
  split at h
  · cases h
  · rename_i keep hk
    have hl := hkeep keep hk
    cases ri with
    | true =>
      simp only [if_true] at h
      injection h with h
      simp only [Prod.mk.injEq] at h
      obtain ⟨rfl, rfl, rfl⟩ := h
      exact ⟨rfl, rfl, hl⟩
    | false =>
      simp only [Bool.false_eq_true, if_false] at h
      split at h
      · cases h
      · rename_i keep' hp
        injection h with h
        simp only [Prod.mk.injEq] at h
        obtain ⟨rfl, rfl, rfl⟩ := h
        exact ⟨rfl, rfl, by rw [padBad_length _ _ _ _ _ hp, hl]⟩

/-- **Exact count (proved outside F16/F17).** Under `Guard` the grid method returns a
result, and the mask selects `k` events when at least `k` are eligible and all eligible
events otherwise (`k = 0`: all, O7); eligible = valid pairs with `remove_invalid`, all events
without.

Full statement (without `Guard`), FALSE today – see `grid_F16_witness`, `grid_F17_witness`:
  `∀ a b k ri, a.length = b.length → ∃ oa ob mask, grid choice a b k ri = .ok (oa, ob, mask) ∧
     cnt mask = if k = 0 then eligible a b ri else min k (eligible a b ri)`.
Missing: a rebuilt `downsampling.pyx` that caps the padding draw and handles a zero range. -/
theorem grid_count_partial (choice : List Nat → Nat → List Nat) (hc : ChoiceOK choice)
    (a b : List Val) (hlen : a.length = b.length) (k : Nat) (ri : Bool)
    (hg : Guard a b k ri) :
    ∃ oa ob mask, grid choice a b k ri = .ok (oa, ob, mask) ∧
      cnt mask = (if k = 0 then eligible a b ri else min k (eligible a b ri)) ∧
      oa.length = cnt mask ∧ ob.length = cnt mask := by
  obtain ⟨keep, hk, hl, hcnt, hle⟩ := gridKeep_spec choice hc a b hlen k hg.2
  have hgl := length_goodMask a b hlen
  have hV := cnt_le_length (goodMask a b)
  unfold grid
  rw [hk]
  simp only
  cases ri with
  | true =>
    simp only [if_true]
    refine ⟨_, _, _, rfl, ?_, length_sel _ _ hl, length_sel _ _ (by omega)⟩
    simpa [eligible] using hcnt
  | false =>
    simp only [Bool.false_eq_true, if_false]
    have hkN : k ≤ a.length := by
      have := hg.1
      unfold InF16 at this
      by_cases h : k ≤ a.length
      · exact h
      · exact absurd ⟨rfl, by omega⟩ this
    have hpad : ∃ keep', padBad choice (goodMask a b) keep k = .ok keep' ∧
        keep'.length = a.length ∧
        cnt keep' = (if k = 0 then a.length else min k a.length) := by
      unfold padBad
      simp only
      by_cases ht : (if k = 0 then keep.length else k) > cnt keep
      · rw [if_pos ht]
        have hneed : (if k = 0 then keep.length else k) - cnt keep ≤ (whereF (goodMask a b)).length := by
          rw [length_whereF, hcnt, hl, hgl]
          by_cases hk0 : k = 0
          · simp [hk0]
          · simp only [hk0, if_false]; omega
        rw [if_neg (by omega)]
        refine ⟨_, rfl, by rw [length_setAt, hl], ?_⟩
        rw [cnt_setAt _ _ (hc.nodup _ _ (nodup_whereF _) hneed), hc.length _ _ hneed]
        · rw [hcnt] at ht ⊢
          by_cases hk0 : k = 0
          · simp only [hk0, if_true] at ht ⊢; omega
          · simp only [hk0, if_false] at ht ⊢; omega
        · intro x hx
          have hx' := (mem_whereF _ x).1 (hc.mem _ _ hneed x hx)
          refine (mem_whereF _ x).2 ⟨by omega, ?_⟩
          cases hkx : keep.getD x false with
          | false => rfl
          | true => rw [hle x hkx] at hx'; exact absurd hx'.2 (by simp)
      · rw [if_neg ht]
        refine ⟨_, rfl, hl, ?_⟩
        rw [hcnt] at ht ⊢
        by_cases hk0 : k = 0
        · simp only [hk0, if_true] at ht ⊢; omega
        · simp only [hk0, if_false] at ht ⊢; omega
    obtain ⟨keep', hp, hl', hc'⟩ := hpad
    rw [hp]
    refine ⟨_, _, _, rfl, ?_, length_sel _ _ hl', length_sel _ _ (by omega)⟩
    simpa [eligible] using hc'

/-- **Valid points are preferred.** If the request does not exceed the number of valid
pairs, no invalid point is selected (in either mode). -/
theorem grid_prefers_valid (choice : List Nat → Nat → List Nat) (hc : ChoiceOK choice)
    (a b : List Val) (hlen : a.length = b.length) (k : Nat) (ri : Bool)
    (hk0 : k ≠ 0) (hkV : k ≤ cnt (goodMask a b)) (oa ob : List Val) (mask : List Bool)
    (h : grid choice a b k ri = .ok (oa, ob, mask)) :
    ∀ i, mask.getD i false = true → (goodMask a b).getD i false = true := by
  unfold grid at h
  split at h
  · cases h
  · rename_i keep hk
    -- F17 inputs never reach this point (they are errors)
    have hg : ¬ InF17 a b k := by
      intro hf
      have hgl := length_goodMask a b hlen
      have hla : ((sel (goodMask a b) a).map Val.rat).length = cnt (goodMask a b) := by
        rw [List.length_map, length_sel _ _ hgl]
      unfold gridKeep at hk
      simp only at hk
      rw [if_pos ⟨hk0, by rw [hla]; exact hf.2.1⟩,
          if_pos ⟨by have := hf.2.2.2; unfold vrange at this; exact this, by rw [hla]; exact hf.2.2.1⟩] at hk
      cases hk
    obtain ⟨keep2, hk2, _, hcnt, hle⟩ := gridKeep_spec choice hc a b hlen k hg
    rw [hk] at hk2
    injection hk2 with hk2
    subst hk2
    cases ri with
    | true =>
      simp only [if_true] at h
      injection h with h
      simp only [Prod.mk.injEq] at h
      obtain ⟨_, _, rfl⟩ := h
      exact hle
    | false =>
      simp only [Bool.false_eq_true, if_false] at h
      have hp : padBad choice (goodMask a b) keep k = .ok keep := by
        unfold padBad
        simp only [hk0, if_false]
        rw [if_neg (by rw [hcnt]; simp only [hk0, if_false]; omega)]
      rw [hp] at h
      simp only at h
      injection h with h
      simp only [Prod.mk.injEq] at h
      obtain ⟨_, _, rfl⟩ := h
      exact hle

/-- **Reproducible** (grid method). -/
theorem grid_deterministic (choice : List Nat → Nat → List Nat) (a a' b b' : List Val)
    (k k' : Nat) (ri ri' : Bool) (ha : a = a') (hb : b = b') (hk : k = k') (hr : ri = ri') :
    grid choice a b k ri = grid choice a' b' k' ri' := by
  subst ha hb hk hr; rfl

/-! ## Dataset level (`get_downsampled_scatter`) and the event limit -/

/-- **The dataset-level mask selects exactly the returned events**, for every filter `all`:
`col[mask] = col[all][idx]` for every column of the dataset (in particular the unscaled
`x`, `y` that are returned), the mask has the dataset's length and selects as many events as
the grid result. -/
theorem dataset_mask (choice : List Nat → Nat → List Nat) (all : List Bool) (xs ys : List Val)
    (hx : xs.length = all.length) (hy : ys.length = all.length)
    (k : Nat) (ri : Bool) (mask : List Bool)
    (h : dsScatter choice all xs ys k ri = .ok mask) :
    ∃ oa ob idx, grid choice (sel all xs) (sel all ys) k ri = .ok (oa, ob, idx) ∧
      mask.length = all.length ∧ cnt mask = cnt idx ∧
      ∀ {α : Type} (col : List α), sel mask col = sel idx (sel all col) := by
  unfold dsScatter at h
  split at h
  · cases h
  · rename_i oa ob idx hgr
    injection h with h
    subst h
    have hlen : (sel all xs).length = (sel all ys).length := by
      rw [length_sel _ _ hx.symm, length_sel _ _ hy.symm]
    have hil := (grid_result_is_masked_input choice _ _ hlen k ri oa ob idx hgr).2.2
    rw [length_sel _ _ hx.symm] at hil
    exact ⟨oa, ob, idx, hgr, length_scatter _ _, cnt_scatter _ _ hil,
      fun col => sel_scatter _ _ col⟩

/-! ## The open findings: today's behaviour on the recorded input classes, and witnesses -/

/-- **F16 (open).** Without `remove_invalid`, every request larger than the input raises
`ValueError` (the padding step draws more invalid points than exist) – for every input and
every random source.  The property demands "all eligible events" here. -/
theorem grid_F16_class (choice : List Nat → Nat → List Nat) (a b : List Val)
    (hlen : a.length = b.length) (k : Nat) (hk : k > a.length) :
    grid choice a b k false = .error .value := by
  have hgl := length_goodMask a b hlen
  have hV := cnt_le_length (goodMask a b)
  have hla : ((sel (goodMask a b) a).map Val.rat).length = cnt (goodMask a b) := by
    rw [List.length_map, length_sel _ _ hgl]
  have hkeep : gridKeep choice a b k = .ok (goodMask a b) := by
    unfold gridKeep
    simp only
    rw [if_neg (by omega)]
  unfold grid
  rw [hkeep]
  simp only [Bool.false_eq_true, if_false]
  have hp : padBad choice (goodMask a b) (goodMask a b) k = .error .value := by
    unfold padBad
    have hk0 : k ≠ 0 := by omega
    simp only [hk0, if_false]
    rw [if_pos (by omega), if_pos (by rw [length_whereF]; omega)]
  rw [hp]

/-- **F17 (open).** A request below the number of valid pairs on data with at least four
valid pairs whose `a` or `b` values are all equal raises `IndexError` (0/0 in `norm`), in both
modes. -/
theorem grid_F17_class (choice : List Nat → Nat → List Nat) (a b : List Val)
    (hlen : a.length = b.length) (k : Nat) (ri : Bool) (hf : InF17 a b k) :
    grid choice a b k ri = .error .index := by
  have hgl := length_goodMask a b hlen
  have hla : ((sel (goodMask a b) a).map Val.rat).length = cnt (goodMask a b) := by
    rw [List.length_map, length_sel _ _ hgl]
  have hkeep : gridKeep choice a b k = .error .index := by
    unfold gridKeep
    simp only
    rw [if_pos ⟨hf.1, by rw [hla]; exact hf.2.1⟩,
        if_pos ⟨by have := hf.2.2.2; unfold vrange at this; exact this, by rw [hla]; exact hf.2.2.1⟩]
  unfold grid
  rw [hkeep]

/-- F16 witness (`decide`): one valid point, two requested, invalid points kept. -/
theorem grid_F16_witness :
    grid (fun pool k => pool.take k) [.fin 1] [.fin 1] 2 false = .error .value := by
  decide +kernel

/-- F17 witness (`decide`): constant `a`, request below the number of valid points. -/
theorem grid_F17_witness :
    grid (fun pool k => pool.take k) [.fin 1, .fin 1, .fin 1, .fin 1]
      [.fin 0, .fin 1, .fin 2, .fin 3] 1 false = .error .index := by
  decide +kernel

/-- the two witnesses are exactly what `Guard` excludes -/
theorem witnesses_outside_guard :
    ¬ Guard [.fin 1] [.fin 1] 2 false ∧
    ¬ Guard [.fin 1, .fin 1, .fin 1, .fin 1] [.fin 0, .fin 1, .fin 2, .fin 3] 1 false := by
  constructor
  · intro h; exact h.1 ⟨rfl, by decide⟩
  · intro h
    exact h.2 ⟨by decide, by decide, by decide, Or.inl (by decide +kernel)⟩

/-! ## The finding classes are exactly the failing inputs -/

/-- **`downsample_grid` fails iff the input lies in one of the two recorded classes**, and the
kind of failure is determined by the class: `IndexError` exactly on `InF17`, `ValueError`
exactly on `InF16` (the two classes are disjoint). -/
theorem grid_fails_iff (choice : List Nat → Nat → List Nat) (hc : ChoiceOK choice)
    (a b : List Val) (hlen : a.length = b.length) (k : Nat) (ri : Bool) :
    (grid choice a b k ri = .error .index ↔ InF17 a b k) ∧
    (grid choice a b k ri = .error .value ↔ InF16 a k ri) ∧
    ((∃ e, grid choice a b k ri = .error e) ↔ (InF16 a k ri ∨ InF17 a b k)) := by
  have hgl := length_goodMask a b hlen
  have hV := cnt_le_length (goodMask a b)
  have hdisj : InF16 a k ri → ¬ InF17 a b k := by
    intro h16 h17
    have := h16.2; have := h17.2.1; omega
  have h17 : InF17 a b k → grid choice a b k ri = .error .index :=
    grid_F17_class choice a b hlen k ri
  have h16 : InF16 a k ri → grid choice a b k ri = .error .value := by
    intro h; rw [h.1]; exact grid_F16_class choice a b hlen k h.2
  have hok : ¬ InF16 a k ri → ¬ InF17 a b k → ∀ e, grid choice a b k ri ≠ .error e := by
    intro n16 n17 e he
    obtain ⟨oa, ob, mask, h, _⟩ := grid_count_partial choice hc a b hlen k ri ⟨n16, n17⟩
    rw [h] at he; cases he
  refine ⟨⟨?_, h17⟩, ⟨?_, h16⟩, ⟨?_, ?_⟩⟩
  · intro he
    by_cases c17 : InF17 a b k
    · exact c17
    · by_cases c16 : InF16 a k ri
      · rw [h16 c16] at he; cases he
      · exact absurd he (hok c16 c17 _)
  · intro he
    by_cases c16 : InF16 a k ri
    · exact c16
    · by_cases c17 : InF17 a b k
      · rw [h17 c17] at he; cases he
      · exact absurd he (hok c16 c17 _)
  · rintro ⟨e, he⟩
    by_cases c16 : InF16 a k ri
    · exact Or.inl c16
    · by_cases c17 : InF17 a b k
      · exact Or.inr c17
      · exact absurd he (hok c16 c17 _)
  · rintro (h | h)
    · exact ⟨_, h16 h⟩
    · exact ⟨_, h17 h⟩

/-! ## `get_downsampled_scatter` end to end: filter → scale → validity → downsample → mask -/

/-- **The returned mask selects exactly the returned events** – for every filter, every
pattern of invalid values, both scales: the returned (unscaled) `x`, `y` are the dataset's
columns at the mask, the mask refers to ALL events (length `len(ds)`) although the selection
`idx` was made among the FILTERED events (length `#filtered`), it only selects filtered
events, and it selects as many events as are returned. -/
theorem scatter_mask_selects_returned (choice : List Nat → Nat → List Nat) (lg : Rat → Rat)
    (all : List Bool) (xcol ycol : List Val) (hx : xcol.length = all.length)
    (hy : ycol.length = all.length) (xlog ylog : Bool) (k : Nat) (ri : Bool)
    (ox oy : List Val) (mask : List Bool)
    (h : getScatter choice lg all xcol ycol xlog ylog k ri true = .ok (ox, oy, some mask)) :
    ox = sel mask xcol ∧ oy = sel mask ycol ∧ mask.length = all.length ∧
    (∀ i, mask.getD i false = true → all.getD i false = true) ∧
    cnt mask = ox.length ∧ oy.length = ox.length ∧
    ∃ idx, mask = scatter all idx ∧ idx.length = cnt all := by
  unfold getScatter at h
  simp only at h
  split at h
  · cases h
  · rename_i oa ob idx hgr
    simp only [if_true] at h
    injection h with h
    simp only [Prod.mk.injEq, Option.some.injEq] at h
    obtain ⟨rfl, rfl, rfl⟩ := h
    have hlx : (sel all xcol).length = cnt all := length_sel _ _ hx.symm
    have hly : (sel all ycol).length = cnt all := length_sel _ _ hy.symm
    have hlen : (applyScale lg xlog (sel all xcol)).length
        = (applyScale lg ylog (sel all ycol)).length := by
      rw [length_applyScale, length_applyScale, hlx, hly]
    have hil := (grid_result_is_masked_input choice _ _ hlen k ri oa ob idx hgr).2.2
    rw [length_applyScale, hlx] at hil
    refine ⟨(sel_scatter _ _ _).symm, (sel_scatter _ _ _).symm, length_scatter _ _,
      fun i => scatter_le _ _ i, ?_, ?_, idx, rfl, hil⟩
    · rw [cnt_scatter _ _ hil, length_sel _ _ (by rw [hil, hlx])]
    · rw [length_sel _ _ (by rw [hil, hly]), length_sel _ _ (by rw [hil, hlx])]

/-- `ret_mask` only adds the mask: the returned values are the same with and without it -/
theorem scatter_retmask_irrelevant (choice : List Nat → Nat → List Nat) (lg : Rat → Rat)
    (all : List Bool) (xcol ycol : List Val) (xlog ylog : Bool) (k : Nat) (ri : Bool) :
    (∀ e, getScatter choice lg all xcol ycol xlog ylog k ri true = .error e ↔
          getScatter choice lg all xcol ycol xlog ylog k ri false = .error e) ∧
    (∀ ox oy, (∃ m, getScatter choice lg all xcol ycol xlog ylog k ri true = .ok (ox, oy, some m)) ↔
          getScatter choice lg all xcol ycol xlog ylog k ri false = .ok (ox, oy, none)) := by
  unfold getScatter
  simp only
  cases hg : grid choice (applyScale lg xlog (sel all xcol)) (applyScale lg ylog (sel all ycol)) k ri with
  | error e0 => simp
  | ok v =>
    obtain ⟨oa, ob, idx⟩ := v
    simp only [if_true, Bool.false_eq_true, if_false]
    refine ⟨fun e => by simp, fun ox oy => ?_⟩
    constructor
    · rintro ⟨m, hm⟩
      injection hm with hm
      simp only [Prod.mk.injEq] at hm
      rw [hm.1, hm.2.1]
    · intro hm
      injection hm with hm
      simp only [Prod.mk.injEq] at hm
      exact ⟨_, by rw [hm.1, hm.2.1]⟩

/-- **Exact count at the dataset level (outside F16/F17 on the scaled filtered data).** The
number of returned events is the request when at least that many events are eligible and all
eligible events otherwise (request 0: all); eligible = filtered events, with `remove_invalid`
only those whose SCALED values are valid (`scatter_eligible_dataset`). -/
theorem scatter_count_partial (choice : List Nat → Nat → List Nat) (hc : ChoiceOK choice)
    (lg : Rat → Rat) (all : List Bool) (xcol ycol : List Val) (hx : xcol.length = all.length)
    (hy : ycol.length = all.length) (xlog ylog : Bool) (k : Nat) (ri : Bool)
    (hg : Guard (applyScale lg xlog (sel all xcol)) (applyScale lg ylog (sel all ycol)) k ri) :
    ∃ ox oy mask, getScatter choice lg all xcol ycol xlog ylog k ri true = .ok (ox, oy, some mask) ∧
      cnt mask = (if k = 0 then scatterEligible lg all xcol ycol xlog ylog ri
                  else min k (scatterEligible lg all xcol ycol xlog ylog ri)) ∧
      ox.length = cnt mask ∧ oy.length = cnt mask := by
  have hlx : (sel all xcol).length = cnt all := length_sel _ _ hx.symm
  have hly : (sel all ycol).length = cnt all := length_sel _ _ hy.symm
  have hlen : (applyScale lg xlog (sel all xcol)).length
      = (applyScale lg ylog (sel all ycol)).length := by
    rw [length_applyScale, length_applyScale, hlx, hly]
  obtain ⟨oa, ob, idx, hgr, hcnt, _, _⟩ := grid_count_partial choice hc _ _ hlen k ri hg
  have hget : getScatter choice lg all xcol ycol xlog ylog k ri true
      = .ok (sel idx (sel all xcol), sel idx (sel all ycol), some (scatter all idx)) := by
    unfold getScatter
    simp only [hgr, if_true]
  obtain ⟨_, _, _, _, h5, h6, _⟩ := scatter_mask_selects_returned choice lg all xcol ycol hx hy
    xlog ylog k ri _ _ _ hget
  have hil := (grid_result_is_masked_input choice _ _ hlen k ri oa ob idx hgr).2.2
  rw [length_applyScale, hlx] at hil
  refine ⟨_, _, _, hget, ?_, h5.symm, by rw [h6, h5]⟩
  rw [cnt_scatter _ _ hil, hcnt]
  rfl

/-- eligibility in dataset terms: the filtered events, with `remove_invalid` those filtered
events whose scaled x and scaled y are both valid -/
theorem scatter_eligible_dataset (lg : Rat → Rat) (all : List Bool) (xcol ycol : List Val)
    (hx : xcol.length = all.length) (xlog ylog : Bool) (ri : Bool) :
    scatterEligible lg all xcol ycol xlog ylog ri =
      if ri then cnt (List.zipWith (fun q v => q && v) all
                        (goodMask (applyScale lg xlog xcol) (applyScale lg ylog ycol)))
      else cnt all := by
  unfold scatterEligible eligible
  cases ri with
  | true =>
    simp only [if_true]
    rw [applyScale_sel, applyScale_sel, goodMask_sel, cnt_sel_eq]
  | false =>
    simp only [Bool.false_eq_true, if_false]
    rw [length_applyScale, length_sel _ _ hx.symm]

/-- **With `remove_invalid`, validity is decided on the SCALED values**: every returned event
has a valid scaled x and a valid scaled y (no hypothesis on the random source). -/
theorem scatter_removes_invalid_scaled (choice : List Nat → Nat → List Nat) (lg : Rat → Rat)
    (all : List Bool) (xcol ycol : List Val) (xlog ylog : Bool) (k : Nat) (retMask : Bool)
    (ox oy : List Val) (om : Option (List Bool))
    (h : getScatter choice lg all xcol ycol xlog ylog k true retMask = .ok (ox, oy, om)) :
    (∀ v ∈ applyScale lg xlog ox, v.isValid = true) ∧
    (∀ v ∈ applyScale lg ylog oy, v.isValid = true) := by
  unfold getScatter at h
  simp only at h
  split at h
  · cases h
  · rename_i oa ob idx hgr
    have hox : ox = sel idx (sel all xcol) ∧ oy = sel idx (sel all ycol) := by
      cases retMask with
      | true =>
        simp only [if_true] at h
        injection h with h
        simp only [Prod.mk.injEq] at h
        exact ⟨h.1.symm, h.2.1.symm⟩
      | false =>
        simp only [Bool.false_eq_true, if_false] at h
        injection h with h
        simp only [Prod.mk.injEq] at h
        exact ⟨h.1.symm, h.2.1.symm⟩
    obtain ⟨rfl, rfl⟩ := hox
    -- `idx` is the grid stage's `keep`, which is below `goodMask` of the scaled columns
    have hsub : ∀ i, idx.getD i false = true →
        (goodMask (applyScale lg xlog (sel all xcol)) (applyScale lg ylog (sel all ycol))).getD i false = true := by
      unfold grid at hgr
      split at hgr
      · cases hgr
      · rename_i keep hk
        simp only [if_true] at hgr
        injection hgr with hgr
        simp only [Prod.mk.injEq] at hgr
        obtain ⟨_, _, rfl⟩ := hgr
        exact gridKeep_sub_good choice _ _ k keep hk
    constructor
    · rw [applyScale_sel]
      exact sel_forall Val.isValid idx _ (fun i hi => (goodMask_getD _ _ i (hsub i hi)).1)
    · rw [applyScale_sel]
      exact sel_forall Val.isValid idx _ (fun i hi => (goodMask_getD _ _ i (hsub i hi)).2)

/-- on a log axis with `remove_invalid` every returned value is a positive finite number -/
theorem scatter_log_returns_positive (choice : List Nat → Nat → List Nat) (lg : Rat → Rat)
    (all : List Bool) (xcol ycol : List Val) (ylog : Bool) (k : Nat) (retMask : Bool)
    (ox oy : List Val) (om : Option (List Bool))
    (h : getScatter choice lg all xcol ycol true ylog k true retMask = .ok (ox, oy, om)) :
    ∀ v ∈ ox, ∃ q, v = .fin q ∧ 0 < q := by
  intro v hv
  have h1 := (scatter_removes_invalid_scaled choice lg all xcol ycol true ylog k retMask ox oy om h).1
  unfold applyScale at h1
  simp only [if_true] at h1
  exact (logV_valid_iff lg v).1 (h1 _ (List.mem_map_of_mem hv))

/-- witness: validity on the UNSCALED data is the wrong notion – `-1` is a valid number but
has no logarithm; with `remove_invalid` the event is not returned and not counted as eligible -/
theorem scatter_unscaled_validity_witness :
    getScatter (fun pool k => pool.take k) (fun q => q) [true, true, true, false]
      [.fin (-1), .fin 2, .fin 3, .fin 4] [.fin 1, .fin 5, .nan, .fin 1] true false 0 true true
      = .ok ([.fin 2], [.fin 5], some [false, true, false, false]) ∧
    cnt (goodMask (sel [true, true, true, false] [.fin (-1), .fin 2, .fin 3, .fin 4])
                  (sel [true, true, true, false] [.fin 1, .fin 5, .nan, .fin 1])) = 2 ∧
    scatterEligible (fun q => q) [true, true, true, false]
      [.fin (-1), .fin 2, .fin 3, .fin 4] [.fin 1, .fin 5, .nan, .fin 1] true false true = 1 := by
  decide +kernel

/-! ## The event limit on top of manual exclusions -/

/-- **The limited selection has exactly `min(limit, #qualifying)` events, where qualifying
includes the manual exclusions** (limit 0: all qualifying events); only qualifying events
that are not excluded by hand are selected. -/
theorem limit_with_manual_count (choice : List Nat → Nat → List Nat) (hc : ChoiceOK choice)
    (limit : Nat) (qual manual : List Bool) :
    cnt (limitSel choice limit qual manual) =
      (if limit = 0 then cnt (List.zipWith (fun q m => q && m) qual manual)
       else min limit (cnt (List.zipWith (fun q m => q && m) qual manual))) ∧
    (limitSel choice limit qual manual).length = min qual.length manual.length ∧
    ∀ i, (limitSel choice limit qual manual).getD i false = true →
      qual.getD i false = true ∧ manual.getD i false = true := by
  unfold limitSel
  simp only
  generalize hpre : List.zipWith (fun q m => q && m) qual manual = pre
  have hplen : pre.length = min qual.length manual.length := by
    rw [← hpre, List.length_zipWith]
  have hpsub : ∀ i, pre.getD i false = true → qual.getD i false = true ∧ manual.getD i false = true := by
    intro i hi; rw [← hpre] at hi; exact zipWith_and_getD _ _ i hi
  by_cases hl : limit > 0
  · rw [if_pos hl]
    have hs := rand_sel choice (fun _ : Bool => true) (List.replicate (cnt pre) true) limit false
    have hn := rand_cnt choice hc (fun _ : Bool => true) (List.replicate (cnt pre) true) limit false
    have hlen : (rand choice (fun _ : Bool => true) (List.replicate (cnt pre) true) limit false).2.length
        = cnt pre := by rw [hs.2]; simp
    refine ⟨?_, by rw [length_scatter, hplen], fun i hi => hpsub i (scatter_le _ _ i hi)⟩
    rw [cnt_scatter _ _ hlen, hn.2, hn.1]
    have : limit ≠ 0 := by omega
    simp [this, randEligible]
  · rw [if_neg hl]
    have : limit = 0 := by omega
    exact ⟨by simp [this], hplen, hpsub⟩

/-- bridge to the filter model of property C03: with an active limit `limitSel` is C03's
`limitL` applied to the conjunction that already contains the manual exclusions – so
`C03.history_all_eq_spec` (every operation history ends in `spec`, whose last stage this is)
carries `limit_with_manual_count` to every history of filter operations -/
theorem limitSel_eq_limitL (choice : List Nat → Nat → List Nat) (limit : Nat) (hl : limit > 0)
    (qual manual : List Bool) :
    limitSel choice limit qual manual =
      DclabModel.Filter.limitL choice limit (List.zipWith (fun q m => q && m) qual manual) := by
  unfold limitSel DclabModel.Filter.limitL
  simp only [hl, if_true]

/-- witness: applying the manual exclusions AFTER the limit returns fewer events than the
property demands (4 qualifying events, one excluded by hand, limit 2: the limit keeps events
0 and 1, the manual exclusion then removes event 0 – one event remains although 3 qualify) -/
theorem limit_then_manual_witness :
    cnt (limitThenManual (fun pool k => pool.take k) 2 [true, true, true, true]
          [false, true, true, true]) = 1 ∧
    cnt (limitSel (fun pool k => pool.take k) 2 [true, true, true, true]
          [false, true, true, true]) = 2 := by
  decide +kernel

/-! ## Non-vacuity -/

/-- a concrete random source satisfying `ChoiceOK` (the first `k` members of the pool) -/
theorem choiceOK_take : ChoiceOK (fun pool k => pool.take k) where
  nodup := fun _ _ h _ => List.Nodup.sublist (List.take_sublist _ _) h
  length := fun pool k h => by simp [List.length_take]; omega
  mem := fun _ _ _ _ hx => List.mem_of_mem_take hx

/-- thinning five points with one invalid entry to two: the grid keeps 3 cells, one is removed -/
example : grid (fun pool k => pool.take k)
    [.fin 0, .fin 1, .nan, .fin 5, .fin 5] [.fin 0, .fin 2, .fin 1, .fin 7, .fin 7] 2 false
    = .ok ([.fin 1, .fin 5], [.fin 2, .fin 7], [false, true, false, true, false]) := by
  decide +kernel

example : Guard [.fin 0, .fin 1, .nan, .fin 5, .fin 5] [.fin 0, .fin 2, .fin 1, .fin 7, .fin 7] 2 false := by
  refine ⟨fun h => absurd h.2 (by decide), fun h => ?_⟩
  rcases h.2.2.2 with h | h <;> revert h <;> decide +kernel

example : rand (fun pool k => pool.take k) Val.isValid [.fin 3, .nan, .fin 4, .fin 5] 2 true
    = ([.fin 3, .fin 4], [true, false, true, false]) := by decide +kernel

end DclabModel.C16
