import DclabModel.Lemmas.Down
/-!
# C16 — Downsampling returns a reproducible subset of the requested size

Property theorems only.  The model (`Model/Down.lean`) mirrors `downsample_rand`,
`downsample_grid`, `populate_grid`, `norm` and the mask translation of
`get_downsampled_scatter`.  All theorems quantify over every pair of input arrays of any
length (values `nan`, `±inf`, any rational, in any position), every requested size and both
invalid-handling modes, and over every random source `choice` that satisfies `ChoiceOK`
(`np.random.choice(pool, k, replace=False)` returns `k` distinct members of `pool`).

Two open findings live in compiled Cython that cannot be rebuilt in the sandbox; the model
reproduces today's behaviour and the count theorem is proved under the guard that excludes them:
* F16 – `remove_invalid=False` and `samples > len(a)`: `ValueError`;
* F17 – `0 < samples < #valid`, `#valid ≥ 4` and a zero value range of `a` or `b`: `IndexError`.
-/
namespace DclabModel.C16
open DclabModel.Down

/-! ## `downsample_rand` -/

/-- **No alteration, no duplication, order kept.** The returned values are exactly the
input at the positions of the returned mask, and the mask has the input's length. -/
theorem rand_result_is_masked_input {α : Type} (choice : List Nat → Nat → List Nat)
    (valid : α → Bool) (a : List α) (k : Nat) (ri : Bool) :
    (rand choice valid a k ri).1 = sel (rand choice valid a k ri).2 a ∧
    (rand choice valid a k ri).2.length = a.length :=
  rand_sel choice valid a k ri

/-- **Exact count.** `k` events when at least `k` are eligible, all eligible events
otherwise (and for `k = 0`, O7); the mask selects that many. -/
theorem rand_count {α : Type} (choice : List Nat → Nat → List Nat) (hc : ChoiceOK choice)
    (valid : α → Bool) (a : List α) (k : Nat) (ri : Bool) :
    (rand choice valid a k ri).1.length =
      (if k = 0 then randEligible valid a ri else min k (randEligible valid a ri)) ∧
    cnt (rand choice valid a k ri).2 = (rand choice valid a k ri).1.length :=
  rand_cnt choice hc valid a k ri

/-- **Reproducible.** The result is a function of the input, the request and the flag only
(the random state is re-seeded inside the function; the harness repeats every call). -/
theorem rand_deterministic {α : Type} (choice : List Nat → Nat → List Nat) (valid : α → Bool)
    (a a' : List α) (k k' : Nat) (ri ri' : Bool) (ha : a = a') (hk : k = k') (hr : ri = ri') :
    rand choice valid a k ri = rand choice valid a' k' ri' := by
  subst ha hk hr; rfl

/-- with `remove_invalid` no invalid value is ever returned -/
theorem rand_removes_invalid (choice : List Nat → Nat → List Nat) (valid : Val → Bool)
    (a : List Val) (k : Nat) (i : Nat) :
    (rand choice valid a k true).2.getD i false = true → (a.map valid).getD i false = true := by
  unfold rand
  simp only [if_true]
  exact scatter_le _ _ i

/-! ## `downsample_grid` -/

/-- **`populate_grid` keeps exactly one event per occupied cell** (the first one): the cells
of the kept events are pairwise different and every event's cell is represented. -/
theorem grid_one_per_cell (cs : List (Nat × Nat)) :
    (sel (populate [] cs) cs).Nodup ∧ (∀ c ∈ cs, c ∈ sel (populate [] cs) cs) ∧
    (populate [] cs).length = cs.length := by
  obtain ⟨h1, _, h3⟩ := populate_spec [] cs
  refine ⟨h1, ?_, length_populate _ _⟩
  intro c hc
  rcases h3 c hc with h | h
  · simp at h
  · exact h

/-- **The add/remove step reaches the request** whenever that many events exist. -/
theorem adjust_hits_target (choice : List Nat → Nat → List Nat) (hc : ChoiceOK choice)
    (keepd : List Bool) (k : Nat) (hk : k ≤ keepd.length) :
    cnt (adjust choice keepd k) = k ∧ (adjust choice keepd k).length = keepd.length := by
  unfold adjust
  simp only
  have hs := cnt_le_length keepd
  by_cases h1 : cnt keepd > k
  · simp only [h1, if_true]
    have hle : cnt keepd - k ≤ (whereT keepd).length := by rw [length_whereT]; omega
    refine ⟨?_, length_clearAt _ _⟩
    rw [cnt_clearAt _ _ (hc.nodup _ _ (nodup_whereT _) hle) (hc.mem _ _ hle), hc.length _ _ hle]
    omega
  · by_cases h2 : cnt keepd < k
    · simp only [h1, h2, if_true, if_false]
      have hle : k - cnt keepd ≤ (whereF keepd).length := by rw [length_whereF]; omega
      refine ⟨?_, length_setAt _ _⟩
      rw [cnt_setAt _ _ (hc.nodup _ _ (nodup_whereF _) hle) (hc.mem _ _ hle), hc.length _ _ hle]
      omega
    · simp only [h1, h2, if_false]
      constructor <;> first | omega | trivial

/-- value range of the valid part of a column -/
def vrange (good : List Bool) (a : List Val) : Rat :=
  lmax ((sel good a).map Val.rat) - lmin ((sel good a).map Val.rat)

/-- the input class of open finding F16 -/
def InF16 (a : List Val) (k : Nat) (ri : Bool) : Prop := ri = false ∧ k > a.length

/-- the input class of open finding F17 -/
def InF17 (a b : List Val) (k : Nat) : Prop :=
  k ≠ 0 ∧ k < cnt (goodMask a b) ∧ 4 ≤ cnt (goodMask a b) ∧
  (vrange (goodMask a b) a = 0 ∨ vrange (goodMask a b) b = 0)

/-- inputs outside the two open findings F16 and F17 -/
def Guard (a b : List Val) (k : Nat) (ri : Bool) : Prop := ¬ InF16 a k ri ∧ ¬ InF17 a b k

/-- the grid stage: `keep` has the input's length, selects `min k #valid` valid events
(all valid events for `k = 0`) and never an invalid one -/
theorem gridKeep_spec (choice : List Nat → Nat → List Nat) (hc : ChoiceOK choice)
    (a b : List Val) (hlen : a.length = b.length) (k : Nat) (hg : ¬ InF17 a b k) :
    ∃ keep, gridKeep choice a b k = .ok keep ∧ keep.length = a.length ∧
      cnt keep = (if k = 0 then cnt (goodMask a b) else min k (cnt (goodMask a b))) ∧
      ∀ i, keep.getD i false = true → (goodMask a b).getD i false = true := by
  have hgl := length_goodMask a b hlen
  have hla : ((sel (goodMask a b) a).map Val.rat).length = cnt (goodMask a b) := by
    rw [List.length_map, length_sel _ _ hgl]
  have hlb : ((sel (goodMask a b) b).map Val.rat).length = cnt (goodMask a b) := by
    rw [List.length_map, length_sel _ _ (by omega)]
  unfold gridKeep
  simp only
  by_cases hthin : k ≠ 0 ∧ k < ((sel (goodMask a b) a).map Val.rat).length
  · rw [if_pos hthin]
    have hk0 := hthin.1
    have hnz : ¬ ((lmax ((sel (goodMask a b) a).map Val.rat) - lmin ((sel (goodMask a b) a).map Val.rat) = 0
        ∨ lmax ((sel (goodMask a b) b).map Val.rat) - lmin ((sel (goodMask a b) b).map Val.rat) = 0)
        ∧ 4 ≤ ((sel (goodMask a b) a).map Val.rat).length) := by
      intro h
      exact hg ⟨hk0, by omega, by omega, h.1⟩
    rw [if_neg hnz]
    have hpl : (populate [] (List.zip (cells1 ((sel (goodMask a b) a).map Val.rat))
        (cells1 ((sel (goodMask a b) b).map Val.rat)))).length = cnt (goodMask a b) := by
      rw [length_populate, List.length_zip]
      simp only [cells1, List.length_map] at hla hlb ⊢
      omega
    obtain ⟨ha1, ha2⟩ := adjust_hits_target choice hc (populate [] (List.zip
      (cells1 ((sel (goodMask a b) a).map Val.rat)) (cells1 ((sel (goodMask a b) b).map Val.rat))))
      k (by rw [hpl]; omega)
    refine ⟨_, rfl, ?_, ?_, ?_⟩
    · rw [length_scatter, hgl]
    · rw [cnt_scatter _ _ (by omega), ha1]
      simp only [hk0, if_false]; omega
    · intro i; exact scatter_le _ _ i
  · rw [if_neg hthin]
    refine ⟨_, rfl, hgl, ?_, fun i h => h⟩
    by_cases hk : k = 0
    · simp [hk]
    · simp only [hk, if_false]; omega

/-- **No alteration, no duplication, order kept** (grid method): whenever a result is
returned, the two value arrays are the inputs at the positions of the mask, and the mask has
the input's length. -/
theorem grid_result_is_masked_input (choice : List Nat → Nat → List Nat) (a b : List Val)
    (hlen : a.length = b.length) (k : Nat) (ri : Bool) (oa ob : List Val) (mask : List Bool)
    (h : grid choice a b k ri = .ok (oa, ob, mask)) :
    oa = sel mask a ∧ ob = sel mask b ∧ mask.length = a.length := by
  have hgl := length_goodMask a b hlen
  have hkeep : ∀ keep, gridKeep choice a b k = .ok keep → keep.length = a.length := by
    intro keep hk
    unfold gridKeep at hk
    simp only at hk
    split at hk
    · split at hk
      · cases hk
      · injection hk with hk; rw [← hk, length_scatter, hgl]
    · injection hk with hk; rw [← hk, hgl]
  unfold grid at h
  split at h
  · cases h
  · rename_i keep hk
    have hl := hkeep keep hk
    cases ri with
    | true =>
      simp only [if_true] at h
      injection h with h
      simp only [Prod.mk.injEq] at h
      obtain ⟨rfl, rfl, rfl⟩ := h
      exact ⟨rfl, rfl, hl⟩
    | false =>
      simp only [Bool.false_eq_true, if_false] at h
      split at h
      · cases h
      · rename_i keep' hp
        injection h with h
        simp only [Prod.mk.injEq] at h
        obtain ⟨rfl, rfl, rfl⟩ := h
        exact ⟨rfl, rfl, by rw [padBad_length _ _ _ _ _ hp, hl]⟩

/-- **Exact count (proved outside F16/F17).** Under `Guard` the grid method returns a
result, and the mask selects `k` events when at least `k` are eligible and all eligible
events otherwise (`k = 0`: all, O7); eligible = valid pairs with `remove_invalid`, all events
without.

Full statement (without `Guard`), FALSE today – see `grid_F16_witness`, `grid_F17_witness`:
  `∀ a b k ri, a.length = b.length → ∃ oa ob mask, grid choice a b k ri = .ok (oa, ob, mask) ∧
     cnt mask = if k = 0 then eligible a b ri else min k (eligible a b ri)`.
Missing: a rebuilt `downsampling.pyx` that caps the padding draw and handles a zero range. -/
theorem grid_count_partial (choice : List Nat → Nat → List Nat) (hc : ChoiceOK choice)
    (a b : List Val) (hlen : a.length = b.length) (k : Nat) (ri : Bool)
    (hg : Guard a b k ri) :
    ∃ oa ob mask, grid choice a b k ri = .ok (oa, ob, mask) ∧
      cnt mask = (if k = 0 then eligible a b ri else min k (eligible a b ri)) ∧
      oa.length = cnt mask ∧ ob.length = cnt mask := by
  obtain ⟨keep, hk, hl, hcnt, hle⟩ := gridKeep_spec choice hc a b hlen k hg.2
  have hgl := length_goodMask a b hlen
  have hV := cnt_le_length (goodMask a b)
  unfold grid
  rw [hk]
  simp only
  cases ri with
  | true =>
    simp only [if_true]
    refine ⟨_, _, _, rfl, ?_, length_sel _ _ hl, length_sel _ _ (by omega)⟩
    simpa [eligible] using hcnt
  | false =>
    simp only [Bool.false_eq_true, if_false]
    have hkN : k ≤ a.length := by
      have := hg.1
      unfold InF16 at this
      by_cases h : k ≤ a.length
      · exact h
      · exact absurd ⟨rfl, by omega⟩ this
    have hpad : ∃ keep', padBad choice (goodMask a b) keep k = .ok keep' ∧
        keep'.length = a.length ∧
        cnt keep' = (if k = 0 then a.length else min k a.length) := by
      unfold padBad
      simp only
      by_cases ht : (if k = 0 then keep.length else k) > cnt keep
      · rw [if_pos ht]
        have hneed : (if k = 0 then keep.length else k) - cnt keep ≤ (whereF (goodMask a b)).length := by
          rw [length_whereF, hcnt, hl, hgl]
          by_cases hk0 : k = 0
          · simp [hk0]
          · simp only [hk0, if_false]; omega
        rw [if_neg (by omega)]
        refine ⟨_, rfl, by rw [length_setAt, hl], ?_⟩
        rw [cnt_setAt _ _ (hc.nodup _ _ (nodup_whereF _) hneed), hc.length _ _ hneed]
        · rw [hcnt] at ht ⊢
          by_cases hk0 : k = 0
          · simp only [hk0, if_true] at ht ⊢; omega
          · simp only [hk0, if_false] at ht ⊢; omega
        · intro x hx
          have hx' := (mem_whereF _ x).1 (hc.mem _ _ hneed x hx)
          refine (mem_whereF _ x).2 ⟨by omega, ?_⟩
          cases hkx : keep.getD x false with
          | false => rfl
          | true => rw [hle x hkx] at hx'; exact absurd hx'.2 (by simp)
      · rw [if_neg ht]
        refine ⟨_, rfl, hl, ?_⟩
        rw [hcnt] at ht ⊢
        by_cases hk0 : k = 0
        · simp only [hk0, if_true] at ht ⊢; omega
        · simp only [hk0, if_false] at ht ⊢; omega
    obtain ⟨keep', hp, hl', hc'⟩ := hpad
    rw [hp]
    refine ⟨_, _, _, rfl, ?_, length_sel _ _ hl', length_sel _ _ (by omega)⟩
    simpa [eligible] using hc'

/-- **Valid points are preferred.** If the request does not exceed the number of valid
pairs, no invalid point is selected (in either mode). -/
theorem grid_prefers_valid (choice : List Nat → Nat → List Nat) (hc : ChoiceOK choice)
    (a b : List Val) (hlen : a.length = b.length) (k : Nat) (ri : Bool)
    (hk0 : k ≠ 0) (hkV : k ≤ cnt (goodMask a b)) (oa ob : List Val) (mask : List Bool)
    (h : grid choice a b k ri = .ok (oa, ob, mask)) :
    ∀ i, mask.getD i false = true → (goodMask a b).getD i false = true := by
  unfold grid at h
  split at h
  · cases h
  · rename_i keep hk
    -- F17 inputs never reach this point (they are errors)
    have hg : ¬ InF17 a b k := by
      intro hf
      have hgl := length_goodMask a b hlen
      have hla : ((sel (goodMask a b) a).map Val.rat).length = cnt (goodMask a b) := by
        rw [List.length_map, length_sel _ _ hgl]
      unfold gridKeep at hk
      simp only at hk
      rw [if_pos ⟨hk0, by rw [hla]; exact hf.2.1⟩,
          if_pos ⟨by have := hf.2.2.2; unfold vrange at this; exact this, by rw [hla]; exact hf.2.2.1⟩] at hk
      cases hk
    obtain ⟨keep2, hk2, _, hcnt, hle⟩ := gridKeep_spec choice hc a b hlen k hg
    rw [hk] at hk2
    injection hk2 with hk2
    subst hk2
    cases ri with
    | true =>
      simp only [if_true] at h
      injection h with h
      simp only [Prod.mk.injEq] at h
      obtain ⟨_, _, rfl⟩ := h
      exact hle
    | false =>
      simp only [Bool.false_eq_true, if_false] at h
      have hp : padBad choice (goodMask a b) keep k = .ok keep := by
        unfold padBad
        simp only [hk0, if_false]
        rw [if_neg (by rw [hcnt]; simp only [hk0, if_false]; omega)]
      rw [hp] at h
      simp only at h
      injection h with h
      simp only [Prod.mk.injEq] at h
      obtain ⟨_, _, rfl⟩ := h
      exact hle

/-- **Reproducible** (grid method). -/
theorem grid_deterministic (choice : List Nat → Nat → List Nat) (a a' b b' : List Val)
    (k k' : Nat) (ri ri' : Bool) (ha : a = a') (hb : b = b') (hk : k = k') (hr : ri = ri') :
    grid choice a b k ri = grid choice a' b' k' ri' := by
  subst ha hb hk hr; rfl

/-! ## Dataset level (`get_downsampled_scatter`) and the event limit -/

/-- **The dataset-level mask selects exactly the returned events**, for every filter `all`:
`col[mask] = col[all][idx]` for every column of the dataset (in particular the unscaled
`x`, `y` that are returned), the mask has the dataset's length and selects as many events as
the grid result. -/
theorem dataset_mask (choice : List Nat → Nat → List Nat) (all : List Bool) (xs ys : List Val)
    (hx : xs.length = all.length) (hy : ys.length = all.length)
    (k : Nat) (ri : Bool) (mask : List Bool)
    (h : dsScatter choice all xs ys k ri = .ok mask) :
    ∃ oa ob idx, grid choice (sel all xs) (sel all ys) k ri = .ok (oa, ob, idx) ∧
      mask.length = all.length ∧ cnt mask = cnt idx ∧
      ∀ {α : Type} (col : List α), sel mask col = sel idx (sel all col) := by
  unfold dsScatter at h
  split at h
  · cases h
  · rename_i oa ob idx hgr
    injection h with h
    subst h
    have hlen : (sel all xs).length = (sel all ys).length := by
      rw [length_sel _ _ hx.symm, length_sel _ _ hy.symm]
    have hil := (grid_result_is_masked_input choice _ _ hlen k ri oa ob idx hgr).2.2
    rw [length_sel _ _ hx.symm] at hil
    exact ⟨oa, ob, idx, hgr, length_scatter _ _, cnt_scatter _ _ hil,
      fun col => sel_scatter _ _ col⟩

/-! ## The open findings: today's behaviour on the recorded input classes, and witnesses -/

/-- **F16 (open).** Without `remove_invalid`, every request larger than the input raises
`ValueError` (the padding step draws more invalid points than exist) – for every input and
every random source.  The property demands "all eligible events" here. -/
theorem grid_F16_class (choice : List Nat → Nat → List Nat) (a b : List Val)
    (hlen : a.length = b.length) (k : Nat) (hk : k > a.length) :
    grid choice a b k false = .error .value := by
  have hgl := length_goodMask a b hlen
  have hV := cnt_le_length (goodMask a b)
  have hla : ((sel (goodMask a b) a).map Val.rat).length = cnt (goodMask a b) := by
    rw [List.length_map, length_sel _ _ hgl]
  have hkeep : gridKeep choice a b k = .ok (goodMask a b) := by
    unfold gridKeep
    simp only
    rw [if_neg (by omega)]
  unfold grid
  rw [hkeep]
  simp only [Bool.false_eq_true, if_false]
  have hp : padBad choice (goodMask a b) (goodMask a b) k = .error .value := by
    unfold padBad
    have hk0 : k ≠ 0 := by omega
    simp only [hk0, if_false]
    rw [if_pos (by omega), if_pos (by rw [length_whereF]; omega)]
  rw [hp]

/-- **F17 (open).** A request below the number of valid pairs on data with at least four
valid pairs whose `a` or `b` values are all equal raises `IndexError` (0/0 in `norm`), in both
modes. -/
theorem grid_F17_class (choice : List Nat → Nat → List Nat) (a b : List Val)
    (hlen : a.length = b.length) (k : Nat) (ri : Bool) (hf : InF17 a b k) :
    grid choice a b k ri = .error .index := by
  have hgl := length_goodMask a b hlen
  have hla : ((sel (goodMask a b) a).map Val.rat).length = cnt (goodMask a b) := by
    rw [List.length_map, length_sel _ _ hgl]
  have hkeep : gridKeep choice a b k = .error .index := by
    unfold gridKeep
    simp only
    rw [if_pos ⟨hf.1, by rw [hla]; exact hf.2.1⟩,
        if_pos ⟨by have := hf.2.2.2; unfold vrange at this; exact this, by rw [hla]; exact hf.2.2.1⟩]
  unfold grid
  rw [hkeep]

/-- F16 witness (`decide`): one valid point, two requested, invalid points kept. -/
theorem grid_F16_witness :
    grid (fun pool k => pool.take k) [.fin 1] [.fin 1] 2 false = .error .value := by
  decide +kernel

/-- F17 witness (`decide`): constant `a`, request below the number of valid points. -/
theorem grid_F17_witness :
    grid (fun pool k => pool.take k) [.fin 1, .fin 1, .fin 1, .fin 1]
      [.fin 0, .fin 1, .fin 2, .fin 3] 1 false = .error .index := by
  decide +kernel

/-- the two witnesses are exactly what `Guard` excludes -/
theorem witnesses_outside_guard :
    ¬ Guard [.fin 1] [.fin 1] 2 false ∧
    ¬ Guard [.fin 1, .fin 1, .fin 1, .fin 1] [.fin 0, .fin 1, .fin 2, .fin 3] 1 false := by
  constructor
  · intro h; exact h.1 ⟨rfl, by decide⟩
  · intro h
    exact h.2 ⟨by decide, by decide, by decide, Or.inl (by decide +kernel)⟩

/-! ## Non-vacuity -/

/-- a concrete random source satisfying `ChoiceOK` (the first `k` members of the pool) -/
theorem choiceOK_take : ChoiceOK (fun pool k => pool.take k) where
  nodup := fun _ _ h _ => List.Nodup.sublist (List.take_sublist _ _) h
  length := fun pool k h => by simp [List.length_take]; omega
  mem := fun _ _ _ _ hx => List.mem_of_mem_take hx

/-- thinning five points with one invalid entry to two: the grid keeps 3 cells, one is removed -/
example : grid (fun pool k => pool.take k)
    [.fin 0, .fin 1, .nan, .fin 5, .fin 5] [.fin 0, .fin 2, .fin 1, .fin 7, .fin 7] 2 false
    = .ok ([.fin 1, .fin 5], [.fin 2, .fin 7], [false, true, false, true, false]) := by
  decide +kernel

example : Guard [.fin 0, .fin 1, .nan, .fin 5, .fin 5] [.fin 0, .fin 2, .fin 1, .fin 7, .fin 7] 2 false := by
  refine ⟨fun h => absurd h.2 (by decide), fun h => ?_⟩
  rcases h.2.2.2 with h | h <;> revert h <;> decide +kernel

example : rand (fun pool k => pool.take k) Val.isValid [.fin 3, .nan, .fin 4, .fin 5] 2 true
    = ([.fin 3, .fin 4], [true, false, true, false]) := by decide +kernel

end DclabModel.C16
