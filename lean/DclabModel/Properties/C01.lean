import DclabModel.Lemmas.Writer
import DclabModel.Lemmas.WriterMeta
import DclabModel.Lemmas.WriterTable
/-!
# C01 — Data written through the writer API is read back exactly

Property theorems only.  Model: `Model/Writer.lean` (`step`/`run` mirror `RTDCWriter`, `read` the
HDF5 readers, `specOf` is the specification).  `Cfg.text = .fixed` is `write_text` after the
repair of finding F01.  The theorems quantify over **every** history of writer calls: any
composition of the events into calls, any interleaving of features / traces / contours / logs /
tables, the three modes, writers re-opened at any point, every `CHUNK_SIZE_BYTES`, every event
size (hence every chunk size), rejected (empty) calls included.
-/
namespace DclabModel.C01
open DclabModel.Writer

/-- **The chunk-wise resize-and-populate loop with its remainder branch appends the data**,
for every chunk size (Python only ever uses `cs ≥ 10`), every old content, every new data. -/
theorem chunkwise_write_eq_append (cs : Nat) (old data : List Tok) :
    populateNd cs old.length (resize old (old.length + data.length)) data = old ++ data :=
  populateNd_eq_append cs old data

/-- `write_ndarray` (scalar "in one go" or n-d chunk-wise, new or existing dataset) appends -/
theorem write_ndarray_appends (cb : Nat) (scalar : Bool) (esize : Nat) (old : Option Dset)
    (data : List Tok) :
    (writeNd cb scalar esize old data).rows = (old.map (·.rows)).getD [] ++ data :=
  writeNd_rows cb scalar esize old data

/-- the chunk size chosen by `get_best_nd_chunks` is never zero -/
theorem chunk_positive (cb esize : Nat) : 10 ≤ bestChunk cb esize := by
  unfold bestChunk; omega

/-- **C01, refinement.** After every history of writer calls on a fresh file, the readers
return exactly the specification's view: per feature / trace the concatenation of the rows
written (the last call's rows in replace mode, nothing from before a reset), contours fetched by
name in writing order, log lines and tables as written. -/
theorem C01_roundtrip (cfg : Cfg) (hfix : cfg.text = .fixed) (ops : List Op) :
    read (run cfg {} ops).f = specOf ops :=
  read_of_rel _ _ (run_sim cfg hfix ops {} {} rel_init)

/-- the same from any reachable state: what is appended later is read back after what was
there (one more history `more` on top of `ops`) -/
theorem C01_roundtrip_continued (cfg : Cfg) (hfix : cfg.text = .fixed) (ops more : List Op) :
    read (run cfg (run cfg {} ops) more).f = (specRun (specRun {} ops) more).view :=
  read_of_rel _ _ (run_sim cfg hfix more _ _ (run_sim cfg hfix ops {} {} rel_init))

/-- **the index feature enumerates 1..N** after every history, whatever the user passed -/
theorem index_enumerates (cfg : Cfg) (hfix : cfg.text = .fixed) (ops : List Op)
    (rows : List Tok) (h : (read (run cfg {} ops).f).feat "index" = some rows) :
    rows = List.range' 1 rows.length := by
  have hr := run_sim cfg hfix ops {} {} rel_init
  rw [read_of_rel _ _ hr] at h
  exact hr.index rows h

/-- **ragged names are dense**: after every history (re-opened writers, replace mode included)
the contour group holds the names `0..n-1`, name `i` holding the `i`-th contour written -/
theorem ragged_names_dense (cfg : Cfg) (hfix : cfg.text = .fixed) (ops : List Op) :
    (run cfg {} ops).f.contour = (specRun {} ops).contour.map (enum 0) ∧
    ∀ g, (run cfg {} ops).f.contour = some g → g.map Prod.fst = List.range g.length := by
  have hr := run_sim cfg hfix ops {} {} rel_init
  refine ⟨hr.contour, ?_⟩
  intro g hg
  rw [hr.contour] at hg
  cases hc : (specRun {} ops).contour with
  | none => rw [hc] at hg; cases hg
  | some rows =>
    rw [hc] at hg
    injection hg with hg
    subst hg
    rw [enum_fst, enum_length, List.range_eq_range']

/-- `create_dataset(str(curid + ii))` never hits an existing name -/
theorem contour_never_clashes (cfg : Cfg) (hfix : cfg.text = .fixed) (ops : List Op)
    (rows : List Tok) : (step cfg (run cfg {} ops) (.contour rows)).2 = .ok := by
  have hr := run_sim cfg hfix ops {} {} rel_init
  generalize run cfg {} ops = s at hr
  generalize specRun {} ops = p at hr
  simp only [step]
  by_cases hm : s.w.mode = .replace
  · simp only [hm, if_true, Option.getD_none, List.length_nil]
    have := addRagged_dense [] rows
    simp only [enum, List.length_nil] at this
    rw [this]
  · simp only [hm, if_false]
    have hg : (s.f.contour.getD []) = enum 0 (p.contour.getD []) := by
      rw [hr.contour]
      cases p.contour <;> simp [enum]
    have hc : s.w.gsize.getD (s.f.contour.getD []).length = (p.contour.getD []).length := by
      cases hgs : s.w.gsize with
      | none => simp [hg, enum_length]
      | some n => simp [hr.gsize n hgs]
    rw [hc, hg, addRagged_dense]

/-- **text round trip** (repaired `write_text`): whatever was stored before (all lines fitting
their width), the stored lines afterwards are the old ones followed by the new ones, unchanged —
no hypothesis on the length of the new lines. -/
theorem text_roundtrip (mode : Mode) (logs : List (String × Log)) (name : String)
    (lines : List Line)
    (hw : ∀ k lg, lookup k logs = some lg → ∀ l ∈ lg.lines, l.length ≤ lg.width) :
    ((lookup name (writeText .fixed mode logs name lines)).map (·.lines)).getD [] =
      (if mode = .replace then [] else ((lookup name logs).map (·.lines)).getD []) ++ lines := by
  have := (writeText_spec mode logs name lines hw).1 name
  simpa using this

/-- **Finding F01, witness** (`write_text` before the repair): a 101-byte line appended to a log
created with a short line is cut to the frozen width of 100 bytes; the repaired rule keeps it. -/
theorem text_truncated_witness :
    (read (run { chunkBytes := 1024, text := .old } {}
      [.log "l" [[115]], .log "l" [List.replicate 101 120]]).f).log "l" =
        [[115], List.replicate 100 120] ∧
    (read (run { chunkBytes := 1024, text := .fixed } {}
      [.log "l" [[115]], .log "l" [List.replicate 101 120]]).f).log "l" =
        [[115], List.replicate 101 120] := by
  decide +kernel

/-- a rejected call (`Empty data object`) returns an error; in append mode nothing changes -/
theorem empty_data_rejected (cfg : Cfg) (s : St) (name : String) (scalar : Bool) (esize : Nat) :
    (step cfg s (.feat name scalar esize [])).2 = .err ∧
    (s.w.mode ≠ .replace → (step cfg s (.feat name scalar esize [])).1.f.events = s.f.events) := by
  constructor
  · simp only [step]
    by_cases hn : name = "index" <;> simp [hn]
  · intro hm
    simp only [step]
    by_cases hn : name = "index" <;> simp [hn, hm]

/-- a call with data is accepted -/
theorem nonempty_data_accepted (cfg : Cfg) (s : St) (name : String) (scalar : Bool) (esize : Nat)
    (rows : List Tok) (h : rows ≠ []) : (step cfg s (.feat name scalar esize rows)).2 = .ok := by
  simp only [step]
  by_cases hn : name = "index" <;> simp [hn, h]

/-- **event count** (repaired `rectify_metadata`). On writer exit `experiment:event count`
becomes the common number of events `N` of everything stored below `events` — datasets, trace
datasets and the contour group. -/
theorem event_count_correct (f : File) (N : Nat) (hne : topKeys f ≠ [])
    (hK : ∀ k ∈ f.events.map Prod.fst, k ≠ "contour" ∧ k ≠ "trace")
    (hE : ∀ k d, lookup k f.events = some d → d.rows.length = N)
    (hT : ∀ k d, lookup k f.traces = some d → d.rows.length = N)
    (hC : ∀ g, f.contour = some g → g.length = N) :
    (rectify .fixed f).evcount = some N := by
  obtain ⟨k, hk⟩ := minKey_some_of_ne_nil _ hne
  have hmem := minKey_mem _ _ hk
  unfold rectify
  rw [hk]
  simp only [Option.some.injEq]
  unfold topKeys at hmem
  simp only [List.mem_append] at hmem
  unfold objLen
  rcases hmem with (hmem | hmem) | hmem
  · -- a dataset
    obtain ⟨h1, h2⟩ := hK k hmem
    simp only [h1, h2, if_false]
    obtain ⟨d, hd⟩ := lookup_of_mem_keys k f.events hmem
    rw [hd]
    exact hE k d hd
  · -- the contour group
    split at hmem
    · simp only [List.mem_singleton] at hmem
      subst hmem
      simp only [if_true]
      cases hc : f.contour with
      | none => rename_i h; rw [hc] at h; cases h
      | some g => exact hC g hc
    · cases hmem
  · -- the trace group
    split at hmem
    · cases hmem
    · simp only [List.mem_singleton] at hmem
      subst hmem
      have : ("trace" : String) ≠ "contour" := by decide
      simp only [this, if_false, if_true]
      have hne' : f.traces.map Prod.fst ≠ [] := by
        rename_i h
        intro h0
        apply h
        cases hft : f.traces with
        | nil => rfl
        | cons a t => rw [hft] at h0; cases h0
      obtain ⟨n, hn⟩ := minKey_some_of_ne_nil _ hne'
      rw [hn]
      obtain ⟨d, hd⟩ := lookup_of_mem_keys n f.traces (minKey_mem _ _ hn)
      simp only [hd, Option.map_some, Option.getD_some]
      exact hT n d hd

/-- **Finding F41, witness** (`rectify_metadata` before the repair): a file whose alphabetically
first object is the trace group gets the number of trace names as event count. -/
theorem event_count_trace_witness :
    let f : File := { events := [("volume", { chunk := 10, rows := [5, 6] })],
                      traces := [("fl1_raw", { chunk := 10, rows := [5, 6] })] }
    (rectify .old f).evcount = some 1 ∧ (rectify .fixed f).evcount = some 2 := by
  decide +kernel

/-- **every access pattern, in every order.** Whatever sequence of accesses (plain, slices,
`np.asarray(ds[f], dtype=…)`, copies; `conv` = the conversion the caller asked for) is made on a
feature object, each access returns the stored data converted for that access alone — earlier
accesses never matter. -/
theorem access_order_irrelevant (data : List Tok) (convs : List (Tok → Tok)) :
    accessRun .clean data none convs = convs.map (fun c => data.map c) :=
  accessRun_clean data convs none (Or.inl rfl)

/-- the variant in which the first read converts is wrong: a lossy first access (`/2*2`) poisons a
later plain access -/
theorem access_convert_first_witness :
    accessRun .convertFirst [5, 7] none [fun t => t / 2 * 2, id] = [[4, 6], [4, 6]] ∧
    accessRun .clean [5, 7] none [fun t => t / 2 * 2, id] = [[4, 6], [5, 7]] := by
  decide

/-- **software-version chain.** Once a chain `c` has been stored (it is branded on storing),
any further history of metadata writes that carry no software version (partial sections, with or
without a `setup` section) and writer exits leaves exactly `c` + the dclab brand — every earlier
entry kept, the brand appended at most once. -/
theorem version_chain_kept (dclab : String) (c : List String) (ops : List VerOp)
    (h : ∀ op ∈ ops, op = .store [] ∨ op = .close) :
    verRun dclab (brand dclab c) ops = brand dclab c :=
  verRun_partial dclab ops c h

/-- the brand is appended at most once, and an explicit version replaces the stored chain -/
theorem version_brand_once (dclab : String) (c given : List String) (hg : given ≠ []) :
    brand dclab (brand dclab c) = brand dclab c ∧
    verStep dclab c (.store given) = brand dclab given ∧
    (brand dclab c = c ∨ brand dclab c = c ++ [dclab]) := by
  refine ⟨brand_idem dclab c, ?_, ?_⟩
  · cases given with
    | nil => exact absurd rfl hg
    | cons a t => rfl
  · unfold brand
    by_cases h : c.getLast? = some dclab <;> simp [h]

example : verRun "dclab 1" [] [.store ["ShapeIn 2"], .close, .store [], .store ["ShapeIn 2", "dclab 0"],
    .close] = ["ShapeIn 2", "dclab 0", "dclab 1"] := by decide +kernel

/-- non-vacuity: 13 + 12 image events with chunk size 10 (two appends, both with full chunks and
a remainder, the second starting inside a chunk), contours from two writer objects, index,
a log that outgrows its width -/
example :
    let ops : List Op :=
      [.openW .reset, .feat "image" false 200 (List.range 13), .feat "index" true 8 (List.range 13),
       .contour [7, 8], .log "l" [[1, 2]], .close,
       .openW .append, .feat "image" false 200 (List.range' 13 12),
       .feat "index" true 8 (List.replicate 12 0), .contour [9], .log "l" [List.replicate 120 5],
       .close]
    let s := run { chunkBytes := 100 } {} ops
    lookup "image" s.f.events = some { chunk := 10, rows := List.range 25 } ∧
    (read s.f).feat "index" = some (List.range' 1 25) ∧
    (read s.f).contour = some [some 7, some 8, some 9] ∧
    (read s.f).log "l" = [[1, 2], List.replicate 120 5] ∧
    s.f.evcount = some 3 := by
  decide +kernel

/-! ## tables built from a dict (`Model/WriterTable.lean`, observation O10) -/

/-- **every table cell as written**: for a dict of `ncols` columns of equal length `n`, cell
`(r, i)` of the stored compound array is entry `r` of column `i` — for every size -/
theorem table_dict_cells (colvals : List (List Tok)) (n : Nat)
    (hrect : ∀ c ∈ colvals, c.length = n) (i r : Nat) (hi : i < colvals.length) (hr : r < n) :
    ((dictRecords colvals).getD r []).getD i fill = (colvals.getD i []).getD r fill :=
  dictRecords_cell colvals n hrect i r hi hr

/-- every column is read back (flattened) exactly as passed in -/
theorem table_dict_columns (colvals : List (List Tok)) (n : Nat)
    (hrect : ∀ c ∈ colvals, c.length = n) (i : Nat) (hi : i < colvals.length) :
    column (dictRecords colvals) i = colvals.getD i [] :=
  dictRecords_column colvals n hrect i hi

/-- O10: a dict table has the shape `(len(first column), 1)`, a recarray `(rows,)` -/
theorem table_shape (c0 : List Tok) (cs recs : List (List Tok)) :
    tableShape true (dictRecords (c0 :: cs)) = .column1 c0.length ∧
    tableShape false recs = .flat recs.length := by
  simp [tableShape, dictRecords]

example : dictRecords [[1, 2, 3], [4, 5, 6]] = [[1, 4], [2, 5], [3, 6]] ∧
    column (dictRecords [[1, 2, 3], [4, 5, 6]]) 1 = [4, 5, 6] := by decide

/-! ## metadata inside the writer sessions (`Model/WriterMeta.lean`)

`XOp` histories interleave `store_metadata` calls with the calls of `Model/Writer.lean`; `Tbl` is
the key table of `dclab.definitions` (any table: the theorems do not depend on its content). -/
section Metadata
open DclabModel.WriterMeta DclabModel.Meta PyVal

/-- **C01, metadata refinement.** After every history (any interleaving of metadata, feature,
log and table calls, the three modes, re-opened writers, rejected calls) every attribute of the
file is what the finite-map specification says: the converted, type-mapped value of the last
accepted write of that key since the last reset — for `experiment:event count` the number of
events `__exit__` read off the data. -/
theorem C01_metadata_roundtrip (cfg : Cfg) (t : Tbl) (ops : List XOp) (K : Key) :
    (xrun cfg t {} ops).a.get? K = mspecOf cfg t ops K :=
  xrun_refines cfg t ops {} (fun _ => none) (fun K => attrs_get_nil K) K

/-- metadata calls never disturb the data: `C01_roundtrip` holds verbatim for histories with
`store_metadata` calls anywhere in between -/
theorem metadata_calls_leave_data (cfg : Cfg) (hfix : cfg.text = .fixed) (t : Tbl)
    (ops : List XOp) :
    read (xrun cfg t {} ops).s.f = specOf (dataOps ops) := by
  rw [xrun_data]
  exact C01_roundtrip cfg hfix (dataOps ops)

/-- **last write wins, in the documented type**: a key written by an accepted `store_metadata`
call and not touched afterwards (no later call writes it, no reset; for the event count no writer
exit) holds `h5 (conv v)` of the value `v` written last in that call — whatever was stored before,
in particular a value that compares equal to `v` but has another type. -/
theorem metadata_last_write_wins (cfg : Cfg) (t : Tbl) (pre post : List XOp) (es : List Entry)
    (K : Key) (v : PyVal) (ha : admissible t es = true) (hc : allConvert t es = true)
    (hv : lastWrite es K = some v) (hu : post.all (fun op => !touches K op) = true) :
    (xrun cfg t {} (pre ++ XOp.store es :: post)).a.get? K
      = (t.storedValue K.1 K.2 v).toOption := by
  rw [xrun_append]
  simp only [xrun]
  rw [untouched_keeps cfg t K post hu]
  rw [xstep_refines cfg t _ (fun K => (xrun cfg t {} pre).a.get? K) (.store es) (fun _ => rfl) K]
  simp only [mspecStep, ha, if_true]
  rw [specStore_last t es _ hc K, hv]

/-- … and `parse_config` hands the reader that attribute through the key's converter -/
theorem metadata_read_back (cfg : Cfg) (t : Tbl) (pre post : List XOp) (es : List Entry)
    (K : Key) (v w : PyVal) (ha : admissible t es = true) (hc : allConvert t es = true)
    (hv : lastWrite es K = some v) (hu : post.all (fun op => !touches K op) = true)
    (hw : t.storedValue K.1 K.2 v = .ok w) :
    readMeta t (xrun cfg t {} (pre ++ XOp.store es :: post)).a K = some (t.convert K.1 K.2 w) := by
  unfold readMeta
  rw [metadata_last_write_wins cfg t pre post es K v ha hc hv hu, hw]
  rfl

/-- **the event count is re-derived on every writer exit** from the stored data (non-empty
`events` group), whatever metadata were stored before — in this session or an earlier one, in a
session with or without data calls -/
theorem event_count_rederived (cfg : Cfg) (t : Tbl) (pre : List XOp) (n : Nat)
    (hn : exitCount cfg.count (xrun cfg t {} pre).s.f = some n) :
    (xrun cfg t {} (pre ++ [.w .close])).a.get? kEventCount = some (npI n) ∧
    (xrun cfg t {} (pre ++ [.w .close])).s.f.evcount = some n := by
  rw [xrun_append]
  simp only [xrun, xstep, attrsAfter, hn, step]
  refine ⟨attrs_get_put_same _ _ _, ?_⟩
  rw [rectify_evcount, hn]

/-- the reported event count equals the number of stored events: if everything below `events`
holds `N` events when the writer exits, the attribute is `N` -/
theorem event_count_reported (cfg : Cfg) (hcnt : cfg.count = .fixed) (t : Tbl) (pre : List XOp)
    (N : Nat) (hne : topKeys (xrun cfg t {} pre).s.f ≠ [])
    (hK : ∀ k ∈ (xrun cfg t {} pre).s.f.events.map Prod.fst, k ≠ "contour" ∧ k ≠ "trace")
    (hE : ∀ k d, lookup k (xrun cfg t {} pre).s.f.events = some d → d.rows.length = N)
    (hT : ∀ k d, lookup k (xrun cfg t {} pre).s.f.traces = some d → d.rows.length = N)
    (hC : ∀ g, (xrun cfg t {} pre).s.f.contour = some g → g.length = N) :
    (xrun cfg t {} (pre ++ [.w .close])).a.get? kEventCount = some (npI N) := by
  obtain ⟨k, hk⟩ := minKey_some_of_ne_nil _ hne
  have hx : exitCount cfg.count (xrun cfg t {} pre).s.f
      = some (objLen .fixed (xrun cfg t {} pre).s.f k) := by
    simp [exitCount, hk, hcnt]
  have h1 := event_count_correct _ N hne hK hE hT hC
  rw [rectify_evcount, ← hcnt, hx] at h1
  simp only [Option.some.injEq] at h1
  rw [(event_count_rederived cfg t pre _ hx).1, h1]

/-- a writer opened in reset mode leaves no attribute behind -/
theorem reset_clears_metadata (cfg : Cfg) (t : Tbl) (pre : List XOp) :
    (xrun cfg t {} (pre ++ [.w (.openW .reset)])).a = [] := by
  rw [xrun_append]
  rfl

/-- a two-row key table for the examples -/
def tinyTbl : Tbl :=
  ⟨[⟨sExperiment, kEventCount.2, "fint", "numbers.Integral"⟩,
    ⟨[113, 112, 105], [115, 99, 97, 108, 101], "fboolorfloat", "bool or float"⟩],
   [], [sExperiment, [113, 112, 105]], [sExperiment, [113, 112, 105]]⟩

/-- non-vacuity (the class of a stale event count): two events, then a session that stores only
metadata carrying the event count of another measurement — the exit re-derives 2 -/
example :
    (xrun { chunkBytes := 100 } tinyTbl {}
      [.w (.openW .reset), .store [(sExperiment, kEventCount.2, sc (.int 0))],
       .w (.feat "deform" true 8 [5, 6]), .w .close,
       .w (.openW .append), .store [(sExperiment, kEventCount.2, sc (.int 1000000))],
       .w .close]).a.get? kEventCount = some (sc (.npInt 2)) := by
  decide +kernel

/-- non-vacuity (equal value, other type): `True`, then `1.0` for a bool-or-float key — the file
holds the float; an unknown key rejects the whole call -/
example :
    let qk : Key := ([113, 112, 105], [115, 99, 97, 108, 101])
    (xrun { chunkBytes := 100 } tinyTbl {}
      [.store [(qk.1, qk.2, sc (.bool true))], .w .close, .w (.openW .append),
       .store [(qk.1, qk.2, sc (.float (.fin 1)))]]).a.get? qk = some (sc (.npFloat (.fin 1))) ∧
    (xrun { chunkBytes := 100 } tinyTbl {}
      [.store [(qk.1, qk.2, sc (.float (.fin 1)))], .store [(qk.1, qk.2, sc (.bool true))]]).a.get? qk
        = some (sc (.npBool true)) ∧
    (xstep { chunkBytes := 100 } tinyTbl {}
      (.store [(qk.1, qk.2, sc (.bool true)), (qk.1, [120], sc (.int 1))])).2 = .err := by
  decide +kernel

end Metadata

end DclabModel.C01
