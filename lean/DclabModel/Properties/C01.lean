import DclabModel.Lemmas.Writer
/-!
# C01 — Data written through the writer API is read back exactly

Property theorems only.  Model: `Model/Writer.lean` (`step`/`run` mirror `RTDCWriter`, `read` the
HDF5 readers, `specOf` is the specification).  `Cfg.text = .fixed` is `write_text` after the
repair of finding F01.  The theorems quantify over **every** history of writer calls: any
composition of the events into calls, any interleaving of features / traces / contours / logs /
tables, the three modes, writers re-opened at any point, every `CHUNK_SIZE_BYTES`, every event
size (hence every chunk size), rejected (empty) calls included.
-/
namespace DclabModel.C01
open DclabModel.Writer

/-- **The chunk-wise resize-and-populate loop with its remainder branch appends the data**,
for every chunk size (Python only ever uses `cs ≥ 10`), every old content, every new data. -/
theorem chunkwise_write_eq_append (cs : Nat) (old data : List Tok) :
    populateNd cs old.length (resize old (old.length + data.length)) data = old ++ data :=
  populateNd_eq_append cs old data

/-- `write_ndarray` (scalar "in one go" or n-d chunk-wise, new or existing dataset) appends -/
theorem write_ndarray_appends (cb : Nat) (scalar : Bool) (esize : Nat) (old : Option Dset)
    (data : List Tok) :
    (writeNd cb scalar esize old data).rows = (old.map (·.rows)).getD [] ++ data :=
  writeNd_rows cb scalar esize old data

/-- the chunk size chosen by `get_best_nd_chunks` is never zero -/
theorem chunk_positive (cb esize : Nat) : 10 ≤ bestChunk cb esize := by
  unfold bestChunk; omega

/-- **C01, refinement.** After every history of writer calls on a fresh file, the readers
return exactly the specification's view: per feature / trace the concatenation of the rows
written (the last call's rows in replace mode, nothing from before a reset), contours fetched by
name in writing order, log lines and tables as written. -/
theorem C01_roundtrip (cfg : Cfg) (hfix : cfg.text = .fixed) (ops : List Op) :
    read (run cfg {} ops).f = specOf ops :=
  read_of_rel _ _ (run_sim cfg hfix ops {} {} rel_init)

/-- the same from any reachable state: what is appended later is read back after what was
there (one more history `more` on top of `ops`) -/
theorem C01_roundtrip_continued (cfg : Cfg) (hfix : cfg.text = .fixed) (ops more : List Op) :
    read (run cfg (run cfg {} ops) more).f = (specRun (specRun {} ops) more).view :=
  read_of_rel _ _ (run_sim cfg hfix more _ _ (run_sim cfg hfix ops {} {} rel_init))

/-- **the index feature enumerates 1..N** after every history, whatever the user passed -/
theorem index_enumerates (cfg : Cfg) (hfix : cfg.text = .fixed) (ops : List Op)
    (rows : List Tok) (h : (read (run cfg {} ops).f).feat "index" = some rows) :
    rows = List.range' 1 rows.length := by
  have hr := run_sim cfg hfix ops {} {} rel_init
  rw [read_of_rel _ _ hr] at h
  exact hr.index rows h

/-- **ragged names are dense**: after every history (re-opened writers, replace mode included)
the contour group holds the names `0..n-1`, name `i` holding the `i`-th contour written -/
theorem ragged_names_dense (cfg : Cfg) (hfix : cfg.text = .fixed) (ops : List Op) :
    (run cfg {} ops).f.contour = (specRun {} ops).contour.map (enum 0) ∧
    ∀ g, (run cfg {} ops).f.contour = some g → g.map Prod.fst = List.range g.length := by
  have hr := run_sim cfg hfix ops {} {} rel_init
  refine ⟨hr.contour, ?_⟩
  intro g hg
  rw [hr.contour] at hg
  cases hc : (specRun {} ops).contour with
  | none => rw [hc] at hg; cases hg
  | some rows =>
    rw [hc] at hg
    injection hg with hg
    subst hg
    rw [enum_fst, enum_length, List.range_eq_range']

/-- `create_dataset(str(curid + ii))` never hits an existing name -/
theorem contour_never_clashes (cfg : Cfg) (hfix : cfg.text = .fixed) (ops : List Op)
    (rows : List Tok) : (step cfg (run cfg {} ops) (.contour rows)).2 = .ok := by
  have hr := run_sim cfg hfix ops {} {} rel_init
  generalize run cfg {} ops = s at hr
  generalize specRun {} ops = p at hr
  simp only [step]
  by_cases hm : s.w.mode = .replace
  · simp only [hm, if_true, Option.getD_none, List.length_nil]
    have := addRagged_dense [] rows
    simp only [enum, List.length_nil] at this
    rw [this]
  · simp only [hm, if_false]
    have hg : (s.f.contour.getD []) = enum 0 (p.contour.getD []) := by
      rw [hr.contour]
      cases p.contour <;> simp [enum]
    have hc : s.w.gsize.getD (s.f.contour.getD []).length = (p.contour.getD []).length := by
      cases hgs : s.w.gsize with
      | none => simp [hg, enum_length]
      | some n => simp [hr.gsize n hgs]
    rw [hc, hg, addRagged_dense]

/-- **text round trip** (repaired `write_text`): whatever was stored before (all lines fitting
their width), the stored lines afterwards are the old ones followed by the new ones, unchanged —
no hypothesis on the length of the new lines. -/
theorem text_roundtrip (mode : Mode) (logs : List (String × Log)) (name : String)
    (lines : List Line)
    (hw : ∀ k lg, lookup k logs = some lg → ∀ l ∈ lg.lines, l.length ≤ lg.width) :
    ((lookup name (writeText .fixed mode logs name lines)).map (·.lines)).getD [] =
      (if mode = .replace then [] else ((lookup name logs).map (·.lines)).getD []) ++ lines := by
  have := (writeText_spec mode logs name lines hw).1 name
  simpa using this

/-- **Finding F01, witness** (`write_text` before the repair): a 101-byte line appended to a log
created with a short line is cut to the frozen width of 100 bytes; the repaired rule keeps it. -/
theorem text_truncated_witness :
    (read (run { chunkBytes := 1024, text := .old } {}
      [.log "l" [[115]], .log "l" [List.replicate 101 120]]).f).log "l" =
        [[115], List.replicate 100 120] ∧
    (read (run { chunkBytes := 1024, text := .fixed } {}
      [.log "l" [[115]], .log "l" [List.replicate 101 120]]).f).log "l" =
        [[115], List.replicate 101 120] := by
  decide +kernel

/-- a rejected call (`Empty data object`) returns an error; in append mode nothing changes -/
theorem empty_data_rejected (cfg : Cfg) (s : St) (name : String) (scalar : Bool) (esize : Nat) :
    (step cfg s (.feat name scalar esize [])).2 = .err ∧
    (s.w.mode ≠ .replace → (step cfg s (.feat name scalar esize [])).1.f.events = s.f.events) := by
  constructor
  · simp only [step]
    by_cases hn : name = "index" <;> simp [hn]
  · intro hm
    simp only [step]
    by_cases hn : name = "index" <;> simp [hn, hm]

/-- a call with data is accepted -/
theorem nonempty_data_accepted (cfg : Cfg) (s : St) (name : String) (scalar : Bool) (esize : Nat)
    (rows : List Tok) (h : rows ≠ []) : (step cfg s (.feat name scalar esize rows)).2 = .ok := by
  simp only [step]
  by_cases hn : name = "index" <;> simp [hn, h]

/-- **event count** (repaired `rectify_metadata`). On writer exit `experiment:event count`
becomes the common number of events `N` of everything stored below `events` — datasets, trace
datasets and the contour group. -/
theorem event_count_correct (f : File) (N : Nat) (hne : topKeys f ≠ [])
    (hK : ∀ k ∈ f.events.map Prod.fst, k ≠ "contour" ∧ k ≠ "trace")
    (hE : ∀ k d, lookup k f.events = some d → d.rows.length = N)
    (hT : ∀ k d, lookup k f.traces = some d → d.rows.length = N)
    (hC : ∀ g, f.contour = some g → g.length = N) :
    (rectify .fixed f).evcount = some N := by
  obtain ⟨k, hk⟩ := minKey_some_of_ne_nil _ hne
  have hmem := minKey_mem _ _ hk
  unfold rectify
  rw [hk]
  simp only [Option.some.injEq]
  unfold topKeys at hmem
  simp only [List.mem_append] at hmem
  unfold objLen
  rcases hmem with (hmem | hmem) | hmem
  · -- a dataset
    obtain ⟨h1, h2⟩ := hK k hmem
    simp only [h1, h2, if_false]
    obtain ⟨d, hd⟩ := lookup_of_mem_keys k f.events hmem
    rw [hd]
    exact hE k d hd
  · -- the contour group
    split at hmem
    · simp only [List.mem_singleton] at hmem
      subst hmem
      simp only [if_true]
      cases hc : f.contour with
      | none => rename_i h; rw [hc] at h; cases h
      | some g => exact hC g hc
    · cases hmem
  · -- the trace group
    split at hmem
    · cases hmem
    · simp only [List.mem_singleton] at hmem
      subst hmem
      have : ("trace" : String) ≠ "contour" := by decide
      simp only [this, if_false, if_true]
      have hne' : f.traces.map Prod.fst ≠ [] := by
        rename_i h
        intro h0
        apply h
        cases hft : f.traces with
        | nil => rfl
        | cons a t => rw [hft] at h0; cases h0
      obtain ⟨n, hn⟩ := minKey_some_of_ne_nil _ hne'
      rw [hn]
      obtain ⟨d, hd⟩ := lookup_of_mem_keys n f.traces (minKey_mem _ _ hn)
      simp only [hd, Option.map_some, Option.getD_some]
      exact hT n d hd

/-- **Finding F41, witness** (`rectify_metadata` before the repair): a file whose alphabetically
first object is the trace group gets the number of trace names as event count. -/
theorem event_count_trace_witness :
    let f : File := { events := [("volume", { chunk := 10, rows := [5, 6] })],
                      traces := [("fl1_raw", { chunk := 10, rows := [5, 6] })] }
    (rectify .old f).evcount = some 1 ∧ (rectify .fixed f).evcount = some 2 := by
  decide +kernel

/-- **every access pattern, in every order.** Whatever sequence of accesses (plain, slices,
`np.asarray(ds[f], dtype=…)`, copies; `conv` = the conversion the caller asked for) is made on a
feature object, each access returns the stored data converted for that access alone — earlier
accesses never matter. -/
theorem access_order_irrelevant (data : List Tok) (convs : List (Tok → Tok)) :
    accessRun .clean data none convs = convs.map (fun c => data.map c) :=
  accessRun_clean data convs none (Or.inl rfl)

/-- the variant in which the first read converts is wrong: a lossy first access (`/2*2`) poisons a
later plain access -/
theorem access_convert_first_witness :
    accessRun .convertFirst [5, 7] none [fun t => t / 2 * 2, id] = [[4, 6], [4, 6]] ∧
    accessRun .clean [5, 7] none [fun t => t / 2 * 2, id] = [[4, 6], [5, 7]] := by
  decide

/-- **software-version chain.** Once a chain `c` has been stored (it is branded on storing),
any further history of metadata writes that carry no software version (partial sections, with or
without a `setup` section) and writer exits leaves exactly `c` + the dclab brand — every earlier
entry kept, the brand appended at most once. -/
theorem version_chain_kept (dclab : String) (c : List String) (ops : List VerOp)
    (h : ∀ op ∈ ops, op = .store [] ∨ op = .close) :
    verRun dclab (brand dclab c) ops = brand dclab c :=
  verRun_partial dclab ops c h

/-- the brand is appended at most once, and an explicit version replaces the stored chain -/
theorem version_brand_once (dclab : String) (c given : List String) (hg : given ≠ []) :
    brand dclab (brand dclab c) = brand dclab c ∧
    verStep dclab c (.store given) = brand dclab given ∧
    (brand dclab c = c ∨ brand dclab c = c ++ [dclab]) := by
  refine ⟨brand_idem dclab c, ?_, ?_⟩
  · cases given with
    | nil => exact absurd rfl hg
    | cons a t => rfl
  · unfold brand
    by_cases h : c.getLast? = some dclab <;> simp [h]

example : verRun "dclab 1" [] [.store ["ShapeIn 2"], .close, .store [], .store ["ShapeIn 2", "dclab 0"],
    .close] = ["ShapeIn 2", "dclab 0", "dclab 1"] := by decide +kernel

/-- non-vacuity: 13 + 12 image events with chunk size 10 (two appends, both with full chunks and
a remainder, the second starting inside a chunk), contours from two writer objects, index,
a log that outgrows its width -/
example :
    let ops : List Op :=
      [.openW .reset, .feat "image" false 200 (List.range 13), .feat "index" true 8 (List.range 13),
       .contour [7, 8], .log "l" [[1, 2]], .close,
       .openW .append, .feat "image" false 200 (List.range' 13 12),
       .feat "index" true 8 (List.replicate 12 0), .contour [9], .log "l" [List.replicate 120 5],
       .close]
    let s := run { chunkBytes := 100 } {} ops
    lookup "image" s.f.events = some { chunk := 10, rows := List.range 25 } ∧
    (read s.f).feat "index" = some (List.range' 1 25) ∧
    (read s.f).contour = some [some 7, some 8, some 9] ∧
    (read s.f).log "l" = [[1, 2], List.replicate 120 5] ∧
    s.f.evcount = some 3 := by
  decide +kernel

end DclabModel.C01
