import DclabModel.Lemmas.Feat
/-!
# C18 — Contour-, image- and fluorescence-derived features obey their definitions

All statements are over ℚ for the executable model `DclabModel.Feat` (which mirrors
`cont_moments_cv`, `vol_revolve`/`get_volume`, `get_bright*`, `get_compensation_matrix`/
`correct_crosstalk`, `remove_duplicates` term by term and is tied to the code by
`harness/c18.py` on every run).

1. moments   `a00_translate_invariant`, `translate_none_iff`, `translate_invariant` (area and all
             central moments up to third order), `swap_axes`, `inert_ratio_swap_reciprocal`,
             `area_is_shoelace`, `moments_none_iff`
2. volume    `cone_symmetric`, `scale_cubic`, `point_scale_cubic`, `reverse_flips_sign`,
             `closing_is_idempotent`, `getVolume_pixel_cubic`, `getVolume_reverse_flips_sign`,
             `getVolume_fix_orientation`, `getVolume_fix_orientation_sign`,
             `old_fix_orientation_wrong_witness` (F35), `old_fix_orientation_agrees_when_ccw`
3. brightness `offset_shifts_mean_one_to_one`, `offset_is_background_shift`, `sd_offset_invariant`,
             `percentile_shift_equivariant`, `perc_offset_one_to_one`,
             `old_bright_perc_raises_on_array_offset` (F19 witness),
             `old_bright_perc_agrees_when_truthy`
4. crosstalk `compensate_spill`, `spill_compensate`, `two_channel`, `correctCrosstalk_inverts`,
             `negative_rejected`
5. contour   `remove_duplicates_no_adjacent_equal`, `remove_duplicates_sublist`
6. crosstalk sub-cases `det_crosstalkMatrix`, `correctChannel_inverts` (component-wise, every
             channel, every unit-diagonal matrix with det ≠ 0), `twoChannel_inverts`,
             `two_channel_12/13/23`, `receiver_only_channel1/2/3_corrected` (a channel that
             receives spill but emits none is still corrected), `triangular_det_one`,
             `triangular_inverts`, `unchanged_receiver_channel_wrong_witness`
7. batch brightness `batch_is_eventwise`, `batch_perc_is_eventwise`,
             `batch_offsets_are_background_shifts` (per-event offsets = per-event background
             shifts, avg/sd and percentiles), `batch_sd_offset_invariant`,
             `batch_combined_is_both_single`, `batch_scalar_is_constant_array`,
             `batch_offset_length_mismatch_raises`, `batch_nothing_selected_raises`
8. contour cache with failing events `lcl_get_correct`, `lcl_history_correct` (every access of
             every history, failures included, returns the contour of the requested event or
             re-raises for exactly the events without contour), `lcl_run_outcomes`,
             `lcl_hit_returns_own`, `lcl_failure_leaves_cache`, `lcl_bounded`, `lclInv_lengths`,
             `early_registration_wrong_witness`; slices / index arrays: `lcl_many_correct`,
             `lcl_op_correct`, `lcl_ops_history_correct`
9. rotation  `rotate_second_moments` (tensor law for every contour and rational rotation),
             `rotate_invariants` (trace, determinant), `prnc_sq_ge_one`,
             `prnc_rotation_invariant`

Not proved here (correspondence / metamorphic checks only, see `NOT_PROVED` in the harness):

* `fill (get_contour mask) = mask` for *all* connected hole-free masks (marching squares is
  compiled code; the statement is a digital-topology theorem);
* rotation invariance and `≥ 1` of `inert_ratio_prnc` are proved for the *square* of the ratio and
  for rotations with rational cosine/sine (section 9); that `arctan2`/`cos`/`sin` of the code
  deliver the angle `orient + π/2` (hypotheses `hcos`, `hsin` of `prnc_sq_ge_one`) and the final
  `sqrt` stay outside the model (floating point, checked by the correspondence to 1e-6);
* convergence of the volume of discretised spheres/ellipsoids to `4/3·π·a·b²`.
-/
namespace DclabModel.C18
open DclabModel.Feat

/-! ## 1. contour moments -/

/-- the area sum `a00 = Σ (x_{i+1}·y_i − x_i·y_{i+1})` does not change when the contour is moved -/
theorem a00_translate_invariant (t s : Rat) (c : List Pt) :
    a00 (c.map (translate t s)) = a00 c := a00_translate t s c

/-- whether `cont_moments_cv` returns `None` does not depend on the position of the contour -/
theorem translate_none_iff (fltEps dblEps t s : Rat) (c : List Pt) :
    (moments fltEps dblEps (c.map (translate t s))).isSome = (moments fltEps dblEps c).isSome := by
  unfold moments
  rw [a00_translate]
  split <;> rfl

/-- **Translation invariance.** Moving a contour by `(t, s)` leaves the area `m00` and all
central moments (second and third order) unchanged; (`dblEps ≤ fltEps/2` holds for the constants
of the code: 2.2e-16 vs 1.19e-7). -/
theorem translate_invariant (fltEps dblEps t s : Rat) (c : List Pt) (m : Moments)
    (h0 : 0 ≤ dblEps) (hε : dblEps ≤ fltEps / 2) (h : moments fltEps dblEps c = some m) :
    ∃ m', moments fltEps dblEps (c.map (translate t s)) = some m' ∧
      m'.m00 = m.m00 ∧ m'.mu20 = m.mu20 ∧ m'.mu11 = m.mu11 ∧ m'.mu02 = m.mu02 ∧
      m'.mu30 = m.mu30 ∧ m'.mu21 = m.mu21 ∧ m'.mu12 = m.mu12 ∧ m'.mu03 = m.mu03 := by
  obtain ⟨hm, hgt, hne, _⟩ := m00_pos_of_some h0 hε h
  refine ⟨momentsCore dblEps (c.map (translate t s)), ?_, ?_⟩
  · have h1 := translate_none_iff fltEps dblEps t s c
    rw [h] at h1
    unfold moments at h1 ⊢
    split
    · rfl
    · rename_i hn; simp [hn] at h1
  · subst hm
    simp only [momentsCore, rawMoments_translate]
    exact central_shift dblEps t s _ hgt hne

/-- **Exchange of the axes.** The moments of the contour with x and y exchanged are the
transposed moments (`mu20 ↔ mu02`, `mu11` fixed, …); the orientation flips and is absorbed by the
sign switch of the code. -/
theorem swap_axes (fltEps dblEps : Rat) (c : List Pt) (m : Moments) (he : 0 ≤ fltEps)
    (h : moments fltEps dblEps c = some m) :
    moments fltEps dblEps (c.map swapXY) = some m.transpose := by
  unfold moments at h ⊢
  have hab : rabs (a00 (c.map swapXY)) = rabs (a00 c) := by
    rw [a00_swap, rabs_eq_abs, rabs_eq_abs, abs_neg]
  rw [hab]
  split at h
  · rename_i hgt
    have hm : momentsCore dblEps c = m := by simpa using h
    have h00 : a00 c ≠ 0 := ne_zero_of_rabs_gt he hgt
    simp only [hgt, if_true, momentsCore, rawMoments_swap c h00, central_transpose]
    rw [← hm]; rfl
  · cases h

/-- the squared inertia ratio `mu20/mu02` of the axis-swapped contour is the reciprocal -/
theorem inert_ratio_swap_reciprocal (fltEps dblEps : Rat) (c : List Pt) (m : Moments)
    (he : 0 ≤ fltEps) (h : moments fltEps dblEps c = some m) :
    ∃ m', moments fltEps dblEps (c.map swapXY) = some m' ∧
      inertRatioSq m' = (inertRatioSq m)⁻¹ ∧
      (m.mu20 ≠ 0 → m.mu02 ≠ 0 → inertRatioSq m' * inertRatioSq m = 1) := by
  refine ⟨m.transpose, swap_axes fltEps dblEps c m he h, ?_, ?_⟩
  · simp only [inertRatioSq, Moments.transpose, inv_div]
  · intro h1 h2
    simp only [inertRatioSq, Moments.transpose]
    field_simp

/-- `m00` is the absolute value of the shoelace area of the polygon -/
theorem area_is_shoelace (fltEps dblEps : Rat) (c : List Pt) (m : Moments)
    (h : moments fltEps dblEps c = some m) : m.m00 = |shoelace c| := by
  unfold moments at h
  split at h
  · have hm : momentsCore dblEps c = m := by simpa using h
    rw [← hm]
    have h1 : shoelace c = -(a00 c) / 2 := by
      unfold shoelace a00
      have : (fun p q : Pt => p.1 * q.2 - q.1 * p.2) = fun p q => -1 * t00 p q := by
        funext p q; simp only [t00, dxy]; ring
      rw [this, cyc_mul]; ring
    have h2 : (momentsCore dblEps c).m00 = rabs (a00 c) / 2 := by
      simp only [momentsCore, central, rawMoments]; rw [← sgn_mul_self]; ring
    rw [h1, h2, rabs_eq_abs, abs_div, abs_neg]
    norm_num
  · cases h

/-- `cont_moments_cv` returns `None` exactly for (nearly) degenerate polygons -/
theorem moments_none_iff (fltEps dblEps : Rat) (c : List Pt) :
    moments fltEps dblEps c = none ↔ 2 * |shoelace c| ≤ fltEps := by
  have h1 : shoelace c = -(a00 c) / 2 := by
    unfold shoelace a00
    have : (fun p q : Pt => p.1 * q.2 - q.1 * p.2) = fun p q => -1 * t00 p q := by
      funext p q; simp only [t00, dxy]; ring
    rw [this, cyc_mul]; ring
  have h2 : 2 * |shoelace c| = rabs (a00 c) := by
    have h22 : |(2 : Rat)| = 2 := abs_of_pos (by norm_num)
    rw [h1, rabs_eq_abs, abs_div, abs_neg, h22]; ring
  unfold moments
  rw [h2]
  split
  · rename_i h; simp; linarith
  · rename_i h; simp; linarith

/-! ## 2. volume of revolution -/

/-- the summand of `vol_revolve` is the truncated-cone formula `r² + rR + R²` -/
theorem cone_symmetric (r R : Rat) :
    3 * (r * r) + 3 * (r * (R - r)) + (R - r) * (R - r) = r * r + r * R + R * R :=
  cone_symmetric_form r R

/-- **Cubic scaling.** Scaling all contour coordinates by `k ≠ 0` scales the volume by `k³` -/
theorem scale_cubic (pi k sc : Rat) (rz : List Pt) (hk : k ≠ 0) :
    volRevolve pi (rz.map (scalePt k)) sc = k * k * k * volRevolve pi rz sc := by
  have hinj : ∀ p q : Pt, scalePt k p = scalePt k q → p = q := by
    intro p q h
    obtain ⟨a, b⟩ := p; obtain ⟨c, d⟩ := q
    simp only [scalePt, Prod.mk.injEq] at h ⊢
    exact ⟨mul_left_cancel₀ hk h.1, mul_left_cancel₀ hk h.2⟩
  unfold volRevolve
  rw [close_map _ hinj, pathSum_map]
  have : (fun p q => coneTerm (scalePt k p) (scalePt k q)) = fun p q => (k * k * k) * coneTerm p q := by
    funext p q; exact coneTerm_scale k p q
  rw [this, pathSum_mul]; ring

/-- the `point_scale` argument enters with its third power -/
theorem point_scale_cubic (pi k sc : Rat) (rz : List Pt) :
    volRevolve pi rz (k * sc) = k * k * k * volRevolve pi rz sc := by
  unfold volRevolve; ring

/-- **Orientation.** Traversing the contour in the opposite direction flips the sign of the
volume (closed or open input). -/
theorem reverse_flips_sign (pi sc : Rat) (rz : List Pt) :
    volRevolve pi rz.reverse sc = - volRevolve pi rz sc := by
  unfold volRevolve
  rw [pathSum_close _ coneTerm_antisymm, pathSum_close _ coneTerm_antisymm,
    pathSum_reverse _ coneTerm_antisymm, closing_reverse _ coneTerm_antisymm]
  ring

/-- closing an already closed contour changes nothing -/
theorem closing_is_idempotent (l : List Pt) : close (close l) = close l := close_close l

/-- `get_volume`: multiplying pixel size and centroid (µm) by `k` — the same pixel contour
looked at with a `k` times larger pixel — multiplies the volume by `k³` -/
theorem getVolume_pixel_cubic (pi k posx posy pix : Rat) (cont : List Pt) (hk : k ≠ 0) :
    getVolume pi cont (k * posx) (k * posy) (k * pix)
      = (getVolume pi cont posx posy pix).map (fun v => k * k * k * v) := by
  unfold getVolume
  have h1 : k * posx / (k * pix) = posx / pix := mul_div_mul_left _ _ hk
  have h2 : k * posy / (k * pix) = posy / pix := mul_div_mul_left _ _ hk
  split
  · simp only [halves, h1, h2, point_scale_cubic, Option.map_some]
    congr 1; ring
  · rfl

/-- `get_volume` flips its sign when the contour is traversed backwards -/
theorem getVolume_reverse_flips_sign (pi posx posy pix : Rat) (cont : List Pt) :
    getVolume pi cont.reverse posx posy pix
      = (getVolume pi cont posx posy pix).map (fun v => -v) := by
  unfold getVolume
  simp only [List.length_reverse]
  split
  · simp only [halves, List.map_reverse, List.reverse_reverse, Option.map_some]
    generalize hZ : List.map (fun p : Pt => p.1 - posx / pix) cont = Z
    generalize hR : List.map (fun r : Rat => if r < 0 then 0 else r)
      (List.map (fun p : Pt => p.2 - posy / pix) cont) = R
    generalize hL : List.map (fun r : Rat => -(if r > 0 then 0 else r))
      (List.map (fun p : Pt => p.2 - posy / pix) cont) = L
    have hRZ : R.length = Z.length := by rw [← hR, ← hZ]; simp
    have hLZ : L.length = Z.length := by rw [← hL, ← hZ]; simp
    rw [zip_reverse' hRZ, reverse_flips_sign]
    have h2 := reverse_flips_sign pi pix (List.zip L.reverse Z.reverse)
    rw [zip_reverse' hLZ, List.reverse_reverse] at h2
    rw [h2, zip_reverse' hLZ]
    congr 1; ring
  · rfl

/-- **`fix_orientation=True` returns the volume of the re-oriented contour** (F35 fixed): for
every contour, whatever the orientation test decides, the result is `get_volume` of the contour
traversed in the direction the test asks for -/
theorem getVolume_fix_orientation (pi posx posy pix : Rat) (cont : List Pt) (cw : Bool) :
    getVolumeFix pi cont posx posy pix cw
      = getVolume pi (if cw then cont.reverse else cont) posx posy pix := by
  cases cw
  · rfl
  · simp only [getVolumeFix, getVolume, if_true, List.length_reverse, List.map_reverse]

/-- … hence it is `get_volume` itself, negated exactly when the contour was clockwise: a
clockwise and the corresponding counter-clockwise contour give the same value -/
theorem getVolume_fix_orientation_sign (pi posx posy pix : Rat) (cont : List Pt) (cw : Bool) :
    getVolumeFix pi cont posx posy pix cw
      = (getVolume pi cont posx posy pix).map (fun v => if cw then -v else v) := by
  rw [getVolume_fix_orientation]
  cases cw
  · simp only [Bool.false_eq_true, if_false]
    cases getVolume pi cont posx posy pix <;> rfl
  · simp only [if_true]; exact getVolume_reverse_flips_sign pi posx posy pix cont

/-- F35: before the fix the reversed radii were combined with the un-reversed axial coordinates;
for this asymmetric clockwise quadrilateral the result (−13/2 with π := 3) is not the volume of the
counter-clockwise contour (19/2) -/
theorem old_fix_orientation_wrong_witness :
    getVolumeFixOld 3 [(1, 0), (3, 1), (0, 2), (0, 0)] 0 0 1 true = some (-13/2) ∧
    getVolume 3 [(1, 0), (3, 1), (0, 2), (0, 0)].reverse 0 0 1 = some (19/2) ∧
    getVolumeFix 3 [(1, 0), (3, 1), (0, 2), (0, 0)] 0 0 1 true = some (19/2) := by decide +kernel

/-- F35: without re-orientation nothing changed -/
theorem old_fix_orientation_agrees_when_ccw (pi posx posy pix : Rat) (cont : List Pt) :
    getVolumeFixOld pi cont posx posy pix false = getVolumeFix pi cont posx posy pix false := rfl

/-! ## 3. brightness -/

/-- **Offsets shift the mean one-to-one**: increasing `bg_off` by `d` lowers `bright_bc_avg`
by exactly `d`; an offset `d` equals no offset minus `d` -/
theorem offset_shifts_mean_one_to_one (px : List Px) (o d : Rat) :
    brightAvg px (some (o + d)) = brightAvg px (some o) - d ∧
    brightAvg px (some d) = brightAvg px none - d := by
  refine ⟨?_, rfl⟩
  simp only [brightAvg]; ring

/-- passing the offset as `bg_off` is the same as adding it to the background image -/
theorem offset_is_background_shift (px : List Px) (d : Rat) (h : masked px ≠ []) :
    brightAvg (bgShift d px) none = brightAvg px (some d) := by
  simp only [brightAvg, masked_bg_shift, mean_shift d _ h]

/-- the standard deviation does not see a constant background offset -/
theorem sd_offset_invariant (px : List Px) (d : Rat) : brightVar (bgShift d px) = brightVar px := by
  simp only [brightVar, masked_bg_shift, variance_shift]

/-- **Percentiles are shift-equivariant** (NumPy's linear rule): the percentile of the
image under a background raised by `d` is the percentile lowered by `d`, i.e. what `bg_off = d`
returns (fixed code) -/
theorem percentile_shift_equivariant (q : Rat) (px : List Px) (d : Rat) (h : masked px ≠ []) :
    brightPerc q (bgShift d px) none = brightPerc q px (some d) := by
  simp only [brightPerc, masked_bg_shift, percentile_shift q d _ h]

theorem perc_offset_one_to_one (q : Rat) (px : List Px) (o d : Rat) :
    brightPerc q px (some (o + d)) = brightPerc q px (some o) - d ∧
    brightPerc q px (some d) = brightPerc q px none - d := by
  refine ⟨?_, rfl⟩
  simp only [brightPerc]; ring

/-- F19: before the fix an offset array with more than one element (what `ds["bg_off"]` is
for every dataset with more than one event) made `get_bright_perc` raise instead of shifting -/
theorem old_bright_perc_raises_on_array_offset (q : Rat) (px : List Px) (o : Rat) (n : Nat)
    (nz : Bool) (hn : 2 ≤ n) : brightPercOld q px o (truthOf true n nz) = none := by
  have h0 : n ≠ 0 := by omega
  have h1 : n ≠ 1 := by omega
  simp [brightPercOld, truthOf, h0, h1]

/-- F19: a one-element offset array equal to `o ≠ 0` worked, so did lists and numbers; the
old code agreed with the fixed one exactly where it did not raise and the offset was truthy -/
theorem old_bright_perc_agrees_when_truthy (q : Rat) (px : List Px) (o : Rat) :
    brightPercOld q px o .isTrue = some (brightPerc q px (some o)) := rfl

/-! ## 4. crosstalk -/

/-- **Compensation inverts the spill-over** for every invertible 3×3 matrix -/
theorem compensate_spill (c : Mat3) (x : Vec3) (h : det c ≠ 0) : compensate c (spill c x) = x := by
  obtain ⟨x1, x2, x3⟩ := x
  simp only [compensate, spill, vecMul, inv, Prod.mk.injEq]
  refine ⟨?_, ?_, ?_⟩ <;> (field_simp; simp only [det, adj]; ring)

theorem spill_compensate (c : Mat3) (y : Vec3) (h : det c ≠ 0) : spill c (compensate c y) = y := by
  obtain ⟨y1, y2, y3⟩ := y
  simp only [compensate, spill, vecMul, inv, Prod.mk.injEq]
  refine ⟨?_, ?_, ?_⟩ <;> (field_simp; simp only [det, adj]; ring)

/-- two channels (no spill from or to channel 3): the familiar 2×2 formula, channel 3 untouched -/
theorem two_channel (ct21 ct12 : Rat) (y : Vec3) (h : 1 - ct12 * ct21 ≠ 0) :
    compensate (crosstalkMatrix ct21 0 ct12 0 0 0) y
      = ((y.1 - ct21 * y.2.1) / (1 - ct12 * ct21), (y.2.1 - ct12 * y.1) / (1 - ct12 * ct21), y.2.2) := by
  obtain ⟨y1, y2, y3⟩ := y
  have hd : det (crosstalkMatrix ct21 0 ct12 0 0 0) = 1 - ct12 * ct21 := by
    simp only [det, crosstalkMatrix]; ring
  simp only [compensate, vecMul, inv, hd, Prod.mk.injEq]
  simp only [adj, crosstalkMatrix]
  refine ⟨?_, ?_, ?_⟩ <;> (field_simp; ring)

/-- `correct_crosstalk` applied to spilled signals returns the true signals, for all
non-negative cross-talk coefficients with an invertible matrix -/
theorem correctCrosstalk_inverts (ct21 ct31 ct12 ct32 ct13 ct23 : Rat) (x : Vec3)
    (hpos : 0 ≤ ct21 ∧ 0 ≤ ct31 ∧ 0 ≤ ct12 ∧ 0 ≤ ct32 ∧ 0 ≤ ct13 ∧ 0 ≤ ct23)
    (h : det (crosstalkMatrix ct21 ct31 ct12 ct32 ct13 ct23) ≠ 0) :
    correctCrosstalk ct21 ct31 ct12 ct32 ct13 ct23
      (spill (crosstalkMatrix ct21 ct31 ct12 ct32 ct13 ct23) x) = .ok x := by
  obtain ⟨h1, h2, h3, h4, h5, h6⟩ := hpos
  have hneg : ¬ (ct21 < 0 ∨ ct31 < 0 ∨ ct12 < 0 ∨ ct32 < 0 ∨ ct13 < 0 ∨ ct23 < 0) := by
    simp only [not_or, not_lt]; exact ⟨h1, h2, h3, h4, h5, h6⟩
  simp only [correctCrosstalk, compMatrix, hneg, if_false, h]
  have := compensate_spill _ x h
  simp only [compensate] at this
  rw [this]

/-- negative coefficients are rejected -/
theorem negative_rejected (ct21 ct31 ct12 ct32 ct13 ct23 : Rat) (y : Vec3)
    (h : ct21 < 0 ∨ ct31 < 0 ∨ ct12 < 0 ∨ ct32 < 0 ∨ ct13 < 0 ∨ ct23 < 0) :
    correctCrosstalk ct21 ct31 ct12 ct32 ct13 ct23 y = .error .negative := by
  simp [correctCrosstalk, compMatrix, h]

/-! ## 5. duplicate removal of `get_contour` -/

/-- **No two cyclically adjacent points are equal** after `remove_duplicates`: neighbours differ
and the last point differs from the first (in particular the result never has length 1) -/
theorem remove_duplicates_no_adjacent_equal [DecidableEq α] (c : List α) :
    NoAdj (removeDuplicates c) ∧
    ∀ a b, (removeDuplicates c).head? = some a → (removeDuplicates c).getLast? = some b → b ≠ a := by
  cases c with
  | nil => exact ⟨trivial, by intro a b h; simp [removeDuplicates] at h⟩
  | cons x r =>
    have hX : NoAdj (compress (x :: r ++ [x])) := noAdj_compress _
    have hlast : (compress (x :: r ++ [x])).getLast? = some x := by
      simp only [List.cons_append, compress]
      rw [getLast?_compressFrom]; simp [List.getLast?_cons]
    have hne : compress (x :: r ++ [x]) ≠ [] := by simp [compress]
    have hsplit : compress (x :: r ++ [x]) = (removeDuplicates (x :: r)) ++ [x] := by
      have := List.dropLast_append_getLast? x hlast
      simpa [removeDuplicates] using this.symm
    refine ⟨noAdj_dropLast _ hX, ?_⟩
    intro a b ha hb
    have hax : a = x := by
      cases hR : removeDuplicates (x :: r) with
      | nil => rw [hR] at ha; simp at ha
      | cons y ys =>
        rw [hR] at hsplit ha
        simp only [compress, List.cons_append, List.cons.injEq] at hsplit
        simp at ha
        rw [← ha, ← hsplit.1]
    rw [hax]
    rw [hsplit] at hX
    exact noAdj_append_singleton _ x b hX hb

/-- only points of the input survive, in their order -/
theorem remove_duplicates_sublist [DecidableEq α] (c : List α) : (removeDuplicates c).Sublist c := by
  cases c with
  | nil => exact List.Sublist.slnil
  | cons x r =>
    have h1 : (compress (x :: r ++ [x])).Sublist (x :: r ++ [x]) := by
      simp only [List.cons_append, compress]
      exact (compressFrom_sublist _ _).cons_cons _
    have h2 := sublist_dropLast h1
    have h3 : (x :: r ++ [x]).dropLast = x :: r := List.dropLast_concat
    rw [h3] at h2
    simpa [removeDuplicates] using h2

/-! ## 4b. crosstalk sub-cases -/

/-- determinant of the unit-diagonal spill matrix -/
theorem det_crosstalkMatrix (ct21 ct31 ct12 ct32 ct13 ct23 : Rat) :
    det (crosstalkMatrix ct21 ct31 ct12 ct32 ct13 ct23)
      = 1 - ct12 * ct21 - ct13 * ct31 - ct23 * ct32 + ct12 * ct23 * ct31 + ct13 * ct21 * ct32 := by
  simp only [det, crosstalkMatrix]; ring

/-- **Component-wise**: for every channel `k ∈ {1,2,3}`, every non-negative unit-diagonal spill
matrix with `det ≠ 0` (full, two-channel, triangular, …) `correct_crosstalk(…, fl_channel=k)`
applied to the spilled signals returns the true signal of channel `k` -/
theorem correctChannel_inverts (k : Nat) (ct21 ct31 ct12 ct32 ct13 ct23 : Rat) (x : Vec3)
    (hk : k = 1 ∨ k = 2 ∨ k = 3)
    (hpos : 0 ≤ ct21 ∧ 0 ≤ ct31 ∧ 0 ≤ ct12 ∧ 0 ≤ ct32 ∧ 0 ≤ ct13 ∧ 0 ≤ ct23)
    (h : det (crosstalkMatrix ct21 ct31 ct12 ct32 ct13 ct23) ≠ 0) :
    (correctChannel k ct21 ct31 ct12 ct32 ct13 ct23
      (spill (crosstalkMatrix ct21 ct31 ct12 ct32 ct13 ct23) x)).toOption = channel x k := by
  obtain ⟨h1, h2, h3, h4, h5, h6⟩ := hpos
  have hneg : ¬ (ct21 < 0 ∨ ct31 < 0 ∨ ct12 < 0 ∨ ct32 < 0 ∨ ct13 < 0 ∨ ct23 < 0) := by
    simp only [not_or, not_lt]; exact ⟨h1, h2, h3, h4, h5, h6⟩
  have key := compensate_spill _ x h
  obtain ⟨x1, x2, x3⟩ := x
  simp only [compensate, spill, vecMul, Prod.mk.injEq] at key
  obtain ⟨k1, k2, k3⟩ := key
  rcases hk with rfl | rfl | rfl
  · have hc : ¬((1:Nat) ≠ 1 ∧ (1:Nat) ≠ 2 ∧ (1:Nat) ≠ 3) := by decide
    simp only [correctChannel, if_neg hc, compMatrix, if_neg hneg, if_neg h, column, channel,
      Except.toOption, Option.some.injEq, spill, vecMul]
    conv_rhs => rw [← k1]
    ring
  · have hc : ¬((2:Nat) ≠ 1 ∧ (2:Nat) ≠ 2 ∧ (2:Nat) ≠ 3) := by decide
    simp only [correctChannel, if_neg hc, compMatrix, if_neg hneg, if_neg h, column, channel,
      Except.toOption, Option.some.injEq, spill, vecMul]
    conv_rhs => rw [← k2]
    ring
  · have hc : ¬((3:Nat) ≠ 1 ∧ (3:Nat) ≠ 2 ∧ (3:Nat) ≠ 3) := by decide
    simp only [correctChannel, if_neg hc, compMatrix, if_neg hneg, if_neg h, column, channel,
      Except.toOption, Option.some.injEq, spill, vecMul]
    conv_rhs => rw [← k3]
    ring


/-- the closed 2×2 form inverts the two-channel spill -/
theorem twoChannel_inverts (cab cba xa xb : Rat) (h : 1 - cab * cba ≠ 0) :
    twoChannel cab cba (xa + cba * xb) (xb + cab * xa) = (xa, xb) := by
  simp only [twoChannel, Prod.mk.injEq]
  constructor <;> (rw [div_eq_iff h]; ring)

/-- channels 1 and 2 only (same as `two_channel`, in terms of `twoChannel`) -/
theorem two_channel_12 (ct21 ct12 : Rat) (y : Vec3) (h : 1 - ct12 * ct21 ≠ 0) :
    compensate (crosstalkMatrix ct21 0 ct12 0 0 0) y
      = ((twoChannel ct12 ct21 y.1 y.2.1).1, (twoChannel ct12 ct21 y.1 y.2.1).2, y.2.2) :=
  two_channel ct21 ct12 y h

/-- channels 1 and 3 only: 2×2 formula, channel 2 untouched -/
theorem two_channel_13 (ct31 ct13 : Rat) (y : Vec3) (h : 1 - ct13 * ct31 ≠ 0) :
    compensate (crosstalkMatrix 0 ct31 0 0 ct13 0) y
      = ((twoChannel ct13 ct31 y.1 y.2.2).1, y.2.1, (twoChannel ct13 ct31 y.1 y.2.2).2) := by
  obtain ⟨y1, y2, y3⟩ := y
  have hd : det (crosstalkMatrix 0 ct31 0 0 ct13 0) = 1 - ct13 * ct31 := by
    simp only [det, crosstalkMatrix]; ring
  simp only [compensate, vecMul, inv, hd, Prod.mk.injEq, twoChannel]
  simp only [adj, crosstalkMatrix]
  refine ⟨?_, ?_, ?_⟩ <;> (field_simp; ring)

/-- channels 2 and 3 only: 2×2 formula, channel 1 untouched -/
theorem two_channel_23 (ct32 ct23 : Rat) (y : Vec3) (h : 1 - ct23 * ct32 ≠ 0) :
    compensate (crosstalkMatrix 0 0 0 ct32 0 ct23) y
      = (y.1, (twoChannel ct23 ct32 y.2.1 y.2.2).1, (twoChannel ct23 ct32 y.2.1 y.2.2).2) := by
  obtain ⟨y1, y2, y3⟩ := y
  have hd : det (crosstalkMatrix 0 0 0 ct32 0 ct23) = 1 - ct23 * ct32 := by
    simp only [det, crosstalkMatrix]; ring
  simp only [compensate, vecMul, inv, hd, Prod.mk.injEq, twoChannel]
  simp only [adj, crosstalkMatrix]
  refine ⟨?_, ?_, ?_⟩ <;> (field_simp; ring)

/-- **A channel that receives spill but emits none is still corrected** (channel 3: `ct31 = ct32
= 0`, arbitrary `ct13`, `ct23`): channels 1, 2 follow the 2×2 formula and channel 3 is the measured
signal minus the spill of the *corrected* channels 1 and 2 — not the measured signal itself -/
theorem receiver_only_channel3_corrected (ct21 ct12 ct13 ct23 : Rat) (y : Vec3)
    (h : 1 - ct12 * ct21 ≠ 0) :
    compensate (crosstalkMatrix ct21 0 ct12 0 ct13 ct23) y
      = ((twoChannel ct12 ct21 y.1 y.2.1).1, (twoChannel ct12 ct21 y.1 y.2.1).2,
         y.2.2 - ct13 * (twoChannel ct12 ct21 y.1 y.2.1).1
               - ct23 * (twoChannel ct12 ct21 y.1 y.2.1).2) := by
  obtain ⟨y1, y2, y3⟩ := y
  have hd : det (crosstalkMatrix ct21 0 ct12 0 ct13 ct23) = 1 - ct12 * ct21 := by
    simp only [det, crosstalkMatrix]; ring
  simp only [compensate, vecMul, inv, hd, Prod.mk.injEq, twoChannel]
  simp only [adj, crosstalkMatrix]
  refine ⟨?_, ?_, ?_⟩ <;> (field_simp; ring)

/-- the same for channel 2 (`ct21 = ct23 = 0`, receives `ct12`, `ct32`) -/
theorem receiver_only_channel2_corrected (ct31 ct13 ct12 ct32 : Rat) (y : Vec3)
    (h : 1 - ct13 * ct31 ≠ 0) :
    compensate (crosstalkMatrix 0 ct31 ct12 ct32 ct13 0) y
      = ((twoChannel ct13 ct31 y.1 y.2.2).1,
         y.2.1 - ct12 * (twoChannel ct13 ct31 y.1 y.2.2).1
               - ct32 * (twoChannel ct13 ct31 y.1 y.2.2).2,
         (twoChannel ct13 ct31 y.1 y.2.2).2) := by
  obtain ⟨y1, y2, y3⟩ := y
  have hd : det (crosstalkMatrix 0 ct31 ct12 ct32 ct13 0) = 1 - ct13 * ct31 := by
    simp only [det, crosstalkMatrix]; ring
  simp only [compensate, vecMul, inv, hd, Prod.mk.injEq, twoChannel]
  simp only [adj, crosstalkMatrix]
  refine ⟨?_, ?_, ?_⟩ <;> (field_simp; ring)

/-- the same for channel 1 (`ct12 = ct13 = 0`, receives `ct21`, `ct31`) -/
theorem receiver_only_channel1_corrected (ct32 ct23 ct21 ct31 : Rat) (y : Vec3)
    (h : 1 - ct23 * ct32 ≠ 0) :
    compensate (crosstalkMatrix ct21 ct31 0 ct32 0 ct23) y
      = (y.1 - ct21 * (twoChannel ct23 ct32 y.2.1 y.2.2).1
             - ct31 * (twoChannel ct23 ct32 y.2.1 y.2.2).2,
         (twoChannel ct23 ct32 y.2.1 y.2.2).1, (twoChannel ct23 ct32 y.2.1 y.2.2).2) := by
  obtain ⟨y1, y2, y3⟩ := y
  have hd : det (crosstalkMatrix ct21 ct31 0 ct32 0 ct23) = 1 - ct23 * ct32 := by
    simp only [det, crosstalkMatrix]; ring
  simp only [compensate, vecMul, inv, hd, Prod.mk.injEq, twoChannel]
  simp only [adj, crosstalkMatrix]
  refine ⟨?_, ?_, ?_⟩ <;> (field_simp; ring)

/-- triangular spill matrices have determinant 1: always invertible -/
theorem triangular_det_one (a b c : Rat) :
    det (crosstalkMatrix 0 0 a 0 b c) = 1 ∧ det (crosstalkMatrix a b 0 c 0 0) = 1 := by
  constructor <;> (simp only [det, crosstalkMatrix]; ring)

/-- **Triangular matrices (spill in one direction only) are inverted exactly**, without any
determinant hypothesis, for all non-negative coefficients -/
theorem triangular_inverts (a b c : Rat) (x : Vec3) (ha : 0 ≤ a) (hb : 0 ≤ b) (hc : 0 ≤ c) :
    correctCrosstalk 0 0 a 0 b c (spill (crosstalkMatrix 0 0 a 0 b c) x) = .ok x ∧
    correctCrosstalk a b 0 c 0 0 (spill (crosstalkMatrix a b 0 c 0 0) x) = .ok x := by
  have h0 : (0 : Rat) ≤ 0 := le_refl 0
  constructor
  · exact correctCrosstalk_inverts 0 0 a 0 b c x ⟨h0, h0, ha, h0, hb, hc⟩
      (by rw [(triangular_det_one a b c).1]; exact one_ne_zero)
  · exact correctCrosstalk_inverts a b 0 c 0 0 x ⟨ha, hb, h0, hc, h0, h0⟩
      (by rw [(triangular_det_one a b c).2]; exact one_ne_zero)

/-- a shortcut that hands back the measured signal of a channel that emits no spill is wrong as
soon as that channel receives spill: true signals (2, 0, 1), half of channel 1 spills into
channel 3, measured (2, 0, 2); the correction of channel 3 is 1, not the measured 2 -/
theorem unchanged_receiver_channel_wrong_witness :
    spill (crosstalkMatrix 0 0 0 0 (1/2) 0) (2, 0, 1) = (2, 0, 2) ∧
    correctChannel 3 0 0 0 0 (1/2) 0 (2, 0, 2) = .ok 1 ∧
    correctChannel 4 0 0 0 0 (1/2) 0 (2, 0, 2) = .error .channel := by decide +kernel

/-! ## 3b. batch brightness with per-event offsets -/

/-- **The batch call is the single-event definition event by event**: with one offset per event
`bright_bc_avg[k]` is the mean of event `k` minus ITS offset, `bright_bc_sd[k]` the deviation of
event `k` (no offset) -/
theorem batch_is_eventwise (ev : List (List Px)) (os : List Rat) (hl : os.length = ev.length) :
    brightBcBatch ev (.array os) true true
      = some [List.zipWith (fun px o => brightAvg px (some o)) ev os, ev.map brightVar] := by
  have hl' : os.length = (ev.map (fun px => mean (masked px))).length := by simpa using hl
  simp only [brightBcBatch, Bool.not_true, Bool.and_self, Bool.false_eq_true, if_false, if_true,
    subOff_array_eq_len _ _ hl', List.zipWith_map_left]
  rfl

/-- percentiles likewise -/
theorem batch_perc_is_eventwise (ev : List (List Px)) (os : List Rat) (hl : os.length = ev.length) :
    brightPercBatch ev (.array os)
      = some (List.zipWith (fun px o => brightPerc 10 px (some o)) ev os,
              List.zipWith (fun px o => brightPerc 90 px (some o)) ev os) := by
  have h10 : os.length = (ev.map (fun px => percentile 10 (masked px))).length := by simpa using hl
  have h90 : os.length = (ev.map (fun px => percentile 90 (masked px))).length := by simpa using hl
  simp only [brightPercBatch, subOff_array_eq_len _ _ h10, subOff_array_eq_len _ _ h90,
    List.zipWith_map_left]
  rfl

/-- **Per-event offsets are per-event background shifts** (avg and sd together): raising the
background of event `k` by `os[k]` gives what `bg_off = os` returns -/
theorem batch_offsets_are_background_shifts (ev : List (List Px)) (os : List Rat)
    (hl : os.length = ev.length) (hne : ∀ px ∈ ev, masked px ≠ []) :
    brightBcBatch (bgShiftEach os ev) .none true true = brightBcBatch ev (.array os) true true ∧
    brightPercBatch (bgShiftEach os ev) .none = brightPercBatch ev (.array os) := by
  have hl' : os.length = (ev.map (fun px => mean (masked px))).length := by simpa using hl
  have h10 : os.length = (ev.map (fun px => percentile 10 (masked px))).length := by simpa using hl
  have h90 : os.length = (ev.map (fun px => percentile 90 (masked px))).length := by simpa using hl
  have hm := zipWith_map_shift (fun px => mean (masked px))
    (fun d px h => by simp only [masked_bg_shift, mean_shift d _ h]) os ev hl hne
  have hv := map_const_shift (fun px => variance (masked px))
    (fun d px => by simp only [masked_bg_shift, variance_shift]) os ev hl
  have hp10 := zipWith_map_shift (fun px => percentile 10 (masked px))
    (fun d px h => by simp only [masked_bg_shift, percentile_shift 10 d _ h]) os ev hl hne
  have hp90 := zipWith_map_shift (fun px => percentile 90 (masked px))
    (fun d px h => by simp only [masked_bg_shift, percentile_shift 90 d _ h]) os ev hl hne
  constructor
  · simp only [brightBcBatch, Bool.not_true, Bool.and_self, Bool.false_eq_true, if_false, if_true,
      subOff_none, subOff_array_eq_len _ _ hl', hm, hv]
  · simp only [brightPercBatch, subOff_none, subOff_array_eq_len _ _ h10, subOff_array_eq_len _ _ h90,
      hp10, hp90]

/-- the deviation never sees the offset — whatever container, even one of the wrong length -/
theorem batch_sd_offset_invariant (ev : List (List Px)) (off : BgOff) :
    brightBcBatch ev off false true = some [ev.map brightVar] := by
  simp only [brightBcBatch, Bool.not_false, Bool.not_true, Bool.and_false, Bool.false_eq_true,
    if_false]
  rfl

/-- **The combined call `ret_data="avg,sd"` is the pair of the two single calls** -/
theorem batch_combined_is_both_single (ev : List (List Px)) (off : BgOff) :
    brightBcBatch ev off true true
      = (brightBcBatch ev off true false).bind (fun a =>
          (brightBcBatch ev off false true).map (fun s => a ++ s)) := by
  simp only [brightBcBatch, Bool.not_true, Bool.not_false, Bool.and_self, Bool.and_false,
    Bool.and_true, Bool.false_eq_true, if_false, if_true]
  cases subOff (ev.map fun px => mean (masked px)) off <;> rfl

/-- a scalar offset is the constant per-event array -/
theorem batch_scalar_is_constant_array (ev : List (List Px)) (o : Rat) (a s : Bool) :
    brightBcBatch ev (.scalar o) a s = brightBcBatch ev (.array (List.replicate ev.length o)) a s ∧
    brightPercBatch ev (.scalar o) = brightPercBatch ev (.array (List.replicate ev.length o)) := by
  have hl (g : List Px → Rat) : (List.replicate ev.length o).length = (ev.map g).length := by simp
  have hz (g : List Px → Rat) : List.zipWith (· - ·) (ev.map g) (List.replicate ev.length o)
      = (ev.map g).map (· - o) := by
    have := zipWith_sub_replicate (ev.map g) o
    simpa using this
  constructor
  · simp only [brightBcBatch, subOff_array_eq_len _ _ (hl _), hz, subOff_scalar]
  · simp only [brightPercBatch, subOff_array_eq_len _ _ (hl _), hz, subOff_scalar]

/-- offsets of the wrong length (neither one per event nor a single value) are rejected -/
theorem batch_offset_length_mismatch_raises (ev : List (List Px)) (os : List Rat) (s : Bool)
    (h : os.length ≠ ev.length) (h1 : os.length ≠ 1) :
    brightBcBatch ev (.array os) true s = none ∧ brightPercBatch ev (.array os) = none := by
  have hs (g : List Px → Rat) : subOff (ev.map g) (.array os) = none := by
    simp only [subOff, List.length_map, h, if_false]
    match os, h1 with
    | [], _ => rfl
    | [_], h1 => simp at h1
    | _ :: _ :: _, _ => rfl
  constructor
  · simp only [brightBcBatch, Bool.not_true, Bool.false_and, Bool.false_eq_true, if_false, if_true, hs]
  · simp only [brightPercBatch, hs]

/-- `ret_data` without "avg" and "sd" is rejected -/
theorem batch_nothing_selected_raises (ev : List (List Px)) (off : BgOff) :
    brightBcBatch ev off false false = none := rfl

example : brightBcBatch [[⟨true, 5, 2⟩, ⟨true, 7, 2⟩], [⟨true, 9, 1⟩, ⟨false, 0, 0⟩]] (.array [1, 10]) true true
    = some [[3, -2], [1, 0]] := by decide +kernel
example : brightPercBatch [[⟨true, 5, 2⟩, ⟨true, 7, 2⟩]] (.array [1, 2]) = none := by decide +kernel
example : twoChannel (1/5) (1/10) (3 + 1/10 * 4) (4 + 1/5 * 3) = (3, 4) := by decide +kernel

/-! ## 6. the contour cache with failing events -/

/-- the two deques are in step: position by position `contours` holds the contour of the event
named by `indices` (in particular no event without contour is registered) -/
def LclInv (f : Nat → Except E C) (d : Lcl C) : Prop :=
  d.indices.map f = d.contours.map Except.ok

theorem lclInv_empty (f : Nat → Except E C) : LclInv f Lcl.empty := rfl

/-- one access, whatever its outcome: the observable result is `get_contour(masks[i])` (contour
or exception, never a stray `IndexError`) and the deques stay in step -/
theorem lcl_get_correct (f : Nat → Except E C) (m : Nat) (d : Lcl C) (i : Nat) (h : LclInv f d) :
    (lclGet f m d i).2.result = some (f i) ∧ LclInv f (lclGet f m d i).1 := by
  unfold lclGet
  cases hq : lclFind i d.indices with
  | none =>
    cases hf : f i with
    | error e => exact ⟨rfl, h⟩
    | ok c =>
      refine ⟨rfl, ?_⟩
      unfold LclInv at *
      simp only [lclPush_map, h, hf]
  | some q =>
    have hi : d.indices[q]? = some i := lclFind_get i d.indices q hq
    have hc : (d.contours.map Except.ok)[q]? = some (f i) := by
      rw [← h, List.getElem?_map, hi]; rfl
    rw [List.getElem?_map] at hc
    cases hcq : d.contours[q]? with
    | none => rw [hcq] at hc; simp at hc
    | some c =>
      rw [hcq] at hc
      simp only [Option.map_some, Option.some.injEq] at hc
      simp only [hcq]
      refine ⟨by simp only [LclOut.result, hc], ?_⟩
      unfold LclInv at *
      simp only [lclPush_map, h, ← hc]

/-- **Every access of every history returns the contour of the requested event** — or re-raises
the exception of `get_contour` for exactly the events that have no contour — for every capacity,
every failure pattern `f` and every history, including histories in which accesses failed -/
theorem lcl_history_correct (f : Nat → Except E C) (m : Nat) :
    ∀ (hist : List Nat) (d : Lcl C), LclInv f d → ∀ i,
      (lclGet f m (lclRun (lclGet f m) d hist).1 i).2.result = some (f i) := by
  intro hist
  induction hist with
  | nil => intro d h i; exact (lcl_get_correct f m d i h).1
  | cons j js ih =>
    intro d h i
    simp only [lclRun]
    exact ih _ (lcl_get_correct f m d j h).2 i

/-- all outcomes recorded along a history are the right ones -/
theorem lcl_run_outcomes (f : Nat → Except E C) (m : Nat) :
    ∀ (hist : List Nat) (d : Lcl C), LclInv f d →
      (lclRun (lclGet f m) d hist).2.map LclOut.result = hist.map (fun i => some (f i)) ∧
      LclInv f (lclRun (lclGet f m) d hist).1 := by
  intro hist
  induction hist with
  | nil => intro d h; exact ⟨rfl, h⟩
  | cons j js ih =>
    intro d h
    have h1 := lcl_get_correct f m d j h
    have h2 := ih _ h1.2
    refine ⟨?_, h2.2⟩
    simp only [lclRun, List.map_cons, h1.1, h2.1]

/-- **a hit returns the contour of the requested event**, after every history from the empty
list -/
theorem lcl_hit_returns_own (f : Nat → Except E C) (m : Nat) (hist : List Nat) (i : Nat) (c : C)
    (hhit : (lclGet f m (lclRun (lclGet f m) Lcl.empty hist).1 i).2 = .hit c) : f i = .ok c := by
  have := lcl_history_correct f m hist Lcl.empty (lclInv_empty f) i
  rw [hhit] at this
  simpa [LclOut.result] using this.symm

/-- an access to an event without contour raises and leaves both deques untouched -/
theorem lcl_failure_leaves_cache (f : Nat → Except E C) (m : Nat) (d : Lcl C) (i : Nat) (e : E)
    (h : LclInv f d) (hf : f i = .error e) : lclGet f m d i = (d, .raised e) := by
  have hnot : lclFind i d.indices = none := by
    cases hq : lclFind i d.indices with
    | none => rfl
    | some q =>
      exfalso
      have hi : d.indices[q]? = some i := lclFind_get i d.indices q hq
      have hc : (d.contours.map Except.ok)[q]? = some (f i) := by
        rw [← h, List.getElem?_map, hi]; rfl
      rw [List.getElem?_map, hf] at hc
      cases hcq : d.contours[q]? with
      | none => rw [hcq] at hc; simp at hc
      | some c => rw [hcq] at hc; simp at hc
  unfold lclGet
  simp only [hnot, hf]

/-- the deques have equal length and never exceed `max_events` -/
theorem lcl_bounded (f : Nat → Except E C) (m : Nat) (hm : m ≠ 0) (d : Lcl C) (i : Nat)
    (hi : d.indices.length ≤ m) (hc : d.contours.length ≤ m) :
    (lclGet f m d i).1.indices.length ≤ m ∧ (lclGet f m d i).1.contours.length ≤ m := by
  unfold lclGet
  split
  · split
    · exact ⟨hi, hc⟩
    · exact ⟨lclPush_length_le m _ _ hm hi, lclPush_length_le m _ _ hm hc⟩
  · split
    · exact ⟨hi, hc⟩
    · exact ⟨lclPush_length_le m _ _ hm hi, lclPush_length_le m _ _ hm hc⟩

theorem lclInv_lengths (f : Nat → Except E C) (d : Lcl C) (h : LclInv f d) :
    d.indices.length = d.contours.length := by
  have := congrArg List.length h
  simpa using this

/-- registering the index before the contour is computed breaks the statement: after the failing
event 1 a hit on event 2 hands out the contour of event 3 -/
theorem early_registration_wrong_witness :
    let f : Nat → Except Unit Nat := fun i => if i = 1 then .error () else .ok (100 + i)
    ((lclRun (lclGetEarly f 0) Lcl.empty [1, 2, 3, 2]).2.map LclOut.result
      = [some (.error ()), some (.ok 102), some (.ok 103), some (.ok 103)]) ∧
    ((lclRun (lclGetEarly f 0) Lcl.empty [1, 2, 2]).2.map LclOut.result
      = [some (.error ()), some (.ok 102), none]) ∧
    ((lclRun (lclGet f 0) Lcl.empty [1, 2, 3, 2]).2.map LclOut.result
      = [some (.error ()), some (.ok 102), some (.ok 103), some (.ok 102)]) := by
  decide

example : (lclRun (lclGet (fun i => if i = 1 then (.error () : Except Unit Nat) else .ok (100 + i)) 2)
    Lcl.empty [0, 1, 2, 0, 3, 0]).1.indices = [3, 0] := by decide

/-- a slice / index-array access returns the contours of exactly the requested events in order, or
re-raises the exception of the first requested event without contour; the deques stay in step -/
theorem lcl_many_correct (f : Nat → Except E C) (m : Nat) :
    ∀ (is : List Nat) (d : Lcl C), LclInv f d →
      (lclGetMany f m d is).2 = ownContours f is ∧ LclInv f (lclGetMany f m d is).1 := by
  intro is
  induction is with
  | nil => intro d h; exact ⟨rfl, h⟩
  | cons i r ih =>
    intro d h
    have h1 := lcl_get_correct f m d i h
    simp only [lclGetMany, ownContours]
    cases hg : lclGet f m d i with
    | mk d1 o =>
      rw [hg] at h1
      have hr := ih d1 h1.2
      cases o with
      | raised e =>
        have : f i = .error e := by simpa [LclOut.result] using h1.1.symm
        simp only [this]; exact ⟨trivial, h1.2⟩
      | indexError => simp [LclOut.result] at h1
      | hit c =>
        have : f i = .ok c := by simpa [LclOut.result] using h1.1.symm
        simp only [this]
        cases hm : lclGetMany f m d1 r with
        | mk d2 x =>
          rw [hm] at hr
          simp only at hr
          rw [← hr.1]
          cases x <;> exact ⟨rfl, hr.2⟩
      | computed c =>
        have : f i = .ok c := by simpa [LclOut.result] using h1.1.symm
        simp only [this]
        cases hm : lclGetMany f m d1 r with
        | mk d2 x =>
          rw [hm] at hr
          simp only at hr
          rw [← hr.1]
          cases x <;> exact ⟨rfl, hr.2⟩

theorem lcl_op_correct (f : Nat → Except E C) (m : Nat) (d : Lcl C) (o : LclOp) (h : LclInv f d) :
    (lclOp f m d o).2 = ownContours f o.events ∧ LclInv f (lclOp f m d o).1 := by
  cases o with
  | many is => exact lcl_many_correct f m is d h
  | int i =>
    have h1 := lcl_get_correct f m d i h
    simp only [lclOp, LclOp.events, ownContours]
    cases hg : lclGet f m d i with
    | mk d1 o =>
      rw [hg] at h1
      cases o with
      | raised e =>
        have : f i = .error e := by simpa [LclOut.result] using h1.1.symm
        simp only [this]; exact ⟨trivial, h1.2⟩
      | indexError => simp [LclOut.result] at h1
      | hit c =>
        have : f i = .ok c := by simpa [LclOut.result] using h1.1.symm
        simp only [this]; exact ⟨trivial, h1.2⟩
      | computed c =>
        have : f i = .ok c := by simpa [LclOut.result] using h1.1.symm
        simp only [this]; exact ⟨trivial, h1.2⟩

/-- **Every user-level access (integer, slice, index array) of every history** — failures and
partially completed slices included — returns the contours of exactly the requested events or
re-raises for the first requested event without contour -/
theorem lcl_ops_history_correct (f : Nat → Except E C) (m : Nat) :
    ∀ (hist : List LclOp) (d : Lcl C), LclInv f d →
      (lclOps f m d hist).2 = hist.map (fun o => ownContours f o.events) ∧
      LclInv f (lclOps f m d hist).1 := by
  intro hist
  induction hist with
  | nil => intro d h; exact ⟨rfl, h⟩
  | cons o r ih =>
    intro d h
    have h1 := lcl_op_correct f m d o h
    have h2 := ih _ h1.2
    refine ⟨?_, h2.2⟩
    simp only [lclOps, List.map_cons, h1.1, h2.1]

example : (lclOps (fun i => if i = 1 then (.error () : Except Unit Nat) else .ok (100 + i)) 2
    Lcl.empty [.many [0, 1, 2], .int 0, .many [2, 0]]).2
    = [.error (.raised ()), .ok [100], .ok [102, 100]] := by decide

/-! ## 1b. rotation: the principal inertia ratio -/

/-- **Rotation covariance of the second central moments**: for every contour and every rational
rotation `(c, s)`, `c² + s² = 1`, the area is unchanged and `(mu20, mu11, mu02)` of the rotated
contour is the rotated tensor -/
theorem rotate_second_moments (e c s : Rat) (h : c * c + s * s = 1) (cont : List Pt) :
    rotatedSecond e c s cont =
      ((momentsCore e cont).m00,
       c * c * (momentsCore e cont).mu20 - 2 * (c * s) * (momentsCore e cont).mu11
         + s * s * (momentsCore e cont).mu02,
       c * s * ((momentsCore e cont).mu20 - (momentsCore e cont).mu02)
         + (c * c - s * s) * (momentsCore e cont).mu11,
       s * s * (momentsCore e cont).mu20 + 2 * (c * s) * (momentsCore e cont).mu11
         + c * c * (momentsCore e cont).mu02) := rotatedSecond_eq e c s h cont

/-- trace and determinant of the inertia tensor — hence its eigenvalues and their ratio, the
square of the principal inertia ratio — do not change under rotation -/
theorem rotate_invariants (e c s : Rat) (h : c * c + s * s = 1) (cont : List Pt) :
    (rotatedSecond e c s cont).1 = (momentsCore e cont).m00 ∧
    (rotatedSecond e c s cont).2.1 + (rotatedSecond e c s cont).2.2.2
      = (momentsCore e cont).mu20 + (momentsCore e cont).mu02 ∧
    (rotatedSecond e c s cont).2.1 * (rotatedSecond e c s cont).2.2.2
        - (rotatedSecond e c s cont).2.2.1 * (rotatedSecond e c s cont).2.2.1
      = (momentsCore e cont).mu20 * (momentsCore e cont).mu02
        - (momentsCore e cont).mu11 * (momentsCore e cont).mu11 := by
  rw [rotatedSecond_eq e c s h cont]
  generalize (momentsCore e cont).mu20 = A
  generalize (momentsCore e cont).mu11 = B
  generalize (momentsCore e cont).mu02 = C
  refine ⟨rfl, ?_, ?_⟩
  · simp only; linear_combination (A + C) * h
  · simp only; linear_combination (c * c + s * s + 1) * (A * C - B * B) * h

/-- **The principal inertia ratio is at least one**: when `(c, s)` are cosine and sine of the
angle `orient + π/2` with `orient = ½·atan2(2·mu11, mu02 − mu20)` — i.e. `cos 2α = −(mu02 − mu20)/R`,
`sin 2α = −2·mu11/R` for some `R > 0` — the rotated contour has `mu11 = 0` (principal axes),
`mu20 − mu02 = R > 0`, and therefore `mu20/mu02 ≥ 1` whenever `mu02 > 0` -/
theorem prnc_sq_ge_one (e c s R : Rat) (cont : List Pt) (h : c * c + s * s = 1) (hR : 0 < R)
    (hcos : (c * c - s * s) * R = -((momentsCore e cont).mu02 - (momentsCore e cont).mu20))
    (hsin : 2 * (c * s) * R = -(2 * (momentsCore e cont).mu11)) :
    (rotatedSecond e c s cont).2.2.1 = 0 ∧
    (rotatedSecond e c s cont).2.1 - (rotatedSecond e c s cont).2.2.2 = R ∧
    (0 < (rotatedSecond e c s cont).2.2.2 →
      1 ≤ (rotatedSecond e c s cont).2.1 / (rotatedSecond e c s cont).2.2.2) := by
  rw [rotatedSecond_eq e c s h cont]
  generalize (momentsCore e cont).mu20 = A at *
  generalize (momentsCore e cont).mu11 = B at *
  generalize (momentsCore e cont).mu02 = C at *
  have h11 : c * s * (A - C) + (c * c - s * s) * B = 0 := by
    linear_combination (-(c * s)) * hcos + ((c * c - s * s) / 2) * hsin
  have hd : (c * c * A - 2 * (c * s) * B + s * s * C) - (s * s * A + 2 * (c * s) * B + c * c * C) = R := by
    linear_combination (-(c * c - s * s)) * hcos + (-(2 * (c * s))) * hsin
      + (R * (c * c + s * s + 1)) * h
  refine ⟨h11, hd, ?_⟩
  intro hpos
  simp only at hpos ⊢
  rw [le_div_iff₀ hpos]
  linarith

/-- **Rotation invariance of the principal inertia ratio**: bring a contour and any rotated copy
of it to principal axes (`mu11 = 0`, larger moment first) by rational rotations; the resulting
`(mu20, mu02)` — and so `mu20/mu02`, the square of `inert_ratio_prnc` — coincide -/
theorem prnc_rotation_invariant (e c s c1 s1 c2 s2 : Rat) (cont : List Pt)
    (h : c * c + s * s = 1) (h1 : c1 * c1 + s1 * s1 = 1) (h2 : c2 * c2 + s2 * s2 = 1)
    (d1 : (rotatedSecond e c1 s1 cont).2.2.1 = 0)
    (o1 : (rotatedSecond e c1 s1 cont).2.2.2 ≤ (rotatedSecond e c1 s1 cont).2.1)
    (d2 : (rotatedSecond e c2 s2 (cont.map (rot c s))).2.2.1 = 0)
    (o2 : (rotatedSecond e c2 s2 (cont.map (rot c s))).2.2.2
            ≤ (rotatedSecond e c2 s2 (cont.map (rot c s))).2.1) :
    (rotatedSecond e c1 s1 cont).2.1 = (rotatedSecond e c2 s2 (cont.map (rot c s))).2.1 ∧
    (rotatedSecond e c1 s1 cont).2.2.2 = (rotatedSecond e c2 s2 (cont.map (rot c s))).2.2.2 := by
  have hcomp : rotatedSecond e c2 s2 (cont.map (rot c s))
      = rotatedSecond e (c2 * c - s2 * s) (s2 * c + c2 * s) cont := by
    simp only [rotatedSecond, rot_rot]
  rw [hcomp] at d2 o2 ⊢
  have i1 := rotate_invariants e c1 s1 h1 cont
  have i2 := rotate_invariants e _ _ (rot_unit c s c2 s2 h h2) cont
  apply ordered_pair_unique _ _ _ _ (by rw [i1.2.1, i2.2.1]) _ o1 o2
  have p1 := i1.2.2
  have p2 := i2.2.2
  rw [d1] at p1
  rw [d2] at p2
  linarith

/-- a 2×1 rectangle turned by the 3-4-5 angle: turning it back gives `mu11 = 0`, ratio² = 4 -/
example : rotatedSecond (1/1000000) (3/5) (-4/5)
    ([(0,0),(2,0),(2,1),(0,1)].map (rot (3/5) (4/5))) = (2, 2/3, 0, 1/6) := by decide +kernel
example : prncSq (1/1000) (1/1000000) (3/5) (-4/5)
    ([(0,0),(2,0),(2,1),(0,1)].map (rot (3/5) (4/5))) = some 4 := by decide +kernel

/-! ## non-vacuity -/

/-- the 2×1 rectangle: area 2, `mu20 = 2/3`, `mu02 = 1/6` -/
example : (moments (1/1000) (1/1000000) [(0,0),(2,0),(2,1),(0,1)]).map
    (fun m => (m.m00, m.mu20, m.mu02)) = some (2, 2/3, 1/6) := by decide +kernel
example : moments (1/1000) (1/1000000) [(0,0),(1,1),(2,2)] = none := by decide +kernel
/-- truncated cones of a unit-height cylinder of radius 2, π := 3: volume 12 -/
example : volRevolve 3 [(0,0),(2,0),(2,1),(0,1)] 1 = 12 := by decide +kernel
example : volRevolve 3 [(0,0),(2,0),(2,1),(0,1)].reverse 1 = -12 := by decide +kernel
example : masked [⟨true, 5, 2⟩, ⟨false, 9, 0⟩] = [3] := by decide +kernel
example : nth [1, 2, 3, 5] 0 + (nth [1, 2, 3, 5] 1 - nth [1, 2, 3, 5] 0) * (3/10) = 13/10 := by
  decide +kernel
example : compensate (crosstalkMatrix (1/10) 0 (1/5) 0 0 (1/2))
    (spill (crosstalkMatrix (1/10) 0 (1/5) 0 0 (1/2)) (3, 4, 5)) = (3, 4, 5) := by decide +kernel
example : removeDuplicates [(1:Nat), 1, 2, 2, 3, 1, 1] = [1, 2, 3] := by decide +kernel
example : truthOf true 3 true = .raises := rfl

end DclabModel.C18
