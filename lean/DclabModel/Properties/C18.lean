import DclabModel.Lemmas.Feat
/-!
# C18 — Contour-, image- and fluorescence-derived features obey their definitions

All statements are over ℚ for the executable model `DclabModel.Feat` (which mirrors
`cont_moments_cv`, `vol_revolve`/`get_volume`, `get_bright*`, `get_compensation_matrix`/
`correct_crosstalk`, `remove_duplicates` term by term and is tied to the code by
`harness/c18.py` on every run).

1. moments   `a00_translate_invariant`, `translate_none_iff`, `translate_invariant` (area and all
             central moments up to third order), `swap_axes`, `inert_ratio_swap_reciprocal`,
             `area_is_shoelace`, `moments_none_iff`
2. volume    `cone_symmetric`, `scale_cubic`, `point_scale_cubic`, `reverse_flips_sign`,
             `closing_is_idempotent`, `getVolume_pixel_cubic`, `getVolume_reverse_flips_sign`,
             `getVolume_fix_orientation`, `getVolume_fix_orientation_sign`,
             `old_fix_orientation_wrong_witness` (F35), `old_fix_orientation_agrees_when_ccw`
3. brightness `offset_shifts_mean_one_to_one`, `offset_is_background_shift`, `sd_offset_invariant`,
             `percentile_shift_equivariant`, `perc_offset_one_to_one`,
             `old_bright_perc_raises_on_array_offset` (F19 witness),
             `old_bright_perc_agrees_when_truthy`
4. crosstalk `compensate_spill`, `spill_compensate`, `two_channel`, `correctCrosstalk_inverts`,
             `negative_rejected`
5. contour   `remove_duplicates_no_adjacent_equal`, `remove_duplicates_sublist`

Not proved here (correspondence / metamorphic checks only, see `NOT_PROVED` in the harness):

* `fill (get_contour mask) = mask` for *all* connected hole-free masks (marching squares is
  compiled code; the statement is a digital-topology theorem);
* rotation invariance and `≥ 1` of `inert_ratio_prnc` (`atan2`, `sqrt`, `cos`, `sin`);
  the full statement would read
  `∀ θ c, prnc (rotate θ c) = prnc c ∧ 1 ≤ prnc c` with `prnc = sqrt (λ_max / λ_min)` of the
  covariance matrix `[[mu20, mu11], [mu11, mu02]]`;
* convergence of the volume of discretised spheres/ellipsoids to `4/3·π·a·b²`.
-/
namespace DclabModel.C18
open DclabModel.Feat

/-! ## 1. contour moments -/

/-- the area sum `a00 = Σ (x_{i+1}·y_i − x_i·y_{i+1})` does not change when the contour is moved -/
theorem a00_translate_invariant (t s : Rat) (c : List Pt) :
    a00 (c.map (translate t s)) = a00 c := a00_translate t s c

/-- whether `cont_moments_cv` returns `None` does not depend on the position of the contour -/
theorem translate_none_iff (fltEps dblEps t s : Rat) (c : List Pt) :
    (moments fltEps dblEps (c.map (translate t s))).isSome = (moments fltEps dblEps c).isSome := by
  unfold moments
  rw [a00_translate]
  split <;> rfl

/-- **Translation invariance.** Moving a contour by `(t, s)` leaves the area `m00` and all
central moments (second and third order) unchanged; (`dblEps ≤ fltEps/2` holds for the constants
of the code: 2.2e-16 vs 1.19e-7). -/
theorem translate_invariant (fltEps dblEps t s : Rat) (c : List Pt) (m : Moments)
    (h0 : 0 ≤ dblEps) (hε : dblEps ≤ fltEps / 2) (h : moments fltEps dblEps c = some m) :
    ∃ m', moments fltEps dblEps (c.map (translate t s)) = some m' ∧
      m'.m00 = m.m00 ∧ m'.mu20 = m.mu20 ∧ m'.mu11 = m.mu11 ∧ m'.mu02 = m.mu02 ∧
      m'.mu30 = m.mu30 ∧ m'.mu21 = m.mu21 ∧ m'.mu12 = m.mu12 ∧ m'.mu03 = m.mu03 := by
  obtain ⟨hm, hgt, hne, _⟩ := m00_pos_of_some h0 hε h
  refine ⟨momentsCore dblEps (c.map (translate t s)), ?_, ?_⟩
  · have h1 := translate_none_iff fltEps dblEps t s c
    rw [h] at h1
    unfold moments at h1 ⊢
    split
    · rfl
    · rename_i hn; simp [hn] at h1
  · subst hm
    simp only [momentsCore, rawMoments_translate]
    exact central_shift dblEps t s _ hgt hne

/-- **Exchange of the axes.** The moments of the contour with x and y exchanged are the
transposed moments (`mu20 ↔ mu02`, `mu11` fixed, …); the orientation flips and is absorbed by the
sign switch of the code. -/
theorem swap_axes (fltEps dblEps : Rat) (c : List Pt) (m : Moments) (he : 0 ≤ fltEps)
    (h : moments fltEps dblEps c = some m) :
    moments fltEps dblEps (c.map swapXY) = some m.transpose := by
  unfold moments at h ⊢
  have hab : rabs (a00 (c.map swapXY)) = rabs (a00 c) := by
    rw [a00_swap, rabs_eq_abs, rabs_eq_abs, abs_neg]
  rw [hab]
  split at h
  · rename_i hgt
    have hm : momentsCore dblEps c = m := by simpa using h
    have h00 : a00 c ≠ 0 := ne_zero_of_rabs_gt he hgt
    simp only [hgt, if_true, momentsCore, rawMoments_swap c h00, central_transpose]
    rw [← hm]; rfl
  · cases h

/-- the squared inertia ratio `mu20/mu02` of the axis-swapped contour is the reciprocal -/
theorem inert_ratio_swap_reciprocal (fltEps dblEps : Rat) (c : List Pt) (m : Moments)
    (he : 0 ≤ fltEps) (h : moments fltEps dblEps c = some m) :
    ∃ m', moments fltEps dblEps (c.map swapXY) = some m' ∧
      inertRatioSq m' = (inertRatioSq m)⁻¹ ∧
      (m.mu20 ≠ 0 → m.mu02 ≠ 0 → inertRatioSq m' * inertRatioSq m = 1) := by
  refine ⟨m.transpose, swap_axes fltEps dblEps c m he h, ?_, ?_⟩
  · simp only [inertRatioSq, Moments.transpose, inv_div]
  · intro h1 h2
    simp only [inertRatioSq, Moments.transpose]
    field_simp

/-- `m00` is the absolute value of the shoelace area of the polygon -/
theorem area_is_shoelace (fltEps dblEps : Rat) (c : List Pt) (m : Moments)
    (h : moments fltEps dblEps c = some m) : m.m00 = |shoelace c| := by
  unfold moments at h
  split at h
  · have hm : momentsCore dblEps c = m := by simpa using h
    rw [← hm]
    have h1 : shoelace c = -(a00 c) / 2 := by
      unfold shoelace a00
      have : (fun p q : Pt => p.1 * q.2 - q.1 * p.2) = fun p q => -1 * t00 p q := by
        funext p q; simp only [t00, dxy]; ring
      rw [this, cyc_mul]; ring
    have h2 : (momentsCore dblEps c).m00 = rabs (a00 c) / 2 := by
      simp only [momentsCore, central, rawMoments]; rw [← sgn_mul_self]; ring
    rw [h1, h2, rabs_eq_abs, abs_div, abs_neg]
    norm_num
  · cases h

/-- `cont_moments_cv` returns `None` exactly for (nearly) degenerate polygons -/
theorem moments_none_iff (fltEps dblEps : Rat) (c : List Pt) :
    moments fltEps dblEps c = none ↔ 2 * |shoelace c| ≤ fltEps := by
  have h1 : shoelace c = -(a00 c) / 2 := by
    unfold shoelace a00
    have : (fun p q : Pt => p.1 * q.2 - q.1 * p.2) = fun p q => -1 * t00 p q := by
      funext p q; simp only [t00, dxy]; ring
    rw [this, cyc_mul]; ring
  have h2 : 2 * |shoelace c| = rabs (a00 c) := by
    have h22 : |(2 : Rat)| = 2 := abs_of_pos (by norm_num)
    rw [h1, rabs_eq_abs, abs_div, abs_neg, h22]; ring
  unfold moments
  rw [h2]
  split
  · rename_i h; simp; linarith
  · rename_i h; simp; linarith

/-! ## 2. volume of revolution -/

/-- the summand of `vol_revolve` is the truncated-cone formula `r² + rR + R²` -/
theorem cone_symmetric (r R : Rat) :
    3 * (r * r) + 3 * (r * (R - r)) + (R - r) * (R - r) = r * r + r * R + R * R :=
  cone_symmetric_form r R

/-- **Cubic scaling.** Scaling all contour coordinates by `k ≠ 0` scales the volume by `k³` -/
theorem scale_cubic (pi k sc : Rat) (rz : List Pt) (hk : k ≠ 0) :
    volRevolve pi (rz.map (scalePt k)) sc = k * k * k * volRevolve pi rz sc := by
  have hinj : ∀ p q : Pt, scalePt k p = scalePt k q → p = q := by
    intro p q h
    obtain ⟨a, b⟩ := p; obtain ⟨c, d⟩ := q
    simp only [scalePt, Prod.mk.injEq] at h ⊢
    exact ⟨mul_left_cancel₀ hk h.1, mul_left_cancel₀ hk h.2⟩
  unfold volRevolve
  rw [close_map _ hinj, pathSum_map]
  have : (fun p q => coneTerm (scalePt k p) (scalePt k q)) = fun p q => (k * k * k) * coneTerm p q := by
    funext p q; exact coneTerm_scale k p q
  rw [this, pathSum_mul]; ring

/-- the `point_scale` argument enters with its third power -/
theorem point_scale_cubic (pi k sc : Rat) (rz : List Pt) :
    volRevolve pi rz (k * sc) = k * k * k * volRevolve pi rz sc := by
  unfold volRevolve; ring

/-- **Orientation.** Traversing the contour in the opposite direction flips the sign of the
volume (closed or open input). -/
theorem reverse_flips_sign (pi sc : Rat) (rz : List Pt) :
    volRevolve pi rz.reverse sc = - volRevolve pi rz sc := by
  unfold volRevolve
  rw [pathSum_close _ coneTerm_antisymm, pathSum_close _ coneTerm_antisymm,
    pathSum_reverse _ coneTerm_antisymm, closing_reverse _ coneTerm_antisymm]
  ring

/-- closing an already closed contour changes nothing -/
theorem closing_is_idempotent (l : List Pt) : close (close l) = close l := close_close l

/-- `get_volume`: multiplying pixel size and centroid (µm) by `k` — the same pixel contour
looked at with a `k` times larger pixel — multiplies the volume by `k³` -/
theorem getVolume_pixel_cubic (pi k posx posy pix : Rat) (cont : List Pt) (hk : k ≠ 0) :
    getVolume pi cont (k * posx) (k * posy) (k * pix)
      = (getVolume pi cont posx posy pix).map (fun v => k * k * k * v) := by
  unfold getVolume
  have h1 : k * posx / (k * pix) = posx / pix := mul_div_mul_left _ _ hk
  have h2 : k * posy / (k * pix) = posy / pix := mul_div_mul_left _ _ hk
  split
  · simp only [halves, h1, h2, point_scale_cubic, Option.map_some]
    congr 1; ring
  · rfl

/-- `get_volume` flips its sign when the contour is traversed backwards -/
theorem getVolume_reverse_flips_sign (pi posx posy pix : Rat) (cont : List Pt) :
    getVolume pi cont.reverse posx posy pix
      = (getVolume pi cont posx posy pix).map (fun v => -v) := by
  unfold getVolume
  simp only [List.length_reverse]
  split
  · simp only [halves, List.map_reverse, List.reverse_reverse, Option.map_some]
    generalize hZ : List.map (fun p : Pt => p.1 - posx / pix) cont = Z
    generalize hR : List.map (fun r : Rat => if r < 0 then 0 else r)
      (List.map (fun p : Pt => p.2 - posy / pix) cont) = R
    generalize hL : List.map (fun r : Rat => -(if r > 0 then 0 else r))
      (List.map (fun p : Pt => p.2 - posy / pix) cont) = L
    have hRZ : R.length = Z.length := by rw [← hR, ← hZ]; simp
    have hLZ : L.length = Z.length := by rw [← hL, ← hZ]; simp
    rw [zip_reverse' hRZ, reverse_flips_sign]
    have h2 := reverse_flips_sign pi pix (List.zip L.reverse Z.reverse)
    rw [zip_reverse' hLZ, List.reverse_reverse] at h2
    rw [h2, zip_reverse' hLZ]
    congr 1; ring
  · rfl

/-- **`fix_orientation=True` returns the volume of the re-oriented contour** (F35 fixed): for
every contour, whatever the orientation test decides, the result is `get_volume` of the contour
traversed in the direction the test asks for -/
theorem getVolume_fix_orientation (pi posx posy pix : Rat) (cont : List Pt) (cw : Bool) :
    getVolumeFix pi cont posx posy pix cw
      = getVolume pi (if cw then cont.reverse else cont) posx posy pix := by
  cases cw
  · rfl
  · simp only [getVolumeFix, getVolume, if_true, List.length_reverse, List.map_reverse]

/-- … hence it is `get_volume` itself, negated exactly when the contour was clockwise: a
clockwise and the corresponding counter-clockwise contour give the same value -/
theorem getVolume_fix_orientation_sign (pi posx posy pix : Rat) (cont : List Pt) (cw : Bool) :
    getVolumeFix pi cont posx posy pix cw
      = (getVolume pi cont posx posy pix).map (fun v => if cw then -v else v) := by
  rw [getVolume_fix_orientation]
  cases cw
  · simp only [Bool.false_eq_true, if_false]
    cases getVolume pi cont posx posy pix <;> rfl
  · simp only [if_true]; exact getVolume_reverse_flips_sign pi posx posy pix cont

/-- F35: before the fix the reversed radii were combined with the un-reversed axial coordinates;
for this asymmetric clockwise quadrilateral the result (−13/2 with π := 3) is not the volume of the
counter-clockwise contour (19/2) -/
theorem old_fix_orientation_wrong_witness :
    getVolumeFixOld 3 [(1, 0), (3, 1), (0, 2), (0, 0)] 0 0 1 true = some (-13/2) ∧
    getVolume 3 [(1, 0), (3, 1), (0, 2), (0, 0)].reverse 0 0 1 = some (19/2) ∧
    getVolumeFix 3 [(1, 0), (3, 1), (0, 2), (0, 0)] 0 0 1 true = some (19/2) := by decide +kernel

/-- F35: without re-orientation nothing changed -/
theorem old_fix_orientation_agrees_when_ccw (pi posx posy pix : Rat) (cont : List Pt) :
    getVolumeFixOld pi cont posx posy pix false = getVolumeFix pi cont posx posy pix false := rfl

/-! ## 3. brightness -/

/-- **Offsets shift the mean one-to-one**: increasing `bg_off` by `d` lowers `bright_bc_avg`
by exactly `d`; an offset `d` equals no offset minus `d` -/
theorem offset_shifts_mean_one_to_one (px : List Px) (o d : Rat) :
    brightAvg px (some (o + d)) = brightAvg px (some o) - d ∧
    brightAvg px (some d) = brightAvg px none - d := by
  refine ⟨?_, rfl⟩
  simp only [brightAvg]; ring

/-- passing the offset as `bg_off` is the same as adding it to the background image -/
theorem offset_is_background_shift (px : List Px) (d : Rat) (h : masked px ≠ []) :
    brightAvg (bgShift d px) none = brightAvg px (some d) := by
  simp only [brightAvg, masked_bg_shift, mean_shift d _ h]

/-- the standard deviation does not see a constant background offset -/
theorem sd_offset_invariant (px : List Px) (d : Rat) : brightVar (bgShift d px) = brightVar px := by
  simp only [brightVar, masked_bg_shift, variance_shift]

/-- **Percentiles are shift-equivariant** (NumPy's linear rule): the percentile of the
image under a background raised by `d` is the percentile lowered by `d`, i.e. what `bg_off = d`
returns (fixed code) -/
theorem percentile_shift_equivariant (q : Rat) (px : List Px) (d : Rat) (h : masked px ≠ []) :
    brightPerc q (bgShift d px) none = brightPerc q px (some d) := by
  simp only [brightPerc, masked_bg_shift, percentile_shift q d _ h]

theorem perc_offset_one_to_one (q : Rat) (px : List Px) (o d : Rat) :
    brightPerc q px (some (o + d)) = brightPerc q px (some o) - d ∧
    brightPerc q px (some d) = brightPerc q px none - d := by
  refine ⟨?_, rfl⟩
  simp only [brightPerc]; ring

/-- F19: before the fix an offset array with more than one element (what `ds["bg_off"]` is
for every dataset with more than one event) made `get_bright_perc` raise instead of shifting -/
theorem old_bright_perc_raises_on_array_offset (q : Rat) (px : List Px) (o : Rat) (n : Nat)
    (nz : Bool) (hn : 2 ≤ n) : brightPercOld q px o (truthOf true n nz) = none := by
  have h0 : n ≠ 0 := by omega
  have h1 : n ≠ 1 := by omega
  simp [brightPercOld, truthOf, h0, h1]

/-- F19: a one-element offset array equal to `o ≠ 0` worked, so did lists and numbers; the
old code agreed with the fixed one exactly where it did not raise and the offset was truthy -/
theorem old_bright_perc_agrees_when_truthy (q : Rat) (px : List Px) (o : Rat) :
    brightPercOld q px o .isTrue = some (brightPerc q px (some o)) := rfl

/-! ## 4. crosstalk -/

/-- **Compensation inverts the spill-over** for every invertible 3×3 matrix -/
theorem compensate_spill (c : Mat3) (x : Vec3) (h : det c ≠ 0) : compensate c (spill c x) = x := by
  obtain ⟨x1, x2, x3⟩ := x
  simp only [compensate, spill, vecMul, inv, Prod.mk.injEq]
  refine ⟨?_, ?_, ?_⟩ <;> (field_simp; simp only [det, adj]; ring)

theorem spill_compensate (c : Mat3) (y : Vec3) (h : det c ≠ 0) : spill c (compensate c y) = y := by
  obtain ⟨y1, y2, y3⟩ := y
  simp only [compensate, spill, vecMul, inv, Prod.mk.injEq]
  refine ⟨?_, ?_, ?_⟩ <;> (field_simp; simp only [det, adj]; ring)

/-- two channels (no spill from or to channel 3): the familiar 2×2 formula, channel 3 untouched -/
theorem two_channel (ct21 ct12 : Rat) (y : Vec3) (h : 1 - ct12 * ct21 ≠ 0) :
    compensate (crosstalkMatrix ct21 0 ct12 0 0 0) y
      = ((y.1 - ct21 * y.2.1) / (1 - ct12 * ct21), (y.2.1 - ct12 * y.1) / (1 - ct12 * ct21), y.2.2) := by
  obtain ⟨y1, y2, y3⟩ := y
  have hd : det (crosstalkMatrix ct21 0 ct12 0 0 0) = 1 - ct12 * ct21 := by
    simp only [det, crosstalkMatrix]; ring
  simp only [compensate, vecMul, inv, hd, Prod.mk.injEq]
  simp only [adj, crosstalkMatrix]
  refine ⟨?_, ?_, ?_⟩ <;> (field_simp; ring)

/-- `correct_crosstalk` applied to spilled signals returns the true signals, for all
non-negative cross-talk coefficients with an invertible matrix -/
theorem correctCrosstalk_inverts (ct21 ct31 ct12 ct32 ct13 ct23 : Rat) (x : Vec3)
    (hpos : 0 ≤ ct21 ∧ 0 ≤ ct31 ∧ 0 ≤ ct12 ∧ 0 ≤ ct32 ∧ 0 ≤ ct13 ∧ 0 ≤ ct23)
    (h : det (crosstalkMatrix ct21 ct31 ct12 ct32 ct13 ct23) ≠ 0) :
    correctCrosstalk ct21 ct31 ct12 ct32 ct13 ct23
      (spill (crosstalkMatrix ct21 ct31 ct12 ct32 ct13 ct23) x) = .ok x := by
  obtain ⟨h1, h2, h3, h4, h5, h6⟩ := hpos
  have hneg : ¬ (ct21 < 0 ∨ ct31 < 0 ∨ ct12 < 0 ∨ ct32 < 0 ∨ ct13 < 0 ∨ ct23 < 0) := by
    simp only [not_or, not_lt]; exact ⟨h1, h2, h3, h4, h5, h6⟩
  simp only [correctCrosstalk, compMatrix, hneg, if_false, h]
  have := compensate_spill _ x h
  simp only [compensate] at this
  rw [this]

/-- negative coefficients are rejected -/
theorem negative_rejected (ct21 ct31 ct12 ct32 ct13 ct23 : Rat) (y : Vec3)
    (h : ct21 < 0 ∨ ct31 < 0 ∨ ct12 < 0 ∨ ct32 < 0 ∨ ct13 < 0 ∨ ct23 < 0) :
    correctCrosstalk ct21 ct31 ct12 ct32 ct13 ct23 y = .error .negative := by
  simp [correctCrosstalk, compMatrix, h]

/-! ## 5. duplicate removal of `get_contour` -/

/-- **No two cyclically adjacent points are equal** after `remove_duplicates`: neighbours differ
and the last point differs from the first (in particular the result never has length 1) -/
theorem remove_duplicates_no_adjacent_equal [DecidableEq α] (c : List α) :
    NoAdj (removeDuplicates c) ∧
    ∀ a b, (removeDuplicates c).head? = some a → (removeDuplicates c).getLast? = some b → b ≠ a := by
  cases c with
  | nil => exact ⟨trivial, by intro a b h; simp [removeDuplicates] at h⟩
  | cons x r =>
    have hX : NoAdj (compress (x :: r ++ [x])) := noAdj_compress _
    have hlast : (compress (x :: r ++ [x])).getLast? = some x := by
      simp only [List.cons_append, compress]
      rw [getLast?_compressFrom]; simp [List.getLast?_cons]
    have hne : compress (x :: r ++ [x]) ≠ [] := by simp [compress]
    have hsplit : compress (x :: r ++ [x]) = (removeDuplicates (x :: r)) ++ [x] := by
      have := List.dropLast_append_getLast? x hlast
      simpa [removeDuplicates] using this.symm
    refine ⟨noAdj_dropLast _ hX, ?_⟩
    intro a b ha hb
    have hax : a = x := by
      cases hR : removeDuplicates (x :: r) with
      | nil => rw [hR] at ha; simp at ha
      | cons y ys =>
        rw [hR] at hsplit ha
        simp only [compress, List.cons_append, List.cons.injEq] at hsplit
        simp at ha
        rw [← ha, ← hsplit.1]
    rw [hax]
    rw [hsplit] at hX
    exact noAdj_append_singleton _ x b hX hb

/-- only points of the input survive, in their order -/
theorem remove_duplicates_sublist [DecidableEq α] (c : List α) : (removeDuplicates c).Sublist c := by
  cases c with
  | nil => exact List.Sublist.slnil
  | cons x r =>
    have h1 : (compress (x :: r ++ [x])).Sublist (x :: r ++ [x]) := by
      simp only [List.cons_append, compress]
      exact (compressFrom_sublist _ _).cons_cons _
    have h2 := sublist_dropLast h1
    have h3 : (x :: r ++ [x]).dropLast = x :: r := List.dropLast_concat
    rw [h3] at h2
    simpa [removeDuplicates] using h2

/-! ## non-vacuity -/

/-- the 2×1 rectangle: area 2, `mu20 = 2/3`, `mu02 = 1/6` -/
example : (moments (1/1000) (1/1000000) [(0,0),(2,0),(2,1),(0,1)]).map
    (fun m => (m.m00, m.mu20, m.mu02)) = some (2, 2/3, 1/6) := by decide +kernel
example : moments (1/1000) (1/1000000) [(0,0),(1,1),(2,2)] = none := by decide +kernel
/-- truncated cones of a unit-height cylinder of radius 2, π := 3: volume 12 -/
example : volRevolve 3 [(0,0),(2,0),(2,1),(0,1)] 1 = 12 := by decide +kernel
example : volRevolve 3 [(0,0),(2,0),(2,1),(0,1)].reverse 1 = -12 := by decide +kernel
example : masked [⟨true, 5, 2⟩, ⟨false, 9, 0⟩] = [3] := by decide +kernel
example : nth [1, 2, 3, 5] 0 + (nth [1, 2, 3, 5] 1 - nth [1, 2, 3, 5] 0) * (3/10) = 13/10 := by
  decide +kernel
example : compensate (crosstalkMatrix (1/10) 0 (1/5) 0 0 (1/2))
    (spill (crosstalkMatrix (1/10) 0 (1/5) 0 0 (1/2)) (3, 4, 5)) = (3, 4, 5) := by decide +kernel
example : removeDuplicates [(1:Nat), 1, 2, 2, 3, 1, 1] = [1, 2, 3] := by decide +kernel
example : truthOf true 3 true = .raises := rfl

end DclabModel.C18
