import DclabModel.Lemmas.Cli
import DclabModel.Properties.C01
/-!
# C09 — Split partitions and join concatenates events without loss or reordering

Property theorems only.  The model (`Model/Cli.lean`, part A) mirrors `dclab.cli.split` and
`dclab.cli.join` with the repairs F10 (feature pruning) and F11 (chronological key) applied; the
unrepaired rules are kept as `oldPass` / `oldKeyLe` and shown to violate the specification by the
witness theorems at the end of each section.  All theorems quantify over every number of events,
every split size > 0, every number and order of inputs, every feature set and every time stamp.
-/
namespace DclabModel.C09
open DclabModel.Cli

/-! ### split -/

/-- **Split partitions.** For every `N` and every `s > 0` the parts, in order, contain every
event exactly once and in order, no part holds more than `s` events, and there are `⌈N/s⌉`
parts. -/
theorem split_partition (N s : Nat) (hs : 0 < s) :
    (split N s).flatten = List.range N ∧
    (∀ p ∈ split N s, p.length ≤ s) ∧
    (split N s).length = (N + s - 1) / s := by
  refine ⟨split_flatten N s hs, ?_, ?_⟩
  · intro p hp
    simp only [split, List.mem_map] at hp
    obtain ⟨i, _, rfl⟩ := hp
    exact window_length_le N s i
  · simp [split, numFiles_eq_ceil N s hs]

/-- with boundary-image skipping the parts together miss exactly the skipped empty events -/
theorem split_skip_partition (N s : Nat) (hs : 0 < s) (z0 zN : Bool) :
    (splitSkip N s z0 zN).flatten = (List.range N).filter (keepEvent N z0 zN) ∧
    (∀ p ∈ splitSkip N s z0 zN, p.length ≤ s) := by
  refine ⟨splitSkip_flatten_of N s z0 zN (split_flatten N s hs), ?_⟩
  intro p hp
  simp only [splitSkip, List.mem_map] at hp
  obtain ⟨w, hw, rfl⟩ := hp
  exact Nat.le_trans (List.length_filter_le _ _) ((split_partition N s hs).2.1 w hw)

example : split 5 2 = [[0, 1], [2, 3], [4]] := by decide
example : split 4 2 = [[0, 1], [2, 3]] := by decide
example : split 3 5 = [[0, 1, 2]] := by decide
example : splitSkip 5 2 true true = [[1], [2, 3], []] := by decide

/-! ### join: common features -/

/-- **The joined features are the intersection**: the innate features of the first file (in
their order) that are available in every other input. -/
theorem prune_is_intersection (first : Meas) (rest : List Meas) :
    joinFeatures first rest =
      first.innate.filter (fun f => rest.all (fun m => decide (f ∈ m.avail))) ∧
    ∀ f, f ∈ joinFeatures first rest ↔ f ∈ first.innate ∧ ∀ m ∈ rest, f ∈ m.avail := by
  have h := foldl_prune rest first.innate
  refine ⟨h, ?_⟩
  intro f
  unfold joinFeatures
  rw [h]
  simp [List.mem_filter]

/-- F10: the unrepaired loop (`features.remove(feat)` while iterating over `features`) keeps a
feature that the other file does not have when two adjacent features are missing — here feature
`1` survives although it is not available. -/
theorem prune_skip_witness :
    oldPruneStep [0, 1, 2, 3] [2, 3] = [1, 2, 3] ∧ pruneStep [0, 1, 2, 3] [2, 3] = [2, 3] ∧
    (1 : Nat) ∉ [2, 3] := by
  decide

/-! ### join: order of the inputs -/

/-- **Join order.** The processing order is a permutation of the inputs, sorted by the key
(acquisition time stamp, then run index), and the sort is stable: any inputs that are already in
key order keep their relative order (in particular ties stay in the given order). -/
theorem join_order (ms : List Meas) :
    (sortInputs ms).Perm ms ∧
    (sortInputs ms).Pairwise (fun a b => keyLe a b = true) ∧
    (∀ c : List Meas, c.Pairwise (fun a b => keyLe a b = true) → c.Sublist ms →
      c.Sublist (sortInputs ms)) := by
  refine ⟨List.mergeSort_perm ms keyLe, ?_, ?_⟩
  · exact List.pairwise_mergeSort keyLe_trans keyLe_total ms
  · intro c hc hs
    exact List.sublist_mergeSort keyLe_trans keyLe_total hc hs

/-- the key order is the chronological order: earlier acquisition first, ties by run index -/
theorem key_chronological (a b : Meas) :
    keyLe a b = true ↔ a.ts < b.ts ∨ (a.ts = b.ts ∧ a.run ≤ b.run) := keyLe_iff a b

/-- for well-formed times of day (`0 ≤ sec < 86400`) the time stamp orders like (date, time) -/
theorem ts_lexicographic (a b : Meas) (ha : 0 ≤ a.sec ∧ a.sec < 86400)
    (hb : 0 ≤ b.sec ∧ b.sec < 86400) :
    a.ts < b.ts ↔ a.day < b.day ∨ (a.day = b.day ∧ a.sec < b.sec) := by
  unfold Meas.ts
  constructor
  · intro h
    rcases Int.lt_trichotomy a.day b.day with hd | hd | hd
    · exact Or.inl hd
    · right; refine ⟨hd, ?_⟩; rw [hd] at h; grind
    · exfalso
      have : (b.day : Rat) + 1 ≤ (a.day : Rat) := by
        have : b.day + 1 ≤ a.day := hd
        exact_mod_cast this
      grind
  · rintro (hd | ⟨hd, hs⟩)
    · have : (a.day : Rat) + 1 ≤ (b.day : Rat) := by
        have : a.day + 1 ≤ b.day := hd
        exact_mod_cast this
      grind
    · rw [hd]; grind

/-- **Offsets are non-negative** after sorting (this is what the unrepaired key violated) -/
theorem offsets_nonneg (ms : List Meas) : ∀ t ∈ offsets (sortInputs ms), 0 ≤ t := by
  have hp := (join_order ms).2.1
  generalize sortInputs ms = l at hp
  cases l with
  | nil => simp [offsets]
  | cons m0 r =>
    intro t ht
    simp only [offsets, List.mem_map] at ht
    obtain ⟨m, hm, rfl⟩ := ht
    rcases List.mem_cons.mp hm with h | h
    · subst h; grind
    · have := List.rel_of_pairwise_cons hp h
      rw [keyLe_iff] at this
      grind

/-- F11: with the unrepaired string key `date_time_run`, the measurement taken at `12:00:00.5`
is placed *before* the one taken at `12:00:00` (`'.' < '_'`), although it is later; the earlier
file then gets the offset −1/2 s and the frame shift `round(−0.5·2000) = −1000 < 0`
(`np.uint64` of it raises `OverflowError`).  The repaired key orders them chronologically. -/
theorem fractional_seconds_witness :
    let date : Str := [50, 48, 50, 48, 45, 49, 48, 45, 50, 51]   -- "2020-10-23"
    let tA : Str := [49, 50, 58, 48, 48, 58, 48, 48]                  -- "12:00:00"
    let tB : Str := [49, 50, 58, 48, 48, 58, 48, 48, 46, 53]          -- "12:00:00.5"
    let run : Str := [49]                                                  -- "1"
    oldKeyLe (date, tA, run) (date, tB, run) = false ∧
    oldKeyLe (date, tB, run) (date, tA, run) = true ∧
    parseTime? tA = some 43200 ∧ parseTime? tB = some (43200 + 1 / 2) ∧
    roundHalfEven ((43200 - (43200 + 1 / 2)) * 2000) = -1000 := by
  decide +kernel

/-! ### join: event data -/

/-- **Join concatenates.**  For inputs `m0 :: rest` in processing order, with `j` the joined
file: the features are the common ones; every plain feature is the concatenation of the inputs'
columns in order; `time` and `frame` are the concatenation with every later input shifted by its
acquisition offset (`ts − ts₀`, resp. `round(offset · frame rate)`); `index` is `1 … ΣNᵢ`;
features that were pruned are not written. -/
theorem join_concat (m0 : Meas) (rest : List Meas) :
    ∃ j, joinSorted (m0 :: rest) = some j ∧
      j.order = (m0 :: rest).map (·.tag) ∧
      j.feats = joinFeatures m0 rest ∧
      (∀ n, .plain n ∈ j.feats →
        j.col (.plain n) = ((m0 :: rest).map (fun m => m.col (.plain n))).flatten) ∧
      (.time ∈ j.feats → j.col .time = m0.col .time ++
        (rest.map (fun m => (m.col .time).map (· + (m.ts - m0.ts)))).flatten) ∧
      (.frame ∈ j.feats → j.col .frame = m0.col .frame ++
        (rest.map (fun m => (m.col .frame).map
          (· + ((roundHalfEven ((m.ts - m0.ts) * m.fr) : Int) : Rat)))).flatten) ∧
      (.index ∈ j.feats → j.col .index = enumFrom 0 (totalEvents (m0 :: rest))) ∧
      (∀ f, f ∉ j.feats → j.col f = []) := by
  refine ⟨_, rfl, rfl, rfl, ?_, ?_, ?_, ?_, ?_⟩
  · intro n hn
    simp only at hn ⊢
    rw [foldl_appendMeas_indep _ _ _ hn (fun m => m.col (.plain n)) (fun _ _ => rfl)]
    simp [firstCols, hn]
  · intro h
    simp only at h ⊢
    rw [foldl_appendMeas_indep _ _ _ h (fun m => (m.col .time).map (· + (m.ts - m0.ts)))
      (fun _ _ => rfl)]
    simp [firstCols, h]
  · intro h
    simp only at h ⊢
    rw [foldl_appendMeas_indep _ _ _ h (fun m => (m.col .frame).map
      (· + ((roundHalfEven ((m.ts - m0.ts) * m.fr) : Int) : Rat))) (fun _ _ => rfl)]
    simp [firstCols, h]
  · intro h
    simp only at h ⊢
    rw [foldl_appendMeas_index _ _ h rest _ (m0.col .index).length (by simp [firstCols, h])]
    simp [totalEvents]
  · intro f hf
    simp only at hf ⊢
    rw [foldl_appendMeas_out _ _ _ hf]
    simp [firstCols, hf]

/-- `join` = sort, then `joinSorted`; fewer than two inputs are rejected -/
theorem join_eq (ms : List Meas) (h : 2 ≤ ms.length) : join ms = joinSorted (sortInputs ms) := by
  unfold join
  rw [if_neg (by omega)]

/-- **Logs are retained**: every log of the `i`-th input (in processing order, 1-based) is in
the joined file under the name `src-#i_<name>` with its lines unchanged. -/
theorem join_logs (m0 : Meas) (rest : List Meas) (i : Nat) (m : Meas)
    (hm : (m0 :: rest)[i]? = some m) (nl : String × List String) (hl : nl ∈ m.logs) :
    ∃ j, joinSorted (m0 :: rest) = some j ∧ (srcPrefix (i + 1) ++ nl.1, nl.2) ∈ j.logs := by
  refine ⟨_, rfl, ?_⟩
  simp only
  have key : ∀ (l : List Meas) (b i : Nat), l[i]? = some m →
      (srcPrefix (b + i) ++ nl.1, nl.2) ∈ joinLogsFrom b l := by
    intro l
    induction l with
    | nil => intro b i h; simp at h
    | cons x r ih =>
      intro b i h
      cases i with
      | zero =>
        simp at h; subst h
        simp only [joinLogsFrom, List.mem_append]
        left
        simp only [prefixedLogs, List.mem_map]
        exact ⟨nl, hl, rfl⟩
      | succ i =>
        simp only [joinLogsFrom, List.mem_append]
        right
        have := ih (b + 1) i (by simpa using h)
        rwa [show b + 1 + i = b + (i + 1) by omega] at this
  have := key (m0 :: rest) 1 i hm
  rwa [Nat.add_comm 1 i] at this

theorem splitMeas_cols (x : Meas) (N s : Nat) (hs : 0 < s) (f : Feat)
    (hlen : (x.col f).length = N) :
    ((splitMeas x N s).map (fun m => m.col f)).flatten = x.col f := by
  unfold splitMeas
  rw [List.map_map]
  have : ((fun m : Meas => m.col f) ∘ partOf x N s) =
      fun i => ((x.col f).drop (i * s)).take s := by
    funext i
    simp only [Function.comp, partOf]
    exact sel_window (x.col f) N s i hlen
  rw [this, chunks_flatten]
  apply List.take_of_length_le
  rw [hlen]
  exact numFiles_cover N s hs

theorem splitMeas_sorted (x : Meas) (N s : Nat) :
    sortInputs (splitMeas x N s) = splitMeas x N s := by
  unfold sortInputs
  apply List.mergeSort_of_pairwise
  apply List.pairwise_of_forall_mem_list
  intro a ha b hb
  simp only [splitMeas, List.mem_map] at ha hb
  obtain ⟨i, _, rfl⟩ := ha
  obtain ⟨j, _, rfl⟩ := hb
  rw [keyLe_iff]
  right
  exact ⟨rfl, Nat.le_refl _⟩

/-- **Round trip.**  Joining the parts of a split, given in order, reproduces the feature data
of the original: same features, every column except `index_online` (which `join` re-bases, O4)
is unchanged, `index` is `1 … N`. -/
theorem join_split_roundtrip (x : Meas) (N s : Nat) (hs : 0 < s) (hsN : s < N)
    (hlen : ∀ f, (x.col f).length = N) (hinn : ∀ f ∈ x.innate, f ∈ x.avail) :
    ∃ j, join (splitMeas x N s) = some j ∧ j.feats = x.innate ∧
      (∀ f ∈ x.innate, f ≠ .indexOnline → f ≠ .index → j.col f = x.col f) ∧
      (.index ∈ x.innate → j.col .index = enumFrom 0 N) := by
  have hcover := numFiles_cover N s hs
  have hk : 2 ≤ numFiles N s := by
    rcases Nat.lt_or_ge (numFiles N s) 2 with h | h
    · exfalso
      have : numFiles N s * s ≤ 1 * s := Nat.mul_le_mul_right s (by omega)
      omega
    · exact h
  have hlen2 : 2 ≤ (splitMeas x N s).length := by simp [splitMeas, hk]
  rw [join_eq _ hlen2, splitMeas_sorted]
  -- name the head and the tail of the list of parts
  obtain ⟨m0, rest, hparts⟩ : ∃ m0 rest, splitMeas x N s = m0 :: rest := by
    cases h : splitMeas x N s with
    | nil => rw [h] at hlen2; simp at hlen2
    | cons a b => exact ⟨a, b, rfl⟩
  have hall : ∀ m ∈ m0 :: rest, ∃ i, m = partOf x N s i := by
    intro m hm
    rw [← hparts] at hm
    simp only [splitMeas, List.mem_map] at hm
    obtain ⟨i, _, rfl⟩ := hm
    exact ⟨i, rfl⟩
  have hts : ∀ m ∈ rest, m.ts - m0.ts = 0 := by
    intro m hm
    obtain ⟨i, rfl⟩ := hall m (List.mem_cons_of_mem _ hm)
    obtain ⟨i0, rfl⟩ := hall m0 (List.mem_cons_self ..)
    show x.ts - x.ts = 0
    grind
  obtain ⟨j, hj, -, hfe, hpl, hti, hfr, hix, -⟩ := join_concat m0 rest
  rw [hparts]
  have hfeats : j.feats = x.innate := by
    rw [hfe, (prune_is_intersection m0 rest).1]
    obtain ⟨i0, rfl⟩ := hall m0 (List.mem_cons_self ..)
    show List.filter _ x.innate = x.innate
    rw [List.filter_eq_self]
    intro f hf
    rw [List.all_eq_true]
    intro m hm
    obtain ⟨i, rfl⟩ := hall m (List.mem_cons_of_mem _ hm)
    exact decide_eq_true (hinn f hf)
  have hcols : ∀ f, ((m0 :: rest).map (fun m => m.col f)).flatten = x.col f := by
    intro f; rw [← hparts]; exact splitMeas_cols x N s hs f (hlen f)
  refine ⟨j, hj, hfeats, ?_, ?_⟩
  · intro f hf hio hidx
    rw [← hfeats] at hf
    cases f with
    | indexOnline => exact absurd rfl hio
    | index => exact absurd rfl hidx
    | plain n => rw [hpl n hf]; exact hcols _
    | time =>
      rw [hti hf, ← hcols .time]
      have : rest.map (fun m => (m.col .time).map (· + (m.ts - m0.ts))) =
          rest.map (fun m => m.col .time) := by
        apply List.map_congr_left
        intro m hm
        rw [hts m hm]
        simp [Rat.add_zero]
      rw [this]; simp
    | frame =>
      rw [hfr hf, ← hcols .frame]
      have : rest.map (fun m => (m.col .frame).map
            (· + ((roundHalfEven ((m.ts - m0.ts) * m.fr) : Int) : Rat))) =
          rest.map (fun m => m.col .frame) := by
        apply List.map_congr_left
        intro m hm
        rw [hts m hm, Rat.zero_mul, roundHalfEven_zero]
        have : ((0 : Int) : Rat) = 0 := rfl
        simp [this, Rat.add_zero]
      rw [this]; simp
  · intro hidx
    rw [hix (hfeats ▸ hidx)]
    congr 1
    have := congrArg List.length (hcols .index)
    rw [hlen, List.length_flatten, List.map_map] at this
    exact this

/-! ### chunk-wise writing and joins of joins -/

/-- **Join through the chunk-wise writer.**  Non-scalar features reach the file through
`RTDCWriter.write_ndarray`'s resize-and-populate loop (model and proof: property C01).  Appending
the blocks of the inputs one after the other through that loop — each at the offset reached so
far, which in general is *not* a multiple of the chunk size — yields the concatenation, for every
chunk size. -/
theorem chunked_join_concat (cs : Nat) (blocks : List (List DclabModel.Writer.Tok)) :
    ∀ first : List DclabModel.Writer.Tok,
    blocks.foldl (fun acc b => DclabModel.Writer.populateNd cs acc.length
        (DclabModel.Writer.resize acc (acc.length + b.length)) b) first
      = first ++ blocks.flatten := by
  induction blocks with
  | nil => intro first; simp
  | cons b r ih =>
    intro first
    rw [List.foldl_cons, DclabModel.C01.chunkwise_write_eq_append, ih]
    simp [List.append_assoc]

/-- **Join of joins.**  If a joined file (`mid`, holding at least the logs of the first-level
join) is input number `p+1` of a second join, every log `(n, lines)` of first-level source `i+1`
is retained in the second-level result under `src-#(p+1)_src-#(i+1)_n` with its lines unchanged. -/
theorem join_of_join_logs (a0 : Meas) (arest : List Meas) (i : Nat) (src : Meas)
    (hsrc : (a0 :: arest)[i]? = some src) (nl : String × List String) (hl : nl ∈ src.logs)
    (m0 : Meas) (rest : List Meas) (p : Nat) (mid : Meas) (hmid : (m0 :: rest)[p]? = some mid)
    (hkeep : ∀ j1, joinSorted (a0 :: arest) = some j1 → ∀ e ∈ j1.logs, e ∈ mid.logs) :
    ∃ j2, joinSorted (m0 :: rest) = some j2 ∧
      (srcPrefix (p + 1) ++ (srcPrefix (i + 1) ++ nl.1), nl.2) ∈ j2.logs := by
  obtain ⟨j1, h1, hmem⟩ := join_logs a0 arest i src hsrc nl hl
  exact join_logs m0 rest p mid hmid (srcPrefix (i + 1) ++ nl.1, nl.2) (hkeep j1 h1 _ hmem)

theorem joinLogsFrom_name_form (ms : List Meas) : ∀ (b : Nat) (e : String × List String),
    e ∈ joinLogsFrom b ms → ∃ j c, b ≤ j ∧ e.1 = srcPrefix j ++ c := by
  induction ms with
  | nil => intro b e h; simp [joinLogsFrom] at h
  | cons m r ih =>
    intro b e h
    simp only [joinLogsFrom, List.mem_append] at h
    rcases h with h | h
    · simp only [prefixedLogs, List.mem_map] at h
      obtain ⟨nl, _, rfl⟩ := h
      exact ⟨b, nl.1, Nat.le_refl _, rfl⟩
    · obtain ⟨j, c, hj, hc⟩ := ih (b + 1) e h
      exact ⟨j, c, by omega, hc⟩

/-- **Distinct names.**  If the log names inside every input are distinct, all names in the
joined file are distinct — given that the prefixes `src-#i_` of different positions can never
produce the same name (`hpf`; for the concrete prefixes this rests on the decimal rendering of
`i` followed by `_`, checked by correspondence only). -/
theorem join_log_names_distinct
    (hpf : ∀ (i j : Nat) (a c : String), i ≠ j → srcPrefix i ++ a ≠ srcPrefix j ++ c)
    (ms : List Meas) (hnd : ∀ m ∈ ms, (m.logs.map (·.1)).Nodup) :
    ∀ b, ((joinLogsFrom b ms).map (·.1)).Nodup := by
  induction ms with
  | nil => intro b; simp [joinLogsFrom]
  | cons m r ih =>
    intro b
    simp only [joinLogsFrom, List.map_append]
    rw [List.nodup_append]
    refine ⟨?_, ih (fun x hx => hnd x (List.mem_cons_of_mem _ hx)) (b + 1), ?_⟩
    · have h0 := hnd m (List.mem_cons_self ..)
      simp only [prefixedLogs, List.map_map]
      have : ((fun x : String × List String => x.1) ∘ fun nl : String × List String =>
          (srcPrefix b ++ nl.1, nl.2)) = (fun s => srcPrefix b ++ s) ∘ (fun x => x.1) := rfl
      rw [this, ← List.map_map]
      exact List.Pairwise.map _ (fun x y hne h => hne ((String.append_right_inj _).mp h)) h0
    · intro x hx y hy hxy
      simp only [List.mem_map] at hx hy
      obtain ⟨e1, he1, rfl⟩ := hx
      obtain ⟨e2, he2, rfl⟩ := hy
      simp only [prefixedLogs, List.mem_map] at he1
      obtain ⟨nl, _, rfl⟩ := he1
      obtain ⟨j, c, hj, hc⟩ := joinLogsFrom_name_form r (b + 1) e2 he2
      rw [hc] at hxy
      exact hpf b j nl.1 c (by omega) hxy

/-- **Distinct names, unconditionally**: for the prefixes dclab really writes
(`src-#<i>_`, `srcPrefix_prefix_free`) the hypothesis `hpf` is a theorem. -/
theorem join_log_names_distinct_concrete
    (ms : List Meas) (hnd : ∀ m ∈ ms, (m.logs.map (·.1)).Nodup) :
    ∀ b, ((joinLogsFrom b ms).map (·.1)).Nodup :=
  join_log_names_distinct srcPrefix_prefix_free ms hnd

/-! ### session 4: tables, metadata, `index_online`, logs of a round trip, empty parts -/

/-- **Tables are retained** like logs: every table of the `i`-th input (processing order, 1-based)
is in the joined file under `src-#i_<name>`, unchanged. -/
theorem join_tables (m0 : Meas) (rest : List Meas) (i : Nat) (m : Meas)
    (hm : (m0 :: rest)[i]? = some m) (nt : String × List String) (ht : nt ∈ m.tables) :
    ∃ j, joinSorted (m0 :: rest) = some j ∧ (srcPrefix (i + 1) ++ nt.1, nt.2) ∈ j.tables := by
  refine ⟨_, rfl, ?_⟩
  simp only [joinTablesFrom]
  have h' : ((m0 :: rest).map Meas.asTables)[i]? = some m.asTables := by
    rw [List.getElem?_map, hm]; rfl
  have := joinLogsFrom_mem m.asTables nt ht _ 1 i h'
  rwa [Nat.add_comm 1 i] at this

/-- the joined file has no table that does not stem from an input (names have the form
`src-#j_<name>`), and the table names stay distinct -/
theorem join_tables_only (ms : List Meas) (hnd : ∀ m ∈ ms, (m.tables.map (·.1)).Nodup) (b : Nat) :
    ((joinTablesFrom b ms).map (·.1)).Nodup ∧
    ∀ e ∈ joinTablesFrom b ms, ∃ j c, b ≤ j ∧ e.1 = srcPrefix j ++ c := by
  refine ⟨?_, fun e he => joinLogsFrom_name_form _ b e he⟩
  apply join_log_names_distinct_concrete
  intro m hm
  simp only [List.mem_map] at hm
  obtain ⟨m', hm', rfl⟩ := hm
  exact hnd m' hm'

/-- **Metadata of the joined file.**  They are those of an input `m0` that is earliest in key
order (acquisition time stamp, then run index): every other metadata key, the date and the time
are copied from it; the run index is 1 and the event count is the total number of events. -/
theorem join_meta (ms : List Meas) (h : 2 ≤ ms.length) :
    ∃ j m0, join ms = some j ∧ m0 ∈ ms ∧ (∀ m ∈ ms, keyLe m0 m = true) ∧
      j.cfg = m0.cfg ∧ j.day = m0.day ∧ j.sec = m0.sec ∧ j.run = 1 ∧
      j.count = totalEvents ms := by
  rw [join_eq ms h]
  obtain ⟨hperm, hsorted, -⟩ := join_order ms
  cases hs : sortInputs ms with
  | nil =>
    have := hperm.length_eq
    rw [hs] at this
    simp at this
    omega
  | cons m0 rest =>
    rw [hs] at hperm hsorted
    refine ⟨_, m0, rfl, hperm.subset (List.mem_cons_self ..), ?_, rfl, rfl, rfl, rfl, ?_⟩
    · intro m hm
      have hm' : m ∈ m0 :: rest := hperm.symm.subset hm
      rcases List.mem_cons.mp hm' with rfl | hr
      · rw [keyLe_iff]; exact Or.inr ⟨rfl, Nat.le_refl _⟩
      · exact List.rel_of_pairwise_cons hsorted hr
    · show totalEvents (m0 :: rest) = totalEvents ms
      unfold totalEvents
      exact (hperm.map _).sum_nat

/-- **`index_online` is re-based** (observation O4): the first input's column is kept; every
later input's column is shifted by (last value written so far + 1). -/
theorem join_index_online (m0 : Meas) (rest : List Meas) :
    ∃ j, joinSorted (m0 :: rest) = some j ∧
      (.indexOnline ∈ j.feats → j.col .indexOnline =
        rebaseAll (m0.col .indexOnline) (rest.map (fun m => m.col .indexOnline))) := by
  refine ⟨_, rfl, ?_⟩
  intro h
  simp only at h ⊢
  rw [foldl_appendMeas_indexOnline _ _ h]
  simp [firstCols, h]

/-- **`index_online` stays ordered**: if the first input's column is non-decreasing and every
later input's column is non-decreasing with non-negative entries, the joined column is
non-decreasing (every appended block starts above the last value written). -/
theorem join_index_online_sorted (m0 : Meas) (rest : List Meas)
    (h0 : (m0.col .indexOnline).Pairwise (· ≤ ·))
    (hr : ∀ m ∈ rest, (m.col .indexOnline).Pairwise (· ≤ ·) ∧ ∀ v ∈ m.col .indexOnline, 0 ≤ v) :
    ∃ j, joinSorted (m0 :: rest) = some j ∧
      (.indexOnline ∈ j.feats → (j.col .indexOnline).Pairwise (· ≤ ·)) := by
  obtain ⟨j, hj, hcol⟩ := join_index_online m0 rest
  refine ⟨j, hj, fun h => ?_⟩
  rw [hcol h]
  apply rebaseAll_sorted _ _ h0
  intro b hb
  simp only [List.mem_map] at hb
  obtain ⟨m, hm, rfl⟩ := hb
  exact hr m hm

/-- the re-based column starts with the first input's column and has one entry per event -/
theorem rebase_shape (first : List Rat) (blocks : List (List Rat)) :
    ∃ t, rebaseAll first blocks = first ++ t ∧ t.length = (blocks.map List.length).sum :=
  rebaseAll_prefix blocks first

/-- one step: the appended values are the input's values plus `last + 1` -/
theorem rebase_step (acc c : List Rat) (l : Rat) (h : acc.getLast? = some l) :
    rebaseStep acc c = acc ++ c.map (· + (l + 1)) := by
  simp [rebaseStep, rebaseBase, h]

/-- **Round trip, logs and tables.**  Joining the parts of a split (`0 < s < N`): every log and
every table of the original is found once per part `i`, under `src-#i_src_<name>`, unchanged. -/
theorem join_split_logs (x : Meas) (N s : Nat) (hs : 0 < s) (hsN : s < N) (i : Nat)
    (hi : i < numFiles N s) :
    ∃ j, join (splitMeas x N s) = some j ∧
      (∀ nl ∈ x.logs, (srcPrefix (i + 1) ++ ("src_" ++ nl.1), nl.2) ∈ j.logs) ∧
      (∀ nt ∈ x.tables, (srcPrefix (i + 1) ++ ("src_" ++ nt.1), nt.2) ∈ j.tables) := by
  have hk := two_le_numFiles N s hs hsN
  have hlen2 : 2 ≤ (splitMeas x N s).length := by simp [splitMeas, hk]
  rw [join_eq _ hlen2, splitMeas_sorted]
  obtain ⟨m0, rest, hparts⟩ : ∃ m0 rest, splitMeas x N s = m0 :: rest := by
    cases h : splitMeas x N s with
    | nil => rw [h] at hlen2; simp at hlen2
    | cons a b => exact ⟨a, b, rfl⟩
  have hget : (m0 :: rest)[i]? = some (partOf x N s i) := by
    rw [← hparts]; simp [splitMeas, hi]
  rw [hparts]
  refine ⟨_, rfl, ?_, ?_⟩
  · intro nl hl
    obtain ⟨j, hj, hmem⟩ := join_logs m0 rest i _ hget ("src_" ++ nl.1, nl.2)
      (by simp only [partOf, exportPrefixed, List.mem_map]; exact ⟨nl, hl, rfl⟩)
    cases hj; exact hmem
  · intro nt ht
    obtain ⟨j, hj, hmem⟩ := join_tables m0 rest i _ hget ("src_" ++ nt.1, nt.2)
      (by simp only [partOf, exportPrefixed, List.mem_map]; exact ⟨nt, ht, rfl⟩)
    cases hj; exact hmem

/-- round trip of `index_online`: the joined column is the re-basing of the parts' columns -/
theorem join_split_index_online (x : Meas) (N s : Nat) (hs : 0 < s) (hsN : s < N)
    (hinn : ∀ f ∈ x.innate, f ∈ x.avail) (hio : .indexOnline ∈ x.innate) :
    ∃ j m0 rest, join (splitMeas x N s) = some j ∧ splitMeas x N s = m0 :: rest ∧
      j.col .indexOnline =
        rebaseAll (m0.col .indexOnline) (rest.map (fun m => m.col .indexOnline)) := by
  have hk := two_le_numFiles N s hs hsN
  have hlen2 : 2 ≤ (splitMeas x N s).length := by simp [splitMeas, hk]
  rw [join_eq _ hlen2, splitMeas_sorted]
  obtain ⟨m0, rest, hparts⟩ : ∃ m0 rest, splitMeas x N s = m0 :: rest := by
    cases h : splitMeas x N s with
    | nil => rw [h] at hlen2; simp at hlen2
    | cons a b => exact ⟨a, b, rfl⟩
  have hall : ∀ m ∈ m0 :: rest, ∃ i, m = partOf x N s i := by
    intro m hm
    rw [← hparts] at hm
    simp only [splitMeas, List.mem_map] at hm
    obtain ⟨i, _, rfl⟩ := hm
    exact ⟨i, rfl⟩
  obtain ⟨j, hj, hcol⟩ := join_index_online m0 rest
  rw [hparts]
  refine ⟨j, m0, rest, hj, rfl, hcol ?_⟩
  have hfe : j.feats = joinFeatures m0 rest := by cases hj; rfl
  rw [hfe, (prune_is_intersection m0 rest).2]
  obtain ⟨i0, rfl⟩ := hall m0 (List.mem_cons_self ..)
  refine ⟨hio, ?_⟩
  intro m hm
  obtain ⟨i, rfl⟩ := hall m (List.mem_cons_of_mem _ hm)
  exact hinn _ hio

/-- **Split either delivers all parts or nothing.**  `splitRun` succeeds iff no part is left
without events; then the parts are the windows of `split_skip_partition`. -/
theorem split_run_ok_iff (N s : Nat) (z0 zN : Bool) :
    (splitRun N s z0 zN = .ok (splitSkip N s z0 zN) ↔ ∀ p ∈ splitSkip N s z0 zN, p ≠ []) ∧
    (∀ parts, splitRun N s z0 zN = .ok parts → parts = splitSkip N s z0 zN) := by
  unfold splitRun
  constructor
  · rw [← firstEmpty_none_iff]
    cases h : firstEmpty (splitSkip N s z0 zN) <;> simp
  · intro parts
    cases h : firstEmpty (splitSkip N s z0 zN) <;> simp
    intro hp; exact hp.symm

/-- when `split` raises (`ValueError: Empty data object`), part `k` is the first one without
events, the parts before it were exported completely — but only under their temporary names:
`k + 1` temporaries are left and no output file exists. -/
theorem split_run_error (N s : Nat) (z0 zN : Bool) (t : Nat)
    (h : splitRun N s z0 zN = .error t) :
    ∃ k, t = k + 1 ∧ k < numFiles N s ∧ (splitSkip N s z0 zN)[k]? = some [] ∧
      ∀ i, i < k → ∃ p, (splitSkip N s z0 zN)[i]? = some p ∧ p ≠ [] := by
  unfold splitRun at h
  cases hf : firstEmpty (splitSkip N s z0 zN) with
  | none => rw [hf] at h; simp at h
  | some k =>
    rw [hf] at h
    simp only [SplitOutcome.error.injEq] at h
    obtain ⟨h1, h2⟩ := firstEmpty_some _ k hf
    refine ⟨k, h.symm, ?_, h1, h2⟩
    have hlt : k < (splitSkip N s z0 zN).length := by
      rcases Nat.lt_or_ge k (splitSkip N s z0 zN).length with hl | hl
      · exact hl
      · rw [List.getElem?_eq_none hl] at h1; simp at h1
    simpa [splitSkip, split] using hlt

/-- without skipped boundary events `split` never fails (for every `N` and `s > 0`) -/
theorem split_run_no_skip (N s : Nat) (hs : 0 < s) :
    splitRun N s false false = .ok (split N s) := by
  have hsk : splitSkip N s false false = split N s := by
    have hk : keepEvent N false false = fun _ => true := by funext j; simp [keepEvent]
    have hf : ∀ w : List Nat, w.filter (fun _ => true) = w := by
      intro w; induction w with
      | nil => rfl
      | cons a t ih => simp
    simp only [splitSkip, hk, hf]
    exact List.map_id' _
  have hne : ∀ p ∈ splitSkip N s false false, p ≠ [] := by
    rw [hsk]
    intro p hp
    simp only [split, List.mem_map, List.mem_range] at hp
    obtain ⟨i, hi, rfl⟩ := hp
    exact window_ne_nil N s i hs hi
  rw [← hsk]
  exact ((split_run_ok_iff N s false false).1).2 hne

/-- a failing split needs a skipped boundary event -/
theorem split_run_error_needs_skip (N s : Nat) (hs : 0 < s) (z0 zN : Bool) (t : Nat)
    (h : splitRun N s z0 zN = .error t) : z0 = true ∨ zN = true := by
  cases z0 <;> cases zN <;> simp_all [split_run_no_skip N s hs]

example : splitRun 5 2 false true = .error 3 := by decide
example : splitRun 4 1 true false = .error 1 := by decide
example : splitRun 3 2 false true = .error 2 := by decide
example : splitRun 5 2 true false = .ok [[1], [2, 3], [4]] := by decide
example : splitRun 5 1 true true = .error 1 := by decide
example : rebaseAll [5, 7] [[0, 3], [2]] = [5, 7, 8, 11, 14] := by decide +kernel

/-! ### non-vacuity -/

/-- two inputs: `a` taken at 12:00:00, `b` at 12:00:00.5 -/
def exColA : Feat → List Rat
  | .time => [0, 1]
  | .frame => [10, 20]
  | _ => [1, 2]
def exColB : Feat → List Rat
  | .time => [0, 2]
  | .frame => [10, 30]
  | _ => [1, 2]
def exA : Meas :=
  { tag := 0, day := 18558, sec := 43200, run := 1, fr := 2000, innate := [Feat.frame, Feat.time],
    avail := [Feat.frame, Feat.time, Feat.index], col := exColA, logs := [] }
def exB : Meas := { exA with tag := 1, sec := 43200 + 1 / 2, col := exColB }

example : keyLe exA exB = true ∧ keyLe exB exA = false := by decide +kernel
example : (joinSorted [exA, exB]).map (·.offsets) = some [0, 1 / 2] := by decide +kernel
example : (joinSorted [exA, exB]).map (fun j => (j.col .time, j.col .frame)) =
    some ([0, 1, 1 / 2, 5 / 2], [10, 20, 1010, 1030]) := by decide +kernel
example : (join [exA]).isNone = true := by decide +kernel

end DclabModel.C09
