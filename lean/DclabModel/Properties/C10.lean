import DclabModel.Lemmas.Cli
/-!
# C10 — Command-line tasks never leave a partial file at the output path

Property theorems only.  The model (`Model/Cli.lean`, part B) is a file-system automaton over the
operations the tasks perform (`unlink`, `create`, `write`, `close`, `rename`, `openRead`,
`openAppend`); `Conforms` is the decidable protocol "touch only temporaries, rename a closed
temporary onto the output exactly once, never touch either again".  The theorems quantify over
*every* trace, every initial file system and every crash point; the recorded traces of the real
tasks are checked against `Conforms` on every run of the harness.
-/
namespace DclabModel.C10
open DclabModel.Cli

private theorem wf_out_not_temp {r : Roles} (hw : r.wf = true) {o : Path} (ho : o ∈ r.outs) :
    r.temps.contains o = false := by
  simp only [Roles.wf, Bool.and_eq_true, List.all_eq_true] at hw
  cases h : r.temps.contains o with
  | false => rfl
  | true =>
    have := hw.1 o (by simpa using h)
    simp [ho] at this

private theorem wf_in_not_temp {r : Roles} (hw : r.wf = true) {i : Path} (hi : i ∈ r.ins) :
    r.temps.contains i = false := by
  simp only [Roles.wf, Bool.and_eq_true, List.all_eq_true] at hw
  cases h : r.temps.contains i with
  | false => rfl
  | true =>
    have := hw.1 i (by simpa using h)
    simp [hi] at this

/-- **Incomplete data only ever exists under a temporary name.**  For a conforming trace, after
every prefix (crash at any point `k`), every path that is not a temporary and had no writing
handle initially is unchanged, absent, or holds exactly the closed file the successful run leaves
there. -/
theorem partial_only_under_temp (r : Roles) (fs0 : FS) (tr : List Op)
    (hc : Conforms r fs0 tr = true) (p : Path) (hp : p ∉ r.temps) (hq : quiet (get fs0 p) = true)
    (k : Nat) :
    get (crash fs0 tr k) p = get fs0 p ∨ get (crash fs0 tr k) p = none ∨ Complete fs0 tr (get (crash fs0 tr k) p) p := by
  simp only [Conforms, Bool.and_eq_true] at hc
  exact not_temp_safe r p (by simpa using hp) tr fs0 [] hc.2 (by simp) hq k

/-- **Crash safety.**  For a conforming trace and every crash point `k`, every requested output
path is untouched (a closed file that was there before the task started), absent, or complete. -/
theorem crash_safe (r : Roles) (fs0 : FS) (tr : List Op) (hc : Conforms r fs0 tr = true)
    (o : Path) (ho : o ∈ r.outs) (hq : quiet (get fs0 o) = true) (k : Nat) :
    get (crash fs0 tr k) o = get fs0 o ∨ get (crash fs0 tr k) o = none ∨ Complete fs0 tr (get (crash fs0 tr k) o) o := by
  have hw : r.wf = true := by simp only [Conforms, Bool.and_eq_true] at hc; exact hc.1
  have hnt := wf_out_not_temp hw ho
  exact partial_only_under_temp r fs0 tr hc o (by simpa using hnt) hq k

/-- crash safety when the output did not exist before: absent or complete, nothing else -/
theorem crash_safe_fresh (r : Roles) (fs0 : FS) (tr : List Op) (hc : Conforms r fs0 tr = true)
    (o : Path) (ho : o ∈ r.outs) (h0 : get fs0 o = none) (k : Nat) :
    get (crash fs0 tr k) o = none ∨ Complete fs0 tr (get (crash fs0 tr k) o) o := by
  rcases crash_safe r fs0 tr hc o ho (by rw [h0]; rfl) k with h | h | h
  · left; rw [h, h0]
  · left; exact h
  · right; exact h

/-- the same after a *failing* operation `k`, i.e. after the handles are closed by the `with`
blocks / `finally` clauses -/
theorem fail_safe (r : Roles) (fs0 : FS) (tr : List Op) (hc : Conforms r fs0 tr = true)
    (o : Path) (ho : o ∈ r.outs) (hq : quiet (get fs0 o) = true) (k : Nat) :
    get (fail fs0 tr k) o = get fs0 o ∨ get (fail fs0 tr k) o = none ∨ Complete fs0 tr (get (fail fs0 tr k) o) o := by
  have hclosed : ∀ v : Option File, quiet v = true →
      v.map (fun f => ({ f with openW := false } : File)) = v := by
    intro v hv
    cases v with
    | none => rfl
    | some f => simp [quiet] at hv; simp [quiet_close_eq hv]
  unfold fail
  rw [get_closeAll]
  rcases crash_safe r fs0 tr hc o ho hq k with h | h | h
  · left; rw [h]; exact hclosed _ hq
  · right; left; rw [h]; rfl
  · right; right
    obtain ⟨h1, f, h2, h3⟩ := h
    have : (get (crash fs0 tr k) o).map (fun f => ({ f with openW := false } : File)) = get (crash fs0 tr k) o :=
      hclosed _ (by rw [h2]; simp [quiet, h3])
    rw [this]
    exact ⟨h1, f, h2, h3⟩

/-- **Inputs are untouched**, at every crash point and after every failure. -/
theorem inputs_untouched (r : Roles) (fs0 : FS) (tr : List Op) (hc : Conforms r fs0 tr = true)
    (i : Path) (hi : i ∈ r.ins) (hq : quiet (get fs0 i) = true) (k : Nat) :
    get (crash fs0 tr k) i = get fs0 i ∧ get (fail fs0 tr k) i = get fs0 i := by
  simp only [Conforms, Bool.and_eq_true] at hc
  have h := frozen r i tr fs0 [] hc.2 (Or.inl (by simpa using hi)) hq k
  refine ⟨h, ?_⟩
  unfold fail
  rw [get_closeAll, show get (crash fs0 tr k) i = get fs0 i from h]
  cases hv : get fs0 i with
  | none => rfl
  | some f => rw [hv] at hq; simp [quiet] at hq; simp [quiet_close_eq hq]

/-- **The output is the finished temporary.**  In a conforming trace the file found at the output
after the run is exactly the file that existed under the temporary name when it was renamed (all
writes precede the rename), and that file was closed. -/
theorem output_is_finished_temp (r : Roles) (fs0 : FS) (pre post : List Op) (t o : Path)
    (hc : Conforms r fs0 (pre ++ .rename t o :: post) = true) :
    get (run fs0 (pre ++ .rename t o :: post)) o = get (run fs0 pre) t ∧
    ∃ f, get (run fs0 pre) t = some f ∧ f.openW = false := by
  simp only [Conforms, Bool.and_eq_true] at hc
  exact renamed_is_temp r fs0 pre post t o hc.2

/-! ### non-vacuity and witnesses -/

/-- paths: 0 = input, 1 = output, 2 = temporary -/
def rolesEx : Roles := { ins := [0], outs := [1], temps := [2] }

/-- initial file system: the input exists, a stale output exists -/
def fsEx : FS := [(0, ⟨[100], false⟩), (1, ⟨[200], false⟩)]

/-- the shape of the recorded trace of `dclab-compress` (unlink stale output, copy into the
temporary, re-open it for the logs, rename) -/
def trCompress : List Op :=
  [.unlink 1, .openRead 0, .create 2, .write 2 1, .write 2 2, .close 2, .close 0,
   .openAppend 2, .write 2 3, .close 2, .rename 2 1]

example : Conforms rolesEx fsEx trCompress = true := by decide
example : get (run fsEx trCompress) 1 = some ⟨[1, 2, 3], false⟩ := by decide
example : get (crash fsEx trCompress 5) 1 = none := by decide

/-- a task that writes directly to the output path does not conform … -/
theorem direct_write_rejected :
    Conforms rolesEx fsEx [.unlink 1, .create 1, .write 1 1, .write 1 2, .close 1] = false := by
  decide

/-- … and indeed exposes a partial file at the output path after a crash at `k = 3` -/
theorem direct_write_unsafe :
    let tr := [Op.unlink 1, .create 1, .write 1 1, .write 1 2, .close 1]
    get (crash fsEx tr 3) 1 = some ⟨[1], true⟩ ∧ get (crash fsEx tr 3) 1 ≠ get (run fsEx tr) 1 := by
  decide

/-- renaming before the temporary is closed, or writing after the rename, does not conform -/
theorem early_rename_rejected :
    Conforms rolesEx fsEx [.create 2, .write 2 1, .rename 2 1, .close 1] = false ∧
    Conforms rolesEx fsEx [.create 2, .write 2 1, .close 2, .rename 2 1, .openAppend 1,
      .write 1 2, .close 1] = false := by
  decide

/-! ### two-run histories -/

/-- **Leftovers do not matter.**  A run that never looks at a temporary before it has removed or
truncated it (`freshFrom`, decidable, evaluated on the recorded traces of re-runs) leaves every
non-temporary path exactly as if the leftover temporaries of an earlier, failed run had not been
there. -/
theorem leftover_independent (r : Roles) (fs0 : FS) (tr : List Op)
    (hf : freshFrom r.temps (absentTemps r fs0) tr = true) (p : Path) (hp : p ∉ r.temps) :
    get (run fs0 tr) p = get (run (eraseTemps r fs0) tr) p :=
  run_agree r.temps tr _ fs0 (eraseTemps r fs0) hf (agree_eraseTemps r fs0) p
    (Or.inl (by simpa using hp))

/-- **Two runs.**  Run 1 (`tr1`) fails at operation `k`; its end state is the initial file system
of run 2 (`tr2`, any trace that conforms from there), which crashes at `j`.  Every output path is
then untouched, absent, or the complete closed result of run 1 or of run 2. -/
theorem two_run_safe (r : Roles) (fs0 : FS) (tr1 tr2 : List Op) (k j : Nat)
    (hc1 : Conforms r fs0 tr1 = true) (hc2 : Conforms r (fail fs0 tr1 k) tr2 = true)
    (o : Path) (ho : o ∈ r.outs) (hq : quiet (get fs0 o) = true) :
    let v := get (crash (fail fs0 tr1 k) tr2 j) o
    v = get fs0 o ∨ v = none ∨
      (∃ f, v = some f ∧ f.openW = false ∧
        (v = get (run fs0 tr1) o ∨ v = get (run (fail fs0 tr1 k) tr2) o)) := by
  intro v
  have h1 := fail_safe r fs0 tr1 hc1 o ho hq k
  have hq1 : quiet (get (fail fs0 tr1 k) o) = true := by
    rcases h1 with h | h | ⟨_, f, hf, hcl⟩
    · rw [h]; exact hq
    · rw [h]; rfl
    · rw [hf]; simp [quiet, hcl]
  rcases crash_safe r (fail fs0 tr1 k) tr2 hc2 o ho hq1 j with h | h | ⟨h2, f, hf, hcl⟩
  · rcases h1 with h' | h' | ⟨h1', f, hf, hcl⟩
    · left; exact h.trans h'
    · right; left; exact h.trans h'
    · right; right; exact ⟨f, h.trans hf, hcl, Or.inl (h.trans h1')⟩
  · right; left; exact h
  · right; right; exact ⟨f, hf, hcl, Or.inr h2⟩

/-- a re-run that inspects a leftover temporary before resetting it is not fresh -/
theorem resume_rejected :
    freshFrom [2] (absentTemps rolesEx [(0, ⟨[100], false⟩), (2, ⟨[1], false⟩)])
      [.openRead 0, .openRead 2, .close 2, .openAppend 2, .write 2 5, .close 2, .rename 2 1] = false ∧
    freshFrom [2] (absentTemps rolesEx [(0, ⟨[100], false⟩), (2, ⟨[1], false⟩)])
      [.unlink 2, .openAppend 2, .write 2 5, .close 2, .rename 2 1] = true := by
  decide

end DclabModel.C10
