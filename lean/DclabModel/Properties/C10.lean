import DclabModel.Lemmas.Cli
import DclabModel.Lemmas.CliTasks
/-!
# C10 — Command-line tasks never leave a partial file at the output path

Property theorems only.  The model (`Model/Cli.lean`, part B) is a file-system automaton over the
operations the tasks perform (`unlink`, `create`, `write`, `close`, `rename`, `openRead`,
`openAppend`); `Conforms` is the decidable protocol "touch only temporaries, rename a closed
temporary onto the output exactly once, never touch either again".  The theorems quantify over
*every* trace, every initial file system and every crash point; the recorded traces of the real
tasks are checked against `Conforms` on every run of the harness.
-/
namespace DclabModel.C10
open DclabModel.Cli

private theorem wf_out_not_temp {r : Roles} (hw : r.wf = true) {o : Path} (ho : o ∈ r.outs) :
    r.temps.contains o = false := by
  simp only [Roles.wf, Bool.and_eq_true, List.all_eq_true] at hw
  cases h : r.temps.contains o with
  | false => rfl
  | true =>
    have := hw.1 o (by simpa using h)
    simp [ho] at this

private theorem wf_in_not_temp {r : Roles} (hw : r.wf = true) {i : Path} (hi : i ∈ r.ins) :
    r.temps.contains i = false := by
  simp only [Roles.wf, Bool.and_eq_true, List.all_eq_true] at hw
  cases h : r.temps.contains i with
  | false => rfl
  | true =>
    have := hw.1 i (by simpa using h)
    simp [hi] at this

/-- **Incomplete data only ever exists under a temporary name.**  For a conforming trace, after
every prefix (crash at any point `k`), every path that is not a temporary and had no writing
handle initially is unchanged, absent, or holds exactly the closed file the successful run leaves
there. -/
theorem partial_only_under_temp (r : Roles) (fs0 : FS) (tr : List Op)
    (hc : Conforms r fs0 tr = true) (p : Path) (hp : p ∉ r.temps) (hq : quiet (get fs0 p) = true)
    (k : Nat) :
    get (crash fs0 tr k) p = get fs0 p ∨ get (crash fs0 tr k) p = none ∨ Complete fs0 tr (get (crash fs0 tr k) p) p := by
  simp only [Conforms, Bool.and_eq_true] at hc
  exact not_temp_safe r p (by simpa using hp) tr fs0 [] hc.2 (by simp) hq k

/-- **Crash safety.**  For a conforming trace and every crash point `k`, every requested output
path is untouched (a closed file that was there before the task started), absent, or complete. -/
theorem crash_safe (r : Roles) (fs0 : FS) (tr : List Op) (hc : Conforms r fs0 tr = true)
    (o : Path) (ho : o ∈ r.outs) (hq : quiet (get fs0 o) = true) (k : Nat) :
    get (crash fs0 tr k) o = get fs0 o ∨ get (crash fs0 tr k) o = none ∨ Complete fs0 tr (get (crash fs0 tr k) o) o := by
  have hw : r.wf = true := by simp only [Conforms, Bool.and_eq_true] at hc; exact hc.1
  have hnt := wf_out_not_temp hw ho
  exact partial_only_under_temp r fs0 tr hc o (by simpa using hnt) hq k

/-- crash safety when the output did not exist before: absent or complete, nothing else -/
theorem crash_safe_fresh (r : Roles) (fs0 : FS) (tr : List Op) (hc : Conforms r fs0 tr = true)
    (o : Path) (ho : o ∈ r.outs) (h0 : get fs0 o = none) (k : Nat) :
    get (crash fs0 tr k) o = none ∨ Complete fs0 tr (get (crash fs0 tr k) o) o := by
  rcases crash_safe r fs0 tr hc o ho (by rw [h0]; rfl) k with h | h | h
  · left; rw [h, h0]
  · left; exact h
  · right; exact h

/-- the same after a *failing* operation `k`, i.e. after the handles are closed by the `with`
blocks / `finally` clauses -/
theorem fail_safe (r : Roles) (fs0 : FS) (tr : List Op) (hc : Conforms r fs0 tr = true)
    (o : Path) (ho : o ∈ r.outs) (hq : quiet (get fs0 o) = true) (k : Nat) :
    get (fail fs0 tr k) o = get fs0 o ∨ get (fail fs0 tr k) o = none ∨ Complete fs0 tr (get (fail fs0 tr k) o) o := by
  have hclosed : ∀ v : Option File, quiet v = true →
      v.map (fun f => ({ f with openW := false } : File)) = v := by
    intro v hv
    cases v with
    | none => rfl
    | some f => simp [quiet] at hv; simp [quiet_close_eq hv]
  unfold fail
  rw [get_closeAll]
  rcases crash_safe r fs0 tr hc o ho hq k with h | h | h
  · left; rw [h]; exact hclosed _ hq
  · right; left; rw [h]; rfl
  · right; right
    obtain ⟨h1, f, h2, h3⟩ := h
    have : (get (crash fs0 tr k) o).map (fun f => ({ f with openW := false } : File)) = get (crash fs0 tr k) o :=
      hclosed _ (by rw [h2]; simp [quiet, h3])
    rw [this]
    exact ⟨h1, f, h2, h3⟩

/-- **Inputs are untouched**, at every crash point and after every failure. -/
theorem inputs_untouched (r : Roles) (fs0 : FS) (tr : List Op) (hc : Conforms r fs0 tr = true)
    (i : Path) (hi : i ∈ r.ins) (hq : quiet (get fs0 i) = true) (k : Nat) :
    get (crash fs0 tr k) i = get fs0 i ∧ get (fail fs0 tr k) i = get fs0 i := by
  simp only [Conforms, Bool.and_eq_true] at hc
  have h := frozen r i tr fs0 [] hc.2 (Or.inl (by simpa using hi)) hq k
  refine ⟨h, ?_⟩
  unfold fail
  rw [get_closeAll, show get (crash fs0 tr k) i = get fs0 i from h]
  cases hv : get fs0 i with
  | none => rfl
  | some f => rw [hv] at hq; simp [quiet] at hq; simp [quiet_close_eq hq]

/-- **The output is the finished temporary.**  In a conforming trace the file found at the output
after the run is exactly the file that existed under the temporary name when it was renamed (all
writes precede the rename), and that file was closed. -/
theorem output_is_finished_temp (r : Roles) (fs0 : FS) (pre post : List Op) (t o : Path)
    (hc : Conforms r fs0 (pre ++ .rename t o :: post) = true) :
    get (run fs0 (pre ++ .rename t o :: post)) o = get (run fs0 pre) t ∧
    ∃ f, get (run fs0 pre) t = some f ∧ f.openW = false := by
  simp only [Conforms, Bool.and_eq_true] at hc
  exact renamed_is_temp r fs0 pre post t o hc.2

/-! ### non-vacuity and witnesses -/

/-- paths: 0 = input, 1 = output, 2 = temporary -/
def rolesEx : Roles := { ins := [0], outs := [1], temps := [2] }

/-- initial file system: the input exists, a stale output exists -/
def fsEx : FS := [(0, ⟨[100], false⟩), (1, ⟨[200], false⟩)]

/-- the shape of the recorded trace of `dclab-compress` (unlink stale output, copy into the
temporary, re-open it for the logs, rename) -/
def trCompress : List Op :=
  [.unlink 1, .openRead 0, .create 2, .write 2 1, .write 2 2, .close 2, .close 0,
   .openAppend 2, .write 2 3, .close 2, .rename 2 1]

example : Conforms rolesEx fsEx trCompress = true := by decide
example : get (run fsEx trCompress) 1 = some ⟨[1, 2, 3], false⟩ := by decide
example : get (crash fsEx trCompress 5) 1 = none := by decide

/-- a task that writes directly to the output path does not conform … -/
theorem direct_write_rejected :
    Conforms rolesEx fsEx [.unlink 1, .create 1, .write 1 1, .write 1 2, .close 1] = false := by
  decide

/-- … and indeed exposes a partial file at the output path after a crash at `k = 3` -/
theorem direct_write_unsafe :
    let tr := [Op.unlink 1, .create 1, .write 1 1, .write 1 2, .close 1]
    get (crash fsEx tr 3) 1 = some ⟨[1], true⟩ ∧ get (crash fsEx tr 3) 1 ≠ get (run fsEx tr) 1 := by
  decide

/-- renaming before the temporary is closed, or writing after the rename, does not conform -/
theorem early_rename_rejected :
    Conforms rolesEx fsEx [.create 2, .write 2 1, .rename 2 1, .close 1] = false ∧
    Conforms rolesEx fsEx [.create 2, .write 2 1, .close 2, .rename 2 1, .openAppend 1,
      .write 1 2, .close 1] = false := by
  decide

/-! ### the window between rename and close -/

/-- **A published file is never open.**  In a conforming trace no crash point sees a writing handle
on an output path: the rename happens only after the temporary was closed, and the output is never
opened for writing afterwards. -/
theorem output_never_open (r : Roles) (fs0 : FS) (tr : List Op) (hc : Conforms r fs0 tr = true)
    (o : Path) (ho : o ∈ r.outs) (hq : quiet (get fs0 o) = true) (k : Nat) :
    quiet (get (crash fs0 tr k) o) = true := by
  rcases crash_safe r fs0 tr hc o ho hq k with h | h | ⟨_, f, hf, hcl⟩
  · rw [h]; exact hq
  · rw [h]; rfl
  · rw [hf]; simp [quiet, hcl]

/-- **After the rename nothing can go wrong.**  Every crash point behind `rename t o` (a kill
immediately after the rename, or at any later operation of the task) sees the complete, closed file
at `o` — the same file the successful run leaves there. -/
theorem complete_after_rename (r : Roles) (fs0 : FS) (pre post : List Op) (t o : Path)
    (hc : Conforms r fs0 (pre ++ .rename t o :: post) = true) (k : Nat) (hk : pre.length < k) :
    Complete fs0 (pre ++ .rename t o :: post)
      (get (crash fs0 (pre ++ .rename t o :: post) k) o) o := by
  obtain ⟨hfin, f, hf, hcl⟩ := output_is_finished_temp r fs0 pre post t o hc
  simp only [Conforms, Bool.and_eq_true] at hc
  obtain ⟨dead', h'⟩ := conformsFrom_append r pre fs0 [] _ hc.2
  simp only [conformsFrom, Bool.and_eq_true] at h'
  have hs : get (step (run fs0 pre) (.rename t o)) o = some f := by simp [step, hf, get_upd]
  have hfz := frozen r o post _ _ h'.2 (Or.inr (by simp [deadAfter])) (by rw [hs]; simp [quiet, hcl])
  have hk' : k = pre.length + 1 + (k - pre.length - 1) := by omega
  have hcr : get (crash fs0 (pre ++ .rename t o :: post) k) o = some f := by
    unfold crash
    rw [hk', List.take_append, List.take_of_length_le (by omega)]
    have : pre.length + 1 + (k - pre.length - 1) - pre.length = (k - pre.length - 1) + 1 := by omega
    rw [this, List.take_succ_cons, run_append, run_cons, hfz, hs]
  rw [hcr]
  exact ⟨by rw [hfin, hf], f, rfl, hcl⟩

/-- a rename while the writing handle is still open (the file would be published before HDF5 has
flushed and closed it) is rejected, whatever follows -/
theorem open_rename_rejected (r : Roles) (fs0 : FS) (pre post : List Op) (t o : Path) (f : File)
    (hf : get (run fs0 pre) t = some f) (ho : f.openW = true) :
    Conforms r fs0 (pre ++ .rename t o :: post) = false := by
  cases h : Conforms r fs0 (pre ++ .rename t o :: post) with
  | false => rfl
  | true =>
    obtain ⟨_, g, hg, hcl⟩ := output_is_finished_temp r fs0 pre post t o h
    rw [hf] at hg
    cases hg
    rw [ho] at hcl
    cases hcl

/-- **A refused invocation touches nothing.**  When the output or the temporary path coincides
with an input (roles that are not `wf`; F29, F64) the task must stop before any mutation; such a
trace leaves every path — whatever its role — exactly as it was, at every crash point and after
the clean-up. -/
theorem refused_untouched (fs0 : FS) (tr : List Op) (h : nonMutating tr = true) (p : Path)
    (hq : quiet (get fs0 p) = true) (k : Nat) :
    get (crash fs0 tr k) p = get fs0 p ∧ get (fail fs0 tr k) p = get fs0 p := by
  have hall : ∀ op ∈ tr.take k, mutated op = [] := by
    intro op hop
    have := List.all_eq_true.mp h op (List.mem_of_mem_take hop)
    simpa using this
  have hc : get (crash fs0 tr k) p = get fs0 p := run_nonMutating p _ fs0 hall hq
  refine ⟨hc, ?_⟩
  unfold fail
  rw [get_closeAll, hc]
  cases hv : get fs0 p with
  | none => rfl
  | some f => rw [hv] at hq; simp [quiet] at hq; simp [quiet_close_eq hq]

/-- the F64 shape: the temporary path *is* the input — no well-formed role assignment exists, and
the old behaviour (unlink the "stale temporary") destroys the input -/
theorem temp_is_input_witness :
    (roles1 [0] 1 0).wf = false ∧
    get (crash [(0, ⟨[100], false⟩)] [.unlink 0, .openRead 0] 1) 0 = none ∧
    nonMutating [.unlink 0, .openRead 0] = false ∧ nonMutating ([] : List Op) = true := by
  decide

/-! ### task templates: the traces the tasks are expected to produce, for all parameter values -/

private theorem all_local {r : Roles} {pre : List Op} (h : pre.all (localOk r) = true) :
    ∀ op ∈ pre, localOk r op = true := by
  simpa [List.all_eq_true] using h

private theorem keeps_writes (t : Path) (n : Nat) : ∀ op ∈ writes t n, keeps t op = true :=
  fun op h => by rw [mem_writes h]; rfl

/-- **condense / repack template.**  For every number of writes, stale-file situation and initial
file system the template satisfies the protocol. -/
theorem copy_template_conforms (i o t : Path) (so st : Bool) (n : Nat) (fs0 : FS)
    (hw : (roles1 [i] o t).wf = true) :
    Conforms (roles1 [i] o t) fs0 (copyTrace i o t so st n) = true := by
  unfold copyTrace
  apply single_output_conforms _ hw t o (by simp [roles1]) (by simp [roles1])
  · apply all_local
    cases so <;> cases st <;>
      simp [setup1, setupOps, session, writes, localOk, roles1, List.all_replicate]
  · exact closedAt_after_session fs0 t _ [.close i] (.create t) (Or.inl rfl) _ (keeps_writes t n)
      (by simp [mutated])

/-- **compress template** -/
theorem compress_template_conforms (i o t : Path) (so st : Bool) (n1 n2 : Nat) (fs0 : FS)
    (hw : (roles1 [i] o t).wf = true) :
    Conforms (roles1 [i] o t) fs0 (compressTrace i o t so st n1 n2) = true := by
  unfold compressTrace
  apply single_output_conforms _ hw t o (by simp [roles1]) (by simp [roles1])
  · apply all_local
    cases so <;> cases st <;>
      simp [setup1, setupOps, session, writes, localOk, roles1, List.all_replicate]
  · have := closedAt_after_session fs0 t
      (setup1 so st o t ++ [.openRead i] ++ session (.create t) t (writes t n1) ++ [.close i]) []
      (.openAppend t) (Or.inr rfl) _ (keeps_writes t n2) (by simp)
    simpa using this

/-- **join template**: any list of inputs, any sequence of probed files, any number of appended
inputs and of writes -/
theorem join_template_conforms (ins probes : List Path) (first o t : Path) (so st : Bool)
    (n0 n1 : Nat) (segs : List Seg) (fs0 : FS) (hw : (roles1 ins o t).wf = true) :
    Conforms (roles1 ins o t) fs0 (joinTrace probes first o t so st n0 n1 segs) = true := by
  unfold joinTrace
  apply single_output_conforms _ hw t o (by simp [roles1]) (by simp [roles1])
  · apply all_local
    cases so <;> cases st <;>
      simp [setup1, setupOps, session, segOps, writes, localOk, roles1, List.all_replicate,
        List.all_flatMap]
  · have := closedAt_after_session fs0 t
      (setup1 so st o t ++ probes.flatMap (fun p => [.openRead p, .close p]) ++ [.openRead first] ++
        session (.openAppend t) t (writes t n0) ++ [.close first]) []
      (.openAppend t) (Or.inr rfl) (writes t n1 ++ segs.flatMap (segOps t)) ?_ (by simp)
    · simpa using this
    · intro op h
      rw [List.mem_append] at h
      rcases h with h | h
      · exact keeps_writes t n1 op h
      · obtain ⟨s, _, hs⟩ := List.mem_flatMap.mp h
        simp only [segOps, List.mem_cons, List.mem_append] at hs
        rcases hs with (e | h') | e | h'
        · subst e; rfl
        · exact keeps_writes t _ op h'
        · subst e; rfl
        · exact keeps_writes t _ op h'

/-- **split template**, for every number of parts (induction over the parts) and of writes per part:
all exports, then all log sessions, then all renames -/
theorem split_template_conforms (i : Path) (aux : List Path) (parts : List Part) (fs0 : FS)
    (hw : (rolesParts [i] parts).wf = true) (hd : parts.Pairwise Part.apart) :
    Conforms (rolesParts [i] parts) fs0 (splitTrace i aux parts) = true := by
  have hmem : ∀ pt ∈ parts, (rolesParts [i] parts).temps.contains pt.t = true ∧
      (rolesParts [i] parts).outs.contains pt.o = true := by
    intro pt hpt
    simp only [rolesParts, List.contains_eq_mem, List.mem_map, decide_eq_true_eq]
    exact ⟨⟨pt, hpt, rfl⟩, ⟨pt, hpt, rfl⟩⟩
  unfold splitTrace
  simp only [Conforms, hw, Bool.true_and]
  rw [conformsFrom_local_append _ hw []]
  · apply conforms_renames _ hw _ _ _ hd
    intro pt hpt
    refine ⟨?_, (hmem pt hpt).1, (hmem pt hpt).2, rfl, rfl⟩
    rw [run_append]
    exact closedAt_blocks logBlock isSession_logBlock parts _
      (hd.imp (fun h => h.1)) pt hpt
  · intro op hop
    refine ⟨?_, by simp⟩
    simp only [List.mem_append, List.mem_cons, List.mem_map, List.mem_flatMap, List.mem_reverse,
      List.not_mem_nil, or_false] at hop
    have hblock : ∀ pt ∈ parts, ∀ n, op ∈ session (.openAppend pt.t) pt.t (writes pt.t n) →
        localOk (rolesParts [i] parts) op = true := by
      intro pt hpt n h
      simp only [session, List.mem_cons, List.mem_append, List.not_mem_nil, or_false] at h
      rcases h with (e | h) | e
      · subst e; exact (hmem pt hpt).1
      · rw [mem_writes h]; exact (hmem pt hpt).1
      · subst e; rfl
    rcases hop with (((e | ⟨p, _, e⟩) | ⟨pt, hpt, h⟩) | (⟨p, _, e⟩ | e)) | ⟨pt, hpt, h⟩
    · subst e; rfl
    · subst e; rfl
    · exact hblock pt hpt _ h
    · subst e; rfl
    · subst e; rfl
    · exact hblock pt hpt _ h

/-- **tdms2rtdc template**, for every number of converted files: stale outputs and temporaries are
unlinked, then file after file is exported, gets its logs and is renamed -/
theorem tdms_template_conforms (ins staleOuts staleTemps : List Path) (parts : List Part) (fs0 : FS)
    (hw : (rolesParts ins parts).wf = true) (hd : parts.Pairwise Part.apart)
    (hso : ∀ p ∈ staleOuts, p ∈ parts.map (·.o)) (hst : ∀ p ∈ staleTemps, p ∈ parts.map (·.t)) :
    Conforms (rolesParts ins parts) fs0 (tdmsTrace staleOuts staleTemps parts) = true := by
  unfold tdmsTrace
  simp only [Conforms, hw, Bool.true_and]
  rw [conformsFrom_local_append _ hw []]
  · apply conforms_files _ hw _ _ _ hd
    intro pt hpt
    simp only [rolesParts, List.contains_eq_mem, List.mem_map, decide_eq_true_eq]
    exact ⟨⟨pt, hpt, rfl⟩, ⟨pt, hpt, rfl⟩, rfl, rfl⟩
  · intro op hop
    refine ⟨?_, by simp⟩
    simp only [setupOps, List.mem_append, List.mem_map] at hop
    rcases hop with ⟨p, hp, e⟩ | ⟨p, hp, e⟩ <;> subst e
    · have := hso p hp
      simp only [localOk, rolesParts, Bool.or_eq_true, List.contains_eq_mem, decide_eq_true_eq]
      exact Or.inr this
    · have := hst p hp
      simp only [localOk, rolesParts, Bool.or_eq_true, List.contains_eq_mem, decide_eq_true_eq]
      exact Or.inl this

/-- the templates with one output never look at a leftover temporary: either `setup_task_paths`
unlinks it (`st`) or there is none -/
theorem single_templates_fresh (ins : List Path) (i o t first : Path) (so st : Bool)
    (n n1 n2 : Nat) (probes : List Path) (segs : List Seg) (fs0 : FS)
    (h : st = true ∨ get fs0 t = none) :
    freshFrom [t] (absentTemps (roles1 ins o t) fs0) (copyTrace i o t so st n) = true ∧
    freshFrom [t] (absentTemps (roles1 ins o t) fs0) (compressTrace i o t so st n1 n2) = true ∧
    freshFrom [t] (absentTemps (roles1 ins o t) fs0)
      (joinTrace probes first o t so st n n1 segs) = true := by
  have known : ∀ rest : List Op,
      freshFrom [t] (absentTemps (roles1 ins o t) fs0) (setup1 so st o t) = true ∧
      (absentTemps (roles1 ins o t) fs0 ++ (setup1 so st o t).flatMap resets).contains t = true := by
    intro _
    constructor
    · apply freshFrom_of_known
      intro op hop p hp _
      cases so <;> cases st <;> simp [setup1, setupOps] at hop <;>
        (try (rcases hop with e | e)) <;> subst_vars <;> simp [reads] at hp
    · rcases h with h | h
      · subst h
        cases so <;> simp [setup1, setupOps, resets]
      · simp [absentTemps, roles1, h]
  have fresh : ∀ rest : List Op, freshFrom [t] (absentTemps (roles1 ins o t) fs0)
      (setup1 so st o t ++ rest) = true := by
    intro rest
    rw [freshFrom_append, (known rest).1, Bool.true_and]
    apply freshFrom_of_known
    intro op _ p _ hp
    have : p = t := by simpa using hp
    subst this
    exact (known rest).2
  refine ⟨?_, ?_, ?_⟩
  · have := fresh ([.openRead i] ++ session (.create t) t (writes t n) ++ [.close i] ++ [.rename t o])
    simpa [copyTrace, List.append_assoc] using this
  · have := fresh ([.openRead i] ++ session (.create t) t (writes t n1) ++ [.close i] ++
      session (.openAppend t) t (writes t n2) ++ [.rename t o])
    simpa [compressTrace, List.append_assoc] using this
  · have := fresh (probes.flatMap (fun p => [.openRead p, .close p]) ++ [.openRead first] ++
      session (.openAppend t) t (writes t n) ++ [.close first] ++
      session (.openAppend t) t (writes t n1 ++ segs.flatMap (segOps t)) ++ [.rename t o])
    simpa [joinTrace, List.append_assoc] using this

/-- split does not remove leftovers (the export refuses an existing temporary): it is fresh when no
temporary exists -/
theorem split_template_fresh (i : Path) (aux : List Path) (parts : List Part) (fs0 : FS)
    (h : ∀ pt ∈ parts, get fs0 pt.t = none) :
    freshFrom (rolesParts [i] parts).temps (absentTemps (rolesParts [i] parts) fs0)
      (splitTrace i aux parts) = true := by
  apply freshFrom_of_known
  intro op _ p _ hp
  simp only [rolesParts, List.contains_eq_mem, List.mem_map, decide_eq_true_eq] at hp
  obtain ⟨pt, hpt, e⟩ := hp
  subst e
  simp only [absentTemps, rolesParts, List.contains_eq_mem, List.mem_filter, List.mem_map,
    decide_eq_true_eq]
  exact ⟨⟨pt, hpt, rfl⟩, by simp [h pt hpt]⟩

/-- consequence for every instance: whatever the number of parts and writes, at every crash point
every part of a split is absent, the previous file, or complete -/
theorem split_template_crash_safe (i : Path) (aux : List Path) (parts : List Part) (fs0 : FS)
    (hw : (rolesParts [i] parts).wf = true) (hd : parts.Pairwise Part.apart)
    (pt : Part) (hpt : pt ∈ parts) (hq : quiet (get fs0 pt.o) = true) (k : Nat) :
    let v := get (crash fs0 (splitTrace i aux parts) k) pt.o
    v = get fs0 pt.o ∨ v = none ∨ Complete fs0 (splitTrace i aux parts) v pt.o :=
  crash_safe _ fs0 _ (split_template_conforms i aux parts fs0 hw hd) pt.o
    (List.mem_map.mpr ⟨pt, hpt, rfl⟩) hq k

/-- **Instances inherit the verdict of their template.**  The protocol never looks at write ids, so
a recorded trace that is an instance of a template (`instanceOf`, decided by the driver for every
recorded trace of a successful run) conforms iff the template does — with the template theorems
above: it conforms. -/
theorem instance_conforms (r : Roles) (fs0 : FS) (tmpl tr : List Op)
    (h : instanceOf tmpl tr = true) : Conforms r fs0 tr = Conforms r fs0 tmpl := by
  have he : tmpl = eraseIds tr := by
    unfold instanceOf at h
    cases hd : firstDiff tmpl (eraseIds tr) 0 with
    | none => exact firstDiff_none _ _ _ hd
    | some k => simp [hd] at h
  simp only [Conforms, he]
  rw [conformsFrom_eraseIds r tr fs0 fs0 [] (fun _ => rfl)]

/-- e.g. every trace that is an instance of the split template — whatever the number of parts and
writes — is crash safe -/
theorem split_instance_conforms (i : Path) (aux : List Path) (parts : List Part) (fs0 : FS)
    (hw : (rolesParts [i] parts).wf = true) (hd : parts.Pairwise Part.apart) (tr : List Op)
    (h : instanceOf (splitTrace i aux parts) tr = true) :
    Conforms (rolesParts [i] parts) fs0 tr = true := by
  rw [instance_conforms _ _ _ _ h]
  exact split_template_conforms i aux parts fs0 hw hd

/-- the templates are not vacuous: the recorded shape `trCompress` is an instance, and a trace that
publishes early is not -/
example : instanceOf (compressTrace 0 1 2 true false 2 1) trCompress = true := by decide
example : instanceOf (splitTrace 0 [] [⟨3, 1, 1, 1⟩, ⟨4, 2, 2, 1⟩])
    [.openRead 0, .openAppend 3, .write 3 1, .close 3, .openAppend 4, .write 4 2, .write 4 3,
     .close 4, .close 0, .openAppend 3, .write 3 4, .close 3, .openAppend 4, .write 4 5, .close 4,
     .rename 3 1, .rename 4 2] = true := by decide
example : instanceOf (copyTrace 0 1 2 false false 1)
    [.openRead 0, .create 2, .write 2 1, .rename 2 1, .close 1, .close 0] = false := by decide

/-! ### two-run histories -/

/-- **Leftovers do not matter.**  A run that never looks at a temporary before it has removed or
truncated it (`freshFrom`, decidable, evaluated on the recorded traces of re-runs) leaves every
non-temporary path exactly as if the leftover temporaries of an earlier, failed run had not been
there. -/
theorem leftover_independent (r : Roles) (fs0 : FS) (tr : List Op)
    (hf : freshFrom r.temps (absentTemps r fs0) tr = true) (p : Path) (hp : p ∉ r.temps) :
    get (run fs0 tr) p = get (run (eraseTemps r fs0) tr) p :=
  run_agree r.temps tr _ fs0 (eraseTemps r fs0) hf (agree_eraseTemps r fs0) p
    (Or.inl (by simpa using hp))

/-- **Two runs.**  Run 1 (`tr1`) fails at operation `k`; its end state is the initial file system
of run 2 (`tr2`, any trace that conforms from there), which crashes at `j`.  Every output path is
then untouched, absent, or the complete closed result of run 1 or of run 2. -/
theorem two_run_safe (r : Roles) (fs0 : FS) (tr1 tr2 : List Op) (k j : Nat)
    (hc1 : Conforms r fs0 tr1 = true) (hc2 : Conforms r (fail fs0 tr1 k) tr2 = true)
    (o : Path) (ho : o ∈ r.outs) (hq : quiet (get fs0 o) = true) :
    let v := get (crash (fail fs0 tr1 k) tr2 j) o
    v = get fs0 o ∨ v = none ∨
      (∃ f, v = some f ∧ f.openW = false ∧
        (v = get (run fs0 tr1) o ∨ v = get (run (fail fs0 tr1 k) tr2) o)) := by
  intro v
  have h1 := fail_safe r fs0 tr1 hc1 o ho hq k
  have hq1 : quiet (get (fail fs0 tr1 k) o) = true := by
    rcases h1 with h | h | ⟨_, f, hf, hcl⟩
    · rw [h]; exact hq
    · rw [h]; rfl
    · rw [hf]; simp [quiet, hcl]
  rcases crash_safe r (fail fs0 tr1 k) tr2 hc2 o ho hq1 j with h | h | ⟨h2, f, hf, hcl⟩
  · rcases h1 with h' | h' | ⟨h1', f, hf, hcl⟩
    · left; exact h.trans h'
    · right; left; exact h.trans h'
    · right; right; exact ⟨f, h.trans hf, hcl, Or.inl (h.trans h1')⟩
  · right; left; exact h
  · right; right; exact ⟨f, hf, hcl, Or.inr h2⟩

/-- a re-run that inspects a leftover temporary before resetting it is not fresh -/
theorem resume_rejected :
    freshFrom [2] (absentTemps rolesEx [(0, ⟨[100], false⟩), (2, ⟨[1], false⟩)])
      [.openRead 0, .openRead 2, .close 2, .openAppend 2, .write 2 5, .close 2, .rename 2 1] = false ∧
    freshFrom [2] (absentTemps rolesEx [(0, ⟨[100], false⟩), (2, ⟨[1], false⟩)])
      [.unlink 2, .openAppend 2, .write 2 5, .close 2, .rename 2 1] = true := by
  decide

end DclabModel.C10
