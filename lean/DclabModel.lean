-- Root of the `DclabModel` library: every model and property module is listed here
-- so that a plain `lake build` re-checks all proof obligations.
import DclabModel.AuditCmd
import DclabModel.DriveUtil
import DclabModel.Properties.C19
import DclabModel.Properties.C17
import DclabModel.Properties.C15
import DclabModel.Properties.C03
import DclabModel.Properties.C16
import DclabModel.Properties.C04
import DclabModel.Properties.C18
import DclabModel.Properties.C01
import DclabModel.Properties.C20
import DclabModel.Properties.C11
import DclabModel.Properties.C02
import DclabModel.Properties.C12
import DclabModel.Properties.C06
import DclabModel.Properties.C09
import DclabModel.Properties.C10
import DclabModel.Properties.C08
import DclabModel.Properties.C13
import DclabModel.Properties.C07
import DclabModel.Properties.C14
import DclabModel.Properties.C05
