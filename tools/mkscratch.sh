#!/bin/bash
# usage: mkscratch.sh <name>   -> /tmp/vw/<name> (worktree of /verif, branch wip-<name>)
#                                 /tmp/rw/<name> (worktree of /repo,  branch wip-<name>, with the
#                                 untracked compiled extension modules and _version.py copied in)
set -e
n=$1
mkdir -p /tmp/vw /tmp/rw
git -C /verif worktree add -q -b wip-$n /tmp/vw/$n HEAD
git -C /repo worktree add -q -b wip-$n /tmp/rw/$n HEAD
cd /repo
git ls-files --others --ignored --exclude-standard | grep -E '\.so$|_version\.py$' | while read f; do
  mkdir -p /tmp/rw/$n/$(dirname $f); cp $f /tmp/rw/$n/$f; done
# start from a copy of the current lean build (lake traces are content-based)
[ -d /verif/lean/.lake ] && cp -r /verif/lean/.lake /tmp/vw/$n/lean/.lake
echo "/tmp/vw/$n /tmp/rw/$n"
