#!/bin/bash
# usage: eval_round.sh <outdir> <Cxx> [tier]  — evaluate every candidate <outdir>/<Cxx>/<N>/ concurrently;
# log in .work/round/<Cxx>.log
out=$1; p=$2; tier=${3:-quick}
mkdir -p /verif/.work/round
for d in $out/$p/[0-9]*; do
  [ -f $d/patch.diff ] || continue
  ( /verif/tools/eval_candidate.sh $d $tier > /verif/.work/round/$p-$(basename $d).log 2>&1 ) &
done
wait
cat /verif/.work/round/$p-*.log | grep -E "^CONFIRM|^CAUGHT|^MISSED|^INFRA|VIOLATION|patch does not" | cut -c1-300
