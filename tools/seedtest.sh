#!/bin/bash
# usage: seedtest.sh <seeded-dir> [tier]    e.g. tools/seedtest.sh seeded/C19-1
# applies seeded/<id>/patch.diff to /repo, runs the check of the property named in meta.json,
# reverts /repo, prints CAUGHT/MISSED.  /repo must be clean before.
set -u
d=$(realpath $1); tier=${2:-quick}
prop=$(python3 -c "import json,sys;print(json.load(open('$d/meta.json'))['property'])")
if [ -n "$(git -C /repo status --porcelain)" ]; then echo "repo not clean"; exit 2; fi
git -C /repo apply "$d/patch.diff" || { echo "patch does not apply"; exit 2; }
cp /verif/evidence/$prop.json /tmp/evidence_$prop.bak 2>/dev/null
out=$(cd /verif && ./check $prop --tier $tier 2>&1); rc=$?
git -C /repo checkout -- . 
# evidence files in /verif must come from runs on the unchanged tree: restore
[ -f /tmp/evidence_$prop.bak ] && mv /tmp/evidence_$prop.bak /verif/evidence/$prop.json
echo "$out" | grep -E "VIOLATION|KNOWN-FINDING|INFRA|tier=" | cut -c1-220
if [ $rc -eq 1 ]; then echo "CAUGHT $d ($prop, $tier)"; elif [ $rc -eq 0 ]; then echo "MISSED $d ($prop, $tier)"; else echo "INFRA-ERROR $d rc=$rc"; echo "$out" | tail -5; fi
