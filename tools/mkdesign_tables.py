#!/usr/bin/env python3
"""Regenerate the machine-written blocks of DESIGN.md:
   <!-- BEGIN findings --> … <!-- END findings -->   from known_findings.json
   <!-- BEGIN seeded --> … <!-- END seeded -->       from seeded/*/meta.json"""
import json, pathlib, re, glob
root = pathlib.Path(__file__).resolve().parent.parent
kf = json.loads((root / "known_findings.json").read_text())["findings"]
rows = ["| id | property | status | commit in /repo | what |", "|---|---|---|---|---|"]
for f in kf:
    what = re.sub(r"^fixed: property=\S+ \S+ ", "", f["what"]).replace("|", "\\|")
    rows.append(f"| {f['id']} | {f['property']} | {f['status']} | {f.get('commit') or '–'} | {what} |")
findings = "\n".join(rows)
rows = ["| seeded change | property | what it needs to manifest | result |", "|---|---|---|---|"]
def k(p):
    m = re.match(r".*/(C\d+)-(\d+)$", p); return (m.group(1), int(m.group(2)))
for d in sorted(glob.glob(str(root / "seeded" / "C*-*")), key=k):
    m = json.loads(open(d + "/meta.json").read())
    res = (m.get("confirmed") or {}).get("result", "not yet evaluated")
    need = str(m.get("needs_to_manifest", "")).replace("|", "\\|").replace("\n", " ")[:260]
    rows.append(f"| {pathlib.Path(d).name} | {m['property']} | {need} | {res} |")
seeded = "\n".join(rows)
notes = []
for f in sorted((root / "design_notes").glob("C*.md")):
    notes.append(f.read_text().strip())
asbuilt = "\n\n".join(notes)
import ast
rows = ["| property | theorems audited | not proved / correspondence-only (from the harness constant NOT_PROVED) |", "|---|---|---|"]
for f in sorted((root / "harness").glob("c[0-9][0-9].py")):
    pid = f.stem.upper()
    items = []
    try:
        for node in ast.parse(f.read_text()).body:
            if isinstance(node, ast.Assign) and any(getattr(t, "id", "") == "NOT_PROVED" for t in node.targets):
                items = ast.literal_eval(node.value)
    except Exception as e:
        items = [f"(could not parse: {e})"]
    n = "?"
    ev = root / "evidence" / f"{pid}.json"
    if ev.exists():
        c = json.loads(ev.read_text())["coverage"]
        n = f"{c.get('discharged', '?')}/{c.get('obligations', '?')}"
    txt = "; ".join(str(i).replace("|", "\\|").replace("\n", " ") for i in items) or "–"
    rows.append(f"| {pid} | {n} | {txt} |")
notproved = "\n".join(rows)
rows = ["| benign change | written for | what was changed (behaviour preserved) | checks run: first evaluation | latest |", "|---|---|---|---|---|"]
def kb(pp):
    m = re.match(r".*/(C\d+)-(\d+)$", pp); return (m.group(1), int(m.group(2)))
for d in sorted(glob.glob(str(root / "benign" / "C*-*")), key=kb):
    m = json.loads(open(d + "/meta.json").read())
    ev = m.get("evaluation", {})
    fmt = lambda r: ", ".join(f"{k}: {v}" for k, v in sorted((r or {}).items())) or "–"
    what = str(m.get("summary", "")).replace("|", "\\|").replace("\n", " ")[:300]
    rows.append(f"| {pathlib.Path(d).name} | {m['property']} | {what} | {fmt(ev.get('first'))} | {fmt(ev.get('latest'))} |")
benign = "\n".join(rows)
p = root / "DESIGN.md"
s = p.read_text()
for tag, body in (("findings", findings), ("seeded", seeded), ("asbuilt", asbuilt), ("notproved", notproved), ("benign", benign)):
    pat = re.compile(rf"(<!-- BEGIN {tag} -->).*?(<!-- END {tag} -->)", re.S)
    assert pat.search(s), tag
    s = pat.sub(lambda mm, body=body: mm.group(1) + "\n" + body + "\n" + mm.group(2), s)
p.write_text(s)
print("DESIGN.md tables regenerated")
