#!/bin/bash
# usage: benign_eval.sh <dir-with-patch.diff-and-meta.json> [tier] [seed]
# A behaviour-preserving change must keep every check quiet.  Applies the patch to a scratch worktree
# of /repo HEAD and runs, in a scratch copy of the framework (VERIF_SRC, default /verif), the quick
# check of the patch's own property and of every property anchored in a file the patch touches
# (tools/anchor_map.json).  Prints QUIET/ALARM/INFRA per check.  Touches neither /repo nor /verif.
# BENIGN_ONLY_OWN=1 restricts the run to the check of the patch's own property.
set -u
d=$(realpath $1); tier=${2:-quick}; seed=${3:-0}
n=b-$(basename $(dirname $d))-$(basename $d)-$$
base=/tmp/iso/$n; mkdir -p $base
git -C /repo worktree add -q --detach $base/repo HEAD || exit 2
(cd /repo && git ls-files --others --ignored --exclude-standard | grep -E '\.so$|_version\.py$' | while read f; do mkdir -p $base/repo/$(dirname $f); cp $f $base/repo/$f; done)
git -C $base/repo apply "$d/patch.diff" || { echo "patch does not apply: $d"; git -C /repo worktree remove --force $base/repo; rm -rf $base; exit 2; }
rsync -a --exclude .git --exclude .work --exclude 'evidence/replays' ${VERIF_SRC:-/verif}/ $base/verif/
props=$(python3 - "$d" <<'EOF'
import json, sys, pathlib
d = pathlib.Path(sys.argv[1])
m = json.load(open("/verif/tools/anchor_map.json"))
meta = json.load(open(d / "meta.json"))
ps = {meta["property"]}
for line in open(d / "patch.diff"):
    if line.startswith("+++ b/"):
        ps |= set(m.get(line[6:].strip(), []))
print(" ".join(sorted(ps)))
EOF
)
[ -n "${BENIGN_ONLY_OWN:-}" ] && props=$(python3 -c "import json;print(json.load(open(\"$d/meta.json\"))[\"property\"])")
for prop in $props; do
  out=$(cd $base/verif && DCLAB_REPO=$base/repo VERIF_SEED=$seed ./check $prop --tier $tier 2>&1); rc=$?
  if [ $rc -eq 0 ]; then echo "QUIET $d $prop"; elif [ $rc -eq 1 ]; then echo "ALARM $d $prop"; echo "$out" | grep -E "VIOLATION" | cut -c1-200
    for f in $base/verif/evidence/replays/$prop-*.json; do [ -f "$f" ] && { echo "--- $(basename $f)"; head -c 600 $f | tr '\n' ' '; echo; }; done
  else echo "INFRA $d $prop rc=$rc"; echo "$out" | tail -6; fi
done
git -C /repo worktree remove --force $base/repo
rm -rf $base
