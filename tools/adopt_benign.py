#!/usr/bin/env python3
"""adopt_benign.py <outdir> <label> <result files of tools/benign_round.sh ...>
Copy behaviour-preserving changes written by blind sub-agents into benign/Cxx-<n>/ (patch.diff,
meta.json) and record which checks stayed quiet / raised a (false) alarm."""
import json, pathlib, re, shutil, sys, collections
root = pathlib.Path(__file__).resolve().parent.parent
outdir, label = pathlib.Path(sys.argv[1]), sys.argv[2]
ben = root / "benign"; ben.mkdir(exist_ok=True)
existing = {}
for m in ben.glob("*/meta.json"):
    d = json.loads(m.read_text()); existing[d.get("origin")] = m.parent
res = collections.defaultdict(dict)
for rf in sys.argv[3:]:
    for line in open(rf):
        m = re.match(r"(QUIET|ALARM|INFRA) (\S+) (C\d+)", line)
        if m:
            res[m.group(2)][m.group(3)] = m.group(1)
        m = re.match(r"patch does not apply: (\S+)", line)
        if m:
            res[m.group(1)]["-"] = "patch does not apply to /repo HEAD"
for cand, r in sorted(res.items()):
    c = pathlib.Path(cand)
    meta = json.loads((c / "meta.json").read_text())
    prop = meta["property"]; origin = f"{label}:{prop}/{c.name}"
    dst = existing.get(origin)
    if dst is None:
        nums = [int(p.name.split("-")[1]) for p in ben.glob(f"{prop}-*")]
        dst = ben / f"{prop}-{max(nums + [0]) + 1}"; dst.mkdir(); existing[origin] = dst
    shutil.copy(c / "patch.diff", dst / "patch.diff")
    old = json.loads((dst / "meta.json").read_text()) if (dst / "meta.json").exists() else {}
    meta["origin"] = origin
    ev = old.get("evaluation", {})
    ev.setdefault("first", r)
    ev["latest"] = r
    meta["evaluation"] = ev
    (dst / "meta.json").write_text(json.dumps(meta, indent=1))
    print(dst.name, r)
