#!/usr/bin/env python3
"""record_seed.py <evalseeds log> [note]: update seeded/*/meta.json from confirm/seedtest lines"""
import json, re, sys, pathlib
root = pathlib.Path(__file__).resolve().parent.parent
note = sys.argv[2] if len(sys.argv) > 2 else ""
conf = {}
for line in open(sys.argv[1]):
    m = re.match(r"(C\d+-\d+) apply=(\d) demo_pristine=(\d+) demo_patched=(\d+) suite: (.*)", line)
    if m:
        conf[m.group(1)] = {"patch_applies": m.group(2) == "0", "demo_pristine_exit": int(m.group(3)),
                            "demo_patched_exit": int(m.group(4)), "suite_with_patch": m.group(5).strip(),
                            "ran": "tools/confirm_seed.sh + tools/seedtest.sh"}
    m = re.match(r"(CAUGHT|MISSED|INFRA-ERROR) /verif/seeded/(C\d+-\d+) \((C\d+), (\w+)\)", line)
    if m:
        name = m.group(2)
        p = root / "seeded" / name / "meta.json"
        meta = json.loads(p.read_text())
        c = meta.get("confirmed", {})
        c.update(conf.get(name, {}))
        prev = c.get("result", "")
        new = f"{m.group(1)} by ./check {m.group(3)} --tier {m.group(4)}" + (f" ({note})" if note else "")
        c["result"] = (prev + "; then " if prev else "") + new
        meta["confirmed"] = c
        p.write_text(json.dumps(meta, indent=1))
        print(name, c["result"])
