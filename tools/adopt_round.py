#!/usr/bin/env python3
"""adopt_round.py <outdir> <round-label> <result files...>
Copy candidates of a blind seeding round (as evaluated by tools/eval_round.sh) into seeded/Cxx-<n>/.
A candidate is adopted when its patch applied, its demo passed on the pristine tree and failed on
the patched one.  The suite result is recorded as measured (or 'pending' when the evaluation ran
with SKIP_SUITE; tools/confirm_suites.sh fills it in later).  Already adopted candidates (same
origin recorded in meta.json) are updated, not duplicated."""
import json, pathlib, re, shutil, sys
root = pathlib.Path(__file__).resolve().parent.parent
outdir, label = pathlib.Path(sys.argv[1]), sys.argv[2]
seeded = root / "seeded"
existing = {}
for m in seeded.glob("*/meta.json"):
    d = json.loads(m.read_text())
    if d.get("origin"):
        existing[d["origin"]] = m.parent
for rf in sys.argv[3:]:
    conf, res = {}, {}
    for line in open(rf):
        m = re.match(r"CONFIRM (\S+) apply=(\d+) demo_pristine=(\d+) demo_patched=(\d+) suite: (.*)", line)
        if m:
            conf[m.group(1)] = m.groups()[1:]
        m = re.match(r"(CAUGHT|MISSED|INFRA-ERROR) (\S+) \((C\d+), (\w+)\)", line)
        if m:
            res[m.group(2)] = (m.group(1), m.group(3), m.group(4))
        m = re.match(r"INFRA-ERROR (\S+) rc=(\d+)", line)
        if m:
            prop = json.loads((pathlib.Path(m.group(1)) / "meta.json").read_text())["property"]
            res[m.group(1)] = (f"INFRA-ERROR (exit {m.group(2)}: harness crashed)", prop, "quick")
    for cand, (ap, a, b, suite) in sorted(conf.items()):
        if cand not in res:
            print("no verdict for", cand); continue
        verdict, prop, tier = res[cand]
        if ap != "0" or a != "0" or b == "0":
            print("NOT ADOPTED (demo/patch not confirmed):", cand, ap, a, b); continue
        origin = f"{label}:{prop}/{pathlib.Path(cand).name}"
        if origin in existing:
            dst = existing[origin]
        else:
            nums = [int(p.name.split("-")[1]) for p in seeded.glob(f"{prop}-*")]
            dst = seeded / f"{prop}-{max(nums + [0]) + 1}"
            dst.mkdir()
            existing[origin] = dst
        for f in ("patch.diff", "demo.py"):
            shutil.copy(pathlib.Path(cand) / f, dst / f)
        meta = json.loads((pathlib.Path(cand) / "meta.json").read_text())
        old = json.loads((dst / "meta.json").read_text()) if (dst / "meta.json").exists() else {}
        meta["origin"] = origin
        c = old.get("confirmed", {})
        c.update({"patch_applies": True, "demo_pristine_exit": int(a), "demo_patched_exit": int(b),
                  "ran": "tools/eval_candidate.sh (scratch worktree confirm + tools/seedtest_iso.sh)"})
        if "stable_missing" in suite or "suite_with_patch" not in c:
            c["suite_with_patch"] = suite.strip() if "stable_missing" in suite else \
                "pending re-run (the seeding agent reported stable_missing=0)"
        new = f"{verdict} by ./check {prop} --tier {tier} ({label}, first evaluation)"
        if new not in c.get("result", ""):
            c["result"] = (c["result"] + "; then " if c.get("result") else "") + new
        meta["confirmed"] = c
        (dst / "meta.json").write_text(json.dumps(meta, indent=1))
        print(dst.name, "<-", origin, verdict)
