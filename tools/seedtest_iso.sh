#!/bin/bash
# usage: seedtest_iso.sh <dir-with-patch.diff-and-meta.json> [tier] [seed]
# Like seedtest.sh but never touches /repo or /verif: a scratch worktree of /repo HEAD gets the
# patch, a scratch copy of /verif (with its .lake build) runs the property's check against it
# (DCLAB_REPO).  Several of these can run concurrently.  Everything is removed afterwards.
# VERIF_SRC=<dir> uses that copy of the framework (e.g. a scratch worktree of /verif) instead of /verif.
set -u
d=$(realpath $1); tier=${2:-quick}; seed=${3:-0}
n=$(basename $(dirname $d))-$(basename $d)-$$
prop=$(python3 -c "import json,sys;print(json.load(open('$d/meta.json'))['property'])")
base=/tmp/iso/$n; mkdir -p $base
git -C /repo worktree add -q --detach $base/repo HEAD || exit 2
(cd /repo && git ls-files --others --ignored --exclude-standard | grep -E '\.so$|_version\.py$' | while read f; do mkdir -p $base/repo/$(dirname $f); cp $f $base/repo/$f; done)
git -C $base/repo apply "$d/patch.diff" || { echo "patch does not apply: $d"; git -C /repo worktree remove --force $base/repo; rm -rf $base; exit 2; }
rsync -a --exclude .git --exclude .work --exclude 'evidence/replays' ${VERIF_SRC:-/verif}/ $base/verif/
out=$(cd $base/verif && DCLAB_REPO=$base/repo VERIF_SEED=$seed ./check $prop --tier $tier 2>&1); rc=$?
echo "$out" | grep -E "VIOLATION|KNOWN-FINDING|INFRA|tier=" | cut -c1-260
for f in $base/verif/evidence/replays/*.json; do [ -f "$f" ] && { echo "--- $(basename $f)"; head -c 400 $f | tr '\n' ' '; echo; }; done
if [ $rc -eq 1 ]; then echo "CAUGHT $d ($prop, $tier)"; elif [ $rc -eq 0 ]; then echo "MISSED $d ($prop, $tier)"; else echo "INFRA-ERROR $d rc=$rc"; echo "$out" | tail -8; fi
git -C /repo worktree remove --force $base/repo
rm -rf $base
