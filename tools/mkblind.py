#!/usr/bin/env python3
"""mkblind.py Cxx [n] [round]: scratch worktree /tmp/bw/<round>-Cxx of /repo HEAD (with the compiled
modules), output dir /tmp/blind/<round>/Cxx, prompt for a blind seeding agent printed to
/tmp/seedtools/blind_<round>_Cxx.txt (tools/blind_prompt.txt).  The agent gets nothing from /verif
except an executable copy of run_suite.py under /tmp/seedtools."""
import json, pathlib, shutil, subprocess, sys
root = pathlib.Path(__file__).resolve().parent.parent
pid = sys.argv[1]; n = sys.argv[2] if len(sys.argv) > 2 else "4"; rnd = sys.argv[3] if len(sys.argv) > 3 else "r4"
wt = pathlib.Path(f"/tmp/bw/{rnd}-{pid}"); out = pathlib.Path(f"/tmp/blind/{rnd}/{pid}")
tools = pathlib.Path("/tmp/seedtools"); tools.mkdir(parents=True, exist_ok=True)
shutil.copy(root / "tools" / "run_suite.py", tools / "run_suite.py")
if not wt.exists():
    wt.parent.mkdir(parents=True, exist_ok=True)
    subprocess.run(["git", "-C", "/repo", "worktree", "add", "-q", "--detach", str(wt), "HEAD"], check=True)
    files = subprocess.run("git ls-files --others --ignored --exclude-standard | grep -E '\\.so$|_version\\.py$'",
                           shell=True, cwd="/repo", capture_output=True, text=True).stdout.split()
    for f in files:
        (wt / f).parent.mkdir(parents=True, exist_ok=True); shutil.copy(pathlib.Path("/repo") / f, wt / f)
out.mkdir(parents=True, exist_ok=True)
prop = [json.loads(l) for l in open(root / "properties.jsonl") if json.loads(l)["id"] == pid][0]
avoid = []
for m in sorted(root.glob(f"seeded/{pid}-*/meta.json")):
    avoid.append(json.loads(m.read_text())["summary"][:140].replace("\n", " "))
t = (root / "tools" / "blind_prompt.txt").read_text().replace("/verif/tools/run_suite.py", "/tmp/seedtools/run_suite.py")
t = t.replace("(takes 1–3 minutes; this is the one file under /verif you may execute; do not read it or anything else there)", "(takes 1–3 minutes)")
for k, v in {"@WT@": str(wt), "@OUT@": str(out), "@ID@": pid, "@N@": n, "@TITLE@": prop["title"],
             "@STATEMENT@": prop["statement"], "@QUANT@": str(prop.get("quantifier", "")),
             "@ANCHORS@": json.dumps(prop.get("anchors")), "@AVOID@": " || ".join(avoid) or "(none)"}.items():
    t = t.replace(k, v)
p = tools / f"blind_{rnd}_{pid}.txt"; p.write_text(t); print(p)
