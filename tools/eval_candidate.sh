#!/bin/bash
# usage: eval_candidate.sh <candidate-dir> [tier]
# <candidate-dir> holds patch.diff, demo.py, meta.json (as delivered by a blind sub-agent).
# 1. confirm in a scratch worktree of /repo HEAD: demo passes pristine, fails patched, pinned suite
#    still passes with the patch;  2. run the property's check against the patched tree in isolation
#    (tools/seedtest_iso.sh).  Prints one CONFIRM line and one CAUGHT/MISSED line.  Touches neither
#    /repo nor /verif.
set -u
d=$(realpath $1); tier=${2:-quick}
n=$(basename $(dirname $d))-$(basename $d)-$$; w=/tmp/confirm/$n
mkdir -p /tmp/confirm
git -C /repo worktree add -q --detach $w HEAD || exit 2
(cd /repo && git ls-files --others --ignored --exclude-standard | grep -E '\.so$|_version\.py$' | while read f; do mkdir -p $w/$(dirname $f); cp $f $w/$f; done)
timeout 900 /venv/bin/python $d/demo.py $w >/dev/null 2>&1; a=$?
git -C $w apply $d/patch.diff; ap=$?
timeout 900 /venv/bin/python $d/demo.py $w >/dev/null 2>&1; b=$?
if [ -n "${SKIP_SUITE:-}" ]; then s="(skipped)"; else s=$(/venv/bin/python /verif/tools/run_suite.py $w | head -1); fi
git -C /repo worktree remove --force $w
echo "CONFIRM $d apply=$ap demo_pristine=$a demo_patched=$b suite: $s"
$(dirname $0)/seedtest_iso.sh $d $tier
