#!/bin/bash
# usage: benign_round.sh <outdir> <Cxx>: run benign_eval on every candidate, 2 at a time
out=$1; p=$2; mkdir -p /verif/.work/benign
ls -d $out/$p/[0-9]* | xargs -P 2 -I{} sh -c '/verif/tools/benign_eval.sh {} quick > /verif/.work/benign/'$p'-$(basename {}).log 2>&1'
cat /verif/.work/benign/$p-*.log | grep -E "^QUIET|^ALARM|^INFRA|VIOLATION|does not apply" | cut -c1-220
