#!/usr/bin/env python3
"""validate MANIFEST.json and evidence/*.json against the schemas (run with python3-vt)"""
import json, sys, glob, jsonschema
root = __file__.rsplit("/tools/", 1)[0]
ok = True
man = json.load(open(f"{root}/MANIFEST.json"))
jsonschema.validate(man, json.load(open("/root/.vp/MANIFEST.schema.json")))
print("MANIFEST ok:", len(man["checks"]), "checks,", len(man.get("not_applicable", [])), "n/a")
props = [json.loads(l)["id"] for l in open(f"{root}/properties.jsonl")]
claimed = [c["property_id"] for c in man["checks"]]
na = [c["property_id"] for c in man.get("not_applicable", [])]
missing = [p for p in props if p not in claimed and p not in na]
if missing:
    print("properties neither claimed nor not_applicable:", missing); ok = False
es = json.load(open("/root/.vp/EVIDENCE.schema.json"))
for p in sorted(glob.glob(f"{root}/evidence/C*.json")):
    try:
        jsonschema.validate(json.load(open(p)), es)
    except Exception as e:
        print("INVALID", p, str(e)[:300]); ok = False
sys.exit(0 if ok else 1)
