#!/bin/bash
# run every claimed check of the given tier (default quick), 4 at a time; summary at the end
tier=${1:-quick}
cd /verif
ids=$(python3 -c "import json;print(' '.join(c['property_id'] for c in json.load(open('MANIFEST.json'))['checks']))")
mkdir -p .work/runall
for i in $ids; do echo $i; done | xargs -P 4 -I{} sh -c "./check {} --tier $tier > .work/runall/{}.log 2>&1; echo {} rc=\$? \$(tail -1 .work/runall/{}.log)"
