#!/usr/bin/env python3
"""record_reeval.py <label>: append the verdicts of .work/reeval/*.log to the seeds meta.json (second half of reeval_all.sh)"""
import json, pathlib, re, sys
label = sys.argv[1]
root = pathlib.Path("/verif")
for log in sorted((root / ".work/reeval").glob("C*-*.log")):
    name = log.stem
    txt = log.read_text()
    m = re.search(r"^(CAUGHT|MISSED|INFRA-ERROR)", txt, re.M)
    if "patch does not apply" in txt:
        verdict = "NOT APPLICABLE any more (the patch does not apply to the current /repo HEAD)"
    elif m:
        verdict = m.group(1)
    else:
        verdict = "NO VERDICT"
    mp = root / "seeded" / name / "meta.json"
    if not mp.exists():
        continue
    d = json.loads(mp.read_text())
    c = d.setdefault("confirmed", {})
    new = f"{verdict} by ./check {d['property']} --tier quick ({label})"
    if not c.get("result", "").endswith(new):
        c["result"] = (c["result"] + "; then " if c.get("result") else "") + new
    mp.write_text(json.dumps(d, indent=1))
    print(name, verdict)
