#!/usr/bin/env python3
"""seedstatus_all.py Cxx: one line per seeded change of that property with its LATEST verdict
(for the unit-agent prompt); not-CAUGHT ones first and in full."""
import json, pathlib, sys
root = pathlib.Path(__file__).resolve().parent.parent
pid = sys.argv[1]
caught, other = [], []
for m in sorted(root.glob(f"seeded/{pid}-*/meta.json"), key=lambda p: int(p.parent.name.split("-")[1])):
    d = json.loads(m.read_text())
    last = d["confirmed"]["result"].split("; then ")[-1]
    v = last.split(" by ")[0].split()[0].upper()
    if v == "CAUGHT":
        caught.append(m.parent.name)
    else:
        other.append(f"   - seeded/{m.parent.name}: {last[:160]} — {d['summary'][:500]} NEEDS: {d['needs_to_manifest'][:400]}")
print("\n".join(other) if other else "   (no seeded change of this property is currently missed)")
print("   currently CAUGHT (must stay caught): " + ", ".join("seeded/" + c for c in caught))
