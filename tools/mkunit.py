#!/usr/bin/env python3
"""mkunit.py Cxx [seed-status-file]: create scratch worktrees (tools/mkscratch.sh uCxx) and print the
unit-agent prompt for property Cxx (tools/unit_prompt.txt + tools/unit_targets.py)."""
import sys, subprocess, pathlib
root = pathlib.Path(__file__).resolve().parent.parent
sys.path.insert(0, str(root / "tools"))
from unit_targets import TARGETS
pid = sys.argv[1]
seeds = pathlib.Path(sys.argv[2]).read_text() if len(sys.argv) > 2 else "   (none recorded)"
t = (root / "tools" / "unit_prompt.txt").read_text()
t = t.replace("@SEEDS@", seeds.rstrip()).replace("@TARGETS@", TARGETS[pid]).replace("@ID@", pid).replace("@LID@", pid[1:])
out = pathlib.Path(f"/tmp/seedtools/unit_{pid}.txt")
out.write_text(t)
print(out)
