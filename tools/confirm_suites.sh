#!/bin/bash
# For every seeded/*/meta.json whose suite confirmation is pending: apply the patch in a scratch
# worktree of the commit it was written against (meta.base, default: /repo HEAD), run the pinned
# suite, record the first output line.  One at a time (low priority).
cd /verif
for m in seeded/*/meta.json; do
  grep -q '"suite_with_patch": "pending' $m || continue
  d=$(realpath $(dirname $m)); n=$(basename $d); w=/tmp/confirm/s-$n
  mkdir -p /tmp/confirm
  base=$(python3 -c "import json;print(json.load(open('$m')).get('base','HEAD'))")
  git -C /repo worktree add -q --detach $w $base || continue
  (cd /repo && git ls-files --others --ignored --exclude-standard | grep -E '\.so$|_version\.py$' | while read f; do mkdir -p $w/$(dirname $f); cp $f $w/$f; done)
  if git -C $w apply $d/patch.diff; then
    s=$(nice -n 10 /venv/bin/python /verif/tools/run_suite.py $w | head -1)
  else
    s="patch does not apply to $base"
  fi
  git -C /repo worktree remove --force $w
  python3 - "$m" "$s" <<'PY'
import json, sys
m, s = sys.argv[1], sys.argv[2]
d = json.load(open(m)); d["confirmed"]["suite_with_patch"] = s
json.dump(d, open(m, "w"), indent=1)
PY
  echo "$n: $s"
done
