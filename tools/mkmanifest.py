#!/usr/bin/env python3
"""Assemble MANIFEST.json from manifest/Cxx.json fragments (one per claimed property) and
manifest/_not_applicable.json; every property of properties.jsonl that has no fragment is
listed under not_applicable with the reason given there (default: check not built yet)."""
import json, pathlib
root = pathlib.Path(__file__).resolve().parent.parent
props = [json.loads(l)["id"] for l in open(root / "properties.jsonl")]
base = json.load(open("/root/.vp/BASELINE.json"))
na_reasons = {}
p = root / "manifest" / "_not_applicable.json"
if p.exists():
    na_reasons = json.loads(p.read_text())
checks, na = [], []
for pid in props:
    frag = root / "manifest" / f"{pid}.json"
    if frag.exists():
        f = json.loads(frag.read_text())
        c = {
            "property_id": pid,
            "quick_cmd": f"./check {pid} --tier quick",
            "thorough_cmd": f"./check {pid} --tier thorough",
            "evidence_file": f"/verif/evidence/{pid}.json",
            "replay_cmd_template": f"./check {pid} --replay {{path}}",
            "engine": "lean4-model+correspondence",
            "level_claimed": {"category": "proof", "text": f["text"],
                              "design_ref": f.get("design_ref", f"DESIGN.md section 8, {pid}")},
            "level_note": f["level_note"],
            "technique": f.get("technique", "Lean 4 refinement theorems over an executable model "
                               "+ seeded model/implementation correspondence"),
        }
        checks.append(c)
    else:
        na.append({"property_id": pid,
                   "reason": na_reasons.get(pid, "check not built yet in this round (planned in DESIGN.md section 8); not claimed")})
man = {
    "version": 1,
    "setup_cmd": "cd lean && lake build && cd .. && /venv/bin/python tools/selftest.py",
    "hooks": {
        "guard": "DC_ANALYSIS_DCLAB_VERIF",
        "enable": "checks set DC_ANALYSIS_DCLAB_VERIF=1 in their own process and import dclab from /repo's working tree (editable install); no source hooks are needed (DESIGN 6.4)",
        "baseline_off_cmd": base["cmd"],
        "source_commits": [],
        "add_only": True,
    },
    "engines": [{
        "name": "lean4-model+correspondence", "path": "check",
        "serves_properties": [c["property_id"] for c in checks],
        "kind_free_text": "Lean 4.33 theorems over hand-written executable models (lean/DclabModel), tables regenerated from /repo by harness translators, line-protocol correspondence against the real Python code (harness/cXX.py)"}],
    "checks": checks,
    "notes": "Exit 2 of a check = infrastructure problem (never a violation). known_findings.json lists genuine defects (open ones are printed as KNOWN-FINDING).",
    "not_applicable": na,
}
(root / "MANIFEST.json").write_text(json.dumps(man, indent=1) + "\n")
print("claimed", len(checks), "not_applicable", len(na))
