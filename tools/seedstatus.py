#!/usr/bin/env python3
"""seedstatus.py Cxx <origin-label>: lines describing the seeds of that round for the unit prompt"""
import json, pathlib, sys
root = pathlib.Path(__file__).resolve().parent.parent
pid, label = sys.argv[1], sys.argv[2]
for m in sorted(root.glob(f"seeded/{pid}-*/meta.json"), key=lambda p: int(p.parent.name.split("-")[1])):
    d = json.loads(m.read_text())
    if not str(d.get("origin", "")).startswith(label):
        continue
    last = d["confirmed"]["result"].split("; then ")[-1]
    print(f"   - seeded/{m.parent.name}: {last.split(' by ')[0]} — {d['summary'][:400]} NEEDS: {d['needs_to_manifest'][:400]}")
