#!/bin/bash
# usage: reeval_all.sh <label> [P] [glob]   re-evaluate seeded changes (default: all) with the CURRENT
# framework in isolation, P at a time; results go to .work/reeval/<id>.log and are appended to
# each meta.json's confirmed.result as "; then <verdict> by ./check Cxx --tier quick (<label>)".
label=$1; P=${2:-5}; glob=${3:-'seeded/C*-*'}
cd /verif; mkdir -p .work/reeval
ls -d $glob | xargs -P $P -I{} sh -c 'tools/seedtest_iso.sh {} quick > .work/reeval/$(basename {}).log 2>&1'
python3 - "$label" <<'PY'
import json, pathlib, re, sys
label = sys.argv[1]
root = pathlib.Path("/verif")
for log in sorted((root / ".work/reeval").glob("C*-*.log")):
    name = log.stem
    txt = log.read_text()
    m = re.search(r"^(CAUGHT|MISSED|INFRA-ERROR)", txt, re.M)
    if "patch does not apply" in txt:
        verdict = "NOT APPLICABLE any more (the patch does not apply to the current /repo HEAD)"
    elif m:
        verdict = m.group(1)
    else:
        verdict = "NO VERDICT"
    mp = root / "seeded" / name / "meta.json"
    if not mp.exists():
        continue
    d = json.loads(mp.read_text())
    c = d.setdefault("confirmed", {})
    new = f"{verdict} by ./check {d['property']} --tier quick ({label})"
    if not c.get("result", "").endswith(new):
        c["result"] = (c["result"] + "; then " if c.get("result") else "") + new
    mp.write_text(json.dumps(d, indent=1))
    print(name, verdict)
PY
