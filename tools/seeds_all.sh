#!/bin/bash
# Run every quick check for several seeds against a private copy of /repo's HEAD.
# usage (vp run --with-repo --): tools/seeds_all.sh 2 3 4 5 6
set -u
R=${VP_RUN_REPO:-/repo}
if [ "$R" != "/repo" ]; then
  (cd /repo && git ls-files --others --ignored --exclude-standard | grep -E '\.so$|_version\.py$') | while read f; do
    mkdir -p $R/$(dirname $f); cp /repo/$f $R/$f; done
fi
export DCLAB_REPO=$R
(cd lean && lake build 2>&1 | tail -1)
ids=$(python3 -c "import json;print(' '.join(c['property_id'] for c in json.load(open('MANIFEST.json'))['checks']))")
mkdir -p .work/seeds
for s in "$@"; do for i in $ids; do echo "$i $s"; done; done | xargs -P 3 -L 1 sh -c 'VERIF_SEED=$1 ./check $0 --tier quick > .work/seeds/$0-$1.log 2>&1; echo $0 seed=$1 rc=$? $(tail -1 .work/seeds/$0-$1.log | cut -c1-120)'
