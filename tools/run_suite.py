#!/usr/bin/env python3
"""Run dclab's pinned test-suite file-parallel and compare with BASELINE.json's stable_pass.

usage: run_suite.py [repo_dir]   (default /repo).  Exit 0 iff every stable_pass test passed.
Scratch output goes to a temp dir that is removed afterwards.
"""
import json, os, subprocess, sys, tempfile, shutil, glob, xml.etree.ElementTree as ET
from concurrent.futures import ThreadPoolExecutor

repo = os.path.abspath(sys.argv[1]) if len(sys.argv) > 1 else "/repo"
base = json.load(open("/root/.vp/BASELINE.json"))
stable = set(base["stable_pass"])
files = sorted(glob.glob(os.path.join(repo, "tests", "test_*.py")))
tmp = tempfile.mkdtemp(prefix="suite_", dir="/var/tmp")
env = dict(os.environ)
env.pop("DC_ANALYSIS_DCLAB_VERIF", None)
env["PYTHONPATH"] = repo

def run(f):
    out = os.path.join(tmp, os.path.basename(f) + ".xml")
    subprocess.run(["/venv/bin/python", "-m", "pytest", "-q", "-p", "no:cacheprovider",
                    "--timeout=900", "--continue-on-collection-errors",
                    "--junitxml=" + out, f], cwd=repo, env=env,
                   stdout=subprocess.DEVNULL, stderr=subprocess.DEVNULL)
    return out

# at most SUITE_SLOTS suites run at the same time on this machine (each uses 14 workers)
import fcntl, time
SUITE_SLOTS = 3
_slot = None
while _slot is None:
    for i in range(SUITE_SLOTS):
        f = open(f"/var/tmp/suite_slot_{i}.lock", "w")
        try:
            fcntl.flock(f, fcntl.LOCK_EX | fcntl.LOCK_NB)
            _slot = f
            break
        except OSError:
            f.close()
    else:
        time.sleep(5)
passed = set(); failed = {}
with ThreadPoolExecutor(14) as ex:
    for out in ex.map(run, files):
        if not os.path.exists(out):
            continue
        for tc in ET.parse(out).getroot().iter("testcase"):
            name = tc.get("classname") + "::" + tc.get("name")
            bad = [c.tag for c in tc if c.tag in ("failure", "error")]
            skip = [c.tag for c in tc if c.tag == "skipped"]
            if bad:
                failed[name] = (tc.find(bad[0]).get("message") or "")[:200]
            elif not skip:
                passed.add(name)
shutil.rmtree(tmp, ignore_errors=True)
missing = sorted(stable - passed)
print(f"passed={len(passed)} stable_pass={len(stable)} stable_missing={len(missing)}")
for m in missing:
    print("MISSING", m, "|", failed.get(m, "not run/skipped"))
sys.exit(1 if missing else 0)
