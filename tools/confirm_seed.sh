#!/bin/bash
# usage: confirm_seed.sh <seeded-dir>: in a scratch worktree of /repo HEAD confirm that
# (1) demo passes pristine, (2) fails with the patch, (3) the pinned suite still passes with it.
d=$(realpath $1); n=$(basename $d); w=/tmp/confirm/$n
mkdir -p /tmp/confirm
git -C /repo worktree add -q --detach $w HEAD || exit 2
(cd /repo && git ls-files --others --ignored --exclude-standard | grep -E '\.so$|_version\.py$' | while read f; do cp $f $w/$f; done)
/venv/bin/python $d/demo.py $w >/dev/null 2>&1; a=$?
git -C $w apply $d/patch.diff; ap=$?
/venv/bin/python $d/demo.py $w >/dev/null 2>&1; b=$?
s=$(/venv/bin/python /verif/tools/run_suite.py $w | head -1)
git -C /repo worktree remove --force $w
echo "$n apply=$ap demo_pristine=$a demo_patched=$b suite: $s"
