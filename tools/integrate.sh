#!/bin/bash
# usage: integrate.sh <name>: copy the unit files of branch wip-<name> into /verif's working tree
# (shared files are listed, not copied)
n=$1; cd /verif
base=$(git merge-base HEAD wip-$n)
git diff --name-status $base wip-$n | while read st f; do
  case "$f" in
    known_findings.json|MANIFEST.json|DESIGN.md|lean/DclabModel.lean|evidence/*|check|harness/common.py|harness/gen.py|CONTRIBUTING.md|properties.jsonl)
      echo "SHARED (not copied): $st $f";;
    *) if [ "$st" = "D" ]; then echo "DELETED in branch (ignored): $f"; else mkdir -p $(dirname $f); git show wip-$n:$f > $f; echo "copied $f"; fi;;
  esac
done
