#!/usr/bin/env python3
"""merge known_findings.add.json (list) into known_findings.json (by id), then delete the add file.
usage: merge_findings.py [id=commit ...]   to set commit ids of fixed entries"""
import json, sys, pathlib

root = pathlib.Path(__file__).resolve().parent.parent
kf = json.loads((root / "known_findings.json").read_text())
by = {f["id"]: f for f in kf["findings"]}
addp = root / "known_findings.add.json"
if addp.exists():
    add = json.loads(addp.read_text())
    if isinstance(add, dict):
        add = add['findings']
    for f in add:
        by[f["id"]] = f
    addp.unlink()
for a in sys.argv[1:]:
    i, c = a.split("=")
    by[i]["commit"] = c
    by[i]["status"] = "fixed"
    w = by[i]["what"]
    if not w.startswith("fixed:"):
        by[i]["what"] = f"fixed: property={by[i]['property']} {c} {w}"
def key(f):
    import re
    m = re.match(r"F(\d+)(.*)", f["id"]); return (int(m.group(1)), m.group(2))
kf["findings"] = sorted(by.values(), key=key)
(root / "known_findings.json").write_text(json.dumps(kf, indent=1) + "\n")
print(len(kf["findings"]), "findings:", " ".join(f"{f['id']}:{f['status']}" for f in kf["findings"]))
