#!/venv/bin/python
"""Harness self-test run by MANIFEST.setup_cmd: the tree under test imports, the version stub
works, and every Lean driver answers."""
import pathlib, sys
root = pathlib.Path(__file__).resolve().parent.parent
sys.path.insert(0, str(root))
from harness import common
d = common.import_dclab()
print("dclab from", d.__file__)
for drv in sorted((root / "lean" / "Drive").glob("C*.lean")):
    out = common.run_lean_driver(drv.stem, ["selftest-noop"])
    assert out == ["bad-op"], (drv, out)
    print("driver", drv.stem, "ok")
