#!/usr/bin/env python3
"""Set status/commit of fixed findings from the fix commits on /repo main (matched by subject)."""
import json, subprocess, re, pathlib
root = pathlib.Path(__file__).resolve().parent.parent
log = subprocess.run(['git', 'log', '--format=%h %s', '0c06498..HEAD'], capture_output=True,
                     text=True, cwd='/repo').stdout.splitlines()
M = {'F01': 'write_text re-creates', 'F02': 'event count of an hdf5 export', 'F03': 'removed min/max filter keys',
     'F04': 'hierarchy filter detects', 'F05': 'every crosstalk value', 'F06': 'all emodulus configuration keys',
     'F08': 'map upstream basins', 'F09': 'HDF5 attributes of tables', 'F10': 'do not skip features when pruning',
     'F11': 'sort input files by acquisition time', 'F12': 'fboolorfloat accepts', 'F13': 'check_feat_index reports',
     'F14': 'only follow basins whose class', 'F15': '17 significant digits', 'F15b': 'equals sign',
     'F18': 'frame cache keys', 'F19': 'bright_perc raised', 'F21': 'weights the running mean',
     'F22': 'do not verify basins that lack', 'F24': 'cached scalar feature arrays read-only',
     'F25': 'raising apply_filter', 'F26': 'basin_definition_copy handles', 'F28': 'condense_dataset creates',
     'F31': 'lazily cached contours', 'F32': 'manual hierarchy filters survive', 'F34': 'fintlist keeps zeros',
     'F41': 'rectify_metadata takes', 'F52': 'kde_multivariate mixed up', 'F61': 'ml_score data',
     'F62': 'cached ancillary features as available', 'F35': 'mixed reversed r with un-reversed z', 'F29': 'setup_task_paths refuses', 'F33': 'keeps an empty events group'}
def h(sub):
    r = [l.split()[0] for l in log if sub in l]
    assert len(r) == 1, (sub, r)
    return r[0]
p = root / 'known_findings.json'
d = json.loads(p.read_text())
for f in d['findings']:
    if f['id'] in M:
        c = h(M[f['id']]); f['commit'] = c; f['status'] = 'fixed'
        w = re.sub(r'^fixed: property=\S+ \S+ ', '', f['what'])
        f['what'] = f"fixed: property={f['property']} {c} {w}"
    elif f['status'] == 'fixed':
        print('WARNING: fixed finding without known commit', f['id'])
    if f['id'] in ('F23', 'F27'):
        f['property'] = 'C08,C13'
p.write_text(json.dumps(d, indent=1) + '\n')
print(len(log), 'fix commits on main;', sum(f['status'] == 'fixed' for f in d['findings']), 'fixed,',
      sum(f['status'] == 'open' for f in d['findings']), 'open')
