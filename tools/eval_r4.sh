#!/bin/bash
# usage: eval_r4.sh <outdir> Cxx... : evaluate blind candidates property by property (suite confirmation
# deferred: SKIP_SUITE=1, tools/confirm_suites.sh fills it in), results in .work/round/<Cxx>.result
out=$1; shift
for p in "$@"; do SKIP_SUITE=1 /verif/tools/eval_round.sh $out $p quick > /verif/.work/round/$p.result 2>&1; done
