#!/usr/bin/env python3
"""mkbenign.py Cxx [n] [round]: like mkblind.py but for behaviour-preserving changes
(worktree /tmp/bw/<round>-Cxx, output /tmp/blind/<round>/Cxx, prompt /tmp/seedtools/benign_<round>_Cxx.txt)."""
import json, pathlib, shutil, subprocess, sys
root = pathlib.Path(__file__).resolve().parent.parent
pid = sys.argv[1]; n = sys.argv[2] if len(sys.argv) > 2 else "4"; rnd = sys.argv[3] if len(sys.argv) > 3 else "b2"
wt = pathlib.Path(f"/tmp/bw/{rnd}-{pid}"); out = pathlib.Path(f"/tmp/blind/{rnd}/{pid}")
tools = pathlib.Path("/tmp/seedtools"); tools.mkdir(parents=True, exist_ok=True)
shutil.copy(root / "tools" / "run_suite.py", tools / "run_suite.py")
if not wt.exists():
    wt.parent.mkdir(parents=True, exist_ok=True)
    subprocess.run(["git", "-C", "/repo", "worktree", "add", "-q", "--detach", str(wt), "HEAD"], check=True)
    files = subprocess.run("git ls-files --others --ignored --exclude-standard | grep -E '\\.so$|_version\\.py$'",
                           shell=True, cwd="/repo", capture_output=True, text=True).stdout.split()
    for f in files:
        (wt / f).parent.mkdir(parents=True, exist_ok=True); shutil.copy(pathlib.Path("/repo") / f, wt / f)
out.mkdir(parents=True, exist_ok=True)
prop = [json.loads(l) for l in open(root / "properties.jsonl") if json.loads(l)["id"] == pid][0]
t = (root / "tools" / "benign_prompt.txt").read_text()
for k, v in {"@WT@": str(wt), "@OUT@": str(out), "@ID@": pid, "@N@": n, "@TITLE@": prop["title"],
             "@STATEMENT@": prop["statement"], "@ANCHORS@": json.dumps(prop.get("anchors"))}.items():
    t = t.replace(k, v)
p = tools / f"benign_{rnd}_{pid}.txt"; p.write_text(t); print(p)
