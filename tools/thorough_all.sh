#!/bin/bash
# Run every thorough check against a private copy of /repo's HEAD (so that /repo may be patched by
# seed tests meanwhile).  Intended for `vp run --with-repo -- tools/thorough_all.sh`.
set -u
R=${VP_RUN_REPO:-/repo}
if [ "$R" != "/repo" ]; then
  (cd /repo && git ls-files --others --ignored --exclude-standard | grep -E '\.so$|_version\.py$') | while read f; do
    mkdir -p $R/$(dirname $f); cp /repo/$f $R/$f; done
fi
export DCLAB_REPO=$R
(cd lean && lake build 2>&1 | tail -1)
ids=$(python3 -c "import json;print(' '.join(c['property_id'] for c in json.load(open('MANIFEST.json'))['checks']))")
mkdir -p .work/thorough
for i in $ids; do echo $i; done | xargs -P 3 -I{} sh -c "/usr/bin/time -f '%e s' ./check {} --tier thorough > .work/thorough/{}.log 2>&1; echo {} rc=\$? \$(tail -2 .work/thorough/{}.log | tr '\n' ' ')"
